import Proofs.WireCtxRt
/-! Reading across revisions, the general (multi-hole) case: the reader's type may differ from the writer's type
    in ANY number of delimited structures at ANY positions (fields appended or removed at their end, again
    containing revised members), and in trailing variants appended to unions.  The reader obtains the adapted
    value and stops exactly where the writer's representation ends. -/
namespace Wire

mutual
/-- `Evolves t t'`: a reader of `t'` understands what a writer of `t` writes -/
def Evolves : Ty → Ty → Prop
  | .farr e c, t' =>
      match t' with
      | .farr e' c' => c = c' ∧ Evolves e e'
      | _ => False
  | .varr e c, t' =>
      match t' with
      | .varr e' c' => c = c' ∧ Evolves e e'
      | _ => False
  | .struct fs m, t' =>
      match t' with
      | .struct fs' m' =>
          match m, m' with
          | .sealed, .sealed => EvolvesAll fs fs'
          | .delimited _, .delimited _ => EvolvesPrefix fs fs'
          | _, _ => False
      | _ => False
  | .union fs m, t' =>
      match t' with
      | .union fs' m' =>
          m.isSealed = m'.isSealed ∧ tagBits fs.length = tagBits fs'.length ∧ fs.length ≤ fs'.length ∧
            EvolvesPrefix fs fs'
      | _ => False
  | t, t' => t = t'
/-- same number of members, pairwise -/
def EvolvesAll : List Ty → List Ty → Prop
  | [], [] => True
  | t :: ts, t' :: ts' => Evolves t t' ∧ EvolvesAll ts ts'
  | _, _ => False
/-- pairwise on the common prefix; either side may have more members -/
def EvolvesPrefix : List Ty → List Ty → Prop
  | t :: ts, t' :: ts' => Evolves t t' ∧ EvolvesPrefix ts ts'
  | _, _ => True
end

mutual
/-- what the reader of `t'` makes of a value written as `t` -/
def adapt : Ty → Ty → Val → Val
  | .farr e _, t', v =>
      match t', v with
      | .farr e' _, .arr vs => .arr (vs.map fun w => adapt e e' w)
      | _, _ => v
  | .varr e _, t', v =>
      match t', v with
      | .varr e' _, .arr vs => .arr (vs.map fun w => adapt e e' w)
      | _, _ => v
  | .struct fs _, t', v =>
      match t', v with
      | .struct fs' _, .recd vs => .recd (adaptFields fs fs' vs)
      | _, _ => v
  | .union fs _, t', v =>
      match t', v with
      | .union fs' _, .var tag w => .var tag (adaptVariant fs fs' tag w)
      | _, _ => v
  | _, _, v => v
/-- common fields adapted; fields unknown to the writer read as defaults; fields unknown to the reader are dropped -/
def adaptFields : List Ty → List Ty → List Val → List Val
  | [], ts', _ => dfltFields ts'
  | _ :: _, [], _ => []
  | _ :: _, _ :: _, [] => []
  | t :: ts, t' :: ts', v :: vs => adapt t t' v :: adaptFields ts ts' vs
def adaptVariant : List Ty → List Ty → Nat → Val → Val
  | t :: _, t' :: _, 0, v => adapt t t' v
  | _ :: ts, _ :: ts', n+1, v => adaptVariant ts ts' n v
  | _, _, _, v => v
end

theorem evolves_align : ∀ (t t' : Ty), Evolves t t' → t'.align = t.align
  | .bool, t', h | .uint _ _, t', h | .sint _ _, t', h | .float _ _, t', h | .byte, t', h | .utf8, t', h
  | .void _, t', h => by simp only [Evolves] at h; rw [← h]
  | .farr e c, t', h => by
      cases t' with
      | farr e' c' => simp only [Evolves] at h; simp only [Ty.align]; exact evolves_align e e' h.2
      | _ => simp [Evolves] at h
  | .varr e c, t', h => by
      cases t' with
      | varr e' c' => simp only [Evolves] at h; simp only [Ty.align]; exact evolves_align e e' h.2
      | _ => simp [Evolves] at h
  | .struct fs m, t', h => by
      cases t' with
      | struct fs' m' => rfl
      | _ => simp [Evolves] at h
  | .union fs m, t', h => by
      cases t' with
      | union fs' m' => rfl
      | _ => simp [Evolves] at h

/-- round trip through `wrapDelim` / `unwrapDelim` with a different reader body: exact for sealed, and for
    delimited only the value matters because the parent continues behind the announced payload -/
theorem wrap_ev (m m' : Mode) (hm : m.isSealed = m'.isSealed) (w : Val) (bd : R → Except Err (Val × R))
    (be : Nat → List Bool)
    (hseal : m = .sealed → Rt bd be w 8)
    (hdel : ∀ o, o % 8 = 0 → ∃ q, bd ⟨o, be o⟩ = .ok (w, q))
    (hcongr : ∀ o o', o % 8 = o' % 8 → be o = be o')
    (hmod : ∀ o, o % 8 = 0 → (be o).length % 8 = 0)
    (hfit : ∀ x, m = .delimited x → (be 0).length / 8 < 2^32) :
    Rt (fun r => unwrapDelim m' r bd) (fun o => wrapDelim m o be) w 8 := by
  intro o junk ho
  cases m with
  | sealed =>
    cases m' with
    | sealed => exact hseal rfl o junk ho
    | delimited x' => simp [Mode.isSealed] at hm
  | delimited x =>
    cases m' with
    | sealed => simp [Mode.isSealed] at hm
    | delimited x' =>
      simp only [wrapDelim, unwrapDelim, List.append_assoc]
      have hfit' := hfit x rfl
      have hm8 := hmod 0 (by simp)
      rw [read_append' o headerBits (natBits headerBits ((be 0).length / 8)) (be 0 ++ junk) (by simp)]
      have hbn : bitsNat (natBits headerBits ((be 0).length / 8)) = (be 0).length / 8 :=
        bitsNat_natBits _ _ (by simp only [headerBits]; exact hfit')
      simp only [hbn]
      have h8 : (be 0).length / 8 * 8 = (be 0).length := by omega
      rw [h8]
      have hs : shorter (be 0 ++ junk) (be 0).length = false := by simp [shorter_iff]
      simp only [hs, Bool.false_eq_true, if_false, List.take_left', List.drop_left', bind_ok]
      have hc : be 0 = be (o + headerBits) := hcongr _ _ (by simp [headerBits]; omega)
      obtain ⟨q, hq⟩ := hdel (o + headerBits) (by simp [headerBits]; omega)
      rw [← hc] at hq
      refine ⟨_, hq, ?_⟩
      simp [Nat.add_assoc]
      rfl

theorem evolvesAll_prefix : ∀ (ts ts' : List Ty), EvolvesAll ts ts' → EvolvesPrefix ts ts'
  | [], [], _ => by simp [EvolvesPrefix]
  | [], _ :: _, h => by simp [EvolvesAll] at h
  | _ :: _, [], h => by simp [EvolvesAll] at h
  | t :: ts, t' :: ts', h => by
      simp only [EvolvesAll] at h
      simp only [EvolvesPrefix]
      exact ⟨h.1, evolvesAll_prefix ts ts' h.2⟩

theorem isUtf8_of : ∀ e : Ty, e.isUtf8 = true → e = .utf8
  | .utf8, _ => rfl
  | .bool, h | .uint _ _, h | .sint _ _, h | .float _ _, h | .byte, h | .void _, h
  | .farr _ _, h | .varr _ _, h | .struct _ _, h | .union _ _, h => by simp [Ty.isUtf8] at h

mutual
theorem evolve_rt : ∀ (t t' : Ty) (v : Val), t.wf = true → t'.wf = true → Evolves t t' → valid t v = true →
    Rt (dec t') (enc t v) (adapt t t' v) t.align
  | .bool, t', v, hw, _, h, hv => by
      simp only [Evolves] at h; subst h; simpa only [adapt] using dec_enc _ v hw hv
  | .uint _ _, t', v, hw, _, h, hv => by
      simp only [Evolves] at h; subst h; simpa only [adapt] using dec_enc _ v hw hv
  | .sint _ _, t', v, hw, _, h, hv => by
      simp only [Evolves] at h; subst h; simpa only [adapt] using dec_enc _ v hw hv
  | .float _ _, t', v, hw, _, h, hv => by
      simp only [Evolves] at h; subst h; simpa only [adapt] using dec_enc _ v hw hv
  | .byte, t', v, hw, _, h, hv => by
      simp only [Evolves] at h; subst h; simpa only [adapt] using dec_enc _ v hw hv
  | .utf8, t', v, hw, _, h, hv => by
      simp only [Evolves] at h; subst h; simpa only [adapt] using dec_enc _ v hw hv
  | .void _, t', v, hw, _, h, hv => by
      simp only [Evolves] at h; subst h; simpa only [adapt] using dec_enc _ v hw hv
  | .farr e cap, t', v, hw, hw', h, hv => by
      cases t' with
      | farr e' cap' =>
        simp only [Evolves] at h
        obtain ⟨rfl, he⟩ := h
        cases v with
        | arr vs =>
          simp only [Ty.wf, Bool.and_eq_true] at hw hw'
          simp only [valid, Bool.and_eq_true, beq_iff_eq, List.all_eq_true] at hv
          intro o junk ho
          simp only [Ty.align] at ho
          simp only [dec, enc, adapt, bind_ok]
          have := decRep_rt_map (fd := fun q => dec e' q) (fe := fun v o => enc e v o)
            (h := fun w => adapt e e' w) (a := e.align) vs o junk
            (fun w hw'' => evolve_rt e e' w hw.1.1.1 hw'.1.1.1 he (hv.2 w hw''))
            (fun w hw'' o' ho' => hasLen_mod e _ hw.1.1.1 (enc_len e w o' hw.1.1.1 (hv.2 w hw'') ho')) ho
          rw [hv.1] at this
          exact ⟨_, this, rfl⟩
        | _ => simp [valid] at hv
      | _ => simp [Evolves] at h
  | .varr e cap, t', v, hw, hw', h, hv => by
      cases t' with
      | varr e' cap' =>
        simp only [Evolves] at h
        obtain ⟨rfl, he⟩ := h
        cases v with
        | arr vs =>
          simp only [Ty.wf, Bool.and_eq_true, decide_eq_true_eq] at hw hw'
          simp only [valid, Bool.and_eq_true, decide_eq_true_eq, List.all_eq_true] at hv
          intro o junk ho
          simp only [Ty.align] at ho
          simp only [dec, enc, adapt, List.append_assoc]
          rw [read_append' o (lenBits cap) _ _ (natBits_length _ _)]
          have hlen : vs.length < 2^(lenBits cap) := Nat.lt_of_le_of_lt hv.1.1 (lt_pow_lenBits cap hw.1.2)
          simp only [bitsNat_natBits _ _ hlen]
          have hc : ¬ vs.length > cap := by omega
          simp only [hc, if_false, bind_ok]
          have h8 := lenBits_mod8 cap
          have ho' : (o + lenBits cap) % e.align = 0 := by
            rcases align_cases e with ha | ha <;> rw [ha] at ho ⊢ <;> omega
          have := decRep_rt_map (fd := fun q => dec e' q) (fe := fun v o => enc e v o)
            (h := fun w => adapt e e' w) (a := e.align) vs (o + lenBits cap) junk
            (fun w hw'' => evolve_rt e e' w hw.1.1.1 hw'.1.1.1 he (hv.1.2 w hw''))
            (fun w hw'' o' ho' => hasLen_mod e _ hw.1.1.1 (enc_len e w o' hw.1.1.1 (hv.1.2 w hw'') ho')) ho'
          refine ⟨_, this, ?_⟩
          have hu : (e'.isUtf8 && !validUtf8 (List.map Val.byteOf (vs.map fun w => adapt e e' w))) = false := by
            by_cases hu8 : e.isUtf8 = true
            · have := isUtf8_of e hu8
              subst this
              simp only [Evolves] at he
              subst he
              have hid : (vs.map fun w => adapt .utf8 .utf8 w) = vs := by
                simp only [adapt]; simp
              rw [hid]
              rcases Bool.or_eq_true _ _ |>.mp hv.2 with h | h
              · simp [Ty.isUtf8] at h
              · simp [h]
            · have : e'.isUtf8 = false := by
                cases e <;> cases e' <;> simp_all [Evolves, Ty.isUtf8]
              simp [this]
          simp only [hu, Bool.false_eq_true, if_false, List.length_append, natBits_length, Nat.add_assoc]
          rfl
        | _ => simp [valid] at hv
      | _ => simp [Evolves] at h
  | .struct fs m, t', v, hw, hw', h, hv => by
      cases t' with
      | struct fs' m' =>
        cases v with
        | recd vs =>
          simp only [Ty.wf, Bool.and_eq_true] at hw hw'
          simp only [valid] at hv
          simp only [Ty.align]
          have hmode : m.isSealed = m'.isSealed := by
            cases m <;> cases m' <;> simp_all [Evolves, Mode.isSealed]
          have hseal : m = .sealed → Rt (fun q => do
                let (ws, r') ← decFields fs' q
                pure (Val.recd ws, r'.alignTo 8)) (fun o => padTail o (encFields fs vs o))
                (.recd (adaptFields fs fs' vs)) 8 := by
            intro hms
            subst hms
            cases m' with
            | delimited _ => simp [Mode.isSealed] at hmode
            | sealed =>
              simp only [Evolves] at h
              intro o junk _
              simp only [padTail_append, bind_ok]
              refine ⟨_, evolveFieldsA fs fs' vs o _ hw.1 hw'.1 h hv, ?_⟩
              simp only [alignTo_zeros, padTail_length, Nat.add_assoc]
              rfl
          have hdel : ∀ o, o % 8 = 0 → ∃ q, (fun q => do
                let (ws, r') ← decFields fs' q
                pure (Val.recd ws, r'.alignTo 8)) ⟨o, padTail o (encFields fs vs o)⟩
                  = .ok (.recd (adaptFields fs fs' vs), q) := by
            intro o _
            have hp : EvolvesPrefix fs fs' := by
              cases m <;> cases m' <;> simp only [Evolves] at h
              · exact evolvesAll_prefix fs fs' h
              · exact h
            obtain ⟨q, hq⟩ := evolveFieldsP fs fs' vs o (padLen (o + (encFields fs vs o).length) 8) hw.1 hw'.1 hp hv
            refine ⟨q.alignTo 8, ?_⟩
            simp only [padTail, bind_ok]
            exact ⟨_, hq, rfl⟩
          have hmod : ∀ o, o % 8 = 0 → (padTail o (encFields fs vs o)).length % 8 = 0 := by
            intro o ho
            rw [padTail_length]
            have := padLen8_mod (o + (encFields fs vs o).length)
            omega
          have hfit : ∀ x, m = .delimited x → (padTail 0 (encFields fs vs 0)).length / 8 < 2^32 := by
            intro x hx
            subst hx
            have hl := enc_len (.struct fs .sealed) (.recd vs) 0 (by simp [Ty.wf, hw.1, modeOk])
              (by simpa [valid] using hv) (by simp [Ty.align])
            simp only [enc, wrapDelim] at hl
            have hle := hasLen_le _ _ hl
            simp only [modeOk, Bool.and_eq_true, decide_eq_true_eq] at hw
            omega
          intro o junk ho
          have := wrap_ev m m' hmode (.recd (adaptFields fs fs' vs)) _ _ hseal hdel
            (fun o o' h => by
              show padTail o (encFields fs vs o) = padTail o' (encFields fs vs o')
              rw [encFields_congr fs vs o o' h, padTail_congr _ h]) hmod hfit o junk ho
          simpa only [dec, enc, adapt] using this
        | _ => simp [valid] at hv
      | _ => simp [Evolves] at h
  | .union fs m, t', v, hw, hw', h, hv => by
      cases t' with
      | union fs' m' =>
        cases v with
        | var tag w =>
          simp only [Evolves] at h
          obtain ⟨hmode, htb, hle, hp⟩ := h
          simp only [Ty.wf, Bool.and_eq_true, decide_eq_true_eq] at hw hw'
          simp only [valid] at hv
          simp only [Ty.align]
          have h8 := tagBits_mod8 fs.length
          have htag : tag < 2^(tagBits fs.length) :=
            Nat.lt_of_lt_of_le (validVariant_lt fs tag w hv) (le_pow_tagBits _ hw.1.2)
          have hbody : Rt (fun q =>
                let (b, r1) := q.read (tagBits fs'.length)
                let tag' := bitsNat b
                do let (v', r') ← decVariant fs' tag' r1
                   pure (Val.var tag' v', r'.alignTo 8))
              (fun o => padTail o (natBits (tagBits fs.length) tag ++ encVariant fs tag w (o + tagBits fs.length)))
              (.var tag (adaptVariant fs fs' tag w)) 8 := by
            intro o junk ho
            simp only [padTail_append, List.append_assoc, ← htb]
            rw [read_append' o (tagBits fs.length) _ _ (natBits_length _ _)]
            simp only [bitsNat_natBits _ _ htag, bind_ok]
            refine ⟨_, evolveVariant fs fs' tag w (o + tagBits fs.length) _ hw.1.1.1.1 hw'.1.1.1.1 hp hv
              (by omega) hle, ?_⟩
            simp only [List.length_append, natBits_length]
            have e1 : o + tagBits fs.length + (encVariant fs tag w (o + tagBits fs.length)).length
                = o + (tagBits fs.length + (encVariant fs tag w (o + tagBits fs.length)).length) := by omega
            rw [e1, alignTo_zeros, padTail_length]
            simp only [List.length_append, natBits_length, Nat.add_assoc]
            rfl
          have hdel : ∀ o, o % 8 = 0 → ∃ q, (fun (q : R) =>
                let (b, r1) := q.read (tagBits fs'.length)
                let tag' := bitsNat b
                do let (v', r') ← decVariant fs' tag' r1
                   pure (Val.var tag' v', r'.alignTo 8))
              ⟨o, padTail o (natBits (tagBits fs.length) tag ++ encVariant fs tag w (o + tagBits fs.length))⟩
                = .ok (.var tag (adaptVariant fs fs' tag w), q) := by
            intro o ho
            have := hbody o [] ho
            rw [List.append_nil] at this
            exact ⟨_, this⟩
          have hmod : ∀ o, o % 8 = 0 → (padTail o (natBits (tagBits fs.length) tag ++
              encVariant fs tag w (o + tagBits fs.length))).length % 8 = 0 := by
            intro o ho
            rw [padTail_length]
            have := padLen8_mod (o + (natBits (tagBits fs.length) tag ++ encVariant fs tag w (o + tagBits fs.length)).length)
            omega
          have hfit : ∀ x, m = .delimited x → (padTail 0 (natBits (tagBits fs.length) tag ++
              encVariant fs tag w (0 + tagBits fs.length))).length / 8 < 2^32 := by
            intro x hx
            subst hx
            have hl := enc_len (.union fs .sealed) (.var tag w) 0
              (by simp [Ty.wf, hw.1.1.1.1, hw.1.1.1.2, hw.1.1.2, hw.1.2, modeOk]) (by simpa [valid] using hv)
              (by simp [Ty.align])
            simp only [enc, wrapDelim] at hl
            have hle := hasLen_le _ _ hl
            simp only [modeOk, Bool.and_eq_true, decide_eq_true_eq] at hw
            omega
          intro o junk ho
          have := wrap_ev m m' hmode (.var tag (adaptVariant fs fs' tag w)) _ _ (fun _ => hbody) hdel
            (fun o o' h => by
              show padTail o (natBits (tagBits fs.length) tag ++ encVariant fs tag w (o + tagBits fs.length))
                = padTail o' (natBits (tagBits fs.length) tag ++ encVariant fs tag w (o' + tagBits fs.length))
              rw [encVariant_congr fs tag w (o + tagBits fs.length) (o' + tagBits fs.length) (by omega),
                padTail_congr _ h]) hmod hfit o junk ho
          simpa only [dec, enc, adapt] using this
        | _ => simp [valid] at hv
      | _ => simp [Evolves] at h
/-- same number of fields: exact -/
theorem evolveFieldsA : ∀ (ts ts' : List Ty) (vs : List Val) (o : Nat) (junk : List Bool), wfFields ts = true →
    wfFields ts' = true → EvolvesAll ts ts' → validFields ts vs = true →
    decFields ts' ⟨o, encFields ts vs o ++ junk⟩ = .ok (adaptFields ts ts' vs, ⟨o + (encFields ts vs o).length, junk⟩)
  | [], ts', vs, o, junk, _, _, h, hv => by
      cases ts' with
      | nil =>
        cases vs with
        | nil => simp [decFields, encFields, adaptFields, dfltFields]
        | cons _ _ => simp [validFields] at hv
      | cons _ _ => simp [EvolvesAll] at h
  | _ :: _, [], _, _, _, _, _, h, _ => by simp [EvolvesAll] at h
  | _ :: _, _ :: _, [], _, _, _, _, _, hv => by simp [validFields] at hv
  | t :: ts, t' :: ts', v :: vs, o, junk, hw, hw', h, hv => by
      simp only [wfFields, Bool.and_eq_true] at hw hw'
      simp only [EvolvesAll] at h
      simp only [validFields, Bool.and_eq_true] at hv
      have hal' := evolves_align t t' h.1
      simp only [decFields, encFields, adaptFields, List.append_assoc, bind_ok, hal']
      rw [alignTo_zeros]
      have hal : (o + padLen o t.align) % t.align = 0 := padLen_dvd o t.align (align_pos t)
      have h1 := evolve_rt t t' v hw.1.1 hw'.1.1 h.1 hv.1 (o + padLen o t.align)
        (encFields ts vs (o + padLen o t.align + (enc t v (o + padLen o t.align)).length) ++ junk) hal
      have h2 := evolveFieldsA ts ts' vs (o + padLen o t.align + (enc t v (o + padLen o t.align)).length) junk
        hw.2 hw'.2 h.2 hv.2
      refine ⟨_, h1, _, h2, ?_⟩
      simp only [List.length_append, zeros_length, Nat.add_assoc]
      rfl
/-- any number of fields on either side, inside a bounded sub-reader (window = body ++ padding zeros):
    the value is what matters -/
theorem evolveFieldsP : ∀ (ts ts' : List Ty) (vs : List Val) (o p : Nat), wfFields ts = true →
    wfFields ts' = true → EvolvesPrefix ts ts' → validFields ts vs = true →
    ∃ q, decFields ts' ⟨o, encFields ts vs o ++ zeros p⟩ = .ok (adaptFields ts ts' vs, q)
  | [], ts', vs, o, p, _, hw', _, _ => by
      obtain ⟨o', k', hz⟩ := decFields_zeros ts' hw' o p
      exact ⟨_, by simpa [encFields, adaptFields] using hz⟩
  | t :: ts, [], vs, o, p, _, _, _, _ => by
      refine ⟨⟨o, encFields (t :: ts) vs o ++ zeros p⟩, ?_⟩
      simp [decFields, adaptFields]
  | _ :: _, _ :: _, [], _, _, _, _, _, hv => by simp [validFields] at hv
  | t :: ts, t' :: ts', v :: vs, o, p, hw, hw', h, hv => by
      simp only [wfFields, Bool.and_eq_true] at hw hw'
      simp only [EvolvesPrefix] at h
      simp only [validFields, Bool.and_eq_true] at hv
      have hal' := evolves_align t t' h.1
      simp only [decFields, encFields, adaptFields, List.append_assoc, bind_ok, hal']
      rw [alignTo_zeros]
      have hal : (o + padLen o t.align) % t.align = 0 := padLen_dvd o t.align (align_pos t)
      have h1 := evolve_rt t t' v hw.1.1 hw'.1.1 h.1 hv.1 (o + padLen o t.align)
        (encFields ts vs (o + padLen o t.align + (enc t v (o + padLen o t.align)).length) ++ zeros p) hal
      obtain ⟨q, h2⟩ := evolveFieldsP ts ts' vs (o + padLen o t.align + (enc t v (o + padLen o t.align)).length) p
        hw.2 hw'.2 h.2 hv.2
      exact ⟨q, _, h1, _, h2, rfl⟩
theorem evolveVariant : ∀ (ts ts' : List Ty) (n : Nat) (v : Val) (o : Nat) (junk : List Bool), wfFields ts = true →
    wfFields ts' = true → EvolvesPrefix ts ts' → validVariant ts n v = true → o % 8 = 0 →
    ts.length ≤ ts'.length →
    decVariant ts' n ⟨o, encVariant ts n v o ++ junk⟩
      = .ok (adaptVariant ts ts' n v, ⟨o + (encVariant ts n v o).length, junk⟩)
  | [], _, _, _, _, _, _, _, _, hv, _, _ => by simp [validVariant] at hv
  | _ :: _, [], _, _, _, _, _, _, _, _, _, hl => by simp at hl
  | t :: _, t' :: _, 0, v, o, junk, hw, hw', h, hv, ho, _ => by
      simp only [wfFields, Bool.and_eq_true] at hw hw'
      simp only [EvolvesPrefix] at h
      simp only [validVariant] at hv
      simp only [decVariant, encVariant, adaptVariant]
      exact evolve_rt t t' v hw.1.1 hw'.1.1 h.1 hv o junk (mod_align_zero t ho)
  | _ :: ts, _ :: ts', n+1, v, o, junk, hw, hw', h, hv, ho, hl => by
      simp only [wfFields, Bool.and_eq_true] at hw hw'
      simp only [EvolvesPrefix] at h
      simp only [validVariant] at hv
      simp only [decVariant, encVariant, adaptVariant]
      exact evolveVariant ts ts' n v o junk hw.2 hw'.2 h.2 hv ho (by simpa using hl)
end

/-! ### the relation: reflexivity, the two revision steps, congruence under containers -/

mutual
theorem evolves_refl : ∀ t : Ty, Evolves t t
  | .bool | .uint _ _ | .sint _ _ | .float _ _ | .byte | .utf8 | .void _ => by simp only [Evolves]
  | .farr e c => by simp only [Evolves]; exact ⟨trivial, evolves_refl e⟩
  | .varr e c => by simp only [Evolves]; exact ⟨trivial, evolves_refl e⟩
  | .struct fs m => by
      cases m with
      | sealed => simp only [Evolves]; exact evolvesAll_refl fs
      | delimited x => simp only [Evolves]; exact evolvesAll_prefix fs fs (evolvesAll_refl fs)
  | .union fs m => by
      simp only [Evolves]
      exact ⟨trivial, trivial, Nat.le_refl _, evolvesAll_prefix fs fs (evolvesAll_refl fs)⟩
theorem evolvesAll_refl : ∀ ts : List Ty, EvolvesAll ts ts
  | [] => by simp only [EvolvesAll]
  | t :: ts => by simp only [EvolvesAll]; exact ⟨evolves_refl t, evolvesAll_refl ts⟩
end

/-- fields appended at the end (the common fields may themselves be revised) -/
theorem evolvesPrefix_append_right : ∀ (fs fs' gs : List Ty), EvolvesAll fs fs' → EvolvesPrefix fs (fs' ++ gs)
  | [], _, _, _ => by simp [EvolvesPrefix]
  | _ :: _, [], _, h => by simp [EvolvesAll] at h
  | t :: ts, t' :: ts', gs, h => by
      simp only [EvolvesAll] at h
      simp only [List.cons_append, EvolvesPrefix]
      exact ⟨h.1, evolvesPrefix_append_right ts ts' gs h.2⟩

/-- fields removed at the end -/
theorem evolvesPrefix_append_left : ∀ (fs fs' gs : List Ty), EvolvesAll fs fs' → EvolvesPrefix (fs ++ gs) fs'
  | [], [], gs, _ => by cases gs <;> simp [EvolvesPrefix]
  | [], _ :: _, _, h => by simp [EvolvesAll] at h
  | _ :: _, [], _, h => by simp [EvolvesAll] at h
  | t :: ts, t' :: ts', gs, h => by
      simp only [EvolvesAll] at h
      simp only [List.cons_append, EvolvesPrefix]
      exact ⟨h.1, evolvesPrefix_append_left ts ts' gs h.2⟩

theorem evolvesAll_mid : ∀ (pre post : List Ty) (X X' : Ty), Evolves X X' →
    EvolvesAll (pre ++ X :: post) (pre ++ X' :: post)
  | [], post, X, X', h => by simp only [List.nil_append, EvolvesAll]; exact ⟨h, evolvesAll_refl post⟩
  | p :: pre, post, X, X', h => by
      simp only [List.cons_append, EvolvesAll]
      exact ⟨evolves_refl p, evolvesAll_mid pre post X X' h⟩

/-- a revision at one position of a container is a revision of the container (so the one-hole statement
    `C14.wire` is an instance of the general one) -/
theorem evolves_fill (C : Ctx) (X X' : Ty) (h : Evolves X X') : Evolves (C.fill X) (C.fill X') := by
  induction C with
  | hole => exact h
  | farr c cap ih => simp only [Ctx.fill, Evolves]; exact ⟨trivial, ih⟩
  | varr c cap ih => simp only [Ctx.fill, Evolves]; exact ⟨trivial, ih⟩
  | field pre c post m ih =>
    cases m with
    | sealed => simp only [Ctx.fill, Evolves]; exact evolvesAll_mid pre post _ _ ih
    | delimited x =>
      simp only [Ctx.fill, Evolves]; exact evolvesAll_prefix _ _ (evolvesAll_mid pre post _ _ ih)
  | variant pre c post m ih =>
    simp only [Ctx.fill, Evolves]
    exact ⟨trivial, by simp, by simp, evolvesAll_prefix _ _ (evolvesAll_mid pre post _ _ ih)⟩

/-- nothing changes when reader and writer agree -/
theorem adapt_refl (t : Ty) (v : Val) (hw : t.wf = true) (hv : valid t v = true) : adapt t t v = v := by
  have h1 := evolve_rt t t v hw hw (evolves_refl t) hv 0 [] (Nat.zero_mod _)
  have h2 := dec_enc t v hw hv 0 [] (Nat.zero_mod _)
  rw [h1] at h2
  injection h2 with h2
  exact (Prod.mk.inj h2).1

theorem adaptFields_append_right : ∀ (fs gs : List Ty) (vs : List Val), wfFields fs = true →
    validFields fs vs = true → adaptFields fs (fs ++ gs) vs = vs ++ dfltFields gs
  | [], gs, vs, _, hv => by
      cases vs with
      | nil => simp [adaptFields]
      | cons _ _ => simp [validFields] at hv
  | _ :: _, _, [], _, hv => by simp [validFields] at hv
  | t :: ts, gs, v :: vs, hw, hv => by
      simp only [wfFields, Bool.and_eq_true] at hw
      simp only [validFields, Bool.and_eq_true] at hv
      simp only [List.cons_append, adaptFields, adapt_refl t v hw.1.1 hv.1,
        adaptFields_append_right ts gs vs hw.2 hv.2]

theorem adaptFields_append_left : ∀ (fs gs : List Ty) (vs ws : List Val), wfFields fs = true →
    validFields fs vs = true → adaptFields (fs ++ gs) fs (vs ++ ws) = vs
  | [], gs, vs, ws, _, hv => by
      cases vs with
      | nil => cases gs <;> simp [adaptFields, dfltFields]
      | cons _ _ => simp [validFields] at hv
  | _ :: _, _, [], _, _, hv => by simp [validFields] at hv
  | t :: ts, gs, v :: vs, ws, hw, hv => by
      simp only [wfFields, Bool.and_eq_true] at hw
      simp only [validFields, Bool.and_eq_true] at hv
      simp only [List.cons_append, adaptFields, adapt_refl t v hw.1.1 hv.1,
        adaptFields_append_left ts gs vs ws hw.2 hv.2]

end Wire
