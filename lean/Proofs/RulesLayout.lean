import Proofs.LayoutAlign
import Proofs.RulesSpec
import Proofs.RulesArith
/-!
  Bridge from the extent rule of C05 to the layout model of C02.

  `Model/Rules.lean` computes the longest representation of a schema (`structMax`, `unionMax`, `Ty.maxBits`) by its own
  arithmetic.  Here every type of the rules model is translated into the layout model (`Model/Layout.lean`), and it is
  proved, for all schemas, that the number the extent rule compares against is `bit_length_set.max` of the translated
  sealed composite — the maximum of the length set that C02 proves to be the Specification's.

  A referenced composite is known to the rules model only by `CompInfo.maxBits`; the translation is therefore relative
  to an interpretation `ρ : CompInfo → Layout.Ty` of the references, and the theorems hold for EVERY interpretation that
  is `Faithful` (a well-formed Layout composite whose `bit_length_set.max` is the recorded `maxBits`).  `standIn` is
  one faithful interpretation whenever `8 ∣ maxBits`, so the hypotheses are satisfiable.
-/
namespace Rules
open Bls

/-! ### the translation -/

def Scalar.toLayout (ρ : CompInfo → Layout.Ty) : Scalar → Layout.Ty
  | .bool => .prim 1
  | .byte => .prim 8
  | .utf8 => .prim 8
  | .uint w _ => .prim w
  | .int w _ => .prim w
  | .float w _ => .prim w
  | .void w => .void w
  | .comp i => ρ i

def Ty.toLayout (ρ : CompInfo → Layout.Ty) : Ty → Layout.Ty
  | .scalar s => s.toLayout ρ
  | .fixedArr e cap => .farr (e.toLayout ρ) cap.toNat
  | .varArr e cap => .varr (e.toLayout ρ) cap.toNat

/-- the field types of a schema in order (paddings are void fields, constants are not fields) -/
def RSchema.fieldTys (sc : RSchema) : List Ty := (sc.attrs.filter RAttr.isField).map RAttr.ty

/-- the schema as a sealed composite of the layout model -/
def RSchema.toLayout (ρ : CompInfo → Layout.Ty) (sc : RSchema) : Layout.Ty :=
  if sc.union then .union (sc.fieldTys.map (Ty.toLayout ρ)) else .struct (sc.fieldTys.map (Ty.toLayout ρ))

/-- `ρ` interprets the reference `i` faithfully: a composite the layout constructors accept whose longest
    representation is the recorded one -/
structure Faithful (ρ : CompInfo → Layout.Ty) (i : CompInfo) : Prop where
  wf : (ρ i).wf = true
  composite : (ρ i).isComposite = true
  max : (ρ i).bls.max = i.maxBits

/-- a sealed structure with the given longest representation: `maxBits / 8` bytes (no field at all for 0) -/
def standIn (i : CompInfo) : Layout.Ty :=
  .struct (if i.maxBits = 0 then [] else [.farr (.prim 8) (i.maxBits / 8)])

theorem bpadTo_eq (a x : Nat) : Bls.padTo a x = Rules.padTo a x := rfl

theorem standIn_faithful (i : CompInfo) (h : 8 ∣ i.maxBits) : Faithful standIn i := by
  obtain ⟨k, hk⟩ := h
  by_cases h0 : i.maxBits = 0
  · refine ⟨?_, rfl, ?_⟩
    · simp [standIn, h0, Layout.Ty.wf, Layout.wfList]
    · simp only [standIn, h0, if_true, Layout.Ty.bls, Layout.aggStruct, Op.max, maxL, List.foldl_nil, Layout.comp_align,
        bpadTo_eq]
      exact padTo_of_dvd 8 0 (by omega) (Nat.dvd_zero 8)
  · have hk1 : 1 ≤ i.maxBits / 8 := by omega
    refine ⟨?_, rfl, ?_⟩
    · simp [standIn, h0, Layout.Ty.wf, Layout.wfList, hk1]
    · simp only [standIn, h0, if_false, Layout.Ty.bls, Layout.aggStruct, Layout.aggStructFrom, Op.max, maxL,
        List.foldl_nil, Layout.comp_align, bpadTo_eq]
      rw [padTo_of_dvd 8 _ (by omega) ⟨i.maxBits / 8, rfl⟩]
      omega

/-! ### hypotheses -/

def Scalar.RefsOk (ρ : CompInfo → Layout.Ty) : Scalar → Prop
  | .comp i => Faithful ρ i
  | _ => True

/-- what the constructors of the real library demand of a field type: the constructor checks of the rules model
    (widths, capacity ≥ 1), a variable-length capacity that fits the 64-bit length prefix, and references interpreted
    faithfully -/
def Ty.LayoutOk (ρ : CompInfo → Layout.Ty) : Ty → Prop
  | .scalar s => Spec.WidthOk s ∧ s.RefsOk ρ
  | .fixedArr e cap => Spec.WidthOk e ∧ e.RefsOk ρ ∧ 1 ≤ cap
  | .varArr e cap => Spec.WidthOk e ∧ e.RefsOk ρ ∧ 1 ≤ cap ∧ cap < 2 ^ 64

structure RSchema.LayoutOk (ρ : CompInfo → Layout.Ty) (sc : RSchema) : Prop where
  fields : ∀ t ∈ sc.fieldTys, t.LayoutOk ρ
  arity : sc.union = true → 2 ≤ sc.fieldTys.length ∧ sc.fieldTys.length ≤ 2 ^ 64

/-! ### scalars -/

theorem Scalar.toLayout_wf (ρ : CompInfo → Layout.Ty) (s : Scalar) (hw : Spec.WidthOk s) (hr : s.RefsOk ρ) :
    (s.toLayout ρ).wf = true := by
  cases s with
  | comp i => exact hr.wf
  | float w c =>
    simp only [Spec.WidthOk] at hw
    simp only [Scalar.toLayout, Layout.Ty.wf, Bool.and_eq_true, decide_eq_true_eq]; omega
  | int w c =>
    simp only [Spec.WidthOk] at hw
    simp only [Scalar.toLayout, Layout.Ty.wf, Bool.and_eq_true, decide_eq_true_eq]; omega
  | uint w c =>
    simp only [Spec.WidthOk] at hw
    simp only [Scalar.toLayout, Layout.Ty.wf, Bool.and_eq_true, decide_eq_true_eq]; omega
  | void w =>
    simp only [Spec.WidthOk] at hw
    simp only [Scalar.toLayout, Layout.Ty.wf, Bool.and_eq_true, decide_eq_true_eq]; omega
  | _ => simp [Scalar.toLayout, Layout.Ty.wf]

theorem Scalar.toLayout_align (ρ : CompInfo → Layout.Ty) (s : Scalar) (hr : s.RefsOk ρ) :
    (s.toLayout ρ).align = s.align := by
  cases s with
  | comp i => exact Layout.composite_align _ hr.wf hr.composite
  | _ => rfl

theorem Scalar.toLayout_max (ρ : CompInfo → Layout.Ty) (s : Scalar) (hr : s.RefsOk ρ) :
    (s.toLayout ρ).bls.max = s.maxBits := by
  cases s with
  | comp i => exact hr.max
  | _ => simp [Scalar.toLayout, Layout.Ty.bls, Op.max, maxL, Scalar.maxBits]

theorem Scalar.align_cases (s : Scalar) : s.align = 1 ∨ s.align = 8 := by
  cases s <;> simp [Scalar.align]

/-! ### the width of the implicit length prefix / union tag -/

theorem stdWidth_eq (n : Nat) (h : n < 2 ^ 64) : Layout.stdWidth n = pow2ceil8 (bitLength n) := by
  have hb : bitLength n ≤ 64 := (bitLength_le_iff n 64).mpr h
  have e : Layout.bitLength n = bitLength n := rfl
  unfold Layout.stdWidth
  rw [e, Layout.nextPow2_table _ (Nat.le_max_left _ _) (Nat.max_le.mpr ⟨by omega, hb⟩)]
  unfold pow2ceil8
  by_cases h8 : bitLength n ≤ 8
  · rw [Nat.max_eq_left h8]; simp [h8]
  · rw [Nat.max_eq_right (by omega)]
    by_cases h16 : bitLength n ≤ 16
    · simp [h8, h16]
    · by_cases h32 : bitLength n ≤ 32
      · simp [h8, h16, h32]
      · simp [h8, h16, h32, hb]

theorem pow2ceil8_le (n : Nat) (h : n < 2 ^ 64) : pow2ceil8 (bitLength n) ≤ 64 := by
  have := (pow2ceil8_bitLength_spec n h).1
  simp only [List.mem_cons, List.mem_nil_iff, or_false] at this
  omega

/-! ### types -/

theorem Ty.align_cases (t : Ty) : t.align = 1 ∨ t.align = 8 := by
  cases t <;> exact Scalar.align_cases _

theorem Ty.toLayout_align (ρ : CompInfo → Layout.Ty) (t : Ty) (h : t.LayoutOk ρ) : (t.toLayout ρ).align = t.align := by
  cases t with
  | scalar s => exact Scalar.toLayout_align ρ s h.2
  | fixedArr e cap => exact Scalar.toLayout_align ρ e h.2.1
  | varArr e cap => exact Scalar.toLayout_align ρ e h.2.1

theorem Ty.toLayout_wf (ρ : CompInfo → Layout.Ty) (t : Ty) (h : t.LayoutOk ρ) : (t.toLayout ρ).wf = true := by
  cases t with
  | scalar s => exact Scalar.toLayout_wf ρ s h.1 h.2
  | fixedArr e cap =>
    obtain ⟨hw, hr, hc⟩ := h
    simp only [Ty.toLayout, Layout.Ty.wf, Bool.and_eq_true, decide_eq_true_eq]
    exact ⟨Scalar.toLayout_wf ρ e hw hr, by omega⟩
  | varArr e cap =>
    obtain ⟨hw, hr, hc, hlt⟩ := h
    have hn : cap.toNat < 2 ^ 64 := by omega
    simp only [Ty.toLayout, Layout.Ty.wf, Bool.and_eq_true, decide_eq_true_eq]
    refine ⟨⟨Scalar.toLayout_wf ρ e hw hr, by omega⟩, ?_⟩
    unfold Layout.lenBits
    rw [stdWidth_eq _ hn, Scalar.toLayout_align ρ e hr]
    have := pow2ceil8_le _ hn
    have := Scalar.align_cases e
    omega

/-- the longest representation of a type as the rules model computes it is `bit_length_set.max` of its translation -/
theorem Ty.toLayout_max (ρ : CompInfo → Layout.Ty) (t : Ty) (h : t.LayoutOk ρ) : (t.toLayout ρ).bls.max = t.maxBits := by
  cases t with
  | scalar s => exact Scalar.toLayout_max ρ s h.2
  | fixedArr e cap =>
    simp only [Ty.toLayout, Layout.Ty.bls, Op.max, Ty.maxBits, Scalar.toLayout_max ρ e h.2.1]
  | varArr e cap =>
    obtain ⟨hw, hr, hc, hlt⟩ := h
    have hn : cap.toNat < 2 ^ 64 := by omega
    simp only [Ty.toLayout, Layout.Ty.bls, Op.max, sumMax, maxL, List.foldl_nil, Ty.maxBits, Scalar.toLayout_max ρ e hr,
      Layout.lenBits, stdWidth_eq _ hn, Scalar.toLayout_align ρ e hr, Nat.add_zero]

/-! ### structures -/

theorem aggStructFrom_max (ρ : CompInfo → Layout.Ty) (fs : List Ty) (h : ∀ t ∈ fs, t.LayoutOk ρ) (acc : Op) :
    (Layout.aggStructFrom acc (fs.map (Ty.toLayout ρ))).max =
      fs.foldl (fun off t => padTo t.align off + t.maxBits) acc.max := by
  induction fs generalizing acc with
  | nil => simp [Layout.aggStructFrom]
  | cons f fs ih =>
    simp only [List.map_cons, Layout.aggStructFrom, List.foldl_cons]
    rw [ih (fun t ht => h t (by simp [ht]))]
    congr 1
    simp only [Op.max, sumMax, Nat.add_zero, Ty.toLayout_align ρ f (h f (by simp)),
      Ty.toLayout_max ρ f (h f (by simp)), bpadTo_eq]

theorem structMax_eq (ρ : CompInfo → Layout.Ty) (fs : List Ty) (h : ∀ t ∈ fs, t.LayoutOk ρ) :
    structMax fs = (Layout.Ty.struct (fs.map (Ty.toLayout ρ))).bls.max := by
  simp only [Layout.Ty.bls, Op.max, Layout.comp_align, bpadTo_eq, structMax]
  congr 1
  cases fs with
  | nil => simp [Layout.aggStruct, Op.max, maxL]
  | cons f fs =>
    simp only [List.map_cons, Layout.aggStruct, List.foldl_cons]
    rw [aggStructFrom_max ρ fs (fun t ht => h t (by simp [ht])), Ty.toLayout_max ρ f (h f (by simp))]
    have h0 : padTo f.align 0 = 0 := by
      rcases Ty.align_cases f with ha | ha <;> rw [ha] <;> rfl
    rw [h0, Nat.zero_add]

/-! ### unions -/

theorem foldl_max_align (ρ : CompInfo → Layout.Ty) (fs : List Ty) (h : ∀ t ∈ fs, t.LayoutOk ρ) (x : Nat) :
    (fs.map Ty.align).foldl Nat.max x = max x (Layout.maxAlign (fs.map (Ty.toLayout ρ))) := by
  induction fs generalizing x with
  | nil => simp [Layout.maxAlign]
  | cons f fs ih =>
    simp only [List.map_cons, List.foldl_cons, Layout.maxAlign]
    rw [ih (fun t ht => h t (by simp [ht])), Ty.toLayout_align ρ f (h f (by simp))]
    show max (max x f.align) _ = _
    omega

theorem foldl_max_bits (ρ : CompInfo → Layout.Ty) (fs : List Ty) (h : ∀ t ∈ fs, t.LayoutOk ρ) (x : Nat) :
    (fs.map Ty.maxBits).foldl Nat.max x = max x (maxMax (Layout.blsList (fs.map (Ty.toLayout ρ)))) := by
  induction fs generalizing x with
  | nil => simp [Layout.blsList, maxMax]
  | cons f fs ih =>
    simp only [List.map_cons, List.foldl_cons, Layout.blsList, maxMax]
    rw [ih (fun t ht => h t (by simp [ht])), Ty.toLayout_max ρ f (h f (by simp))]
    show max (max x f.maxBits) _ = _
    omega

/-- the union tag of the rules model is `UnionType._compute_tag_bit_length` of the layout model -/
theorem tag_eq (ρ : CompInfo → Layout.Ty) (fs : List Ty) (h : ∀ t ∈ fs, t.LayoutOk ρ) (hl : fs.length ≤ 2 ^ 64)
    (h1 : 1 ≤ fs.length) :
    (fs.map Ty.align).foldl Nat.max (pow2ceil8 (bitLength (fs.length - 1))) = Layout.tagBits (fs.map (Ty.toLayout ρ)) := by
  rw [foldl_max_align ρ fs h]
  unfold Layout.tagBits
  rw [List.length_map, stdWidth_eq _ (by omega)]

theorem unionMax_eq (ρ : CompInfo → Layout.Ty) (fs : List Ty) (h : ∀ t ∈ fs, t.LayoutOk ρ) (h2 : 2 ≤ fs.length)
    (hl : fs.length ≤ 2 ^ 64) :
    unionMax fs = (Layout.Ty.union (fs.map (Ty.toLayout ρ))).bls.max := by
  have ht := tag_eq ρ fs h hl (by omega)
  have hb := foldl_max_bits ρ fs h 0
  match fs, h2 with
  | f :: g :: fs, _ =>
    simp only [unionMax]
    rw [ht, hb]
    simp only [List.map_cons, Layout.Ty.bls, Layout.aggUnion, Op.max, sumMax, maxL, List.foldl_nil, Layout.comp_align,
      bpadTo_eq, Nat.add_zero, Nat.zero_max]

theorem union_toLayout_wf (ρ : CompInfo → Layout.Ty) (fs : List Ty) (h : ∀ t ∈ fs, t.LayoutOk ρ) (h2 : 2 ≤ fs.length)
    (hl : fs.length ≤ 2 ^ 64) : (Layout.Ty.union (fs.map (Ty.toLayout ρ))).wf = true := by
  simp only [Layout.Ty.wf, Bool.and_eq_true, decide_eq_true_eq, Layout.wfList_iff, List.length_map]
  refine ⟨⟨?_, h2⟩, ?_⟩
  · intro x hx
    obtain ⟨t, ht, rfl⟩ := List.mem_map.mp hx
    exact Ty.toLayout_wf ρ t (h t ht)
  · unfold Layout.tagBits
    rw [List.length_map, stdWidth_eq _ (by omega)]
    have := pow2ceil8_le (fs.length - 1) (by omega)
    have := Layout.maxAlign_le (fs.map (Ty.toLayout ρ)) fun f _ => Layout.align_cases f
    omega

theorem struct_toLayout_wf (ρ : CompInfo → Layout.Ty) (fs : List Ty) (h : ∀ t ∈ fs, t.LayoutOk ρ) :
    (Layout.Ty.struct (fs.map (Ty.toLayout ρ))).wf = true := by
  simp only [Layout.Ty.wf, Layout.wfList_iff]
  intro x hx
  obtain ⟨t, ht, rfl⟩ := List.mem_map.mp hx
  exact Ty.toLayout_wf ρ t (h t ht)

/-! ### schemas -/

theorem Spec.longest_eq (sc : RSchema) :
    Spec.longest sc = if sc.union then unionMax sc.fieldTys else structMax sc.fieldTys := rfl

theorem RSchema.toLayout_wf (ρ : CompInfo → Layout.Ty) (sc : RSchema) (h : sc.LayoutOk ρ) : (sc.toLayout ρ).wf = true := by
  unfold RSchema.toLayout
  cases hu : sc.union
  · exact struct_toLayout_wf ρ _ h.fields
  · obtain ⟨h2, hl⟩ := h.arity hu
    exact union_toLayout_wf ρ _ h.fields h2 hl

/-- the number the extent rule compares against is `bit_length_set.max` of the translated sealed composite -/
theorem longest_eq_bls_max (ρ : CompInfo → Layout.Ty) (sc : RSchema) (h : sc.LayoutOk ρ) :
    Spec.longest sc = (sc.toLayout ρ).bls.max := by
  rw [Spec.longest_eq]
  unfold RSchema.toLayout
  cases hu : sc.union
  · exact structMax_eq ρ _ h.fields
  · obtain ⟨h2, hl⟩ := h.arity hu
    exact unionMax_eq ρ _ h.fields h2 hl

/-- … hence the greatest element of the Specification's length set of that composite (`den_bls` is C02) -/
theorem longest_is_greatest (ρ : CompInfo → Layout.Ty) (sc : RSchema) (h : sc.LayoutOk ρ) :
    Spec.longest sc ∈ Layout.specLens (sc.toLayout ρ) ∧ ∀ l ∈ Layout.specLens (sc.toLayout ρ), l ≤ Spec.longest sc := by
  have hw := RSchema.toLayout_wf ρ sc h
  rw [longest_eq_bls_max ρ sc h, ← Layout.den_bls _ hw]
  exact max_exact _ (Layout.bls_wf _ hw)

end Rules
