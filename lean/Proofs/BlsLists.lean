import Model.Bls
import Mathlib.Algebra.Group.Pointwise.Finset.Basic
import Mathlib.Algebra.Group.Pointwise.Finset.BigOperators
import Mathlib.Tactic.Ring
/-! List-level facts about the helpers of `Model/Bls.lean`: `dedup`, `cwr`, `product`, `minL`, `maxL`, `padTo`. -/
open scoped Pointwise
namespace Bls

@[simp] theorem mem_dedup (l : List Nat) (x : Nat) : x ∈ dedup l ↔ x ∈ l := by
  induction l with
  | nil => simp [dedup]
  | cons a l ih =>
    simp only [dedup]
    split <;> simp_all
    grind

theorem nodup_dedup (l : List Nat) : (dedup l).Nodup := by
  induction l with
  | nil => simp [dedup]
  | cons a l ih =>
    simp only [dedup]
    split
    · exact ih
    · exact List.nodup_cons.mpr ⟨‹_›, ih⟩

@[simp] theorem toFinset_dedup (l : List Nat) : (dedup l).toFinset = l.toFinset := by
  ext x; simp

/-- k-fold sumset = sums of length-k lists over S -/
theorem mem_nsmul_iff (S : Finset ℕ) (k y : ℕ) :
    y ∈ k • S ↔ ∃ m : List ℕ, m.length = k ∧ (∀ x ∈ m, x ∈ S) ∧ m.sum = y := by
  induction k generalizing y with
  | zero => simp [eq_comm]
  | succ k ih =>
    rw [succ_nsmul, Finset.mem_add]
    constructor
    · rintro ⟨a, ha, b, hb, rfl⟩
      obtain ⟨m, hl, hm, rfl⟩ := (ih a).mp ha
      exact ⟨b :: m, by simp [hl], by simpa [hb] using hm, by simp [add_comm]⟩
    · rintro ⟨m, hl, hm, rfl⟩
      match m, hl with
      | b :: m, hl =>
        refine ⟨m.sum, (ih _).mpr ⟨m, by simpa using hl, fun x hx => hm x (by simp [hx]), rfl⟩, b,
          hm b (by simp), by simp [add_comm]⟩

theorem cwr_sound (l : List Nat) (k : ℕ) : ∀ c ∈ cwr l k, c.length = k ∧ ∀ x ∈ c, x ∈ l := by
  induction l generalizing k with
  | nil => cases k <;> simp [cwr]
  | cons x xs ihx =>
    induction k with
    | zero => simp [cwr]
    | succ k ihk =>
      intro c hc
      simp only [cwr, List.mem_append, List.mem_map] at hc
      rcases hc with ⟨a, ha, rfl⟩ | hc
      · obtain ⟨h1, h2⟩ := ihk a ha
        exact ⟨by simp [h1], by intro y hy; simp at hy; rcases hy with rfl | hy <;> simp_all⟩
      · obtain ⟨h1, h2⟩ := ihx (k+1) c hc
        exact ⟨h1, fun y hy => List.mem_cons_of_mem _ (h2 y hy)⟩

theorem cwr_replicate (x : ℕ) (xs : List ℕ) (j n : ℕ) (c : List ℕ) (hc : c ∈ cwr xs n) :
    List.replicate j x ++ c ∈ cwr (x :: xs) (j + n) := by
  induction j with
  | zero =>
    simp only [List.replicate, List.nil_append, Nat.zero_add]
    cases n with
    | zero => simp [cwr] at hc ⊢; exact hc
    | succ n => simp [cwr, hc]
  | succ j ih =>
    have : j + 1 + n = (j + n) + 1 := by omega
    rw [this, cwr]
    simp only [List.mem_append, List.mem_map]
    left; exact ⟨_, ih, by simp [List.replicate_succ]⟩

theorem split_head (x : ℕ) (xs : List ℕ) : ∀ (m : List ℕ), (∀ y ∈ m, y ∈ x :: xs) →
    ∃ (j : ℕ) (r : List ℕ), (∀ y ∈ r, y ∈ xs) ∧ j + r.length = m.length ∧ j * x + r.sum = m.sum
  | [], _ => ⟨0, [], by simp, by simp, by simp⟩
  | b :: t, hm => by
      obtain ⟨j, r, h1, h2, h3⟩ := split_head x xs t (fun y hy => hm y (List.mem_cons_of_mem _ hy))
      have hb := hm b (by simp)
      rcases List.mem_cons.mp hb with rfl | hb
      · exact ⟨j+1, r, h1, by simp; omega, by simp [← h3]; ring⟩
      · refine ⟨j, b :: r, ?_, by simp; omega, by simp [← h3]; ring⟩
        intro y hy
        rcases List.mem_cons.mp hy with rfl | hy
        · exact hb
        · exact h1 y hy

theorem cwr_complete (l : List ℕ) : ∀ (k : ℕ) (m : List ℕ), m.length = k → (∀ x ∈ m, x ∈ l) →
    ∃ c ∈ cwr l k, c.sum = m.sum := by
  induction l with
  | nil =>
    intro k m hl hm
    cases m with
    | nil => subst hl; exact ⟨[], by simp [cwr], rfl⟩
    | cons a m => exact absurd (hm a (by simp)) (by simp)
  | cons x xs ih =>
    intro k m hl hm
    obtain ⟨j, r, h1, h2, h3⟩ := split_head x xs m hm
    obtain ⟨c, hc, hs⟩ := ih r.length r rfl h1
    refine ⟨List.replicate j x ++ c, ?_, by simp [hs, ← h3]⟩
    have := cwr_replicate x xs j r.length c hc
    rwa [h2, hl] at this

/-- The sums of `combinations_with_replacement(l, k)` are exactly the k-fold sumset of `set(l)`. -/
theorem cwr_sums (l : List ℕ) (k y : ℕ) : (∃ c ∈ cwr l k, c.sum = y) ↔ y ∈ k • l.toFinset := by
  rw [mem_nsmul_iff]
  constructor
  · rintro ⟨c, hc, rfl⟩
    obtain ⟨h1, h2⟩ := cwr_sound l k c hc
    exact ⟨c, h1, fun x hx => by simpa using h2 x hx, rfl⟩
  · rintro ⟨m, hl, hm, rfl⟩
    exact cwr_complete l k m hl (fun x hx => by simpa using hm x hx)

theorem toFinset_cwr_sums (l : List ℕ) (k : ℕ) : ((cwr l k).map List.sum).toFinset = k • l.toFinset := by
  ext y
  rw [← cwr_sums]
  simp

theorem mem_product_cons (l : List ℕ) (ls : List (List ℕ)) (t : List ℕ) :
    t ∈ product (l :: ls) ↔ ∃ a ∈ l, ∃ t' ∈ product ls, t = a :: t' := by
  simp only [product, List.mem_flatMap, List.mem_map]
  constructor
  · rintro ⟨a, ha, t', ht', rfl⟩; exact ⟨a, ha, t', ht', rfl⟩
  · rintro ⟨a, ha, t', ht', rfl⟩; exact ⟨a, ha, t', ht', rfl⟩

/-- Sums over `itertools.product` are the pointwise sum of the sets. -/
theorem toFinset_product_sums (ls : List (List ℕ)) :
    ((product ls).map List.sum).toFinset = (ls.map List.toFinset).sum := by
  induction ls with
  | nil => simp [product]; rfl
  | cons l ls ih =>
    ext y
    simp only [List.map_cons, List.sum_cons, Finset.mem_add, List.mem_toFinset, List.mem_map, mem_product_cons]
    rw [← ih]
    simp only [List.mem_toFinset, List.mem_map]
    constructor
    · rintro ⟨t, ⟨a, ha, t', ht', rfl⟩, rfl⟩
      exact ⟨a, ha, t'.sum, ⟨t', ht', rfl⟩, by simp⟩
    · rintro ⟨a, ha, b, ⟨t', ht', rfl⟩, rfl⟩
      exact ⟨a :: t', ⟨a, ha, t', ht', rfl⟩, by simp⟩

theorem foldl_min_mem (xs : List ℕ) (x : ℕ) : xs.foldl min x ∈ x :: xs := by
  induction xs generalizing x with
  | nil => simp
  | cons y ys ih =>
    simp only [List.foldl_cons]
    have h := ih (min x y)
    have hm : min x y = x ∨ min x y = y := by
      rcases Nat.le_total x y with h | h
      · left; exact Nat.min_eq_left h
      · right; exact Nat.min_eq_right h
    rcases hm with hm | hm <;> rw [hm] at h ⊢ <;> grind

theorem foldl_max_mem (xs : List ℕ) (x : ℕ) : xs.foldl max x ∈ x :: xs := by
  induction xs generalizing x with
  | nil => simp
  | cons y ys ih =>
    simp only [List.foldl_cons]
    have h := ih (max x y)
    have hm : max x y = x ∨ max x y = y := by
      rcases Nat.le_total x y with h | h
      · right; exact Nat.max_eq_right h
      · left; exact Nat.max_eq_left h
    rcases hm with hm | hm <;> rw [hm] at h ⊢ <;> grind

theorem minL_mem : ∀ (l : List ℕ), l ≠ [] → minL l ∈ l
  | [], h => absurd rfl h
  | x :: xs, _ => foldl_min_mem xs x

theorem foldl_min_le (xs : List ℕ) (x : ℕ) : xs.foldl min x ≤ x ∧ ∀ y ∈ xs, xs.foldl min x ≤ y := by
  induction xs generalizing x with
  | nil => simp
  | cons y ys ih =>
    simp only [List.foldl_cons]
    obtain ⟨h1, h2⟩ := ih (min x y)
    refine ⟨le_trans h1 (Nat.min_le_left _ _), ?_⟩
    intro z hz
    rcases List.mem_cons.mp hz with rfl | hz
    · exact le_trans h1 (Nat.min_le_right _ _)
    · exact h2 z hz

theorem minL_le (l : List ℕ) (y : ℕ) (hy : y ∈ l) : minL l ≤ y := by
  cases l with
  | nil => simp at hy
  | cons x xs =>
    simp only [minL]
    rcases List.mem_cons.mp hy with rfl | hy
    · exact (foldl_min_le xs _).1
    · exact (foldl_min_le xs x).2 y hy

theorem maxL_mem : ∀ (l : List ℕ), l ≠ [] → maxL l ∈ l
  | [], h => absurd rfl h
  | x :: xs, _ => foldl_max_mem xs x

theorem le_foldl_max (xs : List ℕ) (x : ℕ) : x ≤ xs.foldl max x ∧ ∀ y ∈ xs, y ≤ xs.foldl max x := by
  induction xs generalizing x with
  | nil => simp
  | cons y ys ih =>
    simp only [List.foldl_cons]
    obtain ⟨h1, h2⟩ := ih (max x y)
    refine ⟨le_trans (Nat.le_max_left _ _) h1, ?_⟩
    intro z hz
    rcases List.mem_cons.mp hz with rfl | hz
    · exact le_trans (Nat.le_max_right _ _) h1
    · exact h2 z hz

theorem le_maxL (l : List ℕ) (y : ℕ) (hy : y ∈ l) : y ≤ maxL l := by
  cases l with
  | nil => simp at hy
  | cons x xs =>
    simp only [maxL]
    rcases List.mem_cons.mp hy with rfl | hy
    · exact (le_foldl_max xs _).1
    · exact (le_foldl_max xs x).2 y hy

/-! `padTo a x` is the least multiple of `a` that is `≥ x`: "rounded up to a multiple of the alignment". -/

theorem padTo_dvd (a x : ℕ) : a ∣ padTo a x := Dvd.intro_left _ rfl

theorem le_padTo (a x : ℕ) (ha : 1 ≤ a) : x ≤ padTo a x := by
  unfold padTo
  have h := Nat.div_add_mod (x + a - 1) a
  have h2 := Nat.mod_lt (x + a - 1) ha
  have : a * ((x + a - 1) / a) = (x + a - 1) / a * a := Nat.mul_comm _ _
  omega

theorem padTo_least (a x m : ℕ) (ha : 1 ≤ a) (hm : a ∣ m) (hx : x ≤ m) : padTo a x ≤ m := by
  obtain ⟨q, rfl⟩ := hm
  unfold padTo
  have : (x + a - 1) / a ≤ q := by
    rw [Nat.div_le_iff_le_mul_add_pred ha]
    have : x ≤ a * q := hx
    omega
  calc (x + a - 1) / a * a ≤ q * a := Nat.mul_le_mul_right _ this
    _ = a * q := Nat.mul_comm _ _

theorem padTo_mono (a x y : ℕ) (h : x ≤ y) : padTo a x ≤ padTo a y := by
  unfold padTo
  exact Nat.mul_le_mul_right _ (Nat.div_le_div_right (by omega))

/-- Padding commutes with adding a multiple of a common multiple of the alignment. -/
theorem padTo_add_mul (a l q r : ℕ) (ha : 1 ≤ a) (hl : a ∣ l) : padTo a (l * q + r) = l * q + padTo a r := by
  obtain ⟨m, rfl⟩ := hl
  unfold padTo
  have : a * m * q + r + a - 1 = (r + a - 1) + a * (m * q) := by
    have : 1 ≤ r + a := by omega
    rw [Nat.mul_assoc]; omega
  rw [this, Nat.add_mul_div_left _ _ (by omega : 0 < a)]
  ring

/-- The arithmetic fact behind `PaddingOperator.modulo`: residues modulo `lcm(a, d)` determine the padded
    value modulo `d`. -/
theorem padTo_mod_lcm (a d x : ℕ) (ha : 1 ≤ a) :
    padTo a (x % Nat.lcm a d) % d = padTo a x % d := by
  have hl : a ∣ Nat.lcm a d := Nat.dvd_lcm_left a d
  have hd : d ∣ Nat.lcm a d := Nat.dvd_lcm_right a d
  conv_rhs => rw [← Nat.div_add_mod x (Nat.lcm a d)]
  rw [padTo_add_mul a _ _ _ ha hl]
  obtain ⟨m, hm⟩ := hd
  rw [hm, Nat.mul_assoc, Nat.mul_add_mod]

theorem equivK_mod (k d : ℕ) : equivK k d % d = k % d := by
  unfold equivK
  rcases Nat.le_total k (d + k % d) with h | h
  · rw [Nat.min_eq_left h]
  · rw [Nat.min_eq_right h, Nat.add_mod_left, Nat.mod_mod]

end Bls
