import Proofs.RulesLayout
/-!
  What the statement rules of an accepted definition give for the attributes of its schemas: every attribute type
  passed the constructor checks — so the layout bridge (`Proofs/RulesLayout.lean`) applies to the schemas of every
  accepted definition.
-/
namespace Rules
open Spec

/-- the schemas of a definition: request and response of a service, or the one schema of a message -/
def BState.schemas (b : BState) : List RSchema := b.done ++ [b.cur]

theorem mem_foldl_lastSeg (pre acc : List RStmt) (x : RStmt)
    (h : x ∈ pre.foldl (fun acc st => if st = .marker then [] else acc ++ [st]) acc) : x ∈ acc ∨ x ∈ pre := by
  induction pre generalizing acc with
  | nil => exact Or.inl h
  | cons st pre ih =>
    rw [List.foldl_cons] at h
    rcases ih _ h with h' | h'
    · split at h'
      · cases h'
      · rcases List.mem_append.mp h' with h'' | h''
        · exact Or.inl h''
        · right; simp only [List.mem_singleton] at h''; subst h''; exact List.mem_cons_self
    · exact Or.inr (List.mem_cons_of_mem _ h')

theorem mem_lastSeg {pre : List RStmt} {x : RStmt} (h : x ∈ lastSeg pre) : x ∈ pre := by
  rcases mem_foldl_lastSeg pre [] x h with h | h
  · cases h
  · exact h

theorem mem_firstSeg {pre : List RStmt} {x : RStmt} (h : x ∈ firstSeg pre) : x ∈ pre :=
  (List.takeWhile_sublist _).subset h

theorem mem_segSummary_attrs {seg : List RStmt} {a : RAttr} (h : a ∈ (segSummary seg).attrs) :
    ∃ st ∈ seg, st.toAttr = some a := by
  simpa [segSummary, List.mem_filterMap] using h

/-- every attribute of every schema was written as an attribute statement -/
theorem mem_schemas_attrs {stmts : List RStmt} {sc : RSchema} {a : RAttr} (hsc : sc ∈ (summ stmts).schemas)
    (ha : a ∈ sc.attrs) : ∃ st ∈ stmts, st.toAttr = some a := by
  simp only [BState.schemas, summ, List.mem_append, List.mem_singleton] at hsc
  rcases hsc with hsc | rfl
  · split at hsc
    · simp only [List.mem_singleton] at hsc
      subst hsc
      obtain ⟨st, hst, e⟩ := mem_segSummary_attrs ha
      exact ⟨st, mem_firstSeg hst, e⟩
    · cases hsc
  · obtain ⟨st, hst, e⟩ := mem_segSummary_attrs ha
    exact ⟨st, mem_lastSeg hst, e⟩

theorem typeOk_of_attrOk {st : RStmt} {a : RAttr} (e : st.toAttr = some a) (h : AttrOk st) : TypeOk a.ty := by
  cases st with
  | field t n => simp only [RStmt.toAttr, Option.some.injEq] at e; subst e; exact h.1
  | const t n => simp only [RStmt.toAttr, Option.some.injEq] at e; subst e; exact h.1
  | padding w => simp only [RStmt.toAttr, Option.some.injEq] at e; subst e; exact h
  | _ => simp [RStmt.toAttr] at e

theorem attrOk_of_stmtOk {pre : List RStmt} {st : RStmt} {a : RAttr} (e : st.toAttr = some a) (h : StmtOk pre st) :
    AttrOk st := by
  cases st with
  | field t n => exact h.1
  | const t n => exact h.1
  | padding w => exact h.1
  | _ => simp [RStmt.toAttr] at e

/-- in a definition whose statements obey the statement rules, every attribute type of every schema obeys the
    width / capacity rules -/
theorem schemas_typeOk {stmts : List RStmt} (hs : ∀ pre st post, stmts = pre ++ st :: post → StmtOk pre st)
    {sc : RSchema} (hsc : sc ∈ (summ stmts).schemas) : ∀ a ∈ sc.attrs, TypeOk a.ty := by
  intro a ha
  obtain ⟨st, hst, e⟩ := mem_schemas_attrs hsc ha
  obtain ⟨pre, post, hpp⟩ := List.append_of_mem hst
  exact typeOk_of_attrOk e (attrOk_of_stmtOk e (hs pre st post hpp))

/-! ### from the rules to the hypotheses of the layout bridge -/

/-- what the rules model does not see of a type: its references are interpreted faithfully (that a variable-length
    capacity fits the 64-bit length prefix is part of `TypeOk`) -/
def Ty.Fits (ρ : CompInfo → Layout.Ty) : Ty → Prop
  | .scalar s => s.RefsOk ρ
  | .fixedArr e _ => e.RefsOk ρ
  | .varArr e _ => e.RefsOk ρ

theorem Ty.layoutOk_of (ρ : CompInfo → Layout.Ty) (t : Ty) (h1 : TypeOk t) (h2 : t.Fits ρ) : t.LayoutOk ρ := by
  cases t with
  | scalar s => exact ⟨h1, h2⟩
  | fixedArr e cap => exact ⟨h1.1, h2, h1.2⟩
  | varArr e cap => exact ⟨h1.1, h2, h1.2.1, h1.2.2⟩

theorem mem_fieldTys {sc : RSchema} {t : Ty} (h : t ∈ sc.fieldTys) : ∃ a ∈ sc.attrs, a.ty = t := by
  simp only [RSchema.fieldTys, List.mem_map, List.mem_filter] at h
  obtain ⟨a, ⟨ha, _⟩, e⟩ := h
  exact ⟨a, ha, e⟩

theorem RSchema.layoutOk_of (ρ : CompInfo → Layout.Ty) (sc : RSchema) (ht : ∀ a ∈ sc.attrs, TypeOk a.ty)
    (hf : ∀ t ∈ sc.fieldTys, t.Fits ρ) (hu : sc.union = true → 2 ≤ (sc.attrs.filter RAttr.isField).length)
    (hl : sc.fieldTys.length ≤ 2 ^ 64) : sc.LayoutOk ρ := by
  refine ⟨fun t htm => ?_, fun h => ⟨?_, hl⟩⟩
  · obtain ⟨a, ha, rfl⟩ := mem_fieldTys htm
    exact Ty.layoutOk_of ρ _ (ht a ha) (hf _ htm)
  · simpa [RSchema.fieldTys] using hu h

end Rules
