import Proofs.ReaderDocs
/-! Doc comments per schema (C03): the flat list of documented attributes of `readText_docs`, cut at the positions the
    `---` markers dictate. -/
namespace Reader

/-- cut a list into consecutive pieces of the given lengths -/
def splitLengths {α : Type} : List Nat → List α → List (List α)
  | [], _ => []
  | n :: ns, l => l.take n :: splitLengths ns (l.drop n)

theorem splitLengths_flatten {α : Type} (L : List (List α)) : splitLengths (L.map List.length) L.flatten = L := by
  induction L with
  | nil => rfl
  | cons a L ih =>
    simp only [List.map_cons, List.flatten_cons, splitLengths, List.take_left', List.drop_left']
    rw [ih]

/-- an accepted text of well-formed lines, per schema: the fields / paddings (resp. the constants) of the i-th schema with
    their docs are the i-th piece of the documented attribute statements `attrDocs ls` (each with the comment run that
    follows its statement), cut where the statement list says the schemas end -/
theorem readText_docs_schema {c ls w comp w'} (hwf : ∀ l ∈ ls, l.wf) (h : readText c ls w = .ok (comp, w')) :
    comp.schemas.map (fun sc => sc.fields.map fun a => (a.core, a.doc)) =
      splitLengths ((Spec.of ls).schemas.map (·.fields.length)) ((attrDocs ls).filter (fun p => !isConst p)) ∧
    comp.schemas.map (fun sc => sc.consts.map fun a => (a.core, a.doc)) =
      splitLengths ((Spec.of ls).schemas.map (·.consts.length)) ((attrDocs ls).filter isConst) ∧
    comp.schemas.map (·.doc) = commentRun "" ls :: markerDocs ls := by
  obtain ⟨d1, d2, d3⟩ := readText_docs hwf h
  obtain ⟨m1, _⟩ := readText_mirror h
  refine ⟨?_, ?_, d3⟩
  · have hl : (comp.schemas.map (fun sc => sc.fields.map fun a => (a.core, a.doc))).map List.length =
        (Spec.of ls).schemas.map (·.fields.length) := by
      rw [← m1]; simp [Schema.view, Function.comp_def]
    rw [← hl, ← d1, List.flatMap_def]
    exact (splitLengths_flatten _).symm
  · have hl : (comp.schemas.map (fun sc => sc.consts.map fun a => (a.core, a.doc))).map List.length =
        (Spec.of ls).schemas.map (·.consts.length) := by
      rw [← m1]; simp [Schema.view, Function.comp_def]
    rw [← hl, ← d2, List.flatMap_def]
    exact (splitLengths_flatten _).symm

end Reader
