import Model.Wire
/-! Basic facts about the bit-level helpers of `Model/Wire.lean`. -/
namespace Wire

theorem bind_ok {ε α β} (x : Except ε α) (f : α → Except ε β) (b : β) :
    (x >>= f) = .ok b ↔ ∃ a, x = .ok a ∧ f a = .ok b := by
  cases x <;> simp [bind, Except.bind]

theorem bind_err {ε α β} (x : Except ε α) (f : α → Except ε β) (e : ε) :
    (x >>= f) = .error e ↔ x = .error e ∨ ∃ a, x = .ok a ∧ f a = .error e := by
  cases x <;> simp [bind, Except.bind]

@[simp] theorem zeros_length (n : Nat) : (zeros n).length = n := by simp [zeros]

@[simp] theorem natBits_length (n v : Nat) : (natBits n v).length = n := by
  induction n generalizing v <;> simp [natBits, *]

theorem bitsNat_natBits (n v : Nat) (h : v < 2^n) : bitsNat (natBits n v) = v := by
  induction n generalizing v with
  | zero => simp [natBits, bitsNat]; omega
  | succ n ih =>
    simp only [natBits, bitsNat]
    rw [ih (v/2) (by omega)]
    split <;> simp_all <;> omega

theorem bitsNat_lt (bs : List Bool) : bitsNat bs < 2^bs.length := by
  induction bs with
  | nil => simp [bitsNat]
  | cons b bs ih =>
    simp only [bitsNat, List.length_cons, Nat.pow_succ]
    split <;> omega

@[simp] theorem bitsNat_zeros (n : Nat) : bitsNat (zeros n) = 0 := by
  induction n with
  | zero => simp [zeros, bitsNat]
  | succ n ih => simp_all [zeros, List.replicate_succ, bitsNat]

theorem natBits_zero (n : Nat) : natBits n 0 = zeros n := by
  induction n with
  | zero => simp [natBits, zeros]
  | succ n ih => simp_all [natBits, zeros, List.replicate_succ]

@[simp] theorem takeZ_length (n : Nat) (s : List Bool) : (takeZ n s).length = n := by
  induction n generalizing s with
  | zero => simp [takeZ]
  | succ n ih => cases s <;> simp [takeZ, ih]

@[simp] theorem takeZ_nil (n : Nat) : takeZ n [] = zeros n := by
  induction n with
  | zero => simp [takeZ, zeros]
  | succ n ih => simp_all [takeZ, zeros, List.replicate_succ]

/-- reading exactly the bits that are there -/
theorem takeZ_append_left (a b : List Bool) : takeZ a.length (a ++ b) = a := by
  induction a with
  | nil => simp [takeZ]
  | cons x a ih => simp [takeZ, ih]

theorem takeZ_zeros (n k : Nat) : takeZ n (zeros k) = zeros n := by
  induction n generalizing k with
  | zero => simp [takeZ, zeros]
  | succ n ih =>
    cases k with
    | zero => simp [zeros]
    | succ k =>
      have := ih k
      simp only [zeros, List.replicate_succ, takeZ] at this ⊢
      rw [this]

theorem takeZ_ext (n k : Nat) (s : List Bool) : takeZ n (s ++ zeros k) = takeZ n s := by
  induction n generalizing s with
  | zero => simp [takeZ]
  | succ n ih =>
    cases s with
    | nil => simp [takeZ_zeros]
    | cons b s => simp [takeZ, ih]

theorem takeZ_eq_take (n : Nat) (s : List Bool) (h : n ≤ s.length) : takeZ n s = s.take n := by
  induction n generalizing s with
  | zero => simp [takeZ]
  | succ n ih =>
    cases s with
    | nil => simp at h
    | cons b s => simp [takeZ, ih s (by simpa using h)]

theorem shorter_iff (s : List Bool) (n : Nat) : shorter s n = decide (s.length < n) := by
  induction s generalizing n with
  | nil => cases n <;> simp [shorter]
  | cons b s ih => cases n <;> simp [shorter, ih]

theorem padLen_lt (off a : Nat) (h : 0 < a) : padLen off a < a := by
  unfold padLen; exact Nat.mod_lt _ h

theorem padLen_one (off : Nat) : padLen off 1 = 0 := by simp [padLen, Nat.mod_one]

theorem padLen_dvd (off a : Nat) (h : 0 < a) : (off + padLen off a) % a = 0 := by
  unfold padLen
  have h1 := Nat.mod_lt off h
  by_cases h0 : off % a = 0
  · simp [h0, Nat.mod_self]
  · have hp : (a - off % a) % a = a - off % a := Nat.mod_eq_of_lt (by omega)
    rw [hp]
    have : off + (a - off % a) = a * (off / a + 1) := by
      have := Nat.div_add_mod off a
      rw [Nat.mul_add]; omega
    rw [this]; simp

theorem padLen_of_dvd (off a : Nat) (h : off % a = 0) : padLen off a = 0 := by
  simp [padLen, h]

theorem padLen_mod (off a : Nat) : padLen (off % a) a = padLen off a := by
  simp [padLen]

theorem padLen_congr (off off' a : Nat) (h : off % a = off' % a) : padLen off a = padLen off' a := by
  simp [padLen, h]

/-- alignments are 1 or 8 -/
theorem align_cases : ∀ t : Ty, t.align = 1 ∨ t.align = 8
  | .bool | .uint _ _ | .sint _ _ | .float _ _ | .byte | .utf8 | .void _ => by simp [Ty.align]
  | .farr e _ => by simpa [Ty.align] using align_cases e
  | .varr e _ => by simpa [Ty.align] using align_cases e
  | .struct _ _ | .union _ _ => by simp [Ty.align]

theorem align_pos (t : Ty) : 0 < t.align := by
  rcases align_cases t with h | h <;> omega

theorem lenBits_cases (cap : Nat) : lenBits cap = 8 ∨ lenBits cap = 16 ∨ lenBits cap = 32 ∨ lenBits cap = 64 := by
  unfold lenBits; split <;> (try split) <;> (try split) <;> simp

theorem lenBits_mod8 (cap : Nat) : lenBits cap % 8 = 0 := by
  rcases lenBits_cases cap with h | h | h | h <;> omega

theorem lt_pow_lenBits (cap : Nat) (h : cap < 2^64) : cap < 2^(lenBits cap) := by
  unfold lenBits; split <;> (try split) <;> (try split) <;> omega

theorem tagBits_cases (n : Nat) : tagBits n = 8 ∨ tagBits n = 16 ∨ tagBits n = 32 ∨ tagBits n = 64 := by
  unfold tagBits; split <;> (try split) <;> (try split) <;> simp

theorem tagBits_mod8 (n : Nat) : tagBits n % 8 = 0 := by
  rcases tagBits_cases n with h | h | h | h <;> omega

theorem le_pow_tagBits (n : Nat) (h : n ≤ 2^64) : n ≤ 2^(tagBits n) := by
  unfold tagBits; split <;> (try split) <;> (try split) <;> omega

end Wire
