import Model.Expr
/-!
  The character-level lexer of the model inverts the renderer: for every list of well-formed tokens and every spacing,
  `lex (renderToks σ ts) = some ts`.

  Method: every scanner commutes with appending input whose first character it does not react to (`*_ext`), so what
  `lexOne` does on the text of a token does not change when an admissible continuation is appended (`lexOne_ext`).
-/
set_option linter.unusedSimpArgs false
set_option linter.unusedVariables false
namespace Ex

/-- the next character, if there is one, is none the scanner reacts to -/
def Stop (q : Char → Bool) (R : List Char) : Prop := ∀ c ∈ R.head?, q c = false

theorem Stop.mono {q q' : Char → Bool} {R : List Char} (h : Stop q R) (hq : ∀ c, q' c = true → q c = true) : Stop q' R := by
  intro c hc
  have := h c hc
  cases h' : q' c with
  | false => rfl
  | true => rw [hq c h'] at this; exact absurd this (by simp)

theorem Stop.nil (q : Char → Bool) : Stop q [] := by intro c hc; simp at hc

theorem Stop.cons {q : Char → Bool} {c : Char} {R : List Char} (h : Stop q (c :: R)) : q c = false := h c (by simp)

/-- append to the rest of a scanner result -/
def Scan.ext (o : Scan) (R : List Char) : Scan := o.map fun x => (x.1, x.2 ++ R)

@[simp] theorem Scan.ext_none (R : List Char) : Scan.ext none R = none := rfl
@[simp] theorem Scan.ext_some (x : List Char × List Char) (R : List Char) : Scan.ext (some x) R = some (x.1, x.2 ++ R) := rfl

/-! ### digit runs -/

theorem headIs_append (p : Char → Bool) (R : List Char) (hR : Stop p R) (r : List Char) : headIs p (r ++ R) = headIs p r := by
  cases r with
  | nil =>
    cases R with
    | nil => rfl
    | cons c R' => simpa [headIs] using hR.cons
  | cons d r' => rfl

theorem scanDigitsTail_ext (p : Char → Bool) (R : List Char) (hR : Stop (fun c => p c || c == '_') R) (s : List Char) :
    scanDigitsTail p (s ++ R) = ((scanDigitsTail p s).1, (scanDigitsTail p s).2 ++ R) := by
  have hRp : Stop p R := hR.mono (fun c h => by simp [h])
  induction s with
  | nil =>
    cases R with
    | nil => simp [scanDigitsTail]
    | cons c R' =>
      have := hR.cons
      simp only [Bool.or_eq_false_iff] at this
      simp [scanDigitsTail, this.1, this.2]
  | cons c r ih =>
    simp only [List.cons_append, scanDigitsTail, headIs_append p R hRp r]
    split <;> simp [ih]

theorem scanDigitsTail_split (p : Char → Bool) (s : List Char) :
    (scanDigitsTail p s).1 ++ (scanDigitsTail p s).2 = s := by
  induction s with
  | nil => simp [scanDigitsTail]
  | cons c r ih =>
    simp only [scanDigitsTail]
    split <;> simp [ih]

theorem scanDigits_ext (p : Char → Bool) (R : List Char) (hR : Stop (fun c => p c || c == '_') R) (s : List Char) :
    scanDigits p (s ++ R) = (scanDigits p s).ext R := by
  cases s with
  | nil =>
    cases R with
    | nil => simp [scanDigits]
    | cons c R' =>
      have := hR.cons
      simp only [Bool.or_eq_false_iff] at this
      simp [scanDigits, this.1]
  | cons c r =>
    by_cases hc : p c <;> simp [scanDigits, hc, scanDigitsTail_ext p R hR r]

theorem scanDigits_split (p : Char → Bool) (s : List Char) (x : List Char × List Char) (h : scanDigits p s = some x) :
    x.1 ++ x.2 = s := by
  cases s with
  | nil => simp [scanDigits] at h
  | cons c r =>
    by_cases hc : p c
    · simp [scanDigits, hc] at h; subst h; simp [scanDigitsTail_split]
    · simp [scanDigits, hc] at h

/-! ### character classes -/

/-- what a number scanner may react to -/
def qNum (c : Char) : Bool := isIdentChar c || c == '.'

theorem isDigitC_ident {c : Char} (h : isDigitC c = true) : isIdentChar c = true := by simp [isIdentChar, h]
theorem isZeroC_digit {c : Char} (h : isZeroC c = true) : isDigitC c = true := by
  simp only [isZeroC, beq_iff_eq] at h; subst h; decide
theorem isNzDigitC_digit {c : Char} (h : isNzDigitC c = true) : isDigitC c = true := by
  simp only [isNzDigitC, isDigitC, Bool.and_eq_true, decide_eq_true_eq] at h ⊢
  exact ⟨Char.le_trans (by decide) h.1, h.2⟩
theorem isBinC_digit {c : Char} (h : isBinC c = true) : isDigitC c = true := by
  simp only [isBinC, Bool.or_eq_true, beq_iff_eq] at h; rcases h with rfl | rfl <;> decide
theorem isOctC_digit {c : Char} (h : isOctC c = true) : isDigitC c = true := by
  simp only [isOctC, isDigitC, Bool.and_eq_true, decide_eq_true_eq] at h ⊢
  exact ⟨h.1, Char.le_trans h.2 (by decide)⟩
theorem isHexC_ident {c : Char} (h : isHexC c = true) : isIdentChar c = true := by
  simp only [isHexC, isIdentChar, isIdentStart, isDigitC, Bool.or_eq_true, Bool.and_eq_true, decide_eq_true_eq] at h ⊢
  rcases h with (h | h) | h
  · right; exact h
  · left; left; left; exact ⟨h.1, Char.le_trans h.2 (by decide)⟩
  · left; left; right; exact ⟨h.1, Char.le_trans h.2 (by decide)⟩

theorem stopNum_of (p : Char → Bool) (hp : ∀ c, p c = true → isIdentChar c = true) {R : List Char} (h : Stop qNum R) :
    Stop (fun c => p c || c == '_') R := by
  refine h.mono fun c hc => ?_
  simp only [Bool.or_eq_true, beq_iff_eq] at hc
  rcases hc with hc | rfl
  · simp [qNum, hp c hc]
  · decide

theorem stopDigit {R : List Char} (h : Stop qNum R) : Stop (fun c => isDigitC c || c == '_') R :=
  stopNum_of isDigitC (fun _ => isDigitC_ident) h

theorem Stop.ne {q : Char → Bool} {c : Char} {R : List Char} (h : Stop q (c :: R)) (x : Char) (hx : q x = true) : c ≠ x := by
  rintro rfl; rw [h.cons] at hx; exact absurd hx (by simp)

/-! ### integer literals -/

theorem scanPrefixed_ext (p : Char → Bool) (hp : ∀ c, p c = true → isIdentChar c = true) (lo up : Char)
    (hlo : isIdentChar lo = true) (hup : isIdentChar up = true)
    (R : List Char) (hR : Stop qNum R) (s : List Char) :
    scanPrefixed p lo up (s ++ R) = (scanPrefixed p lo up s).ext R := by
  have hR' := stopNum_of p hp hR
  match s with
  | [] =>
    cases R with
    | nil => simp [scanPrefixed]
    | cons c R' =>
      have h0 : c ≠ '0' := hR.ne '0' (by decide)
      unfold scanPrefixed
      split
      · rename_i heq; simp only [List.nil_append, List.cons.injEq] at heq; exact absurd heq.1 h0
      · simp [scanPrefixed]
  | [z] =>
    by_cases hz : z = '0'
    · subst hz
      cases R with
      | nil => simp [scanPrefixed]
      | cons c R' =>
        have h1 : c ≠ lo := hR.ne lo (by simp [qNum, hlo])
        have h2 : c ≠ up := hR.ne up (by simp [qNum, hup])
        simp [scanPrefixed, h1, h2]
    · have : ∀ r, scanPrefixed p lo up (z :: r) = none := by
        intro r; unfold scanPrefixed; split
        · rename_i heq; simp only [List.cons.injEq] at heq; exact absurd heq.1 hz
        · rfl
      simp [this]
  | z :: c :: r =>
    by_cases hz : z = '0'
    · subst hz
      by_cases hc : (c == lo || c == up) = true
      · simp only [List.cons_append, scanPrefixed, hc, ↓reduceIte, scanDigitsTail_ext p R hR' r]
        split <;> simp
      · simp [scanPrefixed, hc]
    · have : ∀ r, scanPrefixed p lo up (z :: r) = none := by
        intro r; unfold scanPrefixed; split
        · rename_i heq; simp only [List.cons.injEq] at heq; exact absurd heq.1 hz
        · rfl
      simp [this]

theorem scanDecimal_ext (R : List Char) (hR : Stop qNum R) (s : List Char) :
    scanDecimal (s ++ R) = (scanDecimal s).ext R := by
  cases s with
  | nil =>
    cases R with
    | nil => simp [scanDecimal]
    | cons c R' =>
      have h0 : c ≠ '0' := hR.ne '0' (by decide)
      have h1 : isNzDigitC c = false := by
        cases h : isNzDigitC c with
        | false => rfl
        | true => have := hR.cons; simp [qNum, isDigitC_ident (isNzDigitC_digit h)] at this
      simp [scanDecimal, h0, h1]
  | cons c r =>
    simp only [List.cons_append, scanDecimal]
    split
    · simp [scanDigitsTail_ext isZeroC R (stopNum_of isZeroC (fun _ h => isDigitC_ident (isZeroC_digit h)) hR) r]
    · split
      · simp [scanDigitsTail_ext isDigitC R (stopDigit hR) r]
      · simp

theorem scanInt_ext (R : List Char) (hR : Stop qNum R) (s : List Char) : scanInt (s ++ R) = (scanInt s).ext R := by
  unfold scanInt
  rw [scanPrefixed_ext isBinC (fun _ h => isDigitC_ident (isBinC_digit h)) 'b' 'B' (by decide) (by decide) R hR s,
    scanPrefixed_ext isOctC (fun _ h => isDigitC_ident (isOctC_digit h)) 'o' 'O' (by decide) (by decide) R hR s,
    scanPrefixed_ext isHexC (fun _ h => isHexC_ident h) 'x' 'X' (by decide) (by decide) R hR s,
    scanDecimal_ext R hR s]
  cases scanPrefixed isBinC 'b' 'B' s <;> cases scanPrefixed isOctC 'o' 'O' s <;>
    cases scanPrefixed isHexC 'x' 'X' s <;> simp

/-! ### real literals -/

theorem scanFraction_ext (R : List Char) (hR : Stop qNum R) (s : List Char) :
    scanFraction (s ++ R) = (scanFraction s).ext R := by
  cases s with
  | nil =>
    cases R with
    | nil => simp [scanFraction]
    | cons c R' =>
      have h0 : c ≠ '.' := hR.ne '.' (by decide)
      unfold scanFraction
      split
      · rename_i heq; simp only [List.nil_append, List.cons.injEq] at heq; exact absurd heq.1 h0
      · simp [scanFraction]
  | cons c r =>
    by_cases hc : c = '.'
    · subst hc
      simp only [List.cons_append, scanFraction, scanDigits_ext isDigitC R (stopDigit hR) r]
      cases scanDigits isDigitC r <;> simp
    · have : ∀ r, scanFraction (c :: r) = none := by
        intro r; unfold scanFraction; split
        · rename_i heq; simp only [List.cons.injEq] at heq; exact absurd heq.1 hc
        · rfl
      simp [this]

theorem scanFraction_split (s : List Char) (x : List Char × List Char) (h : scanFraction s = some x) : x.1 ++ x.2 = s := by
  unfold scanFraction at h
  split at h
  · rename_i r
    cases hd : scanDigits isDigitC r with
    | none => simp [hd] at h
    | some y =>
      simp only [hd, Option.some.injEq] at h
      subst h
      simp [scanDigits_split _ _ _ hd]
  · simp at h

/-- `match b with | '.' :: r => … | _ => none` commutes with appending a non-dot continuation -/
theorem dotCase_ext (a : List Char) (R : List Char) (hR : Stop qNum R) (b : List Char) :
    (match b ++ R with
      | '.' :: r => some (a ++ ['.'], r)
      | _ => (none : Scan)) =
    Scan.ext (match b with
      | '.' :: r => some (a ++ ['.'], r)
      | _ => (none : Scan)) R := by
  cases b with
  | nil =>
    cases R with
    | nil => simp
    | cons c R' =>
      have h0 : c ≠ '.' := hR.ne '.' (by decide)
      simp only [List.nil_append]
      split
      · rename_i heq; simp only [List.cons.injEq] at heq; exact absurd heq.1 h0
      · simp
  | cons c r =>
    by_cases hc : c = '.'
    · subst hc; simp
    · simp only [List.cons_append]
      split
      · rename_i heq; simp only [List.cons.injEq] at heq; exact absurd heq.1 hc
      · split
        · rename_i heq; simp only [List.cons.injEq] at heq; exact absurd heq.1 hc
        · simp

theorem scanPoint_ext (R : List Char) (hR : Stop qNum R) (s : List Char) :
    scanPoint (s ++ R) = (scanPoint s).ext R := by
  unfold scanPoint
  rw [scanDigits_ext isDigitC R (stopDigit hR) s]
  cases hd : scanDigits isDigitC s with
  | none => simp [scanFraction_ext R hR s]
  | some x =>
    simp only [Scan.ext_some, scanFraction_ext R hR x.2]
    cases hf : scanFraction x.2 with
    | some y => simp
    | none => simp only [Scan.ext_none]; exact dotCase_ext x.1 R hR x.2

theorem scanPoint_split (s : List Char) (x : List Char × List Char) (h : scanPoint s = some x) : x.1 ++ x.2 = s := by
  unfold scanPoint at h
  cases hd : scanDigits isDigitC s with
  | none => rw [hd] at h; exact scanFraction_split s x h
  | some y =>
    rw [hd] at h
    have hy := scanDigits_split _ _ _ hd
    simp only at h
    cases hf : scanFraction y.2 with
    | some z =>
      simp only [hf, Option.some.injEq] at h
      subst h
      have := scanFraction_split _ _ hf
      simp [← hy, ← this]
    | none =>
      simp only [hf] at h
      split at h
      · rename_i r heq
        simp only [Option.some.injEq] at h; subst h
        simp [← hy, heq]
      · simp at h

theorem scanMantissa_ext (R : List Char) (hR : Stop qNum R) (s : List Char) :
    scanMantissa (s ++ R) = (scanMantissa s).ext R := by
  unfold scanMantissa
  rw [scanPoint_ext R hR s, scanDigits_ext isDigitC R (stopDigit hR) s]
  cases scanPoint s <;> simp

theorem scanMantissa_split (s : List Char) (x : List Char × List Char) (h : scanMantissa s = some x) : x.1 ++ x.2 = s := by
  unfold scanMantissa at h
  cases hp : scanPoint s with
  | some y => simp only [hp, Option.some.injEq] at h; subst h; exact scanPoint_split s y hp
  | none => simp only [hp] at h; exact scanDigits_split _ _ _ h

/-- a sign may follow only where it cannot be taken for the sign of an exponent -/
def SignOk (s R : List Char) : Prop := ∀ c ∈ R.head?, (c = '+' ∨ c = '-') → s ≠ ['e'] ∧ s ≠ ['E']

theorem scanExponent_ext (R : List Char) (hR : Stop qNum R) (s : List Char) (hS : SignOk s R) :
    scanExponent (s ++ R) = (scanExponent s).ext R := by
  have hD := stopDigit hR
  match s with
  | [] =>
    cases R with
    | nil => simp [scanExponent]
    | cons c R' =>
      have h1 : c ≠ 'e' := hR.ne 'e' (by decide)
      have h2 : c ≠ 'E' := hR.ne 'E' (by decide)
      simp [scanExponent, h1, h2]
  | [e] =>
    by_cases he : (e == 'e' || e == 'E') = true
    · cases R with
      | nil => simp [scanExponent]
      | cons c R' =>
        have hcd : isDigitC c = false := by
          have := hD.cons; simp only [Bool.or_eq_false_iff] at this; exact this.1
        by_cases hsg : (c == '+' || c == '-') = true
        · exfalso
          have := hS c (by simp) (by simpa using hsg)
          simp only [Bool.or_eq_true, beq_iff_eq] at he
          rcases he with rfl | rfl
          · exact this.1 rfl
          · exact this.2 rfl
        · simp [scanExponent, he, hsg, scanDigits, hcd]
    · simp [scanExponent, he]
  | e :: sg :: r =>
    by_cases he : (e == 'e' || e == 'E') = true
    · by_cases hsg : (sg == '+' || sg == '-') = true
      · simp only [List.cons_append, scanExponent, he, hsg, ↓reduceIte, scanDigits_ext isDigitC R hD r]
        cases scanDigits isDigitC r <;> simp
      · have := scanDigits_ext isDigitC R hD (sg :: r)
        simp only [List.cons_append] at this
        simp only [List.cons_append, scanExponent, he, hsg, ↓reduceIte, this]
        cases scanDigits isDigitC (sg :: r) <;> simp
    · simp [scanExponent, he]

theorem scanRealExp_ext (R : List Char) (hR : Stop qNum R) (s : List Char)
    (hS : ∀ x, scanMantissa s = some x → SignOk x.2 R) :
    scanRealExp (s ++ R) = (scanRealExp s).ext R := by
  unfold scanRealExp
  rw [scanMantissa_ext R hR s]
  cases hm : scanMantissa s with
  | none => simp
  | some x =>
    have hx := scanMantissa_split s x hm
    simp only [Scan.ext_some, scanExponent_ext R hR x.2 (hS x hm)]
    cases scanExponent x.2 <;> simp

theorem scanReal_ext (R : List Char) (hR : Stop qNum R) (s : List Char)
    (hS : ∀ x, scanMantissa s = some x → SignOk x.2 R) :
    scanReal (s ++ R) = (scanReal s).ext R := by
  unfold scanReal
  rw [scanRealExp_ext R hR s hS, scanPoint_ext R hR s]
  cases scanRealExp s <;> simp

/-! ### numbers as tokens -/

/-- append to the rest of a `lexOne` result -/
def TokRes.ext (o : Option (Tok × List Char)) (R : List Char) : Option (Tok × List Char) := o.map fun x => (x.1, x.2 ++ R)

@[simp] theorem TokRes.ext_none (R : List Char) : TokRes.ext none R = none := rfl
@[simp] theorem TokRes.ext_some (x : Tok × List Char) (R : List Char) : TokRes.ext (some x) R = some (x.1, x.2 ++ R) := rfl

/-! ### an integer literal never leaves a lone `e` behind its mantissa-like prefix -/

theorem scanDigitsTail_chars (p : Char → Bool) (s : List Char) : ∀ c ∈ (scanDigitsTail p s).1, p c = true ∨ c = '_' := by
  induction s with
  | nil => simp [scanDigitsTail]
  | cons a r ih =>
    simp only [scanDigitsTail]
    split
    · rename_i h
      intro c hc
      simp only [List.mem_cons] at hc
      rcases hc with rfl | hc
      · simp only [Bool.or_eq_true, Bool.and_eq_true, beq_iff_eq] at h
        rcases h with h | h
        · exact Or.inl h
        · exact Or.inr h.1
      · exact ih c hc
    · simp

theorem scanPrefixed_shape (p : Char → Bool) (lo up : Char) (s : List Char) (x : List Char × List Char)
    (h : scanPrefixed p lo up s = some x) : ∃ c r, s = '0' :: c :: r ∧ (c = lo ∨ c = up) ∧ x.1 ++ x.2 = s := by
  unfold scanPrefixed at h
  split at h
  · rename_i c r
    split at h
    · rename_i hc
      simp only at h
      split at h
      · simp at h
      · simp only [Option.some.injEq] at h
        subst h
        refine ⟨c, r, rfl, by simpa using hc, ?_⟩
        simp [scanDigitsTail_split]
    · simp at h
  · simp at h

theorem scanDecimal_shape (s : List Char) (x : List Char × List Char) (h : scanDecimal s = some x) :
    (∀ c ∈ x.1, isDigitC c = true ∨ c = '_') ∧ x.1 ++ x.2 = s := by
  cases s with
  | nil => simp [scanDecimal] at h
  | cons a r =>
    simp only [scanDecimal] at h
    split at h
    · rename_i ha
      simp only [Option.some.injEq] at h; subst h
      refine ⟨fun c hc => ?_, by simp [scanDigitsTail_split]⟩
      simp only [List.mem_cons] at hc
      rcases hc with rfl | hc
      · left; rw [beq_iff_eq] at ha; subst ha; decide
      · rcases scanDigitsTail_chars _ _ c hc with h | h
        · exact Or.inl (isZeroC_digit h)
        · exact Or.inr h
    · split at h
      · rename_i ha
        simp only [Option.some.injEq] at h; subst h
        refine ⟨fun c hc => ?_, by simp [scanDigitsTail_split]⟩
        simp only [List.mem_cons] at hc
        rcases hc with rfl | hc
        · exact Or.inl (isNzDigitC_digit ha)
        · exact scanDigitsTail_chars _ _ c hc
      · simp at h

/-- the mantissa scanners stop in front of the base letter of a prefixed integer -/
theorem scanMantissa_prefixed (c : Char) (r : List Char) (hc : isDigitC c = false) (hu : c ≠ '_') (hd : c ≠ '.') :
    scanMantissa ('0' :: c :: r) = some (['0'], c :: r) := by
  have h1 : scanDigits isDigitC ('0' :: c :: r) = some (['0'], c :: r) := by
    have : isDigitC '0' = true := by decide
    simp [scanDigits, this, scanDigitsTail, hc, hu]
  have h2 : scanFraction (c :: r) = none := by
    unfold scanFraction; split
    · rename_i heq; simp only [List.cons.injEq] at heq; exact absurd heq.1 hd
    · rfl
  have h3 : scanPoint ('0' :: c :: r) = none := by
    simp only [scanPoint, h1, h2]
    split
    · rename_i heq; simp only [List.cons.injEq] at heq; exact absurd heq.1 hd
    · rfl
  simp [scanMantissa, h3, h1]

theorem int_signOk (s : List Char) (y : List Char × List Char) (hi : scanInt s = some y) (hy : y.2 = []) (R : List Char) :
    ∀ x, scanMantissa s = some x → SignOk x.2 R := by
  intro x hm c _ _
  have hx := scanMantissa_split s x hm
  -- a lone `e` / `E` behind the mantissa-like prefix would be the last character of `s`
  suffices h : ∀ e : Char, (e = 'e' ∨ e = 'E') → x.2 ≠ [e] from ⟨h 'e' (Or.inl rfl), h 'E' (Or.inr rfl)⟩
  intro e he hxe
  have hpre : ∀ (p : Char → Bool) (lo up : Char), (lo ≠ e ∧ up ≠ e) → isDigitC lo = false → isDigitC up = false →
      lo ≠ '_' → up ≠ '_' → lo ≠ '.' → up ≠ '.' → scanPrefixed p lo up s ≠ some y := by
    intro p lo up hne hdl hdu hul huu hpl hpu hp
    obtain ⟨c2, r, hs, hc2, _⟩ := scanPrefixed_shape p lo up s y hp
    have hm' : scanMantissa s = some (['0'], c2 :: r) := by
      rw [hs]
      rcases hc2 with rfl | rfl
      · exact scanMantissa_prefixed _ r hdl hul hpl
      · exact scanMantissa_prefixed _ r hdu huu hpu
    rw [hm] at hm'
    simp only [Option.some.injEq] at hm'
    rw [hm'] at hxe
    simp only [List.cons.injEq] at hxe
    rcases hc2 with rfl | rfl
    · exact hne.1 hxe.1
    · exact hne.2 hxe.1
  unfold scanInt at hi
  have hb : scanPrefixed isBinC 'b' 'B' s = none := by
    cases hq : scanPrefixed isBinC 'b' 'B' s with
    | none => rfl
    | some z =>
      rw [hq] at hi; simp only [Option.some.injEq] at hi; subst hi
      exact absurd hq (hpre isBinC 'b' 'B' (by rcases he with rfl | rfl <;> decide) (by decide) (by decide) (by decide)
        (by decide) (by decide) (by decide))
  rw [hb] at hi
  have ho : scanPrefixed isOctC 'o' 'O' s = none := by
    cases hq : scanPrefixed isOctC 'o' 'O' s with
    | none => rfl
    | some z =>
      rw [hq] at hi; simp only [Option.some.injEq] at hi; subst hi
      exact absurd hq (hpre isOctC 'o' 'O' (by rcases he with rfl | rfl <;> decide) (by decide) (by decide) (by decide)
        (by decide) (by decide) (by decide))
  rw [ho] at hi
  have hh : scanPrefixed isHexC 'x' 'X' s = none := by
    cases hq : scanPrefixed isHexC 'x' 'X' s with
    | none => rfl
    | some z =>
      rw [hq] at hi; simp only [Option.some.injEq] at hi; subst hi
      exact absurd hq (hpre isHexC 'x' 'X' (by rcases he with rfl | rfl <;> decide) (by decide) (by decide) (by decide)
        (by decide) (by decide) (by decide))
  rw [hh] at hi
  simp only at hi
  obtain ⟨hall, hsplit⟩ := scanDecimal_shape s y hi
  rw [hy, List.append_nil] at hsplit
  have hmem : e ∈ y.1 := by rw [hsplit, ← hx, hxe]; simp
  rcases hall e hmem with h | h
  · rcases he with rfl | rfl <;> exact absurd h (by decide)
  · rcases he with rfl | rfl <;> exact absurd h (by decide)

/-- … nor does a real literal: if the exponent scanner failed on a lone `e`, the literal is in point notation and
    its mantissa is the whole text -/
theorem real_signOk (s : List Char) (y : List Char × List Char) (hr : scanReal s = some y) (hy : y.2 = []) (R : List Char) :
    ∀ x, scanMantissa s = some x → SignOk x.2 R := by
  intro x hm c _ _
  suffices h : ∀ e : Char, (e = 'e' ∨ e = 'E') → x.2 ≠ [e] from ⟨h 'e' (Or.inl rfl), h 'E' (Or.inr rfl)⟩
  intro e he hxe
  have hexp : scanExponent x.2 = none := by
    rw [hxe]; rcases he with rfl | rfl <;> rfl
  have h1 : scanRealExp s = none := by simp [scanRealExp, hm, hexp]
  have h2 : scanPoint s = some y := by simpa [scanReal, h1] using hr
  have h3 : scanMantissa s = some y := by simp [scanMantissa, h2]
  rw [hm] at h3
  simp only [Option.some.injEq] at h3
  rw [h3, hy] at hxe
  cases hxe

theorem lexNumber_ext (R : List Char) (hR : Stop qNum R) (s : List Char)
    (hS : ∀ x, scanMantissa s = some x → SignOk x.2 R) :
    lexNumber (s ++ R) = TokRes.ext (lexNumber s) R := by
  unfold lexNumber
  rw [scanReal_ext R hR s hS, scanInt_ext R hR s]
  cases scanReal s with
  | some x => simp
  | none =>
    cases scanInt s with
    | some x => simp
    | none =>
      simp only [Scan.ext_none]
      cases s with
      | nil =>
        cases R with
        | nil => simp
        | cons c R' =>
          have h0 : c ≠ '.' := hR.ne '.' (by decide)
          simp only [List.nil_append]
          split
          · rename_i heq; simp only [List.cons.injEq] at heq; exact absurd heq.1 h0
          · simp
      | cons c r =>
        by_cases hc : c = '.'
        · subst hc; simp
        · simp only [List.cons_append]
          split
          · rename_i heq; simp only [List.cons.injEq] at heq; exact absurd heq.1 hc
          · split
            · rename_i heq; simp only [List.cons.injEq] at heq; exact absurd heq.1 hc
            · simp

/-! ### words -/

theorem scanWord_ext (R : List Char) (hR : Stop isIdentChar R) (s : List Char) :
    scanWord (s ++ R) = ((scanWord s).1, (scanWord s).2 ++ R) := by
  induction s with
  | nil =>
    cases R with
    | nil => simp [scanWord]
    | cons c R' => simp [scanWord, hR.cons]
  | cons c r ih =>
    simp only [List.cons_append, scanWord]
    split <;> simp [ih]

theorem dropPrefix_ext (w : List Char) (hw : ∀ c ∈ w, isIdentChar c = true) (R : List Char) (hR : Stop isIdentChar R)
    (s : List Char) : dropPrefix w (s ++ R) = (dropPrefix w s).map (· ++ R) := by
  induction w generalizing s with
  | nil => simp [dropPrefix]
  | cons x w ih =>
    cases s with
    | nil =>
      cases R with
      | nil => simp [dropPrefix]
      | cons c R' =>
        have : x ≠ c := fun h => (hR.ne x (hw x (by simp))) h.symm
        simp [dropPrefix, this]
    | cons y r =>
      simp only [List.cons_append, dropPrefix]
      split
      · exact ih (fun c hc => hw c (by simp [hc])) r
      · rfl

theorem nzDigitNext_ext (R : List Char) (hR : Stop isIdentChar R) (o : Option (List Char)) :
    nzDigitNext (o.map (· ++ R)) = nzDigitNext o := by
  cases o with
  | none => rfl
  | some r =>
    cases r with
    | cons c r' => rfl
    | nil =>
      cases R with
      | nil => rfl
      | cons c R' =>
        simp only [Option.map_some, List.nil_append, nzDigitNext]
        cases h : isNzDigitC c with
        | false => rfl
        | true => have := hR.cons; rw [isDigitC_ident (isNzDigitC_digit h)] at this; exact absurd this (by simp)

theorem typePrefix_ext (R : List Char) (hR : Stop isIdentChar R) (s : List Char) : typePrefix (s ++ R) = typePrefix s := by
  unfold typePrefix
  rw [dropPrefix_ext _ (by decide) R hR s, dropPrefix_ext _ (by decide) R hR s, dropPrefix_ext _ (by decide) R hR s,
    dropPrefix_ext _ (by decide) R hR s, dropPrefix_ext _ (by decide) R hR s, dropPrefix_ext _ (by decide) R hR s,
    dropPrefix_ext _ (by decide) R hR s]
  simp only [nzDigitNext_ext R hR, Option.isSome_map]

theorem lexWord_ext (R : List Char) (hR : Stop isIdentChar R) (s : List Char) :
    lexWord (s ++ R) = TokRes.ext (lexWord s) R := by
  unfold lexWord
  rw [typePrefix_ext R hR s, dropPrefix_ext _ (by decide) R hR s, dropPrefix_ext _ (by decide) R hR s,
    scanWord_ext R hR s]
  split
  · simp
  · cases dropPrefix ['t', 'r', 'u', 'e'] s with
    | some r => simp
    | none =>
      cases dropPrefix ['f', 'a', 'l', 's', 'e'] s with
      | some r => simp
      | none => simp

/-! ### strings -/

theorem scanStrBody_ext (q : Char) (R : List Char) (s : List Char) : ∀ (esc : Bool) (x : List Char × List Char),
    scanStrBody q esc s = some x → scanStrBody q esc (s ++ R) = some (x.1, x.2 ++ R) := by
  induction s with
  | nil => intro esc x h; cases esc <;> simp [scanStrBody] at h
  | cons c r ih =>
    intro esc x h
    cases esc with
    | true =>
      simp only [scanStrBody] at h ⊢
      simp only [List.cons_append, scanStrBody]
      split at h
      · simp at h
      · rename_i hc
        simp only [hc, Bool.false_eq_true, ↓reduceIte]
        cases hr : scanStrBody q false r with
        | none => simp [hr] at h
        | some y =>
          simp only [hr, Option.some.injEq] at h
          subst h
          simp [ih false y hr]
    | false =>
      simp only [scanStrBody] at h
      simp only [List.cons_append, scanStrBody]
      split at h
      · rename_i hc
        simp only [Option.some.injEq] at h; subst h
        simp [hc]
      · rename_i hc
        simp only [hc, Bool.false_eq_true, ↓reduceIte]
        cases hr : scanStrBody q (c == '\\') r with
        | none => simp [hr] at h
        | some y =>
          simp only [hr, Option.some.injEq] at h
          subst h
          simp [ih _ y hr]

/-! ### `lexOne`: which alternative applies is decided by the first character -/

/-- token classes by the alternative of `lexOne` that produces them -/
inductive TokClass where
  | op | num | str | word
  deriving DecidableEq

def Tok.cls : Tok → TokClass
  | .sym _ | .lp | .rp | .lb | .rb | .comma => .op
  | .lit (.int _) | .lit (.real _) | .dot => .num
  | .lit (.str _) => .str
  | .lit (.bool _) | .id _ => .word

theorem lookup_mem {α β : Type} [BEq α] [LawfulBEq α] (l : List (α × β)) (a : α) (b : β) (h : l.lookup a = some b) :
    (a, b) ∈ l := by
  induction l with
  | nil => simp at h
  | cons p l ih =>
    obtain ⟨x, y⟩ := p
    simp only [List.lookup_cons] at h
    split at h
    · rename_i heq
      rw [beq_iff_eq] at heq; subst heq
      simp only [Option.some.injEq] at h; subst h
      simp
    · exact List.mem_cons_of_mem _ (ih h)

theorem lookup_none {α β : Type} [BEq α] [LawfulBEq α] (l : List (α × β)) (a : α) (h : ∀ p ∈ l, p.1 ≠ a) :
    l.lookup a = none := by
  induction l with
  | nil => rfl
  | cons p l ih =>
    obtain ⟨x, y⟩ := p
    have hx : (a == x) = false := by
      cases hax : a == x with
      | false => rfl
      | true => rw [beq_iff_eq] at hax; exact absurd hax.symm (h (x, y) (by simp))
    simp only [List.lookup_cons, hx]
    exact ih (fun p hp => h p (List.mem_cons_of_mem _ hp))

theorem tok1_cls (c : Char) (t : Tok) (h : tok1 c = some t) : t.cls = .op := by
  have hall : ∀ p ∈ tok1Table, p.2.cls = .op := by decide
  exact hall _ (lookup_mem _ _ _ h)

theorem lexSym_cls (s : List Char) (x : Tok × List Char) (h : lexSym s = some x) : x.1.cls = .op := by
  unfold lexSym at h
  split at h
  · simp at h
  · rename_i c
    cases ht : tok1 c with
    | none => simp [ht] at h
    | some t => simp only [ht, Option.map_some, Option.some.injEq] at h; subst h; exact tok1_cls c t ht
  · rename_i c d r
    cases h2 : sym2 c d with
    | some sy => simp only [h2, Option.some.injEq] at h; subst h; rfl
    | none =>
      simp only [h2] at h
      cases ht : tok1 c with
      | none => simp [ht] at h
      | some t => simp only [ht, Option.map_some, Option.some.injEq] at h; subst h; exact tok1_cls c t ht

theorem lexNumber_cls (s : List Char) (x : Tok × List Char) (h : lexNumber s = some x) : x.1.cls = .num := by
  unfold lexNumber at h
  split at h
  · simp only [Option.some.injEq] at h; subst h; rfl
  · split at h
    · simp only [Option.some.injEq] at h; subst h; rfl
    · split at h
      · simp only [Option.some.injEq] at h; subst h; rfl
      · simp at h

theorem lexWord_cls (s : List Char) (x : Tok × List Char) (h : lexWord s = some x) : x.1.cls = .word := by
  unfold lexWord at h
  split at h
  · simp at h
  · split at h
    · simp only [Option.some.injEq] at h; subst h; rfl
    · split at h
      · simp only [Option.some.injEq] at h; subst h; rfl
      · simp only [Option.some.injEq] at h; subst h; rfl

/-- no operator or punctuation starts with this character -/
def OpFree (c : Char) : Prop := tok1 c = none ∧ ∀ d, sym2 c d = none

theorem opFree_of (c : Char) (h : (isIdentChar c || c == '.' || c == '\'' || c == '"') = true) : OpFree c := by
  have h1 : ∀ p ∈ tok1Table, (isIdentChar p.1 || p.1 == '.' || p.1 == '\'' || p.1 == '"') = false := by decide
  have h2 : ∀ p ∈ sym2Table, (isIdentChar p.1.1 || p.1.1 == '.' || p.1.1 == '\'' || p.1.1 == '"') = false := by decide
  constructor
  · refine lookup_none _ _ fun p hp heq => ?_
    have := h1 p hp
    rw [heq, h] at this
    exact absurd this (by simp)
  · intro d
    refine lookup_none _ _ fun p hp heq => ?_
    have := h2 p hp
    rw [heq, h] at this
    exact absurd this (by simp)

theorem lexSym_none (c : Char) (r : List Char) (h : OpFree c) : lexSym (c :: r) = none := by
  cases r with
  | nil => simp [lexSym, h.1]
  | cons d r' => simp [lexSym, h.1, h.2 d]

theorem identStart_not_digit {c : Char} (h : isIdentStart c = true) : isDigitC c = false := by
  cases hd : isDigitC c with
  | false => rfl
  | true =>
    simp only [isDigitC, Bool.and_eq_true, decide_eq_true_eq] at hd
    simp only [isIdentStart, Bool.or_eq_true, Bool.and_eq_true, decide_eq_true_eq, beq_iff_eq] at h
    rcases h with (h | h) | h
    · exact absurd (Char.le_trans h.1 hd.2) (by decide)
    · exact absurd (Char.le_trans h.1 hd.2) (by decide)
    · subst h; exact absurd hd.2 (by decide)

theorem lexOne_number (c : Char) (r : List Char) (hc : (isDigitC c || c == '.') = true) :
    lexOne (c :: r) = lexNumber (c :: r) := by
  have hop : OpFree c := opFree_of c (by
    simp only [Bool.or_eq_true, beq_iff_eq] at hc
    rcases hc with hc | rfl
    · simp [isDigitC_ident hc]
    · decide)
  simp [lexOne, lexSym_none c r hop, hc]

theorem quote_not_num {c : Char} (hq : (c == '\'' || c == '"') = true) : (isDigitC c || c == '.') = false := by
  simp only [Bool.or_eq_true, beq_iff_eq] at hq
  rcases hq with rfl | rfl <;> decide

theorem lexOne_string (c : Char) (r : List Char) (hq : (c == '\'' || c == '"') = true) :
    lexOne (c :: r) = match scanStrBody c false r with
      | some x => some (.lit (.str (String.ofList (c :: x.1))), x.2)
      | none => none := by
  have hop : OpFree c := opFree_of c (by
    simp only [Bool.or_eq_true, beq_iff_eq] at hq
    rcases hq with rfl | rfl <;> decide)
  simp only [lexOne, lexSym_none c r hop, quote_not_num hq, hq, Bool.false_eq_true, ↓reduceIte]
  rfl

theorem identStart_not_num {c : Char} (h : isIdentStart c = true) : (isDigitC c || c == '.') = false := by
  rw [identStart_not_digit h, Bool.false_or]
  cases hd : c == '.' with
  | false => rfl
  | true => rw [beq_iff_eq] at hd; subst hd; exact absurd h (by decide)

theorem identStart_not_quote {c : Char} (h : isIdentStart c = true) : (c == '\'' || c == '"') = false := by
  cases hq : (c == '\'' || c == '"') with
  | false => rfl
  | true =>
    simp only [Bool.or_eq_true, beq_iff_eq] at hq
    rcases hq with rfl | rfl <;> exact absurd h (by decide)

theorem lexOne_word (c : Char) (r : List Char) (hc : isIdentStart c = true) : lexOne (c :: r) = lexWord (c :: r) := by
  have hop : OpFree c := opFree_of c (by simp [isIdentChar, hc])
  simp [lexOne, lexSym_none c r hop, identStart_not_num hc, identStart_not_quote hc, hc]

/-- the alternative of `lexOne` that produced a token -/
theorem lexOne_inv (c : Char) (r : List Char) (x : Tok × List Char) (h : lexOne (c :: r) = some x) :
    (x.1.cls = .op ∧ lexSym (c :: r) = some x) ∨
    (x.1.cls = .num ∧ (isDigitC c || c == '.') = true ∧ lexNumber (c :: r) = some x) ∨
    (x.1.cls = .str ∧ (c == '\'' || c == '"') = true ∧
      ∃ y, scanStrBody c false r = some y ∧ x = (.lit (.str (String.ofList (c :: y.1))), y.2)) ∨
    (x.1.cls = .word ∧ isIdentStart c = true ∧ lexWord (c :: r) = some x) := by
  cases hs : lexSym (c :: r) with
  | some y =>
    have : lexOne (c :: r) = some y := by simp [lexOne, hs]
    rw [this] at h; cases h
    exact Or.inl ⟨lexSym_cls _ _ hs, rfl⟩
  | none =>
    by_cases hn : (isDigitC c || c == '.') = true
    · rw [lexOne_number c r hn] at h
      exact Or.inr (Or.inl ⟨lexNumber_cls _ _ h, hn, h⟩)
    · by_cases hq : (c == '\'' || c == '"') = true
      · rw [lexOne_string c r hq] at h
        cases hy : scanStrBody c false r with
        | none => simp [hy] at h
        | some y =>
          simp only [hy, Option.some.injEq] at h
          subst h
          exact Or.inr (Or.inr (Or.inl ⟨rfl, hq, y, rfl, rfl⟩))
      · by_cases hi : isIdentStart c = true
        · rw [lexOne_word c r hi] at h
          exact Or.inr (Or.inr (Or.inr ⟨lexWord_cls _ _ h, hi, h⟩))
        · simp [lexOne, hs, hn, hq, hi] at h

/-! ### a token followed by an admissible continuation -/

/-- the continuation does not change what the terminal of `t` matches -/
def Follow (t : Tok) (R : List Char) : Prop := ∀ c ∈ R.head?, t.canFollow c = true

theorem lexOne_of_lexSym (s : List Char) (x : Tok × List Char) (h : lexSym s = some x) : lexOne s = some x := by
  simp [lexOne, h]

theorem sym2_none_of (c d e : Char) (h : ∀ p ∈ sym2Table, p.1.1 = c → p.1.2 = e) (hd : d ≠ e) : sym2 c d = none := by
  refine lookup_none _ _ fun p hp heq => ?_
  have h1 : p.1.1 = c := by rw [heq]
  have h2 : p.1.2 = d := by rw [heq]
  exact hd (h2 ▸ h p hp h1)

theorem sym2_none_free (c d : Char) (h : ∀ p ∈ sym2Table, p.1.1 ≠ c) : sym2 c d = none := by
  refine lookup_none _ _ fun p hp heq => ?_
  exact h p hp (by rw [heq])

theorem lexSym_one (c : Char) (t : Tok) (h1 : tok1 c = some t) (R : List Char) (hR : ∀ d ∈ R.head?, sym2 c d = none) :
    lexOne (c :: R) = some (t, R) := by
  apply lexOne_of_lexSym
  cases R with
  | nil => simp [lexSym, h1]
  | cons d R' => simp [lexSym, h1, hR d (by simp)]

theorem lexSym_two (c d : Char) (sy : Sym) (h : sym2 c d = some sy) (R : List Char) :
    lexOne (c :: d :: R) = some (.sym sy, R) := by
  apply lexOne_of_lexSym
  simp [lexSym, h]

theorem lexOne_ext_sym (sy : Sym) (R : List Char) (hR : Follow (.sym sy) R) :
    lexOne ((Tok.sym sy).text ++ R) = some (.sym sy, R) := by
  cases sy
  case oror => exact lexSym_two '|' '|' _ (by decide) R
  case andand => exact lexSym_two '&' '&' _ (by decide) R
  case eqeq => exact lexSym_two '=' '=' _ (by decide) R
  case neq => exact lexSym_two '!' '=' _ (by decide) R
  case le => exact lexSym_two '<' '=' _ (by decide) R
  case ge => exact lexSym_two '>' '=' _ (by decide) R
  case starstar => exact lexSym_two '*' '*' _ (by decide) R
  case plus => exact lexSym_one '+' _ (by decide) R (fun d _ => sym2_none_free _ _ (by decide))
  case minus => exact lexSym_one '-' _ (by decide) R (fun d _ => sym2_none_free _ _ (by decide))
  case caret => exact lexSym_one '^' _ (by decide) R (fun d _ => sym2_none_free _ _ (by decide))
  case slash => exact lexSym_one '/' _ (by decide) R (fun d _ => sym2_none_free _ _ (by decide))
  case percent => exact lexSym_one '%' _ (by decide) R (fun d _ => sym2_none_free _ _ (by decide))
  case bang =>
    exact lexSym_one '!' _ (by decide) R (fun d hd => sym2_none_of _ _ '=' (by decide) (by simpa [Tok.canFollow] using hR d hd))
  case lt =>
    exact lexSym_one '<' _ (by decide) R (fun d hd => sym2_none_of _ _ '=' (by decide) (by simpa [Tok.canFollow] using hR d hd))
  case gt =>
    exact lexSym_one '>' _ (by decide) R (fun d hd => sym2_none_of _ _ '=' (by decide) (by simpa [Tok.canFollow] using hR d hd))
  case bar =>
    exact lexSym_one '|' _ (by decide) R (fun d hd => sym2_none_of _ _ '|' (by decide) (by simpa [Tok.canFollow] using hR d hd))
  case amp =>
    exact lexSym_one '&' _ (by decide) R (fun d hd => sym2_none_of _ _ '&' (by decide) (by simpa [Tok.canFollow] using hR d hd))
  case star =>
    exact lexSym_one '*' _ (by decide) R (fun d hd => sym2_none_of _ _ '*' (by decide) (by simpa [Tok.canFollow] using hR d hd))

theorem lexOne_ext_dot (R : List Char) (hR : Follow .dot R) : lexOne ('.' :: R) = some (.dot, R) := by
  rw [lexOne_number '.' R (by decide)]
  have hd : scanDigits isDigitC R = none := by
    cases R with
    | nil => rfl
    | cons c R' =>
      have : isDigitC c = false := by simpa [Tok.canFollow] using hR c (by simp)
      simp [scanDigits, this]
  have h0 : scanDigits isDigitC ('.' :: R) = none := by simp [scanDigits]; decide
  have hf : scanFraction ('.' :: R) = none := by simp [scanFraction, hd]
  have hp : scanPoint ('.' :: R) = none := by simp [scanPoint, h0, hf]
  have hr : scanReal ('.' :: R) = none := by simp [scanReal, scanRealExp, scanMantissa, hp, h0]
  have hi : scanInt ('.' :: R) = none := by
    have h1 : ∀ p lo up, scanPrefixed p lo up ('.' :: R) = none := by
      intro p lo up; unfold scanPrefixed; split
      · rename_i heq; simp only [List.cons.injEq] at heq; exact absurd heq.1 (by decide)
      · rfl
    have h2 : scanDecimal ('.' :: R) = none := by simp [scanDecimal]; decide
    simp [scanInt, h1, h2]
  simp [lexNumber, hr, hi]

theorem lexOne_ext_bool (b : Bool) (R : List Char) : lexOne ((Tok.lit (.bool b)).text ++ R) = some (.lit (.bool b), R) := by
  cases b
  · have : lexOne ('f' :: (['a','l','s','e'] ++ R)) = lexWord ('f' :: (['a','l','s','e'] ++ R)) := lexOne_word 'f' _ (by decide)
    simp only [Tok.text, List.cons_append, List.nil_append] at this ⊢
    rw [this]
    simp [lexWord, typePrefix, dropPrefix, nzDigitNext]
  · have : lexOne ('t' :: (['r','u','e'] ++ R)) = lexWord ('t' :: (['r','u','e'] ++ R)) := lexOne_word 't' _ (by decide)
    simp only [Tok.text, List.cons_append, List.nil_append] at this ⊢
    rw [this]
    simp [lexWord, typePrefix, dropPrefix, nzDigitNext]

theorem lexNumber_int (s : List Char) (n : String) (rest : List Char)
    (h : lexNumber s = some (.lit (.int n), rest)) : ∃ y, scanInt s = some y ∧ y.2 = rest := by
  unfold lexNumber at h
  split at h
  · simp at h
  · split at h
    · rename_i y hy
      simp only [Option.some.injEq, Prod.mk.injEq] at h
      exact ⟨y, hy, h.2⟩
    · split at h <;> simp at h

theorem lexNumber_real (s : List Char) (n : String) (rest : List Char)
    (h : lexNumber s = some (.lit (.real n), rest)) : ∃ y, scanReal s = some y ∧ y.2 = rest := by
  unfold lexNumber at h
  split at h
  · rename_i y hy
    simp only [Option.some.injEq, Prod.mk.injEq] at h
    exact ⟨y, hy, h.2⟩
  · split at h
    · simp at h
    · split at h <;> simp at h

theorem lexOne_ext (t : Tok) (ht : t.ok = true) (R : List Char) (hR : Follow t R) : lexOne (t.text ++ R) = some (t, R) := by
  have h0 : lexOne t.text = some (t, []) := by simpa [Tok.ok] using ht
  cases hcls : t.cls with
  | op =>
    cases t with
    | sym sy => exact lexOne_ext_sym sy R hR
    | lp => exact lexSym_one '(' _ (by decide) R (fun d _ => sym2_none_free _ _ (by decide))
    | rp => exact lexSym_one ')' _ (by decide) R (fun d _ => sym2_none_free _ _ (by decide))
    | lb => exact lexSym_one '{' _ (by decide) R (fun d _ => sym2_none_free _ _ (by decide))
    | rb => exact lexSym_one '}' _ (by decide) R (fun d _ => sym2_none_free _ _ (by decide))
    | comma => exact lexSym_one ',' _ (by decide) R (fun d _ => sym2_none_free _ _ (by decide))
    | dot => simp [Tok.cls] at hcls
    | id n => simp [Tok.cls] at hcls
    | lit l => cases l <;> simp [Tok.cls] at hcls
  | num =>
    cases t with
    | dot => exact lexOne_ext_dot R hR
    | lit l =>
      -- the text is not empty, its first character selects the number alternative
      cases htx : (Tok.lit l).text with
      | nil => rw [htx] at h0; simp [lexOne, lexSym] at h0
      | cons c r =>
        rw [htx] at h0
        rcases lexOne_inv c r _ h0 with ⟨h, _⟩ | ⟨_, hn, hl⟩ | ⟨h, _⟩ | ⟨h, _⟩
        · rw [hcls] at h; cases h
        · have hq : Stop qNum R := by
            intro c' hc'
            have := hR c' hc'
            cases l with
            | int s => simp only [Tok.canFollow, Bool.and_eq_true, Bool.not_eq_true', bne_iff_ne] at this
                       simp [qNum, this.1, this.2]
            | real s => simp only [Tok.canFollow, Bool.and_eq_true, Bool.not_eq_true', bne_iff_ne] at this
                        simp [qNum, this.1, this.2]
            | str s => simp [Tok.cls] at hcls
            | bool b => simp [Tok.cls] at hcls
          have hS : ∀ x, scanMantissa (c :: r) = some x → SignOk x.2 R := by
            cases l with
            | int s =>
              obtain ⟨y, hy1, hy2⟩ := lexNumber_int _ _ _ hl
              exact int_signOk (c :: r) y hy1 hy2 R
            | real s =>
              obtain ⟨y, hy1, hy2⟩ := lexNumber_real _ _ _ hl
              exact real_signOk (c :: r) y hy1 hy2 R
            | str s => simp [Tok.cls] at hcls
            | bool b => simp [Tok.cls] at hcls
          have hstop := And.intro hq hS
          have := lexNumber_ext R hstop.1 (c :: r) hstop.2
          rw [hl] at this
          rw [List.cons_append, lexOne_number c (r ++ R) hn]
          simpa using this
        · rw [hcls] at h; cases h
        · rw [hcls] at h; cases h
    | _ => simp [Tok.cls] at hcls
  | str =>
    cases htx : t.text with
    | nil => rw [htx] at h0; simp [lexOne, lexSym] at h0
    | cons c r =>
      rw [htx] at h0
      rcases lexOne_inv c r _ h0 with ⟨h, _⟩ | ⟨h, _⟩ | ⟨_, hq, y, hy, hxy⟩ | ⟨h, _⟩
      · rw [hcls] at h; cases h
      · rw [hcls] at h; cases h
      · rw [List.cons_append, lexOne_string c (r ++ R) hq, scanStrBody_ext c R r false y hy]
        simp only [Prod.mk.injEq] at hxy
        simp [hxy.1, ← hxy.2]
      · rw [hcls] at h; cases h
  | word =>
    cases t with
    | lit l =>
      cases l with
      | bool b => exact lexOne_ext_bool b R
      | _ => simp [Tok.cls] at hcls
    | id n =>
      cases htx : (Tok.id n).text with
      | nil => rw [htx] at h0; simp [lexOne, lexSym] at h0
      | cons c r =>
        rw [htx] at h0
        rcases lexOne_inv c r _ h0 with ⟨h, _⟩ | ⟨h, _⟩ | ⟨h, _⟩ | ⟨_, hi, hl⟩
        · rw [hcls] at h; cases h
        · rw [hcls] at h; cases h
        · rw [hcls] at h; cases h
        · have hstop : Stop isIdentChar R := by
            intro c' hc'
            simpa [Tok.canFollow] using hR c' hc'
          have := lexWord_ext R hstop (c :: r)
          rw [hl] at this
          rw [List.cons_append, lexOne_word c (r ++ R) hi]
          simpa using this
    | _ => simp [Tok.cls] at hcls

/-! ### blanks -/

theorem dropBlanks_blankRun (bs : List Bool) (s : List Char) : dropBlanks (blankRun bs ++ s) = dropBlanks s := by
  induction bs with
  | nil => rfl
  | cons b bs ih =>
    cases b <;> simpa [blankRun, dropBlanks, isBlank] using ih

theorem blankRun_head (bs : List Bool) (s : List Char) (c : Char) (hc : c ∈ (blankRun bs ++ s).head?) (hne : bs ≠ []) :
    isBlank c = true := by
  cases bs with
  | nil => exact absurd rfl hne
  | cons b bs =>
    cases b <;> simp [blankRun] at hc <;> subst hc <;> decide

theorem lexOne_blank (c : Char) (r : List Char) (hc : isBlank c = true) : lexOne (c :: r) = none := by
  have hop : OpFree c := by
    simp only [isBlank, Bool.or_eq_true, beq_iff_eq] at hc
    rcases hc with rfl | rfl
    · exact ⟨by decide, fun d => sym2_none_free _ _ (by decide)⟩
    · exact ⟨by decide, fun d => sym2_none_free _ _ (by decide)⟩
  have h1 : (isDigitC c || c == '.') = false := by
    simp only [isBlank, Bool.or_eq_true, beq_iff_eq] at hc
    rcases hc with rfl | rfl <;> decide
  have h2 : (c == '\'' || c == '"') = false := by
    simp only [isBlank, Bool.or_eq_true, beq_iff_eq] at hc
    rcases hc with rfl | rfl <;> decide
  have h3 : isIdentStart c = false := by
    simp only [isBlank, Bool.or_eq_true, beq_iff_eq] at hc
    rcases hc with rfl | rfl <;> decide
  simp [lexOne, lexSym_none c r hop, h1, h2, h3]

/-- the text of a well-formed token starts with a character that is no blank -/
theorem Tok.ok_text {t : Tok} (ht : t.ok = true) : ∃ c r, t.text = c :: r ∧ isBlank c = false := by
  have h0 : lexOne t.text = some (t, []) := by simpa [Tok.ok] using ht
  cases htx : t.text with
  | nil => rw [htx] at h0; simp [lexOne, lexSym] at h0
  | cons c r =>
    refine ⟨c, r, rfl, ?_⟩
    cases hb : isBlank c with
    | false => rfl
    | true => rw [htx, lexOne_blank c r hb] at h0; cases h0

theorem canFollow_blank (t : Tok) (c : Char) (hc : isBlank c = true) : t.canFollow c = true := by
  simp only [isBlank, Bool.or_eq_true, beq_iff_eq] at hc
  rcases hc with rfl | rfl
  · cases t with
    | lit l => cases l <;> simp [Tok.canFollow] <;> decide
    | sym s => cases s <;> simp [Tok.canFollow]
    | _ => simp [Tok.canFollow] <;> decide
  · cases t with
    | lit l => cases l <;> simp [Tok.canFollow] <;> decide
    | sym s => cases s <;> simp [Tok.canFollow]
    | _ => simp [Tok.canFollow] <;> decide

theorem lexF_space (f : Nat) (s : List Char) : lexF f (' ' :: s) = lexF f s := by
  cases f with
  | zero => rfl
  | succ f => simp [lexF, dropBlanks, isBlank]

/-! ### the lexer inverts the renderer -/

theorem lexF_render (σ : Spacing) : ∀ (ts : List Tok) (i f : Nat), (∀ t ∈ ts, t.ok = true) →
    (renderFrom σ i ts).length + 1 ≤ f → lexF f (renderFrom σ i ts) = some ts := by
  intro ts
  induction ts with
  | nil =>
    intro i f _ hf
    obtain ⟨f', rfl⟩ : ∃ f', f = f' + 1 := ⟨f - 1, by omega⟩
    have := dropBlanks_blankRun (σ i) []
    simp only [List.append_nil] at this
    simp [renderFrom, lexF, this, dropBlanks]
  | cons t ts ih =>
    intro i f hok hf
    obtain ⟨f', rfl⟩ : ∃ f', f = f' + 1 := ⟨f - 1, by omega⟩
    have ht := hok t (by simp)
    obtain ⟨c, r, htx, hcb⟩ := Tok.ok_text ht
    -- the part after the text of `t`
    obtain ⟨R, hR⟩ : ∃ R, glue σ i t ts ++ renderFrom σ (i+1) ts = R := ⟨_, rfl⟩
    have hrender : renderFrom σ i (t :: ts) = blankRun (σ i) ++ (t.text ++ R) := by
      simp only [renderFrom, List.append_assoc, ← hR]
    have hfollow : Follow t R := by
      intro c' hc'
      cases ts with
      | nil =>
        simp only [glue, List.nil_append, renderFrom] at hR
        subst hR
        cases hσ : σ (i+1) with
        | nil => simp [hσ, blankRun] at hc'
        | cons b bs =>
          have := blankRun_head (σ (i+1)) [] c' (by simpa using hc') (by simp [hσ])
          exact canFollow_blank t c' this
      | cons u us =>
        cases hσ : σ (i+1) with
        | cons b bs =>
          simp only [glue, hσ, List.isEmpty_cons, Bool.and_false, Bool.false_eq_true, ↓reduceIte, List.nil_append,
            renderFrom, List.append_assoc] at hR
          subst hR
          have := blankRun_head (b :: bs) _ c' hc' (by simp)
          exact canFollow_blank t c' this
        | nil =>
          by_cases hnb : needsBlank t u = true
          · simp only [glue, hσ, hnb, List.isEmpty_nil, Bool.and_self, ↓reduceIte] at hR
            subst hR
            simp only [List.cons_append, List.nil_append, List.head?_cons, Option.mem_def, Option.some.injEq] at hc'
            subst hc'
            exact canFollow_blank t ' ' (by decide)
          · obtain ⟨cu, ru, hux, _⟩ := Tok.ok_text (hok u (by simp))
            simp only [glue, hσ, hnb, Bool.false_and, Bool.false_eq_true, ↓reduceIte, List.nil_append, renderFrom, blankRun,
              List.map_nil, hux, List.cons_append, List.append_assoc] at hR
            subst hR
            simp only [List.head?_cons, Option.mem_def, Option.some.injEq] at hc'
            subst hc'
            simpa [needsBlank, hux] using hnb
    have hlex := lexOne_ext t ht R hfollow
    have hdb : dropBlanks (renderFrom σ i (t :: ts)) = t.text ++ R := by
      rw [hrender, dropBlanks_blankRun, htx]
      simp [dropBlanks, hcb]
    have hlenR : R.length + 1 ≤ f' := by
      have : (renderFrom σ i (t :: ts)).length = (blankRun (σ i)).length + (t.text.length + R.length) := by
        rw [hrender]; simp
      rw [htx] at this
      simp only [List.length_cons] at this
      omega
    have hrest : lexF f' R = some ts := by
      cases ts with
      | nil =>
        simp only [glue, List.nil_append] at hR
        rw [← hR]
        exact ih (i+1) f' (fun _ h => by simp at h) (by rw [hR]; exact hlenR)
      | cons u us =>
        have hok' : ∀ t' ∈ u :: us, t'.ok = true := fun t' h => hok t' (List.mem_cons_of_mem _ h)
        by_cases hg : (needsBlank t u && (σ (i+1)).isEmpty) = true
        · simp only [glue, hg, ↓reduceIte, List.cons_append, List.nil_append] at hR
          rw [← hR, lexF_space]
          refine ih (i+1) f' hok' ?_
          rw [← hR] at hlenR
          simp only [List.length_cons] at hlenR
          omega
        · simp only [glue, hg, Bool.false_eq_true, ↓reduceIte, List.nil_append] at hR
          rw [← hR]
          exact ih (i+1) f' hok' (by rw [hR]; exact hlenR)
    have htxne : t.text ++ R = c :: (r ++ R) := by rw [htx]; rfl
    simp only [lexF, hdb]
    rw [htxne] at hlex ⊢
    simp only [hlex, hrest]

/-- **The lexer inverts the renderer**: whatever blanks are put between the tokens. -/
theorem lex_render (σ : Spacing) (ts : List Tok) (hok : ∀ t ∈ ts, t.ok = true) : lex (renderToks σ ts) = some ts :=
  lexF_render σ ts 0 _ hok (Nat.le_refl _)

end Ex
