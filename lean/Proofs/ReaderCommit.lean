import Proofs.Reader
import Proofs.ReaderLoc
/-! The lazily committed attribute, end to end (C17.commit_fault_line): an attribute whose commit is bound to fail is
    reported with its own line wherever the commit happens — at its own line end, at the first empty line behind it, at the
    first identifier or the statement visitor of the next statement, or at the end of the text. -/
namespace Reader

/-- an attribute of line `n` is queued and its commit is bound to fail: its constructor raises (`bad`), or it is a
    field/padding of a union whose `_offset_` has been used -/
def Doomed (n : Nat) (s : St) : Prop :=
  s.header = false ∧ s.lastAttrLine = n ∧ n ≠ 0 ∧
  ∃ a bad, s.pending = some (a, bad) ∧
    (bad = true ∨ (a.core.kind ≠ .const ∧ (s.cur.union && s.cur.offsetUsed) = true))

theorem commitAttr_doomed {c n s a bad doc}
    (hb : bad = true ∨ (a.core.kind ≠ .const ∧ (s.cur.union && s.cur.offsetUsed) = true)) :
    commitAttr c n s a bad doc = .error (⟨c.self, some n⟩, s.w) := by
  unfold commitAttr
  by_cases hbad : bad = true
  · rw [if_pos hbad]; rfl
  · rw [if_neg hbad]
    rcases hb with hb | ⟨hk, hu⟩
    · exact absurd hb hbad
    · cases hkk : a.core.kind with
      | const => exact absurd hkk hk
      | field => simp only [hu, if_true]; rfl
      | padding => simp only [hu, if_true]; rfl

/-- whatever the line counter says, the flush of a doomed state raises with the line of the queued attribute -/
theorem flush_doomed {c n k s} (h : Doomed n s) : flush c k s = .error (⟨c.self, some n⟩, s.w) := by
  obtain ⟨hh, hl, hn, a, bad, hp, hb⟩ := h
  unfold flush
  rw [if_neg (by simp [hh])]
  rw [hl, if_neg hn]
  unfold flushAttr
  simp only [hp]
  rw [commitAttr_doomed hb]
  rfl

theorem addLineComment_w (l : Line) (s : St) : (addLineComment l s).w = s.w := by
  unfold addLineComment; cases l.comment <;> rfl

theorem markOffs_w (l : Line) (s : St) : (markOffs l s).w = s.w := by
  unfold markOffs; split <;> rfl

theorem Doomed.addLineComment {n s} (l : Line) (h : Doomed n s) : Doomed n (addLineComment l s) := by
  unfold Reader.addLineComment; cases l.comment <;> exact h

/-- using `_offset_` in the meantime does not rescue the attribute -/
theorem Doomed.markOffs {n s} (l : Line) (h : Doomed n s) : Doomed n (markOffs l s) := by
  unfold Reader.markOffs
  split
  · obtain ⟨hh, hl, hn, a, bad, hp, hb⟩ := h
    refine ⟨hh, hl, hn, a, bad, hp, ?_⟩
    rcases hb with hb | ⟨hk, hu⟩
    · exact Or.inl hb
    · right; refine ⟨hk, ?_⟩
      simp only [Bool.and_eq_true] at hu ⊢
      exact ⟨hu.1, trivial⟩
  · exact h

/-- a line without a statement (comment line, blank line, empty line): the doomed attribute is committed there (empty
    line) and reported with its own line, or it stays queued -/
theorem stepLine_doomed_gap {c n k s x} (hx : x.stmt = none) (h : Doomed n s) :
    stepLine c k s x = .error (⟨c.self, some n⟩, s.w) ∨
      ∃ s', stepLine c k s x = .ok s' ∧ Doomed n s' ∧ s'.w = s.w := by
  unfold stepLine
  simp only [hx, bind, Except.bind]
  split
  · left
    rw [flush_doomed (h.addLineComment x), addLineComment_w]
  · right
    exact ⟨_, rfl, h.addLineComment x, addLineComment_w x s⟩

theorem runLines_doomed_gap {c n} (gap : List Line) (hg : ∀ x ∈ gap, x.stmt = none) : ∀ k s, Doomed n s →
    runLines c k s gap = .error (⟨c.self, some n⟩, s.w) ∨
      ∃ s', runLines c k s gap = .ok s' ∧ Doomed n s' ∧ s'.w = s.w := by
  induction gap with
  | nil => intro k s h; right; exact ⟨s, rfl, h, rfl⟩
  | cons x gap ih =>
    intro k s h
    simp only [runLines]
    rcases stepLine_doomed_gap (c := c) (k := k) (hg x (List.mem_cons_self ..)) h with he | ⟨s1, h1, d1, w1⟩
    · left; rw [he]; rfl
    · rw [h1]
      simp only [bind, Except.bind]
      rcases ih (fun y hy => hg y (List.mem_cons_of_mem _ hy)) (x.next k) s1 d1 with he | ⟨s2, h2, d2, w2⟩
      · left; rw [he, w1]
      · right; exact ⟨s2, h2, d2, by rw [w2, w1]⟩

/-- the next statement: unless it fails before anything is flushed, its first flush commits the doomed attribute — the
    flush of the first identifier / reference / dependency (before any dependency is read) or, for a statement without
    any of these, the flush of the statement visitor -/
theorem visitStmt_doomed {c n k r st s} (hpre : r.fault ≠ some .pre)
    (hmid : r.fault = some .mid → (st.hasIdent || !r.refs.isEmpty || !r.deps.isEmpty) = true) (h : Doomed n s) :
    visitStmt c k r st s = .error (⟨c.self, some n⟩, s.w) := by
  unfold visitStmt visitChildren
  rw [if_neg hpre]
  by_cases hc : (st.hasIdent || !r.refs.isEmpty || !r.deps.isEmpty) = true
  · rw [if_pos hc, flush_doomed h]; rfl
  · rw [if_neg hc]
    have hm : ¬ r.fault = some .mid := fun hm => hc (hmid hm)
    simp only [Bool.or_eq_true, Bool.not_eq_true', not_or, Bool.not_eq_true] at hc
    obtain ⟨⟨_, hr⟩, hd⟩ := hc
    have hr' : r.refs = [] := by simpa using hr
    have hd' : r.deps = [] := by simpa using hd
    simp only [hr', hd', resolveRefs, readDeps, bind, Except.bind, if_neg hm]
    unfold emitStmt
    rw [flush_doomed (h.markOffs r), markOffs_w]; rfl

/-- a successfully visited attribute statement leaves its attribute queued under its own line -/
theorem visitStmt_attr_queued {c k l core s s'} (hi : s.pending.isSome → s.header = false)
    (h : visitStmt c k l (.attr core) s = .ok s') :
    s'.header = false ∧ s'.lastAttrLine = k ∧ s'.pending = some (⟨core, "", k⟩, l.fault == some .commit) := by
  unfold visitStmt at h
  rw [bind_ok] at h
  obtain ⟨s3, h3, h⟩ := h
  obtain ⟨_, b3⟩ := visitChildren_last h3 hi
  have hi3 : s3.pending.isSome → s3.header = false := by
    rcases b3 with ⟨b, d⟩ | ⟨b, d⟩
    · rw [b, d]; exact hi
    · simp [b]
  unfold emitStmt at h
  rw [bind_ok] at h
  obtain ⟨s4, h4, h⟩ := h
  obtain ⟨_, p4, hd4⟩ := flush_last h4 hi3
  split at h
  · simp [raise] at h
  · simp only at h
    unfold onAttr at h
    split at h
    · simp [raise] at h
    · rw [map_ok] at h
      obtain ⟨s5, h5, h6⟩ := h
      simp [flushAttr, p4] at h5
      subst h5; subst h6
      exact ⟨hd4, rfl, rfl⟩

theorem firstSyntaxError_none {ls : List Line} (h : ∀ x ∈ ls, x.fault ≠ some .syn) : ∀ k, firstSyntaxError k ls = none := by
  induction ls with
  | nil => intro k; rfl
  | cons l ls ih =>
    intro k
    simp only [firstSyntaxError]
    rw [if_neg (h l (List.mem_cons_self ..))]
    exact ih (fun x hx => h x (List.mem_cons_of_mem _ hx)) _

theorem lineAfter_pos (ls : List Line) : ∀ k, 0 < k → 0 < lineAfter k ls := by
  induction ls with
  | nil => intro k hk; exact hk
  | cons l ls ih => intro k _; exact ih _ (next_pos l k)

/-- what may follow the statement-less lines behind the attribute: the end of the text, or a statement that does not fail
    before its first flush -/
def RestOk (rest : List Line) : Prop :=
  rest = [] ∨ ∃ r rest' st, rest = r :: rest' ∧ r.stmt = some st ∧ r.fault ≠ some .pre ∧
    (r.fault = some .mid → (st.hasIdent || !r.refs.isEmpty || !r.deps.isEmpty) = true)

/-- from the queued doomed attribute to the end of `parse` -/
theorem doomed_tail {c n} {α : Type} (gap rest : List Line) (hgap : ∀ x ∈ gap, x.stmt = none) (hrest : RestOk rest)
    (k k' : Nat) (s : St) (h : Doomed n s) (g : St → M α) :
    (runLines c k s (gap ++ rest) >>= fun s' => flush c k' s' >>= g) = .error (⟨c.self, some n⟩, s.w) := by
  rw [runLines_append]
  rcases runLines_doomed_gap (c := c) gap hgap k s h with he | ⟨s2, h2, d2, w2⟩
  · rw [he]; rfl
  · rw [h2]
    simp only [bind, Except.bind]
    rcases hrest with rfl | ⟨r, rest', st, rfl, hst, hpre, hmid⟩
    · simp only [runLines]
      rw [flush_doomed d2, w2]
    · simp only [runLines, stepLine, hst]
      rw [visitStmt_doomed hpre hmid d2, w2]
      rfl

/-- END TO END: the attribute statement `l` behind `pre` was queued successfully and its commit is bound to fail; any
    number of statement-less lines follow, then the end of the text or a statement that does not fail before its first
    flush.  The read fails with the own path and the number of `l`'s own line, and the world is the one `l` left. -/
theorem readText_commit_fault {c w pre l gap rest core s0 s1}
    (hsyn : ∀ x ∈ pre ++ l :: (gap ++ rest), x.fault ≠ some .syn)
    (hpre : runLines c 1 (St.init w) pre = .ok s0)
    (hvis : visitStmt c (lineAfter 1 pre) l (.attr core) s0 = .ok s1)
    (hl : l.stmt = some (.attr core))
    (hbad : l.fault = some .commit ∨ (core.kind ≠ .const ∧ (s1.cur.union && s1.cur.offsetUsed) = true))
    (hgap : ∀ x ∈ gap, x.stmt = none) (hrest : RestOk rest) :
    readText c (pre ++ l :: (gap ++ rest)) w = .error (⟨c.self, some (lineAfter 1 pre)⟩, s1.w) := by
  have hn : 0 < lineAfter 1 pre := lineAfter_pos pre 1 (by omega)
  have hi0 := (runLines_rinv pre _ _ _ _ hpre (RInv_init w)).1
  obtain ⟨q1, q2, q3⟩ := visitStmt_attr_queued hi0 hvis
  have hD : Doomed (lineAfter 1 pre) s1 := by
    refine ⟨q1, q2, by omega, _, _, q3, ?_⟩
    rcases hbad with hb | hb
    · left; simp [hb]
    · right; exact hb
  unfold readText
  rw [firstSyntaxError_none hsyn]
  simp only
  rw [runLines_append, hpre]
  simp only [bind, Except.bind, runLines, stepLine, hl, hvis]
  by_cases he : l.textEmpty = true
  · rw [if_pos he, flush_doomed (hD.addLineComment l), addLineComment_w]
  · rw [if_neg he]
    have := doomed_tail (c := c) gap rest hgap hrest (l.next (lineAfter 1 pre))
      (lastLine 1 (pre ++ l :: (gap ++ rest))) _ (hD.addLineComment l)
      (fun s' => (finalize c s').map fun comp => (comp, s'.w))
    simp only [bind, Except.bind, addLineComment_w] at this
    exact this

end Reader
