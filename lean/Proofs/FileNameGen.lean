import Bridge.FileName
import Model.Const
/-! Helper lemmas for `Props/C13Gen.lean`: the file-name outcome of the expression-group model (`Ex.fileNameOutcome`, used by
    the `garbage` suite) against the characterisation of the generated `DSDLDefinition.__init__` slice. -/
open Ns Bridge.FileName

namespace FileNameGen

theorem splitOn_dot (cs : List Char) : Ex.splitOn '.' cs = splitDots cs := by
  unfold Ex.splitOn
  induction cs with
  | nil => rfl
  | cons c cs ih =>
    simp only [List.foldr_cons, splitDots]
    by_cases hc : c = '.'
    · subst hc
      simp only [beq_self_eq_true, if_true]
      rw [← ih]
    · have hb : (c == '.') = false := by simpa using hc
      simp only [hb, Bool.false_eq_true, if_false, hc]
      rw [← ih]

theorem decimalOk_eq (p : List Char) : Ex.decimalOk p = isDigits p := rfl

theorem decimal_isSome {p : List Char} (hp : p.length ≤ Py.intMaxStrDigits) : (decimal p).isSome = isDigits p := by
  unfold decimal
  by_cases hd : isDigits p = true <;> simp [hd, hp]

/-- the model's file-name outcome is the outcome of the generated code (as characterised by `initSpec`) -/
theorem fileNameOutcome_eq (root n : String) (parts : List String) (hroot : hasDot root = false)
    (hparts : parts.any hasDot = false) (hlen : ∀ p ∈ (splitDots n.toList).dropLast, p.length ≤ Py.intMaxStrDigits) :
    Ex.fileNameOutcome n = match initSpec root n parts with
      | .ok v => .parsed v.fixed_port_id.isSome
      | .error _ => .formatError := by
  unfold Ex.fileNameOutcome initSpec
  simp only [splitOn_dot, hroot, hparts, Bool.false_eq_true, if_false, decimalOk_eq]
  generalize (splitDots n.toList).dropLast = comps at *
  match comps, hlen with
  | [], _ => rfl
  | [a], _ => rfl
  | [a, b], _ => rfl
  | [a, ma, mi], hlen =>
    have h1 := decimal_isSome (hlen ma (by simp))
    have h2 := decimal_isSome (hlen mi (by simp))
    dsimp only
    cases hma : decimal ma <;> cases hmi : decimal mi <;> simp [hma, hmi] at h1 h2 <;> simp [h1, h2, fnfe]
  | [p, a, ma, mi], hlen =>
    have h0 := decimal_isSome (hlen p (by simp))
    have h1 := decimal_isSome (hlen ma (by simp))
    have h2 := decimal_isSome (hlen mi (by simp))
    dsimp only
    cases hp : decimal p <;> cases hma : decimal ma <;> cases hmi : decimal mi <;> simp [hp, hma, hmi] at h0 h1 h2 <;>
      simp [h0, h1, h2, fnfe]
  | a :: b :: c :: d :: f :: r, _ => rfl

end FileNameGen
