import Model.Float
import Mathlib.Tactic.Ring
import Mathlib.Tactic.Linarith
import Mathlib.Tactic.NormNum
import Mathlib.Tactic.Positivity
import Mathlib.Data.Rat.Defs
import Mathlib.Algebra.Order.Field.Rat
import Mathlib.Algebra.Order.Field.Basic
import Mathlib.Tactic.FieldSimp
import Mathlib.Data.Rat.Cast.Order
/-!
  Lemmas about `Model/Float.lean` (IEEE-754 binary formats in exact integer arithmetic): bit length, round-half-even
  of a quotient, order and injectivity of pattern values, `roundScaled` (exact on the numbers of the format, nearest,
  ties to even, overflow threshold, monotone), then the same for `roundBinary` / `roundRat` over the rationals.
  The property theorems are in `Props/C06Float.lean`.
-/
namespace WireFloat

/-! ### bit length -/

theorem blenAux_spec : ∀ fuel n, n ≤ fuel → n < 2 ^ blenAux fuel n ∧ (n ≠ 0 → 2 ^ (blenAux fuel n - 1) ≤ n)
  | 0, n, h => by
    have : n = 0 := by omega
    subst this; simp [blenAux]
  | fuel + 1, n, h => by
    unfold blenAux
    by_cases hn : n = 0
    · simp [hn]
    · simp only [hn, if_false]
      have ih := blenAux_spec fuel (n / 2) (by omega)
      refine ⟨?_, fun _ => ?_⟩
      · rw [Nat.pow_succ]; omega
      · simp only [Nat.add_sub_cancel]
        by_cases h2 : n / 2 = 0
        · have : n = 1 := by omega
          subst this
          have : blenAux fuel (1/2) = 0 := by
            cases fuel <;> simp [blenAux]
          rw [this]; simp
        · have := ih.2 h2
          have e : blenAux fuel (n / 2) = (blenAux fuel (n / 2) - 1) + 1 := by
            have := ih.1
            rcases Nat.eq_zero_or_pos (blenAux fuel (n / 2)) with h0 | h0
            · rw [h0] at this; omega
            · omega
          rw [e, Nat.pow_succ]; omega

theorem blen_lt (n : Nat) : n < 2 ^ blen n := (blenAux_spec n n (Nat.le_refl n)).1
theorem blen_le (n : Nat) (h : n ≠ 0) : 2 ^ (blen n - 1) ≤ n := (blenAux_spec n n (Nat.le_refl n)).2 h

theorem blen_le_of_lt {n L : Nat} (h : n < 2 ^ L) : blen n ≤ L := by
  by_contra hc
  have hn : n ≠ 0 := by
    rintro rfl
    have : blen 0 = 0 := by simp [blen, blenAux]
    omega
  have h1 := blen_le n hn
  have h2 : 2 ^ L ≤ 2 ^ (blen n - 1) := Nat.pow_le_pow_right (by decide) (by omega)
  omega

theorem blen_eq {n L : Nat} (h1 : 2 ^ L ≤ n) (h2 : n < 2 ^ (L + 1)) : blen n = L + 1 := by
  have hle := blen_le_of_lt h2
  have h3 := blen_lt n
  by_contra hc
  have : 2 ^ blen n ≤ 2 ^ L := Nat.pow_le_pow_right (by decide) (by omega)
  omega

/-! ### round half even of a quotient -/

section rhe
variable {N D : Nat}

theorem rhe_cases (N D : Nat) :
    (rhe N D = N / D ∧ 2 * (N % D) ≤ D) ∨ (rhe N D = N / D + 1 ∧ D ≤ 2 * (N % D)) := by
  unfold rhe
  split
  · left; omega
  · split
    · right; omega
    · split
      · left; omega
      · right; omega

theorem rhe_ge (N D : Nat) : N / D ≤ rhe N D := by
  rcases rhe_cases N D with h | h <;> omega
theorem rhe_le (N D : Nat) : rhe N D ≤ N / D + 1 := by
  rcases rhe_cases N D with h | h <;> omega

/-- the quotient-remainder decomposition with the product as an atom -/
theorem divmod (N D : Nat) : N / D * D + N % D = N := by
  rw [Nat.mul_comm]; exact Nat.div_add_mod N D

/-- `rhe N D` is within half of `N / D`. -/
theorem rhe_half (hD : 0 < D) : 2 * (rhe N D * D) ≤ 2 * N + D ∧ 2 * N ≤ 2 * (rhe N D * D) + D := by
  have e := divmod N D
  have hr := Nat.mod_lt N hD
  rcases rhe_cases N D with ⟨h, h'⟩ | ⟨h, h'⟩
  · rw [h]; omega
  · rw [h, Nat.add_mul]; omega

theorem nearest_core (q r D N m z : Nat) (e : q * D + r = N) (hr : r < D)
    (hm : (m = q ∧ 2 * r ≤ D) ∨ (m = q + 1 ∧ D ≤ 2 * r)) :
    |(m : Int) * D - N| ≤ |(z : Int) * D - N| := by
  subst e
  rcases Nat.lt_or_ge q z with hz | hz
  · have hz' : (q + 1) * D ≤ z * D := Nat.mul_le_mul_right D hz
    rw [Nat.add_mul] at hz'
    have h1 := le_abs_self ((z : Int) * D - (q * D + r : Nat))
    rcases hm with ⟨h, h'⟩ | ⟨h, h'⟩ <;> subst h <;> rw [abs_le] <;> push_cast at * <;>
      (try rw [Int.add_mul]) <;> constructor <;> omega
  · have hz' : z * D ≤ q * D := Nat.mul_le_mul_right D hz
    have h1 := neg_le_abs ((z : Int) * D - (q * D + r : Nat))
    rcases hm with ⟨h, h'⟩ | ⟨h, h'⟩ <;> subst h <;> rw [abs_le] <;> push_cast at * <;>
      (try rw [Int.add_mul]) <;> constructor <;> omega

/-- No integer is closer to `N / D` than `rhe N D`. -/
theorem rhe_nearest (hD : 0 < D) (z : Nat) :
    |(rhe N D : Int) * D - N| ≤ |(z : Int) * D - N| :=
  nearest_core (N / D) (N % D) D N _ z (divmod N D) (Nat.mod_lt N hD) (rhe_cases N D)

theorem rhe_mul (hD : 0 < D) (z : Nat) : rhe (z * D) D = z := by
  unfold rhe
  rw [Nat.mul_mod_left, Nat.mul_div_cancel _ hD]
  simp [hD]

/-- Ties: when `N / D` is half-way between two integers the even one is chosen. -/
theorem rhe_tie_even (h : 2 * (rhe N D * D) = 2 * N + D ∨ 2 * (rhe N D * D) + D = 2 * N) (hD : 0 < D) :
    rhe N D % 2 = 0 := by
  have e := divmod N D
  have hr := Nat.mod_lt N hD
  have key : 2 * (N % D) = D := by
    rcases rhe_cases N D with ⟨h1, h'⟩ | ⟨h1, h'⟩
    · rw [h1] at h; omega
    · rw [h1, Nat.add_mul] at h; omega
  unfold rhe
  simp only [key, Nat.lt_irrefl, if_false]
  split <;> omega

/-- For an even `z`: `z ≤ rhe N D` iff `N / D ≥ z - 1/2`. -/
theorem rhe_ge_even (hD : 0 < D) (z : Nat) (hz : z % 2 = 0) :
    z ≤ rhe N D ↔ 2 * (z * D) ≤ 2 * N + D := by
  have e := divmod N D
  have hr := Nat.mod_lt N hD
  constructor
  · intro h
    rcases Nat.lt_or_ge (N / D) z with hq | hq
    · -- z = N / D + 1
      rcases rhe_cases N D with ⟨h1, h'⟩ | ⟨h1, h'⟩
      · omega
      · have : z = N / D + 1 := by omega
        rw [this, Nat.add_mul]; omega
    · have : z * D ≤ N / D * D := Nat.mul_le_mul_right D hq
      omega
  · intro h
    rcases Nat.lt_or_ge (N / D) z with hq | hq
    · have h3 : z ≤ N / D + 1 := by
        by_contra hc
        have : (N / D + 2) * D ≤ z * D := Nat.mul_le_mul_right D (by omega)
        rw [Nat.add_mul] at this; omega
      have hz' : z = N / D + 1 := by omega
      rw [hz', Nat.add_mul] at h
      unfold rhe
      split
      · omega
      · split
        · omega
        · split
          · omega
          · omega
    · exact Nat.le_trans hq (rhe_ge N D)

theorem rhe_scale (N D c : Nat) (hc : 0 < c) : rhe (N * c) (D * c) = rhe N D := by
  unfold rhe
  rw [Nat.mul_mod_mul_right, Nat.mul_div_mul_right _ _ hc]
  have e1 : (2 * (N % D * c) < D * c) = (2 * (N % D) < D) := by
    rw [← Nat.mul_assoc]; exact propext (Nat.mul_lt_mul_right hc)
  have e2 : (D * c < 2 * (N % D * c)) = (D < 2 * (N % D)) := by
    rw [← Nat.mul_assoc]; exact propext (Nat.mul_lt_mul_right hc)
  simp only [e1, e2]

end rhe
/-! ### patterns and their values -/

theorem two_pow_pos (n : Nat) : 0 < 2 ^ n := Nat.pow_pos (by decide)

theorem pat_div (mb E M : Nat) (hM : M < 2 ^ mb) : (E * 2 ^ mb + M) / 2 ^ mb = E := by
  rw [Nat.add_comm, Nat.add_mul_div_right _ _ (two_pow_pos mb), Nat.div_eq_of_lt hM, Nat.zero_add]

theorem pat_mod (mb E M : Nat) (hM : M < 2 ^ mb) : (E * 2 ^ mb + M) % 2 ^ mb = M := by
  rw [Nat.add_comm, Nat.add_mul_mod_self_right, Nat.mod_eq_of_lt hM]

theorem pat_split (mb b : Nat) : b = b / 2 ^ mb * 2 ^ mb + b % 2 ^ mb := (divmod b (2 ^ mb)).symm

theorem decodeScaled_pat (mb E M : Nat) (hM : M < 2 ^ mb) :
    decodeScaled mb (E * 2 ^ mb + M) = if E = 0 then M else (2 ^ mb + M) * 2 ^ (E - 1) := by
  unfold decodeScaled
  rw [pat_div mb E M hM, pat_mod mb E M hM]

/-- Every value of the format is `m * 2^j` with a significand `m` of at most `mb + 1` bits. -/
theorem decodeScaled_form (mb b : Nat) : ∃ m j, decodeScaled mb b = m * 2 ^ j ∧ m < 2 ^ (mb + 1) := by
  have hM := Nat.mod_lt b (two_pow_pos mb)
  unfold decodeScaled
  split
  · exact ⟨b % 2 ^ mb, 0, by simp, by rw [Nat.pow_succ]; omega⟩
  · exact ⟨2 ^ mb + b % 2 ^ mb, b / 2 ^ mb - 1, rfl, by rw [Nat.pow_succ]; omega⟩

theorem decodeScaled_lt (mb b : Nat) : decodeScaled mb b < 2 ^ (mb + b / 2 ^ mb) := by
  have hM := Nat.mod_lt b (two_pow_pos mb)
  unfold decodeScaled
  split
  · rename_i h; rw [h]; exact hM
  · rename_i h
    have e : mb + b / 2 ^ mb = (mb + 1) + (b / 2 ^ mb - 1) := by
      generalize b / 2 ^ mb = E at *; omega
    rw [e, Nat.pow_add]
    exact Nat.mul_lt_mul_of_pos_right (by rw [Nat.pow_succ]; omega) (two_pow_pos _)

theorem decodeScaled_ge (mb b : Nat) (h : b / 2 ^ mb ≠ 0) : 2 ^ (mb + (b / 2 ^ mb - 1)) ≤ decodeScaled mb b := by
  unfold decodeScaled
  rw [if_neg h, Nat.pow_add]
  exact Nat.mul_le_mul_right _ (Nat.le_add_right _ _)

theorem decodeScaled_strictMono (mb : Nat) {a b : Nat} (h : a < b) : decodeScaled mb a < decodeScaled mb b := by
  have ea := pat_split mb a
  have eb := pat_split mb b
  have hMa := Nat.mod_lt a (two_pow_pos mb)
  have hMb := Nat.mod_lt b (two_pow_pos mb)
  rcases Nat.lt_trichotomy (a / 2 ^ mb) (b / 2 ^ mb) with hE | hE | hE
  · have h1 := decodeScaled_lt mb a
    have h2 := decodeScaled_ge mb b (Nat.ne_of_gt (Nat.lt_of_le_of_lt (Nat.zero_le _) hE))
    have h3 : 2 ^ (mb + a / 2 ^ mb) ≤ 2 ^ (mb + (b / 2 ^ mb - 1)) :=
      Nat.pow_le_pow_right (by decide) (by generalize b / 2 ^ mb = E at *; generalize a / 2 ^ mb = E' at *; omega)
    omega
  · have hM : a % 2 ^ mb < b % 2 ^ mb := by rw [hE] at ea; omega
    unfold decodeScaled
    rw [hE]
    split
    · exact hM
    · exact Nat.mul_lt_mul_of_pos_right (by omega) (two_pow_pos _)
  · exfalso
    have : (b / 2 ^ mb + 1) * 2 ^ mb ≤ a / 2 ^ mb * 2 ^ mb := Nat.mul_le_mul_right _ hE
    rw [Nat.add_mul] at this
    omega

theorem decodeScaled_mono (mb : Nat) {a b : Nat} (h : a ≤ b) : decodeScaled mb a ≤ decodeScaled mb b := by
  rcases Nat.lt_or_eq_of_le h with h | h
  · exact Nat.le_of_lt (decodeScaled_strictMono mb h)
  · rw [h]

theorem decodeScaled_inj (mb : Nat) {a b : Nat} (h : decodeScaled mb a = decodeScaled mb b) : a = b := by
  rcases Nat.lt_trichotomy a b with h1 | h1 | h1
  · have := decodeScaled_strictMono mb h1; omega
  · exact h1
  · have := decodeScaled_strictMono mb h1; omega

/-- The pattern `k * 2^mb + m` (spacing exponent `k`, significand `m` with the carry case `m = 2^(mb+1)` included)
    has the value `m * 2^k`. -/
theorem decodeScaled_assemble (mb k m : Nat) (h1 : k = 0 ∨ 2 ^ mb ≤ m) (h2 : m ≤ 2 ^ (mb + 1)) :
    decodeScaled mb (k * 2 ^ mb + m) = m * 2 ^ k := by
  have hp : 2 ^ (mb + 1) = 2 * 2 ^ mb := by rw [Nat.pow_succ, Nat.mul_comm]
  rcases Nat.lt_or_ge m (2 ^ mb) with hm | hm
  · have hk : k = 0 := by omega
    subst hk
    rw [decodeScaled_pat mb 0 m hm]; simp
  · rcases Nat.lt_or_ge m (2 ^ (mb + 1)) with hm2 | hm2
    · have e : k * 2 ^ mb + m = (k + 1) * 2 ^ mb + (m - 2 ^ mb) := by rw [Nat.add_mul]; omega
      rw [e, decodeScaled_pat mb (k + 1) (m - 2 ^ mb) (by omega)]
      simp only [Nat.add_one_ne_zero, if_false, Nat.add_sub_cancel]
      congr 1; omega
    · have hm3 : m = 2 ^ (mb + 1) := by omega
      have e : k * 2 ^ mb + m = (k + 2) * 2 ^ mb + 0 := by rw [Nat.add_mul]; omega
      rw [e, decodeScaled_pat mb (k + 2) 0 (two_pow_pos mb), hm3]
      simp only [Nat.add_eq_zero_iff, OfNat.ofNat_ne_zero, and_false, if_false, Nat.add_zero]
      have : k + 2 - 1 = k + 1 := by omega
      rw [this, Nat.pow_succ, Nat.pow_succ]; ring

/-! ### the rounding function -/

/-- The spacing exponent of `x` quanta. -/
def spacing (mb N d : Nat) : Nat := blen (N / d) - (mb + 1)

theorem roundScaled_eq (mb N d : Nat) :
    roundScaled mb N d = spacing mb N d * 2 ^ mb + rhe N (d * 2 ^ spacing mb N d) := rfl

/-- The binade of `N / d`: with `k` the spacing exponent and `D = d * 2^k`,
    `N / D < 2^(mb+1)`, and `2^mb ≤ N / D` unless `k = 0`. -/
theorem spacing_facts (mb N d : Nat) (hd : 0 < d) :
    (spacing mb N d ≠ 0 → 2 ^ mb * (d * 2 ^ spacing mb N d) ≤ N) ∧
    N < 2 ^ (mb + 1) * (d * 2 ^ spacing mb N d) := by
  have hlt := blen_lt (N / d)
  by_cases hk : spacing mb N d = 0
  · rw [hk]
    refine ⟨fun h => absurd rfl h, ?_⟩
    have h1 : blen (N / d) ≤ mb + 1 := by unfold spacing at hk; omega
    have h2 : 2 ^ blen (N / d) ≤ 2 ^ (mb + 1) := Nat.pow_le_pow_right (by decide) h1
    have h3 : N / d < 2 ^ (mb + 1) := by omega
    rw [Nat.pow_zero, Nat.mul_one]
    exact (Nat.div_lt_iff_lt_mul hd).mp h3
  · have hb : blen (N / d) = mb + 1 + spacing mb N d := by unfold spacing at hk ⊢; omega
    have hf : N / d ≠ 0 := by
      intro h0
      rw [h0] at hb
      have : blen 0 = 0 := by simp [blen, blenAux]
      omega
    have hge := blen_le (N / d) hf
    rw [hb] at hge hlt
    have e1 : mb + 1 + spacing mb N d - 1 = mb + spacing mb N d := by omega
    rw [e1] at hge
    constructor
    · intro _
      have := (Nat.le_div_iff_mul_le hd).mp hge
      calc 2 ^ mb * (d * 2 ^ spacing mb N d) = 2 ^ (mb + spacing mb N d) * d := by rw [Nat.pow_add]; ring
        _ ≤ N := this
    · have := (Nat.div_lt_iff_lt_mul hd).mp hlt
      calc N < 2 ^ (mb + 1 + spacing mb N d) * d := this
        _ = 2 ^ (mb + 1) * (d * 2 ^ spacing mb N d) := by rw [Nat.pow_add]; ring

theorem signif_facts (mb N d : Nat) (hd : 0 < d) :
    (spacing mb N d = 0 ∨ 2 ^ mb ≤ rhe N (d * 2 ^ spacing mb N d)) ∧
    rhe N (d * 2 ^ spacing mb N d) ≤ 2 ^ (mb + 1) := by
  have hD : 0 < d * 2 ^ spacing mb N d := Nat.mul_pos hd (two_pow_pos _)
  obtain ⟨h1, h2⟩ := spacing_facts mb N d hd
  constructor
  · by_cases hk : spacing mb N d = 0
    · exact Or.inl hk
    · right
      exact Nat.le_trans ((Nat.le_div_iff_mul_le hD).mpr (h1 hk)) (rhe_ge _ _)
  · have := (Nat.div_lt_iff_lt_mul hD).mpr h2
    have := rhe_le N (d * 2 ^ spacing mb N d)
    omega

/-- The value of the rounded pattern is significand times spacing. -/
theorem decode_roundScaled (mb N d : Nat) (hd : 0 < d) :
    decodeScaled mb (roundScaled mb N d) = rhe N (d * 2 ^ spacing mb N d) * 2 ^ spacing mb N d := by
  obtain ⟨h1, h2⟩ := signif_facts mb N d hd
  rw [roundScaled_eq]
  exact decodeScaled_assemble mb _ _ h1 h2

/-- Rounding is exact on the numbers of the format (of unbounded exponent): `round ∘ decode = id`. -/
theorem roundScaled_decode (mb b d : Nat) (hd : 0 < d) : roundScaled mb (decodeScaled mb b * d) d = b := by
  have hM := Nat.mod_lt b (two_pow_pos mb)
  have hb := pat_split mb b
  rw [roundScaled_eq]
  unfold spacing
  rw [Nat.mul_div_cancel _ hd]
  by_cases hE : b / 2 ^ mb = 0
  · have hv : decodeScaled mb b = b % 2 ^ mb := by unfold decodeScaled; rw [if_pos hE]
    rw [hv]
    have : blen (b % 2 ^ mb) ≤ mb := blen_le_of_lt hM
    have hk : blen (b % 2 ^ mb) - (mb + 1) = 0 := by omega
    rw [hk, Nat.pow_zero, Nat.mul_one, rhe_mul hd]
    rw [hE] at hb; omega
  · have hv : decodeScaled mb b = (2 ^ mb + b % 2 ^ mb) * 2 ^ (b / 2 ^ mb - 1) := by
      unfold decodeScaled; rw [if_neg hE]
    have hl : blen (decodeScaled mb b) = mb + (b / 2 ^ mb - 1) + 1 := by
      apply blen_eq
      · exact decodeScaled_ge mb b hE
      · have := decodeScaled_lt mb b
        have e : mb + b / 2 ^ mb = mb + (b / 2 ^ mb - 1) + 1 := by
          generalize b / 2 ^ mb = E at *; omega
        rwa [e] at this
    have hk : blen (decodeScaled mb b) - (mb + 1) = b / 2 ^ mb - 1 := by rw [hl]; omega
    rw [hk]
    have e2 : decodeScaled mb b * d = (2 ^ mb + b % 2 ^ mb) * (d * 2 ^ (b / 2 ^ mb - 1)) := by rw [hv]; ring
    rw [e2, rhe_mul (Nat.mul_pos hd (two_pow_pos _))]
    generalize b / 2 ^ mb = E at *
    obtain ⟨E', rfl⟩ : ∃ E', E = E' + 1 := ⟨E - 1, by omega⟩
    rw [Nat.add_mul] at hb
    simp only [Nat.add_sub_cancel]
    omega

/-- **Nearest**: no number of the format (`decodeScaled mb b'`, any exponent) is closer to `N / d` than the value
    of the rounded pattern. -/
theorem roundScaled_nearest (mb N d : Nat) (hd : 0 < d) (b' : Nat) :
    |(decodeScaled mb (roundScaled mb N d) : Int) * d - N| ≤ |(decodeScaled mb b' : Int) * d - N| := by
  rw [decode_roundScaled mb N d hd]
  have hD : 0 < d * 2 ^ spacing mb N d := Nat.mul_pos hd (two_pow_pos _)
  obtain ⟨m', j, hW, hm'⟩ := decodeScaled_form mb b'
  rw [hW]
  generalize hk : spacing mb N d = k at *
  have near := fun z => rhe_nearest (N := N) hD z
  have eV : ((rhe N (d * 2 ^ k) * 2 ^ k : Nat) : Int) * d = (rhe N (d * 2 ^ k) : Int) * ((d * 2 ^ k : Nat) : Int) := by
    push_cast; ring
  rw [eV]
  rcases Nat.lt_or_ge j k with hj | hj
  · -- a number of a lower binade: the lower end of the binade of `N / d` lies in between
    have hk0 : spacing mb N d ≠ 0 := by omega
    have hlow := (spacing_facts mb N d hd).1 hk0
    rw [hk] at hlow
    refine le_trans (near (2 ^ mb)) ?_
    have h1 : m' * 2 ^ j * d ≤ 2 ^ mb * (d * 2 ^ k) := by
      have h2 : m' * 2 ^ j ≤ 2 ^ (mb + 1) * 2 ^ j := Nat.mul_le_mul_right _ (Nat.le_of_lt hm')
      have h3 : 2 ^ (mb + 1) * 2 ^ j ≤ 2 ^ mb * 2 ^ k := by
        rw [← Nat.pow_add, ← Nat.pow_add]; exact Nat.pow_le_pow_right (by decide) (by omega)
      calc m' * 2 ^ j * d ≤ 2 ^ mb * 2 ^ k * d := Nat.mul_le_mul_right _ (Nat.le_trans h2 h3)
        _ = 2 ^ mb * (d * 2 ^ k) := by ring
    have h4 := neg_le_abs (((m' * 2 ^ j : Nat) : Int) * d - N)
    rw [abs_le]
    constructor
    · push_cast at *; nlinarith
    · push_cast at *; nlinarith
  · -- a multiple of the spacing
    have e : ((m' * 2 ^ j : Nat) : Int) * d = ((m' * 2 ^ (j - k) : Nat) : Int) * ((d * 2 ^ k : Nat) : Int) := by
      have : 2 ^ j = 2 ^ (j - k) * 2 ^ k := by rw [← Nat.pow_add]; congr 1; omega
      rw [this]; push_cast; ring
    rw [e]
    exact near _

/-- **Overflow threshold** (format with largest spacing exponent `K`, i.e. infinity pattern `(K+2) * 2^mb`):
    the rounded pattern reaches the infinity pattern iff `N / d ≥ (2^(mb+1) - 1/2) * 2^K`, which is the largest
    finite number plus half a unit in its last place. -/
theorem roundScaled_overflow_iff (mb K N d : Nat) (hd : 0 < d) :
    (K + 2) * 2 ^ mb ≤ roundScaled mb N d ↔ 2 ^ (mb + 2) * (d * 2 ^ K) ≤ 2 * N + d * 2 ^ K := by
  obtain ⟨hlow, hhigh⟩ := spacing_facts mb N d hd
  obtain ⟨hm1, hm2⟩ := signif_facts mb N d hd
  rw [roundScaled_eq]
  generalize spacing mb N d = k at *
  have hp1 : 2 ^ (mb + 1) = 2 * 2 ^ mb := by rw [Nat.pow_succ, Nat.mul_comm]
  have hp2 : 2 ^ (mb + 2) = 4 * 2 ^ mb := by rw [Nat.pow_succ, Nat.pow_succ]; omega
  have hP := two_pow_pos mb
  rcases Nat.lt_trichotomy k K with hk | hk | hk
  · have hA : 2 * (d * 2 ^ k) ≤ d * 2 ^ K := by
      have : 2 ^ (k + 1) ≤ 2 ^ K := Nat.pow_le_pow_right (by decide) hk
      calc 2 * (d * 2 ^ k) = d * 2 ^ (k + 1) := by rw [Nat.pow_succ]; ring
        _ ≤ d * 2 ^ K := Nat.mul_le_mul_left _ this
    have hkK : (k + 2) * 2 ^ mb ≤ (K + 1) * 2 ^ mb := Nat.mul_le_mul_right _ (by omega)
    rw [Nat.add_mul] at hkK
    rw [Nat.add_mul K 2]
    rw [hp1] at hm2 hhigh
    rw [hp2]
    generalize d * 2 ^ k = D at *
    generalize d * 2 ^ K = A at *
    have h1 : 2 ^ mb * (2 * D) ≤ 2 ^ mb * A := Nat.mul_le_mul_left _ hA
    have h2 : A ≤ 2 ^ mb * A := Nat.le_mul_of_pos_left _ hP
    constructor
    · intro h; rw [Nat.add_mul] at hkK; omega
    · intro h
      have e1 : 2 * 2 ^ mb * D = 2 ^ mb * (2 * D) := by ring
      have e2 : 4 * 2 ^ mb * A = 4 * (2 ^ mb * A) := by ring
      omega
  · subst hk
    have hD : 0 < d * 2 ^ k := Nat.mul_pos hd (two_pow_pos _)
    have hev : 2 ^ (mb + 1) % 2 = 0 := by rw [hp1]; omega
    have := rhe_ge_even (N := N) hD (2 ^ (mb + 1)) hev
    rw [Nat.add_mul]
    have e : 2 ^ (mb + 2) * (d * 2 ^ k) = 2 * (2 ^ (mb + 1) * (d * 2 ^ k)) := by
      rw [Nat.pow_succ 2 (mb + 1)]; ring
    rw [e, ← this, hp1]
    omega
  · have hk0 : k ≠ 0 := by omega
    have hm : 2 ^ mb ≤ rhe N (d * 2 ^ k) := by rcases hm1 with h | h; exact absurd h hk0; exact h
    have hlow := hlow hk0
    have hA : 2 * (d * 2 ^ K) ≤ d * 2 ^ k := by
      have : 2 ^ (K + 1) ≤ 2 ^ k := Nat.pow_le_pow_right (by decide) hk
      calc 2 * (d * 2 ^ K) = d * 2 ^ (K + 1) := by rw [Nat.pow_succ]; ring
        _ ≤ d * 2 ^ k := Nat.mul_le_mul_left _ this
    have hkK : (K + 1) * 2 ^ mb ≤ k * 2 ^ mb := Nat.mul_le_mul_right _ hk
    rw [Nat.add_mul] at hkK
    rw [Nat.add_mul K 2, hp2]
    generalize d * 2 ^ k = D at *
    generalize d * 2 ^ K = A at *
    have h1 : 2 ^ mb * (2 * A) ≤ 2 ^ mb * D := Nat.mul_le_mul_left _ hA
    have e2 : 4 * 2 ^ mb * A = 2 * (2 ^ mb * (2 * A)) := by ring
    constructor
    · intro _; omega
    · intro _; omega

theorem rhe_half_abs {N D : Nat} (hD : 0 < D) : 2 * |(rhe N D : Int) * D - N| ≤ D := by
  obtain ⟨h1, h2⟩ := rhe_half (N := N) hD
  have : |(rhe N D : Int) * D - N| ≤ |(rhe N D : Int) * D - N| := le_refl _
  rcases abs_cases ((rhe N D : Int) * D - N) with ⟨h, _⟩ | ⟨h, _⟩ <;> rw [h] <;> omega

theorem tie_core (m z D N : Int) (hD : 0 < D) (hz : z ≠ m) (h1 : 2 * |m * D - N| ≤ D)
    (h2 : |z * D - N| = |m * D - N|) : 2 * |m * D - N| = D := by
  rcases lt_or_gt_of_ne hz with h | h
  · have : (m - z) * D ≥ 1 * D := mul_le_mul_of_nonneg_right (by omega) (le_of_lt hD)
    rcases abs_cases (m * D - N) with ⟨e1, _⟩ | ⟨e1, _⟩ <;> rcases abs_cases (z * D - N) with ⟨e2, _⟩ | ⟨e2, _⟩ <;>
      rw [e1] at h1 h2 ⊢ <;> rw [e2] at h2 <;> nlinarith
  · have : (z - m) * D ≥ 1 * D := mul_le_mul_of_nonneg_right (by omega) (le_of_lt hD)
    rcases abs_cases (m * D - N) with ⟨e1, _⟩ | ⟨e1, _⟩ <;> rcases abs_cases (z * D - N) with ⟨e2, _⟩ | ⟨e2, _⟩ <;>
      rw [e1] at h1 h2 ⊢ <;> rw [e2] at h2 <;> nlinarith

/-- **Ties to even**: when another number of the format is exactly as close to `N / d` as the result,
    the result is the pattern with even last bit. -/
theorem roundScaled_tie_even (mb N d : Nat) (hmb : 1 ≤ mb) (hd : 0 < d) (b' : Nat)
    (hne : decodeScaled mb b' ≠ decodeScaled mb (roundScaled mb N d))
    (htie : |(decodeScaled mb b' : Int) * d - N| = |(decodeScaled mb (roundScaled mb N d) : Int) * d - N|) :
    roundScaled mb N d % 2 = 0 := by
  rw [decode_roundScaled mb N d hd] at hne htie
  have hD : 0 < d * 2 ^ spacing mb N d := Nat.mul_pos hd (two_pow_pos _)
  obtain ⟨m', j, hW, hm'⟩ := decodeScaled_form mb b'
  rw [hW] at hne htie
  rw [roundScaled_eq]
  have hsp := spacing_facts mb N d hd
  generalize spacing mb N d = k at *
  have near := fun z => rhe_nearest (N := N) hD z
  have eV : ((rhe N (d * 2 ^ k) * 2 ^ k : Nat) : Int) * d = (rhe N (d * 2 ^ k) : Int) * ((d * 2 ^ k : Nat) : Int) := by
    push_cast; ring
  rw [eV] at htie
  have hmeven : rhe N (d * 2 ^ k) % 2 = 0 := by
    rcases Nat.lt_or_ge j k with hj | hj
    · exfalso
      have hlow := hsp.1 (by omega)
      have h1 : m' * 2 ^ j * d < 2 ^ mb * (d * 2 ^ k) := by
        have h2 : m' * 2 ^ j < 2 ^ (mb + 1) * 2 ^ j := Nat.mul_lt_mul_of_pos_right hm' (two_pow_pos _)
        have h3 : 2 ^ (mb + 1) * 2 ^ j ≤ 2 ^ mb * 2 ^ k := by
          rw [← Nat.pow_add, ← Nat.pow_add]; exact Nat.pow_le_pow_right (by decide) (by omega)
        calc m' * 2 ^ j * d < 2 ^ mb * 2 ^ k * d := Nat.mul_lt_mul_of_pos_right (Nat.lt_of_lt_of_le h2 h3) hd
          _ = 2 ^ mb * (d * 2 ^ k) := by ring
      have h5 := near (2 ^ mb)
      rw [← htie] at h5
      have h6 : |((2 ^ mb : Nat) : Int) * ((d * 2 ^ k : Nat) : Int) - N| = N - ((2 ^ mb * (d * 2 ^ k) : Nat) : Int) := by
        rw [abs_sub_comm, abs_of_nonneg]; push_cast; ring
        push_cast at hlow ⊢
        have : ((2 ^ mb * (d * 2 ^ k) : Nat) : Int) ≤ N := by exact_mod_cast hlow
        push_cast at this; linarith
      have h7 : |((m' * 2 ^ j : Nat) : Int) * (d : Int) - N| = N - ((m' * 2 ^ j * d : Nat) : Int) := by
        rw [abs_sub_comm, abs_of_nonneg]; push_cast; ring
        have : ((m' * 2 ^ j * d : Nat) : Int) ≤ N := by exact_mod_cast Nat.le_of_lt (Nat.lt_of_lt_of_le h1 hlow)
        push_cast at this ⊢; linarith
      rw [h6, h7] at h5
      have : ((m' * 2 ^ j * d : Nat) : Int) < ((2 ^ mb * (d * 2 ^ k) : Nat) : Int) := by exact_mod_cast h1
      linarith
    · have e : ((m' * 2 ^ j : Nat) : Int) * d = ((m' * 2 ^ (j - k) : Nat) : Int) * ((d * 2 ^ k : Nat) : Int) := by
        have : 2 ^ j = 2 ^ (j - k) * 2 ^ k := by rw [← Nat.pow_add]; congr 1; omega
        rw [this]; push_cast; ring
      rw [e] at htie
      have hz : ((m' * 2 ^ (j - k) : Nat) : Int) ≠ (rhe N (d * 2 ^ k) : Int) := by
        intro h
        apply hne
        have h' : m' * 2 ^ (j - k) = rhe N (d * 2 ^ k) := by exact_mod_cast h
        rw [← h']
        have : 2 ^ j = 2 ^ (j - k) * 2 ^ k := by rw [← Nat.pow_add]; congr 1; omega
        rw [this]; ring
      have := tie_core _ _ _ _ (by exact_mod_cast hD) hz (rhe_half_abs (N := N) hD) htie
      apply rhe_tie_even _ hD
      rcases abs_cases ((rhe N (d * 2 ^ k) : Int) * ((d * 2 ^ k : Nat) : Int) - N) with ⟨h, _⟩ | ⟨h, _⟩
      · left; rw [h] at this; zify; push_cast at this ⊢; linarith
      · right; rw [h] at this; zify; push_cast at this ⊢; linarith
  have : 2 ^ mb = 2 * 2 ^ (mb - 1) := by
    obtain ⟨t, rfl⟩ : ∃ t, mb = t + 1 := ⟨mb - 1, by omega⟩
    rw [Nat.pow_succ]; simp; ring
  rw [this]
  have : k * (2 * 2 ^ (mb - 1)) = 2 * (k * 2 ^ (mb - 1)) := by ring
  rw [this]; omega

theorem roundScaled_scale (mb N d c : Nat) (hc : 0 < c) : roundScaled mb (N * c) (d * c) = roundScaled mb N d := by
  rw [roundScaled_eq, roundScaled_eq]
  have hs : spacing mb (N * c) (d * c) = spacing mb N d := by
    unfold spacing; rw [Nat.mul_div_mul_right _ _ hc]
  rw [hs]
  have : d * c * 2 ^ spacing mb N d = d * 2 ^ spacing mb N d * c := by ring
  rw [this, rhe_scale _ _ _ hc]

/-- **Monotone** (same denominator). -/
theorem roundScaled_mono_same (mb N N' d : Nat) (hd : 0 < d) (h : N ≤ N') :
    roundScaled mb N d ≤ roundScaled mb N' d := by
  by_contra hc
  have hlt : roundScaled mb N' d < roundScaled mb N d := by omega
  have hV := decodeScaled_strictMono mb hlt
  have n1 := roundScaled_nearest mb N d hd (roundScaled mb N' d)
  have n2 := roundScaled_nearest mb N' d hd (roundScaled mb N d)
  have hVd : (decodeScaled mb (roundScaled mb N' d) : Int) * d < (decodeScaled mb (roundScaled mb N d) : Int) * d := by
    have : decodeScaled mb (roundScaled mb N' d) * d < decodeScaled mb (roundScaled mb N d) * d :=
      Nat.mul_lt_mul_of_pos_right hV hd
    exact_mod_cast this
  have hN : (N : Int) ≤ N' := by exact_mod_cast h
  have : (N : Int) = N' := by
    rcases abs_cases ((decodeScaled mb (roundScaled mb N d) : Int) * d - N) with ⟨e1, _⟩ | ⟨e1, _⟩ <;>
    rcases abs_cases ((decodeScaled mb (roundScaled mb N' d) : Int) * d - N) with ⟨e2, _⟩ | ⟨e2, _⟩ <;>
    rcases abs_cases ((decodeScaled mb (roundScaled mb N d) : Int) * d - N') with ⟨e3, _⟩ | ⟨e3, _⟩ <;>
    rcases abs_cases ((decodeScaled mb (roundScaled mb N' d) : Int) * d - N') with ⟨e4, _⟩ | ⟨e4, _⟩ <;>
    rw [e1, e2] at n1 <;> rw [e3, e4] at n2 <;> linarith
  have : N = N' := by exact_mod_cast this
  subst this
  omega

/-- **Monotone**: `N / d ≤ N' / d'` implies that the rounded patterns are ordered the same way. -/
theorem roundScaled_mono (mb N d N' d' : Nat) (hd : 0 < d) (hd' : 0 < d') (h : N * d' ≤ N' * d) :
    roundScaled mb N d ≤ roundScaled mb N' d' := by
  rw [← roundScaled_scale mb N d d' hd', ← roundScaled_scale mb N' d' d hd, Nat.mul_comm d' d]
  exact roundScaled_mono_same mb _ _ _ (Nat.mul_pos hd hd') h

open Wire (Cast)

/-! ### the format: infinity pattern, largest finite number, sign -/

theorem four_le_pow {eb : Nat} (heb : 2 ≤ eb) : 4 ≤ 2 ^ eb :=
  calc 4 = 2 ^ 2 := rfl
    _ ≤ 2 ^ eb := Nat.pow_le_pow_right (by decide) heb

theorem infPat_eq {eb : Nat} (mb : Nat) (heb : 2 ≤ eb) : infPat eb mb = (topExp eb + 2) * 2 ^ mb := by
  have := four_le_pow heb
  unfold infPat topExp
  congr 1; omega

theorem infPat_pos {eb : Nat} (mb : Nat) (heb : 2 ≤ eb) : 0 < infPat eb mb := by
  rw [infPat_eq mb heb]; exact Nat.mul_pos (by omega) (two_pow_pos mb)

theorem infPat_lt_signBit (eb mb : Nat) : infPat eb mb < signBit eb mb := by
  unfold infPat signBit
  rw [Nat.pow_add]
  exact Nat.mul_lt_mul_of_pos_right (Nat.sub_lt (two_pow_pos eb) (by decide)) (two_pow_pos mb)

/-- The value of the largest finite pattern. -/
theorem decodeScaled_maxPat {eb : Nat} (mb : Nat) (heb : 2 ≤ eb) :
    decodeScaled mb (maxPat eb mb) = (2 ^ (mb + 1) - 1) * 2 ^ topExp eb := by
  have hP := two_pow_pos mb
  have e : maxPat eb mb = (topExp eb + 1) * 2 ^ mb + (2 ^ mb - 1) := by
    unfold maxPat; rw [infPat_eq mb heb, Nat.add_mul, Nat.add_mul]; omega
  rw [e, decodeScaled_pat mb _ _ (by omega)]
  simp only [Nat.add_one_ne_zero, if_false, Nat.add_sub_cancel]
  congr 1
  rw [Nat.pow_succ]; omega

/-- Overflow in terms of the format: the rounded pattern reaches the infinity pattern iff
    `N / d ≥ (2^(mb+2) - 1) * 2^topExp / 2`. -/
theorem overflow_iff {eb : Nat} (mb N d : Nat) (heb : 2 ≤ eb) (hd : 0 < d) :
    infPat eb mb ≤ roundScaled mb N d ↔ (2 ^ (mb + 2) - 1) * 2 ^ topExp eb * d ≤ 2 * N := by
  rw [infPat_eq mb heb, roundScaled_overflow_iff mb (topExp eb) N d hd]
  have h4 : 1 ≤ 2 ^ (mb + 2) := two_pow_pos _
  obtain ⟨t, ht⟩ : ∃ t, 2 ^ (mb + 2) = t + 1 := ⟨2 ^ (mb + 2) - 1, by omega⟩
  rw [ht, Nat.add_sub_cancel]
  have e1 : (t + 1) * (d * 2 ^ topExp eb) = t * 2 ^ topExp eb * d + d * 2 ^ topExp eb := by ring
  rw [e1]; omega

/-- Numbers up to the largest finite one do not overflow. -/
theorem no_overflow_of_le_max {eb : Nat} (mb N d : Nat) (_heb : 2 ≤ eb) (hd : 0 < d)
    (h : N ≤ decodeScaled mb (maxPat eb mb) * d) : roundScaled mb N d ≤ maxPat eb mb := by
  have := roundScaled_mono_same mb N _ d hd h
  rwa [roundScaled_decode mb _ d hd] at this

/-- Numbers above the largest finite one round to it or overflow. -/
theorem maxPat_le_of_max_le {eb : Nat} (mb N d : Nat) (hd : 0 < d)
    (h : decodeScaled mb (maxPat eb mb) * d ≤ N) : maxPat eb mb ≤ roundScaled mb N d := by
  have := roundScaled_mono_same mb _ N d hd h
  rwa [roundScaled_decode mb _ d hd] at this

/-- The magnitude computed by `roundBinary`. -/
def roundMag (eb mb : Nat) (c : Cast) (N d : Nat) : Nat :=
  match c with
  | .sat => if decodeScaled mb (maxPat eb mb) * d < N then maxPat eb mb else roundScaled mb N d
  | .trunc => min (roundScaled mb N d) (infPat eb mb)

theorem roundBinary_eq (eb mb : Nat) (c : Cast) (neg : Bool) (n d : Nat) :
    roundBinary eb mb c neg n d =
      (if neg then signBit eb mb else 0) + roundMag eb mb c (n * 2 ^ scaleExp eb mb) d := by
  unfold roundBinary roundMag; cases c <;> rfl

/-- Below the overflow threshold both cast modes give the correctly rounded finite pattern. -/
theorem roundMag_below {eb : Nat} (mb : Nat) (c : Cast) (N d : Nat) (heb : 2 ≤ eb) (hd : 0 < d)
    (h : 2 * N < (2 ^ (mb + 2) - 1) * 2 ^ topExp eb * d) :
    roundMag eb mb c N d = roundScaled mb N d ∧ roundScaled mb N d < infPat eb mb := by
  have hfin : roundScaled mb N d < infPat eb mb := by
    by_contra hc
    have := (overflow_iff mb N d heb hd).mp (by omega)
    omega
  refine ⟨?_, hfin⟩
  cases c
  · unfold roundMag
    simp only
    split
    · rename_i hgt
      have := maxPat_le_of_max_le (eb := eb) mb N d hd (Nat.le_of_lt hgt)
      unfold maxPat at this ⊢; omega
    · rfl
  · unfold roundMag
    simp only
    exact Nat.min_eq_left (Nat.le_of_lt hfin)

/-- At and above the overflow threshold: infinity in truncated mode, the largest finite number in saturated mode. -/
theorem roundMag_above {eb : Nat} (mb : Nat) (c : Cast) (N d : Nat) (heb : 2 ≤ eb) (hd : 0 < d)
    (h : (2 ^ (mb + 2) - 1) * 2 ^ topExp eb * d ≤ 2 * N) :
    roundMag eb mb c N d = match c with | .sat => maxPat eb mb | .trunc => infPat eb mb := by
  have hinf := (overflow_iff mb N d heb hd).mpr h
  cases c
  · unfold roundMag
    simp only
    rw [if_pos]
    by_contra hc
    have := no_overflow_of_le_max mb N d heb hd (by omega)
    have := infPat_pos mb heb
    unfold maxPat at *; omega
  · unfold roundMag
    simp only
    exact Nat.min_eq_right hinf

/-- Saturation: everything above the largest finite number gives the largest finite pattern. -/
theorem roundMag_sat_above (eb mb N d : Nat) (h : decodeScaled mb (maxPat eb mb) * d < N) :
    roundMag eb mb .sat N d = maxPat eb mb := by
  unfold roundMag; simp only; rw [if_pos h]

/-- Exactness: the scaled value of a finite magnitude pattern is mapped back to the pattern in both modes. -/
theorem roundMag_exact {eb : Nat} (mb : Nat) (c : Cast) (b d : Nat) (hd : 0 < d)
    (hb : b < infPat eb mb) : roundMag eb mb c (decodeScaled mb b * d) d = b := by
  cases c
  · unfold roundMag
    simp only
    rw [roundScaled_decode mb b d hd, if_neg]
    have : decodeScaled mb b ≤ decodeScaled mb (maxPat eb mb) := decodeScaled_mono mb (by unfold maxPat; omega)
    have := Nat.mul_le_mul_right d this
    omega
  · unfold roundMag
    simp only
    rw [roundScaled_decode mb b d hd]
    exact Nat.min_eq_left (Nat.le_of_lt hb)

/-! ### sign and magnitude of a pattern -/

theorem pattern_split (eb mb bits : Nat) (h : bits < 2 * signBit eb mb) :
    bits = (if isNeg eb mb bits then signBit eb mb else 0) + magOf eb mb bits := by
  unfold isNeg magOf
  generalize signBit eb mb = S at *
  by_cases hs : S ≤ bits
  · simp only [hs, decide_true, if_true]
    have : bits % S = bits - S := by
      rw [Nat.mod_eq_sub_mod hs, Nat.mod_eq_of_lt (by omega)]
    omega
  · simp only [hs, decide_false, Bool.false_eq_true, if_false, Nat.zero_add]
    rw [Nat.mod_eq_of_lt (by omega)]

theorem isNeg_assemble (eb mb : Nat) (neg : Bool) (r : Nat) (hr : r < signBit eb mb) :
    isNeg eb mb ((if neg then signBit eb mb else 0) + r) = neg := by
  unfold isNeg
  cases neg
  · simp only [Bool.false_eq_true, if_false, Nat.zero_add, decide_eq_false_iff_not]; omega
  · simp only [if_true, decide_eq_true_eq]; omega

theorem magOf_assemble (eb mb : Nat) (neg : Bool) (r : Nat) (hr : r < signBit eb mb) :
    magOf eb mb ((if neg then signBit eb mb else 0) + r) = r := by
  unfold magOf
  cases neg
  · simp only [Bool.false_eq_true, if_false, Nat.zero_add]; exact Nat.mod_eq_of_lt hr
  · simp only [if_true]; rw [Nat.add_mod_left]; exact Nat.mod_eq_of_lt hr

theorem isFinite_assemble (eb mb : Nat) (neg : Bool) (r : Nat) (hr : r < infPat eb mb) :
    isFinite eb mb ((if neg then signBit eb mb else 0) + r) = true := by
  have hs := infPat_lt_signBit eb mb
  unfold isFinite
  rw [magOf_assemble eb mb neg r (by omega)]
  simp only [Bool.and_eq_true, decide_eq_true_eq]
  refine ⟨?_, hr⟩
  cases neg <;> simp <;> omega

/-! ### rationals -/


theorem rat_repr (q : ℚ) : q = (if q < 0 then -1 else 1) * (q.num.natAbs : ℚ) / q.den := by
  have h := (Rat.num_div_den q).symm
  rw [Nat.cast_natAbs]
  by_cases hq : q < 0
  · have hn : q.num < 0 := Rat.num_neg.mpr hq
    rw [if_pos hq, abs_of_neg hn, Int.cast_neg, neg_one_mul, neg_neg]; exact h
  · have hn : 0 ≤ q.num := Rat.num_nonneg.mpr (not_lt.mp hq)
    rw [if_neg hq, abs_of_nonneg hn, one_mul]; exact h

theorem rat_dist (V V' n d P : ℕ) (s s' : ℚ) (hs : s = 1 ∨ s = -1) (hs' : s' = 1 ∨ s' = -1)
    (hd : 0 < d) (hP : 0 < P)
    (h : |(V : ℤ) * d - (n * P : ℕ)| ≤ |(V' : ℤ) * d - (n * P : ℕ)|) :
    |s * V / P - s * n / d| ≤ |s' * V' / P - s * n / d| := by
  have hd' : (0 : ℚ) < d := by exact_mod_cast hd
  have hP' : (0 : ℚ) < P := by exact_mod_cast hP
  have hq : ((|(V : ℤ) * d - (n * P : ℕ)| : ℤ) : ℚ) ≤ ((|(V' : ℤ) * d - (n * P : ℕ)| : ℤ) : ℚ) := by exact_mod_cast h
  rw [Int.cast_abs, Int.cast_abs] at hq
  push_cast at hq
  have e1 : s * V / P - s * n / d = s * (((V : ℚ) * d - n * P) / (P * d)) := by field_simp
  have hsabs : |s| = 1 := by rcases hs with rfl | rfl <;> simp
  rw [e1, abs_mul, hsabs, one_mul, abs_div, abs_of_pos (mul_pos hP' hd')]
  have key : |(V' : ℚ) * d - n * P| / (P * d) ≤ |s' * V' / P - s * n / d| := by
    have hV' : (0 : ℚ) ≤ V' := Nat.cast_nonneg _
    have hn : (0 : ℚ) ≤ n := Nat.cast_nonneg _
    rcases hs with rfl | rfl <;> rcases hs' with rfl | rfl
    · have : (1 : ℚ) * V' / P - 1 * n / d = ((V' : ℚ) * d - n * P) / (P * d) := by field_simp
      rw [this, abs_div, abs_of_pos (mul_pos hP' hd')]
    · have : (-1 : ℚ) * V' / P - 1 * n / d = -(((V' : ℚ) * d + n * P) / (P * d)) := by field_simp; ring
      rw [this, abs_neg, abs_div, abs_of_pos (mul_pos hP' hd')]
      apply div_le_div_of_nonneg_right _ (le_of_lt (mul_pos hP' hd'))
      have hA := mul_nonneg hV' (le_of_lt hd')
      have hB := mul_nonneg hn (le_of_lt hP')
      rw [abs_of_nonneg (add_nonneg hA hB), abs_le]; constructor <;> linarith
    · have : (1 : ℚ) * V' / P - (-1) * n / d = (((V' : ℚ) * d + n * P) / (P * d)) := by field_simp; ring
      rw [this, abs_div, abs_of_pos (mul_pos hP' hd')]
      apply div_le_div_of_nonneg_right _ (le_of_lt (mul_pos hP' hd'))
      have hA := mul_nonneg hV' (le_of_lt hd')
      have hB := mul_nonneg hn (le_of_lt hP')
      rw [abs_of_nonneg (add_nonneg hA hB), abs_le]; constructor <;> linarith
    · have : (-1 : ℚ) * V' / P - (-1) * n / d = -(((V' : ℚ) * d - n * P) / (P * d)) := by field_simp; ring
      rw [this, abs_neg, abs_div, abs_of_pos (mul_pos hP' hd')]
  exact le_trans (div_le_div_of_nonneg_right hq (le_of_lt (mul_pos hP' hd'))) key

/-- The sign of a pattern as a rational factor. -/
def sgn (neg : Bool) : ℚ := if neg then -1 else 1

theorem sgn_cases (neg : Bool) : sgn neg = 1 ∨ sgn neg = -1 := by cases neg <;> simp [sgn]

theorem decodeBinary_finite (eb mb bits : Nat) (h : isFinite eb mb bits = true) :
    decodeBinary eb mb bits =
      some (sgn (isNeg eb mb bits) * (decodeScaled mb (magOf eb mb bits) : ℕ) / (2 ^ scaleExp eb mb : ℕ)) := by
  unfold decodeBinary sgn
  rw [if_pos h]
  cases isNeg eb mb bits <;> simp

theorem decodeBinary_some (eb mb bits : Nat) (v : ℚ) (h : decodeBinary eb mb bits = some v) :
    isFinite eb mb bits = true ∧
    v = sgn (isNeg eb mb bits) * (decodeScaled mb (magOf eb mb bits) : ℕ) / (2 ^ scaleExp eb mb : ℕ) := by
  by_cases hf : isFinite eb mb bits = true
  · rw [decodeBinary_finite eb mb bits hf] at h
    exact ⟨hf, (Option.some.inj h).symm⟩
  · unfold decodeBinary at h; rw [if_neg hf] at h; cases h

theorem abs_rat_eq (q : ℚ) : |q| = (q.num.natAbs : ℚ) / q.den := by
  have h := rat_repr q
  have hd : (0 : ℚ) < q.den := by exact_mod_cast q.den_pos
  have hn : (0 : ℚ) ≤ (q.num.natAbs : ℚ) := Nat.cast_nonneg _
  by_cases hq : q < 0
  · rw [if_pos hq] at h
    have h' := h.trans (show (-1 : ℚ) * (q.num.natAbs : ℚ) / q.den = -((q.num.natAbs : ℚ) / q.den) by ring)
    rw [abs_of_neg hq]; linarith
  · rw [if_neg hq, one_mul] at h
    rw [abs_of_nonneg (not_lt.mp hq)]; exact h

theorem below_iff (eb mb n d : Nat) (hd : 0 < d) :
    (n : ℚ) / d < overflowThreshold eb mb ↔
      2 * (n * 2 ^ scaleExp eb mb) < (2 ^ (mb + 2) - 1) * 2 ^ topExp eb * d := by
  unfold overflowThreshold
  have hd' : (0 : ℚ) < d := by exact_mod_cast hd
  have hP : (0 : ℚ) < ((2 * 2 ^ scaleExp eb mb : ℕ) : ℚ) := by
    exact_mod_cast Nat.mul_pos (by decide) (two_pow_pos _)
  rw [div_lt_div_iff₀ hd' hP]
  rw [← Nat.cast_mul, ← Nat.cast_mul, Nat.cast_lt]
  have : n * (2 * 2 ^ scaleExp eb mb) = 2 * (n * 2 ^ scaleExp eb mb) := by ring
  rw [this]

theorem above_max_iff {eb : Nat} (mb n d : Nat) (heb : 2 ≤ eb) (hd : 0 < d) :
    maxFinite eb mb < (n : ℚ) / d ↔ decodeScaled mb (maxPat eb mb) * d < n * 2 ^ scaleExp eb mb := by
  unfold maxFinite
  rw [decodeScaled_maxPat mb heb]
  have hd' : (0 : ℚ) < d := by exact_mod_cast hd
  have hP : (0 : ℚ) < ((2 ^ scaleExp eb mb : ℕ) : ℚ) := by exact_mod_cast two_pow_pos _
  rw [div_lt_div_iff₀ hP hd']
  rw [← Nat.cast_mul, ← Nat.cast_mul, Nat.cast_lt]

/-- What `roundBinary` returns below the overflow threshold. -/
theorem roundBinary_below {eb : Nat} (mb : Nat) (c : Cast) (neg : Bool) (n d : Nat) (heb : 2 ≤ eb) (hd : 0 < d)
    (h : (n : ℚ) / d < overflowThreshold eb mb) :
    roundScaled mb (n * 2 ^ scaleExp eb mb) d < infPat eb mb ∧
    roundBinary eb mb c neg n d =
      (if neg then signBit eb mb else 0) + roundScaled mb (n * 2 ^ scaleExp eb mb) d ∧
    decodeBinary eb mb (roundBinary eb mb c neg n d) =
      some (sgn neg * (decodeScaled mb (roundScaled mb (n * 2 ^ scaleExp eb mb) d) : ℕ) / (2 ^ scaleExp eb mb : ℕ)) := by
  obtain ⟨h1, h2⟩ := roundMag_below mb c _ d heb hd ((below_iff eb mb n d hd).mp h)
  have hs := infPat_lt_signBit eb mb
  have e : roundBinary eb mb c neg n d =
      (if neg then signBit eb mb else 0) + roundScaled mb (n * 2 ^ scaleExp eb mb) d := by
    rw [roundBinary_eq, h1]
  refine ⟨h2, e, ?_⟩
  rw [e, decodeBinary_finite _ _ _ (isFinite_assemble eb mb neg _ h2),
    isNeg_assemble eb mb neg _ (by omega), magOf_assemble eb mb neg _ (by omega)]

/-- round ∘ decode = id on finite patterns (sign carried explicitly, so `-0` included). -/
theorem roundBinary_exact {eb : Nat} (mb : Nat) (c : Cast) (bits : Nat)
    (hf : isFinite eb mb bits = true) (n d : Nat) (hd : 0 < d)
    (hnd : n * 2 ^ scaleExp eb mb = decodeScaled mb (magOf eb mb bits) * d) :
    roundBinary eb mb c (isNeg eb mb bits) n d = bits := by
  unfold isFinite at hf
  simp only [Bool.and_eq_true, decide_eq_true_eq] at hf
  rw [roundBinary_eq, hnd, roundMag_exact mb c _ d hd hf.2]
  exact (pattern_split eb mb bits hf.1).symm

theorem roundRat_exact {eb : Nat} (mb : Nat) (c : Cast) (bits : Nat) (q : ℚ)
    (hq : decodeBinary eb mb bits = some q) (hz : bits ≠ signBit eb mb) :
    roundRat eb mb c q = bits := by
  obtain ⟨hf, hv⟩ := decodeBinary_some eb mb bits q hq
  have hP : (0 : ℚ) < ((2 ^ scaleExp eb mb : ℕ) : ℚ) := by exact_mod_cast two_pow_pos _
  have hden : (0 : ℚ) < q.den := by exact_mod_cast q.den_pos
  have hV : (0 : ℚ) ≤ ((decodeScaled mb (magOf eb mb bits) : ℕ) : ℚ) := Nat.cast_nonneg _
  -- |q| = V / 2^Q
  have habs : |q| = ((decodeScaled mb (magOf eb mb bits) : ℕ) : ℚ) / (2 ^ scaleExp eb mb : ℕ) := by
    rw [hv, abs_div, abs_mul, abs_of_pos hP, abs_of_nonneg hV]
    rcases sgn_cases (isNeg eb mb bits) with h | h <;> rw [h] <;> simp
  have hnd : q.num.natAbs * 2 ^ scaleExp eb mb = decodeScaled mb (magOf eb mb bits) * q.den := by
    rw [abs_rat_eq q, div_eq_div_iff (ne_of_gt hden) (ne_of_gt hP)] at habs
    exact_mod_cast habs
  -- the sign
  have hsign : decide (q < 0) = isNeg eb mb bits := by
    have hf' := hf
    unfold isFinite at hf'
    simp only [Bool.and_eq_true, decide_eq_true_eq] at hf'
    have hsplit := pattern_split eb mb bits hf'.1
    by_cases hV0 : decodeScaled mb (magOf eb mb bits) = 0
    · have hq0 : q = 0 := by rw [hv, hV0]; simp
      have hmag : magOf eb mb bits = 0 := by
        apply decodeScaled_inj mb
        rw [hV0]; unfold decodeScaled; simp
      have : isNeg eb mb bits = false := by
        cases hn : isNeg eb mb bits
        · rfl
        · rw [hn, hmag] at hsplit; simp at hsplit; exact absurd hsplit hz
      rw [this, hq0]; simp
    · have hVpos : (0 : ℚ) < ((decodeScaled mb (magOf eb mb bits) : ℕ) : ℚ) := by
        exact_mod_cast Nat.pos_of_ne_zero hV0
      cases hn : isNeg eb mb bits
      · have : 0 ≤ q := by rw [hv, hn]; unfold sgn; simp; positivity
        simp [not_lt.mpr this]
      · have : q < 0 := by
          rw [hv, hn]; unfold sgn
          have := div_pos hVpos hP
          simp only [if_true, neg_one_mul, neg_div]; linarith
        simp [this]
  unfold roundRat
  rw [hsign]
  exact roundBinary_exact mb c bits hf _ _ q.den_pos hnd

/-- **Nearest** for `roundBinary` (input `(-1)^neg * n / d`). -/
theorem roundBinary_nearest {eb : Nat} (mb : Nat) (c : Cast) (neg : Bool) (n d : Nat) (heb : 2 ≤ eb) (hd : 0 < d)
    (h : (n : ℚ) / d < overflowThreshold eb mb) :
    ∃ v, decodeBinary eb mb (roundBinary eb mb c neg n d) = some v ∧
      ∀ b' v', decodeBinary eb mb b' = some v' → |v - sgn neg * n / d| ≤ |v' - sgn neg * n / d| := by
  obtain ⟨_, _, hdec⟩ := roundBinary_below mb c neg n d heb hd h
  refine ⟨_, hdec, ?_⟩
  intro b' v' hb'
  obtain ⟨_, hv'⟩ := decodeBinary_some eb mb b' v' hb'
  rw [hv']
  exact rat_dist _ _ n d _ (sgn neg) _ (sgn_cases _) (sgn_cases _) hd (two_pow_pos _)
    (roundScaled_nearest mb _ d hd _)

theorem roundRat_eq (eb mb : Nat) (c : Cast) (q : ℚ) :
    roundRat eb mb c q = roundBinary eb mb c (decide (q < 0)) q.num.natAbs q.den := rfl

theorem sgn_repr (q : ℚ) : sgn (decide (q < 0)) * (q.num.natAbs : ℚ) / q.den = q := by
  have := rat_repr q
  unfold sgn
  by_cases hq : q < 0
  · simp only [hq, decide_true, if_true] at this ⊢; exact this.symm
  · simp only [hq, decide_false, Bool.false_eq_true, if_false] at this ⊢; exact this.symm

theorem roundRat_nearest {eb : Nat} (mb : Nat) (c : Cast) (q : ℚ) (heb : 2 ≤ eb)
    (h : |q| < overflowThreshold eb mb) :
    ∃ v, decodeBinary eb mb (roundRat eb mb c q) = some v ∧
      ∀ b' v', decodeBinary eb mb b' = some v' → |v - q| ≤ |v' - q| := by
  rw [abs_rat_eq] at h
  have := roundBinary_nearest mb c (decide (q < 0)) _ _ heb q.den_pos h
  rw [sgn_repr q] at this
  exact this

theorem rat_dist_same (V n d P : ℕ) (s : ℚ) (hs : s = 1 ∨ s = -1) (hd : 0 < d) (hP : 0 < P) :
    |s * V / P - s * n / d| = |(V : ℚ) * d - n * P| / (P * d) := by
  have hd' : (0 : ℚ) < d := by exact_mod_cast hd
  have hP' : (0 : ℚ) < P := by exact_mod_cast hP
  have e1 : s * V / P - s * n / d = s * (((V : ℚ) * d - n * P) / (P * d)) := by field_simp
  have hsabs : |s| = 1 := by rcases hs with rfl | rfl <;> simp
  rw [e1, abs_mul, hsabs, one_mul, abs_div, abs_of_pos (mul_pos hP' hd')]

theorem rat_dist_lower (V' n d P : ℕ) (s s' : ℚ) (hs : s = 1 ∨ s = -1) (hs' : s' = 1 ∨ s' = -1)
    (hd : 0 < d) (hP : 0 < P) :
    |(V' : ℚ) * d - n * P| / (P * d) ≤ |s' * V' / P - s * n / d| := by
  have hd' : (0 : ℚ) < d := by exact_mod_cast hd
  have hP' : (0 : ℚ) < P := by exact_mod_cast hP
  have hV' : (0 : ℚ) ≤ V' := Nat.cast_nonneg _
  have hn : (0 : ℚ) ≤ n := Nat.cast_nonneg _
  have hA := mul_nonneg hV' (le_of_lt hd')
  have hB := mul_nonneg hn (le_of_lt hP')
  rcases hs with rfl | rfl <;> rcases hs' with rfl | rfl
  · rw [rat_dist_same V' n d P 1 (Or.inl rfl) hd hP]
  · have : (-1 : ℚ) * V' / P - 1 * n / d = -(((V' : ℚ) * d + n * P) / (P * d)) := by field_simp; ring
    rw [this, abs_neg, abs_div, abs_of_pos (mul_pos hP' hd')]
    apply div_le_div_of_nonneg_right _ (le_of_lt (mul_pos hP' hd'))
    rw [abs_of_nonneg (add_nonneg hA hB), abs_le]; constructor <;> linarith
  · have : (1 : ℚ) * V' / P - (-1) * n / d = (((V' : ℚ) * d + n * P) / (P * d)) := by field_simp; ring
    rw [this, abs_div, abs_of_pos (mul_pos hP' hd')]
    apply div_le_div_of_nonneg_right _ (le_of_lt (mul_pos hP' hd'))
    rw [abs_of_nonneg (add_nonneg hA hB), abs_le]; constructor <;> linarith
  · rw [rat_dist_same V' n d P (-1) (Or.inr rfl) hd hP]

theorem roundScaled_zero (mb d : Nat) (hd : 0 < d) : roundScaled mb 0 d = 0 := by
  have := roundScaled_decode mb 0 d hd
  have e : decodeScaled mb 0 = 0 := by unfold decodeScaled; simp
  rwa [e, Nat.zero_mul] at this

theorem signBit_even (eb mb : Nat) (h : 1 ≤ mb) : signBit eb mb % 2 = 0 := by
  unfold signBit
  obtain ⟨t, ht⟩ : ∃ t, eb + mb = t + 1 := ⟨eb + mb - 1, by omega⟩
  rw [ht, Nat.pow_succ]; omega

/-- **Ties to even** for `roundBinary`: if some other number of the format is exactly as close to the input as the
    result, the result has an even last mantissa bit. -/
theorem roundBinary_tie_even {eb : Nat} (mb : Nat) (c : Cast) (neg : Bool) (n d : Nat) (heb : 2 ≤ eb) (hmb : 1 ≤ mb)
    (hd : 0 < d) (h : (n : ℚ) / d < overflowThreshold eb mb) (v : ℚ) (b' : Nat) (v' : ℚ)
    (hv : decodeBinary eb mb (roundBinary eb mb c neg n d) = some v)
    (hb' : decodeBinary eb mb b' = some v') (hne : v' ≠ v)
    (htie : |v' - sgn neg * n / d| = |v - sgn neg * n / d|) :
    roundBinary eb mb c neg n d % 2 = 0 := by
  obtain ⟨_, e, hdec⟩ := roundBinary_below mb c neg n d heb hd h
  rw [hdec] at hv
  have hv := (Option.some.inj hv).symm
  obtain ⟨_, hv'⟩ := decodeBinary_some eb mb b' v' hb'
  have hPn := two_pow_pos (scaleExp eb mb)
  generalize hV : decodeScaled mb (roundScaled mb (n * 2 ^ scaleExp eb mb) d) = V at *
  generalize hV' : decodeScaled mb (magOf eb mb b') = V' at *
  have hP : (0 : ℚ) < ((2 ^ scaleExp eb mb : ℕ) : ℚ) := by exact_mod_cast hPn
  have hd' : (0 : ℚ) < d := by exact_mod_cast hd
  have near := roundScaled_nearest mb (n * 2 ^ scaleExp eb mb) d hd (magOf eb mb b')
  rw [hV, hV'] at near
  have nearq : |(V : ℚ) * d - n * (2 ^ scaleExp eb mb : ℕ)| ≤ |(V' : ℚ) * d - n * (2 ^ scaleExp eb mb : ℕ)| := by
    have : ((|(V : ℤ) * d - (n * 2 ^ scaleExp eb mb : ℕ)| : ℤ) : ℚ) ≤
        ((|(V' : ℤ) * d - (n * 2 ^ scaleExp eb mb : ℕ)| : ℤ) : ℚ) := by exact_mod_cast near
    rw [Int.cast_abs, Int.cast_abs] at this
    push_cast at this ⊢; exact this
  have hsame := rat_dist_same V n d _ (sgn neg) (sgn_cases _) hd hPn
  have hlow := rat_dist_lower V' n d _ (sgn neg) (sgn (isNeg eb mb b')) (sgn_cases _) (sgn_cases _) hd hPn
  rw [← hv', htie, hv, hsame] at hlow
  have hPd : (0 : ℚ) < ((2 ^ scaleExp eb mb : ℕ) : ℚ) * d := mul_pos hP hd'
  have hle : |(V' : ℚ) * d - n * (2 ^ scaleExp eb mb : ℕ)| ≤ |(V : ℚ) * d - n * (2 ^ scaleExp eb mb : ℕ)| :=
    (div_le_div_iff_of_pos_right hPd).mp hlow
  have heq : |(V' : ℤ) * d - (n * 2 ^ scaleExp eb mb : ℕ)| = |(V : ℤ) * d - (n * 2 ^ scaleExp eb mb : ℕ)| := by
    have : |(V' : ℚ) * d - n * (2 ^ scaleExp eb mb : ℕ)| = |(V : ℚ) * d - n * (2 ^ scaleExp eb mb : ℕ)| :=
      le_antisymm hle nearq
    have h2 : ((|(V' : ℤ) * d - (n * 2 ^ scaleExp eb mb : ℕ)| : ℤ) : ℚ) =
        ((|(V : ℤ) * d - (n * 2 ^ scaleExp eb mb : ℕ)| : ℤ) : ℚ) := by
      rw [Int.cast_abs, Int.cast_abs]; push_cast at this ⊢; exact this
    exact_mod_cast h2
  have hVne : V' ≠ V := by
    intro hVV
    subst hVV
    -- the two values differ only in sign, so the input is zero, so the result is zero
    have hs : sgn (isNeg eb mb b') = -sgn neg := by
      by_contra hcon
      apply hne
      have : sgn (isNeg eb mb b') = sgn neg := by
        rcases sgn_cases neg with h1 | h1 <;> rcases sgn_cases (isNeg eb mb b') with h2 | h2
        · rw [h1, h2]
        · exfalso; apply hcon; rw [h1, h2]
        · exfalso; apply hcon; rw [h1, h2]; norm_num
        · rw [h1, h2]
      rw [hv, hv', this]
    have hvv : v' = -v := by rw [hv, hv', hs]; ring
    rw [hvv] at htie
    have hv0 : v ≠ 0 := by
      intro h0; apply hne; rw [hvv, h0]; simp
    have hq0 : sgn neg * n / d = 0 := by
      rcases abs_eq_abs.mp htie with h1 | h1
      · exfalso; apply hv0; linarith
      · linarith
    have hn0 : n = 0 := by
      have : sgn neg * (n : ℚ) = 0 := by
        rcases div_eq_zero_iff.mp hq0 with h1 | h1
        · exact h1
        · exact absurd h1 (ne_of_gt hd')
      rcases mul_eq_zero.mp this with h1 | h1
      · rcases sgn_cases neg with h2 | h2 <;> rw [h2] at h1 <;> norm_num at h1
      · exact_mod_cast h1
    apply hv0
    rw [hv, ← hV, hn0, Nat.zero_mul, roundScaled_zero mb d hd]
    unfold decodeScaled; simp
  have hr := roundScaled_tie_even mb (n * 2 ^ scaleExp eb mb) d hmb hd (magOf eb mb b')
    (by rw [hV, hV']; exact hVne) (by rw [hV, hV']; exact heq)
  rw [e]
  have := signBit_even eb mb hmb
  cases neg <;> simp <;> omega

/-- **Saturation**: magnitudes above the largest finite number give the largest finite pattern. -/
theorem roundBinary_saturate {eb : Nat} (mb : Nat) (neg : Bool) (n d : Nat) (heb : 2 ≤ eb) (hd : 0 < d)
    (h : maxFinite eb mb < (n : ℚ) / d) :
    roundBinary eb mb .sat neg n d = (if neg then signBit eb mb else 0) + maxPat eb mb := by
  rw [roundBinary_eq, roundMag_sat_above _ _ _ _ ((above_max_iff mb n d heb hd).mp h)]

/-- **Overflow**: at and above the threshold the truncated mode gives infinity. -/
theorem roundBinary_overflow {eb : Nat} (mb : Nat) (neg : Bool) (n d : Nat) (heb : 2 ≤ eb) (hd : 0 < d)
    (h : overflowThreshold eb mb ≤ (n : ℚ) / d) :
    roundBinary eb mb .trunc neg n d = (if neg then signBit eb mb else 0) + infPat eb mb := by
  have h' : (2 ^ (mb + 2) - 1) * 2 ^ topExp eb * d ≤ 2 * (n * 2 ^ scaleExp eb mb) := by
    have := (below_iff eb mb n d hd).not.mp (not_lt.mpr h)
    omega
  rw [roundBinary_eq, roundMag_above mb .trunc _ d heb hd h']

/-- Below the threshold the result is a finite pattern in both modes. -/
theorem roundBinary_finite {eb : Nat} (mb : Nat) (c : Cast) (neg : Bool) (n d : Nat) (heb : 2 ≤ eb) (hd : 0 < d)
    (h : (n : ℚ) / d < overflowThreshold eb mb) :
    isFinite eb mb (roundBinary eb mb c neg n d) = true := by
  obtain ⟨h1, e, _⟩ := roundBinary_below mb c neg n d heb hd h
  rw [e]; exact isFinite_assemble eb mb neg _ h1

/-- In saturated mode the result is always finite. -/
theorem roundBinary_sat_finite {eb : Nat} (mb : Nat) (neg : Bool) (n d : Nat) (heb : 2 ≤ eb) (hd : 0 < d) :
    isFinite eb mb (roundBinary eb mb .sat neg n d) = true := by
  rw [roundBinary_eq]
  apply isFinite_assemble
  have := infPat_pos mb heb
  unfold roundMag
  simp only
  split
  · unfold maxPat; omega
  · rename_i hle
    have := no_overflow_of_le_max mb _ d heb hd (Nat.le_of_not_lt hle)
    unfold maxPat at this; omega

theorem roundMag_le_infPat {eb : Nat} (mb : Nat) (c : Cast) (N d : Nat) (heb : 2 ≤ eb) (hd : 0 < d) :
    roundMag eb mb c N d ≤ infPat eb mb := by
  cases c
  · unfold roundMag
    simp only
    split
    · unfold maxPat; omega
    · rename_i hle
      have := no_overflow_of_le_max mb _ d heb hd (Nat.le_of_not_lt hle)
      unfold maxPat at this; omega
  · exact Nat.min_le_right _ _

/-- The sign bit of the result is the sign of the input, also when the result is zero. -/
theorem roundBinary_sign {eb : Nat} (mb : Nat) (c : Cast) (neg : Bool) (n d : Nat) (heb : 2 ≤ eb) (hd : 0 < d) :
    isNeg eb mb (roundBinary eb mb c neg n d) = neg := by
  rw [roundBinary_eq]
  have := roundMag_le_infPat mb c (n * 2 ^ scaleExp eb mb) d heb hd
  have := infPat_lt_signBit eb mb
  exact isNeg_assemble eb mb neg _ (by omega)

/-- **Monotone** in the magnitude, in both modes. -/
theorem roundMag_mono {eb : Nat} (mb : Nat) (c : Cast) (N d N' d' : Nat) (heb : 2 ≤ eb) (hd : 0 < d) (hd' : 0 < d')
    (h : N * d' ≤ N' * d) : roundMag eb mb c N d ≤ roundMag eb mb c N' d' := by
  have hm := roundScaled_mono mb N d N' d' hd hd' h
  cases c
  · unfold roundMag
    simp only
    split
    · rename_i h1
      rw [if_pos]
      by_contra hc
      have h2 : N' * d ≤ decodeScaled mb (maxPat eb mb) * d' * d := Nat.mul_le_mul_right d (Nat.le_of_not_lt hc)
      have h3 : decodeScaled mb (maxPat eb mb) * d * d' < N * d' := Nat.mul_lt_mul_of_pos_right h1 hd'
      have e : decodeScaled mb (maxPat eb mb) * d' * d = decodeScaled mb (maxPat eb mb) * d * d' := by ring
      omega
    · rename_i h1
      split
      · exact no_overflow_of_le_max mb _ d heb hd (Nat.le_of_not_lt h1)
      · exact hm
  · unfold roundMag
    simp only
    omega

theorem roundBinary_mono {eb : Nat} (mb : Nat) (c : Cast) (n d n' d' : Nat) (heb : 2 ≤ eb) (hd : 0 < d) (hd' : 0 < d')
    (h : n * d' ≤ n' * d) : roundBinary eb mb c false n d ≤ roundBinary eb mb c false n' d' := by
  rw [roundBinary_eq, roundBinary_eq]
  simp only [Bool.false_eq_true, if_false, Nat.zero_add]
  apply roundMag_mono mb c _ _ _ _ heb hd hd'
  have : n * 2 ^ scaleExp eb mb * d' = n * d' * 2 ^ scaleExp eb mb := by ring
  have e2 : n' * 2 ^ scaleExp eb mb * d = n' * d * 2 ^ scaleExp eb mb := by ring
  rw [this, e2]
  exact Nat.mul_le_mul_right _ h

/-! #### the rational wrapper -/

theorem roundRat_saturate {eb : Nat} (mb : Nat) (q : ℚ) (heb : 2 ≤ eb) (h : maxFinite eb mb < |q|) :
    roundRat eb mb .sat q = (if q < 0 then signBit eb mb else 0) + maxPat eb mb := by
  rw [abs_rat_eq] at h
  rw [roundRat_eq, roundBinary_saturate mb _ _ _ heb q.den_pos h]
  simp

theorem roundRat_overflow {eb : Nat} (mb : Nat) (q : ℚ) (heb : 2 ≤ eb) (h : overflowThreshold eb mb ≤ |q|) :
    roundRat eb mb .trunc q = (if q < 0 then signBit eb mb else 0) + infPat eb mb := by
  rw [abs_rat_eq] at h
  rw [roundRat_eq, roundBinary_overflow mb _ _ _ heb q.den_pos h]
  simp

theorem roundRat_finite {eb : Nat} (mb : Nat) (c : Cast) (q : ℚ) (heb : 2 ≤ eb) (h : |q| < overflowThreshold eb mb) :
    isFinite eb mb (roundRat eb mb c q) = true := by
  rw [abs_rat_eq] at h
  exact roundBinary_finite mb c _ _ _ heb q.den_pos h

theorem roundRat_tie_even {eb : Nat} (mb : Nat) (c : Cast) (q : ℚ) (heb : 2 ≤ eb) (hmb : 1 ≤ mb)
    (h : |q| < overflowThreshold eb mb) (v : ℚ) (b' : Nat) (v' : ℚ)
    (hv : decodeBinary eb mb (roundRat eb mb c q) = some v)
    (hb' : decodeBinary eb mb b' = some v') (hne : v' ≠ v) (htie : |v' - q| = |v - q|) :
    roundRat eb mb c q % 2 = 0 := by
  rw [abs_rat_eq] at h
  have := roundBinary_tie_even mb c (decide (q < 0)) _ _ heb hmb q.den_pos h v b' v' hv hb' hne
  rw [sgn_repr q] at this
  exact this htie

/-- Monotone on the non-negative rationals. -/
theorem roundRat_mono {eb : Nat} (mb : Nat) (c : Cast) (q q' : ℚ) (heb : 2 ≤ eb) (h0 : 0 ≤ q) (h : q ≤ q') :
    roundRat eb mb c q ≤ roundRat eb mb c q' := by
  have h0' : 0 ≤ q' := le_trans h0 h
  rw [roundRat_eq, roundRat_eq]
  simp only [not_lt.mpr h0, not_lt.mpr h0', decide_false]
  apply roundBinary_mono mb c _ _ _ _ heb q.den_pos q'.den_pos
  have e := abs_rat_eq q
  have e' := abs_rat_eq q'
  rw [abs_of_nonneg h0] at e
  rw [abs_of_nonneg h0'] at e'
  rw [e, e'] at h
  have hd : (0 : ℚ) < q.den := by exact_mod_cast q.den_pos
  have hd' : (0 : ℚ) < q'.den := by exact_mod_cast q'.den_pos
  rw [div_le_div_iff₀ hd hd'] at h
  exact_mod_cast h

/-- **Half an ulp**: the input lies in the binade whose spacing is `2^k` quanta (`k = 0`: at or below the first normal
    binade, i.e. including the subnormal range) and the error is at most half of that spacing. -/
theorem roundBinary_half_ulp {eb : Nat} (mb : Nat) (c : Cast) (neg : Bool) (n d : Nat) (heb : 2 ≤ eb) (hd : 0 < d)
    (h : (n : ℚ) / d < overflowThreshold eb mb) :
    ∃ v k, decodeBinary eb mb (roundBinary eb mb c neg n d) = some v ∧
      (k ≠ 0 → (2 : ℚ) ^ (mb + k) / 2 ^ scaleExp eb mb ≤ (n : ℚ) / d) ∧
      (n : ℚ) / d < (2 : ℚ) ^ (mb + 1 + k) / 2 ^ scaleExp eb mb ∧
      2 * |v - sgn neg * n / d| ≤ (2 : ℚ) ^ k / 2 ^ scaleExp eb mb := by
  obtain ⟨_, _, hdec⟩ := roundBinary_below mb c neg n d heb hd h
  refine ⟨_, spacing mb (n * 2 ^ scaleExp eb mb) d, hdec, ?_, ?_, ?_⟩
  all_goals
    obtain ⟨hlo, hhi⟩ := spacing_facts mb (n * 2 ^ scaleExp eb mb) d hd
    have hPn := two_pow_pos (scaleExp eb mb)
    have hP : (0 : ℚ) < (2 : ℚ) ^ scaleExp eb mb := by positivity
    have hd' : (0 : ℚ) < d := by exact_mod_cast hd
  · generalize spacing mb (n * 2 ^ scaleExp eb mb) d = k at *
    intro hk
    have := hlo hk
    rw [div_le_div_iff₀ hP hd']
    have h2 : ((2 ^ mb * (d * 2 ^ k) : ℕ) : ℚ) ≤ ((n * 2 ^ scaleExp eb mb : ℕ) : ℚ) := by exact_mod_cast this
    push_cast at h2
    rw [pow_add]; linarith
  · generalize spacing mb (n * 2 ^ scaleExp eb mb) d = k at *
    rw [div_lt_div_iff₀ hd' hP]
    have h2 : ((n * 2 ^ scaleExp eb mb : ℕ) : ℚ) < ((2 ^ (mb + 1) * (d * 2 ^ k) : ℕ) : ℚ) := by exact_mod_cast hhi
    push_cast at h2
    rw [pow_add]; linarith
  · rw [rat_dist_same _ n d _ (sgn neg) (sgn_cases _) hd hPn, decode_roundScaled mb _ d hd]
    generalize spacing mb (n * 2 ^ scaleExp eb mb) d = k at *
    have hD : 0 < d * 2 ^ k := Nat.mul_pos hd (two_pow_pos _)
    have hh := rhe_half_abs (N := n * 2 ^ scaleExp eb mb) hD
    have hq : ((2 * |(rhe (n * 2 ^ scaleExp eb mb) (d * 2 ^ k) : ℤ) * ((d * 2 ^ k : ℕ) : ℤ) -
        ((n * 2 ^ scaleExp eb mb : ℕ) : ℤ)| : ℤ) : ℚ) ≤ (((d * 2 ^ k : ℕ) : ℤ) : ℚ) := by exact_mod_cast hh
    rw [Int.cast_mul, Int.cast_abs] at hq
    push_cast at hq ⊢
    rw [← mul_div_assoc, div_le_div_iff₀ (mul_pos hP hd') hP]
    have e : (rhe (n * 2 ^ scaleExp eb mb) (d * 2 ^ k) : ℚ) * 2 ^ k * d - n * 2 ^ scaleExp eb mb =
        (rhe (n * 2 ^ scaleExp eb mb) (d * 2 ^ k) : ℚ) * (d * 2 ^ k) - n * 2 ^ scaleExp eb mb := by ring
    rw [e]
    nlinarith

/-! ### writing of the fraction, integers given for a float field -/


theorem roundMag_scale (eb mb : Nat) (c : Cast) (N d k : Nat) (hk : 0 < k) :
    roundMag eb mb c (N * k) (d * k) = roundMag eb mb c N d := by
  cases c
  · unfold roundMag
    simp only
    rw [roundScaled_scale mb N d k hk]
    have : (decodeScaled mb (maxPat eb mb) * (d * k) < N * k) = (decodeScaled mb (maxPat eb mb) * d < N) := by
      rw [← Nat.mul_assoc]; exact propext (Nat.mul_lt_mul_right hk)
    simp only [this]
  · unfold roundMag
    simp only
    rw [roundScaled_scale mb N d k hk]

/-- The result depends on the fraction only, not on how it is written. -/
theorem roundBinary_scale (eb mb : Nat) (c : Cast) (neg : Bool) (n d k : Nat) (hk : 0 < k) :
    roundBinary eb mb c neg (n * k) (d * k) = roundBinary eb mb c neg n d := by
  rw [roundBinary_eq, roundBinary_eq]
  have : n * k * 2 ^ scaleExp eb mb = n * 2 ^ scaleExp eb mb * k := by ring
  rw [this, roundMag_scale eb mb c _ d k hk]

/-- For an integer that is a double (in particular every `|i| ≤ 2^53`) the two roundings of `roundInt` are one:
    the result is the correctly rounded pattern of the integer. -/
theorem roundInt_of_double (eb mb : Nat) (c : Cast) (n bits : Nat)
    (hf : isFinite 11 52 bits = true) (hv : n * 2 ^ scaleExp 11 52 = decodeScaled 52 (magOf 11 52 bits)) :
    roundInt eb mb c (isNeg 11 52 bits) n = roundBinary eb mb c (isNeg 11 52 bits) n 1 := by
  have h64 : roundBinary 11 52 .trunc (isNeg 11 52 bits) n 1 = bits :=
    roundBinary_exact 52 .trunc bits hf n 1 (by decide) (by rw [hv, Nat.mul_one])
  have hfin : magOf 11 52 bits ≠ infPat 11 52 := by
    unfold isFinite at hf
    simp only [Bool.and_eq_true, decide_eq_true_eq] at hf
    omega
  unfold roundInt
  simp only [h64, hfin, if_false]
  rw [← hv]
  have := roundBinary_scale eb mb c (isNeg 11 52 bits) n 1 (2 ^ scaleExp 11 52) (two_pow_pos _)
  rw [Nat.one_mul] at this
  exact this

end WireFloat
