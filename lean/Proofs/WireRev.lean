import Proofs.WireValid
/-! Revisions of a delimited structure: reading data written with a field list `fs` through the field list
    `fs ++ gs` (fields appended) or the other way round (fields removed).  The reader ends in exactly the state
    in which a reader of the writer's own revision would end, which is why the container does not matter. -/
namespace Wire

/-! ### decoding an all-zero window yields the default value -/

theorem zeros_drop' (k n : Nat) : (zeros k).drop n = zeros (k - n) := by simp [zeros]

theorem read_zeros (o n k : Nat) : (R.read ⟨o, zeros k⟩ n) = (zeros n, ⟨o + n, zeros (k - n)⟩) := by
  simp only [R.read, takeZ_zeros, zeros_drop']

theorem alignTo_zeros' (o a k : Nat) : (R.alignTo ⟨o, zeros k⟩ a) = ⟨o + padLen o a, zeros (k - padLen o a)⟩ := by
  simp only [R.alignTo, zeros_drop']

theorem ofTwos_zero (n : Nat) : ofTwos n 0 = 0 := by
  unfold ofTwos
  have : 0 < 2^(n-1) := Nat.two_pow_pos (n-1)
  split <;> simp_all <;> omega

/-- a decoder step that turns an all-zero window into the value `d` and leaves an all-zero window -/
def ZeroDflt (f : R → Except Err (Val × R)) (d : Val) : Prop :=
  ∀ o k, ∃ o' k', f ⟨o, zeros k⟩ = .ok (d, ⟨o', zeros k'⟩)

theorem decRep_zeros {f : R → Except Err (Val × R)} {d : Val} (hf : ZeroDflt f d) :
    ∀ (n o k : Nat), ∃ o' k', decRep f n ⟨o, zeros k⟩ = .ok (List.replicate n d, ⟨o', zeros k'⟩)
  | 0, o, k => ⟨o, k, by simp [decRep]⟩
  | n+1, o, k => by
      obtain ⟨o1, k1, h1⟩ := hf o k
      obtain ⟨o2, k2, h2⟩ := decRep_zeros hf n o1 k1
      exact ⟨o2, k2, by simp only [decRep, bind_ok]; exact ⟨_, h1, _, h2, by simp [List.replicate_succ]; rfl⟩⟩

theorem unwrapDelim_zeros {body : R → Except Err (Val × R)} {d : Val} (hb : ZeroDflt body d) (m : Mode) :
    ZeroDflt (fun r => unwrapDelim m r body) d := by
  intro o k
  cases m with
  | sealed => exact hb o k
  | delimited x =>
    simp only [unwrapDelim, read_zeros, bitsNat_zeros, Nat.zero_mul, shorter, Bool.false_eq_true, if_false,
      List.take_zero, List.drop_zero, Nat.add_zero, bind_ok]
    obtain ⟨o', k', h⟩ := hb (o + headerBits) 0
    simp only [zeros, List.replicate_zero] at h
    exact ⟨_, _, _, h, rfl⟩

mutual
theorem dec_zeros : ∀ (t : Ty), t.wf = true → ZeroDflt (dec t) (dflt t)
  | .bool, _ => by intro o k; exact ⟨o + 1, k - 1, by simp [dec, read_zeros, dflt]⟩
  | .uint n _, _ => by intro o k; exact ⟨o + n, k - n, by simp [dec, read_zeros, dflt]⟩
  | .sint n _, _ => by intro o k; exact ⟨o + n, k - n, by simp [dec, read_zeros, dflt, ofTwos_zero]⟩
  | .float n _, _ => by intro o k; exact ⟨o + n, k - n, by simp [dec, read_zeros, dflt]⟩
  | .byte, _ => by intro o k; exact ⟨o + 8, k - 8, by simp [dec, read_zeros, dflt]⟩
  | .utf8, _ => by intro o k; exact ⟨o + 8, k - 8, by simp [dec, read_zeros, dflt]⟩
  | .void n, _ => by intro o k; exact ⟨o + n, k - n, by simp [dec, read_zeros, dflt]⟩
  | .farr e cap, hw => by
      intro o k
      simp only [Ty.wf, Bool.and_eq_true] at hw
      obtain ⟨o', k', h⟩ := decRep_zeros (dec_zeros e hw.1.1.1) cap o k
      exact ⟨o', k', by simp only [dec, dflt, bind_ok]; exact ⟨_, h, rfl⟩⟩
  | .varr e cap, _ => by
      intro o k
      refine ⟨o + lenBits cap, k - lenBits cap, ?_⟩
      simp only [dec, read_zeros, bitsNat_zeros, dflt]
      simp [decRep, validUtf8, bind, Except.bind, pure, Except.pure]
  | .struct fs m, hw => by
      simp only [Ty.wf, Bool.and_eq_true] at hw
      simp only [dec, dflt]
      refine unwrapDelim_zeros ?_ m
      intro o k
      obtain ⟨o', k', h⟩ := decFields_zeros fs hw.1 o k
      refine ⟨o' + padLen o' 8, k' - padLen o' 8, ?_⟩
      simp only [h, bind, Except.bind, pure, Except.pure, alignTo_zeros']
  | .union fs m, hw => by
      simp only [Ty.wf, Bool.and_eq_true, decide_eq_true_eq] at hw
      simp only [dec, dflt]
      refine unwrapDelim_zeros ?_ m
      intro o k
      match fs, hw with
      | [], hw => simp at hw
      | t :: ts, hw =>
        simp only [wfFields, Bool.and_eq_true] at hw
        obtain ⟨o', k', h⟩ := dec_zeros t hw.1.1.1.1.1.1 (o + tagBits (t :: ts).length) (k - tagBits (t :: ts).length)
        refine ⟨o' + padLen o' 8, k' - padLen o' 8, ?_⟩
        simp only [read_zeros, bitsNat_zeros, decVariant, dfltFirst, h, bind, Except.bind, pure, Except.pure,
          alignTo_zeros']
theorem decFields_zeros : ∀ (ts : List Ty), wfFields ts = true → ∀ o k, ∃ o' k',
    decFields ts ⟨o, zeros k⟩ = .ok (dfltFields ts, ⟨o', zeros k'⟩)
  | [], _, o, k => ⟨o, k, by simp [decFields, dfltFields]⟩
  | t :: ts, hw, o, k => by
      simp only [wfFields, Bool.and_eq_true] at hw
      obtain ⟨o1, k1, h1⟩ := dec_zeros t hw.1.1 (o + padLen o t.align) (k - padLen o t.align)
      obtain ⟨o2, k2, h2⟩ := decFields_zeros ts hw.2 o1 k1
      refine ⟨o2, k2, ?_⟩
      simp only [decFields, dfltFields, alignTo_zeros', h1, h2, bind, Except.bind, pure, Except.pure]
end

/-! ### field lists split -/

theorem validFields_length : ∀ (ts : List Ty) (vs : List Val), validFields ts vs = true → vs.length = ts.length
  | [], [], _ => rfl
  | [], _ :: _, h => by simp [validFields] at h
  | _ :: _, [], h => by simp [validFields] at h
  | _ :: ts, _ :: vs, h => by
      simp only [validFields, Bool.and_eq_true] at h
      simp [validFields_length ts vs h.2]

theorem encFields_append : ∀ (fs gs : List Ty) (vs ws : List Val) (o : Nat), vs.length = fs.length →
    encFields (fs ++ gs) (vs ++ ws) o = encFields fs vs o ++ encFields gs ws (o + (encFields fs vs o).length)
  | [], gs, [], ws, o, _ => by simp [encFields]
  | [], _, _ :: _, _, _, h => by simp at h
  | _ :: _, _, [], _, _, h => by simp at h
  | t :: fs, gs, v :: vs, ws, o, h => by
      simp only [List.cons_append, encFields, List.append_assoc, List.length_append, zeros_length]
      rw [encFields_append fs gs vs ws _ (by simpa using h)]
      simp only [Nat.add_assoc]

theorem decFields_append : ∀ (fs gs : List Ty) (r : R),
    decFields (fs ++ gs) r = (do
      let (vs, r1) ← decFields fs r
      let (ws, r2) ← decFields gs r1
      pure (vs ++ ws, r2))
  | [], gs, r => by
      simp only [List.nil_append, decFields, bind, Except.bind, pure, Except.pure]
      cases decFields gs r <;> simp
  | t :: fs, gs, r => by
      simp only [List.cons_append, decFields, decFields_append fs gs, bind, Except.bind, pure, Except.pure]
      cases dec t (r.alignTo t.align) with
      | error e => rfl
      | ok p =>
        simp only []
        cases decFields fs p.2 with
        | error e => rfl
        | ok p2 =>
          simp only []
          cases decFields gs p2.2 <;> simp

theorem wfFields_append (fs gs : List Ty) : wfFields (fs ++ gs) = (wfFields fs && wfFields gs) := by
  induction fs with
  | nil => simp [wfFields]
  | cons t fs ih => simp [wfFields, ih, Bool.and_assoc]

theorem validFields_append : ∀ (fs gs : List Ty) (vs ws : List Val), vs.length = fs.length →
    validFields (fs ++ gs) (vs ++ ws) = (validFields fs vs && validFields gs ws)
  | [], gs, [], ws, _ => by simp [validFields]
  | [], _, _ :: _, _, h => by simp at h
  | _ :: _, _, [], _, h => by simp at h
  | t :: fs, gs, v :: vs, ws, h => by
      simp only [List.cons_append, validFields, validFields_append fs gs vs ws (by simpa using h), Bool.and_assoc]

/-! ### the two directions -/

/-- Fields appended: a reader that knows `fs ++ gs` reads data written by a writer that knew only `fs`.
    Common fields keep their values, the new fields read as their defaults (zero / empty / first variant), and
    the reader stops exactly where the writer's representation ends. -/
theorem rev_appended (fs gs : List Ty) (x x' : Nat) (vs : List Val) (o : Nat) (junk : List Bool)
    (hw : (Ty.struct fs (.delimited x)).wf = true) (hw' : (Ty.struct (fs ++ gs) (.delimited x')).wf = true)
    (hv : valid (.struct fs (.delimited x)) (.recd vs) = true) (ho : o % 8 = 0) :
    dec (.struct (fs ++ gs) (.delimited x')) ⟨o, enc (.struct fs (.delimited x)) (.recd vs) o ++ junk⟩
      = .ok (.recd (vs ++ dfltFields gs),
             ⟨o + (enc (.struct fs (.delimited x)) (.recd vs) o).length, junk⟩) := by
  simp only [Ty.wf, Bool.and_eq_true] at hw hw'
  simp only [valid] at hv
  have hwf := hw'.1
  rw [wfFields_append, Bool.and_eq_true] at hwf
  -- the writer's body fits the 32-bit header
  have hl := enc_len (.struct fs .sealed) (.recd vs) 0 (by simp [Ty.wf, hw.1, modeOk]) (by simpa [valid] using hv)
    (by simp [Ty.align])
  simp only [enc, wrapDelim] at hl
  have hle := hasLen_le _ _ hl
  have hmod := hasLen_mod (.struct fs .sealed) _ (by simp [Ty.wf, hw.1, modeOk]) hl
  simp only [Ty.align] at hmod
  have hx := hw.2
  simp only [modeOk, Bool.and_eq_true, decide_eq_true_eq] at hx
  generalize hB : padTail 0 (encFields fs vs 0) = B at hl hle hmod
  have hfit : B.length / 8 < 2^32 := by omega
  simp only [dec, enc, wrapDelim, unwrapDelim, hB, List.append_assoc]
  rw [read_append' o headerBits _ _ (natBits_length _ _)]
  have hbn : bitsNat (natBits headerBits (B.length / 8)) = B.length / 8 :=
    bitsNat_natBits _ _ (by simp only [headerBits]; exact hfit)
  have h8 : B.length / 8 * 8 = B.length := by omega
  have hs : shorter (B ++ junk) B.length = false := by simp [shorter_iff]
  simp only [hbn, h8, hs, Bool.false_eq_true, if_false, List.take_left', List.drop_left', bind_ok]
  -- inside the sub-reader: the known fields, then zeros
  have hc : encFields fs vs 0 = encFields fs vs (o + headerBits) :=
    encFields_congr fs vs _ _ (by simp [headerBits]; omega)
  have hBz : B = encFields fs vs (o + headerBits) ++ zeros (padLen (0 + (encFields fs vs 0).length) 8) := by
    rw [← hB, ← hc]; rfl
  have h1 := decFields_rt fs vs (o + headerBits) (zeros (padLen (0 + (encFields fs vs 0).length) 8)) hw.1 hv
  obtain ⟨o2, k2, h2⟩ := decFields_zeros gs hwf.2 (o + headerBits + (encFields fs vs (o + headerBits)).length)
    (padLen (0 + (encFields fs vs 0).length) 8)
  refine ⟨(.recd (vs ++ dfltFields gs), (R.alignTo ⟨o2, zeros k2⟩ 8)),
    ⟨(vs ++ dfltFields gs, ⟨o2, zeros k2⟩), ?_, rfl⟩, ?_⟩
  · rw [decFields_append, hBz]
    simp only [bind_ok]
    exact ⟨_, h1, _, h2, rfl⟩
  · simp [Nat.add_assoc]
    rfl

/-- Fields removed: a reader that knows only `fs` reads data written by a writer that knew `fs ++ gs`.
    Common fields keep their values, the unknown tail is skipped, and the reader stops exactly where the
    writer's representation ends. -/
theorem rev_removed (fs gs : List Ty) (x x' : Nat) (vs ws : List Val) (o : Nat) (junk : List Bool)
    (hw : (Ty.struct (fs ++ gs) (.delimited x)).wf = true) (hlen : vs.length = fs.length)
    (hv : valid (.struct (fs ++ gs) (.delimited x)) (.recd (vs ++ ws)) = true) (ho : o % 8 = 0) :
    dec (.struct fs (.delimited x')) ⟨o, enc (.struct (fs ++ gs) (.delimited x)) (.recd (vs ++ ws)) o ++ junk⟩
      = .ok (.recd vs, ⟨o + (enc (.struct (fs ++ gs) (.delimited x)) (.recd (vs ++ ws)) o).length, junk⟩) := by
  simp only [Ty.wf, Bool.and_eq_true] at hw
  simp only [valid] at hv
  have hwf := hw.1
  rw [wfFields_append, Bool.and_eq_true] at hwf
  have hvf := hv
  rw [validFields_append fs gs vs ws hlen, Bool.and_eq_true] at hvf
  have hl := enc_len (.struct (fs ++ gs) .sealed) (.recd (vs ++ ws)) 0 (by simp [Ty.wf, hw.1, modeOk])
    (by simpa [valid] using hv) (by simp [Ty.align])
  simp only [enc, wrapDelim] at hl
  have hle := hasLen_le _ _ hl
  have hmod := hasLen_mod (.struct (fs ++ gs) .sealed) _ (by simp [Ty.wf, hw.1, modeOk]) hl
  simp only [Ty.align] at hmod
  have hx := hw.2
  simp only [modeOk, Bool.and_eq_true, decide_eq_true_eq] at hx
  have hBdef : padTail 0 (encFields (fs ++ gs) (vs ++ ws) 0)
      = encFields fs vs 0 ++ (encFields gs ws (0 + (encFields fs vs 0).length) ++
          zeros (padLen (0 + (encFields (fs ++ gs) (vs ++ ws) 0).length) 8)) := by
    simp only [padTail, encFields_append fs gs vs ws 0 hlen, List.append_assoc]
  generalize hB : padTail 0 (encFields (fs ++ gs) (vs ++ ws) 0) = B at hl hle hmod hBdef
  have hfit : B.length / 8 < 2^32 := by omega
  simp only [dec, enc, wrapDelim, unwrapDelim, hB, List.append_assoc]
  rw [read_append' o headerBits _ _ (natBits_length _ _)]
  have hbn : bitsNat (natBits headerBits (B.length / 8)) = B.length / 8 :=
    bitsNat_natBits _ _ (by simp only [headerBits]; exact hfit)
  have h8 : B.length / 8 * 8 = B.length := by omega
  have hs : shorter (B ++ junk) B.length = false := by simp [shorter_iff]
  simp only [hbn, h8, hs, Bool.false_eq_true, if_false, List.take_left', List.drop_left', bind_ok]
  have hc : encFields fs vs 0 = encFields fs vs (o + headerBits) :=
    encFields_congr fs vs _ _ (by simp [headerBits]; omega)
  rw [hc] at hBdef
  have h1 := decFields_rt fs vs (o + headerBits)
    (encFields gs ws (0 + (encFields fs vs (o + headerBits)).length) ++
      zeros (padLen (0 + (encFields (fs ++ gs) (vs ++ ws) 0).length) 8)) hwf.1 hvf.1
  refine ⟨(.recd vs, R.alignTo ⟨o + headerBits + (encFields fs vs (o + headerBits)).length,
      encFields gs ws (0 + (encFields fs vs (o + headerBits)).length) ++
        zeros (padLen (0 + (encFields (fs ++ gs) (vs ++ ws) 0).length) 8)⟩ 8), ⟨(vs, _), ?_, rfl⟩, ?_⟩
  · rw [hBdef]; exact h1
  · simp [Nat.add_assoc]
    rfl

end Wire
