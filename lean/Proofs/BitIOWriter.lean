import Model.BitIO
import Mathlib.Tactic.Ring
import Mathlib.Tactic.Linarith
/-! `_BitWriter`: both code paths append the low bits of the value (under the writer invariant). -/
namespace BitIO

theorem zeros_succ (k : ℕ) : zeros (k + 1) = false :: zeros k := by simp [zeros, List.replicate_succ]
theorem zeros_length (k : ℕ) : (zeros k).length = k := by simp [zeros]

theorem natBits_length (n v : ℕ) : (natBits n v).length = n := by simp [natBits]

theorem natBits_succ (n v : ℕ) : natBits (n + 1) v = natBits n v ++ [v.testBit n] := by
  simp [natBits, List.range_succ]

theorem natBits_add (a b v : ℕ) : natBits (a + b) v = natBits a v ++ natBits b (v >>> a) := by
  induction b with
  | zero => simp [natBits]
  | succ b ih =>
    rw [← Nat.add_assoc, natBits_succ, ih, natBits_succ, List.append_assoc, Nat.testBit_shiftRight]

theorem natBits_mod (k v : ℕ) : natBits k (v % 2 ^ k) = natBits k v := by
  unfold natBits
  apply List.map_congr_left
  intro i hi
  have : i < k := List.mem_range.mp hi
  simp [Nat.testBit_mod_two_pow, this]

theorem set_at_length (M : List Bool) (x : Bool) (xs : List Bool) (b : Bool) :
    (M ++ x :: xs).set M.length b = M ++ b :: xs := by
  induction M with
  | nil => rfl
  | cons m M ih => simp [List.set, ih]

theorem pad8_length_mod (M : List Bool) : (pad8 M).length % 8 = 0 := by
  simp only [pad8, List.length_append, zeros_length]
  omega

theorem take_pad8 (M : List Bool) : (pad8 M).take M.length = M := by
  simp [pad8]

/-- one step of the bit-wise loop appends one bit (and keeps the zero padding) -/
theorem slowStep_pad8 (M : List Bool) (b : Bool) : slowStep (pad8 M) M.length b = pad8 (M ++ [b]) := by
  unfold slowStep
  have hr := Nat.mod_lt M.length (by omega : 0 < 8)
  by_cases h0 : M.length % 8 = 0
  · have hp : pad8 M = M := by simp [pad8, h0, zeros]
    have hge : M.length / 8 ≥ (pad8 M).length / 8 := by rw [hp]
    rw [if_pos hge, hp]
    have : zeros 8 = false :: zeros 7 := zeros_succ 7
    rw [this, set_at_length]
    have h1 : (8 - (M ++ [b]).length % 8) % 8 = 7 := by simp; omega
    simp only [pad8, h1, List.append_assoc, List.singleton_append]
  · have hk : (8 - M.length % 8) % 8 = (8 - M.length % 8 - 1) + 1 := by omega
    have hp : pad8 M = M ++ false :: zeros (8 - M.length % 8 - 1) := by
      simp only [pad8]; rw [hk, zeros_succ]
    have hlen : (pad8 M).length = 8 * (M.length / 8 + 1) := by
      simp only [pad8, List.length_append, zeros_length]; omega
    have hlt : ¬ M.length / 8 ≥ (pad8 M).length / 8 := by
      rw [hlen, Nat.mul_div_cancel_left _ (by omega : 0 < 8)]; omega
    rw [if_neg hlt, hp, set_at_length]
    have h1 : (8 - (M ++ [b]).length % 8) % 8 = 8 - M.length % 8 - 1 := by simp; omega
    simp only [pad8, h1, List.append_assoc, List.singleton_append]

/-- the bit-wise loop appends the `n` low bits -/
theorem slowWrite_buf (M : List Bool) (v n : ℕ) :
    (slowWrite ⟨pad8 M, M.length⟩ v n).buf = pad8 (M ++ natBits n v) := by
  unfold slowWrite
  simp only
  induction n with
  | zero => simp [natBits]
  | succ n ih =>
    rw [List.range_succ, List.foldl_append, ih, natBits_succ, ← List.append_assoc]
    simp only [List.foldl_cons, List.foldl_nil]
    have : M.length + n = (M ++ natBits n v).length := by simp [natBits_length]
    rw [this, slowStep_pad8]

/-- what the invariant says: the buffer is the written bits, zero-padded to a byte -/
theorem ok_iff (w : W) : w.ok = true ↔ w.buf = pad8 w.logical ∧ w.off ≤ w.buf.length := by
  simp [W.ok, W.logical, and_comm]

theorem logical_length (w : W) (h : w.ok = true) : w.logical.length = w.off := by
  have := (ok_iff w).mp h
  simp [W.logical, this.2]

theorem ok_of_eq (M : List Bool) (w' : W) (h1 : w'.buf = pad8 M) (h2 : w'.off = M.length) :
    w'.ok = true ∧ w'.logical = M := by
  have hl : w'.logical = M := by simp [W.logical, h1, h2, take_pad8]
  refine ⟨(ok_iff w').mpr ⟨by rw [hl, h1], ?_⟩, hl⟩
  rw [h1, h2]; simp [pad8]

theorem slowWrite_spec (w : W) (v n : ℕ) (h : w.ok = true) :
    (slowWrite w v n).ok = true ∧ (slowWrite w v n).off = w.off + n ∧
      (slowWrite w v n).logical = w.logical ++ natBits n v := by
  obtain ⟨hb, _⟩ := (ok_iff w).mp h
  have hl := logical_length w h
  have hw : w = ⟨pad8 w.logical, w.logical.length⟩ := by
    cases w; simp only [W.mk.injEq]; exact ⟨hb, hl.symm⟩
  have hbuf := slowWrite_buf w.logical v n
  rw [← hw] at hbuf
  have hoff : (slowWrite w v n).off = w.off + n := rfl
  obtain ⟨h1, h2⟩ := ok_of_eq (w.logical ++ natBits n v) (slowWrite w v n) hbuf
    (by rw [hoff]; simp [natBits_length, hl])
  exact ⟨h1, hoff, h2⟩

theorem fastWrite_spec (w : W) (v n : ℕ) (h : w.ok = true) (ha : w.off % 8 = 0) :
    (fastWrite w v n).ok = true ∧ (fastWrite w v n).off = w.off + n ∧
      (fastWrite w v n).logical = w.logical ++ natBits n v := by
  obtain ⟨hb, _⟩ := (ok_iff w).mp h
  have hl := logical_length w h
  have hpad : pad8 w.logical = w.logical := by simp [pad8, hl, ha, zeros]
  have hbuf : w.buf = w.logical := by rw [hb, hpad]
  have hlen : w.buf.length = w.off := by rw [hbuf, hl]
  -- under the invariant the buffer ends exactly at the write position: only the first branch is reachable
  set data := natBits (8 * (n / 8)) (v % 2 ^ (8 * (n / 8))) with hdata
  have hd : data = natBits (8 * (n / 8)) v := natBits_mod _ _
  have hw1 : (⟨w.buf ++ zeros (8 * (w.off / 8 - w.buf.length / 8)) ++ data, w.off + 8 * (n / 8)⟩ : W)
      = ⟨pad8 (w.logical ++ data), (w.logical ++ data).length⟩ := by
    have hz : w.off / 8 - w.buf.length / 8 = 0 := by rw [hlen]; omega
    have hl2 : (w.logical ++ data).length = w.off + 8 * (n / 8) := by
      simp [hl, hd, natBits_length]
    have hp2 : pad8 (w.logical ++ data) = w.logical ++ data := by
      have : (8 - (w.logical ++ data).length % 8) % 8 = 0 := by rw [hl2]; omega
      simp only [pad8, this, zeros, List.replicate_zero, List.append_nil]
    rw [hp2, hl2, hz, hbuf]; simp [zeros]
  have hbranch : w.off / 8 ≥ w.buf.length / 8 := by rw [hlen]
  unfold fastWrite
  simp only [if_pos hbranch, ← hdata]
  rw [hw1]
  have hn : n = 8 * (n / 8) + n % 8 := (Nat.div_add_mod n 8).symm
  by_cases hrem : n % 8 > 0
  · rw [if_pos hrem]
    have hok1 := ok_of_eq (w.logical ++ data) ⟨pad8 (w.logical ++ data), (w.logical ++ data).length⟩ rfl rfl
    obtain ⟨s1, s2, s3⟩ := slowWrite_spec ⟨pad8 (w.logical ++ data), (w.logical ++ data).length⟩
      (v >>> (8 * (n / 8))) (n % 8) hok1.1
    refine ⟨s1, ?_, ?_⟩
    · rw [s2]; simp [hl, hd, natBits_length]; omega
    · rw [s3, hok1.2, hd, List.append_assoc, ← natBits_add, ← hn]
  · rw [if_neg hrem]
    have h0 : n % 8 = 0 := by omega
    have hok1 := ok_of_eq (w.logical ++ data) ⟨pad8 (w.logical ++ data), (w.logical ++ data).length⟩ rfl rfl
    refine ⟨hok1.1, ?_, ?_⟩
    · simp [hl, hd, natBits_length]; omega
    · rw [hok1.2, hd]; congr 2; omega

/-- **Writer refinement.** Under the invariant, `write_bits(value, n)` — whichever code path it takes — appends the
    `n` low bits of the value, least significant first, and re-establishes the invariant. -/
theorem writeBits_spec (w : W) (v n : ℕ) (h : w.ok = true) :
    (writeBits w v n).ok = true ∧ (writeBits w v n).off = w.off + n ∧
      (writeBits w v n).logical = w.logical ++ natBits n v := by
  unfold writeBits
  split
  · next hc => exact fastWrite_spec w v n h hc.1
  · exact slowWrite_spec w v n h

theorem natBits_zero_value (n : ℕ) : natBits n 0 = zeros n := by
  simp [natBits, zeros]
  induction n with
  | zero => rfl
  | succ n ih => simp [List.range_succ, List.replicate_succ', ih]

/-- `align_to` appends zero bits up to the next multiple of the alignment. -/
theorem alignTo_spec (w : W) (a : ℕ) (h : w.ok = true) :
    (alignTo w a).ok = true ∧ (a > 0 → (alignTo w a).off % a = 0) ∧
      ∃ k, (alignTo w a).logical = w.logical ++ zeros k ∧ (a > 0 → k < a) := by
  unfold alignTo
  split
  · next h0 => exact ⟨h, fun ha => by omega, 0, by simp [zeros], fun ha => by omega⟩
  · next ha =>
    have hpos : 0 < a := Nat.pos_of_ne_zero ha
    split
    · next hr =>
      obtain ⟨s1, s2, s3⟩ := writeBits_spec w 0 (a - w.off % a) h
      refine ⟨s1, fun _ => ?_, a - w.off % a, by rw [s3, natBits_zero_value], fun _ => by omega⟩
      rw [s2]
      have := Nat.mod_lt w.off hpos
      have hdm := Nat.div_add_mod w.off a
      have : w.off + (a - w.off % a) = a * (w.off / a + 1) := by
        rw [Nat.mul_add, Nat.mul_one]; omega
      rw [this, Nat.mul_mod_right]
    · next hr =>
      exact ⟨h, fun _ => by omega, 0, by simp [zeros], fun _ => hpos⟩

end BitIO
