import Proofs.Reader
import Proofs.ReaderLoc
import Proofs.ReaderPrint
import Proofs.ReaderCommit
/-! `@print` deliveries in front of an error (C17.prints_before_error): a failed read of a definition without references
    has delivered exactly the `@print` statements that stand in front of the reported line — also when the reported line
    is the line of a lazily committed attribute and the error was raised several lines later. -/
namespace Reader

/-- the lines whose number is smaller than `n`; `k` is the number of the first line, numbers advance with `Line.next` -/
def linesBefore (n : Nat) : Nat → List Line → List Line
  | _, [] => []
  | k, l :: ls => if k < n then l :: linesBefore n (l.next k) ls else []

theorem linesBefore_ge {n k : Nat} (h : n ≤ k) (ls : List Line) : linesBefore n k ls = [] := by
  cases ls with
  | nil => rfl
  | cons l ls => simp only [linesBefore]; rw [if_neg (by omega)]

theorem specPrints_linesBefore_lt {pf n k : Nat} (h : k < n) (l : Line) (ls : List Line) :
    specPrints pf k (linesBefore n k (l :: ls)) =
      linePrints pf k l ++ specPrints pf (l.next k) (linesBefore n (l.next k) ls) := by
  simp only [linesBefore]; rw [if_pos h]; rfl

/-! ### an error leaves with the world the statement found -/

/-- whatever `x` raises, it raises with the world `w0` -/
def ErrW {α : Type} (w0 : W) (x : M α) : Prop := ∀ e w', x = .error (e, w') → w' = w0

theorem errw_raise {c s ln} {α : Type} : ErrW s.w (raise c s ln : M α) := by
  intro e w' h; simp [raise] at h; exact h.2.symm

theorem errw_ok {w0} {α : Type} (a : α) : ErrW w0 (.ok a : M α) := by
  intro e w' h; cases h

theorem errw_bind {α β : Type} {w0} {x : M α} {f : α → M β} (hx : ErrW w0 x) (hf : ∀ a, x = .ok a → ErrW w0 (f a)) :
    ErrW w0 (x >>= f) := by
  intro e w' h
  rw [bind_err] at h
  rcases h with h | ⟨a, ha, h⟩
  · exact hx e w' h
  · exact hf a ha e w' h

theorem errw_commitAttr {c k s a bad doc} : ErrW s.w (commitAttr c k s a bad doc) := by
  unfold commitAttr
  split
  · exact errw_raise
  · split
    · exact errw_ok _
    · split
      · exact errw_raise
      · exact errw_ok _

theorem errw_flushAttr {c k s doc} : ErrW s.w (flushAttr c k s doc) := by
  unfold flushAttr
  split
  · exact errw_ok _
  · exact errw_commitAttr

theorem errw_flush {c k s} : ErrW s.w (flush c k s) := by
  unfold flush
  split
  · exact errw_ok _
  · intro e w' h; rw [map_err] at h; exact errw_flushAttr e w' h

theorem errw_resolveRefs {c k s rs} : ErrW s.w (resolveRefs c k s rs) := by
  induction rs with
  | nil => exact errw_ok _
  | cons r rs ih =>
    unfold resolveRefs
    split
    · exact ih
    · exact errw_raise

theorem errw_onMarker {c k s} : ErrW s.w (onMarker c k s) := by
  unfold onMarker
  split
  · exact errw_raise
  · exact errw_ok _

theorem errw_onDirective {c k s name ev text} : ErrW s.w (onDirective c k s name ev text) := by
  unfold onDirective
  repeat' split
  all_goals first | exact errw_ok _ | exact errw_raise

theorem errw_onAttr {c k s core bad} : ErrW s.w (onAttr c k s core bad) := by
  unfold onAttr
  split
  · exact errw_raise
  · intro e w' h; rw [map_err] at h; exact errw_flushAttr e w' h

theorem visitChildren_w {c k l st s s'} (hd : l.deps = []) (h : visitChildren c k l st s = .ok s') : s'.w = s.w := by
  unfold visitChildren at h
  split at h
  · simp [raise] at h
  · simp only [bind_ok, hd] at h
    obtain ⟨s1, hs1, s2, hs2, s3', hs3', h3⟩ := h
    split at h3
    · simp [raise] at h3
    · cases h3
      have e2 := resolveRefs_ok hs2; subst e2
      simp [readDeps] at hs3'
      subst hs3'
      rw [markOffs_w]
      split at hs1
      · exact flush_w hs1
      · cases hs1; rfl

theorem errw_visitChildren {c k l st s} (hd : l.deps = []) : ErrW s.w (visitChildren c k l st s) := by
  unfold visitChildren
  split
  · exact errw_raise
  · have h1 : ErrW s.w (if (st.hasIdent || !l.refs.isEmpty || !l.deps.isEmpty) = true then flush c k s else .ok s) := by
      split
      · exact errw_flush
      · exact errw_ok _
    refine errw_bind h1 ?_
    intro s1 hs1
    have e1 : s1.w = s.w := by
      split at hs1
      · exact flush_w hs1
      · cases hs1; rfl
    rw [← e1]
    refine errw_bind errw_resolveRefs ?_
    intro s2 hs2
    have e2 := resolveRefs_ok hs2; subst e2
    rw [hd]
    simp only [readDeps, bind, Except.bind]
    split
    · have := @errw_raise c (markOffs l s2) (some k) St
      rw [markOffs_w] at this
      exact this
    · exact errw_ok _

theorem errw_emitStmt {c k l st s} : ErrW s.w (emitStmt c k l st s) := by
  unfold emitStmt
  refine errw_bind errw_flush ?_
  intro s4 h4
  rw [← flush_w h4]
  split
  · exact errw_raise
  · cases st with
    | attr core => exact errw_onAttr
    | directive name ev text => exact errw_onDirective
    | marker => exact errw_onMarker

theorem errw_visitStmt {c k l st s} (hd : l.deps = []) : ErrW s.w (visitStmt c k l st s) := by
  unfold visitStmt
  refine errw_bind (errw_visitChildren hd) ?_
  intro s3 h3
  rw [← visitChildren_w hd h3]
  exact errw_emitStmt

/-! ### which attribute is still queued behind a line -/

/-- behind a statement only that statement's own attribute can be queued -/
theorem visitStmt_pending {c k l st s s' a b} (hi : s.pending.isSome → s.header = false)
    (h : visitStmt c k l st s = .ok s') (hp : s'.pending = some (a, b)) : (∃ core, st = .attr core) ∧ a.line = k := by
  cases st with
  | attr core =>
    obtain ⟨_, _, q⟩ := visitStmt_attr_queued hi h
    rw [q] at hp
    simp at hp
    exact ⟨⟨core, rfl⟩, by rw [← hp.1]⟩
  | directive name ev text =>
    exfalso
    unfold visitStmt at h
    rw [bind_ok] at h
    obtain ⟨s3, h3, h⟩ := h
    obtain ⟨_, b3⟩ := visitChildren_last h3 hi
    have hi3 : s3.pending.isSome → s3.header = false := by
      rcases b3 with ⟨b, d⟩ | ⟨b, d⟩
      · rw [b, d]; exact hi
      · simp [b]
    unfold emitStmt at h
    rw [bind_ok] at h
    obtain ⟨s4, h4, h⟩ := h
    obtain ⟨_, p4, _⟩ := flush_last h4 hi3
    split at h
    · simp [raise] at h
    · simp only at h
      obtain ⟨_, q, _⟩ := onDirective_last h
      rw [q, p4] at hp
      cases hp
  | marker =>
    exfalso
    unfold visitStmt at h
    rw [bind_ok] at h
    obtain ⟨s3, h3, h⟩ := h
    obtain ⟨_, b3⟩ := visitChildren_last h3 hi
    have hi3 : s3.pending.isSome → s3.header = false := by
      rcases b3 with ⟨b, d⟩ | ⟨b, d⟩
      · rw [b, d]; exact hi
      · simp [b]
    unfold emitStmt at h
    rw [bind_ok] at h
    obtain ⟨s4, h4, h⟩ := h
    obtain ⟨_, p4, _⟩ := flush_last h4 hi3
    split at h
    · simp [raise] at h
    · simp only at h
      have := onMarker_ok h
      subst this
      simp [p4] at hp

theorem addLineComment_pending (l : Line) (s : St) : (addLineComment l s).pending = s.pending := by
  unfold addLineComment; cases l.comment <;> rfl

theorem linePrints_attr {pf k l core} (h : l.stmt = some (.attr core)) : linePrints pf k l = [] := by
  simp [linePrints, h]

theorem linePrints_none {pf k l} (h : l.stmt = none) : linePrints pf k l = [] := by
  simp [linePrints, h]

/-- the state behind the statement part of a line -/
theorem stepLine_mid_linv {P c k l s s1} (hk : 0 < k) (hl : LInv P s)
    (h1 : (match l.stmt with | some st => visitStmt c k l st s | none => .ok s) = .ok s1) :
    LInv (fun n => P n ∨ (n = k ∧ l.stmt.isSome)) (addLineComment l s1) := by
  have hl1 : LInv (fun n => P n ∨ (n = k ∧ l.stmt.isSome)) s1 := by
    cases hs : l.stmt with
    | none => simp [hs] at h1; subst h1; exact LInv_mono hl (fun _ => Or.inl)
    | some st =>
      simp only [hs] at h1
      exact LInv_mono (LInv_visitStmt hk h1 hl) (fun n hn => hn.imp id (fun e => ⟨e, rfl⟩))
  unfold addLineComment; cases l.comment <;> exact hl1

/-- an attribute that is still queued behind line `k` is the attribute of line `k`, or it was queued before and line `k`
    holds no statement -/
theorem stepLine_pending {P c k l s s' a b} (hk : 0 < k) (hl : LInv P s) (h : stepLine c k s l = .ok s')
    (hp : s'.pending = some (a, b)) :
    ((∃ core, l.stmt = some (.attr core)) ∧ a.line = k) ∨ (l.stmt = none ∧ s.pending = some (a, b)) := by
  unfold stepLine at h
  rw [bind_ok] at h
  obtain ⟨s1, h1, h⟩ := h
  have hl1 := stepLine_mid_linv hk hl h1
  have hp1 : s1.pending = some (a, b) := by
    split at h
    · have := (flush_last h hl1.1).2.1
      rw [this] at hp; cases hp
    · cases h; rw [addLineComment_pending] at hp; exact hp
  cases hs : l.stmt with
  | none => simp [hs] at h1; subst h1; exact Or.inr ⟨rfl, hp1⟩
  | some st =>
    simp only [hs] at h1
    obtain ⟨⟨core, rfl⟩, q⟩ := visitStmt_pending hl.1 h1 hp1
    exact Or.inl ⟨⟨core, rfl⟩, q⟩

/-- the error of one line of a definition without references: nothing of this line has been delivered; the reported
    line is this line or the line of the attribute that was queued before -/
theorem stepLine_err_w {P c k l s e w'} (hd : l.deps = []) (hk : 0 < k) (hl : LInv P s)
    (h : stepLine c k s l = .error (e, w')) :
    w'.cached = s.w.cached ∧ w'.prints = s.w.prints ∧
      (e = ⟨c.self, some k⟩ ∨ ∃ a b, s.pending = some (a, b) ∧ e = ⟨c.self, some a.line⟩) := by
  unfold stepLine at h
  rw [bind_err] at h
  rcases h with h | ⟨s1, h1, h⟩
  · cases hs : l.stmt with
    | none => simp [hs] at h
    | some st =>
      simp only [hs] at h
      have hw := errw_visitStmt hd e w' h
      refine ⟨by rw [hw], by rw [hw], ?_⟩
      rcases visitStmt_err hl.1 h with h | ⟨hp, he⟩ | ⟨_, j, _, hj, _⟩
      · exact Or.inl h
      · right
        cases hq : s.pending with
        | none => simp [hq] at hp
        | some p =>
          obtain ⟨a, bad⟩ := p
          obtain ⟨g1, g2⟩ := hl.2.1 a bad hq
          refine ⟨a, bad, rfl, ?_⟩
          rw [he, AttrLine, g1]; simp [g2]
      · rw [hd] at hj; cases hj
  · have hl1 := stepLine_mid_linv hk hl h1
    split at h
    · have hw := errw_flush e w' h
      rw [addLineComment_w] at hw
      obtain ⟨a, bad, hq, he⟩ := flush_err_attr hl1 h
      rw [addLineComment_pending] at hq
      cases hs : l.stmt with
      | none =>
        simp [hs] at h1; subst h1
        exact ⟨by rw [hw], by rw [hw], Or.inr ⟨a, bad, hq, he⟩⟩
      | some st =>
        simp only [hs] at h1
        obtain ⟨⟨core, rfl⟩, q⟩ := visitStmt_pending hl.1 h1 hq
        obtain ⟨v1, v2⟩ := visitStmt_w hd hs h1
        rw [linePrints_attr hs, List.append_nil] at v2
        exact ⟨by rw [hw, v1], by rw [hw, v2], Or.inl (by rw [he, q])⟩
    · cases h

/-! ### all lines -/

theorem LInv_lt {k s a b} (hl : LInv (fun n => n < k) s) (hp : s.pending = some (a, b)) : a.line < k ∧ a.line ≠ 0 := by
  obtain ⟨g1, g2⟩ := hl.2.1 a b hp
  refine ⟨?_, g2⟩
  rcases hl.2.2 with h | h
  · rw [g1] at h; exact absurd h g2
  · rw [g1] at h; exact h

theorem LInv_lt_step {c k l s s'} (hk : 0 < k) (hl : LInv (fun n => n < k) s) (h : stepLine c k s l = .ok s') :
    LInv (fun n => n < l.next k) s' := by
  refine LInv_mono (LInv_stepLine hk h hl) ?_
  intro n hn
  show n < l.next k
  unfold Line.next
  rcases hn with hn | ⟨hn, _⟩
  · have : n < k := hn
    omega
  · omega

/-- a failed visit of the lines: the reported line `n` lies in the part still to be visited and exactly the `@print`s in
    front of it have been delivered, or it is the line of the attribute that was queued before and nothing has been
    delivered -/
theorem runLines_prints_err {c} (ls : List Line) : ∀ k s e w', 0 < k → LInv (fun n => n < k) s → (∀ l ∈ ls, l.deps = []) →
    runLines c k s ls = .error (e, w') →
    w'.cached = s.w.cached ∧ ∃ n, e = ⟨c.self, some n⟩ ∧
      ((k ≤ n ∧ w'.prints = s.w.prints ++ specPrints c.printFile k (linesBefore n k ls)) ∨
       (n < k ∧ w'.prints = s.w.prints ∧ ∃ a b, s.pending = some (a, b) ∧ a.line = n)) := by
  induction ls with
  | nil => intro k s e w' _ _ _ h; simp [runLines] at h
  | cons l ls ih =>
    intro k s e w' hk hl hd h
    have hdl := hd l (List.mem_cons_self ..)
    simp only [runLines] at h
    rw [bind_err] at h
    rcases h with h | ⟨s1, h1, h⟩
    · obtain ⟨c1, c2, he⟩ := stepLine_err_w hdl hk hl h
      refine ⟨c1, ?_⟩
      rcases he with he | ⟨a, b, hp, he⟩
      · refine ⟨k, he, Or.inl ⟨Nat.le_refl _, ?_⟩⟩
        rw [linesBefore_ge (Nat.le_refl _), c2]; simp [specPrints]
      · exact ⟨a.line, he, Or.inr ⟨(LInv_lt hl hp).1, c2, a, b, hp, rfl⟩⟩
    · obtain ⟨a1, a2⟩ := stepLine_w hdl h1
      obtain ⟨c1, n, he, hn⟩ := ih _ _ _ _ (next_pos l k) (LInv_lt_step hk hl h1)
        (fun x hx => hd x (List.mem_cons_of_mem _ hx)) h
      refine ⟨by rw [c1, a1], n, he, ?_⟩
      have hnext : k < l.next k := by unfold Line.next; omega
      rcases hn with ⟨g1, g2⟩ | ⟨g1, g2, a, b, hp, ha⟩
      · left
        have hkn : k < n := by omega
        refine ⟨by omega, ?_⟩
        rw [specPrints_linesBefore_lt hkn, g2, a2, List.append_assoc]
      · rcases stepLine_pending hk hl h1 hp with ⟨⟨core, hs⟩, q⟩ | ⟨hs, q⟩
        · left
          have hkn : n = k := by rw [← ha, q]
          subst hkn
          refine ⟨Nat.le_refl _, ?_⟩
          rw [linesBefore_ge (Nat.le_refl _), g2, a2, linePrints_attr hs]; simp [specPrints]
        · right
          have := (LInv_lt hl q).1
          refine ⟨by omega, ?_, a, b, q, ha⟩
          rw [g2, a2, linePrints_none hs, List.append_nil]

/-- a successful visit of the lines that leaves an attribute queued: no `@print` stands at or behind the line of that
    attribute -/
theorem runLines_pending {c} (pf : Nat) (ls : List Line) : ∀ k s s' a b, 0 < k → LInv (fun n => n < k) s →
    runLines c k s ls = .ok s' → s'.pending = some (a, b) →
    (k ≤ a.line ∧ specPrints pf k ls = specPrints pf k (linesBefore a.line k ls)) ∨
    (a.line < k ∧ s.pending = some (a, b) ∧ specPrints pf k ls = []) := by
  induction ls with
  | nil =>
    intro k s s' a b _ hl h hp
    simp [runLines] at h; subst h
    exact Or.inr ⟨(LInv_lt hl hp).1, hp, rfl⟩
  | cons l ls ih =>
    intro k s s' a b hk hl h hp
    simp only [runLines, bind_ok] at h
    obtain ⟨s1, h1, h2⟩ := h
    have hnext : k < l.next k := by unfold Line.next; omega
    rcases ih _ _ _ _ _ (next_pos l k) (LInv_lt_step hk hl h1) h2 hp with ⟨g1, g2⟩ | ⟨g1, hp1, g2⟩
    · left
      have hkn : k < a.line := by omega
      refine ⟨by omega, ?_⟩
      rw [specPrints_linesBefore_lt hkn, ← g2]; rfl
    · rcases stepLine_pending hk hl h1 hp1 with ⟨⟨core, hs⟩, q⟩ | ⟨hs, q⟩
      · left
        refine ⟨by omega, ?_⟩
        rw [q, linesBefore_ge (Nat.le_refl _)]
        simp [specPrints, g2, linePrints_attr hs]
      · right
        refine ⟨(LInv_lt hl q).1, q, ?_⟩
        simp [specPrints, g2, linePrints_none hs]

theorem LInv_init_lt (w : W) : LInv (fun n => n < 1) (St.init w) := LInv_mono (LInv_init w) (fun _ h => h.elim)

/-- END TO END: a failed read of a definition without references.  The error carries the own path, the cache is untouched,
    and
      * a text that does not match the grammar has delivered nothing;
      * an error with line `n` has delivered exactly the `@print` statements in front of line `n`, each once, in source
        order, with its own line — none at or behind line `n`, also when line `n` is the line of a lazily committed attribute
        and the error was raised later;
      * an error without a line (finalize) has delivered all of them. -/
theorem readText_prints_err {c ls w e w'} (hd : ∀ l ∈ ls, l.deps = []) (h : readText c ls w = .error (e, w')) :
    e.file = c.self ∧ w'.cached = w.cached ∧
    (∀ k, firstSyntaxError 1 ls = some k → e.line = some k ∧ w' = w) ∧
    (firstSyntaxError 1 ls = none →
      (∀ n, e.line = some n → w'.prints = w.prints ++ specPrints c.printFile 1 (linesBefore n 1 ls)) ∧
      (e.line = none → w'.prints = w.prints ++ specPrints c.printFile 1 ls)) := by
  unfold readText at h
  split at h
  · rename_i k hk
    simp at h
    obtain ⟨rfl, rfl⟩ := h
    refine ⟨rfl, rfl, ?_, ?_⟩
    · intro k' hk'; rw [hk] at hk'; cases hk'; exact ⟨rfl, rfl⟩
    · intro h0; rw [hk] at h0; cases h0
  · rename_i hsyn
    rw [bind_err] at h
    rcases h with h | ⟨s, hs, h⟩
    · obtain ⟨c1, n, he, hn⟩ := runLines_prints_err ls 1 _ e w' (by omega) (LInv_init_lt w) hd h
      subst he
      refine ⟨rfl, c1, ?_, fun _ => ⟨?_, ?_⟩⟩
      · intro k hk; rw [hsyn] at hk; cases hk
      · intro n' hn'
        simp at hn'; subst hn'
        rcases hn with ⟨_, g⟩ | ⟨_, _, a, b, hp, _⟩
        · exact g
        · simp [St.init] at hp
      · intro h0; simp at h0
    · obtain ⟨r1, r2⟩ := runLines_w ls _ _ _ hd hs
      have r1' : s.w.cached = w.cached := r1
      have r2' : s.w.prints = w.prints ++ specPrints c.printFile 1 ls := r2
      rw [bind_err] at h
      rcases h with h | ⟨s', hf, h⟩
      · have hw := errw_flush e w' h
        have hl := runLines_linv ls _ 1 _ _ (by omega) (LInv_init w) hs
        obtain ⟨a, bad, hp, he⟩ := flush_err_attr hl h
        subst he
        refine ⟨rfl, by rw [hw, r1'], ?_, fun _ => ⟨?_, ?_⟩⟩
        · intro k hk; rw [hsyn] at hk; cases hk
        · intro n' hn'
          simp at hn'; subst hn'
          rcases runLines_pending c.printFile ls 1 _ _ _ _ (by omega) (LInv_init_lt w) hs hp with ⟨_, g⟩ | ⟨_, hp0, _⟩
          · rw [hw, r2', g]
          · simp [St.init] at hp0
        · intro h0; simp at h0
      · rw [map_err] at h
        simp only [finalize] at h
        split at h
        · simp [raise] at h
          obtain ⟨rfl, rfl⟩ := h
          have fw := flush_w hf
          refine ⟨rfl, by rw [fw, r1'], ?_, fun _ => ⟨?_, ?_⟩⟩
          · intro k hk; rw [hsyn] at hk; cases hk
          · intro n' hn'; simp at hn'
          · intro _; rw [fw, r2']
        · cases h

end Reader
