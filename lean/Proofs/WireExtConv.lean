import Proofs.WireExt
/-! Converse of zero extension: if the zero-extended window decodes, the original window decodes to the same
    value, unless a delimiter header does not fit into the original window (`DelimiterHeaderError`). -/
namespace Wire

def ExtConv (f : R → Except Err (Val × R)) : Prop :=
  ∀ (r r' : R) (v : Val) (q' : R), Ext r r' → f r' = .ok (v, q') →
    (∃ q, f r = .ok (v, q) ∧ Ext q q') ∨ f r = .error .delimiterHeader

theorem decRep_extConv {f : R → Except Err (Val × R)} (hf : ExtConv f) :
    ∀ (n : Nat) (r r' : R) (vs : List Val) (q' : R), Ext r r' → decRep f n r' = .ok (vs, q') →
      (∃ q, decRep f n r = .ok (vs, q) ∧ Ext q q') ∨ decRep f n r = .error .delimiterHeader
  | 0, r, r', vs, q', h, hd => by
      simp only [decRep] at hd ⊢; cases hd; exact Or.inl ⟨r, rfl, h⟩
  | n+1, r, r', vs, q', h, hd => by
      simp only [decRep, bind_ok] at hd
      obtain ⟨⟨v1, r1'⟩, hx, ⟨vs2, r2'⟩, hy, hd⟩ := hd
      cases hd
      rcases hf _ _ v1 r1' h hx with ⟨r1, h1, e1⟩ | herr
      · rcases decRep_extConv hf n r1 r1' vs2 r2' e1 hy with ⟨r2, h2, e2⟩ | herr
        · left
          refine ⟨r2, ?_, e2⟩
          simp only [decRep, bind_ok]
          exact ⟨_, h1, _, h2, rfl⟩
        · right
          simp only [decRep, bind_err]
          exact Or.inr ⟨_, h1, Or.inl herr⟩
      · right
        simp only [decRep, bind_err]
        exact Or.inl herr

theorem unwrapDelim_extConv {body : R → Except Err (Val × R)} (hb : ExtConv body) (m : Mode) :
    ExtConv (fun r => unwrapDelim m r body) := by
  intro r r' v q' h hd
  cases m with
  | sealed => exact hb r r' v q' h hd
  | delimited x =>
    simp only [unwrapDelim] at hd ⊢
    have hr := h.read headerBits
    rw [hr.1] at hd
    obtain ⟨ho, k, hs⟩ := hr.2
    by_cases hc : shorter (r.read headerBits).2.s (bitsNat (r.read headerBits).1 * 8) = true
    · right; simp only [hc, if_true]
    · left
      simp only [hc, Bool.false_eq_true, if_false, bind_ok]
      split at hd
      · cases hd
      · simp only [bind_ok] at hd
        obtain ⟨⟨v1, r1⟩, hx, hd⟩ := hd
        cases hd
        simp only [shorter_iff, decide_eq_true_eq, Nat.not_lt] at hc
        have htake : (r'.read headerBits).2.s.take (bitsNat (r.read headerBits).1 * 8)
            = (r.read headerBits).2.s.take (bitsNat (r.read headerBits).1 * 8) := by
          rw [hs, List.take_append_of_le_length hc]
        rw [htake, ho] at hx
        refine ⟨_, ⟨(v1, r1), hx, rfl⟩, by simp [ho], ?_⟩
        exact ⟨k - (bitsNat (r.read headerBits).1 * 8 - (r.read headerBits).2.s.length),
          by simp [hs, List.drop_append, zeros]⟩

theorem prim_extConv (n : Nat) (g : List Bool → Val) :
    ExtConv (fun r => let (b, r') := r.read n; .ok (g b, r')) := by
  intro r r' v q' h hd
  have := h.read n
  simp only at hd ⊢
  cases hd
  exact Or.inl ⟨_, by rw [this.1], this.2⟩

mutual
theorem dec_extConv : ∀ (t : Ty), ExtConv (dec t)
  | .bool => by
      have := prim_extConv 1 (fun b => .bool (bitsNat b != 0)); simpa only [dec] using this
  | .uint n _ => by
      have := prim_extConv n (fun b => .int (bitsNat b)); simpa only [dec] using this
  | .sint n _ => by
      have := prim_extConv n (fun b => .int (ofTwos n (bitsNat b))); simpa only [dec] using this
  | .float n _ => by
      have := prim_extConv n (fun b => .flt (bitsNat b)); simpa only [dec] using this
  | .byte => by
      have := prim_extConv 8 (fun b => .int (bitsNat b)); simpa only [dec] using this
  | .utf8 => by
      have := prim_extConv 8 (fun b => .int (bitsNat b)); simpa only [dec] using this
  | .void n => by
      have := prim_extConv n (fun _ => .unit); simpa only [dec] using this
  | .farr e cap => by
      intro r r' v q' h hd
      simp only [dec, bind_ok] at hd
      obtain ⟨⟨vs, r1'⟩, hx, hd⟩ := hd
      cases hd
      rcases decRep_extConv (dec_extConv e) cap r r' vs r1' h hx with ⟨r1, h1, e1⟩ | herr
      · exact Or.inl ⟨r1, by simp only [dec, bind_ok]; exact ⟨_, h1, rfl⟩, e1⟩
      · exact Or.inr (by simp only [dec, bind_err]; exact Or.inl herr)
  | .varr e cap => by
      intro r r' v q' h hd
      simp only [dec] at hd ⊢
      have hr := h.read (lenBits cap)
      rw [hr.1] at hd
      split at hd
      · cases hd
      · rename_i hc
        simp only [hc, if_false, bind_ok] at hd ⊢
        obtain ⟨⟨vs, r1'⟩, hx, hd⟩ := hd
        split at hd
        · cases hd
        · rename_i hu
          cases hd
          rcases decRep_extConv (dec_extConv e) _ _ _ vs r1' hr.2 hx with ⟨r1, h1, e1⟩ | herr
          · left
            refine ⟨r1, ⟨(vs, r1), h1, ?_⟩, e1⟩
            simp only [hu]; rfl
          · right
            simp only [bind_err]
            exact Or.inl herr
  | .struct fs m => by
      intro r r' v q' h hd
      simp only [dec] at hd ⊢
      refine unwrapDelim_extConv ?_ m r r' v q' h hd
      intro r r' v q' h hd
      simp only [bind_ok] at hd
      obtain ⟨⟨vs, r1'⟩, hx, hd⟩ := hd
      cases hd
      rcases decFields_extConv fs r r' vs r1' h hx with ⟨r1, h1, e1⟩ | herr
      · exact Or.inl ⟨_, by simp only [bind_ok]; exact ⟨(vs, r1), h1, rfl⟩, e1.alignTo 8⟩
      · exact Or.inr (by simp only [bind_err]; exact Or.inl herr)
  | .union fs m => by
      intro r r' v q' h hd
      simp only [dec] at hd ⊢
      refine unwrapDelim_extConv ?_ m r r' v q' h hd
      intro r r' v q' h hd
      have hr := h.read (tagBits fs.length)
      simp only [bind_ok] at hd
      rw [hr.1] at hd
      obtain ⟨⟨v1, r1'⟩, hx, hd⟩ := hd
      cases hd
      rcases decVariant_extConv fs _ _ _ v1 r1' hr.2 hx with ⟨r1, h1, e1⟩ | herr
      · exact Or.inl ⟨_, by simp only [bind_ok]; exact ⟨(v1, r1), h1, rfl⟩, e1.alignTo 8⟩
      · exact Or.inr (by simp only [bind_err]; exact Or.inl herr)
theorem decFields_extConv : ∀ (ts : List Ty) (r r' : R) (vs : List Val) (q' : R), Ext r r' →
    decFields ts r' = .ok (vs, q') →
    (∃ q, decFields ts r = .ok (vs, q) ∧ Ext q q') ∨ decFields ts r = .error .delimiterHeader
  | [], r, r', vs, q', h, hd => by
      simp only [decFields] at hd ⊢; cases hd; exact Or.inl ⟨r, rfl, h⟩
  | t :: ts, r, r', vs, q', h, hd => by
      simp only [decFields, bind_ok] at hd
      obtain ⟨⟨v1, r1'⟩, hx, ⟨vs2, r2'⟩, hy, hd⟩ := hd
      cases hd
      rcases dec_extConv t _ _ v1 r1' (h.alignTo t.align) hx with ⟨r1, h1, e1⟩ | herr
      · rcases decFields_extConv ts r1 r1' vs2 r2' e1 hy with ⟨r2, h2, e2⟩ | herr
        · left
          refine ⟨r2, ?_, e2⟩
          simp only [decFields, bind_ok]
          exact ⟨_, h1, _, h2, rfl⟩
        · right
          simp only [decFields, bind_err]
          exact Or.inr ⟨_, h1, Or.inl herr⟩
      · right
        simp only [decFields, bind_err]
        exact Or.inl herr
theorem decVariant_extConv : ∀ (ts : List Ty) (n : Nat) (r r' : R) (v : Val) (q' : R), Ext r r' →
    decVariant ts n r' = .ok (v, q') →
    (∃ q, decVariant ts n r = .ok (v, q) ∧ Ext q q') ∨ decVariant ts n r = .error .delimiterHeader
  | [], _, r, r', v, q', h, hd => by simp [decVariant] at hd
  | t :: _, 0, r, r', v, q', h, hd => by
      simp only [decVariant] at hd ⊢; exact dec_extConv t r r' v q' h hd
  | _ :: ts, n+1, r, r', v, q', h, hd => by
      simp only [decVariant] at hd ⊢; exact decVariant_extConv ts n r r' v q' h hd
end

end Wire
