import Proofs.NamespaceBasic
/-! Lemmas for C15: `parseFileName` inverts `renderFileName`, and accepts only names of the required shape. -/
namespace Ns

theorem splitDots_ne_nil (s : List Char) : splitDots s ≠ [] := by
  induction s with
  | nil => simp [splitDots]
  | cons c cs ih =>
    unfold splitDots
    split
    · simp
    · split <;> simp

theorem splitDots_nodot {a : List Char} (h : '.' ∉ a) : splitDots a = [a] := by
  induction a with
  | nil => rfl
  | cons c cs ih =>
    have hc : c ≠ '.' := fun e => h (by simp [e])
    have hcs : '.' ∉ cs := fun e => h (by simp [e])
    simp [splitDots, hc, ih hcs]

theorem splitDots_append {a b : List Char} (h : '.' ∉ a) : splitDots (a ++ '.' :: b) = a :: splitDots b := by
  induction a with
  | nil => simp [splitDots]
  | cons c cs ih =>
    have hc : c ≠ '.' := fun e => h (by simp [e])
    have hcs : '.' ∉ cs := fun e => h (by simp [e])
    simp [splitDots, hc, ih hcs]

/-- `".".join(parts)` -/
def joinChars : List (List Char) → List Char
  | [] => []
  | [a] => a
  | a :: b :: r => a ++ '.' :: joinChars (b :: r)

theorem joinChars_splitDots (s : List Char) : joinChars (splitDots s) = s := by
  induction s with
  | nil => rfl
  | cons c cs ih =>
    unfold splitDots
    split
    · rename_i hc
      subst hc
      cases hsp : splitDots cs with
      | nil => exact absurd hsp (splitDots_ne_nil cs)
      | cons p ps => rw [hsp] at ih; simp [joinChars, ih]
    · split
      · rename_i p ps hsp
        rw [hsp] at ih
        cases ps with
        | nil => simp [joinChars] at ih ⊢; exact ih
        | cons q qs => simp [joinChars] at ih ⊢; exact ih
      · rename_i hsp; exact absurd hsp (splitDots_ne_nil cs)

theorem nodot_of_mem_splitDots {s p : List Char} (h : p ∈ splitDots s) : '.' ∉ p := by
  induction s generalizing p with
  | nil => simp [splitDots] at h; subst h; simp
  | cons c cs ih =>
    unfold splitDots at h
    split at h
    · cases List.mem_cons.mp h with
      | inl e => subst e; simp
      | inr e => exact ih e
    · rename_i hc
      split at h
      · rename_i q qs hsp
        cases List.mem_cons.mp h with
        | inl e =>
          subst e
          have : '.' ∉ q := ih (by rw [hsp]; simp)
          intro hm
          cases List.mem_cons.mp hm with
          | inl e => exact hc e.symm
          | inr e => exact this e
        | inr e => exact ih (by rw [hsp]; simp [e])
      · rename_i hsp; exact absurd hsp (splitDots_ne_nil cs)

theorem isDigits_toDigits (n : Nat) : isDigits (Nat.toDigits 10 n) = true := by
  unfold isDigits
  simp only [Bool.and_eq_true, Bool.not_eq_true', List.isEmpty_eq_false_iff, List.all_eq_true]
  exact ⟨Nat.toDigits_ne_nil, fun c hc => Nat.isDigit_of_mem_toDigits (by decide) (by decide) hc⟩

theorem parseNat_toDigits (n : Nat) : parseNat (Nat.toDigits 10 n) = some n := by
  simp [parseNat, isDigits_toDigits, Nat.ofDigitChars_ten_toDigits]

theorem nodot_of_isDigits {s : List Char} (h : isDigits s = true) : '.' ∉ s := by
  unfold isDigits at h
  simp only [Bool.and_eq_true, List.all_eq_true] at h
  intro hm
  have := h.2 _ hm
  revert this; decide

theorem nodot_toDigits (n : Nat) : '.' ∉ Nat.toDigits 10 n := nodot_of_isDigits (isDigits_toDigits n)

theorem parseNat_isDigits {s : List Char} {n : Nat} (h : parseNat s = some n) :
    isDigits s = true ∧ n = Nat.ofDigitChars 10 s 0 := by
  unfold parseNat at h
  split at h
  · rename_i hd; cases h; exact ⟨hd, rfl⟩
  · cases h

end Ns
