import Proofs.Reader
/-! Doc comments of the reader model (C03: "with its attached comment"): an abstract doc automaton `DV`, the proof that
    the reader simulates it, and the proof that the doc automaton attaches to every attribute the forward comment run
    that follows its statement. -/
namespace Reader

/-! ### what the source says -/

def joinC (acc t : String) : String := (if acc ≠ "" then acc ++ "\n" else "") ++ cleanComment t

def accLine (acc : String) (l : Line) : String :=
  match l.comment with
  | some t => joinC acc t
  | none => acc

/-- the comment text that belongs to what precedes `rest`: the comments of the following lines up to (excluding) the
    next line that holds a statement or is empty -/
def commentRun (acc : String) : List Line → String
  | [] => acc
  | l :: rest => if l.stmt.isSome || l.textEmpty then acc else commentRun (accLine acc l) rest

/-- the doc of the statement on line `l`: its trailing comment and the comment run that follows -/
def docAfter (l : Line) (rest : List Line) : String := commentRun (accLine "" l) rest

/-- every attribute statement with its doc, in source order -/
def attrDocs : List Line → List (Core × String)
  | [] => []
  | l :: rest =>
    match l.stmt with
    | some (.attr c) => (c, docAfter l rest) :: attrDocs rest
    | _ => attrDocs rest

/-- the header docs of the schemas that start at a `---` -/
def markerDocs : List Line → List String
  | [] => []
  | l :: rest =>
    match l.stmt with
    | some .marker => docAfter l rest :: markerDocs rest
    | _ => markerDocs rest

def isConst (p : Core × String) : Bool := p.1.kind == .const

/-- a line whose text is empty holds neither a statement nor a comment -/
def Line.wf (l : Line) : Prop := l.textEmpty = true → l.stmt = none ∧ l.comment = none

/-! ### the doc automaton -/

structure DS where
  fields : List (Core × String)
  consts : List (Core × String)
  doc : String
  deriving Repr, DecidableEq

structure DV where
  done : List DS
  cur : DS
  pend : Option Core
  comment : String
  header : Bool
  deriving Repr, DecidableEq

def DS.add (d : DS) (c : Core) (doc : String) : DS :=
  match c.kind with
  | .const => { d with consts := d.consts ++ [(c, doc)] }
  | _ => { d with fields := d.fields ++ [(c, doc)] }

def dflush (v : DV) : DV :=
  if v.header then { v with cur := { v.cur with doc := v.comment }, header := false, comment := "" }
  else match v.pend with
    | some c => { v with cur := v.cur.add c v.comment, pend := none, header := false, comment := "" }
    | none => { v with header := false, comment := "" }

/-- the statement visitor: flush, then the builder's handler -/
def dstmt (v : DV) (st : Stmt) : DV :=
  match st with
  | .attr c => { dflush v with pend := some c }
  | .directive .. => dflush v
  | .marker => let f := dflush v; { f with done := f.done ++ [f.cur], cur := ⟨[], [], ""⟩, header := true }

def dstep (v : DV) (l : Line) : DV :=
  let v1 := match l.stmt with
    | none => v
    | some st => dstmt v st
  let v2 := { v1 with comment := accLine v1.comment l }
  if l.textEmpty then dflush v2 else v2

def drun (v : DV) (ls : List Line) : DV := ls.foldl dstep v

def DV.fieldsAll (v : DV) : List (Core × String) := (v.done ++ [v.cur]).flatMap (·.fields)
def DV.constsAll (v : DV) : List (Core × String) := (v.done ++ [v.cur]).flatMap (·.consts)
def DV.docsAll (v : DV) : List String := (v.done ++ [v.cur]).map (·.doc)

def DV.inv (v : DV) : Prop := v.pend.isSome → v.header = false

def pendWith (v : DV) (doc : String) : List (Core × String) :=
  match v.pend with
  | some c => [(c, doc)]
  | none => []

theorem dflush_facts (v : DV) (hi : v.inv) :
    (dflush v).fieldsAll = v.fieldsAll ++ (pendWith v v.comment).filter (fun p => !isConst p) ∧
    (dflush v).constsAll = v.constsAll ++ (pendWith v v.comment).filter isConst ∧
    (dflush v).docsAll = v.done.map (·.doc) ++ [if v.header then v.comment else v.cur.doc] ∧
    (dflush v).pend = none ∧ (dflush v).header = false ∧ (dflush v).comment = "" ∧ (dflush v).done = v.done ∧
    (dflush v).cur.doc = (if v.header then v.comment else v.cur.doc) := by
  unfold dflush
  by_cases hh : v.header = true
  · have hp : v.pend = none := by
      cases hp : v.pend with
      | none => rfl
      | some c => have := hi (by simp [hp]); simp [hh] at this
    simp [hh, hp, DV.fieldsAll, DV.constsAll, DV.docsAll, pendWith]
  · cases hp : v.pend with
    | none => simp [hh, hp, DV.fieldsAll, DV.constsAll, DV.docsAll, pendWith]
    | some c =>
      cases hk : c.kind <;>
        simp [hh, hp, DV.fieldsAll, DV.constsAll, DV.docsAll, pendWith, DS.add, hk, isConst]

/-- the doc automaton attaches the forward comment runs -/
theorem drun_docs (ls : List Line) : ∀ (v : DV), v.inv → (∀ l ∈ ls, l.wf) →
    (dflush (drun v ls)).fieldsAll =
      v.fieldsAll ++ (pendWith v (commentRun v.comment ls)).filter (fun p => !isConst p) ++ (attrDocs ls).filter (fun p => !isConst p) ∧
    (dflush (drun v ls)).constsAll =
      v.constsAll ++ (pendWith v (commentRun v.comment ls)).filter isConst ++ (attrDocs ls).filter isConst ∧
    (dflush (drun v ls)).docsAll =
      v.done.map (·.doc) ++ [if v.header then commentRun v.comment ls else v.cur.doc] ++ markerDocs ls := by
  induction ls with
  | nil =>
    intro v hi _
    obtain ⟨a, b, c, _⟩ := dflush_facts v hi
    simp [drun, commentRun, attrDocs, markerDocs, a, b, c]
  | cons l rest ih =>
    intro v hi hwf
    have hl : l.wf := hwf l (List.mem_cons_self ..)
    have hrest : ∀ x ∈ rest, x.wf := fun x hx => hwf x (List.mem_cons_of_mem _ hx)
    simp only [drun, List.foldl_cons]
    change (dflush (drun (dstep v l) rest)).fieldsAll = _ ∧ (dflush (drun (dstep v l) rest)).constsAll = _ ∧
      (dflush (drun (dstep v l) rest)).docsAll = _
    cases hs : l.stmt with
    | none =>
      by_cases he : l.textEmpty = true
      · -- an empty line: flush now
        have hc : l.comment = none := (hl he).2
        have hv : dstep v l = dflush v := by
          simp [dstep, dstmt, hs, he, accLine, hc]
        obtain ⟨f1, f2, f3, f4, f5, f6, f7, f8⟩ := dflush_facts v hi
        have hi' : (dflush v).inv := by intro h; simp [f4] at h
        obtain ⟨i1, i2, i3⟩ := ih (dflush v) hi' hrest
        rw [hv, i1, i2, i3]
        simp [commentRun, hs, he, attrDocs, markerDocs, f1, f2, f3, f4, f5, f6, f7, f8, pendWith]
      · -- a comment-only or blank-only line: the comment accumulates
        have he' : l.textEmpty = false := by simpa using he
        have hv : dstep v l = { v with comment := accLine v.comment l } := by
          simp [dstep, dstmt, hs, he']
        have hi' : ({ v with comment := accLine v.comment l } : DV).inv := hi
        obtain ⟨i1, i2, i3⟩ := ih _ hi' hrest
        rw [hv, i1, i2, i3]
        simp [commentRun, hs, he', attrDocs, markerDocs, pendWith, DV.fieldsAll, DV.constsAll]
    | some st =>
      have he' : l.textEmpty = false := by
        cases he : l.textEmpty with
        | false => rfl
        | true => have := (hl he).1; rw [hs] at this; cases this
      obtain ⟨f1, f2, f3, f4, f5, f6, f7, f8⟩ := dflush_facts v hi
      cases st with
      | attr c =>
        have hv : dstep v l = { dflush v with pend := some c, comment := accLine "" l } := by
          simp [dstep, dstmt, hs, he', f6]
        have hi' : ({ dflush v with pend := some c, comment := accLine "" l } : DV).inv := by
          intro _; exact f5
        obtain ⟨i1, i2, i3⟩ := ih _ hi' hrest
        rw [hv, i1, i2, i3]
        simp only [commentRun, hs, Option.isSome_some, Bool.true_or, if_true, attrDocs, markerDocs, docAfter]
        refine ⟨?_, ?_, ?_⟩
        · simp only [DV.fieldsAll] at f1 ⊢
          simp only [f7] at f1 ⊢
          rw [f1]
          cases hk : isConst (c, commentRun (accLine "" l) rest) <;> simp [pendWith, hk, List.filter_cons]
        · simp only [DV.constsAll] at f2 ⊢
          simp only [f7] at f2 ⊢
          rw [f2]
          cases hk : isConst (c, commentRun (accLine "" l) rest) <;> simp [pendWith, hk, List.filter_cons]
        · simp [f5, f7]
          simp [DV.docsAll, f7] at f3
          have := f3
          by_cases hh : v.header = true <;> simp_all
      | directive name e text =>
        have hv : dstep v l = { dflush v with comment := accLine "" l } := by
          simp [dstep, dstmt, hs, he', f6]
        have hi' : ({ dflush v with comment := accLine "" l } : DV).inv := by
          intro h; simp [f4] at h
        obtain ⟨i1, i2, i3⟩ := ih _ hi' hrest
        rw [hv, i1, i2, i3]
        simp only [commentRun, hs, Option.isSome_some, Bool.true_or, if_true, attrDocs, markerDocs]
        refine ⟨?_, ?_, ?_⟩
        · simp only [DV.fieldsAll] at f1 ⊢
          rw [f1]; simp [pendWith, f4]
        · simp only [DV.constsAll] at f2 ⊢
          rw [f2]; simp [pendWith, f4]
        · simp [f5, f7]
          simp [DV.docsAll, f7] at f3
          by_cases hh : v.header = true <;> simp_all
      | marker =>
        let f := dflush v
        let nv : DV := ⟨f.done ++ [f.cur], ⟨[], [], ""⟩, f.pend, accLine "" l, true⟩
        have hv : dstep v l = nv := by
          simp [dstep, dstmt, hs, he', f6, nv, f]
        have hi' : nv.inv := by
          intro h; simp [nv, f, f4] at h
        obtain ⟨i1, i2, i3⟩ := ih _ hi' hrest
        have hnf : nv.fieldsAll = (dflush v).fieldsAll := by simp [DV.fieldsAll, nv, f]
        have hnc : nv.constsAll = (dflush v).constsAll := by simp [DV.constsAll, nv, f]
        have hnp : pendWith nv (commentRun nv.comment rest) = [] := by simp [pendWith, nv, f, f4]
        have hnd : nv.done.map (·.doc) = v.done.map (·.doc) ++ [if v.header then v.comment else v.cur.doc] := by
          simp [nv, f, f7, f8]
        rw [hv, i1, i2, i3, hnf, hnc, hnp, hnd, f1, f2]
        simp only [commentRun, hs, Option.isSome_some, Bool.true_or, if_true, attrDocs, markerDocs, docAfter]
        refine ⟨by simp, by simp, ?_⟩
        simp [nv]

/-! ### the reader simulates the doc automaton -/

def Schema.ds (sc : Schema) : DS :=
  ⟨sc.fields.map (fun a => (a.core, a.doc)), sc.consts.map (fun a => (a.core, a.doc)), sc.doc⟩

def St.dv (s : St) : DV := ⟨s.done.map Schema.ds, s.cur.ds, s.pending.map (·.1.core), s.comment, s.header⟩

theorem commitAttr_dv {c k s a bad doc s'} (h : commitAttr c k s a bad doc = .ok s') :
    s'.cur.ds = s.cur.ds.add a.core doc ∧ s'.done = s.done ∧ s'.pending = none ∧ s'.comment = s.comment ∧ s'.header = s.header := by
  unfold commitAttr at h
  split at h
  · simp [raise] at h
  · split at h
    · rename_i hk; cases h; simp [Schema.ds, DS.add, hk]
    · split at h
      · simp [raise] at h
      · rename_i hk _
        cases h
        cases hk' : a.core.kind <;> simp_all [Schema.ds, DS.add]

theorem flush_dv {c k s s'} (h : flush c k s = .ok s') : s'.dv = dflush s.dv := by
  unfold flush at h
  unfold dflush
  by_cases hh : s.header = true
  · rw [if_pos hh] at h; cases h
    simp [St.dv, hh, Schema.ds]
  · rw [if_neg hh] at h
    rw [map_ok] at h
    obtain ⟨s1, h1, h2⟩ := h
    subst h2
    unfold flushAttr at h1
    cases hp : s.pending with
    | none =>
      simp [hp] at h1; subst h1
      simp [St.dv, hh, hp]
    | some p =>
      obtain ⟨a, bad⟩ := p
      simp only [hp] at h1
      obtain ⟨q1, q2, q3, q4, q5⟩ := commitAttr_dv h1
      simp [St.dv, hh, hp, q1, q2, q3]

theorem dflush_idem (v : DV) (hi : v.inv) : dflush (dflush v) = dflush v := by
  obtain ⟨_, _, _, f4, f5, f6, _, _⟩ := dflush_facts v hi
  generalize dflush v = u at *
  unfold dflush
  cases u
  simp_all

theorem dv_inv_iff (s : St) : s.dv.inv ↔ (s.pending.isSome → s.header = false) := by
  simp [DV.inv, St.dv]

theorem dflush_inv (v : DV) (hi : v.inv) : (dflush v).inv := by
  obtain ⟨_, _, _, f4, _⟩ := dflush_facts v hi
  intro h; simp [f4] at h

theorem dstep_inv (v : DV) (l : Line) (hi : v.inv) : (dstep v l).inv := by
  have h1 : ∀ st, (dstmt v st).inv := by
    intro st
    obtain ⟨_, _, _, f4, f5, _⟩ := dflush_facts v hi
    cases st with
    | attr c => intro _; exact f5
    | directive n e t => exact dflush_inv v hi
    | marker => intro h; simp [dstmt, f4] at h
  have h2 : (match l.stmt with | none => v | some st => dstmt v st).inv := by
    cases l.stmt with
    | none => exact hi
    | some st => exact h1 st
  unfold dstep
  simp only
  generalize (match l.stmt with | none => v | some st => dstmt v st) = v1 at h2 ⊢
  have h3 : ({ v1 with comment := accLine v1.comment l } : DV).inv := h2
  by_cases he : l.textEmpty = true
  · rw [if_pos he]; exact dflush_inv _ h3
  · rw [if_neg he]; exact h3

theorem onDirective_dv {c k s name e text s'} (h : onDirective c k s name e text = .ok s') : s'.dv = s.dv := by
  unfold onDirective at h
  repeat' split at h
  all_goals first | (simp [raise] at h; done) | (cases h; rfl)

theorem visitChildren_dv {c k l st s s'} (h : visitChildren c k l st s = .ok s') :
    s'.dv = s.dv ∨ s'.dv = dflush s.dv := by
  unfold visitChildren at h
  split at h
  · simp [raise] at h
  · simp only [bind_ok] at h
    obtain ⟨s1, hs1, s2, hs2, s3, hs3, h⟩ := h
    split at h
    · simp [raise] at h
    · cases h
      have e2 := resolveRefs_ok hs2; subst e2
      obtain ⟨w3, e3⟩ := readDeps_ok hs3
      have e4 : s'.dv = s2.dv := by
        rw [e3]; unfold markOffs; split <;> rfl
      split at hs1
      · right; rw [e4]; exact flush_dv hs1
      · cases hs1; left; exact e4

theorem emitStmt_dv {c k l st s s'} (h : emitStmt c k l st s = .ok s') (hi : s.pending.isSome → s.header = false) :
    s'.dv = dstmt s.dv st := by
  unfold emitStmt at h
  rw [bind_ok] at h
  obtain ⟨s4, h4, h⟩ := h
  have e4 := flush_dv h4
  obtain ⟨p4, _⟩ := flush_ok h4 hi
  split at h
  · simp [raise] at h
  · cases st with
    | attr core =>
      simp only at h
      obtain ⟨q1, q2, q3, q4, q5, q6, q7⟩ := onAttr_ok h p4
      simp only [dstmt]
      rw [← e4]
      simp [St.dv, q1, q2, q3, q5, q7]
    | directive name e text =>
      simp only at h
      simp only [dstmt]
      rw [onDirective_dv h, e4]
    | marker =>
      simp only at h
      have := onMarker_ok h
      subst this
      simp only [dstmt]
      rw [← e4]
      simp [St.dv, Schema.ds, Schema.empty]

theorem stepLine_dv {c k l s s'} (h : stepLine c k s l = .ok s') (hi : s.pending.isSome → s.header = false) :
    s'.dv = dstep s.dv l := by
  unfold stepLine at h
  rw [bind_ok] at h
  obtain ⟨s1, h1, h⟩ := h
  have hiv : s.dv.inv := (dv_inv_iff s).mpr hi
  have e1 : s1.dv = (match l.stmt with | none => s.dv | some st => dstmt s.dv st) := by
    cases hl : l.stmt with
    | none => simp [hl] at h1; subst h1; rfl
    | some st =>
      simp only [hl, visitStmt, bind_ok] at h1
      obtain ⟨s0, h0, h1⟩ := h1
      simp only
      rcases visitChildren_dv h0 with e | e
      · have hi0 : s0.pending.isSome → s0.header = false := (dv_inv_iff s0).mp (by rw [e]; exact hiv)
        rw [emitStmt_dv h1 hi0, e]
      · have hi0 : s0.pending.isSome → s0.header = false := (dv_inv_iff s0).mp (by rw [e]; exact dflush_inv _ hiv)
        rw [emitStmt_dv h1 hi0, e]
        cases st <;> simp [dstmt, dflush_idem _ hiv]
  have e2 : (addLineComment l s1).dv = { s1.dv with comment := accLine s1.dv.comment l } := by
    unfold addLineComment accLine
    cases l.comment <;> rfl
  unfold dstep
  split at h
  · rename_i he
    rw [flush_dv h, e2, e1]
    simp [he]
  · rename_i he
    cases h
    rw [e2, e1]
    simp [he]

theorem runLines_dv {c} (ls : List Line) : ∀ k s s', (s.pending.isSome → s.header = false) → runLines c k s ls = .ok s' →
    s'.dv = drun s.dv ls := by
  induction ls with
  | nil => intro k s s' _ h; simp [runLines] at h; subst h; rfl
  | cons l ls ih =>
    intro k s s' hi h
    simp only [runLines, bind_ok] at h
    obtain ⟨s1, h1, h2⟩ := h
    have e1 := stepLine_dv h1 hi
    have hi1 : s1.pending.isSome → s1.header = false :=
      (dv_inv_iff s1).mp (by rw [e1]; exact dstep_inv _ _ ((dv_inv_iff s).mpr hi))
    rw [ih _ _ _ hi1 h2, e1]
    rfl

/-- an accepted text of well-formed lines: every attribute carries the comment run that follows its statement, every
    schema the comment run at its start -/
theorem readText_docs {c ls w comp w'} (hwf : ∀ l ∈ ls, l.wf) (h : readText c ls w = .ok (comp, w')) :
    comp.schemas.flatMap (fun sc => sc.fields.map fun a => (a.core, a.doc)) = (attrDocs ls).filter (fun p => !isConst p) ∧
    comp.schemas.flatMap (fun sc => sc.consts.map fun a => (a.core, a.doc)) = (attrDocs ls).filter isConst ∧
    comp.schemas.map (·.doc) = commentRun "" ls :: markerDocs ls := by
  unfold readText at h
  split at h
  · simp at h
  · simp only [bind_ok, map_ok] at h
    obtain ⟨s, hs, s', hf, comp', hfin, he⟩ := h
    cases he
    have hinit : (St.init w).pending.isSome → (St.init w).header = false := by simp [St.init]
    have e1 := runLines_dv ls _ _ _ hinit hs
    have e2 := flush_dv hf
    rw [e1] at e2
    have hiv : (St.init w).dv.inv := (dv_inv_iff _).mpr hinit
    obtain ⟨d1, d2, d3⟩ := drun_docs ls (St.init w).dv hiv hwf
    rw [← e2] at d1 d2 d3
    simp only [finalize] at hfin
    split at hfin
    · simp [raise] at hfin
    · cases hfin
      simp only [DV.fieldsAll, DV.constsAll, DV.docsAll, St.dv, Schema.ds, ← List.map_append, List.flatMap_map] at d1 d2 d3
      simp only [List.map_map] at d3
      refine ⟨?_, ?_, ?_⟩
      · rw [show (fun sc : Schema => List.map (fun a => (a.core, a.doc)) sc.fields) = (fun sc => (Schema.ds sc).fields) from rfl]
        simpa [St.init, Schema.ds, Schema.empty, pendWith, List.flatMap_map] using d1
      · rw [show (fun sc : Schema => List.map (fun a => (a.core, a.doc)) sc.consts) = (fun sc => (Schema.ds sc).consts) from rfl]
        simpa [St.init, Schema.ds, Schema.empty, pendWith, List.flatMap_map] using d2
      · simpa [St.init, Schema.ds, Schema.empty, Function.comp_def] using d3

end Reader
