import Proofs.Reader
import Proofs.ReaderPrint
/-! Formatting independence of the reader model (C03).

    `items ls` is the statement sequence of a document: what the statement machine looks at of every line that holds a
    statement (or does not match the grammar) — no comments, no blank / empty lines, no line terminators, no line numbers.
    `aRead` is a *declarative* reading of a statement sequence: every attribute is added the moment its statement is read
    (no queue, no doc comments, no header state), every check is made on what the statements in front say.

    `readText_abs`: for every document whose lines are well formed (`Line.offsWf`), `readText` accepts exactly when `aRead`
    accepts the statement sequence, and then the built model is, up to doc strings, what `aRead` says.  Hence two
    documents with the same statement sequence are interchangeable, whatever their line structure. -/
set_option linter.unusedSimpArgs false
namespace Reader

/-! ### the statement sequence -/

inductive Item where
  /-- a line that does not match the grammar -/
  | syn
  | stmt (st : Stmt) (refs : List String) (deps : List Nat) (offs : Bool) (fault : Option Phase)
  deriving Repr, DecidableEq

def Line.item (l : Line) : Option Item :=
  if l.fault = some .syn then some .syn
  else match l.stmt with
    | some st => some (.stmt st l.refs l.deps l.offs l.fault)
    | none => none

def items (ls : List Line) : List Item := ls.filterMap Line.item

/-- A statement that evaluates `_offset_` does so through an identifier, a reference or a dependency: the visitor has
    flushed before (`visit_identifier`).  In the real grammar `_offset_` *is* an identifier, so every rendered line
    satisfies this; the abstract `Line` type also contains `---` / `voidN` lines with `offs = true`, which no text
    produces. -/
def Line.offsWf (l : Line) : Prop :=
  l.offs = true → ∀ st, l.stmt = some st → (st.hasIdent || !l.refs.isEmpty || !l.deps.isEmpty) = true

instance (l : Line) : Decidable l.offsWf := by unfold Line.offsWf; infer_instance

/-! ### the declarative reading of a statement sequence -/

structure ASt where
  spec : Spec
  /-- `_offset_` has been evaluated in the current schema -/
  offs : Bool
  w : W
  deriving Repr, DecidableEq

def Spec.stepS (a : Spec) (st : Stmt) : Spec :=
  match st with
  | .attr c => { a with cur := a.cur.addAttr c }
  | .marker => { a with done := a.done ++ [a.cur], cur := SegSpec.empty }
  | .directive name e _ =>
    if name = "union" then { a with cur := { a.cur with union := true } }
    else if name = "deprecated" then { a with deprecated := true }
    else if name = "sealed" then { a with cur := { a.cur with mode := a.cur.mode <|> some .sealed } }
    else if name = "extent" then
      match e with
      | some (.rational n) => { a with cur := { a.cur with mode := a.cur.mode <|> some (.extent n) } }
      | _ => a
    else a

theorem Spec.step_eq (a : Spec) (l : Line) :
    a.step l = match l.stmt with | some st => a.stepS st | none => a := by
  unfold Spec.step Spec.stepS
  cases l.stmt with
  | none => rfl
  | some st => cases st <;> rfl

def SegSpec.hasAttrs (g : SegSpec) : Bool := !(g.fields.isEmpty && g.consts.isEmpty)

/-- every referenced definition can be read, one after the other -/
def aDeps (c : Ctx) (w : W) : List Nat → Option W
  | [] => some w
  | j :: js =>
    if c.ndefs ≤ j then none
    else match c.depRead w j with
      | (w', none) => aDeps c w' js
      | (_, some _) => none

/-- may the directive stand here, given what the statements in front say? -/
def dirOk (a : Spec) (name : String) (e : Option EVal) : Bool :=
  if name = "print" then true
  else if name = "assert" then
    match e with
    | some (.boolean true) => true
    | _ => false
  else if name = "extent" then
    if a.cur.mode.isSome then false
    else match e with
      | some (.rational _) => true
      | _ => false
  else if name = "sealed" then !(a.cur.mode.isSome || e.isSome)
  else if name = "union" then !(e.isSome || a.cur.union || a.cur.hasAttrs)
  else if name = "deprecated" then !(e.isSome || a.deprecated || !a.done.isEmpty || a.cur.hasAttrs)
  else false

def aHandler (c : Ctx) (t : ASt) (st : Stmt) : Option ASt :=
  match st with
  | .attr _ => if Mode.isExtent t.spec.cur.mode then none else some { t with spec := t.spec.stepS st }
  | .directive name e text =>
    if dirOk t.spec name e then
      some { t with spec := t.spec.stepS st,
                    w := if name = "print" then { t.w with prints := t.w.prints ++ [⟨c.printFile, 0, text⟩] } else t.w }
    else none
  | .marker => if !t.spec.done.isEmpty then none else some { t with spec := t.spec.stepS st, offs := false }

/-- the constructor of the attribute raises (`commit` fault), or a field follows an evaluated `_offset_` in a union -/
def commitBad (st : Stmt) (fault : Option Phase) (t : ASt) : Bool :=
  match st with
  | .attr core => fault == some .commit || (core.kind != .const && (t.spec.cur.union && t.offs))
  | _ => false

/-- everything of a statement but the `pre` check and the acceptance of a new attribute: references resolve to constants
    in front, the referenced definitions can be read, no fault of the statement itself, the statement may stand here -/
def aBody (c : Ctx) (t : ASt) (st : Stmt) (refs : List String) (deps : List Nat) (offs : Bool) (fault : Option Phase) :
    Option ASt :=
  if !(refs.all fun r => t.spec.cur.consts.any fun k => k.name == r) then none
  else match aDeps c t.w deps with
    | none => none
    | some w' =>
      if fault = some .mid then none
      else if fault = some .emit then none
      else aHandler c { t with offs := t.offs || offs, w := w' } st

def aStep (c : Ctx) (t : ASt) : Item → Option ASt
  | .syn => none
  | .stmt st refs deps offs fault =>
    if fault = some .pre then none
    else match aBody c t st refs deps offs fault with
      | none => none
      | some t4 => if commitBad st fault t4 then none else some t4

def aRun (c : Ctx) : ASt → List Item → Option ASt
  | t, [] => some t
  | t, it :: its => match aStep c t it with
    | none => none
    | some t' => aRun c t' its

def SegSpec.attrNames (g : SegSpec) : List String :=
  ((g.fields ++ g.consts).filter fun a => a.kind != .padding).map (·.name)

/-- the checks of `finalize` that depend on the statement structure: a serialization mode, distinct names, a union has
    at least two variants and no padding -/
def SegSpec.ok (g : SegSpec) : Bool :=
  g.mode.isSome && decide g.attrNames.Nodup &&
    (!g.union || (decide (2 ≤ g.fields.length) && g.fields.all fun a => a.kind != .padding))

/-- the declarative reading of a statement sequence: accepted or not; if accepted, the schemas (fields / paddings and
    constants in source order, flags), the deprecation flag, and the world (cache of the referenced definitions, `@print`
    deliveries — with line 0, a statement sequence has no lines) -/
def aRead (c : Ctx) (its : List Item) (w : W) : Option (List SegSpec × Bool × W) :=
  if Item.syn ∈ its then none
  else match aRun c ⟨Spec.init, false, w⟩ its with
    | none => none
    | some t => if c.finalFault || !(t.spec.schemas.all SegSpec.ok) then none else some (t.spec.schemas, t.spec.deprecated, t.w)

/-! ### worlds and contexts that cannot be told apart -/

/-- `E` is insensitive to the line a `@print` is delivered with -/
def PrintCompat (E : W → W → Prop) : Prop :=
  ∀ w₁ w₂ f k₁ k₂ t, E w₁ w₂ →
    E { w₁ with prints := w₁.prints ++ [⟨f, k₁, t⟩] } { w₂ with prints := w₂.prints ++ [⟨f, k₂, t⟩] }

/-- reading a referenced definition in indistinguishable worlds: the same verdict, and on success indistinguishable
    worlds again -/
def DepSim (E : W → W → Prop) (c₁ c₂ : Ctx) : Prop :=
  c₁.ndefs = c₂.ndefs ∧ c₁.printFile = c₂.printFile ∧ c₁.finalFault = c₂.finalFault ∧
  ∀ w₁ w₂ j, E w₁ w₂ → ((c₁.depRead w₁ j).2 = none ↔ (c₂.depRead w₂ j).2 = none) ∧
    ((c₁.depRead w₁ j).2 = none → E (c₁.depRead w₁ j).1 (c₂.depRead w₂ j).1)

/-! ### flush -/

/-- the queued attribute (if any) will be accepted when it is committed -/
def CommitOk (s : St) : Prop :=
  ∀ a bad, s.pending = some (a, bad) → bad = false ∧ (a.core.kind = .const ∨ (s.cur.union && s.cur.offsetUsed) = false)

/-- the queued attribute will be rejected when it is committed -/
def WillFail (s : St) : Prop :=
  s.header = false ∧ ∃ a bad, s.pending = some (a, bad) ∧ (bad = true ∨ (a.core.kind ≠ .const ∧ (s.cur.union && s.cur.offsetUsed) = true))

theorem flush_of_commitOk (c : Ctx) (k : Nat) {s : St} (hc : CommitOk s) : ∃ s', flush c k s = .ok s' := by
  unfold flush
  split
  · exact ⟨_, rfl⟩
  · unfold flushAttr
    cases hp : s.pending with
    | none => exact ⟨_, rfl⟩
    | some p =>
      obtain ⟨a, bad⟩ := p
      obtain ⟨hb, hk⟩ := hc a bad hp
      subst hb
      simp only [commitAttr]
      rcases hk with hk | hk
      · simp [hk, Except.map]
      · cases hk' : a.core.kind <;> simp [hk, Except.map]

theorem flush_of_willFail (c : Ctx) (k : Nat) {s : St} (hd : WillFail s) : ∃ e, flush c k s = .error e := by
  obtain ⟨hh, a, bad, hp, hb⟩ := hd
  unfold flush
  simp only [hh, flushAttr, hp, commitAttr]
  rcases hb with hb | ⟨hk, hu⟩
  · simp [hb, raise, Except.map]
  · cases bad
    · cases hk' : a.core.kind <;> simp_all [raise, Except.map]
    · simp [raise, Except.map]

theorem flush_noop (c : Ctx) (k : Nat) {s : St} (hp : s.pending = none) (hh : s.header = false) (hc : s.comment = "") :
    flush c k s = .ok s := by
  unfold flush
  simp only [hh, flushAttr, hp, Except.map]
  cases s
  simp_all

theorem commitAttr_offs {c k s a bad doc s'} (h : commitAttr c k s a bad doc = .ok s') :
    s'.cur.offsetUsed = s.cur.offsetUsed := by
  unfold commitAttr at h
  split at h
  · simp [raise] at h
  · split at h
    · cases h; rfl
    · split at h
      · simp [raise] at h
      · cases h; rfl

theorem flush_offs {c k s s'} (h : flush c k s = .ok s') : s'.cur.offsetUsed = s.cur.offsetUsed := by
  unfold flush at h
  split at h
  · cases h; rfl
  · rw [map_ok] at h
    obtain ⟨s1, h1, h2⟩ := h
    subst h2
    unfold flushAttr at h1
    cases hp : s.pending with
    | none => simp [hp] at h1; subst h1; rfl
    | some p =>
      obtain ⟨a, bad⟩ := p
      simp only [hp] at h1
      exact commitAttr_offs (s' := s1) h1

/-! ### a statement, with the flush made first -/

def handler (c : Ctx) (k : Nat) (l : Line) (st : Stmt) (s : St) : M St :=
  match st with
  | .attr core => onAttr c k s core (l.fault == some .commit)
  | .directive name e text => onDirective c k s name e text
  | .marker => onMarker c k s

def body (c : Ctx) (k : Nat) (l : Line) (st : Stmt) (sf : St) : M St :=
  resolveRefs c k sf l.refs >>= fun s2 =>
  readDeps c k (markOffs l s2) l.deps >>= fun s3 =>
  if l.fault = some .mid then raise c s3 (some k)
  else if l.fault = some .emit then raise c s3 (some k)
  else handler c k l st s3

theorem markOffs_facts (l : Line) (s : St) :
    (markOffs l s).pending = s.pending ∧ (markOffs l s).header = s.header ∧ (markOffs l s).comment = s.comment ∧
    (markOffs l s).w = s.w ∧ (markOffs l s).done = s.done ∧ (markOffs l s).deprecated = s.deprecated ∧
    (markOffs l s).cur.view = s.cur.view ∧ (markOffs l s).cur.offsetUsed = (s.cur.offsetUsed || l.offs) := by
  unfold markOffs
  split
  · rename_i h; simp [h, Schema.view]
  · rename_i h; simp [h]

/-- Under `offsWf` the visit of a statement is: the `pre` check, the flush, then everything else on the flushed state. -/
theorem visitStmt_nf {c k l st s sf} (hwf : l.offsWf) (hl : l.stmt = some st) (hf : flush c k s = .ok sf)
    (hi : s.pending.isSome → s.header = false) :
    visitStmt c k l st s = if l.fault = some .pre then raise c s (some k) else body c k l st sf := by
  obtain ⟨p, q, r, _, _, _, hw⟩ := flush_ok hf hi
  unfold visitStmt visitChildren body
  by_cases hpre : l.fault = some .pre
  · simp [hpre, bind, Except.bind, raise]
  · simp only [hpre, if_false]
    by_cases hc : (st.hasIdent || !l.refs.isEmpty || !l.deps.isEmpty) = true
    · rw [if_pos hc, hf]
      cases h2 : resolveRefs c k sf l.refs with
      | error e => simp [bind, Except.bind, h2]
      | ok s2 =>
        have := resolveRefs_ok h2; subst this
        cases h3 : readDeps c k (markOffs l s2) l.deps with
        | error e => simp [bind, Except.bind, h2, h3]
        | ok s3 =>
          obtain ⟨w3, e3⟩ := readDeps_ok h3
          obtain ⟨m1, m2, m3, _⟩ := markOffs_facts l s2
          have hn : flush c k s3 = .ok s3 := by
            apply flush_noop <;> rw [e3] <;> simp [m1, m2, m3, p, q, r]
          by_cases hm : l.fault = some .mid
          · simp [bind, Except.bind, h2, h3, hm, raise]
          · simp [bind, Except.bind, h2, h3, hm, emitStmt, hn, handler]
            cases st <;> rfl
    · rw [if_neg hc]
      simp only [Bool.or_eq_true, not_or, Bool.not_eq_true, Bool.not_eq_false'] at hc
      obtain ⟨⟨h1, h2⟩, h3⟩ := hc
      have hr : l.refs = [] := by simpa using h2
      have hd : l.deps = [] := by simpa using h3
      have ho : l.offs = false := by
        cases ho : l.offs with
        | false => rfl
        | true => have := hwf ho st hl; simp [h1, hr, hd] at this
      have mo : ∀ t : St, markOffs l t = t := by intro t; simp [markOffs, ho]
      simp only [hr, hd, resolveRefs, readDeps, mo, bind, Except.bind]
      by_cases hm : l.fault = some .mid
      · simp [hm, raise, hw]
      · simp [hm, emitStmt, hf, bind, Except.bind, handler]
        cases st <;> rfl

/-! ### the simulation: flat states (nothing queued, just flushed) -/

def Flat (E : W → W → Prop) (s : St) (t : ASt) : Prop :=
  s.pending = none ∧ s.header = false ∧ s.comment = "" ∧ RInv s t.spec ∧ s.cur.offsetUsed = t.offs ∧ E s.w t.w

def Abs (E : W → W → Prop) (s : St) (t : ASt) : Prop :=
  RInv s t.spec ∧ s.cur.offsetUsed = t.offs ∧ E s.w t.w ∧ CommitOk s

theorem RInv_view {s a} (hr : RInv s a) (hp : s.pending = none) :
    s.cur.view = a.cur ∧ s.done.map Schema.view = a.done ∧ s.deprecated = a.deprecated := by
  obtain ⟨_, h1, h2, h3⟩ := hr
  simp only [St.curView, hp] at h2
  exact ⟨h2, h1, h3⟩

theorem resolveRefs_eq (c : Ctx) (k : Nat) (s : St) (rs : List String) :
    resolveRefs c k s rs = if (rs.all fun r => s.cur.consts.any fun a => a.core.name == r) then .ok s else raise c s (some k) := by
  induction rs with
  | nil => simp [resolveRefs]
  | cons r rs ih =>
    unfold resolveRefs
    by_cases h : (s.cur.consts.any fun a => a.core.name == r) = true
    · rw [if_pos h, ih]; simp only [List.all_cons, h, Bool.true_and]
    · rw [if_neg h]; simp only [List.all_cons, Bool.not_eq_true] at h ⊢; simp [h]

theorem readDeps_sim {E : W → W → Prop} {c c' : Ctx} (k : Nat) (hdep : DepSim E c c') : ∀ (js : List Nat) (s : St) (w2 : W), E s.w w2 →
    (∀ s', readDeps c k s js = .ok s' → ∃ w2', aDeps c' w2 js = some w2' ∧ E s'.w w2' ∧ s' = { s with w := s'.w }) ∧
    (∀ e, readDeps c k s js = .error e → aDeps c' w2 js = none) := by
  obtain ⟨hn, _, _, hd⟩ := hdep
  intro js
  induction js with
  | nil =>
    intro s w2 he
    refine ⟨?_, ?_⟩
    · intro s' h; simp [readDeps] at h; subst h; exact ⟨w2, rfl, he, rfl⟩
    · intro e h; simp [readDeps] at h
  | cons j js ih =>
    intro s w2 he
    unfold readDeps aDeps
    by_cases hj : c.ndefs ≤ j
    · have hj' : c'.ndefs ≤ j := by rw [← hn]; exact hj
      rw [if_pos hj, if_pos hj']
      exact ⟨fun s' h => by simp [raise] at h, fun _ _ => rfl⟩
    · have hj' : ¬ c'.ndefs ≤ j := by rw [← hn]; exact hj
      rw [if_neg hj, if_neg hj']
      obtain ⟨h1, h2⟩ := hd s.w w2 j he
      cases hr : c.depRead s.w j with
      | mk w1 o1 =>
        cases hr' : c'.depRead w2 j with
        | mk w1' o1' =>
          rw [hr, hr'] at h1 h2
          simp only at h1 h2
          cases o1 with
          | none =>
            have : o1' = none := h1.mp rfl
            subst this
            simp only
            obtain ⟨i1, i2⟩ := ih { s with w := w1 } w1' (h2 rfl)
            exact ⟨fun s' h => by obtain ⟨w2', a, b, d⟩ := i1 s' h; exact ⟨w2', a, b, by rw [d]⟩, i2⟩
          | some e1 =>
            cases o1' with
            | none => exact absurd (h1.mpr rfl) (by simp)
            | some e1' => exact ⟨fun s' h => by simp at h, fun _ _ => rfl⟩

theorem onDirective_w' {c k s name ev text s'} (h : onDirective c k s name ev text = .ok s') :
    s'.w = (if name = "print" then { s.w with prints := s.w.prints ++ [⟨c.printFile, k, text⟩] } else s.w) ∧
    s'.cur.offsetUsed = s.cur.offsetUsed ∧ s'.pending = s.pending ∧ s'.header = s.header := by
  unfold onDirective at h
  split at h
  · rename_i hn; cases h; simp [hn]
  · rename_i hn
    simp only [hn, if_false]
    repeat' split at h
    all_goals first | (simp [raise] at h; done) | (cases h; exact ⟨rfl, rfl, rfl, rfl⟩)

theorem hasAttrs_view (sc : Schema) : sc.view.hasAttrs = sc.hasAttrs := by
  simp [SegSpec.hasAttrs, Schema.hasAttrs, Schema.view]

theorem onDirective_ok_iff {c k s name e text a} (hv : s.cur.view = a.cur) (hd : s.done.map Schema.view = a.done)
    (hdp : s.deprecated = a.deprecated) :
    (∃ s', onDirective c k s name e text = .ok s') ↔ dirOk a name e = true := by
  have hm : a.cur.mode = s.cur.mode := by rw [← hv]; rfl
  have hu : a.cur.union = s.cur.union := by rw [← hv]; rfl
  have hh : a.cur.hasAttrs = s.cur.hasAttrs := by rw [← hv]; exact hasAttrs_view _
  have he : a.done.isEmpty = s.done.isEmpty := by rw [← hd]; simp
  unfold onDirective dirOk
  rw [hm, hu, hh, he, ← hdp]
  by_cases h1 : name = "print"
  · simp [h1]
  by_cases h2 : name = "assert"
  · simp only [h1, h2, if_false, if_true]
    rcases e with _ | (b | n | _) <;> (try cases b) <;> simp [raise]
  by_cases h3 : name = "extent"
  · simp only [h1, h2, h3, if_false, if_true]
    cases s.cur.mode.isSome <;> rcases e with _ | (b | n | _) <;> simp [raise]
  by_cases h4 : name = "sealed"
  · simp only [h1, h2, h3, h4, if_false, if_true]
    cases s.cur.mode.isSome <;> cases e.isSome <;> simp [raise]
  by_cases h5 : name = "union"
  · simp only [h1, h2, h3, h4, h5, if_false, if_true]
    cases e.isSome <;> cases s.cur.union <;> cases s.cur.hasAttrs <;> simp [raise]
  by_cases h6 : name = "deprecated"
  · simp only [h1, h2, h3, h4, h5, h6, if_false, if_true]
    cases e.isSome <;> cases s.deprecated <;> cases s.done.isEmpty <;> cases s.cur.hasAttrs <;> simp [raise]
  simp [h1, h2, h3, h4, h5, h6, raise]

def Post (E : W → W → Prop) (k : Nat) (l : Line) (st : Stmt) (s4 : St) (t4 : ASt) : Prop :=
  RInv s4 t4.spec ∧ s4.cur.offsetUsed = t4.offs ∧ E s4.w t4.w ∧
  (match st with
   | .attr core => s4.pending = some (⟨core, "", k⟩, l.fault == some .commit) ∧ s4.header = false
   | _ => s4.pending = none)

theorem emitStmt_eq_handler {c k l st s} (hp : s.pending = none) (hh : s.header = false) (hc : s.comment = "")
    (hne : l.fault ≠ some .emit) : emitStmt c k l st s = handler c k l st s := by
  unfold emitStmt handler
  rw [flush_noop c k hp hh hc]
  simp only [bind, Except.bind, hne, if_false]
  cases st <;> rfl

theorem handler_sim {E : W → W → Prop} {c c' : Ctx} {k : Nat} {l : Line} {st : Stmt} {s3 : St} {t3 : ASt}
    (hpf : c.printFile = c'.printFile) (hE : PrintCompat E) (hl : l.stmt = some st) (hne : l.fault ≠ some .emit)
    (hf : Flat E s3 t3) :
    (∀ s4, handler c k l st s3 = .ok s4 → ∃ t4, aHandler c' t3 st = some t4 ∧ Post E k l st s4 t4) ∧
    (∀ e, handler c k l st s3 = .error e → aHandler c' t3 st = none) := by
  obtain ⟨hp, hh, hc, hr, ho, he⟩ := hf
  obtain ⟨hv, hd, hdp⟩ := RInv_view hr hp
  have hrinv : ∀ s4, handler c k l st s3 = .ok s4 → RInv s4 (t3.spec.stepS st) := by
    intro s4 h
    rw [← emitStmt_eq_handler hp hh hc hne] at h
    have := emitStmt_rinv hl h hr
    rw [Spec.step_eq, hl] at this
    exact this
  cases st with
  | attr core =>
    have hm : t3.spec.cur.mode = s3.cur.mode := by rw [← hv]; rfl
    simp only [handler, aHandler, onAttr, hm]
    by_cases hx : Mode.isExtent s3.cur.mode = true
    · rw [if_pos hx, if_pos hx]
      exact ⟨fun s4 h => by simp [raise] at h, fun _ _ => rfl⟩
    · rw [if_neg hx, if_neg hx]
      simp only [flushAttr, hp, Except.map]
      refine ⟨?_, fun e h => by simp at h⟩
      intro s4 h
      have hr4 := hrinv s4 (by simp only [handler, onAttr, if_neg hx, flushAttr, hp, Except.map]; exact h)
      cases h
      exact ⟨_, rfl, hr4, ho, he, rfl, hh⟩
  | directive name e text =>
    simp only [handler, aHandler]
    have hiff := onDirective_ok_iff (c := c) (k := k) (name := name) (e := e) (text := text) hv hd hdp
    cases hx : onDirective c k s3 name e text with
    | error err =>
      have : dirOk t3.spec name e = false := by
        cases hq : dirOk t3.spec name e with
        | false => rfl
        | true => obtain ⟨s', hs'⟩ := hiff.mpr hq; rw [hx] at hs'; cases hs'
      rw [this]
      exact ⟨fun s4 h => (by cases h), fun _ _ => rfl⟩
    | ok s4' =>
      have hq : dirOk t3.spec name e = true := hiff.mp ⟨s4', hx⟩
      rw [hq]
      refine ⟨?_, fun e h => by cases h⟩
      intro s4 h
      cases h
      have hr4 := hrinv s4' (by simp only [handler]; exact hx)
      obtain ⟨w1, w2, w3, _⟩ := onDirective_w' hx
      refine ⟨_, rfl, hr4, by rw [w2]; exact ho, ?_, by rw [w3]; exact hp⟩
      rw [w1]
      by_cases hn : name = "print"
      · simp only [hn, if_true]; rw [hpf]; exact hE _ _ _ _ _ _ he
      · simp only [hn, if_false]; exact he
  | marker =>
    have hde : t3.spec.done.isEmpty = s3.done.isEmpty := by rw [← hd]; simp
    simp only [handler, aHandler, onMarker, hde]
    by_cases hx : (!s3.done.isEmpty) = true
    · rw [if_pos hx, if_pos hx]
      exact ⟨fun s4 h => by simp [raise] at h, fun _ _ => rfl⟩
    · rw [if_neg hx, if_neg hx]
      refine ⟨?_, fun e h => by cases h⟩
      intro s4 h
      have hr4 := hrinv s4 (by simp only [handler, onMarker, if_neg hx]; exact h)
      cases h
      exact ⟨_, rfl, hr4, rfl, he, hp⟩

theorem body_sim {E : W → W → Prop} {c c' : Ctx} {k : Nat} {l : Line} {st : Stmt} {sf : St} {t : ASt}
    (hE : PrintCompat E) (hdep : DepSim E c c') (hl : l.stmt = some st) (hf : Flat E sf t) :
    (∀ s4, body c k l st sf = .ok s4 → ∃ t4, aBody c' t st l.refs l.deps l.offs l.fault = some t4 ∧ Post E k l st s4 t4) ∧
    (∀ e, body c k l st sf = .error e → aBody c' t st l.refs l.deps l.offs l.fault = none) := by
  obtain ⟨hp, hh, hc, hr, ho, he⟩ := hf
  obtain ⟨hv, hd, hdp⟩ := RInv_view hr hp
  have hrefs : (l.refs.all fun r => t.spec.cur.consts.any fun k => k.name == r) =
      (l.refs.all fun r => sf.cur.consts.any fun a => a.core.name == r) := by
    rw [← hv]; simp [Schema.view, List.any_map, Function.comp_def]
  unfold body aBody
  rw [resolveRefs_eq, hrefs]
  by_cases hx : (l.refs.all fun r => sf.cur.consts.any fun a => a.core.name == r) = true
  · simp only [hx, if_true, Bool.not_true, Bool.false_eq_true, if_false]
    obtain ⟨m1, m2, m3, m4, m5, m6, m7, m8⟩ := markOffs_facts l sf
    obtain ⟨d1, d2⟩ := readDeps_sim k hdep l.deps (markOffs l sf) t.w (by rw [m4]; exact he)
    simp only [bind, Except.bind]
    cases hrd : readDeps c k (markOffs l sf) l.deps with
    | error e =>
      rw [d2 e hrd]
      exact ⟨fun s4 h => (by cases h), fun _ _ => rfl⟩
    | ok s3 =>
      obtain ⟨w2', a1, a2, a3⟩ := d1 s3 hrd
      rw [a1]
      simp only []
      by_cases hm : l.fault = some .mid
      · simp only [hm, if_true]
        exact ⟨fun s4 h => by simp [raise] at h, fun _ _ => trivial⟩
      by_cases hem : l.fault = some .emit
      · simp only [hem, if_true, if_false]
        exact ⟨fun s4 h => by simp [raise] at h, fun _ _ => by simp⟩
      simp only [hm, hem, if_false]
      have hf3 : Flat E s3 { t with offs := t.offs || l.offs, w := w2' } := by
        rw [a3]
        refine ⟨by simp [m1, hp], by simp [m2, hh], by simp [m3, hc], ?_, by simp [m8, ho], a2⟩
        obtain ⟨g0, g1, g2, g3⟩ := hr
        refine ⟨by simp [m1, hp], by simp [m5]; exact g1, ?_, by simp [m6]; exact g3⟩
        simp only [St.curView, m1, hp, m7]
        simp only [St.curView, hp] at g2
        exact g2
      exact handler_sim hdep.2.1 hE hl hem hf3
  · simp only [hx, if_false, Bool.not_false, if_true]
    exact ⟨fun s4 h => by simp [bind, Except.bind, raise] at h, fun _ _ => trivial⟩

/-! ### the simulation: one line -/

def tail (c : Ctx) (k : Nat) (l : Line) (s1 : St) : M St :=
  if l.textEmpty then flush c k (addLineComment l s1) else .ok (addLineComment l s1)

theorem stepLine_eq (c : Ctx) (k : Nat) (s : St) (l : Line) :
    stepLine c k s l = (match l.stmt with | some st => visitStmt c k l st s | none => .ok s) >>= tail c k l := rfl

theorem addLineComment_facts (l : Line) (s : St) :
    (addLineComment l s).pending = s.pending ∧ (addLineComment l s).header = s.header ∧ (addLineComment l s).cur = s.cur ∧
    (addLineComment l s).w = s.w := by
  unfold addLineComment
  cases l.comment <;> exact ⟨rfl, rfl, rfl, rfl⟩

theorem abs_comment {E : W → W → Prop} {s t} (l : Line) (h : Abs E s t) : Abs E (addLineComment l s) t := by
  obtain ⟨hr, ho, he, hc⟩ := h
  obtain ⟨a1, a2, a3, a4⟩ := addLineComment_facts l s
  refine ⟨addLineComment_rinv hr, by rw [a3]; exact ho, by rw [a4]; exact he, ?_⟩
  intro a bad hp
  rw [a1] at hp
  rw [a3]
  exact hc a bad hp

theorem abs_flush {E : W → W → Prop} {c k s s' t} (h : Abs E s t) (hf : flush c k s = .ok s') : Flat E s' t := by
  obtain ⟨hr, ho, he, _⟩ := h
  obtain ⟨r1, r2, r3, r4, r5⟩ := flush_rinv hf hr
  exact ⟨r2, r3, r4, r1, by rw [flush_offs hf]; exact ho, by rw [r5]; exact he⟩

theorem flat_abs {E : W → W → Prop} {s t} (h : Flat E s t) : Abs E s t := by
  obtain ⟨hp, _, _, hr, ho, he⟩ := h
  exact ⟨hr, ho, he, fun a bad hq => by rw [hp] at hq; cases hq⟩

theorem tail_abs {E : W → W → Prop} {s1 t} (c : Ctx) (k : Nat) (l : Line) (h : Abs E s1 t) :
    ∃ s', tail c k l s1 = .ok s' ∧ Abs E s' t := by
  have h1 := abs_comment l h
  unfold tail
  by_cases he : l.textEmpty = true
  · rw [if_pos he]
    obtain ⟨s', hs'⟩ := flush_of_commitOk c k h1.2.2.2
    exact ⟨s', hs', flat_abs (abs_flush h1 hs')⟩
  · rw [if_neg he]
    exact ⟨_, rfl, h1⟩

theorem willFail_comment {s} (l : Line) (h : WillFail s) : WillFail (addLineComment l s) := by
  obtain ⟨a1, a2, a3, _⟩ := addLineComment_facts l s
  unfold WillFail
  rw [a1, a2, a3]
  exact h

theorem tail_willFail {c k l s1 s'} (h : WillFail s1) (ht : tail c k l s1 = .ok s') : WillFail s' := by
  unfold tail at ht
  split at ht
  · obtain ⟨e, he⟩ := flush_of_willFail c k (willFail_comment l h)
    rw [he] at ht; cases ht
  · cases ht; exact willFail_comment l h

theorem willFail_visitStmt {c k l st s s'} (h : WillFail s) (hv : visitStmt c k l st s = .ok s') : False := by
  unfold visitStmt at hv
  rw [bind_ok] at hv
  obtain ⟨s3, h3, h4⟩ := hv
  unfold visitChildren at h3
  split at h3
  · simp [raise] at h3
  · simp only [bind_ok] at h3
    obtain ⟨s1, hs1, s2, hs2, s3', hs3', h3⟩ := h3
    split at h3
    · simp [raise] at h3
    · cases h3
      split at hs1
      · obtain ⟨e, he⟩ := flush_of_willFail c k h
        rw [he] at hs1; cases hs1
      · cases hs1
        have e2 := resolveRefs_ok hs2; subst e2
        obtain ⟨w3, e3⟩ := readDeps_ok hs3'
        obtain ⟨m1, m2, _, _, _, _, m7, m8⟩ := markOffs_facts l s2
        have hd3 : WillFail s3 := by
          obtain ⟨hh, a, bad, hp, hb⟩ := h
          rw [e3]
          refine ⟨by simp [m2, hh], a, bad, by simp [m1, hp], ?_⟩
          rcases hb with hb | ⟨hk, hu⟩
          · exact Or.inl hb
          · right
            refine ⟨hk, ?_⟩
            have hun : (markOffs l s2).cur.union = s2.cur.union := by
              have := congrArg SegSpec.union m7; exact this
            simp only [hun, m8]
            simp only [Bool.and_eq_true] at hu ⊢
            exact ⟨hu.1, by simp [hu.2]⟩
        unfold emitStmt at h4
        rw [bind_ok] at h4
        obtain ⟨s4, hs4, _⟩ := h4
        obtain ⟨e, he⟩ := flush_of_willFail c k hd3
        rw [he] at hs4; cases hs4

theorem willFail_stepLine {c k l s s'} (h : WillFail s) (hs : stepLine c k s l = .ok s') : WillFail s' := by
  rw [stepLine_eq, bind_ok] at hs
  obtain ⟨s1, h1, h2⟩ := hs
  cases hl : l.stmt with
  | none => simp only [hl] at h1; cases h1; exact tail_willFail h h2
  | some st => simp only [hl] at h1; exact (willFail_visitStmt h h1).elim

theorem willFail_runLines {c} (ls : List Line) : ∀ k s s', WillFail s → runLines c k s ls = .ok s' → WillFail s' := by
  induction ls with
  | nil => intro k s s' h hr; simp [runLines] at hr; subst hr; exact h
  | cons l ls ih =>
    intro k s s' h hr
    simp only [runLines, bind_ok] at hr
    obtain ⟨s1, h1, h2⟩ := hr
    exact ih _ _ _ (willFail_stepLine h h1) h2

def aStepO (c : Ctx) (t : ASt) : Option Item → Option ASt
  | none => some t
  | some it => aStep c t it

theorem RInv_union {s a} (hr : RInv s a) : a.cur.union = s.cur.union := by
  obtain ⟨_, _, h2, _⟩ := hr
  rw [← h2]
  unfold St.curView
  cases s.pending with
  | none => rfl
  | some p => simp only [SegSpec.addAttr, Schema.view]; cases p.1.core.kind <;> rfl

theorem stepLine_sim {E : W → W → Prop} {c c' : Ctx} {k : Nat} {l : Line} {s : St} {t : ASt}
    (hE : PrintCompat E) (hdep : DepSim E c c') (hwf : l.offsWf) (hsyn : l.fault ≠ some .syn) (ha : Abs E s t) :
    (∀ s', stepLine c k s l = .ok s' →
      (∃ t', aStepO c' t l.item = some t' ∧ Abs E s' t') ∨ (aStepO c' t l.item = none ∧ WillFail s')) ∧
    (∀ e, stepLine c k s l = .error e → aStepO c' t l.item = none) := by
  rw [stepLine_eq]
  cases hl : l.stmt with
  | none =>
    have hi : l.item = none := by simp [Line.item, hsyn, hl]
    simp only [hi, aStepO, bind, Except.bind]
    obtain ⟨s', hs', ha'⟩ := tail_abs c k l ha
    rw [hs']
    exact ⟨fun s'' h => by cases h; exact Or.inl ⟨t, rfl, ha'⟩, fun e h => by cases h⟩
  | some st =>
    have hi : l.item = some (.stmt st l.refs l.deps l.offs l.fault) := by simp [Line.item, hsyn, hl]
    obtain ⟨sf, hsf⟩ := flush_of_commitOk c k ha.2.2.2
    have hflat := abs_flush ha hsf
    simp only [hi, aStepO, aStep]
    rw [visitStmt_nf hwf hl hsf ha.1.1]
    by_cases hpre : l.fault = some .pre
    · simp only [hpre, if_true, bind, Except.bind, raise]
      exact ⟨fun s' h => (by cases h), fun _ _ => trivial⟩
    · simp only [hpre, if_false]
      obtain ⟨b1, b2⟩ := body_sim (k := k) hE hdep hl hflat
      cases hb : body c k l st sf with
      | error e =>
        rw [b2 e hb]
        exact ⟨fun s' h => by simp [bind, Except.bind] at h, fun _ _ => rfl⟩
      | ok s4 =>
        obtain ⟨t4, hb4, hr4, ho4, he4, hp4⟩ := b1 s4 hb
        rw [hb4]
        simp only [bind, Except.bind]
        by_cases hbad : commitBad st l.fault t4 = true
        · -- the new attribute will be rejected
          simp only [hbad, if_true]
          have hd4 : WillFail s4 := by
            cases st with
            | attr core =>
              simp only at hp4
              obtain ⟨hp4, hh4⟩ := hp4
              refine ⟨hh4, _, _, hp4, ?_⟩
              simp only [commitBad, Bool.or_eq_true, Bool.and_eq_true, beq_iff_eq, bne_iff_ne, ne_eq] at hbad
              rcases hbad with hbad | ⟨hk, hu, hof⟩
              · left; simp [hbad]
              · right
                refine ⟨hk, ?_⟩
                rw [RInv_union hr4] at hu
                rw [← ho4] at hof
                simp [hu, hof]
            | directive name e text => simp [commitBad] at hbad
            | marker => simp [commitBad] at hbad
          refine ⟨fun s' h => Or.inr ⟨trivial, tail_willFail hd4 h⟩, fun _ _ => trivial⟩
        · simp only [hbad, if_false]
          have hc4 : CommitOk s4 := by
            intro a bad hq
            cases st with
            | attr core =>
              simp only at hp4
              obtain ⟨hp4, hh4⟩ := hp4
              rw [hp4] at hq
              simp only [Option.some.injEq, Prod.mk.injEq] at hq
              obtain ⟨rfl, rfl⟩ := hq
              simp only [commitBad, Bool.or_eq_true, Bool.and_eq_true, beq_iff_eq, bne_iff_ne, ne_eq, not_or, not_and] at hbad
              obtain ⟨hb1, hb2⟩ := hbad
              refine ⟨by simpa using hb1, ?_⟩
              by_cases hk : core.kind = .const
              · exact Or.inl hk
              · right
                have := hb2 hk
                rw [RInv_union hr4, ← ho4] at this
                cases hu : s4.cur.union <;> simp_all
            | directive name e text => simp only at hp4; rw [hp4] at hq; cases hq
            | marker => simp only at hp4; rw [hp4] at hq; cases hq
          obtain ⟨s', hs', ha'⟩ := tail_abs c k l (⟨hr4, ho4, he4, hc4⟩ : Abs E s4 t4)
          rw [hs']
          exact ⟨fun s'' h => by cases h; exact Or.inl ⟨t4, rfl, ha'⟩, fun e h => by cases h⟩

/-! ### the simulation: all lines, finalize -/

theorem aRun_items_cons (c : Ctx) (t : ASt) (l : Line) (ls : List Line) :
    aRun c t (items (l :: ls)) = match aStepO c t l.item with | none => none | some t' => aRun c t' (items ls) := by
  unfold items
  rw [List.filterMap_cons]
  cases l.item with
  | none => rfl
  | some it => simp only [aRun, aStepO]

theorem runLines_sim {E : W → W → Prop} {c c' : Ctx} (hE : PrintCompat E) (hdep : DepSim E c c') (ls : List Line) :
    ∀ (k : Nat) (s : St) (t : ASt), (∀ l ∈ ls, l.offsWf ∧ l.fault ≠ some .syn) → Abs E s t →
    (∀ s', runLines c k s ls = .ok s' →
      (∃ t', aRun c' t (items ls) = some t' ∧ Abs E s' t') ∨ (aRun c' t (items ls) = none ∧ WillFail s')) ∧
    (∀ e, runLines c k s ls = .error e → aRun c' t (items ls) = none) := by
  induction ls with
  | nil =>
    intro k s t _ ha
    refine ⟨fun s' h => ?_, fun e h => by simp [runLines] at h⟩
    simp [runLines] at h; subst h
    exact Or.inl ⟨t, rfl, ha⟩
  | cons l ls ih =>
    intro k s t hls ha
    have hl := hls l (List.mem_cons_self ..)
    have hrest : ∀ x ∈ ls, x.offsWf ∧ x.fault ≠ some .syn := fun x hx => hls x (List.mem_cons_of_mem _ hx)
    obtain ⟨p1, p2⟩ := stepLine_sim (k := k) hE hdep hl.1 hl.2 ha
    rw [aRun_items_cons]
    simp only [runLines]
    cases hs : stepLine c k s l with
    | error e =>
      rw [p2 e hs]
      exact ⟨fun s' h => by simp [bind, Except.bind] at h, fun _ _ => rfl⟩
    | ok s1 =>
      simp only [bind, Except.bind]
      rcases p1 s1 hs with ⟨t1, ht1, ha1⟩ | ⟨hn, hd1⟩
      · rw [ht1]
        exact ih _ s1 t1 hrest ha1
      · rw [hn]
        refine ⟨fun s' h => Or.inr ⟨rfl, willFail_runLines ls _ _ _ hd1 h⟩, fun _ _ => rfl⟩

theorem attrNames_view (sc : Schema) : sc.view.attrNames = sc.attrNames := by
  simp only [SegSpec.attrNames, Schema.attrNames, Schema.view, ← List.map_append, List.filter_map, List.map_map]
  rfl

theorem ok_view (sc : Schema) : SegSpec.ok sc.view = sc.ok := by
  simp only [SegSpec.ok, Schema.ok, Schema.namesDistinct, attrNames_view]
  simp only [Schema.view, List.length_map, List.all_map]
  rfl

theorem firstSyntaxError_none_iff {ls : List Line} : ∀ k, firstSyntaxError k ls = none ↔ ∀ l ∈ ls, l.fault ≠ some .syn := by
  induction ls with
  | nil => intro k; simp [firstSyntaxError]
  | cons l ls ih =>
    intro k
    simp only [firstSyntaxError]
    by_cases h : l.fault = some .syn
    · simp [h]
    · simp [h, ih]

theorem syn_mem_items {ls : List Line} : Item.syn ∈ items ls ↔ ∃ l ∈ ls, l.fault = some .syn := by
  simp only [items, List.mem_filterMap]
  constructor
  · rintro ⟨l, hl, hi⟩
    refine ⟨l, hl, ?_⟩
    unfold Line.item at hi
    split at hi
    · assumption
    · cases hs : l.stmt <;> simp [hs] at hi
  · rintro ⟨l, hl, hf⟩
    exact ⟨l, hl, by simp [Line.item, hf]⟩

/-- the outcome of `readText` against the declarative reading: both reject, or both accept and the schemas (without
    docs), the deprecation flag and the world agree -/
def ResSim (E : W → W → Prop) : Option (Composite × W) → Option (List SegSpec × Bool × W) → Prop
  | none, none => True
  | some (comp, w₁), some (segs, d, w₂) => comp.schemas.map Schema.view = segs ∧ comp.deprecated = d ∧ E w₁ w₂
  | _, _ => False

theorem Abs_init {E : W → W → Prop} {w w₂ : W} (h : E w w₂) : Abs E (St.init w) ⟨Spec.init, false, w₂⟩ :=
  ⟨RInv_init w, rfl, h, fun a bad hp => by simp [St.init] at hp⟩

/-- `readText` computes the declarative reading of the statement sequence of the document -/
theorem readText_abs {E : W → W → Prop} {c c' : Ctx} (hE : PrintCompat E) (hdep : DepSim E c c') (ls : List Line)
    (hwf : ∀ l ∈ ls, l.offsWf) {w w₂ : W} (hw : E w w₂) :
    ResSim E (okPart (readText c ls w)) (aRead c' (items ls) w₂) := by
  unfold readText aRead
  by_cases hsyn : ∀ l ∈ ls, l.fault ≠ some .syn
  · have h1 : firstSyntaxError 1 ls = none := (firstSyntaxError_none_iff 1).mpr hsyn
    have h2 : ¬ Item.syn ∈ items ls := by
      rw [syn_mem_items]; rintro ⟨l, hl, hf⟩; exact hsyn l hl hf
    rw [h1, if_neg h2]
    simp only
    obtain ⟨r1, r2⟩ := runLines_sim (c := c) (c' := c') hE hdep ls 1 (St.init w) ⟨Spec.init, false, w₂⟩
      (fun l hl => ⟨hwf l hl, hsyn l hl⟩) (Abs_init hw)
    cases hr : runLines c 1 (St.init w) ls with
    | error e =>
      rw [r2 e hr]
      simp [bind, Except.bind, okPart, ResSim]
    | ok s =>
      simp only [bind, Except.bind]
      rcases r1 s hr with ⟨t, ht, ha⟩ | ⟨hn, hd⟩
      · rw [ht]
        obtain ⟨s', hs'⟩ := flush_of_commitOk c (lastLine 1 ls) ha.2.2.2
        obtain ⟨f1, f2, f3, f4, f5, f6⟩ := abs_flush ha hs'
        obtain ⟨hv, hdn, hdp⟩ := RInv_view f4 f1
        rw [hs']
        simp only [finalize]
        have hsch : (s'.done ++ [s'.cur]).map Schema.view = t.spec.schemas := by
          simp [Spec.schemas, hv, hdn]
        have hall : (s'.done ++ [s'.cur]).all Schema.ok = t.spec.schemas.all SegSpec.ok := by
          rw [← hsch, List.all_map]
          congr 1
          funext sc
          exact (ok_view sc).symm
        rw [hall, hdep.2.2.1]
        by_cases hfin : (c'.finalFault || !(t.spec.schemas.all SegSpec.ok)) = true
        · simp [hfin, raise, Except.map, okPart, ResSim]
        · simp only [hfin, if_false, Except.map, okPart, ResSim]
          exact ⟨hsch, hdp, f6⟩
      · rw [hn]
        obtain ⟨e, he⟩ := flush_of_willFail c (lastLine 1 ls) hd
        rw [he]
        simp [okPart, ResSim]
  · have hsyn' : ∃ l ∈ ls, l.fault = some .syn := by
      simpa using hsyn
    have h2 : Item.syn ∈ items ls := syn_mem_items.mpr hsyn'
    rw [if_pos h2]
    cases h1 : firstSyntaxError 1 ls with
    | none => exact absurd ((firstSyntaxError_none_iff 1).mp h1) hsyn
    | some k => simp [okPart, ResSim]

end Reader
