import Proofs.ExprLit
import Mathlib.Algebra.Field.Rat
import Mathlib.Algebra.Order.Field.Power
/-! Real literals as written (point notation and exponent notation, digit separators, either case of the exponent
    letter, optional exponent sign) denote mantissa × 10^exponent exactly. -/
set_option linter.unusedSimpArgs false
set_option linter.unusedVariables false
namespace Ex

/-- the digit characters of a written digit string, separators removed -/
abbrev digitChars (ws : List DigitW) : List Char := ws.map (fun w => digitChar w.d w.upper)

/-- a decimal digit character is none of the other characters a real literal is made of -/
theorem digitChar_real (d : Nat) (u : Bool) (h : d < 10) :
    digitChar d u ≠ '.' ∧ digitChar d u ≠ 'e' ∧ digitChar d u ≠ 'E' ∧ digitChar d u ≠ '+' ∧ digitChar d u ≠ '-' := by
  interval_cases d <;> cases u <;> decide

/-- the exponent-letter test of `decodeReal` -/
abbrev isExpChar : Char → Bool := fun c => c == 'e' || c == 'E'
/-- the decimal-point test of `decodeReal` -/
abbrev isDotChar : Char → Bool := fun c => c == '.'

theorem splitAt1_none (p : Char → Bool) (xs : List Char) (h : ∀ x ∈ xs, p x = false) :
    splitAt1 p xs = (xs, none) := by
  induction xs with
  | nil => rfl
  | cons x xs ih =>
    have hx : p x = false := h x (by simp)
    have ih' := ih (fun y hy => h y (by simp [hy]))
    simp only [splitAt1, hx, Bool.false_eq_true, ↓reduceIte, ih']

theorem splitAt1_some (p : Char → Bool) (xs : List Char) (c : Char) (ys : List Char)
    (h : ∀ x ∈ xs, p x = false) (hc : p c = true) :
    splitAt1 p (xs ++ c :: ys) = (xs, some ys) := by
  induction xs with
  | nil => simp only [List.nil_append, splitAt1, hc, ↓reduceIte]
  | cons x xs ih =>
    have hx : p x = false := h x (by simp)
    have ih' := ih (fun y hy => h y (by simp [hy]))
    simp only [List.cons_append, splitAt1, hx, Bool.false_eq_true, ↓reduceIte, ih']

theorem digitChars_not_exp (ws : List DigitW) (h : ∀ w ∈ ws, w.d < 10) : ∀ c ∈ digitChars ws, isExpChar c = false := by
  intro c hc
  obtain ⟨w, hw, rfl⟩ := List.mem_map.1 hc
  obtain ⟨_, h2, h3, _, _⟩ := digitChar_real w.d w.upper (h w hw)
  simp [isExpChar, h2, h3]

theorem digitChars_not_dot (ws : List DigitW) (h : ∀ w ∈ ws, w.d < 10) : ∀ c ∈ digitChars ws, isDotChar c = false := by
  intro c hc
  obtain ⟨w, hw, rfl⟩ := List.mem_map.1 hc
  obtain ⟨h1, _⟩ := digitChar_real w.d w.upper (h w hw)
  simp [isDotChar, h1]

theorem stripUnderscores_append (xs ys : List Char) :
    stripUnderscores (xs ++ ys) = stripUnderscores xs ++ stripUnderscores ys := by
  simp only [stripUnderscores, List.filter_append]

theorem stripUnderscores_cons_ne (c : Char) (xs : List Char) (h : c ≠ '_') :
    stripUnderscores (c :: xs) = c :: stripUnderscores xs := by
  have : (c != '_') = true := by simp [h]
  simp only [stripUnderscores, List.filter_cons, this, ↓reduceIte]

theorem strip_writeDigits10 (ws : List DigitW) (h : ∀ w ∈ ws, w.d < 10) :
    stripUnderscores (writeDigits ws) = digitChars ws :=
  strip_writeDigits ws (fun w hw => by have := h w hw; omega)

/-- `decodeReal` once the two splits of the separator-free text are known -/
theorem decodeReal_of_splits (cs mant ipc : List Char) (ex fpo : Option (List Char))
    (h1 : splitAt1 isExpChar (stripUnderscores cs) = (mant, ex))
    (h2 : splitAt1 isDotChar mant = (ipc, fpo)) :
    decodeReal cs =
      if (ipc ++ fpo.getD []).length > pyIntMaxDigits then .error (.hazard .intDigitLimit) else
      match digitsVal 10 (ipc ++ fpo.getD []) with
      | none => inval .syntax
      | some m =>
        match (generalizing := false) ex with
        | none => .ok ((m : Rat) / pow10 (fpo.getD []).length)
        | some ('-' :: ed) => (optSyntax (digitsVal 10 ed)).map fun e => (m : Rat) / pow10 (fpo.getD []).length / pow10 e
        | some ('+' :: ed) => (optSyntax (digitsVal 10 ed)).map fun e => (m : Rat) / pow10 (fpo.getD []).length * pow10 e
        | some ed => (optSyntax (digitsVal 10 ed)).map fun e => (m : Rat) / pow10 (fpo.getD []).length * pow10 e := by
  unfold decodeReal
  simp only [h1, h2]
  rfl

/-- the mantissa digits of a literal, integer part then fraction part, evaluate to the numeral they spell -/
theorem mantissa_val (ip fp : List DigitW) (hne : ip ≠ [] ∨ fp ≠ [])
    (hi : ∀ w ∈ ip, w.d < 10) (hf : ∀ w ∈ fp, w.d < 10) :
    digitsVal 10 (digitChars ip ++ digitChars fp) = some (numeral 10 ((ip ++ fp).map (·.d))) := by
  have hne' : ip ++ fp ≠ [] := by
    intro h
    rcases List.append_eq_nil_iff.1 h with ⟨h1, h2⟩
    rcases hne with h | h <;> contradiction
  have hall : ∀ w ∈ ip ++ fp, w.d < 10 := by
    intro w hw
    rcases List.mem_append.1 hw with h | h
    · exact hi w h
    · exact hf w h
  have := digitsVal_written 10 (ip ++ fp) hne' hall (by norm_num)
  simpa only [digitChars, List.map_append] using this

/-- point notation `digits? "." digits` / `digits "."` (at most `pyIntMaxDigits` digits in all): the digits of the
    integer and fraction parts read as one decimal numeral, divided by ten to the number of fraction digits -/
theorem decodeReal_point (ip fp : List DigitW) (hne : ip ≠ [] ∨ fp ≠ [])
    (hi : ∀ w ∈ ip, w.d < 10) (hf : ∀ w ∈ fp, w.d < 10)
    (hlen : ip.length + fp.length ≤ pyIntMaxDigits) :
    decodeReal (writeDigits ip ++ '.' :: writeDigits fp)
      = .ok ((numeral 10 ((ip ++ fp).map (·.d)) : Nat) / ((10 ^ fp.length : Nat) : Rat)) := by
  have hstrip : stripUnderscores (writeDigits ip ++ '.' :: writeDigits fp) = digitChars ip ++ '.' :: digitChars fp := by
    rw [stripUnderscores_append, stripUnderscores_cons_ne _ _ (by decide), strip_writeDigits10 ip hi,
      strip_writeDigits10 fp hf]
  have h1 : splitAt1 isExpChar (stripUnderscores (writeDigits ip ++ '.' :: writeDigits fp))
      = (digitChars ip ++ '.' :: digitChars fp, none) := by
    rw [hstrip]
    apply splitAt1_none
    intro c hc
    rcases List.mem_append.1 hc with h | h
    · exact digitChars_not_exp ip hi c h
    · rcases List.mem_cons.1 h with rfl | h
      · decide
      · exact digitChars_not_exp fp hf c h
  have h2 : splitAt1 isDotChar (digitChars ip ++ '.' :: digitChars fp) = (digitChars ip, some (digitChars fp)) :=
    splitAt1_some _ _ _ _ (digitChars_not_dot ip hi) (by decide)
  rw [decodeReal_of_splits _ _ _ _ _ h1 h2]
  have hl : ¬ ((digitChars ip ++ digitChars fp).length > pyIntMaxDigits) := by
    simp only [digitChars, List.length_append, List.length_map]; omega
  simp only [Option.getD_some, hl, ↓reduceIte, mantissa_val ip fp hne hi hf, pow10, digitChars, List.length_map]

example : decodeReal "1.5".toList = .ok (3/2) := by decide +kernel
example : decodeReal "1.".toList = .ok 1 := by decide +kernel
example : decodeReal ".5".toList = .ok (1/2) := by decide +kernel
example : decodeReal "1_0.2_5".toList = .ok (41/4) := by decide +kernel
/-- the theorem's hypotheses are satisfiable and its left-hand side is a literal of the grammar: `1_0.2_5` -/
example : decodeReal "1_0.2_5".toList = .ok ((1025 : Nat) / ((10 ^ 2 : Nat) : Rat)) :=
  decodeReal_point [⟨1, false, false⟩, ⟨0, true, false⟩] [⟨2, false, false⟩, ⟨5, true, false⟩]
    (by decide) (by decide) (by decide) (by decide)

/-- the characters of the optional exponent sign: none, `+` (`some false`), `-` (`some true`) -/
def signChars : Option Bool → List Char
  | none => []
  | some false => ['+']
  | some true => ['-']

/-- the text of an exponent-notation literal: `digits? ("." digits?)? [eE] [+-]? digits` -/
def writeExpReal (ip fp : List DigitW) (dot : Bool) (E : Char) (sign : Option Bool) (ed : List DigitW) : List Char :=
  writeDigits ip ++ (if dot then '.' :: writeDigits fp else []) ++ E :: signChars sign ++ writeDigits ed

theorem exponent_val (ed : List DigitW) (hne : ed ≠ []) (he : ∀ w ∈ ed, w.d < 10) :
    digitsVal 10 (digitChars ed) = some (numeral 10 (ed.map (·.d))) :=
  digitsVal_written 10 ed hne he (by norm_num)

/-- exponent notation `(point notation | digits) [eE] [+-]? digits` (at most `pyIntMaxDigits` mantissa digits):
    mantissa times (no sign or `+`) or divided by (`-`) ten to the exponent numeral, exactly -/
theorem decodeReal_exp (ip fp : List DigitW) (dot : Bool) (E : Char) (sign : Option Bool) (ed : List DigitW)
    (hE : E = 'e' ∨ E = 'E')
    (hne : ip ≠ [] ∨ (dot = true ∧ fp ≠ []))
    (hdot : dot = false → fp = [])
    (hed : ed ≠ [])
    (hi : ∀ w ∈ ip, w.d < 10) (hf : ∀ w ∈ fp, w.d < 10) (he : ∀ w ∈ ed, w.d < 10)
    (hlen : ip.length + fp.length ≤ pyIntMaxDigits) :
    decodeReal (writeDigits ip ++ (if dot then '.' :: writeDigits fp else []) ++ E :: signChars sign ++ writeDigits ed)
      = .ok (if sign = some true
          then (numeral 10 ((ip ++ fp).map (·.d)) : Nat) / ((10 ^ fp.length : Nat) : Rat)
                / ((10 ^ numeral 10 (ed.map (·.d)) : Nat) : Rat)
          else (numeral 10 ((ip ++ fp).map (·.d)) : Nat) / ((10 ^ fp.length : Nat) : Rat)
                * ((10 ^ numeral 10 (ed.map (·.d)) : Nat) : Rat)) := by
  -- the separator-free text
  have hEus : E ≠ '_' := by rcases hE with rfl | rfl <;> decide
  have hEexp : isExpChar E = true := by rcases hE with rfl | rfl <;> decide
  have hsign : stripUnderscores (signChars sign) = signChars sign := by
    rcases sign with _ | _ | _ <;> decide
  have hmant : stripUnderscores (writeDigits ip ++ (if dot then '.' :: writeDigits fp else []))
      = digitChars ip ++ (if dot then '.' :: digitChars fp else []) := by
    rw [stripUnderscores_append, strip_writeDigits10 ip hi]
    cases dot
    · rfl
    · simp only [↓reduceIte]
      rw [stripUnderscores_cons_ne _ _ (by decide), strip_writeDigits10 fp hf]
  have hstrip : stripUnderscores (writeDigits ip ++ (if dot then '.' :: writeDigits fp else []) ++ E :: signChars sign
        ++ writeDigits ed)
      = (digitChars ip ++ (if dot then '.' :: digitChars fp else [])) ++ E :: (signChars sign ++ digitChars ed) := by
    rw [stripUnderscores_append, stripUnderscores_append, hmant,
      stripUnderscores_cons_ne _ _ hEus, hsign, strip_writeDigits10 ed he]
    simp only [List.append_assoc, List.cons_append]
  -- first split: at the exponent letter
  have hmexp : ∀ c ∈ digitChars ip ++ (if dot then '.' :: digitChars fp else []), isExpChar c = false := by
    intro c hc
    rcases List.mem_append.1 hc with h | h
    · exact digitChars_not_exp ip hi c h
    · cases dot
      · simp at h
      · simp only [↓reduceIte] at h
        rcases List.mem_cons.1 h with rfl | h
        · decide
        · exact digitChars_not_exp fp hf c h
  have h1 := splitAt1_some isExpChar _ E (signChars sign ++ digitChars ed) hmexp hEexp
  rw [← hstrip] at h1
  -- second split: at the decimal point
  have h2 : ∃ fpo, splitAt1 isDotChar (digitChars ip ++ (if dot then '.' :: digitChars fp else []))
      = (digitChars ip, fpo) ∧ fpo.getD [] = digitChars fp := by
    cases dot
    · refine ⟨none, ?_, ?_⟩
      · simp only [Bool.false_eq_true, ↓reduceIte, List.append_nil]
        exact splitAt1_none _ _ (digitChars_not_dot ip hi)
      · rw [hdot rfl]; rfl
    · refine ⟨some (digitChars fp), ?_, rfl⟩
      simp only [↓reduceIte]
      exact splitAt1_some _ _ _ _ (digitChars_not_dot ip hi) (by decide)
  obtain ⟨fpo, h2, hfpo⟩ := h2
  have hne' : ip ≠ [] ∨ fp ≠ [] := by
    rcases hne with h | ⟨_, h⟩
    · exact Or.inl h
    · exact Or.inr h
  rw [decodeReal_of_splits _ _ _ _ _ h1 h2, hfpo]
  have hl : ¬ ((digitChars ip ++ digitChars fp).length > pyIntMaxDigits) := by
    simp only [digitChars, List.length_append, List.length_map]; omega
  simp only [hl, ↓reduceIte, mantissa_val ip fp hne' hi hf]
  have hev := exponent_val ed hed he
  rcases sign with _ | _ | _
  · -- no sign: the first exponent digit is neither '-' nor '+'
    cases ed with
    | nil => exact absurd rfl hed
    | cons w ws =>
      obtain ⟨_, _, _, hp, hm⟩ := digitChar_real w.d w.upper (he w (by simp))
      simp only [signChars, List.nil_append, digitChars, List.map_cons] at hev ⊢
      split
      · rename_i heq; simp at heq
      · rename_i heq; simp only [Option.some.injEq, List.cons.injEq] at heq; exact absurd heq.1 hm
      · rename_i heq; simp only [Option.some.injEq, List.cons.injEq] at heq; exact absurd heq.1 hp
      · rename_i heq
        simp only [Option.some.injEq] at heq
        subst heq
        simp [hev, optSyntax, Except.map, pow10]
  · simp [signChars, hev, optSyntax, Except.map, pow10]
  · simp [signChars, hev, optSyntax, Except.map, pow10]

example : decodeReal ".5e-3".toList = .ok (1/2000) := by decide +kernel
example : decodeReal "1e10".toList = .ok 10000000000 := by decide +kernel
example : decodeReal "1.e+1".toList = .ok 10 := by decide +kernel
example : decodeReal "1_0.2_5E+0_3".toList = .ok 10250 := by decide +kernel
/-- the theorem's hypotheses are satisfiable and its left-hand side is a literal of the grammar: `1_0.2_5E+0_3` -/
example : decodeReal "1_0.2_5E+0_3".toList
    = .ok ((1025 : Nat) / ((10 ^ 2 : Nat) : Rat) * ((10 ^ 3 : Nat) : Rat)) :=
  decodeReal_exp [⟨1, false, false⟩, ⟨0, true, false⟩] [⟨2, false, false⟩, ⟨5, true, false⟩] true 'E' (some false)
    [⟨0, false, false⟩, ⟨3, true, false⟩]
    (by decide) (by decide) (by decide) (by decide) (by decide) (by decide) (by decide) (by decide)
/-- `.5e-3` -/
example : decodeReal ".5e-3".toList = .ok ((5 : Nat) / ((10 ^ 1 : Nat) : Rat) / ((10 ^ 3 : Nat) : Rat)) :=
  decodeReal_exp [] [⟨5, false, false⟩] true 'e' (some true) [⟨3, false, false⟩]
    (by decide) (by decide) (by decide) (by decide) (by decide) (by decide) (by decide) (by decide)
/-- `1e10` -/
example : decodeReal "1e10".toList = .ok ((1 : Nat) / ((10 ^ 0 : Nat) : Rat) * ((10 ^ 10 : Nat) : Rat)) :=
  decodeReal_exp [⟨1, false, false⟩] [] false 'e' none [⟨1, false, false⟩, ⟨0, false, false⟩]
    (by decide) (by decide) (by decide) (by decide) (by decide) (by decide) (by decide) (by decide)

/-- the same value in scientific form: mantissa × 10^(±exponent − number of fraction digits), an integer power of ten -/
theorem decodeReal_exp_zpow (ip fp : List DigitW) (dot : Bool) (E : Char) (sign : Option Bool) (ed : List DigitW)
    (hE : E = 'e' ∨ E = 'E')
    (hne : ip ≠ [] ∨ (dot = true ∧ fp ≠ []))
    (hdot : dot = false → fp = [])
    (hed : ed ≠ [])
    (hi : ∀ w ∈ ip, w.d < 10) (hf : ∀ w ∈ fp, w.d < 10) (he : ∀ w ∈ ed, w.d < 10)
    (hlen : ip.length + fp.length ≤ pyIntMaxDigits) :
    decodeReal (writeDigits ip ++ (if dot then '.' :: writeDigits fp else []) ++ E :: signChars sign ++ writeDigits ed)
      = .ok ((numeral 10 ((ip ++ fp).map (·.d)) : Rat)
          * (10 : Rat) ^ ((if sign = some true then - (numeral 10 (ed.map (·.d)) : Int) else (numeral 10 (ed.map (·.d)) : Int))
                - (fp.length : Int))) := by
  rw [decodeReal_exp ip fp dot E sign ed hE hne hdot hed hi hf he hlen]
  congr 1
  have h10 : (10 : Rat) ≠ 0 := by norm_num
  split
  · rw [sub_eq_add_neg, zpow_add₀ h10, zpow_neg, zpow_neg, zpow_natCast, zpow_natCast]
    push_cast
    rw [div_eq_mul_inv, div_eq_mul_inv, mul_assoc, mul_comm ((10:Rat) ^ fp.length)⁻¹]
  · rw [sub_eq_add_neg, zpow_add₀ h10, zpow_neg, zpow_natCast, zpow_natCast]
    push_cast
    rw [div_eq_mul_inv, mul_assoc, mul_comm ((10:Rat) ^ fp.length)⁻¹]

/-- point notation in the same form -/
theorem decodeReal_point_zpow (ip fp : List DigitW) (hne : ip ≠ [] ∨ fp ≠ [])
    (hi : ∀ w ∈ ip, w.d < 10) (hf : ∀ w ∈ fp, w.d < 10)
    (hlen : ip.length + fp.length ≤ pyIntMaxDigits) :
    decodeReal (writeDigits ip ++ '.' :: writeDigits fp)
      = .ok ((numeral 10 ((ip ++ fp).map (·.d)) : Rat) * (10 : Rat) ^ (- (fp.length : Int))) := by
  rw [decodeReal_point ip fp hne hi hf hlen]
  congr 1
  rw [zpow_neg, zpow_natCast]
  push_cast
  rw [div_eq_mul_inv]

end Ex
