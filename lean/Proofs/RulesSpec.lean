import Proofs.RulesKernel
import Proofs.RulesBuilder
/-! The declarative static rules of C05 (`Spec`) and their equivalence with the checks of `Model/Rules.lean`. -/
namespace Rules
namespace Spec

/-- legal bit widths: 1..64, signed ≥ 2 and never truncated, float 16/32/64 -/
def WidthOk : Scalar → Prop
  | .uint w _ => 1 ≤ w ∧ w ≤ 64
  | .int w c => 2 ≤ w ∧ w ≤ 64 ∧ c = .saturated
  | .float w _ => w = 16 ∨ w = 32 ∨ w = 64
  | .void w => 1 ≤ w ∧ w ≤ 64
  | _ => True

/-- … and array capacity ≥ 1; the implicit length field of a variable-length array is an unsigned integer of a legal width
    (8/16/32/64 bits), i.e. its capacity is below 2^64 -/
def TypeOk : Ty → Prop
  | .scalar s => WidthOk s
  | .fixedArr e cap => WidthOk e ∧ 1 ≤ cap
  | .varArr e cap => WidthOk e ∧ 1 ≤ cap ∧ cap < 2 ^ 64

/-- a constant is of a boolean, integer or float type -/
def ConstTypeOk : Ty → Prop
  | .scalar (.void _) => False
  | .scalar (.comp _) => False
  | .scalar _ => True
  | _ => False

/-- the rules an attribute statement has to obey by itself -/
def AttrOk : RStmt → Prop
  | .field t n => TypeOk t ∧ (∀ w, t ≠ .scalar (.void w)) ∧ NameOk n
  | .padding w => 1 ≤ w ∧ w ≤ 64
  | .const t n => TypeOk t ∧ ConstTypeOk t ∧ NameOk n
  | _ => True

/-- void only as structure padding, utf8 only as element of variable-length arrays, byte only as array element,
    a deprecated type only inside a deprecated one — also through arrays -/
def PlaceOk (t : Ty) (union deprecated : Bool) : Prop :=
  match t with
  | .scalar (.void _) => union = false
  | .scalar .utf8 => False
  | .scalar .byte => False
  | .scalar (.comp i) => i.deprecated = true → deprecated = true
  | .scalar _ => True
  | .fixedArr (.void _) _ => False
  | .fixedArr .utf8 _ => False
  | .fixedArr (.comp i) _ => i.deprecated = true → deprecated = true
  | .fixedArr _ _ => True
  | .varArr (.void _) _ => False
  | .varArr (.comp i) _ => i.deprecated = true → deprecated = true
  | .varArr _ _ => True

/-- where a statement may stand, given the statements in front of it -/
def StmtOk (pre : List RStmt) (st : RStmt) : Prop :=
  match st with
  | .field .. | .padding .. | .const .. => AttrOk st ∧ ∀ x ∈ lastSeg pre, x.isExtentStmt = false
  | .union => RStmt.union ∉ lastSeg pre ∧ ∀ x ∈ lastSeg pre, x.isAttr = false
  | .deprecated => RStmt.deprecated ∉ pre ∧ RStmt.marker ∉ pre ∧ ∀ x ∈ pre, x.isAttr = false
  | .sealed | .extent _ => ∀ x ∈ lastSeg pre, x.isMode = false
  | .marker => RStmt.marker ∉ pre

def NameRule (comps : List String) : Prop :=
  2 ≤ comps.length ∧ (fullName comps).length ≤ 255 ∧ ∀ c ∈ comps, NameOk c

def longest (sc : RSchema) : Nat :=
  let fields := (sc.attrs.filter RAttr.isField).map RAttr.ty
  if sc.union then unionMax fields else structMax fields

structure SchemaValid (comps : List String) (deprecated : Bool) (sc : RSchema) : Prop where
  typeName : NameRule comps
  uniqueNames : ((sc.attrs.map RAttr.name).filter (· ≠ "")).Nodup
  placement : ∀ a ∈ sc.attrs, PlaceOk a.ty sc.union deprecated
  unionArity : sc.union = true → 2 ≤ (sc.attrs.filter RAttr.isField).length
  mode : sc.mode = some .sealed ∨ ∃ e, sc.mode = some (.extent e) ∧ e % 8 = 0 ∧ (longest sc : Int) ≤ e

def VersionOk (major minor : Nat) : Prop := major ≤ 255 ∧ minor ≤ 255 ∧ ¬ (major = 0 ∧ minor = 0)

def Regulated (service : Bool) (root : String) (p : Nat) : Prop :=
  let std := root = "uavcan" ∨ root = "cyphal"
  if service then (std → 384 ≤ p ∧ p ≤ 511) ∧ (¬ std → 256 ≤ p ∧ p ≤ 383)
  else (std → 7168 ≤ p ∧ p ≤ 8191) ∧ (¬ std → 6144 ≤ p ∧ p ≤ 7167)

def PortOk (h : Header) (service : Bool) : Prop :=
  ∀ p, h.port = some p → (if service then p ≤ 511 else p ≤ 8191) ∧ (h.allowUnregulated = false → Regulated service (h.ns.headD "") p)

end Spec

open Spec

theorem Scalar.ctorOk_iff (s : Scalar) : s.ctorOk = true ↔ WidthOk s := by
  cases s with
  | int w c =>
    simp only [Scalar.ctorOk, WidthOk, Bool.and_eq_true, decide_eq_true_eq, beq_iff_eq]
    constructor
    · rintro ⟨⟨⟨_, h2⟩, h3⟩, h4⟩; exact ⟨h3, h2, h4⟩
    · rintro ⟨h1, h2, h3⟩; exact ⟨⟨⟨by omega, h2⟩, h1⟩, h3⟩
  | float w c =>
    simp only [Scalar.ctorOk, WidthOk, Bool.and_eq_true, Bool.or_eq_true, decide_eq_true_eq, beq_iff_eq]
    constructor
    · rintro ⟨_, h⟩; omega
    · intro h; exact ⟨by omega, by omega⟩
  | _ => simp [Scalar.ctorOk, WidthOk]

theorem Ty.ctorOk_iff (t : Ty) : t.ctorOk = true ↔ TypeOk t := by
  cases t <;> simp [Ty.ctorOk, TypeOk, Scalar.ctorOk_iff, and_assoc]

theorem attrCtorOk_iff (st : RStmt) : attrCtorOk st = true ↔ AttrOk st := by
  cases st with
  | field t n =>
    simp only [attrCtorOk, AttrOk, Bool.and_eq_true, Ty.ctorOk_iff]
    cases t with
    | scalar s => cases s <;> simp [checkName_iff]
    | fixedArr e c => simp [checkName_iff]
    | varArr e c => simp [checkName_iff]
  | padding w => simp [attrCtorOk, AttrOk, Scalar.ctorOk]
  | const t n =>
    simp only [attrCtorOk, AttrOk, Bool.and_eq_true, Ty.ctorOk_iff]
    cases t with
    | scalar s => cases s <;> simp [checkName_iff, ConstTypeOk]
    | fixedArr e c => simp [ConstTypeOk]
    | varArr e c => simp [ConstTypeOk]
  | _ => simp [attrCtorOk, AttrOk]

theorem Ty.aggOk_iff (t : Ty) (union deprecated : Bool) :
    t.aggOk (if union then .union deprecated else .structure deprecated) = true ↔ PlaceOk t union deprecated := by
  cases union <;> cases deprecated <;> cases t with
  | scalar s => cases s <;> simp [Ty.aggOk, Scalar.aggOk, baseAgg, Agg.deprecated, PlaceOk, Scalar.deprecated]
  | fixedArr e c => cases e <;> simp [Ty.aggOk, Scalar.aggOk, baseAgg, Agg.deprecated, PlaceOk, Scalar.deprecated]
  | varArr e c => cases e <;> simp [Ty.aggOk, Scalar.aggOk, baseAgg, Agg.deprecated, PlaceOk, Scalar.deprecated]

theorem namesUnique_iff (names : List String) : namesUnique names = true ↔ (names.filter (· ≠ "")).Nodup := by
  induction names with
  | nil => simp [namesUnique]
  | cons n rest ih =>
    simp only [namesUnique, Bool.and_eq_true, ih]
    by_cases hn : n = ""
    · subst hn; simp
    · simp only [List.filter_cons, ne_eq, hn, not_false_eq_true, decide_true, if_true, List.nodup_cons, List.mem_filter]
      simp [hn]

theorem versionOk_iff (a b : Nat) : versionOk a b = true ↔ VersionOk a b := by
  simp [versionOk, VersionOk]; omega

theorem regulatedOk_iff (service : Bool) (root : String) (p : Nat) :
    regulatedOk service root p = true ↔ Regulated service root p := by
  unfold regulatedOk Regulated standardRoot
  by_cases h1 : root = "uavcan" <;> by_cases h2 : root = "cyphal" <;> cases service <;> simp [h1, h2]

theorem portOk_iff (h : Header) (service : Bool) : portOk h service = true ↔ PortOk h service := by
  unfold portOk PortOk
  cases hp : h.port with
  | none => simp
  | some p =>
    simp only [Option.some.injEq, forall_eq', Bool.and_eq_true, Bool.or_eq_true, regulatedOk_iff]
    cases service <;> cases h.allowUnregulated <;> simp

theorem compositeNameOk_iff (comps : List String) : compositeNameOk comps = true ↔ NameRule comps := by
  simp [compositeNameOk, NameRule, List.all_eq_true, checkName_iff, and_assoc]

theorem schemaOk_iff (comps : List String) (deprecated : Bool) (sc : RSchema) :
    schemaOk comps deprecated sc = true ↔ SchemaValid comps deprecated sc := by
  unfold schemaOk
  simp only [Bool.and_eq_true, compositeNameOk_iff, namesUnique_iff, List.all_eq_true]
  have hagg : (∀ a ∈ sc.attrs, a.ty.aggOk (if sc.union = true then .union deprecated else .structure deprecated) = true) ↔
      ∀ a ∈ sc.attrs, PlaceOk a.ty sc.union deprecated := by
    constructor <;> intro h a ha <;> have := h a ha <;> rw [Ty.aggOk_iff] at * <;> exact this
  have harity : ((!sc.union || decide (2 ≤ ((sc.attrs.filter RAttr.isField).map RAttr.ty).length)) = true) ↔
      (sc.union = true → 2 ≤ (sc.attrs.filter RAttr.isField).length) := by
    cases sc.union <;> simp
  have hmode : ((match sc.mode with
      | none => false
      | some .sealed => true
      | some (.extent e) =>
          decide (e % 8 = 0) && decide (((if sc.union = true then unionMax ((sc.attrs.filter RAttr.isField).map RAttr.ty)
            else structMax ((sc.attrs.filter RAttr.isField).map RAttr.ty) : Nat) : Int) ≤ e)) = true) ↔
      (sc.mode = some .sealed ∨ ∃ e, sc.mode = some (.extent e) ∧ e % 8 = 0 ∧ (longest sc : Int) ≤ e) := by
    cases hm : sc.mode with
    | none => simp
    | some m => cases m <;> simp [longest]
  constructor
  · rintro ⟨⟨⟨⟨h1, h2⟩, h3⟩, h4⟩, h5⟩
    exact ⟨h1, h2, hagg.mp h3, harity.mp h4, hmode.mp h5⟩
  · rintro ⟨h1, h2, h3, h4, h5⟩
    exact ⟨⟨⟨⟨h1, h2⟩, hagg.mpr h3⟩, harity.mpr h4⟩, hmode.mpr h5⟩

theorem admissible_iff (pre : List RStmt) (st : RStmt) : admissible pre st = true ↔ StmtOk pre st := by
  cases st <;>
    simp [admissible, StmtOk, attrCtorOk_iff, List.any_eq_false, List.any_eq_true, List.contains_iff_mem, and_assoc]

end Rules
