import Model.Expr
/-! Round trip of the token-level printer through the PEG parser: `parseTokens (toks e) = some e`. -/
set_option linter.unusedSimpArgs false
set_option linter.unusedVariables false
namespace Ex

/-- level of a token as a binary (or attribute) operator that may continue an expression -/
def binLevel : Tok → Option Nat
  | .sym s => match s with
    | .oror | .andand => some 0
    | .eqeq | .neq | .le | .ge | .lt | .gt => some 2
    | .bar | .caret | .amp => some 3
    | .plus | .minus => some 4
    | .star | .slash | .percent => some 5
    | .starstar => some 7
    | .bang => none
  | .dot => some 8
  | _ => none

/-- `stops k rest`: the first token of `rest` cannot continue an expression parsed at level `k` or above -/
def stops (k : Nat) : List Tok → Prop
  | [] => True
  | t :: _ => match binLevel t with
    | some j => j < k
    | none => True

theorem stops_mono {k k' : Nat} {rest : List Tok} (h : stops k rest) (hk : k ≤ k') : stops k' rest := by
  cases rest with
  | nil => trivial
  | cons t r =>
    simp only [stops] at h ⊢
    cases hb : binLevel t with
    | none => simp
    | some j => simp only [hb] at h ⊢; omega

/-- there is no binary operator of level 6 -/
theorem stops_7_6 {rest : List Tok} (h : stops 7 rest) : stops 6 rest := by
  cases rest with
  | nil => trivial
  | cons t r =>
    simp only [stops] at h ⊢
    cases t with
    | sym s => cases s <;> simp_all [binLevel]
    | _ => simp_all [binLevel]

def isChain (k : Nat) : Prop := k = 0 ∨ k = 2 ∨ k = 3 ∨ k = 4 ∨ k = 5

theorem chainOp_level {k : Nat} {s : Sym} {op : BinOp} (h : chainOp k s = some op) : binLevel (.sym s) = some k := by
  cases s <;> simp [chainOp] at h <;> (first | (obtain ⟨rfl, _⟩ := h; rfl) | (split at h <;> simp_all [binLevel]))

theorem chainOp_sym (op : BinOp) (h : op ≠ .pow) : chainOp op.level op.sym = some op := by
  cases op <;> first | rfl | exact absurd rfl h

theorem binLevel_sym (op : BinOp) : binLevel (.sym op.sym) = some op.level := by cases op <;> rfl

/-! ### one-step unfoldings of the parser (all by `rfl`) -/

theorem parse_chain (f k : Nat) (ts : List Tok) (hk : isChain k) :
    parse (f+1) k ts = match parse f (k+1) ts with | none => none | some (e, r) => chainLoop f k e r := by
  rcases hk with rfl | rfl | rfl | rfl | rfl <;> rfl

theorem parse_l1 (f : Nat) (ts : List Tok) : parse (f+1) 1 ts = match ts with
    | .sym .bang :: r => (match parse f 1 r with | some (e, r') => some (.un .not e, r') | none => parse f 2 ts)
    | _ => parse f 2 ts := by rfl

theorem parse_l6 (f : Nat) (ts : List Tok) : parse (f+1) 6 ts = match ts with
    | .sym .plus :: r => (match parse f 7 r with | some (e, r') => some (.un .pos e, r') | none => parse f 7 ts)
    | .sym .minus :: r => (match parse f 7 r with | some (e, r') => some (.un .neg e, r') | none => parse f 7 ts)
    | _ => parse f 7 ts := by rfl

theorem parse_l7 (f : Nat) (ts : List Tok) : parse (f+1) 7 ts = match parse f 8 ts with
    | none => none
    | some (e, .sym .starstar :: r) =>
        (match parse f 6 r with
        | some (x, r') => some (.bin .pow e x, r')
        | none => some (e, .sym .starstar :: r))
    | some (e, r) => some (e, r) := by rfl

theorem parse_l8 (f : Nat) (ts : List Tok) : parse (f+1) 8 ts = match parse f 9 ts with
    | none => none
    | some (e, r) => attrLoop f e r := by rfl

theorem parse_l9 (f : Nat) (ts : List Tok) : parse (f+1) 9 ts = match ts with
    | .lp :: r =>
        (match parse f 0 r with
        | some (e, .rp :: r') => some (e, r')
        | _ => none)
    | .lb :: r =>
        (match parseList f r with
        | (es, .rb :: r') => some (.setLit es, r')
        | _ => none)
    | .lit l :: r => some (.lit l, r)
    | .id s :: r => some (.ident s, r)
    | _ => none := by rfl

theorem chainLoop_eq (f k : Nat) (acc : Expr) (ts : List Tok) : chainLoop (f+1) k acc ts = match ts with
    | .sym s :: r =>
        (match chainOp k s with
        | none => some (acc, ts)
        | some op =>
            match parse f (k+1) r with
            | some (x, r') => chainLoop f k (.bin op acc x) r'
            | none => some (acc, ts))
    | _ => some (acc, ts) := by rfl

theorem attrLoop_eq (f : Nat) (acc : Expr) (ts : List Tok) : attrLoop (f+1) acc ts = match ts with
    | .dot :: .id n :: r => attrLoop f (.attr acc n) r
    | _ => some (acc, ts) := by rfl

theorem parseList_eq (f : Nat) (ts : List Tok) : parseList (f+1) ts = match parse f 0 ts with
    | none => ([], ts)
    | some (e, r) => listLoop f [e] r := by rfl

theorem listLoop_eq (f : Nat) (acc : List Expr) (ts : List Tok) : listLoop (f+1) acc ts = match ts with
    | .comma :: r =>
        (match parse f 0 r with
        | some (e, r') => listLoop f (acc ++ [e]) r'
        | none => (acc, ts))
    | _ => (acc, ts) := by rfl

theorem chainLoop_stops (f k : Nat) (acc : Expr) (rest : List Tok) (h : stops k rest) :
    chainLoop (f+1) k acc rest = some (acc, rest) := by
  rw [chainLoop_eq]
  cases rest with
  | nil => rfl
  | cons t r =>
    cases t with
    | sym s =>
      cases hc : chainOp k s with
      | none => simp [hc]
      | some op =>
        have := chainOp_level hc
        simp only [stops, this] at h
        omega
    | _ => rfl

theorem attrLoop_stops (f : Nat) (acc : Expr) (rest : List Tok) (h : stops 8 rest) :
    attrLoop (f+1) acc rest = some (acc, rest) := by
  rw [attrLoop_eq]
  cases rest with
  | nil => rfl
  | cons t r =>
    cases t with
    | dot => simp [stops, binLevel] at h
    | _ => rfl

/-- head of a token list is none of the prefix operators of the levels in `[k, j)` -/
def headFree (k j : Nat) : List Tok → Prop
  | [] => True
  | t :: _ => (k ≤ 1 → 1 < j → t ≠ .sym .bang) ∧ (k ≤ 6 → 6 < j → t ≠ .sym .plus ∧ t ≠ .sym .minus)

/-- one level up in the rule layering: the rule of level `k` delegates to level `k+1` and then finds nothing to add -/
theorem climb1 (f k : Nat) (ts : List Tok) (e : Expr) (rest : List Tok) (hk : k ≤ 8) (hf : 1 ≤ f)
    (hp : parse f (k+1) ts = some (e, rest)) (hh : headFree k (k+1) ts) (hs : stops k rest) :
    parse (f+1) k ts = some (e, rest) := by
  obtain ⟨f', rfl⟩ : ∃ f', f = f' + 1 := ⟨f - 1, by omega⟩
  have h0 : k = 0 ∨ k = 1 ∨ k = 2 ∨ k = 3 ∨ k = 4 ∨ k = 5 ∨ k = 6 ∨ k = 7 ∨ k = 8 := by omega
  have hchain : ∀ k, isChain k → parse (f'+1) (k+1) ts = some (e, rest) → stops k rest → parse (f'+1+1) k ts = some (e, rest) := by
    intro k hk hp hs
    rw [parse_chain _ _ _ hk, hp]; exact chainLoop_stops _ _ _ _ hs
  rcases h0 with rfl | rfl | rfl | rfl | rfl | rfl | rfl | rfl | rfl
  · exact hchain 0 (Or.inl rfl) hp hs
  · rw [parse_l1]
    cases ts with
    | nil => exact hp
    | cons t r =>
      have := hh.1 (by omega) (by omega)
      cases t with
      | sym s => cases s <;> first | exact absurd rfl this | exact hp
      | _ => exact hp
  · exact hchain 2 (Or.inr (Or.inl rfl)) hp hs
  · exact hchain 3 (Or.inr (Or.inr (Or.inl rfl))) hp hs
  · exact hchain 4 (Or.inr (Or.inr (Or.inr (Or.inl rfl)))) hp hs
  · exact hchain 5 (Or.inr (Or.inr (Or.inr (Or.inr rfl)))) hp hs
  · rw [parse_l6]
    cases ts with
    | nil => exact hp
    | cons t r =>
      have := hh.2 (by omega) (by omega)
      cases t with
      | sym s => cases s <;> first | exact absurd rfl this.1 | exact absurd rfl this.2 | exact hp
      | _ => exact hp
  · rw [parse_l7, hp]
    cases rest with
    | nil => rfl
    | cons t r =>
      cases t with
      | sym s => cases s <;> first | rfl | (simp [stops, binLevel] at hs)
      | _ => rfl
  · rw [parse_l8, hp]; exact attrLoop_stops _ _ _ hs

theorem headFree_sub {k k' j : Nat} {ts : List Tok} (h : headFree k j ts) (hk : k ≤ k') (hj : k' + 1 ≤ j) :
    headFree k' (k'+1) ts := by
  cases ts with
  | nil => trivial
  | cons t r => exact ⟨fun h1 h2 => h.1 (by omega) (by omega), fun h1 h2 => h.2 (by omega) (by omega)⟩

/-- from level `j` up to level `k ≤ j` -/
theorem climb (d : Nat) : ∀ (f k j : Nat) (ts : List Tok) (e : Expr) (rest : List Tok), k + d = j → j ≤ 9 → 1 ≤ f →
    parse f j ts = some (e, rest) → headFree k j ts → stops k rest → parse (f + d) k ts = some (e, rest) := by
  induction d with
  | zero => intro f k j ts e rest hkj _ _ hp _ _; simp at hkj; subst hkj; simpa using hp
  | succ d ih =>
    intro f k j ts e rest hkj hj hf hp hh hs
    have h1 := ih f (k+1) j ts e rest (by omega) hj hf hp
      (by
        cases ts with
        | nil => trivial
        | cons t r => exact ⟨fun a b => hh.1 (by omega) b, fun a b => hh.2 (by omega) b⟩)
      (stops_mono hs (by omega))
    have := climb1 (f + d) k ts e rest (by omega) (by omega) h1 (headFree_sub hh (Nat.le_refl _) (by omega)) hs
    simpa [Nat.add_assoc] using this

/-! ### shape of the printed token sequence -/

theorem BinOp.level_le (op : BinOp) : op.level ≤ 7 := by cases op <;> simp [BinOp.level]
theorem UnOp.level_le (op : UnOp) : op.level ≤ 6 := by cases op <;> simp [UnOp.level]

/-- parentheses are put exactly when the level of the expression is below the demanded one (`k ≤ 8`) -/
theorem toksAt_eq (k : Nat) (hk : k ≤ 8) (e : Expr) :
    toksAt k e = if e.level < k then [.lp] ++ toksAt 0 e ++ [.rp] else toksAt 0 e := by
  cases e with
  | lit l => have : ¬ (9 < k) := by omega
             simp [toksAt, Expr.level, this]
  | ident n => have : ¬ (9 < k) := by omega
               simp [toksAt, Expr.level, this]
  | setLit es => have : ¬ (9 < k) := by omega
                 simp [toksAt, Expr.level, this]
  | un op x => simp [toksAt, Expr.level]
  | bin op l r => simp [toksAt, Expr.level]
  | attr x n => have : ¬ (8 < k) := by omega
                simp [toksAt, Expr.level, this]

theorem toksAt_noparen (k : Nat) (hk : k ≤ 8) (e : Expr) (h : k ≤ e.level) : toksAt k e = toksAt 0 e := by
  rw [toksAt_eq k hk]; simp; omega

theorem toksAt_paren (k : Nat) (hk : k ≤ 8) (e : Expr) (h : e.level < k) : toksAt k e = .lp :: (toksAt 0 e ++ [.rp]) := by
  rw [toksAt_eq k hk]; simp [h]

/-- first token of `toksAt k e` -/
def headTok (k : Nat) : Expr → Tok
  | .lit l => .lit l
  | .ident n => .id n
  | .setLit _ => .lb
  | .un op _ => if op.level < k then .lp else .sym op.sym
  | .bin op l _ => if op.level < k then .lp else headTok op.leftLevel l
  | .attr x _ => headTok 8 x

theorem toksAt_head (k : Nat) : (e : Expr) → ∃ tl, toksAt k e = headTok k e :: tl
  | .lit l => ⟨[], rfl⟩
  | .ident n => ⟨[], rfl⟩
  | .setLit es => ⟨_, by simp [toksAt, headTok]; rfl⟩
  | .un op x => by
      by_cases h : op.level < k <;> simp [toksAt, headTok, h]
  | .bin op l r => by
      obtain ⟨tl, htl⟩ := toksAt_head op.leftLevel l
      by_cases h : op.level < k <;> simp [toksAt, headTok, h, htl]
  | .attr x n => by
      obtain ⟨tl, htl⟩ := toksAt_head 8 x
      exact ⟨tl ++ [.dot, .id n], by simp [toksAt, headTok, htl]⟩

theorem headTok_ne_bang (k : Nat) : (e : Expr) → (2 ≤ e.level ∨ e.level < k) → headTok k e ≠ .sym .bang
  | .lit l, _ => by simp [headTok]
  | .ident n, _ => by simp [headTok]
  | .setLit es, _ => by simp [headTok]
  | .un op x, h => by
      by_cases hp : op.level < k
      · simp [headTok, hp]
      · simp only [headTok, hp, ↓reduceIte]
        cases op <;> simp_all [UnOp.level, UnOp.sym, Expr.level]
  | .bin op l r, h => by
      by_cases hp : op.level < k
      · simp [headTok, hp]
      · simp only [headTok, hp, ↓reduceIte]
        apply headTok_ne_bang
        simp only [Expr.level] at h
        have h2 : 2 ≤ op.level := by omega
        by_cases hl : l.level < op.leftLevel
        · exact Or.inr hl
        · left
          have : op.level ≤ op.leftLevel := by cases op <;> simp [BinOp.leftLevel, BinOp.level]
          omega
  | .attr x n, _ => by
      simp only [headTok]
      apply headTok_ne_bang
      by_cases hl : x.level < 8
      · exact Or.inr hl
      · left; omega

theorem headTok_ne_pm (k : Nat) : (e : Expr) → (7 ≤ e.level ∨ e.level < k) → headTok k e ≠ .sym .plus ∧ headTok k e ≠ .sym .minus
  | .lit l, _ => by simp [headTok]
  | .ident n, _ => by simp [headTok]
  | .setLit es, _ => by simp [headTok]
  | .un op x, h => by
      by_cases hp : op.level < k
      · simp [headTok, hp]
      · have := UnOp.level_le op
        simp only [Expr.level] at h; omega
  | .bin op l r, h => by
      by_cases hp : op.level < k
      · simp [headTok, hp]
      · simp only [headTok, hp, ↓reduceIte]
        apply headTok_ne_pm
        simp only [Expr.level] at h
        have h7 : op = .pow := by cases op <;> simp_all [BinOp.level] <;> omega
        subst h7
        by_cases hl : l.level < 8
        · exact Or.inr hl
        · left; omega
  | .attr x n, _ => by
      simp only [headTok]
      apply headTok_ne_pm
      by_cases hl : x.level < 8
      · exact Or.inr hl
      · left; omega

mutual
/-- fuel that suffices to parse the printed form (see `roundtrip_main`) -/
def cost : Expr → Nat
  | .lit _ => 2
  | .ident _ => 2
  | .setLit es => 3 + costL es
  | .un _ x => cost x + 50
  | .bin _ l r => cost l + cost r + 100
  | .attr x _ => cost x + 50
def costL : List Expr → Nat
  | [] => 0
  | e :: es => cost e + 50 + costL es
end

mutual
theorem cost_le (k : Nat) : (e : Expr) → cost e ≤ 100 * (toksAt k e).length
  | .lit _ => by simp [cost, toksAt]
  | .ident _ => by simp [cost, toksAt]
  | .setLit es => by
      have := costL_le es
      simp only [cost, toksAt, List.length_append, List.length_cons, List.length_nil]; omega
  | .un op x => by
      have := cost_le op.operandLevel x
      simp only [cost, toksAt]
      split <;> simp only [List.length_append, List.length_cons, List.length_nil] <;> omega
  | .bin op l r => by
      have h1 := cost_le op.leftLevel l
      have h2 := cost_le op.rightLevel r
      simp only [cost, toksAt]
      split <;> simp only [List.length_append, List.length_cons, List.length_nil] <;> omega
  | .attr x n => by
      have := cost_le 8 x
      simp only [cost, toksAt, List.length_append, List.length_cons, List.length_nil]; omega
theorem costL_le : (es : List Expr) → costL es ≤ 100 * (toksList es).length + 50
  | [] => by simp [costL]
  | [e] => by
      have := cost_le 0 e
      simp only [costL, toksList]; omega
  | e :: e' :: es => by
      have h1 := cost_le 0 e
      have h2 := costL_le (e' :: es)
      simp only [costL, toksList, List.length_append, List.length_cons, List.length_nil] at h2 ⊢; omega
end

/-! ### the statements carried through the induction -/

theorem Expr.level_le (e : Expr) : e.level ≤ 9 := by
  cases e with
  | un op x => have := UnOp.level_le op; simp [Expr.level]; omega
  | bin op l r => have := BinOp.level_le op; simp [Expr.level]; omega
  | _ => simp [Expr.level]

theorem stops_9 (rest : List Tok) : stops 9 rest := by
  cases rest with
  | nil => trivial
  | cons t r =>
    simp only [stops]
    cases t with
    | sym s => cases s <;> simp [binLevel]
    | _ => simp [binLevel]

/-- parsing the printed form at any demanded level gives the expression back -/
def Main (e : Expr) : Prop :=
  ∀ k, k ≤ 8 → ∀ rest f, stops k rest → cost e + 30 ≤ f → parse f k (toksAt k e ++ rest) = some (e, rest)

/-- … and as the left end of an operator chain of level `k` it is handed to the chain loop -/
def Spine (e : Expr) : Prop :=
  ∀ k, isChain k → ∀ rest f, stops (k+1) rest → cost e + 40 ≤ f →
    ∃ f', f ≤ f' + cost e + 40 ∧ 1 ≤ f' ∧ parse f k (toksAt k e ++ rest) = chainLoop f' k e rest

/-- … and as the operand of an attribute chain it is handed to the attribute loop -/
def ASpine (e : Expr) : Prop :=
  ∀ rest f, cost e + 40 ≤ f →
    ∃ f', f ≤ f' + cost e + 40 ∧ 1 ≤ f' ∧ parse f 8 (toksAt 8 e ++ rest) = attrLoop f' e rest

structure T (e : Expr) : Prop where
  main : Main e
  spine : Spine e
  aspine : ASpine e

/-- what has to be shown per constructor: the behaviour at the expression's own level, without parentheses -/
structure Own (e : Expr) : Prop where
  own : ∀ rest f, stops e.level rest → cost e ≤ f → parse f e.level (toksAt 0 e ++ rest) = some (e, rest)
  spine : isChain e.level → ∀ rest f, stops (e.level + 1) rest → cost e ≤ f →
    ∃ f', f ≤ f' + cost e ∧ 1 ≤ f' ∧ parse f e.level (toksAt 0 e ++ rest) = chainLoop f' e.level e rest
  aspine : e.level = 8 → ∀ rest f, cost e ≤ f →
    ∃ f', f ≤ f' + cost e ∧ 1 ≤ f' ∧ parse f 8 (toksAt 0 e ++ rest) = attrLoop f' e rest

theorem cost_pos (e : Expr) : 2 ≤ cost e := by
  cases e <;> simp [cost] <;> omega

theorem mainA (e : Expr) (h : Own e) (k : Nat) (hk : k ≤ e.level) (rest : List Tok) (f : Nat) (hs : stops k rest)
    (hf : cost e + 9 ≤ f) : parse f k (toksAt 0 e ++ rest) = some (e, rest) := by
  have hl := Expr.level_le e
  have hc := cost_pos e
  have h0 := h.own rest (f - (e.level - k)) (stops_mono hs hk) (by omega)
  obtain ⟨tl, htl⟩ := toksAt_head 0 e
  have hh : headFree k e.level (toksAt 0 e ++ rest) := by
    rw [htl]
    exact ⟨fun h1 h2 => headTok_ne_bang 0 e (Or.inl (by omega)), fun h1 h2 => headTok_ne_pm 0 e (Or.inl (by omega))⟩
  have := climb (e.level - k) (f - (e.level - k)) k e.level _ e rest (by omega) hl (by omega) h0 hh hs
  rwa [Nat.sub_add_cancel (by omega)] at this

theorem parenBase (e : Expr) (h : Own e) (rest : List Tok) (f : Nat) (hf : cost e + 10 ≤ f) :
    parse f 9 (.lp :: (toksAt 0 e ++ [.rp]) ++ rest) = some (e, rest) := by
  obtain ⟨f1, rfl⟩ : ∃ f1, f = f1 + 1 := ⟨f - 1, by omega⟩
  rw [parse_l9]
  have : parse f1 0 (toksAt 0 e ++ .rp :: rest) = some (e, .rp :: rest) :=
    mainA e h 0 (Nat.zero_le _) _ f1 (by simp [stops, binLevel]) (by omega)
  simp only [List.cons_append, List.append_assoc, List.singleton_append, List.nil_append, this]

theorem T_of_own (e : Expr) (h : Own e) : T e := by
  have hl := Expr.level_le e
  have hmain : Main e := by
    intro k hk rest f hs hf
    by_cases hkl : k ≤ e.level
    · rw [toksAt_noparen k hk e hkl]
      exact mainA e h k hkl rest f hs (by omega)
    · rw [toksAt_paren k hk e (by omega)]
      have h0 := parenBase e h rest (f - (9 - k)) (by omega)
      have hh : headFree k 9 (.lp :: (toksAt 0 e ++ [.rp]) ++ rest) := by
        exact ⟨fun _ _ => by simp, fun _ _ => by simp⟩
      have := climb (9 - k) (f - (9 - k)) k 9 _ e rest (by omega) (Nat.le_refl _) (by omega) h0 hh hs
      rwa [Nat.sub_add_cancel (by omega)] at this
  refine ⟨hmain, ?_, ?_⟩
  · intro k hk rest f hs hf
    have hk8 : k + 1 ≤ 8 := by rcases hk with rfl | rfl | rfl | rfl | rfl <;> omega
    by_cases hkl : e.level = k
    · subst hkl
      rw [toksAt_noparen _ (by omega) e (Nat.le_refl _)]
      obtain ⟨f', h1, h2, h3⟩ := h.spine hk rest f hs (by omega)
      exact ⟨f', by omega, h2, h3⟩
    · have heq : toksAt k e = toksAt (k+1) e := by
        rw [toksAt_eq k (by omega), toksAt_eq (k+1) hk8]
        by_cases h1 : e.level < k
        · have h2 : e.level < k + 1 := by omega
          simp [h1, h2]
        · have h2 : ¬ e.level < k + 1 := by omega
          simp [h1, h2]
      obtain ⟨f0, rfl⟩ : ∃ f0, f = f0 + 1 := ⟨f - 1, by omega⟩
      refine ⟨f0, by omega, by have := cost_pos e; omega, ?_⟩
      rw [parse_chain _ _ _ hk, heq, hmain (k+1) hk8 rest f0 hs (by omega)]
  · intro rest f hf
    obtain ⟨f0, rfl⟩ : ∃ f0, f = f0 + 1 := ⟨f - 1, by omega⟩
    by_cases h8 : e.level = 8
    · rw [toksAt_noparen 8 (Nat.le_refl _) e (by omega)]
      obtain ⟨f', h1, h2, h3⟩ := h.aspine h8 rest (f0 + 1) (by omega)
      exact ⟨f', by omega, h2, h3⟩
    · refine ⟨f0, by omega, by have := cost_pos e; omega, ?_⟩
      rw [parse_l8]
      by_cases h9 : e.level = 9
      · rw [toksAt_noparen 8 (Nat.le_refl _) e (by omega)]
        have := h.own rest f0 (by rw [h9]; exact stops_9 rest) (by omega)
        rw [h9] at this
        rw [this]
      · rw [toksAt_paren 8 (Nat.le_refl _) e (by omega)]
        rw [parenBase e h rest f0 (by omega)]

/-! ### the constructors -/

theorem not_isChain_9 : ¬ isChain 9 := by unfold isChain; omega
theorem not_isChain_1 : ¬ isChain 1 := by unfold isChain; omega
theorem not_isChain_6 : ¬ isChain 6 := by unfold isChain; omega
theorem not_isChain_7 : ¬ isChain 7 := by unfold isChain; omega
theorem not_isChain_8 : ¬ isChain 8 := by unfold isChain; omega

theorem own_lit (l : Lit) : Own (.lit l) := by
  refine ⟨?_, fun h => absurd h not_isChain_9, fun h => by simp [Expr.level] at h⟩
  intro rest f _ hf
  obtain ⟨f1, rfl⟩ : ∃ f1, f = f1 + 1 := ⟨f - 1, by simp [cost] at hf; omega⟩
  simp only [Expr.level, toksAt, List.singleton_append]
  rw [parse_l9]

theorem own_ident (n : String) : Own (.ident n) := by
  refine ⟨?_, fun h => absurd h not_isChain_9, fun h => by simp [Expr.level] at h⟩
  intro rest f _ hf
  obtain ⟨f1, rfl⟩ : ∃ f1, f = f1 + 1 := ⟨f - 1, by simp [cost] at hf; omega⟩
  simp only [Expr.level, toksAt, List.singleton_append]
  rw [parse_l9]

theorem own_not (x : Expr) (hx : T x) : Own (.un .not x) := by
  refine ⟨?_, fun h => absurd h not_isChain_1, fun h => by simp [Expr.level, UnOp.level] at h⟩
  intro rest f hs hf
  simp only [cost] at hf
  obtain ⟨f1, rfl⟩ : ∃ f1, f = f1 + 1 := ⟨f - 1, by omega⟩
  simp only [Expr.level, UnOp.level] at hs ⊢
  have hx1 := hx.main 1 (by omega) rest f1 hs (by omega)
  have : toksAt 0 (.un .not x) ++ rest = .sym .bang :: (toksAt 1 x ++ rest) := by
    simp [toksAt, UnOp.level, UnOp.sym, UnOp.operandLevel]
  rw [this, parse_l1]
  simp only [hx1]

theorem own_pos (x : Expr) (hx : T x) : Own (.un .pos x) := by
  refine ⟨?_, fun h => absurd h not_isChain_6, fun h => by simp [Expr.level, UnOp.level] at h⟩
  intro rest f hs hf
  simp only [cost] at hf
  obtain ⟨f1, rfl⟩ : ∃ f1, f = f1 + 1 := ⟨f - 1, by omega⟩
  simp only [Expr.level, UnOp.level] at hs ⊢
  have hx1 := hx.main 7 (by omega) rest f1 (stops_mono hs (by omega)) (by omega)
  have : toksAt 0 (.un .pos x) ++ rest = .sym .plus :: (toksAt 7 x ++ rest) := by
    simp [toksAt, UnOp.level, UnOp.sym, UnOp.operandLevel]
  rw [this, parse_l6]
  simp only [hx1]

theorem own_neg (x : Expr) (hx : T x) : Own (.un .neg x) := by
  refine ⟨?_, fun h => absurd h not_isChain_6, fun h => by simp [Expr.level, UnOp.level] at h⟩
  intro rest f hs hf
  simp only [cost] at hf
  obtain ⟨f1, rfl⟩ : ∃ f1, f = f1 + 1 := ⟨f - 1, by omega⟩
  simp only [Expr.level, UnOp.level] at hs ⊢
  have hx1 := hx.main 7 (by omega) rest f1 (stops_mono hs (by omega)) (by omega)
  have : toksAt 0 (.un .neg x) ++ rest = .sym .minus :: (toksAt 7 x ++ rest) := by
    simp [toksAt, UnOp.level, UnOp.sym, UnOp.operandLevel]
  rw [this, parse_l6]
  simp only [hx1]

theorem isChain_level (op : BinOp) (h : op ≠ .pow) : isChain op.level := by
  unfold isChain; cases op <;> simp [BinOp.level] <;> exact absurd rfl h

theorem own_chain (op : BinOp) (hop : op ≠ .pow) (l r : Expr) (hl : T l) (hr : T r) : Own (.bin op l r) := by
  have hch := isChain_level op hop
  have hL7 := BinOp.level_le op
  have hL5 : op.level ≤ 5 := by rcases hch with h | h | h | h | h <;> omega
  have hleft : op.leftLevel = op.level := by cases op <;> first | rfl | exact absurd rfl hop
  have hright : op.rightLevel = op.level + 1 := by cases op <;> first | rfl | exact absurd rfl hop
  have htoks : ∀ rest, toksAt 0 (.bin op l r) ++ rest
      = toksAt op.level l ++ (.sym op.sym :: (toksAt (op.level + 1) r ++ rest)) := by
    intro rest; simp [toksAt, hleft, hright]
  have hsp : ∀ rest f, stops (op.level + 1) rest → cost (.bin op l r) ≤ f →
      ∃ f', f ≤ f' + cost (.bin op l r) ∧ 1 ≤ f' ∧
        parse f op.level (toksAt 0 (.bin op l r) ++ rest) = chainLoop f' op.level (.bin op l r) rest := by
    intro rest f hs hf
    simp only [cost] at hf ⊢
    have hs' : stops (op.level + 1) (.sym op.sym :: (toksAt (op.level + 1) r ++ rest)) := by
      simp only [stops, binLevel_sym]; omega
    obtain ⟨f1, h1, h2, h3⟩ := hl.spine op.level hch _ f hs' (by omega)
    obtain ⟨f2, rfl⟩ : ∃ f2, f1 = f2 + 1 := ⟨f1 - 1, by omega⟩
    have hr1 := hr.main (op.level + 1) (by omega) rest f2 hs (by omega)
    refine ⟨f2, by omega, by omega, ?_⟩
    rw [htoks, h3, chainLoop_eq]
    simp only [chainOp_sym op hop, hr1]
  refine ⟨?_, fun _ => ?_, fun h => by simp [Expr.level] at h; omega⟩
  · intro rest f hs hf
    simp only [Expr.level] at hs ⊢
    obtain ⟨f', h1, h2, h3⟩ := hsp rest f (stops_mono hs (by omega)) hf
    obtain ⟨f3, rfl⟩ : ∃ f3, f' = f3 + 1 := ⟨f' - 1, by omega⟩
    rw [h3, chainLoop_stops _ _ _ _ hs]
  · simpa [Expr.level] using hsp

theorem own_pow (l r : Expr) (hl : T l) (hr : T r) : Own (.bin .pow l r) := by
  refine ⟨?_, fun h => absurd h not_isChain_7, fun h => by simp [Expr.level, BinOp.level] at h⟩
  intro rest f hs hf
  simp only [cost] at hf
  simp only [Expr.level, BinOp.level] at hs ⊢
  obtain ⟨f1, rfl⟩ : ∃ f1, f = f1 + 1 := ⟨f - 1, by omega⟩
  have htoks : toksAt 0 (.bin .pow l r) ++ rest = toksAt 8 l ++ (.sym .starstar :: (toksAt 6 r ++ rest)) := by
    simp [toksAt, BinOp.leftLevel, BinOp.rightLevel, BinOp.level, BinOp.sym]
  have h1 := hl.main 8 (by omega) (.sym .starstar :: (toksAt 6 r ++ rest)) f1 (by simp [stops, binLevel]) (by omega)
  have h2 := hr.main 6 (by omega) rest f1 (stops_7_6 hs) (by omega)
  rw [htoks, parse_l7, h1]
  simp only [h2]

theorem own_attr (x : Expr) (n : String) (hx : T x) : Own (.attr x n) := by
  have hsp : ∀ rest f, cost (.attr x n) ≤ f →
      ∃ f', f ≤ f' + cost (.attr x n) ∧ 1 ≤ f' ∧ parse f 8 (toksAt 0 (.attr x n) ++ rest) = attrLoop f' (.attr x n) rest := by
    intro rest f hf
    simp only [cost] at hf ⊢
    obtain ⟨f1, h1, h2, h3⟩ := hx.aspine (.dot :: .id n :: rest) f (by omega)
    obtain ⟨f2, rfl⟩ : ∃ f2, f1 = f2 + 1 := ⟨f1 - 1, by omega⟩
    refine ⟨f2, by omega, by omega, ?_⟩
    have : toksAt 0 (.attr x n) ++ rest = toksAt 8 x ++ (.dot :: .id n :: rest) := by simp [toksAt]
    rw [this, h3, attrLoop_eq]
  refine ⟨?_, fun h => absurd h not_isChain_8, fun _ => hsp⟩
  intro rest f hs hf
  simp only [Expr.level] at hs ⊢
  obtain ⟨f', h1, h2, h3⟩ := hsp rest f hf
  obtain ⟨f3, rfl⟩ : ∃ f3, f' = f3 + 1 := ⟨f' - 1, by omega⟩
  rw [h3, attrLoop_stops _ _ _ hs]

/-! ### expression lists -/

theorem parse_rb_none (f : Nat) : ∀ k, k ≤ 9 → ∀ r, parse f k (.rb :: r) = none := by
  induction f with
  | zero => intro k _ r; rfl
  | succ f ih =>
    intro k hk r
    have h0 : k = 0 ∨ k = 1 ∨ k = 2 ∨ k = 3 ∨ k = 4 ∨ k = 5 ∨ k = 6 ∨ k = 7 ∨ k = 8 ∨ k = 9 := by omega
    rcases h0 with rfl | rfl | rfl | rfl | rfl | rfl | rfl | rfl | rfl | rfl
    · rw [parse_chain _ _ _ (Or.inl rfl), ih 1 (by omega)]
    · rw [parse_l1]; exact ih 2 (by omega) r
    · rw [parse_chain _ _ _ (Or.inr (Or.inl rfl)), ih 3 (by omega)]
    · rw [parse_chain _ _ _ (Or.inr (Or.inr (Or.inl rfl))), ih 4 (by omega)]
    · rw [parse_chain _ _ _ (Or.inr (Or.inr (Or.inr (Or.inl rfl)))), ih 5 (by omega)]
    · rw [parse_chain _ _ _ (Or.inr (Or.inr (Or.inr (Or.inr rfl)))), ih 6 (by omega)]
    · rw [parse_l6]; exact ih 7 (by omega) r
    · rw [parse_l7, ih 8 (by omega)]
    · rw [parse_l8, ih 9 (by omega)]
    · rw [parse_l9]

/-- `, e₁ , e₂ …` -/
def commaToks : List Expr → List Tok
  | [] => []
  | e :: es => .comma :: (toksAt 0 e ++ commaToks es)

theorem toksList_cons (e : Expr) (es : List Expr) : toksList (e :: es) = toksAt 0 e ++ commaToks es := by
  induction es generalizing e with
  | nil => simp [toksList, commaToks]
  | cons e' es ih => simp [toksList, commaToks, ih e']

theorem stops0_comma_or_rb (es : List Expr) (rest : List Tok) : stops 0 (commaToks es ++ .rb :: rest) := by
  cases es <;> simp [commaToks, stops, binLevel]

theorem listLoop_ok (es : List Expr) (hes : ∀ e ∈ es, T e) : ∀ (acc : List Expr) (rest : List Tok) (f : Nat),
    costL es + 1 ≤ f → listLoop f acc (commaToks es ++ .rb :: rest) = (acc ++ es, .rb :: rest) := by
  induction es with
  | nil =>
    intro acc rest f hf
    obtain ⟨f1, rfl⟩ : ∃ f1, f = f1 + 1 := ⟨f - 1, by omega⟩
    simp only [commaToks, List.nil_append, List.append_nil]
    rw [listLoop_eq]
  | cons e es ih =>
    intro acc rest f hf
    simp only [costL] at hf
    obtain ⟨f1, rfl⟩ : ∃ f1, f = f1 + 1 := ⟨f - 1, by omega⟩
    have h1 := (hes e (by simp)).main 0 (by omega) (commaToks es ++ .rb :: rest) f1 (stops0_comma_or_rb es rest) (by omega)
    have : commaToks (e :: es) ++ .rb :: rest = .comma :: (toksAt 0 e ++ (commaToks es ++ .rb :: rest)) := by
      simp [commaToks]
    rw [this, listLoop_eq]
    simp only [h1]
    rw [ih (fun x hx => hes x (by simp [hx])) (acc ++ [e]) rest f1 (by omega)]
    simp

theorem parseList_ok (es : List Expr) (hes : ∀ e ∈ es, T e) (rest : List Tok) (f : Nat) (hf : costL es + 2 ≤ f) :
    parseList f (toksList es ++ .rb :: rest) = (es, .rb :: rest) := by
  obtain ⟨f1, rfl⟩ : ∃ f1, f = f1 + 1 := ⟨f - 1, by omega⟩
  rw [parseList_eq]
  cases es with
  | nil =>
    simp only [toksList, List.nil_append]
    rw [parse_rb_none f1 0 (by omega)]
  | cons e es =>
    simp only [costL] at hf
    rw [toksList_cons, List.append_assoc]
    have h1 := (hes e (by simp)).main 0 (by omega) (commaToks es ++ .rb :: rest) f1 (stops0_comma_or_rb es rest) (by omega)
    simp only [h1]
    rw [listLoop_ok es (fun x hx => hes x (by simp [hx])) [e] rest f1 (by omega)]
    simp

theorem own_set (es : List Expr) (hes : ∀ e ∈ es, T e) : Own (.setLit es) := by
  refine ⟨?_, fun h => absurd h not_isChain_9, fun h => by simp [Expr.level] at h⟩
  intro rest f _ hf
  simp only [cost] at hf
  obtain ⟨f1, rfl⟩ : ∃ f1, f = f1 + 1 := ⟨f - 1, by omega⟩
  have : toksAt 0 (.setLit es) ++ rest = .lb :: (toksList es ++ .rb :: rest) := by simp [toksAt]
  simp only [Expr.level]
  rw [this, parse_l9]
  simp only [parseList_ok es hes rest f1 (by omega)]

/-! ### all expressions -/

mutual
theorem T_all : (e : Expr) → T e
  | .lit l => T_of_own _ (own_lit l)
  | .ident n => T_of_own _ (own_ident n)
  | .setLit es => T_of_own _ (own_set es (TL_all es))
  | .un .not x => T_of_own _ (own_not x (T_all x))
  | .un .pos x => T_of_own _ (own_pos x (T_all x))
  | .un .neg x => T_of_own _ (own_neg x (T_all x))
  | .bin op l r =>
      if h : op = .pow then by
        subst h; exact T_of_own _ (own_pow l r (T_all l) (T_all r))
      else T_of_own _ (own_chain op h l r (T_all l) (T_all r))
  | .attr x n => T_of_own _ (own_attr x n (T_all x))
theorem TL_all : (es : List Expr) → ∀ e ∈ es, T e
  | [] => fun _ h => by simp at h
  | x :: xs => fun e h => (List.mem_cons.mp h).elim (fun heq => heq ▸ T_all x) (fun h' => TL_all xs e h')
end

/-- The printer with minimal parentheses is inverted by the PEG. -/
theorem roundtrip_min (e : Expr) : parseTokens (toks e) = some e := by
  have h := (T_all e).main 0 (by omega) [] (fuelFor (toks e)) trivial (by
    have := cost_le 0 e
    simp only [fuelFor, toks]; omega)
  simp only [List.append_nil, toks] at h
  simp only [parseTokens, toks, h]

end Ex
