import Proofs.LayoutDen
/-! Well-formedness of the built expressions, divisibility of all lengths by the alignment, constructor asserts. -/
open scoped Pointwise
namespace Layout
open Bls

theorem wfs_map_bls (fs : List Ty) (h : ∀ f ∈ fs, f.bls.wf = true) : wfs (fs.map Ty.bls) = true := by
  rw [wfs_iff]
  intro c hc
  obtain ⟨f, hf, rfl⟩ := List.mem_map.mp hc
  exact h f hf

theorem aggStructFrom_wf (fs : List Ty) (h : ∀ f ∈ fs, f.bls.wf = true) (acc : Op) (hacc : acc.wf = true) :
    (aggStructFrom acc fs).wf = true := by
  induction fs generalizing acc with
  | nil => simpa [aggStructFrom]
  | cons f fs ih =>
    simp only [aggStructFrom]
    apply ih (fun x hx => h x (by simp [hx]))
    have := one_le_align f
    simp [Op.wf, wfs, hacc, h f (by simp), this]

/-- Every type the constructors accept gets a well-formed operator tree, so all of C01 applies to it. -/
theorem bls_wf : ∀ t : Ty, t.wf = true → t.bls.wf = true := by
  intro t
  induction t using Ty.induct with
  | prim n => intro _; simp [Ty.bls, Op.wf]
  | void n => intro _; simp [Ty.bls, Op.wf]
  | farr e cap ih =>
    intro h; simp only [Ty.wf, Bool.and_eq_true] at h
    simpa [Ty.bls, Op.wf] using ih h.1
  | varr e cap ih =>
    intro h; simp only [Ty.wf, Bool.and_eq_true] at h
    simp [Ty.bls, Op.wf, wfs, ih h.1.1]
  | struct fs ih =>
    intro h; simp only [Ty.wf, wfList_iff] at h
    simp only [Ty.bls, Op.wf, Bool.and_eq_true, decide_eq_true_eq, comp_align]
    refine ⟨?_, by omega⟩
    cases fs with
    | nil => simp [aggStruct, Op.wf]
    | cons f fs =>
      simp only [aggStruct]
      exact aggStructFrom_wf fs (fun x hx => ih x (by simp [hx]) (h x (by simp [hx]))) _ (ih f (by simp) (h f (by simp)))
  | union fs ih =>
    intro h
    simp only [Ty.wf, Bool.and_eq_true, decide_eq_true_eq, wfList_iff] at h
    obtain ⟨⟨hw, hl⟩, _⟩ := h
    simp only [Ty.bls, Op.wf, Bool.and_eq_true, decide_eq_true_eq, comp_align]
    refine ⟨?_, by omega⟩
    match fs, hl with
    | f :: g :: fs, _ =>
      have hm := wfs_map_bls _ fun x hx => ih x hx (hw x hx)
      simp only [List.map_cons, wfs, Bool.and_eq_true] at hm
      simp [aggUnion, Op.wf, wfs, blsList, blsList_eq, hm]
  | delim inner ext ih =>
    intro h
    have := one_le_align inner
    simp [Ty.bls, Op.wf, wfs, this]

theorem dvd_of_mem_nsmul (S : Finset ℕ) (a k : ℕ) (h : ∀ x ∈ S, a ∣ x) : ∀ y ∈ k • S, a ∣ y := by
  induction k with
  | zero => intro y hy; simp at hy; subst hy; exact dvd_zero a
  | succ k ih =>
    intro y hy
    rw [succ_nsmul] at hy
    obtain ⟨u, hu, v, hv, rfl⟩ := Finset.mem_add.mp hy
    exact dvd_add (ih u hu) (h v hv)

theorem align_dvd_std (t : Ty) (w : ℕ) (hw : w ∈ [8, 16, 32, 64]) : t.align ∣ max w t.align := by
  simp only [List.mem_cons, List.mem_nil_iff, or_false] at hw
  rcases align_cases t with h | h <;> rw [h] <;> rcases hw with rfl | rfl | rfl | rfl <;> decide

/-- Every possible length of a type is a multiple of its alignment requirement. -/
theorem align_dvd_len : ∀ t : Ty, t.wf = true → ∀ l ∈ specLens t, t.align ∣ l := by
  intro t
  induction t using Ty.induct with
  | prim n => intro _ l _; simp [Ty.align]
  | void n => intro _ l _; simp [Ty.align]
  | farr e cap ih =>
    intro h l hl
    simp only [Ty.wf, Bool.and_eq_true] at h
    exact dvd_of_mem_nsmul _ _ _ (ih h.1) l hl
  | varr e cap ih =>
    intro h l hl
    simp only [Ty.wf, Bool.and_eq_true, decide_eq_true_eq] at h
    simp only [specLens, Finset.mem_add, Finset.mem_singleton, Finset.mem_biUnion, Finset.mem_range] at hl
    obtain ⟨a, rfl, b, ⟨j, _, hb⟩, rfl⟩ := hl
    refine dvd_add ?_ (dvd_of_mem_nsmul _ _ _ (ih h.1.1) b hb)
    simp only [Ty.align]
    have hle : stdWidth cap ≤ 64 := le_trans (Nat.le_max_left _ _) h.2
    have hm := stdWidth_mem cap hle
    have : stdOf cap = stdWidth cap := by
      have := lenBits_eq e cap h.2
      unfold lenBits at this
      obtain ⟨h1, h2⟩ := stdWidth_spec cap
      unfold stdOf
      cases hs : smallestStd cap with
      | none => have := h2 hs; omega
      | some w => simp [h1 w hs]
    rw [this]
    exact align_dvd_std e _ hm
  | struct fs ih =>
    intro _ l hl
    simp only [specLens, Finset.mem_image] at hl
    obtain ⟨x, _, rfl⟩ := hl
    simp only [Ty.align, comp_align]
    exact padTo_dvd 8 x
  | union fs ih =>
    intro _ l hl
    simp only [specLens, Finset.mem_image] at hl
    obtain ⟨x, _, rfl⟩ := hl
    simp only [Ty.align, comp_align]
    exact padTo_dvd 8 x
  | delim inner ext ih =>
    intro h l hl
    have ha : (Ty.delim inner ext).align = 8 := composite_align _ h rfl
    rw [ha]
    simp only [specLens, Finset.mem_image, Finset.mem_range] at hl
    obtain ⟨i, _, rfl⟩ := hl
    omega

end Layout
