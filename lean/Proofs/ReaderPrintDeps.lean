import Proofs.ReaderPrint
/-! `@print` deliveries in the presence of references (C17): every delivery — of a successful or of a failed read, at any
    dependency depth — is a `@print` statement of a definition of the namespace with that statement's own line and text;
    the path is the one of the target whose read triggered the parse (for a referenced definition this is the known
    finding: the referrer's path instead of its own). -/
namespace Reader

/-- every delivery of `w'` was already in `w` or satisfies `Q` -/
def NewPrints (Q : Print → Prop) (w w' : W) : Prop := ∀ p ∈ w'.prints, p ∈ w.prints ∨ Q p

theorem NewPrints.refl (Q : Print → Prop) (w : W) : NewPrints Q w w := fun _ hp => Or.inl hp

theorem NewPrints.trans {Q : Print → Prop} {a b c : W} (h₁ : NewPrints Q a b) (h₂ : NewPrints Q b c) : NewPrints Q a c := by
  intro p hp
  rcases h₂ p hp with h | h
  · exact h₁ p h
  · exact Or.inr h

theorem NewPrints.mono {Q Q' : Print → Prop} {a b : W} (h : NewPrints Q a b) (hq : ∀ p, Q p → Q' p) : NewPrints Q' a b :=
  fun p hp => (h p hp).imp id (hq p)

theorem NewPrints.of_eq {Q : Print → Prop} {a b c : W} (h : NewPrints Q a b) (e : c.prints = b.prints) : NewPrints Q a c := by
  intro p hp; rw [e] at hp; exact h p hp

/-- reading a referenced definition delivers only `Q` -/
def DepPrints (Q : Print → Prop) (c : Ctx) : Prop := ∀ w j, NewPrints Q w (c.depRead w j).1

/-- whatever the computation returns — a state or an error — carries a world whose new deliveries satisfy `Q` -/
def Out (Q : Print → Prop) (w0 : W) (x : M St) : Prop :=
  (∀ s', x = .ok s' → NewPrints Q w0 s'.w) ∧ (∀ e w', x = .error (e, w') → NewPrints Q w0 w')

variable {Q : Print → Prop} {w0 : W}

theorem out_ok {s : St} (h : NewPrints Q w0 s.w) : Out Q w0 (.ok s) :=
  ⟨fun s' e => by cases e; exact h, fun _ _ e => by cases e⟩

theorem out_raise {c : Ctx} {s : St} {ln : Option Nat} (h : NewPrints Q w0 s.w) : Out Q w0 (raise c s ln) :=
  ⟨fun s' e => by simp [raise] at e, fun e w' he => by simp [raise] at he; rw [← he.2]; exact h⟩

theorem out_bind {x : M St} {f : St → M St} (hx : Out Q w0 x) (hf : ∀ a, x = .ok a → Out Q w0 (f a)) : Out Q w0 (x >>= f) := by
  cases x with
  | error e => obtain ⟨e, w'⟩ := e; exact ⟨fun s' h => by simp [bind, Except.bind] at h, fun e' w'' h => by
      simp [bind, Except.bind] at h; obtain ⟨rfl, rfl⟩ := h; exact hx.2 _ _ rfl⟩
  | ok a => exact hf a rfl

/-- a computation that does not touch the world -/
theorem out_same {x : M St} {s : St} (h : NewPrints Q w0 s.w) (hok : ∀ s', x = .ok s' → s'.w = s.w)
    (herr : ∀ e w', x = .error (e, w') → w' = s.w) : Out Q w0 x :=
  ⟨fun s' e => by rw [hok s' e]; exact h, fun e w' he => by rw [herr e w' he]; exact h⟩

theorem commitAttr_errw {c k s a bad doc e w'} (h : commitAttr c k s a bad doc = .error (e, w')) : w' = s.w := by
  unfold commitAttr at h
  split at h
  · simp [raise] at h; exact h.2.symm
  · split at h
    · cases h
    · split at h
      · simp [raise] at h; exact h.2.symm
      · cases h

theorem flush_errw {c k s e w'} (h : flush c k s = .error (e, w')) : w' = s.w := by
  unfold flush at h
  split at h
  · cases h
  · rw [map_err] at h
    unfold flushAttr at h
    cases hp : s.pending with
    | none => simp [hp] at h
    | some p => obtain ⟨a, bad⟩ := p; simp only [hp] at h; exact commitAttr_errw h

theorem out_flush {c : Ctx} {k : Nat} {s : St} (h : NewPrints Q w0 s.w) : Out Q w0 (flush c k s) :=
  out_same h (fun _ e => flush_w e) (fun _ _ e => flush_errw e)

theorem out_resolveRefs {c : Ctx} {k : Nat} {s : St} {rs : List String} (h : NewPrints Q w0 s.w) :
    Out Q w0 (resolveRefs c k s rs) := by
  induction rs with
  | nil => exact out_ok h
  | cons r rs ih =>
    unfold resolveRefs
    split
    · exact ih
    · exact out_raise h

theorem out_readDeps {c : Ctx} {k : Nat} (hd : DepPrints Q c) : ∀ (js : List Nat) (s : St), NewPrints Q w0 s.w →
    Out Q w0 (readDeps c k s js) := by
  intro js
  induction js with
  | nil => intro s h; exact out_ok h
  | cons j js ih =>
    intro s h
    unfold readDeps
    split
    · exact out_raise h
    · have hj := hd s.w j
      split
      · rename_i w' heq
        rw [heq] at hj
        exact ih { s with w := w' } (h.trans hj)
      · rename_i w' e heq
        rw [heq] at hj
        exact ⟨fun s' he => (by cases he), fun e' w'' he => by cases he; exact h.trans hj⟩

theorem out_onAttr {c : Ctx} {k : Nat} {s : St} {core : Core} {bad : Bool} (h : NewPrints Q w0 s.w) :
    Out Q w0 (onAttr c k s core bad) := by
  refine out_same h (fun _ e => onAttr_w e) ?_
  intro e w' he
  unfold onAttr at he
  split at he
  · simp [raise] at he; exact he.2.symm
  · rw [map_err] at he
    unfold flushAttr at he
    cases hp : s.pending with
    | none => simp [hp] at he
    | some p => obtain ⟨a, b⟩ := p; simp only [hp] at he; exact commitAttr_errw he

theorem out_onMarker {c : Ctx} {k : Nat} {s : St} (h : NewPrints Q w0 s.w) : Out Q w0 (onMarker c k s) := by
  unfold onMarker
  split
  · exact out_raise h
  · exact out_ok h

theorem onDirective_errw {c k s name ev text e w'} (h : onDirective c k s name ev text = .error (e, w')) : w' = s.w := by
  unfold onDirective at h
  repeat' split at h
  all_goals first | (cases h; done) | (simp [raise] at h; exact h.2.symm)

theorem out_onDirective {c : Ctx} {k : Nat} {s : St} {name text : String} {ev : Option EVal} (h : NewPrints Q w0 s.w)
    (hq : name = "print" → Q ⟨c.printFile, k, text⟩) : Out Q w0 (onDirective c k s name ev text) := by
  refine ⟨?_, fun e w' he => by rw [onDirective_errw he]; exact h⟩
  intro s' he
  obtain ⟨_, hp⟩ := onDirective_w he
  intro p hp'
  rw [hp, List.mem_append] at hp'
  rcases hp' with hp' | hp'
  · exact h p hp'
  · by_cases hn : name = "print"
    · simp [hn] at hp'; subst hp'; exact Or.inr (hq hn)
    · simp [hn] at hp'

theorem markOffs_w' (l : Line) (s : St) : (markOffs l s).w = s.w := by
  unfold markOffs; split <;> rfl

theorem addLineComment_w' (l : Line) (s : St) : (addLineComment l s).w = s.w := by
  unfold addLineComment; cases l.comment <;> rfl

theorem out_visitChildren {c : Ctx} {k : Nat} {s : St} {l : Line} {st : Stmt} (hd : DepPrints Q c) (h : NewPrints Q w0 s.w) :
    Out Q w0 (visitChildren c k l st s) := by
  unfold visitChildren
  split
  · exact out_raise h
  · apply out_bind (x := if (st.hasIdent || !l.refs.isEmpty || !l.deps.isEmpty) = true then flush c k s else .ok s)
    · split
      · exact out_flush h
      · exact out_ok h
    · intro s1 h1
      have g1 : NewPrints Q w0 s1.w := by
        split at h1
        · rw [flush_w h1]; exact h
        · cases h1; exact h
      apply out_bind (out_resolveRefs g1)
      intro s2 h2
      have := resolveRefs_ok h2; subst this
      have g2 : NewPrints Q w0 (markOffs l s2).w := by rw [markOffs_w']; exact g1
      apply out_bind (out_readDeps hd _ _ g2)
      intro s3 h3
      have g3 := (out_readDeps (w0 := w0) (k := k) hd l.deps _ g2).1 s3 h3
      split
      · exact out_raise g3
      · exact out_ok g3

theorem out_emitStmt {c : Ctx} {k : Nat} {s : St} {l : Line} {st : Stmt} (hl : l.stmt = some st) (h : NewPrints Q w0 s.w)
    (hq : ∀ p ∈ linePrints c.printFile k l, Q p) : Out Q w0 (emitStmt c k l st s) := by
  unfold emitStmt
  apply out_bind (out_flush h)
  intro s4 h4
  have g4 : NewPrints Q w0 s4.w := by rw [flush_w h4]; exact h
  split
  · exact out_raise g4
  · cases st with
    | attr core => exact out_onAttr g4
    | directive name ev text =>
      refine out_onDirective g4 ?_
      intro hn
      apply hq
      simp [linePrints, hl, hn]
    | marker => exact out_onMarker g4

theorem out_stepLine {c : Ctx} {k : Nat} {s : St} {l : Line} (hd : DepPrints Q c) (h : NewPrints Q w0 s.w)
    (hq : ∀ p ∈ linePrints c.printFile k l, Q p) : Out Q w0 (stepLine c k s l) := by
  have hv : Out Q w0 (match l.stmt with | some st => visitStmt c k l st s | none => .ok s) := by
    cases hl : l.stmt with
    | none => exact out_ok h
    | some st =>
      simp only
      unfold visitStmt
      apply out_bind (out_visitChildren hd h)
      intro s3 h3
      exact out_emitStmt hl ((out_visitChildren (w0 := w0) hd h).1 s3 h3) hq
  unfold stepLine
  apply out_bind hv
  intro s1 h1
  have g1' : NewPrints Q w0 (addLineComment l s1).w := by rw [addLineComment_w']; exact hv.1 s1 h1
  split
  · exact out_flush g1'
  · exact out_ok g1'

theorem out_runLines {c : Ctx} (hd : DepPrints Q c) : ∀ (ls : List Line) (k : Nat) (s : St), NewPrints Q w0 s.w →
    (∀ p ∈ specPrints c.printFile k ls, Q p) → Out Q w0 (runLines c k s ls) := by
  intro ls
  induction ls with
  | nil => intro k s h _; exact out_ok h
  | cons l ls ih =>
    intro k s h hq
    simp only [runLines]
    have hq1 : ∀ p ∈ linePrints c.printFile k l, Q p := fun p hp => hq p (by simp [specPrints, hp])
    have hq2 : ∀ p ∈ specPrints c.printFile (l.next k) ls, Q p := fun p hp => hq p (by simp [specPrints, hp])
    apply out_bind (out_stepLine hd h hq1)
    intro s1 h1
    exact ih _ s1 ((out_stepLine (w0 := w0) hd h hq1).1 s1 h1) hq2

/-- the deliveries of one read, successful or not: what referenced definitions deliver (`Q`), and `@print` statements of
    this text with their own line, under the bound path -/
theorem readText_prints_deps {c : Ctx} {ls : List Line} {w : W} (hd : DepPrints Q c) :
    (∀ comp w', readText c ls w = .ok (comp, w') → NewPrints (fun p => Q p ∨ p ∈ specPrints c.printFile 1 ls) w w') ∧
    (∀ e w', readText c ls w = .error (e, w') → NewPrints (fun p => Q p ∨ p ∈ specPrints c.printFile 1 ls) w w') := by
  have hd' : DepPrints (fun p => Q p ∨ p ∈ specPrints c.printFile 1 ls) c := fun w j => (hd w j).mono (fun _ => Or.inl)
  have hrun := out_runLines (w0 := w) hd' ls 1 (St.init w) (NewPrints.refl _ _) (fun p hp => Or.inr hp)
  unfold readText
  split
  · refine ⟨fun _ _ h => (by cases h), fun e w' h => ?_⟩
    cases h; exact NewPrints.refl _ _
  · constructor
    · intro comp w' h
      simp only [bind_ok, map_ok] at h
      obtain ⟨s, hs, s', hf, comp', _, he⟩ := h
      cases he
      rw [flush_w hf]
      exact hrun.1 s hs
    · intro e w' h
      rw [bind_err] at h
      rcases h with h | ⟨s, hs, h⟩
      · exact hrun.2 e w' h
      · have gs := hrun.1 s hs
        rw [bind_err] at h
        rcases h with h | ⟨s', hf, h⟩
        · rw [flush_errw h]; exact gs
        · rw [map_err] at h
          simp only [finalize] at h
          split at h
          · simp [raise] at h; rw [← h.2, flush_w hf]; exact gs
          · cases h

/-- a `@print` statement of some definition of the namespace, with its own line and text, under path `pf` -/
def NsPrint (defs : List Def) (pf : Nat) (p : Print) : Prop :=
  ∃ (i : Nat) (d : Def), defs[i]? = some d ∧ p ∈ specPrints pf 1 d.lines

theorem readDef_prints (defs : List Def) (pf : Nat) : ∀ fuel, DepPrints (NsPrint defs pf) ⟨0, pf, defs.length, readDef fuel defs pf, false⟩ := by
  intro fuel
  induction fuel with
  | zero => intro w j; simp only [readDef]; exact NewPrints.refl _ _
  | succ fuel ih =>
    intro w j
    simp only
    unfold readDef
    split
    · exact NewPrints.refl _ _
    · cases hd : defs[j]? with
      | none => exact NewPrints.refl _ _
      | some d =>
        simp only
        have hdep : DepPrints (NsPrint defs pf) ⟨j, pf, defs.length, readDef fuel defs pf, d.finalFault⟩ := fun w j' => ih w j'
        obtain ⟨r1, r2⟩ := readText_prints_deps (ls := d.lines) (w := w) hdep
        have hq : ∀ p, (NsPrint defs pf p ∨ p ∈ specPrints pf 1 d.lines) → NsPrint defs pf p := by
          rintro p (h | h)
          · exact h
          · exact ⟨j, d, hd, h⟩
        split
        · rename_i comp w' hr
          exact ((r1 comp w' hr).mono hq).of_eq rfl
        · rename_i e w' hr
          exact (r2 e w' hr).mono hq

/-- **`@print` with references.**  Whatever `readTargets` delivers — on success or up to the error — is a `@print`
    statement of a definition of the namespace, delivered with that statement's own line and text; the path is that of
    one of the targets (the one whose read triggered the parse). -/
theorem readTargets_prints_deps (defs : List Def) : ∀ (ts : List Nat) (w : W) (acc : List (Nat × Composite)),
    (∀ res w', readTargets defs ts w acc = .ok (res, w') → NewPrints (fun p => ∃ t ∈ ts, NsPrint defs t p) w w') ∧
    (∀ e w', readTargets defs ts w acc = .error (e, w') → NewPrints (fun p => ∃ t ∈ ts, NsPrint defs t p) w w') := by
  intro ts
  induction ts with
  | nil =>
    intro w acc
    exact ⟨fun res w' h => by simp [readTargets] at h; rw [← h.2]; exact NewPrints.refl _ _, fun e w' h => by simp [readTargets] at h⟩
  | cons t ts ih =>
    intro w acc
    have hmono : ∀ {a b : W}, NewPrints (fun p => ∃ t' ∈ ts, NsPrint defs t' p) a b →
        NewPrints (fun p => ∃ t' ∈ t :: ts, NsPrint defs t' p) a b :=
      fun h => h.mono (fun p ⟨t', ht', hp⟩ => ⟨t', List.mem_cons_of_mem _ ht', hp⟩)
    unfold readTargets
    split
    · obtain ⟨i1, i2⟩ := ih w (acc ++ [(t, _)])
      exact ⟨fun res w' h => hmono (i1 res w' h), fun e w' h => hmono (i2 e w' h)⟩
    · cases hd : defs[t]? with
      | none =>
        exact ⟨fun res w' h => (by cases h), fun e w' h => by cases h; exact NewPrints.refl _ _⟩
      | some d =>
        simp only
        have hdep : DepPrints (NsPrint defs t) ⟨t, t, defs.length, readDef defs.length defs t, d.finalFault⟩ :=
          fun w j => readDef_prints defs t defs.length w j
        obtain ⟨r1, r2⟩ := readText_prints_deps (ls := d.lines) (w := w) hdep
        have hq : ∀ p, (NsPrint defs t p ∨ p ∈ specPrints t 1 d.lines) → ∃ t' ∈ t :: ts, NsPrint defs t' p := by
          rintro p (h | h)
          · exact ⟨t, List.mem_cons_self .., h⟩
          · exact ⟨t, List.mem_cons_self .., t, d, hd, h⟩
        split
        · rename_i comp w1 hr
          have g1 := (r1 comp w1 hr).mono hq
          obtain ⟨i1, i2⟩ := ih w1 (acc ++ [(t, comp)])
          exact ⟨fun res w' h => g1.trans (hmono (i1 res w' h)), fun e w' h => g1.trans (hmono (i2 e w' h))⟩
        · rename_i e1 w1 hr
          exact ⟨fun res w' h => (by cases h), fun e w' h => by cases h; exact (r2 e1 w1 hr).mono hq⟩

end Reader
