import Proofs.NamespaceRead
import Proofs.NamespaceC10
/-! Lemmas for C19: a run of the reader never looks at the text of a definition outside the dependency closure of what
    it reads - replacing such texts in the lookup list leaves every step of the run unchanged. -/
namespace Ns

/-- replace the text of every definition -/
def retext (f : Def → Text) (d : Def) : Def := { d with text := f d }

theorem retext_key (f : Def → Text) (d : Def) : (retext f d).key = d.key := rfl

/-- the references written in a statement list / a definition text -/
def refsOf : List Stmt → List Ref
  | [] => []
  | .ref r :: rest => r :: refsOf rest
  | _ :: rest => refsOf rest

def Text.refs (t : Text) : List Ref :=
  refsOf t.req.stmts ++ (match t.resp with
    | none => []
    | some rs => refsOf rs.stmts)

/-- `C` is closed under dependencies with respect to the lookup list `L`: with a definition whose text parses it contains
    every definition of `L` that one of its references names (full name and version). -/
def DepClosed (L : List Def) (C : Def → Prop) : Prop :=
  ∀ d, C d → d.text.garbage = false → ∀ r ∈ d.text.refs, ∀ x ∈ L, x.key = (completeName d r.name, r.major, r.minor) → C x

theorem DepClosed.drop {L : List Def} {C : Def → Prop} (h : DepClosed L C) (y : Def) : DepClosed (dropKey L y) C :=
  fun d hd hg r hr x hx hk => h d hd hg r hr x (dropKey_sub hx) hk

/-- resolution filters the lookup list by name and version only -/
theorem resolve_retext (f : Def → Text) (L : List Def) (d : Def) (r : Ref) :
    resolve (L.map (retext f)) (retext f d) r = (resolve L d r).map (retext f) := by
  unfold resolve
  have hc : completeName (retext f d) r.name = completeName d r.name := rfl
  rw [hc, List.filter_map]
  have : (refMatches (completeName d r.name) r.major r.minor ∘ retext f) = refMatches (completeName d r.name) r.major r.minor := by
    funext y; rfl
  rw [this]
  generalize L.filter (refMatches (completeName d r.name) r.major r.minor) = F
  match F with
  | [] => rfl
  | [x] =>
    simp only [List.map, pick]
    have : (retext f x).name = x.name := rfl
    rw [this]
    split <;> rfl
  | x :: y :: _ =>
    simp only [List.map, pick]
    have h1 : (retext f x).name = x.name := rfl
    have h2 : (retext f y).name = y.name := rfl
    rw [h1, h2]
    split <;> rfl

theorem dropKey_retext (f : Def → Text) (L : List Def) (d : Def) :
    dropKey (L.map (retext f)) d = (dropKey L d).map (retext f) := by
  unfold dropKey
  rw [List.filter_map]
  rfl

/-- the body of `runStmts` after a successfully resolved reference -/
def afterRef (L : List Def) (d : Def) (rd : (x : Def) → x ∈ L → St → Res Ty) (rest : List Stmt) (out : Res Ty) :
    Res (List (Option Nat) × List Ty) :=
  match out with
  | (.error e, st1) => (.error e, st1)
  | (.ok t, st1) =>
    if t.info.isService then (.error .serviceField, st1)
    else match runStmts L d rd rest st1 with
      | (.ok (sh, ns), st2) => (.ok (none :: sh, t :: ns), st2)
      | (.error e, st2) => (.error e, st2)

theorem runStmts_ref_ok {L : List Def} {d : Def} {rd : (x : Def) → x ∈ L → St → Res Ty} {r : Ref} {x : Def}
    (h : resolve L d r = .ok x) (rest : List Stmt) (st : St) :
    runStmts L d rd (.ref r :: rest) st =
      afterRef L d rd rest (rd x (resolve_mem h) { st with visited := st.visited ++ [x] }) := by
  simp only [runStmts]
  split
  · rename_i e he
    rw [h] at he; cases he
  · rename_i x' hx'
    have : x' = x := by rw [h] at hx'; exact (Except.ok.inj hx').symm
    subst this
    rfl

theorem runStmts_ref_err {L : List Def} {d : Def} {rd : (x : Def) → x ∈ L → St → Res Ty} {r : Ref} {e : Err}
    (h : resolve L d r = .error e) (rest : List Stmt) (st : St) :
    runStmts L d rd (.ref r :: rest) st = (.error e, st) := by
  simp only [runStmts]
  split
  · rename_i e' he
    rw [h] at he; cases he; rfl
  · rename_i x' hx'
    rw [h] at hx'; cases hx'

/-! ### everything a read visits lies in the closure -/

def VisC (C : Def → Prop) (st : St) : Prop := ∀ y ∈ st.visited, C y

theorem runStmts_visC (C : Def → Prop) {L : List Def} {d : Def} (rd : (x : Def) → x ∈ L → St → Res Ty)
    (hrd : ∀ x hx s, C x → VisC C s → VisC C (rd x hx s).2) :
    ∀ (stmts : List Stmt), (∀ r ∈ refsOf stmts, ∀ x, resolve L d r = .ok x → C x) →
      ∀ st, VisC C st → VisC C (runStmts L d rd stmts st).2 := by
  intro stmts
  induction stmts with
  | nil => intro _ st hv; simpa only [runStmts] using hv
  | cons s rest ih =>
    intro hrefs st hv
    cases s with
    | prim b =>
      have := ih (fun r hr => hrefs r (by simpa [refsOf] using hr)) st hv
      simp only [runStmts]
      split
      · rename_i heq; rw [heq] at this; exact this
      · rename_i heq; rw [heq] at this; exact this
    | print n =>
      simp only [runStmts]
      exact ih (fun r hr => hrefs r (by simpa [refsOf] using hr)) _ hv
    | bad => simpa only [runStmts] using hv
    | ref r =>
      have ih' := ih (fun r' hr' => hrefs r' (by simp [refsOf, hr']))
      cases hres : resolve L d r with
      | error e => rw [runStmts_ref_err hres]; exact hv
      | ok x =>
        have hcx : C x := hrefs r (by simp [refsOf]) x hres
        rw [runStmts_ref_ok hres]
        have h1 := hrd x (resolve_mem hres) { st with visited := st.visited ++ [x] } hcx (by
          intro y hy
          rcases List.mem_append.mp hy with hy | hy
          · exact hv y hy
          · simp only [List.mem_singleton] at hy; rw [hy]; exact hcx)
        unfold afterRef
        split
        · rename_i heq; rw [heq] at h1; exact h1
        · rename_i t st1 heq
          rw [heq] at h1
          split
          · exact h1
          · have := ih' st1 h1
            split
            · rename_i heq2; rw [heq2] at this; exact this
            · rename_i heq2; rw [heq2] at this; exact this

theorem readBody_visC (C : Def → Prop) (au : Bool) {L : List Def} {d : Def} (hd : C d) (hcl : DepClosed L C)
    (rd : (x : Def) → x ∈ L → St → Res Ty) (hrd : ∀ x hx s, C x → VisC C s → VisC C (rd x hx s).2) (st : St)
    (hv : VisC C st) : VisC C (readBody au L d rd st).2 := by
  unfold readBody
  by_cases hg : d.text.garbage = true
  · simpa [hg] using hv
  · have hg' : d.text.garbage = false := by simpa using hg
    have hres : ∀ r ∈ d.text.refs, ∀ x, resolve L d r = .ok x → C x := by
      intro r hr x hx
      obtain ⟨hxL, hn, hma, hmi, _⟩ := resolve_ok hx
      exact hcl d hd hg' r hr x hxL (by simp [Def.key, hn, hma, hmi])
    have h1 := runStmts_visC C rd hrd d.text.req.stmts (fun r hr => hres r (by simp [Text.refs, hr])) st hv
    simp only [hg', Bool.false_eq_true, if_false]
    split
    · rename_i heq; rw [heq] at h1; exact h1
    · rename_i sh1 n1 st1 heq
      rw [heq] at h1
      split
      · exact h1
      · rename_i rs hresp
        have h2 := runStmts_visC C rd hrd rs.stmts (fun r hr => hres r (by simp [Text.refs, hresp, hr])) st1 h1
        split
        · rename_i heq2; rw [heq2] at h2; exact h2
        · rename_i heq2; rw [heq2] at h2; exact h2

theorem readObj_visC (C : Def → Prop) (au : Bool) (L : List Def) (d : Def) (st : St) (hcl : DepClosed L C) (hd : C d)
    (hv : VisC C st) : VisC C (readObj au L d st).2 := by
  induction L, d, st using readObj.induct au with
  | case1 L d st t ht =>
    rw [readObj]; simp only [ht]; exact hv
  | case2 L d st hn t st' hb ih =>
    have := readBody_visC C au hd (hcl.drop d) (fun x hx s => readObj au (dropKey L d) x s)
      (fun x hx s hcx hs => ih x hx s (hcl.drop d) hcx hs) st hv
    rw [readObj]; simp only [hn, hb]
    rw [hb] at this; exact this
  | case3 L d st hn e st' hb ih =>
    have := readBody_visC C au hd (hcl.drop d) (fun x hx s => readObj au (dropKey L d) x s)
      (fun x hx s hcx hs => ih x hx s (hcl.drop d) hcx hs) st hv
    rw [readObj]; simp only [hn, hb]
    rw [hb] at this; exact this

section Sim
variable (f : Def → Text) (C : Def → Prop) (hC : ∀ x, C x → retext f x = x)
include hC

theorem resolve_sim {L : List Def} {d : Def} (hd : C d) (r : Ref) :
    resolve (L.map (retext f)) d r = (resolve L d r).map (retext f) := by
  have := resolve_retext f L d r
  rw [hC d hd] at this
  exact this

/-- the statements of one section run identically against the re-texted lookup list -/
theorem runStmts_sim {L : List Def} {d : Def} (hd : C d)
    (rd' : (x : Def) → x ∈ L.map (retext f) → St → Res Ty) (rd : (x : Def) → x ∈ L → St → Res Ty)
    (hrd : ∀ x hx hx' s, C x → rd' x hx' s = rd x hx s) :
    ∀ (stmts : List Stmt), (∀ r ∈ refsOf stmts, ∀ x, resolve L d r = .ok x → C x) →
      ∀ st, runStmts (L.map (retext f)) d rd' stmts st = runStmts L d rd stmts st := by
  intro stmts
  induction stmts with
  | nil => intro _ st; simp only [runStmts]
  | cons s rest ih =>
    intro hrefs st
    cases s with
    | prim b =>
      simp only [runStmts]
      rw [ih (fun r hr => hrefs r (by simpa [refsOf] using hr))]
    | print n =>
      simp only [runStmts]
      rw [ih (fun r hr => hrefs r (by simpa [refsOf] using hr))]
    | bad => simp only [runStmts]
    | ref r =>
      have hsim := resolve_sim f C hC (L := L) hd r
      have ih' := ih (fun r' hr' => hrefs r' (by simp [refsOf, hr']))
      cases hres : resolve L d r with
      | error e =>
        rw [hres] at hsim
        rw [runStmts_ref_err hres, runStmts_ref_err hsim]
      | ok x =>
        have hcx : C x := hrefs r (by simp [refsOf]) x hres
        rw [hres] at hsim
        have hsim' : resolve (L.map (retext f)) d r = .ok x := by rw [hsim]; simp [Except.map, hC x hcx]
        rw [runStmts_ref_ok hres, runStmts_ref_ok hsim', hrd x (resolve_mem hres) (resolve_mem hsim') _ hcx]
        unfold afterRef
        simp only [ih']

theorem readBody_sim (au : Bool) {L : List Def} {d : Def} (hd : C d) (hcl : DepClosed L C)
    (rd' : (x : Def) → x ∈ L.map (retext f) → St → Res Ty) (rd : (x : Def) → x ∈ L → St → Res Ty)
    (hrd : ∀ x hx hx' s, C x → rd' x hx' s = rd x hx s) (st : St) :
    readBody au (L.map (retext f)) d rd' st = readBody au L d rd st := by
  unfold readBody
  by_cases hg : d.text.garbage = true
  · simp [hg]
  · have hg' : d.text.garbage = false := by simpa using hg
    have hres : ∀ r ∈ d.text.refs, ∀ x, resolve L d r = .ok x → C x := by
      intro r hr x hx
      obtain ⟨hxL, hn, hma, hmi, _⟩ := resolve_ok hx
      exact hcl d hd hg' r hr x hxL (by simp [Def.key, hn, hma, hmi])
    have e1 := funext (runStmts_sim f C hC hd rd' rd hrd d.text.req.stmts
      (fun r hr => hres r (by simp [Text.refs, hr])))
    rw [e1]
    cases hresp : d.text.resp with
    | none => rfl
    | some rs =>
      have e2 := funext (runStmts_sim f C hC hd rd' rd hrd rs.stmts
        (fun r hr => hres r (by simp [Text.refs, hresp, hr])))
      simp only [e2]

/-- One `read` of a definition of a dependency-closed set is blind to the texts outside the set. -/
theorem readObj_sim (au : Bool) (L : List Def) (d : Def) (st : St) (hcl : DepClosed L C) (hd : C d) :
    readObj au (L.map (retext f)) d st = readObj au L d st := by
  induction L, d, st using readObj.induct au with
  | case1 L d st t ht =>
    rw [readObj, readObj]
    simp only [ht]
  | case2 L d st hn t st' hb ih =>
    rw [readObj, readObj]
    simp only [hn]
    rw [dropKey_retext]
    rw [readBody_sim f C hC au hd (hcl.drop d) _ (fun x hx s => readObj au (dropKey L d) x s)
      (fun x hx hx' s hcx => ih x hx s (hcl.drop d) hcx)]
  | case3 L d st hn e st' hb ih =>
    rw [readObj, readObj]
    simp only [hn]
    rw [dropKey_retext]
    rw [readBody_sim f C hC au hd (hcl.drop d) _ (fun x hx s => readObj au (dropKey L d) x s)
      (fun x hx hx' s hcx => ih x hx s (hcl.drop d) hcx)]

end Sim

/-! ### the direct / transitive book-keeping -/

def PoolC (C : Def → Prop) (pool : List (Path × Def)) : Prop := ∀ p o, (p, o) ∈ pool → C o

theorem setDefault_poolC {C : Def → Prop} {pool pool' : List (Path × Def)} {d d' : Def}
    (h : setDefault pool d = (d', pool')) (hd : C d) (hp : PoolC C pool) : C d' ∧ PoolC C pool' := by
  unfold setDefault at h
  split at h
  · rename_i o ho
    cases h
    exact ⟨hp _ _ (lookup_mem ho), hp⟩
  · cases h
    refine ⟨hd, ?_⟩
    intro p o hm
    rcases List.mem_cons.mp hm with e | hm
    · cases e; exact hd
    · exact hp p o hm

theorem mem_dedupKeys {l : List Def} {x : Def} (h : x ∈ dedupKeys l) : x ∈ l := by
  induction l with
  | nil => simp [dedupKeys] at h
  | cons a r ih =>
    simp only [dedupKeys, List.mem_cons, List.mem_filter] at h
    rcases h with h | h
    · exact List.mem_cons.mpr (Or.inl h)
    · exact List.mem_cons_of_mem _ (ih h.1)

theorem mem_sortDefs {l : List Def} {x : Def} : x ∈ sortDefs l ↔ x ∈ l := by
  unfold sortDefs; exact List.mem_mergeSort

section Sim2
variable (f : Def → Text) (C : Def → Prop) (hC : ∀ x, C x → retext f x = x)
include hC

theorem level1_sim (au : Bool) (L : List Def) (hcl : DepClosed L C) (pend : List Def) (b : Book)
    (hp : ∀ p ∈ pend, C p) (hpool : PoolC C b.pool) :
    level1 au (L.map (retext f)) pend b = level1 au L pend b ∧
      ∀ b' s, level1 au L pend b = (.ok b', s) → PoolC C b'.pool := by
  induction pend, b using level1.induct au L with
  | case1 b =>
    rw [level1, level1]
    exact ⟨rfl, fun b' s h => by cases h; exact hpool⟩
  | case2 p rest b p' pool hsd b1 t hl hc ih =>
    obtain ⟨hcp', hpool'⟩ := setDefault_poolC hsd (hp p (by simp)) hpool
    have := ih (fun q hq => hp q (by simp [hq])) hpool'
    rw [level1, level1]
    simp only [hsd]
    simp only [b1] at hl hc this
    simp only [hl, hc, if_true]
    exact this
  | case3 p rest b p' pool hsd b1 t hl hc ih =>
    obtain ⟨hcp', hpool'⟩ := setDefault_poolC hsd (hp p (by simp)) hpool
    have := ih (fun q hq => hp q (by simp [hq])) hpool'
    rw [level1, level1]
    simp only [hsd]
    simp only [b1] at hl hc this
    simp only [hl, hc]
    exact this
  | case4 p rest b p' pool hsd b1 hl e st1 hr =>
    obtain ⟨hcp', hpool'⟩ := setDefault_poolC hsd (hp p (by simp)) hpool
    rw [level1, level1]
    simp only [hsd]
    simp only [b1] at hl hr
    simp only [hl, readObj_sim f C hC au L p' b.st hcl hcp', hr]
    exact ⟨trivial, fun b' s h => by cases h⟩
  | case5 p rest b p' pool hsd b1 hl t st1 hr ih =>
    obtain ⟨hcp', hpool'⟩ := setDefault_poolC hsd (hp p (by simp)) hpool
    have := ih (fun q hq => hp q (by simp [hq])) hpool'
    rw [level1, level1]
    simp only [hsd]
    simp only [b1] at hl hr this
    simp only [hl, readObj_sim f C hC au L p' b.st hcl hcp', hr]
    exact this

theorem level0_sim (au : Bool) (L : List Def) (hcl : DepClosed L C) (ts : List Def) (b : Book)
    (ht : ∀ t ∈ ts, C t) (hpool : PoolC C b.pool) :
    level0 au (L.map (retext f)) ts b = level0 au L ts b := by
  induction ts, b using level0.induct au L with
  | case1 b => rw [level0, level0]
  | case2 p rest b p' pool hsd b1 skip b' hs ih =>
    obtain ⟨hcp', hpool'⟩ := setDefault_poolC hsd (ht p (by simp)) hpool
    have hb' : b'.pool = pool := by
      simp only [skip, b1] at hs
      split at hs
      · split at hs
        · cases hs; rfl
        · split at hs
          · cases hs; rfl
          · cases hs
      · cases hs
    have := ih (fun q hq => ht q (by simp [hq])) (by rw [hb']; exact hpool')
    rw [level0, level0]
    simp only [hsd]
    simp only [skip, b1] at hs
    simp only [hs]
    exact this
  | case3 p rest b p' pool hsd b1 skip hs e st1 hr =>
    obtain ⟨hcp', hpool'⟩ := setDefault_poolC hsd (ht p (by simp)) hpool
    rw [level0, level0]
    simp only [hsd]
    simp only [skip, b1] at hs hr
    simp only [hs, readObj_sim f C hC au L p' _ hcl hcp', hr]
  | case4 p rest b p' pool hsd b1 skip hs t st1 hr b2 pending e st hl =>
    obtain ⟨hcp', hpool'⟩ := setDefault_poolC hsd (ht p (by simp)) hpool
    have hvis := readObj_visC C au L p' { b.st with visited := [] } hcl hcp' (by intro y hy; cases hy)
    rw [level0, level0]
    simp only [hsd]
    simp only [skip, b1] at hs hr
    rw [hr] at hvis
    simp only [hs, readObj_sim f C hC au L p' _ hcl hcp', hr]
    have h1 := (level1_sim f C hC au L hcl (sortDefs pending) b2 (by
      intro q hq
      have := mem_dedupKeys (mem_sortDefs.mp hq)
      exact hvis q (List.mem_filter.mp this).1) hpool').1
    simp only [pending, b2, b1] at h1 hl
    simp only [h1, hl]
  | case5 p rest b p' pool hsd b1 skip hs t st1 hr b2 pending b' snd hl ih =>
    obtain ⟨hcp', hpool'⟩ := setDefault_poolC hsd (ht p (by simp)) hpool
    have hvis := readObj_visC C au L p' { b.st with visited := [] } hcl hcp' (by intro y hy; cases hy)
    rw [level0, level0]
    simp only [hsd]
    simp only [skip, b1] at hs hr
    rw [hr] at hvis
    simp only [hs, readObj_sim f C hC au L p' _ hcl hcp', hr]
    have h1 := level1_sim f C hC au L hcl (sortDefs pending) b2 (by
      intro q hq
      have := mem_dedupKeys (mem_sortDefs.mp hq)
      exact hvis q (List.mem_filter.mp this).1) hpool'
    have := ih (fun q hq => ht q (by simp [hq])) (h1.2 b' snd hl)
    have h1' := h1.1
    simp only [pending, b2, b1] at h1' hl
    simp only [h1', hl]
    exact this

end Sim2

/-! ### the entry points: replacing texts in the file system -/

/-- the file system in which the file at path `p` with text `t` has the text `f p t` instead -/
def retextE (f : Path → Text → Text) (e : FileEntry) : FileEntry := { e with text := f (e.dir ++ e.sub ++ [e.fname]) e.text }

/-- the same replacement on definition objects -/
abbrev retextD (f : Path → Text → Text) : Def → Def := retext fun d => f d.path d.text

theorem mkDef_retextE (f : Path → Text → Text) (tgt : Bool) (e : FileEntry) :
    mkDef tgt (retextE f e) = (mkDef tgt e).map (retextD f) := by
  unfold mkDef retextE
  simp only
  split
  · rfl
  · split
    · rfl
    · split <;> rfl

theorem mapMDefs_retextE (f : Path → Text → Text) (tgt : Bool) (l : List FileEntry) :
    mapMDefs tgt (l.map (retextE f)) = (mapMDefs tgt l).map (List.map (retextD f)) := by
  induction l with
  | nil => rfl
  | cons e r ih =>
    rw [List.map_cons, mapMDefs_cons, mapMDefs_cons, ih, mkDef_retextE]
    cases mkDef tgt e <;> cases mapMDefs tgt r <;> rfl

theorem sortDefs_retext (g : Def → Text) (ds : List Def) : sortDefs (ds.map (retext g)) = (sortDefs ds).map (retext g) := by
  unfold sortDefs
  exact (List.map_mergeSort (r := fun a b : Def => keyLe a.key b.key) (s := fun a b : Def => keyLe a.key b.key)
    (f := retext g) (l := ds) (fun a _ b _ => rfl)).symm

theorem collect_retextE (f : Path → Text → Text) (tgt : Bool) (files : List FileEntry) (dirs : List Path) :
    collect tgt (files.map (retextE f)) dirs = (collect tgt files dirs).map (List.map (retextD f)) := by
  unfold collect
  have : (files.map (retextE f)).filter (fun e => dirs.contains e.dir && isDefinitionFile e.fname) =
      (files.filter (fun e => dirs.contains e.dir && isDefinitionFile e.fname)).map (retextE f) := by
    rw [List.filter_map]; rfl
  rw [this, mapMDefs_retextE]
  cases mapMDefs tgt (files.filter fun e => dirs.contains e.dir && isDefinitionFile e.fname) with
  | error e => rfl
  | ok ds =>
    show Except.ok (sortDefs (ds.map (retextD f))) = _
    rw [sortDefs_retext]; rfl

/-! ### two file systems with the same file names -/

def FileEntry.path (e : FileEntry) : Path := e.dir ++ e.sub ++ [e.fname]

/-- the text the second file system has at path `p` (the text `t` of the first one if `p` does not occur) -/
def textAt (pairs : List (FileEntry × FileEntry)) (p : Path) (t : Text) : Text :=
  match pairs.find? (fun q => q.1.path == p) with
  | some q => q.2.text
  | none => t

theorem textAt_append_of_not_mem {pre post : List (FileEntry × FileEntry)} {p : Path} (h : ∀ q ∈ pre, q.1.path ≠ p) (t : Text) :
    textAt (pre ++ post) p t = textAt post p t := by
  unfold textAt
  rw [List.find?_append]
  have : pre.find? (fun q => q.1.path == p) = none := by
    apply List.find?_eq_none.mpr
    intro q hq
    simpa using h q hq
  rw [this]; rfl

/-- A second enumeration with the same file names (and distinct paths) is the first one with texts replaced. -/
theorem same_names_retextE : ∀ (files files' : List FileEntry) (pre : List (FileEntry × FileEntry)),
    files.map (fun e => (e.dir, e.sub, e.fname)) = files'.map (fun e => (e.dir, e.sub, e.fname)) →
    (files.map FileEntry.path).Nodup → (∀ q ∈ pre, ∀ e ∈ files, q.1.path ≠ e.path) →
    files' = files.map (retextE (textAt (pre ++ files.zip files')))
  | [], [], _, _, _, _ => rfl
  | [], _ :: _, _, h, _, _ => by simp at h
  | _ :: _, [], _, h, _, _ => by simp at h
  | e :: r, e' :: r', pre, h, hnd, hpre => by
    simp only [List.map_cons, List.cons.injEq, Prod.mk.injEq] at h
    obtain ⟨⟨h1, h2, h3⟩, hr⟩ := h
    simp only [List.map_cons, List.nodup_cons] at hnd
    simp only [List.zip_cons_cons, List.map_cons]
    congr 1
    · have : textAt (pre ++ (e, e') :: r.zip r') (e.dir ++ e.sub ++ [e.fname]) e.text = e'.text := by
        show textAt (pre ++ (e, e') :: r.zip r') e.path e.text = e'.text
        rw [textAt_append_of_not_mem (fun q hq => hpre q hq e (by simp))]
        simp [textAt]
      cases e; cases e'
      simp only [retextE] at this ⊢
      simp only at h1 h2 h3
      rw [this, h1, h2, h3]
    · have := same_names_retextE r r' (pre ++ [(e, e')]) hr hnd.2 (by
        intro q hq x hx
        rcases List.mem_append.mp hq with hq | hq
        · exact hpre q hq x (List.mem_cons_of_mem _ hx)
        · simp only [List.mem_singleton] at hq
          rw [hq]
          intro heq
          exact hnd.1 (by rw [heq]; exact List.mem_map.mpr ⟨x, hx, rfl⟩))
      rw [List.append_assoc] at this
      exact this

theorem textAt_zip_of_mem {files files' : List FileEntry} {e : FileEntry}
    (hlen : files.length = files'.length) (hnd : (files.map FileEntry.path).Nodup) (he : e ∈ files) (t : Text) :
    ∃ e', (e, e') ∈ files.zip files' ∧ textAt (files.zip files') e.path t = e'.text := by
  induction files generalizing files' with
  | nil => cases he
  | cons a r ih =>
    cases files' with
    | nil => simp at hlen
    | cons a' r' =>
      simp only [List.map_cons, List.nodup_cons] at hnd
      rcases List.mem_cons.mp he with rfl | he
      · exact ⟨a', by simp, by simp [textAt]⟩
      · obtain ⟨e', hz, ht⟩ := ih (files' := r') (by simpa using hlen) hnd.2 he
        refine ⟨e', by simp [hz], ?_⟩
        have hne : a.path ≠ e.path := fun heq => hnd.1 (by rw [heq]; exact List.mem_map.mpr ⟨e, he, rfl⟩)
        have := textAt_append_of_not_mem (pre := [(a, a')]) (post := r.zip r') (p := e.path)
          (by intro q hq; simp only [List.mem_singleton] at hq; rw [hq]; exact hne) t
        simp only [List.zip_cons_cons]
        rw [show (a, a') :: r.zip r' = [(a, a')] ++ r.zip r' from rfl, this, ht]

/-- the dependency closure of the targets `ts` in the lookup list `L`: the least set that contains the targets and, with a
    definition whose text parses, every definition of `L` that one of its references names -/
inductive DepClosure (L ts : List Def) : Def → Prop where
  | target {t : Def} : t ∈ ts → DepClosure L ts t
  | dep {d x : Def} {r : Ref} : DepClosure L ts d → d.text.garbage = false → r ∈ d.text.refs → x ∈ L →
      x.key = (completeName d r.name, r.major, r.minor) → DepClosure L ts x

theorem DepClosure.mem {L ts : List Def} {d : Def} (h : DepClosure L ts d) : d ∈ L ∨ d ∈ ts := by
  cases h with
  | target h => exact Or.inr h
  | dep _ _ _ hx _ => exact Or.inl hx

theorem DepClosure.closed (L ts : List Def) : DepClosed L (DepClosure L ts) :=
  fun _ hd hg _ hr _ hx hk => DepClosure.dep hd hg hr hx hk

theorem DepClosure.least {L ts : List Def} {C : Def → Prop} (ht : ∀ t ∈ ts, C t) (hc : DepClosed L C) {d : Def}
    (h : DepClosure L ts d) : C d := by
  induction h with
  | target h => exact ht _ h
  | dep _ hg hr hx hk ih => exact hc _ ih hg _ hr _ hx hk

/-- `_complete_read_function` does not see a replacement of texts outside the dependency closure of its targets -/
theorem completeRead_retextE (f : Path → Text → Text) (au : Bool) (files : List FileEntry) (targets : List Def) (dirs : List Path)
    (h : ∀ L, collect false files dirs = .ok L → ∀ d, DepClosure L targets d → f d.path d.text = d.text) :
    completeRead au (files.map (retextE f)) targets dirs = completeRead au files targets dirs := by
  unfold completeRead
  rw [collect_retextE]
  cases hL : collect false files dirs with
  | error e => rfl
  | ok L =>
    have hC : ∀ x, DepClosure L targets x → retext (fun d => f d.path d.text) x = x := by
      intro x hx
      have := h L hL x hx
      cases x
      simp only [retext] at this ⊢
      rw [this]
    simp only [Except.map]
    rw [level0_sim _ _ hC au L (DepClosure.closed L targets) targets {} (fun t ht => DepClosure.target ht)
      (by intro p o hm; cases hm)]

end Ns
