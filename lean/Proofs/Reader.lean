import Model.Reader
/-! Lemmas about the reader model (`Model/Reader.lean`): the fold invariant behind `C03.mirror`, the behaviour of
    `flush`, and the location lemmas behind `C17.line`. -/
namespace Reader

theorem bind_ok {ε α β : Type} (x : Except ε α) (f : α → Except ε β) (b : β) :
    (x >>= f) = .ok b ↔ ∃ a, x = .ok a ∧ f a = .ok b := by
  cases x <;> simp [bind, Except.bind]

theorem bind_err {ε α β : Type} (x : Except ε α) (f : α → Except ε β) (e : ε) :
    (x >>= f) = .error e ↔ x = .error e ∨ ∃ a, x = .ok a ∧ f a = .error e := by
  cases x <;> simp [bind, Except.bind]

theorem map_ok {ε α β : Type} (x : Except ε α) (f : α → β) (b : β) :
    (x.map f) = .ok b ↔ ∃ a, x = .ok a ∧ f a = b := by
  cases x <;> simp [Except.map]

theorem map_err {ε α β : Type} (x : Except ε α) (f : α → β) (e : ε) :
    (x.map f) = .error e ↔ x = .error e := by
  cases x <;> simp [Except.map]

/-! ### The declarative reading of a statement list (what the source says) -/

/-- what the source says about one schema -/
structure SegSpec where
  fields : List Core
  consts : List Core
  union : Bool
  mode : Option Mode
  deriving Repr, DecidableEq

def SegSpec.empty : SegSpec := ⟨[], [], false, none⟩

structure Spec where
  done : List SegSpec
  cur : SegSpec
  deprecated : Bool
  deriving Repr, DecidableEq

def Spec.init : Spec := ⟨[], SegSpec.empty, false⟩

def SegSpec.addAttr (g : SegSpec) (c : Core) : SegSpec :=
  match c.kind with
  | .const => { g with consts := g.consts ++ [c] }
  | _ => { g with fields := g.fields ++ [c] }

/-- the effect of one line on the declarative reading: attribute statements are appended in source order (fields and
    paddings to one list, constants to the other), `@union` / `@deprecated` / `@sealed` / `@extent n` set the flag,
    `---` starts the next schema; nothing else matters (comments, blank lines, `@print`, `@assert`) -/
def Spec.step (a : Spec) (l : Line) : Spec :=
  match l.stmt with
  | some (.attr c) => { a with cur := a.cur.addAttr c }
  | some .marker => { a with done := a.done ++ [a.cur], cur := SegSpec.empty }
  | some (.directive name e _) =>
    if name = "union" then { a with cur := { a.cur with union := true } }
    else if name = "deprecated" then { a with deprecated := true }
    else if name = "sealed" then { a with cur := { a.cur with mode := a.cur.mode <|> some .sealed } }
    else if name = "extent" then
      match e with
      | some (.rational n) => { a with cur := { a.cur with mode := a.cur.mode <|> some (.extent n) } }
      | _ => a
    else a
  | none => a

def Spec.of (ls : List Line) : Spec := ls.foldl Spec.step Spec.init

def Spec.schemas (a : Spec) : List SegSpec := a.done ++ [a.cur]

/-- the same view of a built schema -/
def Schema.view (s : Schema) : SegSpec := ⟨s.fields.map (·.core), s.consts.map (·.core), s.union, s.mode⟩

/-! ### flush -/

/-- the view of the current schema with the queued attribute counted in -/
def St.curView (s : St) : SegSpec :=
  match s.pending with
  | some (a, _) => s.cur.view.addAttr a.core
  | none => s.cur.view

def RInv (s : St) (a : Spec) : Prop :=
  (s.pending.isSome → s.header = false) ∧
  s.done.map Schema.view = a.done ∧ s.curView = a.cur ∧ s.deprecated = a.deprecated

theorem commitAttr_ok {c k s a bad doc s'} (h : commitAttr c k s a bad doc = .ok s') :
    s'.pending = none ∧ s'.cur.view = s.cur.view.addAttr a.core ∧ s'.done = s.done ∧ s'.deprecated = s.deprecated ∧
    s'.header = s.header ∧ s'.w = s.w ∧ s'.comment = s.comment ∧ s'.cur.doc = s.cur.doc := by
  unfold commitAttr at h
  split at h
  · simp [raise] at h
  · split at h
    · cases h; simp [Schema.view, SegSpec.addAttr, *]
    · split at h
      · simp [raise] at h
      · cases h
        rename_i hk _
        cases hk' : a.core.kind <;> simp_all [Schema.view, SegSpec.addAttr]

theorem flushAttr_ok {c k s doc s'} (h : flushAttr c k s doc = .ok s') :
    s'.pending = none ∧ s'.cur.view = s.curView ∧ s'.done = s.done ∧ s'.deprecated = s.deprecated ∧
    s'.header = s.header ∧ s'.w = s.w ∧ s'.comment = s.comment ∧ s'.cur.doc = s.cur.doc := by
  unfold flushAttr at h
  cases hp : s.pending with
  | none => simp [hp] at h; subst h; simp [St.curView, hp]
  | some p =>
    obtain ⟨a, bad⟩ := p
    simp [hp] at h
    have := commitAttr_ok h
    simp [St.curView, hp]; exact this

theorem flush_ok {c k s s'} (h : flush c k s = .ok s') (hi : s.pending.isSome → s.header = false) :
    s'.pending = none ∧ s'.header = false ∧ s'.comment = "" ∧ s'.cur.view = s.curView ∧ s'.done = s.done ∧
    s'.deprecated = s.deprecated ∧ s'.w = s.w := by
  unfold flush at h
  split at h
  · rename_i hh
    cases h
    have hp : s.pending = none := by
      cases hp : s.pending with
      | none => rfl
      | some p => have := hi (by simp [hp]); simp [hh] at this
    simp [St.curView, hp, Schema.view]
  · rw [map_ok] at h
    obtain ⟨s1, h1, h2⟩ := h
    subst h2
    have := flushAttr_ok h1
    obtain ⟨a1, a2, a3, a4, _, a6, _, _⟩ := this
    simp; exact ⟨a1, a2, a3, a4, a6⟩

theorem flush_rinv {c k s s' a} (h : flush c k s = .ok s') (hr : RInv s a) :
    RInv s' a ∧ s'.pending = none ∧ s'.header = false ∧ s'.comment = "" ∧ s'.w = s.w := by
  obtain ⟨h0, h1, h2, h3⟩ := hr
  obtain ⟨p, q, r, v, d, e, f⟩ := flush_ok h h0
  refine ⟨⟨by simp [p], by rw [d]; exact h1, ?_, by rw [e]; exact h3⟩, p, q, r, f⟩
  simp [St.curView, p]; rw [v]; exact h2

/-! ### the other visitor steps -/

theorem resolveRefs_ok {c k s rs s'} (h : resolveRefs c k s rs = .ok s') : s' = s := by
  induction rs with
  | nil => simp [resolveRefs] at h; exact h.symm
  | cons r rs ih =>
    unfold resolveRefs at h
    split at h
    · exact ih h
    · simp [raise] at h

theorem readDeps_ok {c k s js s'} (h : readDeps c k s js = .ok s') : ∃ w', s' = { s with w := w' } := by
  induction js generalizing s with
  | nil => simp [readDeps] at h; exact ⟨s.w, by subst h; rfl⟩
  | cons j js ih =>
    unfold readDeps at h
    split at h
    · simp [raise] at h
    · split at h
      · obtain ⟨w', hw⟩ := ih h
        exact ⟨w', by rw [hw]⟩
      · simp at h

theorem onAttr_ok {c k s core bad s'} (h : onAttr c k s core bad = .ok s') (hp : s.pending = none) :
    s'.pending = some (⟨core, "", k⟩, bad) ∧ s'.cur = s.cur ∧ s'.done = s.done ∧ s'.deprecated = s.deprecated ∧
    s'.header = s.header ∧ s'.w = s.w ∧ s'.comment = s.comment := by
  unfold onAttr at h
  split at h
  · simp [raise] at h
  · rw [map_ok] at h
    obtain ⟨s1, h1, h2⟩ := h
    simp [flushAttr, hp] at h1
    subst h1; subst h2; simp

theorem onMarker_ok {c k s s'} (h : onMarker c k s = .ok s') :
    s' = { s with done := s.done ++ [s.cur], cur := Schema.empty, header := true } := by
  unfold onMarker at h
  split at h
  · simp [raise] at h
  · cases h; rfl

theorem onDirective_rinv {c k s name e text s' a} {l : Line} (hl : l.stmt = some (.directive name e text))
    (h : onDirective c k s name e text = .ok s') (hp : s.pending = none) (hr : RInv s a) :
    RInv s' (a.step l) ∧ s'.pending = none ∧ s'.header = s.header ∧ s'.comment = s.comment := by
  obtain ⟨h0, h1, h2, h3⟩ := hr
  simp only [St.curView, hp] at h2
  unfold onDirective at h
  simp only [Spec.step, hl]
  split at h
  · cases h; rename_i hn
    have : ¬ (name = "union") := by rw [hn]; decide
    have : ¬ (name = "deprecated") := by rw [hn]; decide
    have : ¬ (name = "sealed") := by rw [hn]; decide
    have : ¬ (name = "extent") := by rw [hn]; decide
    simp_all [RInv, St.curView]
  · split at h
    · rename_i hn1 hn
      have : ¬ (name = "union") := by rw [hn]; decide
      have : ¬ (name = "deprecated") := by rw [hn]; decide
      have : ¬ (name = "sealed") := by rw [hn]; decide
      have : ¬ (name = "extent") := by rw [hn]; decide
      split at h
      · cases h; simp_all [RInv, St.curView]
      · simp [raise] at h
    · split at h
      · rename_i hn
        have : ¬ (name = "union") := by rw [hn]; decide
        have : ¬ (name = "deprecated") := by rw [hn]; decide
        have : ¬ (name = "sealed") := by rw [hn]; decide
        split at h
        · simp [raise] at h
        · split at h
          · cases h
            rename_i hm _ _ _
            have hm' : s.cur.mode = none := by
              cases hq : s.cur.mode <;> simp_all
            have hm2 : a.cur.mode = none := by rw [← h2]; simp [Schema.view, hm']
            simp_all [RInv, St.curView, Schema.view]
            rw [← h2]; simp
          · simp [raise] at h
      · split at h
        · rename_i hn
          have : ¬ (name = "union") := by rw [hn]; decide
          have : ¬ (name = "deprecated") := by rw [hn]; decide
          split at h
          · simp [raise] at h
          · cases h
            rename_i hm
            have hm' : s.cur.mode = none := by
              cases hq : s.cur.mode <;> simp_all
            have hm2 : a.cur.mode = none := by rw [← h2]; simp [Schema.view, hm']
            simp_all [RInv, St.curView, Schema.view]
            rw [← h2]; simp
        · split at h
          · rename_i hn
            have : ¬ (name = "deprecated") := by rw [hn]; decide
            split at h
            · simp [raise] at h
            · cases h
              simp_all [RInv, St.curView, Schema.view]
              rw [← h2]; simp
          · split at h
            · rename_i hn
              split at h
              · simp [raise] at h
              · cases h
                simp_all [RInv, St.curView, Schema.view]
            · simp [raise] at h

theorem RInv_w {s a} (w : W) (h : RInv s a) : RInv { s with w := w } a := h

theorem RInv_offs {s a} (h : RInv s a) (hp : s.pending = none) :
    RInv { s with cur := { s.cur with offsetUsed := true } } a := by
  obtain ⟨h0, h1, h2, h3⟩ := h
  refine ⟨by simp [hp], h1, ?_, h3⟩
  simp [St.curView, hp] at h2 ⊢
  exact h2

theorem visitChildren_rinv {c k l st s s' a} (h : visitChildren c k l st s = .ok s') (hr : RInv s a) : RInv s' a := by
  unfold visitChildren at h
  split at h
  · simp [raise] at h
  · simp only [bind_ok] at h
    obtain ⟨s1, hs1, s2, hs2, s3, hs3, h⟩ := h
    split at h
    · simp [raise] at h
    · cases h
      have e2 := resolveRefs_ok hs2; subst e2
      obtain ⟨w3, e3⟩ := readDeps_ok hs3
      rw [e3]
      apply RInv_w
      split at hs1
      · obtain ⟨r1, p1, _⟩ := flush_rinv hs1 hr
        unfold markOffs
        split
        · exact RInv_offs r1 p1
        · exact r1
      · cases hs1
        unfold markOffs
        split
        · obtain ⟨h0, h1, h2, h3⟩ := hr
          refine ⟨h0, h1, ?_, h3⟩
          simp only [St.curView] at h2 ⊢
          cases hp : s.pending <;> simp_all [Schema.view]
        · exact hr

theorem emitStmt_rinv {c k l st s s' a} (hl : l.stmt = some st) (h : emitStmt c k l st s = .ok s') (hr : RInv s a) :
    RInv s' (a.step l) := by
  unfold emitStmt at h
  simp only [bind_ok] at h
  obtain ⟨s4, hs4, h⟩ := h
  obtain ⟨r4, p4, hd4, _, _⟩ := flush_rinv hs4 hr
  split at h
  · simp [raise] at h
  · cases st with
    | attr core =>
      simp only at h
      obtain ⟨q1, q2, q3, q4, q5, q6, q7⟩ := onAttr_ok h p4
      obtain ⟨g0, g1, g2, g3⟩ := r4
      refine ⟨by simp [q5, hd4], by rw [q3]; simpa [Spec.step, hl] using g1, ?_, by rw [q4]; simpa [Spec.step, hl] using g3⟩
      simp [St.curView, q1, q2, Spec.step, hl]
      simp [St.curView, p4] at g2
      rw [g2]
    | directive name e text =>
      simp only at h
      exact (onDirective_rinv hl h p4 r4).1
    | marker =>
      simp only at h
      have hm := onMarker_ok h
      subst hm
      obtain ⟨g0, g1, g2, g3⟩ := r4
      simp [St.curView, p4] at g2
      refine ⟨by simp [p4], ?_, ?_, by simpa [Spec.step, hl] using g3⟩
      · simp [Spec.step, hl, g1, g2]
      · simp [St.curView, p4, Spec.step, hl, Schema.view, Schema.empty, SegSpec.empty]

theorem addLineComment_rinv {l s a} (h : RInv s a) : RInv (addLineComment l s) a := by
  unfold addLineComment
  cases l.comment <;> exact h

theorem stepLine_rinv {c k l s s' a} (h : stepLine c k s l = .ok s') (hr : RInv s a) : RInv s' (a.step l) := by
  unfold stepLine at h
  simp only [bind_ok] at h
  obtain ⟨s1, hs1, h⟩ := h
  have r1 : RInv s1 (a.step l) := by
    cases hl : l.stmt with
    | none => simp [hl] at hs1; subst hs1; simpa [Spec.step, hl] using hr
    | some st =>
      simp only [hl, visitStmt, bind_ok] at hs1
      obtain ⟨s0, h0, h1⟩ := hs1
      exact emitStmt_rinv hl h1 (visitChildren_rinv h0 hr)
  split at h
  · exact (flush_rinv h (addLineComment_rinv r1)).1
  · cases h; exact addLineComment_rinv r1

theorem runLines_rinv {c} (ls : List Line) : ∀ k s s' a, runLines c k s ls = .ok s' → RInv s a → RInv s' (ls.foldl Spec.step a) := by
  induction ls with
  | nil => intro k s s' a h hr; simp [runLines] at h; subst h; exact hr
  | cons l ls ih =>
    intro k s s' a h hr
    simp only [runLines, bind_ok] at h
    obtain ⟨s1, h1, h2⟩ := h
    exact ih _ _ _ _ h2 (stepLine_rinv h1 hr)

theorem RInv_init (w : W) : RInv (St.init w) Spec.init := by
  simp [RInv, St.init, Spec.init, St.curView, Schema.view, Schema.empty, SegSpec.empty]

/-- an accepted text: the built schemas, viewed without docs, are what the statement list says -/
theorem readText_mirror {c ls w comp w'} (h : readText c ls w = .ok (comp, w')) :
    comp.schemas.map Schema.view = (Spec.of ls).schemas ∧ comp.deprecated = (Spec.of ls).deprecated := by
  unfold readText at h
  split at h
  · simp at h
  · simp only [bind_ok, map_ok] at h
    obtain ⟨s, hs, s', hf, comp', hfin, he⟩ := h
    cases he
    have r := runLines_rinv ls _ _ _ _ hs (RInv_init w)
    obtain ⟨⟨_, g1, g2, g3⟩, p, _⟩ := flush_rinv hf r
    simp only [finalize] at hfin
    split at hfin
    · simp [raise] at hfin
    · cases hfin
      simp [St.curView, p] at g2
      simp [Spec.schemas, Spec.of, g1, g2, g3]

/-! ### formatting: final empty line, line endings, statement-less lines -/

def okPart {α : Type} : M α → Option α
  | .ok a => some a
  | .error _ => none

def errPart {α : Type} : M α → Option (Err × W)
  | .ok _ => none
  | .error e => some e

theorem commitAttr_line {c k k' s a bad doc s'} (h : commitAttr c k s a bad doc = .ok s') : commitAttr c k' s a bad doc = .ok s' := by
  unfold commitAttr at h ⊢
  by_cases hb : bad = true
  · rw [if_pos hb] at h; simp [raise] at h
  · rw [if_neg hb] at h ⊢
    cases hk : a.core.kind <;> simp only [hk] at h ⊢
    · by_cases hu : (s.cur.union && s.cur.offsetUsed) = true
      · rw [if_pos hu] at h; simp [raise] at h
      · rw [if_neg hu] at h ⊢; exact h
    · by_cases hu : (s.cur.union && s.cur.offsetUsed) = true
      · rw [if_pos hu] at h; simp [raise] at h
      · rw [if_neg hu] at h ⊢; exact h
    · exact h

theorem flush_line {c k k' s s'} (h : flush c k s = .ok s') : flush c k' s = .ok s' := by
  unfold flush at h ⊢
  by_cases hh : s.header = true
  · rw [if_pos hh] at h ⊢; exact h
  · rw [if_neg hh] at h ⊢
    rw [map_ok] at h ⊢
    obtain ⟨s1, h1, h2⟩ := h
    refine ⟨s1, ?_, h2⟩
    unfold flushAttr at h1 ⊢
    cases hp : s.pending with
    | none => simpa [hp] using h1
    | some p =>
      obtain ⟨a, bad⟩ := p
      simp only [hp] at h1 ⊢
      exact commitAttr_line h1

theorem flush_line_okPart (c : Ctx) (k k' : Nat) (s : St) : okPart (flush c k s) = okPart (flush c k' s) := by
  cases h : flush c k s with
  | ok s' => rw [flush_line h]
  | error e =>
    cases h' : flush c k' s with
    | ok s' => rw [flush_line h'] at h; cases h
    | error e' => rfl

/-- a second flush does nothing -/
theorem flush_flush {c k k' s s'} (h : flush c k s = .ok s') (hi : s.pending.isSome → s.header = false) :
    flush c k' s' = .ok s' := by
  obtain ⟨p, q, r, _⟩ := flush_ok h hi
  unfold flush
  simp only [q, flushAttr, p, Except.map]
  cases s'
  simp_all

/-- the number of the line that follows the lines `ls`, the first of which has number `k` -/
def lineAfter (k : Nat) (ls : List Line) : Nat := ls.foldl (fun k l => l.next k) k

theorem firstSyntaxError_append {k ls e} (he : e.fault = none) :
    firstSyntaxError k (ls ++ [e]) = firstSyntaxError k ls := by
  induction ls generalizing k with
  | nil => simp [firstSyntaxError, he]
  | cons l ls ih =>
    simp only [List.cons_append, firstSyntaxError]
    split
    · rfl
    · exact ih

theorem runLines_append {c} (ls ms : List Line) : ∀ k s,
    runLines c k s (ls ++ ms) = (runLines c k s ls >>= fun s' => runLines c (lineAfter k ls) s' ms) := by
  induction ls with
  | nil => intro k s; simp [runLines, lineAfter, bind, Except.bind]
  | cons l ls ih =>
    intro k s
    simp only [List.cons_append, runLines]
    cases h : stepLine c k s l with
    | error e => simp [bind, Except.bind]
    | ok s1 =>
      simp only [bind, Except.bind]
      have := ih (l.next k) s1
      simp only [bind, Except.bind] at this
      rw [this]
      rfl

/-- the line an editor adds at the very end: nothing on it, not even blanks -/
def emptyLine (crlf : Bool) : Line :=
  { stmt := none, refs := [], deps := [], offs := false, fault := none, comment := none, textEmpty := true, crlf := crlf,
    inner := 0 }

theorem readText_final_newline (c : Ctx) (ls : List Line) (w : W) (b : Bool) :
    okPart (readText c (ls ++ [emptyLine b]) w) = okPart (readText c ls w) := by
  unfold readText
  rw [firstSyntaxError_append (by rfl)]
  cases hsyn : firstSyntaxError 1 ls with
  | some k => rfl
  | none =>
    simp only
    rw [runLines_append]
    generalize lastLine 1 (ls ++ [emptyLine b]) = k2
    generalize lastLine 1 ls = k1
    generalize lineAfter 1 ls = k0
    cases hr : runLines c 1 (St.init w) ls with
    | error e => simp [bind, Except.bind, okPart]
    | ok s1 =>
      have hinv := (runLines_rinv ls _ _ _ _ hr (RInv_init w)).1
      simp only [bind, Except.bind, runLines, stepLine, emptyLine, addLineComment, if_true]
      cases hf : flush c k0 s1 with
      | error e =>
        have h2 := flush_line_okPart c k0 k1 s1
        rw [hf] at h2
        cases hf2 : flush c k1 s1 with
        | error e2 => simp [okPart]
        | ok s2 => rw [hf2] at h2; simp [okPart] at h2
      | ok s2 =>
        rw [flush_line hf (k' := k1)]
        simp only
        rw [flush_flush hf hinv]

theorem stepLine_crlf (c : Ctx) (k : Nat) (s : St) (l : Line) (b : Bool) :
    stepLine c k s { l with crlf := b } = stepLine c k s l := rfl

theorem next_crlf (k : Nat) (l : Line) (b : Bool) : ({ l with crlf := b } : Line).next k = l.next k := rfl

theorem runLines_crlf (c : Ctx) (b : Bool) (ls : List Line) : ∀ k s,
    runLines c k s (ls.map fun l => { l with crlf := b }) = runLines c k s ls := by
  induction ls with
  | nil => intro k s; rfl
  | cons l ls ih =>
    intro k s
    simp only [List.map_cons, runLines, stepLine_crlf, next_crlf]
    cases stepLine c k s l with
    | error e => rfl
    | ok s1 => simp only [bind, Except.bind]; exact ih _ _

theorem firstSyntaxError_crlf (b : Bool) (ls : List Line) : ∀ k,
    firstSyntaxError k (ls.map fun l => { l with crlf := b }) = firstSyntaxError k ls := by
  induction ls with
  | nil => intro k; rfl
  | cons l ls ih => intro k; simp only [List.map_cons, firstSyntaxError, next_crlf]; rw [ih]

theorem lastLine_crlf (b : Bool) (ls : List Line) : ∀ k,
    lastLine k (ls.map fun l => { l with crlf := b }) = lastLine k ls := by
  induction ls with
  | nil => intro k; rfl
  | cons l ls ih =>
    intro k
    cases ls with
    | nil => rfl
    | cons l' ls' =>
      simp only [List.map_cons, lastLine, next_crlf]
      exact ih _

theorem readText_crlf (c : Ctx) (ls : List Line) (w : W) (b : Bool) :
    readText c (ls.map fun l => { l with crlf := b }) w = readText c ls w := by
  unfold readText
  rw [firstSyntaxError_crlf, runLines_crlf, lastLine_crlf]

theorem Spec.of_insert (ls₁ ls₂ : List Line) (l : Line) (h : l.stmt = none) :
    Spec.of (ls₁ ++ l :: ls₂) = Spec.of (ls₁ ++ ls₂) := by
  simp [Spec.of, List.foldl_append, Spec.step, h]

end Reader
