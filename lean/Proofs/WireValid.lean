import Proofs.WireRt
/-! Whatever `dec` returns is a valid value of the type. -/
namespace Wire

theorem ofTwos_range (n raw : Nat) (hn : 1 ≤ n) (h : raw < 2^n) :
    -((2:Int)^(n-1)) ≤ ofTwos n raw ∧ ofTwos n raw < (2:Int)^(n-1) := by
  have hP := two_pow_pred n hn
  have c1 := pow_cast n
  have c2 := pow_cast (n-1)
  unfold ofTwos
  split <;> omega

theorem decRep_valid {f : R → Except Err (Val × R)} {P : Val → Prop}
    (hf : ∀ r v q, f r = .ok (v, q) → P v) :
    ∀ (n : Nat) (r : R) (vs : List Val) (q : R), decRep f n r = .ok (vs, q) →
      vs.length = n ∧ ∀ v ∈ vs, P v
  | 0, r, vs, q, h => by
      simp only [decRep] at h; cases h; simp
  | n+1, r, vs, q, h => by
      simp only [decRep, bind_ok] at h
      obtain ⟨⟨v1, r1⟩, hx, ⟨vs2, r2⟩, hy, hd⟩ := h
      cases hd
      have := decRep_valid hf n r1 vs2 r2 hy
      have := hf _ _ _ hx
      simp_all

theorem unwrapDelim_valid {body : R → Except Err (Val × R)} {P : Val → Prop}
    (hb : ∀ r v q, body r = .ok (v, q) → P v) (m : Mode) (r : R) (v : Val) (q : R)
    (h : unwrapDelim m r body = .ok (v, q)) : P v := by
  cases m with
  | sealed => exact hb r v q h
  | delimited x =>
    simp only [unwrapDelim] at h
    split at h
    · cases h
    · simp only [bind_ok] at h
      obtain ⟨⟨v1, r1⟩, hx, hd⟩ := h
      cases hd
      exact hb _ _ _ hx

mutual
theorem dec_valid : ∀ (t : Ty) (r : R) (v : Val) (q : R), t.wf = true → dec t r = .ok (v, q) → valid t v = true
  | .bool, r, v, q, _, h => by
      simp only [dec] at h; cases h; simp [valid]
  | .uint n _, r, v, q, _, h => by
      simp only [dec] at h; cases h
      have := bitsNat_lt (takeZ n r.s)
      rw [takeZ_length] at this
      have c := pow_cast n
      simp only [valid, Bool.and_eq_true, R.read]
      exact ⟨decide_eq_true (by omega), decide_eq_true (by omega)⟩
  | .sint n _, r, v, q, hw, h => by
      simp only [dec] at h; cases h
      simp only [Ty.wf, Bool.and_eq_true, decide_eq_true_eq] at hw
      have := bitsNat_lt (takeZ n r.s)
      rw [takeZ_length] at this
      have := ofTwos_range n _ (by omega) this
      simp only [valid, Bool.and_eq_true, R.read]
      exact ⟨decide_eq_true this.1, decide_eq_true this.2⟩
  | .float n _, r, v, q, _, h => by
      simp only [dec] at h; cases h
      have := bitsNat_lt (takeZ n r.s)
      rw [takeZ_length] at this
      simp only [valid, R.read]
      exact decide_eq_true this
  | .byte, r, v, q, _, h => by
      simp only [dec] at h; cases h
      have := bitsNat_lt (takeZ 8 r.s)
      rw [takeZ_length] at this
      simp only [valid, Bool.and_eq_true, R.read]
      exact ⟨decide_eq_true (by omega), decide_eq_true (by omega)⟩
  | .utf8, r, v, q, _, h => by
      simp only [dec] at h; cases h
      have := bitsNat_lt (takeZ 8 r.s)
      rw [takeZ_length] at this
      simp only [valid, Bool.and_eq_true, R.read]
      exact ⟨decide_eq_true (by omega), decide_eq_true (by omega)⟩
  | .void n, r, v, q, _, h => by
      simp only [dec] at h; cases h; simp [valid]
  | .farr e cap, r, v, q, hw, h => by
      simp only [Ty.wf, Bool.and_eq_true] at hw
      simp only [dec, bind_ok] at h
      obtain ⟨⟨vs, r1⟩, hx, hd⟩ := h
      cases hd
      have := decRep_valid (P := fun v => valid e v = true) (fun r v q h => dec_valid e r v q hw.1.1.1 h) cap r vs r1 hx
      simp only [valid, Bool.and_eq_true, beq_iff_eq, List.all_eq_true]
      exact this
  | .varr e cap, r, v, q, hw, h => by
      simp only [Ty.wf, Bool.and_eq_true] at hw
      simp only [dec] at h
      split at h
      · cases h
      · rename_i hc
        simp only [bind_ok] at h
        obtain ⟨⟨vs, r1⟩, hx, hd⟩ := h
        split at hd
        · cases hd
        · rename_i hu
          cases hd
          have := decRep_valid (P := fun v => valid e v = true) (fun r v q h => dec_valid e r v q hw.1.1.1 h) _ _ vs r1 hx
          simp only [valid, Bool.and_eq_true, decide_eq_true_eq, List.all_eq_true]
          refine ⟨⟨by omega, this.2⟩, ?_⟩
          cases hu1 : e.isUtf8 <;> cases hu2 : validUtf8 (List.map Val.byteOf vs) <;> simp_all
  | .struct fs m, r, v, q, hw, h => by
      simp only [Ty.wf, Bool.and_eq_true] at hw
      simp only [dec] at h
      refine unwrapDelim_valid (P := fun v => valid (.struct fs m) v = true) ?_ m r v q h
      intro r v q h
      simp only [bind_ok] at h
      obtain ⟨⟨vs, r1⟩, hx, hd⟩ := h
      cases hd
      simp only [valid]
      exact decFields_valid fs r vs r1 hw.1 hx
  | .union fs m, r, v, q, hw, h => by
      simp only [Ty.wf, Bool.and_eq_true] at hw
      simp only [dec] at h
      refine unwrapDelim_valid (P := fun v => valid (.union fs m) v = true) ?_ m r v q h
      intro r v q h
      simp only [bind_ok] at h
      obtain ⟨⟨v1, r1⟩, hx, hd⟩ := h
      cases hd
      simp only [valid]
      exact decVariant_valid fs _ _ v1 r1 hw.1.1.1.1 hx
theorem decFields_valid : ∀ (ts : List Ty) (r : R) (vs : List Val) (q : R), wfFields ts = true →
    decFields ts r = .ok (vs, q) → validFields ts vs = true
  | [], r, vs, q, _, h => by simp only [decFields] at h; cases h; simp [validFields]
  | t :: ts, r, vs, q, hw, h => by
      simp only [wfFields, Bool.and_eq_true] at hw
      simp only [decFields, bind_ok] at h
      obtain ⟨⟨v1, r1⟩, hx, ⟨vs2, r2⟩, hy, hd⟩ := h
      cases hd
      simp only [validFields, Bool.and_eq_true]
      exact ⟨dec_valid t _ v1 r1 hw.1.1 hx, decFields_valid ts r1 vs2 r2 hw.2 hy⟩
theorem decVariant_valid : ∀ (ts : List Ty) (n : Nat) (r : R) (v : Val) (q : R), wfFields ts = true →
    decVariant ts n r = .ok (v, q) → validVariant ts n v = true
  | [], _, _, _, _, _, h => by simp [decVariant] at h
  | t :: _, 0, r, v, q, hw, h => by
      simp only [wfFields, Bool.and_eq_true] at hw
      simp only [decVariant] at h
      simp only [validVariant]
      exact dec_valid t r v q hw.1.1 h
  | _ :: ts, n+1, r, v, q, hw, h => by
      simp only [wfFields, Bool.and_eq_true] at hw
      simp only [decVariant] at h
      simp only [validVariant]
      exact decVariant_valid ts n r v q hw.2 h
end

end Wire
