import Proofs.ReaderFormat
/-! Formatting independence, consequences of `readText_abs` (C03): two documents with the same statement sequence; the
    concrete indistinguishability relation on worlds (`W.sim`); whole namespaces (`readDef`, `readTargets`); insertion of
    statement-less lines. -/
set_option linter.unusedSimpArgs false
namespace Reader

/-- two outcomes of `readText` that agree up to doc strings (and up to `E` on the worlds) -/
def FmtSim (E : W → W → Prop) : Option (Composite × W) → Option (Composite × W) → Prop
  | none, none => True
  | some (a, wa), some (b, wb) =>
      a.schemas.map Schema.view = b.schemas.map Schema.view ∧ a.deprecated = b.deprecated ∧ E wa wb
  | _, _ => False

theorem DepSim_right {E : W → W → Prop} (hsymm : ∀ a b, E a b → E b a) (htrans : ∀ a b c, E a b → E b c → E a c)
    {c₁ c₂ : Ctx} (h : DepSim E c₁ c₂) : DepSim E c₂ c₂ := by
  obtain ⟨_, _, _, hd⟩ := h
  refine ⟨rfl, rfl, rfl, ?_⟩
  intro wa wb j hab
  have haa : E wa wa := htrans _ _ _ hab (hsymm _ _ hab)
  obtain ⟨p1, p2⟩ := hd wa wa j haa
  obtain ⟨q1, q2⟩ := hd wa wb j hab
  refine ⟨⟨fun h => q1.mp (p1.mpr h), fun h => p1.mp (q1.mpr h)⟩, ?_⟩
  intro h
  have h1 := p1.mpr h
  exact htrans _ _ _ (hsymm _ _ (p2 h1)) (q2 h1)

/-- Two documents with the same statement sequence — whatever their line structure — are both rejected, or both accepted
    with the same model up to doc strings. -/
theorem readText_format {E : W → W → Prop} (hE : PrintCompat E) (hsymm : ∀ a b, E a b → E b a)
    (htrans : ∀ a b c, E a b → E b c → E a c) {c₁ c₂ : Ctx} (hdep : DepSim E c₁ c₂) {ls₁ ls₂ : List Line}
    (hwf₁ : ∀ l ∈ ls₁, l.offsWf) (hwf₂ : ∀ l ∈ ls₂, l.offsWf) (hit : items ls₁ = items ls₂) {w₁ w₂ : W} (hw : E w₁ w₂) :
    FmtSim E (okPart (readText c₁ ls₁ w₁)) (okPart (readText c₂ ls₂ w₂)) := by
  have A := readText_abs hE hdep ls₁ hwf₁ hw
  have hw22 : E w₂ w₂ := htrans _ _ _ (hsymm _ _ hw) hw
  have B := readText_abs hE (DepSim_right hsymm htrans hdep) ls₂ hwf₂ hw22
  rw [hit] at A
  generalize okPart (readText c₁ ls₁ w₁) = x at A
  generalize okPart (readText c₂ ls₂ w₂) = y at B
  generalize aRead c₂ (items ls₂) w₂ = z at A B
  match x, y, z, A, B with
  | none, none, none, _, _ => trivial
  | some (a, wa), some (b, wb), some (segs, d, wz), A, B =>
    obtain ⟨a1, a2, a3⟩ := A
    obtain ⟨b1, b2, b3⟩ := B
    exact ⟨a1.trans b1.symm, a2.trans b2.symm, htrans _ _ _ a3 (hsymm _ _ b3)⟩

/-! ### the concrete relation: same cache up to doc strings, same `@print` deliveries up to their line numbers -/

def Composite.view (comp : Composite) : List SegSpec × Bool := (comp.schemas.map Schema.view, comp.deprecated)

def W.erase (w : W) : List (Nat × (List SegSpec × Bool)) × List (Nat × String) :=
  (w.cached.map fun p => (p.1, p.2.view), w.prints.map fun p => (p.file, p.text))

def W.sim (w₁ w₂ : W) : Prop := w₁.erase = w₂.erase

theorem W.sim_refl (w : W) : W.sim w w := rfl
theorem W.sim_symm (a b : W) (h : W.sim a b) : W.sim b a := Eq.symm h
theorem W.sim_trans (a b c : W) (h₁ : W.sim a b) (h₂ : W.sim b c) : W.sim a c := Eq.trans h₁ h₂

theorem W.sim_print : PrintCompat W.sim := by
  intro w₁ w₂ f k₁ k₂ t h
  simp only [W.sim, W.erase, Prod.mk.injEq] at h ⊢
  simp [h.1, h.2]

theorem W.sim_cache {w₁ w₂ : W} (h : W.sim w₁ w₂) (i : Nat) {a b : Composite} (hv : a.view = b.view) :
    W.sim { w₁ with cached := (i, a) :: w₁.cached } { w₂ with cached := (i, b) :: w₂.cached } := by
  simp only [W.sim, W.erase, Prod.mk.injEq] at h ⊢
  simp [h.1, h.2, hv]

theorem W.sim_any {w₁ w₂ : W} (h : W.sim w₁ w₂) (i : Nat) :
    (w₁.cached.any fun p => p.1 == i) = (w₂.cached.any fun p => p.1 == i) := by
  simp only [W.sim, W.erase, Prod.mk.injEq] at h
  have := congrArg (fun l => l.any fun (x : Nat × (List SegSpec × Bool)) => x.1 == i) h.1
  simpa [List.any_map, Function.comp_def] using this

theorem W.sim_find {w₁ w₂ : W} (h : W.sim w₁ w₂) (t : Nat) :
    ((w₁.cached.find? fun p => p.1 == t).map fun p => (p.1, p.2.view)) =
    ((w₂.cached.find? fun p => p.1 == t).map fun p => (p.1, p.2.view)) := by
  simp only [W.sim, W.erase, Prod.mk.injEq] at h
  have := congrArg (fun l => l.find? fun (x : Nat × (List SegSpec × Bool)) => x.1 == t) h.1
  simpa [List.find?_map, Function.comp_def] using this

/-- reading a referenced definition looks neither at the line numbers of earlier `@print` deliveries nor at doc strings
    in the cache (true of every context `readDef` / `readTargets` build, see `readDef_sim`) -/
def Ctx.lineBlind (c : Ctx) : Prop := DepSim W.sim c c

/-! ### whole namespaces -/

/-- the same statement sequence and the same finalize-time fault marker -/
def Def.sameItems (d₁ d₂ : Def) : Prop := items d₁.lines = items d₂.lines ∧ d₁.finalFault = d₂.finalFault

def Def.wf (d : Def) : Prop := ∀ l ∈ d.lines, l.offsWf

/-- two namespaces whose definitions have pairwise the same statement sequences -/
def DefsSim (defs₁ defs₂ : List Def) : Prop :=
  defs₁.length = defs₂.length ∧ ∀ (i : Nat) (d₁ d₂ : Def), defs₁[i]? = some d₁ → defs₂[i]? = some d₂ → Def.sameItems d₁ d₂

theorem readDef_sim {defs₁ defs₂ : List Def} (hs : DefsSim defs₁ defs₂) (hwf₁ : ∀ d ∈ defs₁, d.wf) (hwf₂ : ∀ d ∈ defs₂, d.wf)
    (pf : Nat) : ∀ fuel w₁ w₂ i, W.sim w₁ w₂ →
    ((readDef fuel defs₁ pf w₁ i).2 = none ↔ (readDef fuel defs₂ pf w₂ i).2 = none) ∧
    ((readDef fuel defs₁ pf w₁ i).2 = none → W.sim (readDef fuel defs₁ pf w₁ i).1 (readDef fuel defs₂ pf w₂ i).1) := by
  intro fuel
  induction fuel with
  | zero => intro w₁ w₂ i _; simp [readDef]
  | succ fuel ih =>
    intro w₁ w₂ i hw
    unfold readDef
    rw [W.sim_any hw i]
    by_cases hc : (w₂.cached.any fun p => p.1 == i) = true
    · rw [if_pos hc, if_pos hc]; exact ⟨Iff.rfl, fun _ => hw⟩
    · rw [if_neg hc, if_neg hc]
      cases h1 : defs₁[i]? with
      | none =>
        have h2 : defs₂[i]? = none := by
          rw [List.getElem?_eq_none_iff] at h1 ⊢; rw [← hs.1]; exact h1
        simp [h2]
      | some d₁ =>
        have hi : i < defs₂.length := by
          rw [← hs.1]; exact (List.getElem?_eq_some_iff.mp h1).1
        have h2 : defs₂[i]? = some defs₂[i] := List.getElem?_eq_getElem hi
        obtain ⟨hit, hff⟩ := hs.2 i d₁ defs₂[i] h1 h2
        rw [h2]
        simp only
        have hdep : DepSim W.sim ⟨i, pf, defs₁.length, readDef fuel defs₁ pf, d₁.finalFault⟩
            ⟨i, pf, defs₂.length, readDef fuel defs₂ pf, defs₂[i].finalFault⟩ :=
          ⟨hs.1, rfl, hff, fun w₁ w₂ j h => ih w₁ w₂ j h⟩
        have hF := readText_format W.sim_print W.sim_symm W.sim_trans hdep
          (hwf₁ d₁ (List.mem_of_getElem? h1)) (hwf₂ _ (List.mem_of_getElem? h2)) hit hw
        cases hr1 : readText ⟨i, pf, defs₁.length, readDef fuel defs₁ pf, d₁.finalFault⟩ d₁.lines w₁ with
        | error e1 =>
          obtain ⟨e1, w1'⟩ := e1
          cases hr2 : readText ⟨i, pf, defs₂.length, readDef fuel defs₂ pf, defs₂[i].finalFault⟩ defs₂[i].lines w₂ with
          | error e2 => obtain ⟨e2, w2'⟩ := e2; simp
          | ok r2 => rw [hr1, hr2] at hF; obtain ⟨b, wb⟩ := r2; simp [okPart, FmtSim] at hF
        | ok r1 =>
          obtain ⟨a, wa⟩ := r1
          cases hr2 : readText ⟨i, pf, defs₂.length, readDef fuel defs₂ pf, defs₂[i].finalFault⟩ defs₂[i].lines w₂ with
          | error e2 => rw [hr1, hr2] at hF; simp [okPart, FmtSim] at hF
          | ok r2 =>
            obtain ⟨b, wb⟩ := r2
            rw [hr1, hr2] at hF
            simp only [okPart, FmtSim] at hF
            obtain ⟨f1, f2, f3⟩ := hF
            simp only [true_iff, forall_const, true_and]
            exact W.sim_cache f3 i (by simp [Composite.view, f1, f2])

/-- two outcomes of `readTargets` that agree up to doc strings -/
def NsSim : Option (List (Nat × Composite) × W) → Option (List (Nat × Composite) × W) → Prop
  | none, none => True
  | some (r₁, w₁), some (r₂, w₂) =>
      r₁.map (fun p => (p.1, p.2.view)) = r₂.map (fun p => (p.1, p.2.view)) ∧ W.sim w₁ w₂
  | _, _ => False

theorem readTargets_sim {defs₁ defs₂ : List Def} (hs : DefsSim defs₁ defs₂) (hwf₁ : ∀ d ∈ defs₁, d.wf) (hwf₂ : ∀ d ∈ defs₂, d.wf) :
    ∀ (ts : List Nat) (w₁ w₂ : W) (acc₁ acc₂ : List (Nat × Composite)), W.sim w₁ w₂ →
    acc₁.map (fun p => (p.1, p.2.view)) = acc₂.map (fun p => (p.1, p.2.view)) →
    NsSim (okPart (readTargets defs₁ ts w₁ acc₁)) (okPart (readTargets defs₂ ts w₂ acc₂)) := by
  intro ts
  induction ts with
  | nil => intro w₁ w₂ acc₁ acc₂ hw hacc; simp only [readTargets, okPart, NsSim]; exact ⟨hacc, hw⟩
  | cons t ts ih =>
    intro w₁ w₂ acc₁ acc₂ hw hacc
    unfold readTargets
    have hfind := W.sim_find hw t
    cases hf1 : w₁.cached.find? fun p => p.1 == t with
    | some p1 =>
      cases hf2 : w₂.cached.find? fun p => p.1 == t with
      | none => rw [hf1, hf2] at hfind; simp at hfind
      | some p2 =>
        rw [hf1, hf2] at hfind
        simp only [Option.map_some, Option.some.injEq, Prod.mk.injEq] at hfind
        simp only
        exact ih _ _ _ _ hw (by rw [List.map_append, List.map_append, hacc]; simp [hfind.2])
    | none =>
      cases hf2 : w₂.cached.find? fun p => p.1 == t with
      | some p2 => rw [hf1, hf2] at hfind; simp at hfind
      | none =>
        simp only
        cases h1 : defs₁[t]? with
        | none =>
          have h2 : defs₂[t]? = none := by
            rw [List.getElem?_eq_none_iff] at h1 ⊢; rw [← hs.1]; exact h1
          simp [h2, okPart, NsSim]
        | some d₁ =>
          have hi : t < defs₂.length := by
            rw [← hs.1]; exact (List.getElem?_eq_some_iff.mp h1).1
          have h2 : defs₂[t]? = some defs₂[t] := List.getElem?_eq_getElem hi
          obtain ⟨hit, hff⟩ := hs.2 t d₁ defs₂[t] h1 h2
          rw [h2]
          simp only
          have hdep : DepSim W.sim ⟨t, t, defs₁.length, readDef defs₁.length defs₁ t, d₁.finalFault⟩
              ⟨t, t, defs₂.length, readDef defs₂.length defs₂ t, defs₂[t].finalFault⟩ := by
            refine ⟨hs.1, rfl, hff, ?_⟩
            rw [hs.1]
            exact fun w₁ w₂ j h => readDef_sim hs hwf₁ hwf₂ t _ w₁ w₂ j h
          have hF := readText_format W.sim_print W.sim_symm W.sim_trans hdep
            (hwf₁ d₁ (List.mem_of_getElem? h1)) (hwf₂ _ (List.mem_of_getElem? h2)) hit hw
          cases hr1 : readText ⟨t, t, defs₁.length, readDef defs₁.length defs₁ t, d₁.finalFault⟩ d₁.lines w₁ with
          | error e1 =>
            obtain ⟨e1, w1'⟩ := e1
            cases hr2 : readText ⟨t, t, defs₂.length, readDef defs₂.length defs₂ t, defs₂[t].finalFault⟩ defs₂[t].lines w₂ with
            | error e2 => obtain ⟨e2, w2'⟩ := e2; simp [okPart, NsSim]
            | ok r2 => rw [hr1, hr2] at hF; obtain ⟨b, wb⟩ := r2; simp [okPart, FmtSim] at hF
          | ok r1 =>
            obtain ⟨a, wa⟩ := r1
            cases hr2 : readText ⟨t, t, defs₂.length, readDef defs₂.length defs₂ t, defs₂[t].finalFault⟩ defs₂[t].lines w₂ with
            | error e2 => rw [hr1, hr2] at hF; simp [okPart, FmtSim] at hF
            | ok r2 =>
              obtain ⟨b, wb⟩ := r2
              rw [hr1, hr2] at hF
              simp only [okPart, FmtSim] at hF
              obtain ⟨f1, f2, f3⟩ := hF
              simp only
              exact ih _ _ _ _ f3 (by rw [List.map_append, List.map_append, hacc]; simp [Composite.view, f1, f2])

/-- the contexts the namespace reader builds are line-blind -/
theorem readDef_lineBlind (defs : List Def) (hwf : ∀ d ∈ defs, d.wf) (self pf fuel : Nat) (ff : Bool) :
    Ctx.lineBlind ⟨self, pf, defs.length, readDef fuel defs pf, ff⟩ :=
  ⟨rfl, rfl, rfl, fun w₁ w₂ j h =>
    readDef_sim (defs₁ := defs) (defs₂ := defs) ⟨rfl, fun i d₁ d₂ h₁ h₂ => by rw [h₁] at h₂; cases h₂; exact ⟨rfl, rfl⟩⟩
      hwf hwf pf fuel w₁ w₂ j h⟩

/-! ### statement-less lines -/

theorem items_insert (ls₁ ls₂ : List Line) (l : Line) (hs : l.stmt = none) (hf : l.fault ≠ some .syn) :
    items (ls₁ ++ l :: ls₂) = items (ls₁ ++ ls₂) := by
  have : l.item = none := by simp [Line.item, hs, hf]
  simp [items, List.filterMap_append, List.filterMap_cons, this]

/-- the line structure does not matter: lines without a statement (comment lines, blank lines, empty lines) inserted or
    removed anywhere, other comments, other line terminators, other continuation of string literals -/
theorem items_congr_stmtLines (ls : List Line) :
    items ls = items (ls.filter fun l => l.stmt.isSome || l.fault == some .syn) := by
  induction ls with
  | nil => rfl
  | cons l ls ih =>
    simp only [List.filter_cons]
    by_cases h : (l.stmt.isSome || l.fault == some .syn) = true
    · simp only [h, if_true]
      simp only [items, List.filterMap_cons] at ih ⊢
      rw [ih]
    · simp only [h, if_false]
      have hi : l.item = none := by
        simp only [Bool.or_eq_true, not_or, Bool.not_eq_true, beq_eq_false_iff_ne, ne_eq] at h
        cases hs : l.stmt with
        | none => simp [Line.item, h.2, hs]
        | some st => simp [hs] at h
      simp only [items, List.filterMap_cons, hi] at ih ⊢
      exact ih

end Reader
