import Model.Rules
/-! Per-rule kernel lemmas of C05: each check of `Model/Rules.lean` against the declarative rule, for all values. -/
namespace Rules

/-! ### names -/

theorem validFirst_lower (c : Char) : validFirst (lowerChar c) = validFirst c := by
  unfold lowerChar
  split <;> first | rfl | decide

theorem validCont_lower (c : Char) : validCont (lowerChar c) = validCont c := by
  unfold lowerChar
  split <;> first | rfl | decide

def Digits (l : List Char) : Prop := ∀ d ∈ l, isDigit d = true

theorem all_digits_iff (l : List Char) : l.all isDigit = true ↔ Digits l := by
  simp [Digits, List.all_eq_true]

theorem matchPrefixDigits_iff (pre s : List Char) :
    matchPrefixDigits pre s = true ↔ ∃ ds, Digits ds ∧ s = pre ++ ds := by
  unfold matchPrefixDigits
  rw [Bool.and_eq_true, List.isPrefixOf_iff_prefix, all_digits_iff]
  constructor
  · rintro ⟨⟨t, rfl⟩, h⟩
    exact ⟨t, by simpa using h, rfl⟩
  · rintro ⟨ds, h, rfl⟩
    exact ⟨⟨ds, rfl⟩, by simpa using h⟩

theorem matchPrefixDigit_iff (pre s : List Char) :
    matchPrefixDigit pre s = true ↔ ∃ d, isDigit d = true ∧ s = pre ++ [d] := by
  unfold matchPrefixDigit
  rw [Bool.and_eq_true, List.isPrefixOf_iff_prefix]
  constructor
  · rintro ⟨⟨t, rfl⟩, h⟩
    simp only [List.drop_left] at h
    match t, h with
    | [d], h => exact ⟨d, h, rfl⟩
  · rintro ⟨d, h, rfl⟩
    exact ⟨⟨[d], rfl⟩, by simpa using h⟩

theorem mem_takeWhile_pos {α : Type} (p : α → Bool) (l : List α) : ∀ x ∈ l.takeWhile p, p x = true := by
  induction l with
  | nil => intro x hx; simp at hx
  | cons a l ih =>
    intro x hx
    simp only [List.takeWhile] at hx
    split at hx
    · rename_i hp
      cases hx with
      | head => exact hp
      | tail _ h => exact ih x h
    · cases hx

theorem matchDUD_iff (s : List Char) :
    matchDigitsUnderscoreDigits s = true ↔ ∃ a b, a ≠ [] ∧ b ≠ [] ∧ Digits a ∧ Digits b ∧ s = a ++ '_' :: b := by
  unfold matchDigitsUnderscoreDigits
  constructor
  · intro h
    simp only [Bool.and_eq_true, Bool.not_eq_true', List.isEmpty_eq_false_iff] at h
    obtain ⟨ha, h⟩ := h
    have hs : s = s.takeWhile isDigit ++ s.dropWhile isDigit := (List.takeWhile_append_dropWhile).symm
    cases hd : s.dropWhile isDigit with
    | nil => rw [hd] at h; simp at h
    | cons x t =>
      rw [hd] at h
      split at h
      · rename_i t' heq
        cases heq
        simp only [Bool.and_eq_true, Bool.not_eq_true', List.isEmpty_eq_false_iff] at h
        refine ⟨s.takeWhile isDigit, t, ha, h.1, ?_, (all_digits_iff t).mp h.2, by rw [← hd]; exact hs⟩
        exact mem_takeWhile_pos isDigit s
      · exact absurd h (by decide)
  · rintro ⟨a, b, ha, hb, da, db, rfl⟩
    have hu : isDigit '_' = false := by decide
    have e1 : (a ++ '_' :: b).takeWhile isDigit = a := by
      rw [List.takeWhile_append_of_pos da]
      simp [List.takeWhile, hu]
    have e2 : (a ++ '_' :: b).dropWhile isDigit = '_' :: b := by
      rw [List.dropWhile_append_of_pos da]
      simp [List.dropWhile, hu]
    rw [e1, e2]
    simp only [Bool.and_eq_true, Bool.not_eq_true', List.isEmpty_eq_false_iff]
    exact ⟨ha, hb, (all_digits_iff b).mpr db⟩

theorem matchQ_iff (s : List Char) :
    matchQ s = true ↔ ∃ a b, a ≠ [] ∧ b ≠ [] ∧ Digits a ∧ Digits b ∧ (s = 'q' :: (a ++ '_' :: b) ∨ s = 'u' :: 'q' :: (a ++ '_' :: b)) := by
  unfold matchQ
  split
  · rename_i t
    rw [matchDUD_iff]
    constructor
    · rintro ⟨a, b, h1, h2, h3, h4, rfl⟩; exact ⟨a, b, h1, h2, h3, h4, Or.inr rfl⟩
    · rintro ⟨a, b, h1, h2, h3, h4, h | h⟩
      · simp at h
      · simp at h; exact ⟨a, b, h1, h2, h3, h4, h⟩
  · rename_i t hne
    rw [matchDUD_iff]
    constructor
    · rintro ⟨a, b, h1, h2, h3, h4, rfl⟩; exact ⟨a, b, h1, h2, h3, h4, Or.inl rfl⟩
    · rintro ⟨a, b, h1, h2, h3, h4, h | h⟩
      · simp at h; exact ⟨a, b, h1, h2, h3, h4, h⟩
      · simp at h
  · rename_i h1 h2
    constructor
    · intro h; cases h
    · rintro ⟨a, b, _, _, _, _, h | h⟩
      · exact absurd h (h2 _)
      · exact absurd h (h1 _)

theorem matchUnderscores_iff (s : List Char) : matchUnderscores s = true ↔ ∃ m, s = '_' :: (m ++ ['_']) := by
  unfold matchUnderscores
  split
  · rename_i t
    constructor
    · intro h
      split at h
      · rename_i hl
        obtain ⟨ys, rfl⟩ := List.getLast?_eq_some_iff.mp hl
        exact ⟨ys, rfl⟩
      · cases h
    · rintro ⟨m, h⟩
      simp at h
      subst h
      simp
  · rename_i hne
    constructor
    · intro h; cases h
    · rintro ⟨m, h⟩; exact absurd h (hne _)

/-- reserved words and patterns of the (lowered) name -/
def Reserved (n : List Char) : Prop :=
  (∃ w ∈ reservedWords, w.toList = n) ∨
  (∃ ds, Digits ds ∧ (n = "void".toList ++ ds ∨ n = "uint".toList ++ ds ∨ n = "int".toList ++ ds ∨ n = "float".toList ++ ds)) ∨
  (∃ a b, a ≠ [] ∧ b ≠ [] ∧ Digits a ∧ Digits b ∧ (n = 'q' :: (a ++ '_' :: b) ∨ n = 'u' :: 'q' :: (a ++ '_' :: b))) ∨
  (∃ d, isDigit d = true ∧ (n = "com".toList ++ [d] ∨ n = "lpt".toList ++ [d])) ∨
  (∃ m, n = '_' :: (m ++ ['_']))

theorem reserved_iff (n : List Char) :
    ((reservedWords.any fun w => w.toList == n) || matchesPattern n) = true ↔ Reserved n := by
  unfold matchesPattern Reserved
  simp only [Bool.or_eq_true, List.any_eq_true, beq_iff_eq, matchPrefixDigits_iff, matchPrefixDigit_iff, matchQ_iff,
    matchUnderscores_iff]
  constructor
  · rintro (h | ((((((h | h) | h) | h) | h) | h) | h) | h)
    · exact Or.inl h
    · obtain ⟨ds, h1, h2⟩ := h; exact Or.inr (Or.inl ⟨ds, h1, Or.inl h2⟩)
    · obtain ⟨ds, h1, h2⟩ := h; exact Or.inr (Or.inl ⟨ds, h1, Or.inr (Or.inl h2)⟩)
    · obtain ⟨ds, h1, h2⟩ := h; exact Or.inr (Or.inl ⟨ds, h1, Or.inr (Or.inr (Or.inl h2))⟩)
    · exact Or.inr (Or.inr (Or.inl h))
    · obtain ⟨ds, h1, h2⟩ := h; exact Or.inr (Or.inl ⟨ds, h1, Or.inr (Or.inr (Or.inr h2))⟩)
    · obtain ⟨d, h1, h2⟩ := h; exact Or.inr (Or.inr (Or.inr (Or.inl ⟨d, h1, Or.inl h2⟩)))
    · obtain ⟨d, h1, h2⟩ := h; exact Or.inr (Or.inr (Or.inr (Or.inl ⟨d, h1, Or.inr h2⟩)))
    · exact Or.inr (Or.inr (Or.inr (Or.inr h)))
  · rintro (h | ⟨ds, h1, h2 | h2 | h2 | h2⟩ | h | ⟨d, h1, h2 | h2⟩ | h)
    · exact Or.inl h
    · exact Or.inr (Or.inl (Or.inl (Or.inl (Or.inl (Or.inl (Or.inl (Or.inl ⟨ds, h1, h2⟩)))))))
    · exact Or.inr (Or.inl (Or.inl (Or.inl (Or.inl (Or.inl (Or.inl (Or.inr ⟨ds, h1, h2⟩)))))))
    · exact Or.inr (Or.inl (Or.inl (Or.inl (Or.inl (Or.inl (Or.inr ⟨ds, h1, h2⟩))))))
    · exact Or.inr (Or.inl (Or.inl (Or.inl (Or.inr ⟨ds, h1, h2⟩))))
    · exact Or.inr (Or.inl (Or.inl (Or.inl (Or.inl (Or.inr h)))))
    · exact Or.inr (Or.inl (Or.inl (Or.inr ⟨d, h1, h2⟩)))
    · exact Or.inr (Or.inl (Or.inr ⟨d, h1, h2⟩))
    · exact Or.inr (Or.inr h)

/-- the name rule: non-empty, `[A-Za-z_][A-Za-z0-9_]*`, and not reserved in any letter case -/
def NameOk (s : String) : Prop :=
  (∃ c rest, s.toList = c :: rest ∧ validFirst c = true) ∧ (∀ c ∈ s.toList, validCont c = true) ∧ ¬ Reserved (lower s.toList)

theorem checkName_iff (s : String) : checkName s = true ↔ NameOk s := by
  unfold checkName NameOk
  cases hs : s.toList with
  | nil => simp
  | cons c rest =>
    have hr := reserved_iff (lower (c :: rest))
    simp only [Bool.and_eq_true, Bool.not_eq_true']
    constructor
    · rintro ⟨⟨⟨h1, h2⟩, h3⟩, h4⟩
      refine ⟨⟨c, rest, rfl, h1⟩, by simpa [List.all_eq_true] using h2, ?_⟩
      intro hres
      have := hr.mpr hres
      simp [h3, h4] at this
    · rintro ⟨⟨c', rest', he, h1⟩, h2, h3⟩
      cases he
      have hn : ¬ ((reservedWords.any fun w => w.toList == lower (c :: rest)) || matchesPattern (lower (c :: rest))) = true :=
        fun h => h3 (hr.mp h)
      simp only [Bool.or_eq_true, not_or, Bool.not_eq_true] at hn
      exact ⟨⟨⟨h1, by simpa [List.all_eq_true] using h2⟩, hn.1⟩, hn.2⟩

end Rules
