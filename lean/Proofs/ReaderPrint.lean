import Proofs.Reader
/-! `@print` deliveries of the reader model (C17.print_once). -/
namespace Reader

def linePrints (pf k : Nat) (l : Line) : List Print :=
  match l.stmt with
  | some (.directive name _ text) => if name = "print" then [⟨pf, k, text⟩] else []
  | _ => []

/-- what the source says: one delivery per `@print` statement, in source order, with the statement's line -/
def specPrints (pf : Nat) : Nat → List Line → List Print
  | _, [] => []
  | k, l :: ls => linePrints pf k l ++ specPrints pf (l.next k) ls

theorem flush_w {c k s s'} (h : flush c k s = .ok s') : s'.w = s.w := by
  unfold flush at h
  split at h
  · cases h; rfl
  · rw [map_ok] at h
    obtain ⟨s1, h1, h2⟩ := h
    subst h2
    exact (flushAttr_ok h1).2.2.2.2.2.1

theorem onAttr_w {c k s core bad s'} (h : onAttr c k s core bad = .ok s') : s'.w = s.w := by
  unfold onAttr at h
  split at h
  · simp [raise] at h
  · rw [map_ok] at h
    obtain ⟨s1, h1, h2⟩ := h
    subst h2
    exact (flushAttr_ok h1).2.2.2.2.2.1

theorem onDirective_w {c k s name ev text s'} (h : onDirective c k s name ev text = .ok s') :
    s'.w.cached = s.w.cached ∧ s'.w.prints = s.w.prints ++ (if name = "print" then [⟨c.printFile, k, text⟩] else []) := by
  unfold onDirective at h
  split at h
  · rename_i hn; cases h; simp [hn]
  · rename_i hn
    simp only [hn, if_false, List.append_nil]
    repeat' split at h
    all_goals first | (simp [raise] at h; done) | (cases h; exact ⟨rfl, rfl⟩)

theorem visitStmt_w {c k l st s s'} (hd : l.deps = []) (hl : l.stmt = some st) (h : visitStmt c k l st s = .ok s') :
    s'.w.cached = s.w.cached ∧ s'.w.prints = s.w.prints ++ linePrints c.printFile k l := by
  unfold visitStmt at h
  rw [bind_ok] at h
  obtain ⟨s3, h3, h⟩ := h
  have e3 : s3.w = s.w := by
    unfold visitChildren at h3
    split at h3
    · simp [raise] at h3
    · simp only [bind_ok, hd] at h3
      obtain ⟨s1, hs1, s2, hs2, s3', hs3', h3⟩ := h3
      split at h3
      · simp [raise] at h3
      · cases h3
        have e2 := resolveRefs_ok hs2; subst e2
        simp [readDeps] at hs3'
        subst hs3'
        have : s2.w = s.w := by
          split at hs1
          · exact flush_w hs1
          · cases hs1; rfl
        simp only [markOffs]
        split <;> exact this
  unfold emitStmt at h
  rw [bind_ok] at h
  obtain ⟨s4, h4, h⟩ := h
  have e4 := flush_w h4
  split at h
  · simp [raise] at h
  · cases st with
    | attr core =>
      simp only at h
      have := onAttr_w h
      simp [linePrints, hl, this, e4, e3]
    | directive name ev text =>
      simp only at h
      obtain ⟨q1, q2⟩ := onDirective_w h
      simp [linePrints, hl, q1, q2, e4, e3]
    | marker =>
      simp only at h
      have := onMarker_ok h
      subst this
      simp [linePrints, hl, e4, e3]

theorem stepLine_w {c k l s s'} (hd : l.deps = []) (h : stepLine c k s l = .ok s') :
    s'.w.cached = s.w.cached ∧ s'.w.prints = s.w.prints ++ linePrints c.printFile k l := by
  unfold stepLine at h
  rw [bind_ok] at h
  obtain ⟨s1, h1, h⟩ := h
  have e1 : s1.w.cached = s.w.cached ∧ s1.w.prints = s.w.prints ++ linePrints c.printFile k l := by
    cases hl : l.stmt with
    | none => simp [hl] at h1; subst h1; simp [linePrints, hl]
    | some st => simp only [hl] at h1; exact visitStmt_w hd hl h1
  have e2 : (addLineComment l s1).w = s1.w := by
    unfold addLineComment; cases l.comment <;> rfl
  split at h
  · rw [flush_w h, e2]; exact e1
  · cases h; rw [e2]; exact e1

theorem runLines_w {c} (ls : List Line) : ∀ k s s', (∀ l ∈ ls, l.deps = []) → runLines c k s ls = .ok s' →
    s'.w.cached = s.w.cached ∧ s'.w.prints = s.w.prints ++ specPrints c.printFile k ls := by
  induction ls with
  | nil => intro k s s' _ h; simp [runLines] at h; subst h; simp [specPrints]
  | cons l ls ih =>
    intro k s s' hd h
    simp only [runLines, bind_ok] at h
    obtain ⟨s1, h1, h2⟩ := h
    obtain ⟨a1, a2⟩ := stepLine_w (hd l (List.mem_cons_self ..)) h1
    obtain ⟨b1, b2⟩ := ih _ _ _ (fun x hx => hd x (List.mem_cons_of_mem _ hx)) h2
    exact ⟨by rw [b1, a1], by rw [b2, a2]; simp [specPrints]⟩

/-- a definition without references, read successfully: every `@print` statement is delivered exactly once, in source
    order, with its own line and the path the handler is bound to; nothing else is delivered -/
theorem readText_prints {c ls w comp w'} (hd : ∀ l ∈ ls, l.deps = []) (h : readText c ls w = .ok (comp, w')) :
    w'.cached = w.cached ∧ w'.prints = w.prints ++ specPrints c.printFile 1 ls := by
  unfold readText at h
  split at h
  · simp at h
  · simp only [bind_ok, map_ok] at h
    obtain ⟨s, hs, s', hf, comp', _, he⟩ := h
    cases he
    have := runLines_w ls _ _ _ hd hs
    rw [flush_w hf]
    simpa [St.init] using this

end Reader

namespace Reader

def Def.noDeps (d : Def) : Prop := ∀ l ∈ d.lines, l.deps = []

/-- a namespace whose definitions do not refer to each other: each target is parsed once through its own object, and
    its `@print`s are delivered with its own path -/
theorem readTargets_prints (defs : List Def) (hd : ∀ d ∈ defs, d.noDeps) : ∀ ts w acc res w', w.cached = [] →
    readTargets defs ts w acc = .ok (res, w') →
    w'.cached = [] ∧ w'.prints = w.prints ++ ts.flatMap (fun t => specPrints t 1 ((defs[t]?.map (·.lines)).getD [])) := by
  intro ts
  induction ts with
  | nil => intro w acc res w' hc h; simp [readTargets] at h; obtain ⟨_, rfl⟩ := h; simp [hc]
  | cons t ts ih =>
    intro w acc res w' hc h
    unfold readTargets at h
    simp only [hc, List.find?_nil] at h
    cases hdt : defs[t]? with
    | none => simp [hdt] at h
    | some d =>
      simp only [hdt] at h
      split at h
      · rename_i comp w1 hr
        have hdm : d ∈ defs := List.mem_of_getElem? hdt
        obtain ⟨c1, c2⟩ := readText_prints (hd d hdm) hr
        obtain ⟨i1, i2⟩ := ih w1 _ res w' (by rw [c1, hc]) h
        refine ⟨i1, ?_⟩
        rw [i2, c2]
        simp [hdt]
      · simp at h

end Reader
