import Proofs.Expr
import Model.Const
/-! Hazard-freedom of bounded expressions: inside the bounds of the property the evaluator only produces values and
    `invalid`-class rejections. -/
set_option linter.unusedSimpArgs false
set_option linter.unusedVariables false
set_option linter.unusedTactic false
namespace Ex

/-- an error that is a rejection (or the explicit modelling gap "set of sets"), never a hazard or an inexact result -/
def Err.benign : Err → Prop
  | .invalid _ => True
  | .unsupported => True
  | _ => False

theorem benign_of_invalid {e : Err} (h : ∃ k, e = .invalid k) : e.benign := by
  obtain ⟨k, rfl⟩ := h; trivial

theorem evalBin_err_invalid [StrNorm] (op : BinOp) (a b : Val) (hexp : intExpV op b) (e : Err) (h : evalBin op a b = .error e) :
    ∃ k, e = .invalid k := by
  cases a with
  | sc x =>
    cases b with
    | sc y =>
      simp only [evalBin] at h
      cases hs : scBin op x y with
      | error e' =>
        simp only [hs, Except.map, Except.error.injEq] at h; subst h
        exact (scBin_defined op x y hexp).2 _ hs
      | ok r => simp [hs, Except.map] at h
    | set bs =>
      simp only [evalBin] at h
      split at h
      · cases hm : mapR (fun z => scBinEl op x z) bs with
        | error e' =>
          simp only [hm, Except.bind, Except.error.injEq] at h; subst h
          obtain ⟨z, hz, hfz⟩ := mapR_err _ _ _ hm
          exact (scBinEl_defined op x z (hexp z hz)).2 _ hfz
        | ok ys => simp only [hm, Except.bind] at h; exact mkSetS_err _ _ h
      · exact ⟨_, by simpa [inval] using h.symm⟩
  | set as =>
    cases b with
    | sc y =>
      simp only [evalBin] at h
      split at h
      · cases hm : mapR (fun z => scBinEl op z y) as with
        | error e' =>
          simp only [hm, Except.bind, Except.error.injEq] at h; subst h
          obtain ⟨z, hz, hfz⟩ := mapR_err _ _ _ hm
          exact (scBinEl_defined op z y hexp).2 _ hfz
        | ok ys => simp only [hm, Except.bind] at h; exact mkSetS_err _ _ h
      · exact ⟨_, by simpa [inval] using h.symm⟩
    | set bs =>
      simp only [evalBin, setSet] at h
      cases op <;> simp only [inval] at h <;> (try (split at h)) <;>
        first
        | exact ⟨_, by simpa using h.symm⟩
        | exact mkSetS_err _ _ h
        | (simp at h)

theorem intExp_of_ne_pow (op : BinOp) (h : op ≠ .pow) (b : Scalar) : intExp op b := fun hp => absurd hp h

theorem reduceCmp_err [StrNorm] (flip : Bool) (a : Scalar) (l : List Scalar) (e : Err) (h : reduceCmp flip a l = .error e) :
    ∃ k, e = .invalid k := by
  induction l generalizing a with
  | nil => simp [reduceCmp] at h
  | cons b rest ih =>
    simp only [reduceCmp] at h
    split at h
    · exact ih _ h
    · exact ih _ h
    · rename_i e' he
      simp only [Except.error.injEq] at h; subst h
      refine (scBin_defined _ a b ?_).2 _ he
      cases flip <;> exact intExp_of_ne_pow _ (by simp) _

theorem map_err {α β} (r : R α) (g : α → β) (e : Err) (h : r.map g = .error e) : r = .error e := by
  cases r <;> simp [Except.map] at h ⊢; exact h

theorem evalAttr_err [StrNorm] (v : Val) (n : String) (e : Err) (h : evalAttr v n = .error e) : ∃ k, e = .invalid k := by
  unfold evalAttr at h
  split at h
  · exact reduceCmp_err _ _ _ _ (map_err _ _ _ h)
  · exact reduceCmp_err _ _ _ _ (map_err _ _ _ h)
  · simp at h
  · exact ⟨_, by simpa [inval] using h.symm⟩

theorem evalUn_err (op : UnOp) (v : Val) (e : Err) (h : evalUn op v = .error e) : ∃ k, e = .invalid k := by
  unfold evalUn at h
  split at h <;> first | exact ⟨_, by simpa [inval] using h.symm⟩ | (simp at h; done)

theorem mkSet_err [StrNorm] (vs : List Val) (e : Err) (h : mkSet vs = .error e) : e.benign := by
  unfold mkSet at h
  split at h
  · exact benign_of_invalid ⟨_, by simpa [inval] using h.symm⟩
  · simp only at h
    split at h
    · exact benign_of_invalid (mkSetS_err _ _ h)
    · split at h
      · simp only [Except.error.injEq] at h; subst h; trivial
      · exact benign_of_invalid ⟨_, by simpa [inval] using h.symm⟩

theorem optSyntax_err {α} (o : Option α) (e : Err) (h : optSyntax o = .error e) : e = .invalid .syntax := by
  cases o <;> simp [optSyntax, inval] at h; exact h.symm

theorem decodeInt_err (cs : List Char) (hb : (stripUnderscores cs).length ≤ pyIntMaxDigits) (e : Err)
    (h : decodeInt cs = .error e) : e = .invalid .syntax := by
  unfold decodeInt at h
  split at h
  all_goals first
    | exact optSyntax_err _ _ h
    | (rename_i t _ _ _ _ _ _
       split at h
       · omega
       · exact optSyntax_err _ _ h)

theorem splitAt1_length (p : Char → Bool) (l : List Char) :
    (splitAt1 p l).1.length + ((splitAt1 p l).2.getD []).length ≤ l.length := by
  induction l with
  | nil => simp [splitAt1]
  | cons c cs ih =>
    simp only [splitAt1]
    split
    · simp
    · simp only [List.length_cons]; omega

theorem decodeReal_err (cs : List Char) (hb : (stripUnderscores cs).length ≤ pyIntMaxDigits) (e : Err)
    (h : decodeReal cs = .error e) : e = .invalid .syntax := by
  unfold decodeReal at h
  simp only at h
  have h1 := splitAt1_length (fun c => c == 'e' || c == 'E') (stripUnderscores cs)
  have h2 := splitAt1_length (· == '.') (splitAt1 (fun c => c == 'e' || c == 'E') (stripUnderscores cs)).1
  split at h
  · rename_i hlen
    simp only [List.length_append] at hlen
    omega
  · split at h
    · simpa [inval] using h.symm
    · split at h
      · simp at h
      · exact optSyntax_err _ _ (map_err _ _ _ h)
      · exact optSyntax_err _ _ (map_err _ _ _ h)
      · exact optSyntax_err _ _ (map_err _ _ _ h)

theorem evalLit_err (l : Lit) (hb : litBounded l = true) (e : Err) (h : evalLit l = .error e) : e.benign := by
  cases l with
  | int t =>
    simp only [litBounded, decide_eq_true_eq] at hb
    have := decodeInt_err _ hb e (map_err _ _ _ h)
    subst this; trivial
  | real t =>
    simp only [litBounded, decide_eq_true_eq] at hb
    have := decodeReal_err _ hb e (map_err _ _ _ h)
    subst this; trivial
  | str t =>
    have h' := map_err _ _ _ h
    simp only [litBounded, h'] at hb
    cases e <;> simp_all [Err.benign]
  | bool b => simp [evalLit] at h

/-- an exponent that is an integer literal, possibly signed, evaluates to an integral rational -/
theorem intSyntax_value [StrNorm] (env : Env) (r : Expr) (hr : intSyntax r = true) (v : Val) (h : eval env r = .ok v) :
    ∃ q : Rat, v = .rat q ∧ Rat.isInt' q = true := by
  have lit_case : ∀ t (w : Val), eval env (.lit (.int t)) = .ok w → ∃ n : Nat, w = .rat (n : Nat) := by
    intro t w hw
    simp only [eval, evalLit] at hw
    cases hd : decodeInt t.toList with
    | error e => simp [hd, Except.map] at hw
    | ok n => simp only [hd, Except.map, Except.ok.injEq] at hw; exact ⟨n, hw.symm⟩
  have natInt : ∀ n : Nat, Rat.isInt' ((n : Nat) : Rat) = true := by
    intro n; simp [Rat.isInt']
  match r, hr with
  | .lit (.int t), _ =>
    obtain ⟨n, rfl⟩ := lit_case t v h
    exact ⟨_, rfl, natInt n⟩
  | .un .neg (.lit (.int t)), _ =>
    simp only [eval] at h
    cases hv : eval env (.lit (.int t)) with
    | error e => simp [eval] at hv; simp [eval, hv] at h
    | ok w =>
      obtain ⟨n, rfl⟩ := lit_case t w hv
      simp only [eval] at hv
      simp only [hv, evalUn, Except.ok.injEq] at h
      exact ⟨_, h.symm, by simp [Rat.isInt']⟩
  | .un .pos (.lit (.int t)), _ =>
    simp only [eval] at h
    cases hv : eval env (.lit (.int t)) with
    | error e => simp [eval] at hv; simp [eval, hv] at h
    | ok w =>
      obtain ⟨n, rfl⟩ := lit_case t w hv
      simp only [eval] at hv
      simp only [hv, evalUn, Except.ok.injEq] at h
      exact ⟨_, h.symm, natInt n⟩

mutual
/-- Inside the bounds of the property (literals within CPython's conversion limit, escapes within Unicode, exponents
    integral by syntax) evaluation yields a value or a benign error: no hazard, nothing inexact. -/
theorem eval_bounded [StrNorm] (env : Env) : (e : Expr) → e.bounded = true → ∀ x, eval env e = .error x → x.benign
  | .lit l, hb, x, h => by
      simp only [Expr.bounded] at hb
      simp only [eval] at h
      exact evalLit_err l hb x h
  | .ident n, _, x, h => by
      simp only [eval] at h
      split at h
      · simp at h
      · exact benign_of_invalid ⟨_, by simpa [inval] using h.symm⟩
  | .setLit es, hb, x, h => by
      simp only [Expr.bounded] at hb
      simp only [eval] at h
      split at h
      · rename_i e he
        simp only [Except.error.injEq] at h; subst h
        exact evalList_bounded env es hb _ he
      · exact mkSet_err _ _ h
  | .un op e, hb, x, h => by
      simp only [Expr.bounded] at hb
      simp only [eval] at h
      split at h
      · rename_i e' he
        simp only [Except.error.injEq] at h; subst h
        exact eval_bounded env e hb _ he
      · exact benign_of_invalid (evalUn_err _ _ _ h)
  | .bin op l r, hb, x, h => by
      simp only [Expr.bounded, Bool.and_eq_true, Bool.or_eq_true, bne_iff_ne, ne_eq] at hb
      obtain ⟨⟨hl, hr⟩, hexp⟩ := hb
      simp only [eval] at h
      cases hla : eval env l with
      | error e' =>
        simp only [hla, Except.error.injEq] at h; subst h
        exact eval_bounded env l hl _ hla
      | ok a =>
        simp only [hla] at h
        cases hrb : eval env r with
        | error e' =>
          simp only [hrb, Except.error.injEq] at h; subst h
          exact eval_bounded env r hr _ hrb
        | ok b =>
          simp only [hrb] at h
          refine benign_of_invalid (evalBin_err_invalid op a b ?_ x h)
          by_cases hp : op = .pow
          · subst hp
            have hsyn : intSyntax r = true := by
              rcases hexp with h | h
              · exact absurd rfl h
              · exact h
            obtain ⟨q, rfl, hq⟩ := intSyntax_value env r hsyn b hrb
            intro _ q' hq'
            simp only [Scalar.rat.injEq] at hq'; subst hq'; exact hq
          · cases b with
            | sc y => exact intExp_of_ne_pow op hp y
            | set bs => exact fun z _ => intExp_of_ne_pow op hp z
  | .attr e n, hb, x, h => by
      simp only [Expr.bounded] at hb
      simp only [eval] at h
      split at h
      · rename_i e' he
        simp only [Except.error.injEq] at h; subst h
        exact eval_bounded env e hb _ he
      · exact benign_of_invalid (evalAttr_err _ _ _ h)
theorem evalList_bounded [StrNorm] (env : Env) : (es : List Expr) → boundedList es = true → ∀ x, evalList env es = .error x → x.benign
  | [], _, x, h => by simp [evalList] at h
  | e :: es, hb, x, h => by
      simp only [boundedList, Bool.and_eq_true] at hb
      simp only [evalList] at h
      split at h
      · rename_i e' he
        simp only [Except.error.injEq] at h; subst h
        exact eval_bounded env e hb.1 _ he
      · split at h
        · rename_i e' he
          simp only [Except.error.injEq] at h; subst h
          exact evalList_bounded env es hb.2 _ he
        · simp at h
end

end Ex
