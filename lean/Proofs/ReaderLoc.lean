import Proofs.Reader
/-! Location lemmas of the reader model (C17): which line and path an error carries. -/
namespace Reader

/-- the error of a referenced definition as it leaves the referring `parse`: path unchanged, line kept if it has one,
    else the line of the referring statement -/
def DepErr (c : Ctx) (k : Nat) (l : Line) (e : Err) : Prop :=
  ∃ w0 j e0 w1, j ∈ l.deps ∧ c.depRead w0 j = (w1, some e0) ∧ e = ⟨e0.file, some (e0.line.getD k)⟩

def Own (c : Ctx) (k : Nat) {α : Type} (x : M α) : Prop := ∀ e w', x = .error (e, w') → e = ⟨c.self, some k⟩

theorem own_raise {c k s} {α : Type} : Own c k (raise c s (some k) : M α) := by
  intro e w' h; simp [raise] at h; exact h.1.symm

theorem own_ok {c k} {α : Type} (a : α) : Own c k (.ok a : M α) := by
  intro e w' h; cases h

theorem own_commitAttr {c k s a bad doc} : Own c k (commitAttr c k s a bad doc) := by
  unfold commitAttr
  split
  · exact own_raise
  · split
    · exact own_ok _
    · split
      · exact own_raise
      · exact own_ok _

theorem own_flushAttr {c k s doc} : Own c k (flushAttr c k s doc) := by
  unfold flushAttr
  split
  · exact own_ok _
  · exact own_commitAttr

theorem own_flush {c k s} : Own c k (flush c k s) := by
  unfold flush
  split
  · exact own_ok _
  · intro e w' h; rw [map_err] at h; exact own_flushAttr e w' h

theorem own_resolveRefs {c k s rs} : Own c k (resolveRefs c k s rs) := by
  induction rs with
  | nil => exact own_ok _
  | cons r rs ih =>
    unfold resolveRefs
    split
    · exact ih
    · exact own_raise

theorem own_onAttr {c k s core bad} : Own c k (onAttr c k s core bad) := by
  unfold onAttr
  split
  · exact own_raise
  · intro e w' h; rw [map_err] at h; exact own_flushAttr e w' h

theorem own_onMarker {c k s} : Own c k (onMarker c k s) := by
  unfold onMarker
  split
  · exact own_raise
  · exact own_ok _

theorem own_onDirective {c k s name ev text} : Own c k (onDirective c k s name ev text) := by
  unfold onDirective
  repeat' split
  all_goals first | exact own_ok _ | exact own_raise

theorem readDeps_err {c k l s e w'} : ∀ js, (∀ j ∈ js, j ∈ l.deps) → readDeps c k s js = .error (e, w') →
    e = ⟨c.self, some k⟩ ∨ DepErr c k l e := by
  intro js
  induction js generalizing s with
  | nil => intro _ h; simp [readDeps] at h
  | cons j js ih =>
    intro hm h
    unfold readDeps at h
    split at h
    · left; exact own_raise e w' h
    · split at h
      · exact ih (fun x hx => hm x (List.mem_cons_of_mem _ hx)) h
      · rename_i w1 e0 hd
        right
        simp at h
        exact ⟨s.w, j, e0, w1, hm j (List.mem_cons_self ..), hd, h.1.symm⟩

theorem visitStmt_err {c k l st s e w'} (h : visitStmt c k l st s = .error (e, w')) :
    e = ⟨c.self, some k⟩ ∨ DepErr c k l e := by
  unfold visitStmt at h
  rw [bind_err] at h
  rcases h with h | ⟨s3, h3, h⟩
  · unfold visitChildren at h
    split at h
    · left; exact own_raise e w' h
    · rw [bind_err] at h
      rcases h with h | ⟨s1, _, h⟩
      · split at h
        · left; exact own_flush e w' h
        · cases h
      · rw [bind_err] at h
        rcases h with h | ⟨s2, _, h⟩
        · left; exact own_resolveRefs e w' h
        · rw [bind_err] at h
          rcases h with h | ⟨s3', _, h⟩
          · exact readDeps_err l.deps (fun _ hx => hx) h
          · split at h
            · left; exact own_raise e w' h
            · cases h
  · unfold emitStmt at h
    rw [bind_err] at h
    rcases h with h | ⟨s4, _, h⟩
    · left; exact own_flush e w' h
    · split at h
      · left; exact own_raise e w' h
      · left
        cases st with
        | attr core => exact own_onAttr e w' h
        | directive name ev text => exact own_onDirective e w' h
        | marker => exact own_onMarker e w' h

/-- every error that leaves the visit of line `k` carries the own path and line `k`, or is the located error of a
    referenced definition (whose known line is never overwritten) -/
theorem stepLine_err {c k l s e w'} (h : stepLine c k s l = .error (e, w')) :
    e = ⟨c.self, some k⟩ ∨ DepErr c k l e := by
  unfold stepLine at h
  rw [bind_err] at h
  rcases h with h | ⟨s1, _, h⟩
  · cases hl : l.stmt with
    | none => simp [hl] at h
    | some st => simp only [hl] at h; exact visitStmt_err h
  · split at h
    · left; exact own_flush e w' h
    · cases h

/-! ### documents without lazily failing attributes -/

/-- the queued attribute, if any, will be committed without raising -/
def Safe (s : St) : Prop := (∀ p, s.pending = some p → p.2 = false) ∧ s.cur.offsetUsed = false

def Line.noLazy (l : Line) : Prop := l.fault ≠ some .commit ∧ l.offs = false

theorem flushAttr_safe {c k s doc} (hs : Safe s) : ∃ s', flushAttr c k s doc = .ok s' ∧ Safe s' ∧ s'.pending = none := by
  unfold flushAttr
  cases hp : s.pending with
  | none => exact ⟨s, rfl, hs, hp⟩
  | some p =>
    obtain ⟨a, bad⟩ := p
    have hb : bad = false := hs.1 _ hp
    subst hb
    simp only [commitAttr, hs.2, Bool.and_false]
    cases hk : a.core.kind <;> simp [Safe]

theorem flush_safe {c k s} (hs : Safe s) : ∃ s', flush c k s = .ok s' ∧ Safe s' := by
  unfold flush
  split
  · exact ⟨_, rfl, by simpa [Safe] using hs⟩
  · obtain ⟨s1, h1, hs1, _⟩ := flushAttr_safe (c := c) (k := k) (doc := s.comment) hs
    rw [h1]
    exact ⟨_, rfl, by simpa [Safe] using hs1⟩

theorem flush_safe' {c k s s'} (h : flush c k s = .ok s') (hs : Safe s) : Safe s' := by
  obtain ⟨s2, h2, hs2⟩ := flush_safe (c := c) (k := k) hs
  rw [h] at h2; cases h2; exact hs2

theorem visitStmt_safe {c k l st s s'} (hn : l.noLazy) (h : visitStmt c k l st s = .ok s') (hs : Safe s) : Safe s' := by
  unfold visitStmt at h
  rw [bind_ok] at h
  obtain ⟨s3, h3, h⟩ := h
  have hs3 : Safe s3 := by
    unfold visitChildren at h3
    split at h3
    · simp [raise] at h3
    · simp only [bind_ok] at h3
      obtain ⟨s1, hs1, s2, hs2, s3', hs3', h3⟩ := h3
      split at h3
      · simp [raise] at h3
      · cases h3
        have e2 := resolveRefs_ok hs2; subst e2
        obtain ⟨w3, e3⟩ := readDeps_ok hs3'
        have : Safe s2 := by
          split at hs1
          · exact flush_safe' hs1 hs
          · cases hs1; exact hs
        rw [e3]
        simp only [markOffs, hn.2]
        exact this
  unfold emitStmt at h
  rw [bind_ok] at h
  obtain ⟨s4, h4, h⟩ := h
  have hs4 := flush_safe' h4 hs3
  split at h
  · simp [raise] at h
  · cases st with
    | attr core =>
      simp only at h
      unfold onAttr at h
      split at h
      · simp [raise] at h
      · rw [map_ok] at h
        obtain ⟨s5, h5, h6⟩ := h
        obtain ⟨s5', h5', hs5, _⟩ := flushAttr_safe (c := c) (k := k) (doc := "") hs4
        rw [h5] at h5'; cases h5'
        subst h6
        refine ⟨?_, hs5.2⟩
        intro p hp
        simp at hp
        subst hp
        have := hn.1
        cases hf : l.fault with
        | none => simp
        | some ph => cases ph <;> simp_all
    | directive name ev text =>
      simp only at h
      unfold onDirective at h
      repeat' split at h
      all_goals first | (simp [raise] at h; done) | (cases h; exact ⟨hs4.1, hs4.2⟩) | skip
    | marker =>
      simp only at h
      have := onMarker_ok h
      subst this
      exact ⟨hs4.1, rfl⟩

theorem stepLine_safe {c k l s s'} (hn : l.noLazy) (h : stepLine c k s l = .ok s') (hs : Safe s) : Safe s' := by
  unfold stepLine at h
  rw [bind_ok] at h
  obtain ⟨s1, h1, h⟩ := h
  have hs1 : Safe s1 := by
    cases hl : l.stmt with
    | none => simp [hl] at h1; subst h1; exact hs
    | some st => simp only [hl] at h1; exact visitStmt_safe hn h1 hs
  have hs1' : Safe (addLineComment l s1) := by
    unfold addLineComment; cases l.comment <;> exact hs1
  split at h
  · exact flush_safe' h hs1'
  · cases h; exact hs1'

/-- without lazily failing attributes, a line that holds no statement never raises -/
theorem stepLine_err_stmt {c k l s e w'} (hs : Safe s) (h : stepLine c k s l = .error (e, w')) : l.stmt.isSome := by
  cases hl : l.stmt with
  | some st => rfl
  | none =>
    unfold stepLine at h
    simp only [hl, bind, Except.bind] at h
    split at h
    · have hs' : Safe (addLineComment l s) := by
        unfold addLineComment; cases l.comment <;> exact hs
      obtain ⟨s2, h2, _⟩ := flush_safe (c := c) (k := k) hs'
      rw [h2] at h; cases h
    · cases h

/-- the first line whose visit raises: everything before it passed -/
theorem runLines_err {c} (ls : List Line) : ∀ k s e w', (∀ l ∈ ls, l.noLazy) → Safe s → runLines c k s ls = .error (e, w') →
    ∃ ls₁ l ls₂ s₁, ls = ls₁ ++ l :: ls₂ ∧ runLines c k s ls₁ = .ok s₁ ∧ l.stmt.isSome ∧
      (e = ⟨c.self, some (k + ls₁.length)⟩ ∨ DepErr c (k + ls₁.length) l e) := by
  induction ls with
  | nil => intro k s e w' _ _ h; simp [runLines] at h
  | cons l ls ih =>
    intro k s e w' hn hs h
    simp only [runLines] at h
    rw [bind_err] at h
    rcases h with h | ⟨s1, h1, h⟩
    · exact ⟨[], l, ls, s, rfl, rfl, stepLine_err_stmt hs h, by simpa using stepLine_err h⟩
    · have hs1 := stepLine_safe (hn l (List.mem_cons_self ..)) h1 hs
      obtain ⟨ls₁, l', ls₂, s₁, e1, e2, e3, e4⟩ := ih (k + 1) s1 e w' (fun x hx => hn x (List.mem_cons_of_mem _ hx)) hs1 h
      refine ⟨l :: ls₁, l', ls₂, s₁, by simp [e1], ?_, e3, ?_⟩
      · simp only [runLines, h1, bind, Except.bind]; exact e2
      · have : k + (l :: ls₁).length = k + 1 + ls₁.length := by simp; omega
        rw [this]; exact e4

theorem runLines_safe {c} (ls : List Line) : ∀ k s s', (∀ l ∈ ls, l.noLazy) → Safe s → runLines c k s ls = .ok s' → Safe s' := by
  induction ls with
  | nil => intro k s s' _ hs h; simp [runLines] at h; subst h; exact hs
  | cons l ls ih =>
    intro k s s' hn hs h
    simp only [runLines, bind_ok] at h
    obtain ⟨s1, h1, h2⟩ := h
    exact ih _ _ _ (fun x hx => hn x (List.mem_cons_of_mem _ hx)) (stepLine_safe (hn l (List.mem_cons_self ..)) h1 hs) h2

theorem firstSyntaxError_some {ls : List Line} : ∀ k n, firstSyntaxError k ls = some n →
    ∃ ls₁ l ls₂, ls = ls₁ ++ l :: ls₂ ∧ l.fault = some .syn ∧ (∀ x ∈ ls₁, x.fault ≠ some .syn) ∧ n = k + ls₁.length := by
  induction ls with
  | nil => intro k n h; simp [firstSyntaxError] at h
  | cons l ls ih =>
    intro k n h
    simp only [firstSyntaxError] at h
    split at h
    · rename_i hf; cases h; exact ⟨[], l, ls, rfl, hf, by simp, by simp⟩
    · rename_i hf
      obtain ⟨ls₁, l', ls₂, e1, e2, e3, e4⟩ := ih _ _ h
      refine ⟨l :: ls₁, l', ls₂, by simp [e1], e2, ?_, by simp [e4]; omega⟩
      intro x hx
      cases hx with
      | head => exact hf
      | tail _ hx => exact e3 x hx

theorem Safe_init (w : W) : Safe (St.init w) := by simp [Safe, St.init, Schema.empty]

end Reader
