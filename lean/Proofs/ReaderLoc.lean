import Proofs.Reader
import Proofs.ReaderDocs
/-! Location lemmas of the reader model (C17): which line and path an error carries. -/
namespace Reader

/-- the error of a referenced definition of line `l` as it leaves the referring `parse`: exactly as the referenced
    definition reported it (path and line untouched) -/
def DepErr (c : Ctx) (l : Line) (e : Err) : Prop :=
  ∃ w0 j w1, j ∈ l.deps ∧ j < c.ndefs ∧ c.depRead w0 j = (w1, some e)

def Own (c : Ctx) (k : Nat) {α : Type} (x : M α) : Prop := ∀ e w', x = .error (e, w') → e = ⟨c.self, some k⟩

theorem own_raise {c k s} {α : Type} : Own c k (raise c s (some k) : M α) := by
  intro e w' h; simp [raise] at h; exact h.1.symm

theorem own_ok {c k} {α : Type} (a : α) : Own c k (.ok a : M α) := by
  intro e w' h; cases h

theorem own_commitAttr {c k s a bad doc} : Own c k (commitAttr c k s a bad doc) := by
  unfold commitAttr
  split
  · exact own_raise
  · split
    · exact own_ok _
    · split
      · exact own_raise
      · exact own_ok _

theorem own_flushAttr {c k s doc} : Own c k (flushAttr c k s doc) := by
  unfold flushAttr
  split
  · exact own_ok _
  · exact own_commitAttr

/-- `flush` raises only while committing the queued attribute, and then with the line of that attribute statement -/
theorem flush_err {c k s e w'} (h : flush c k s = .error (e, w')) :
    s.pending.isSome ∧ e = ⟨c.self, some (if s.lastAttrLine = 0 then k else s.lastAttrLine)⟩ := by
  unfold flush at h
  split at h
  · cases h
  · rw [map_err] at h
    refine ⟨?_, own_flushAttr e w' h⟩
    unfold flushAttr at h
    cases hp : s.pending with
    | none => simp [hp] at h
    | some p => rfl

theorem own_resolveRefs {c k s rs} : Own c k (resolveRefs c k s rs) := by
  induction rs with
  | nil => exact own_ok _
  | cons r rs ih =>
    unfold resolveRefs
    split
    · exact ih
    · exact own_raise

theorem own_onMarker {c k s} : Own c k (onMarker c k s) := by
  unfold onMarker
  split
  · exact own_raise
  · exact own_ok _

theorem own_onDirective {c k s name ev text} : Own c k (onDirective c k s name ev text) := by
  unfold onDirective
  repeat' split
  all_goals first | exact own_ok _ | exact own_raise

theorem own_onAttr {c k s core bad} : Own c k (onAttr c k s core bad) := by
  unfold onAttr
  split
  · exact own_raise
  · intro e w' h; rw [map_err] at h; exact own_flushAttr e w' h

theorem readDeps_err {c k l s e w'} : ∀ js, (∀ j ∈ js, j ∈ l.deps) → readDeps c k s js = .error (e, w') →
    e = ⟨c.self, some k⟩ ∨ DepErr c l e := by
  intro js
  induction js generalizing s with
  | nil => intro _ h; simp [readDeps] at h
  | cons j js ih =>
    intro hm h
    unfold readDeps at h
    split at h
    · left; exact own_raise e w' h
    · rename_i hj
      split at h
      · exact ih (fun x hx => hm x (List.mem_cons_of_mem _ hx)) h
      · rename_i w1 e0 hd
        right
        simp at h
        exact ⟨s.w, j, w1, hm j (List.mem_cons_self ..), by omega, by rw [hd, h.1]⟩

/-- the line an error of `flush` carries, given the state invariant -/
def AttrLine (s : St) (k : Nat) : Nat := if s.lastAttrLine = 0 then k else s.lastAttrLine

/-- what can leave the visit of a statement on line `k`: an own error with line `k`, an own error with the line of the
    attribute statement that was waiting for its doc comment, or the untouched error of a referenced definition -/
theorem markOffs_pending (l : Line) (s : St) : (markOffs l s).pending = s.pending := by
  unfold markOffs; split <;> rfl

theorem markOffs_lastAttrLine (l : Line) (s : St) : (markOffs l s).lastAttrLine = s.lastAttrLine := by
  unfold markOffs; split <;> rfl

theorem visitStmt_err {c k l st s e w'} (hi : s.pending.isSome → s.header = false)
    (h : visitStmt c k l st s = .error (e, w')) :
    e = ⟨c.self, some k⟩ ∨ (s.pending.isSome ∧ e = ⟨c.self, some (AttrLine s k)⟩) ∨ DepErr c l e := by
  unfold visitStmt at h
  rw [bind_err] at h
  rcases h with h | ⟨s3, h3, h⟩
  · unfold visitChildren at h
    split at h
    · left; exact own_raise e w' h
    · rw [bind_err] at h
      rcases h with h | ⟨s1, _, h⟩
      · split at h
        · right; left; exact flush_err h
        · cases h
      · rw [bind_err] at h
        rcases h with h | ⟨s2, _, h⟩
        · left; exact own_resolveRefs e w' h
        · rw [bind_err] at h
          rcases h with h | ⟨s3', _, h⟩
          · rcases readDeps_err l.deps (fun _ hx => hx) h with h | h
            · left; exact h
            · right; right; exact h
          · split at h
            · left; exact own_raise e w' h
            · cases h
  · -- the statement visitor: its flush finds nothing to commit unless the children did not flush
    unfold emitStmt at h
    rw [bind_err] at h
    rcases h with h | ⟨s4, _, h⟩
    · -- flush of s3: relate s3 to s
      unfold visitChildren at h3
      split at h3
      · simp [raise] at h3
      · simp only [bind_ok] at h3
        obtain ⟨s1, hs1, s2, hs2, s3', hs3', h3⟩ := h3
        split at h3
        · simp [raise] at h3
        · cases h3
          have e2 := resolveRefs_ok hs2; subst e2
          obtain ⟨w3, e3⟩ := readDeps_ok hs3'
          obtain ⟨hp, he⟩ := flush_err h
          split at hs1
          · -- the children flushed: nothing is pending any more
            exfalso
            have hp1 := (flush_ok hs1 hi).1
            rw [e3] at hp
            simp [markOffs_pending, hp1] at hp
          · cases hs1
            right; left
            rw [e3] at hp he
            simp only [markOffs_pending, markOffs_lastAttrLine] at hp he
            exact ⟨hp, he⟩
    · split at h
      · left; exact own_raise e w' h
      · left
        cases st with
        | attr core => exact own_onAttr e w' h
        | directive name ev text => exact own_onDirective e w' h
        | marker => exact own_onMarker e w' h

/-! ### the invariant of the line bookkeeping -/

/-- `P` holds of the line of the attribute statement that awaits its doc comment -/
def LInv (P : Nat → Prop) (s : St) : Prop :=
  (s.pending.isSome → s.header = false) ∧
  (∀ a bad, s.pending = some (a, bad) → s.lastAttrLine = a.line ∧ a.line ≠ 0) ∧
  (s.lastAttrLine = 0 ∨ P s.lastAttrLine)

theorem LInv.last_ne {P s} (h : LInv P s) (hp : s.pending.isSome) : s.lastAttrLine ≠ 0 := by
  cases hq : s.pending with
  | none => simp [hq] at hp
  | some p => obtain ⟨a, bad⟩ := p; have := h.2.1 a bad hq; rw [this.1]; exact this.2

theorem LInv_mono {P Q : Nat → Prop} {s} (h : LInv P s) (hpq : ∀ n, P n → Q n) : LInv Q s :=
  ⟨h.1, h.2.1, h.2.2.imp id (hpq _)⟩

theorem flush_last {c k s s'} (h : flush c k s = .ok s') (hi : s.pending.isSome → s.header = false) :
    s'.lastAttrLine = s.lastAttrLine ∧ s'.pending = none ∧ s'.header = false := by
  obtain ⟨p, q, _⟩ := flush_ok h hi
  refine ⟨?_, p, q⟩
  unfold flush at h
  split at h
  · cases h; rfl
  · rw [map_ok] at h
    obtain ⟨s1, h1, h2⟩ := h
    subst h2
    unfold flushAttr at h1
    cases hp : s.pending with
    | none => simp [hp] at h1; subst h1; rfl
    | some p =>
      obtain ⟨a, bad⟩ := p
      simp only [hp] at h1
      unfold commitAttr at h1
      split at h1
      · simp [raise] at h1
      · split at h1
        · cases h1; rfl
        · split at h1
          · simp [raise] at h1
          · cases h1; rfl

theorem LInv_flush {P c k s s'} (h : flush c k s = .ok s') (hl : LInv P s) : LInv P s' := by
  obtain ⟨a, b, _⟩ := flush_last h hl.1
  exact ⟨by simp [b], by simp [b], by rw [a]; exact hl.2.2⟩

theorem visitChildren_last {c k l st s s'} (h : visitChildren c k l st s = .ok s') (hi : s.pending.isSome → s.header = false) :
    s'.lastAttrLine = s.lastAttrLine ∧ ((s'.pending = s.pending ∧ s'.header = s.header) ∨ (s'.pending = none ∧ s'.header = false)) := by
  unfold visitChildren at h
  split at h
  · simp [raise] at h
  · simp only [bind_ok] at h
    obtain ⟨s1, hs1, s2, hs2, s3, hs3, h⟩ := h
    split at h
    · simp [raise] at h
    · cases h
      have e2 := resolveRefs_ok hs2; subst e2
      obtain ⟨w3, e3⟩ := readDeps_ok hs3
      have m1 : ∀ t : St, (markOffs l t).header = t.header := by intro t; unfold markOffs; split <;> rfl
      rw [e3]
      simp only [markOffs_pending, markOffs_lastAttrLine, m1]
      split at hs1
      · obtain ⟨a, b, d⟩ := flush_last hs1 hi
        exact ⟨a, Or.inr ⟨b, d⟩⟩
      · cases hs1; exact ⟨rfl, Or.inl ⟨rfl, rfl⟩⟩

theorem onDirective_last {c k s name e text s'} (h : onDirective c k s name e text = .ok s') :
    s'.lastAttrLine = s.lastAttrLine ∧ s'.pending = s.pending ∧ s'.header = s.header := by
  unfold onDirective at h
  repeat' split at h
  all_goals first | (simp [raise] at h; done) | (cases h; exact ⟨rfl, rfl, rfl⟩)

theorem LInv_visitStmt {P c k l st s s'} (hk : 0 < k) (h : visitStmt c k l st s = .ok s') (hl : LInv P s) :
    LInv (fun n => P n ∨ n = k) s' := by
  unfold visitStmt at h
  rw [bind_ok] at h
  obtain ⟨s3, h3, h⟩ := h
  obtain ⟨a3, b3⟩ := visitChildren_last h3 hl.1
  have hl3 : LInv P s3 := by
    rcases b3 with ⟨b, d⟩ | ⟨b, d⟩
    · exact ⟨by rw [b, d]; exact hl.1, by rw [b, a3]; exact hl.2.1, by rw [a3]; exact hl.2.2⟩
    · exact ⟨by simp [b], by simp [b], by rw [a3]; exact hl.2.2⟩
  unfold emitStmt at h
  rw [bind_ok] at h
  obtain ⟨s4, h4, h⟩ := h
  have hl4 := LInv_flush h4 hl3
  obtain ⟨_, p4, hd4⟩ := flush_last h4 hl3.1
  split at h
  · simp [raise] at h
  · cases st with
    | attr core =>
      simp only at h
      unfold onAttr at h
      split at h
      · simp [raise] at h
      · rw [map_ok] at h
        obtain ⟨s5, h5, h6⟩ := h
        simp [flushAttr, p4] at h5
        subst h5; subst h6
        refine ⟨fun _ => hd4, ?_, Or.inr (Or.inr rfl)⟩
        intro a bad hab
        simp at hab
        obtain ⟨rfl, _⟩ := hab
        exact ⟨rfl, by show k ≠ 0; omega⟩
    | directive name e text =>
      simp only at h
      obtain ⟨a, b, d⟩ := onDirective_last h
      exact LInv_mono ⟨by rw [b, d]; exact hl4.1, by rw [b, a]; exact hl4.2.1, by rw [a]; exact hl4.2.2⟩ (fun _ => Or.inl)
    | marker =>
      simp only at h
      have := onMarker_ok h
      subst this
      exact LInv_mono ⟨by simp [p4], by simp [p4], hl4.2.2⟩ (fun _ => Or.inl)

/-- numbers of the lines that hold a statement or do not match the grammar -/
def culpritLineNos : Nat → List Line → List Nat
  | _, [] => []
  | k, l :: ls => (if l.stmt.isSome || l.fault == some .syn then [k] else []) ++ culpritLineNos (l.next k) ls

theorem LInv_stepLine {P c k l s s'} (hk : 0 < k) (h : stepLine c k s l = .ok s') (hl : LInv P s) :
    LInv (fun n => P n ∨ (n = k ∧ l.stmt.isSome)) s' := by
  unfold stepLine at h
  rw [bind_ok] at h
  obtain ⟨s1, h1, h⟩ := h
  have hl1 : LInv (fun n => P n ∨ (n = k ∧ l.stmt.isSome)) s1 := by
    cases hs : l.stmt with
    | none => simp [hs] at h1; subst h1; exact LInv_mono hl (fun _ => Or.inl)
    | some st =>
      simp only [hs] at h1
      exact LInv_mono (LInv_visitStmt hk h1 hl) (fun n hn => hn.imp id (fun e => ⟨e, rfl⟩))
  have hl1' : LInv (fun n => P n ∨ (n = k ∧ l.stmt.isSome)) (addLineComment l s1) := by
    unfold addLineComment; cases l.comment <;> exact hl1
  split at h
  · exact LInv_flush h hl1'
  · cases h; exact hl1'

/-- every error that leaves the visit of line `k`: the untouched error of a referenced definition, an own error with
    line `k` (which then holds a statement), or an own error with the line of an earlier attribute statement -/
theorem stepLine_err {P c k l s e w'} (hk : 0 < k) (hl : LInv P s) (h : stepLine c k s l = .error (e, w')) :
    DepErr c l e ∨ (e = ⟨c.self, some k⟩ ∧ l.stmt.isSome) ∨ (∃ n, e = ⟨c.self, some n⟩ ∧ P n) := by
  have attr : ∀ t : St, LInv (fun n => P n ∨ (n = k ∧ l.stmt.isSome)) t → t.pending.isSome →
      (⟨c.self, some (AttrLine t k)⟩ : Err) = e → (e = ⟨c.self, some k⟩ ∧ l.stmt.isSome) ∨ (∃ n, e = ⟨c.self, some n⟩ ∧ P n) := by
    intro t ht hp he
    have h0 := ht.last_ne hp
    rcases ht.2.2 with h1 | h1
    · exact absurd h1 h0
    · simp only [AttrLine, h0, if_false] at he
      rcases h1 with h1 | ⟨h1, h2⟩
      · right; exact ⟨_, he.symm, h1⟩
      · left; exact ⟨by rw [← he, h1], h2⟩
  unfold stepLine at h
  rw [bind_err] at h
  rcases h with h | ⟨s1, h1, h⟩
  · cases hs : l.stmt with
    | none => simp [hs] at h
    | some st =>
      simp only [hs] at h
      rcases visitStmt_err hl.1 h with h | ⟨hp, he⟩ | h
      · right; left; exact ⟨h, rfl⟩
      · right
        have := attr s (LInv_mono hl (fun _ => Or.inl)) hp he.symm
        rcases this with ⟨a, _⟩ | b
        · left; exact ⟨a, rfl⟩
        · right; exact b
      · left; exact h
  · split at h
    · right
      have hl1 : LInv (fun n => P n ∨ (n = k ∧ l.stmt.isSome)) s1 := by
        cases hs : l.stmt with
        | none => simp [hs] at h1; subst h1; exact LInv_mono hl (fun _ => Or.inl)
        | some st =>
          simp only [hs] at h1
          exact LInv_mono (LInv_visitStmt hk h1 hl) (fun n hn => hn.imp id (fun e => ⟨e, rfl⟩))
      have hl1' : LInv (fun n => P n ∨ (n = k ∧ l.stmt.isSome)) (addLineComment l s1) := by
        unfold addLineComment; cases l.comment <;> exact hl1
      obtain ⟨hp, he⟩ := flush_err h
      exact attr _ hl1' hp he.symm
    · cases h

/-- an error raised while the queued attribute is committed carries the line of that attribute's own statement -/
theorem flush_err_attr {P c k s e w'} (hl : LInv P s) (h : flush c k s = .error (e, w')) :
    ∃ a bad, s.pending = some (a, bad) ∧ e = ⟨c.self, some a.line⟩ := by
  obtain ⟨hp, he⟩ := flush_err h
  cases hq : s.pending with
  | none => simp [hq] at hp
  | some p =>
    obtain ⟨a, bad⟩ := p
    obtain ⟨h1, h2⟩ := hl.2.1 a bad hq
    refine ⟨a, bad, rfl, ?_⟩
    rw [he, h1]; simp [h2]

theorem next_pos (l : Line) (k : Nat) : 0 < l.next k := by unfold Line.next; omega

/-- all lines: an own error carries the number of a line that holds a statement -/
theorem runLines_err {c} (ls : List Line) : ∀ (P : Nat → Prop) k s e w', 0 < k → LInv P s → runLines c k s ls = .error (e, w') →
    (∃ l ∈ ls, DepErr c l e) ∨ ∃ n, e = ⟨c.self, some n⟩ ∧ (P n ∨ n ∈ culpritLineNos k ls) := by
  induction ls with
  | nil => intro P k s e w' _ _ h; simp [runLines] at h
  | cons l ls ih =>
    intro P k s e w' hk hl h
    simp only [runLines] at h
    rw [bind_err] at h
    rcases h with h | ⟨s1, h1, h⟩
    · rcases stepLine_err hk hl h with h | ⟨h, hs⟩ | ⟨n, h, hp⟩
      · left; exact ⟨l, List.mem_cons_self .., h⟩
      · right; exact ⟨k, h, Or.inr (by simp [culpritLineNos, hs])⟩
      · right; exact ⟨n, h, Or.inl hp⟩
    · rcases ih _ _ _ _ _ (next_pos l k) (LInv_stepLine hk h1 hl) h with ⟨l', hm, hd⟩ | ⟨n, he, hn⟩
      · left; exact ⟨l', List.mem_cons_of_mem _ hm, hd⟩
      · right
        refine ⟨n, he, ?_⟩
        rcases hn with (hp | ⟨rfl, hs⟩) | hn
        · exact Or.inl hp
        · exact Or.inr (by simp [culpritLineNos, hs])
        · exact Or.inr (by simp only [culpritLineNos, List.mem_append]; exact Or.inr hn)

theorem runLines_linv {c} (ls : List Line) : ∀ (P : Nat → Prop) k s s', 0 < k → LInv P s → runLines c k s ls = .ok s' →
    LInv (fun n => P n ∨ n ∈ culpritLineNos k ls) s' := by
  induction ls with
  | nil => intro P k s s' _ hl h; simp [runLines] at h; subst h; exact LInv_mono hl (fun _ => Or.inl)
  | cons l ls ih =>
    intro P k s s' hk hl h
    simp only [runLines, bind_ok] at h
    obtain ⟨s1, h1, h2⟩ := h
    refine LInv_mono (ih _ _ _ _ (next_pos l k) (LInv_stepLine hk h1 hl) h2) ?_
    intro n hn
    rcases hn with (hp | ⟨rfl, hs⟩) | hn
    · exact Or.inl hp
    · exact Or.inr (by simp [culpritLineNos, hs])
    · exact Or.inr (by simp only [culpritLineNos, List.mem_append]; exact Or.inr hn)

theorem firstSyntaxError_mem {ls : List Line} : ∀ k n, firstSyntaxError k ls = some n → n ∈ culpritLineNos k ls := by
  induction ls with
  | nil => intro k n h; simp [firstSyntaxError] at h
  | cons l ls ih =>
    intro k n h
    simp only [firstSyntaxError] at h
    split at h
    · rename_i hf; cases h; simp [culpritLineNos, hf]
    · simp only [culpritLineNos, List.mem_append]; exact Or.inr (ih _ _ h)

theorem LInv_init (w : W) : LInv (fun _ => False) (St.init w) := by simp [LInv, St.init]

/-- a failed read: the untouched error of a referenced definition, or an own error without a line (finalize), or an own
    error whose line is the number of a line that holds a statement (or does not match the grammar) -/
theorem readText_err {c ls w e w'} (h : readText c ls w = .error (e, w')) :
    (∃ l ∈ ls, DepErr c l e) ∨ e = ⟨c.self, none⟩ ∨ ∃ n, e = ⟨c.self, some n⟩ ∧ n ∈ culpritLineNos 1 ls := by
  unfold readText at h
  split at h
  · rename_i k hk
    simp at h
    right; right
    exact ⟨k, h.1.symm, firstSyntaxError_mem _ _ hk⟩
  · rw [bind_err] at h
    rcases h with h | ⟨s, hs, h⟩
    · rcases runLines_err ls _ 1 _ e w' (by omega) (LInv_init w) h with h | ⟨n, he, hn⟩
      · left; exact h
      · right; right; exact ⟨n, he, by simpa using hn⟩
    · have hl := runLines_linv ls _ 1 _ _ (by omega) (LInv_init w) hs
      rw [bind_err] at h
      rcases h with h | ⟨s', hf, h⟩
      · obtain ⟨hp, he⟩ := flush_err h
        have h0 := hl.last_ne hp
        right; right
        rcases hl.2.2 with h1 | h1
        · exact absurd h1 h0
        · simp only [h0, if_false] at he
          exact ⟨_, he, by simpa using h1⟩
      · right; left
        rw [map_err] at h
        simp only [finalize] at h
        split at h
        · simp [raise] at h; exact h.1.symm
        · cases h

/-! ### the path of an error, at any dependency depth -/

/-- the definition at the reported path fails on its own: reading it raises exactly this error -/
def FailsItself (defs : List Def) (e : Err) : Prop :=
  ∃ pf fuel w0 w1 d, defs[e.file]? = some d ∧
    readText ⟨e.file, pf, defs.length, readDef fuel defs pf, d.finalFault⟩ d.lines w0 = .error (e, w1) ∧
    (e.line = none ∨ ∃ n, e.line = some n ∧ n ∈ culpritLineNos 1 d.lines)

theorem readDef_path (defs : List Def) (pf : Nat) : ∀ fuel w i w' e, i < defs.length → readDef fuel defs pf w i = (w', some e) →
    FailsItself defs e ∨ e = ⟨defs.length, none⟩ := by
  intro fuel
  induction fuel with
  | zero => intro w i w' e _ h; simp [readDef] at h; right; exact h.2.symm
  | succ fuel ih =>
    intro w i w' e hi h
    unfold readDef at h
    split at h
    · simp at h
    · have hd : defs[i]? = some defs[i] := List.getElem?_eq_getElem hi
      simp only [hd] at h
      split at h
      · simp at h
      · rename_i e1 w1 hr
        simp at h
        obtain ⟨_, rfl⟩ := h
        rcases readText_err hr with ⟨l, _, w0, j, w2, _, hj, hdep⟩ | hown | ⟨n, hown, hn⟩
        · simp at hdep hj
          exact ih _ _ _ _ hj hdep
        · left
          simp at hown
          refine ⟨pf, fuel, w, w1, defs[i], by rw [hown]; exact hd, ?_, Or.inl (by rw [hown])⟩
          rw [hown] at hr ⊢; exact hr
        · left
          simp at hown
          refine ⟨pf, fuel, w, w1, defs[i], by rw [hown]; exact hd, ?_, Or.inr ⟨n, by rw [hown], hn⟩⟩
          rw [hown] at hr ⊢; exact hr

/-- … and for the targets of a namespace -/
theorem readTargets_path (defs : List Def) : ∀ ts w acc e w', (∀ t ∈ ts, t < defs.length) →
    readTargets defs ts w acc = .error (e, w') → FailsItself defs e ∨ e = ⟨defs.length, none⟩ := by
  intro ts
  induction ts with
  | nil => intro w acc e w' _ h; simp [readTargets] at h
  | cons t ts ih =>
    intro w acc e w' ht h
    have hts : ∀ x ∈ ts, x < defs.length := fun x hx => ht x (List.mem_cons_of_mem _ hx)
    have hi : t < defs.length := ht t (List.mem_cons_self ..)
    unfold readTargets at h
    split at h
    · exact ih _ _ _ _ hts h
    · have hd : defs[t]? = some defs[t] := List.getElem?_eq_getElem hi
      simp only [hd] at h
      split at h
      · exact ih _ _ _ _ hts h
      · rename_i e1 w1 hr
        simp at h
        obtain ⟨rfl, _⟩ := h
        rcases readText_err hr with ⟨l, _, w0, j, w2, _, hj, hdep⟩ | hown | ⟨n, hown, hn⟩
        · simp at hdep hj
          exact readDef_path defs t _ _ _ _ _ hj hdep
        · left
          simp at hown
          refine ⟨t, defs.length, w, w1, defs[t], by rw [hown]; exact hd, ?_, Or.inl (by rw [hown])⟩
          rw [hown] at hr ⊢; exact hr
        · left
          simp at hown
          refine ⟨t, defs.length, w, w1, defs[t], by rw [hown]; exact hd, ?_, Or.inr ⟨n, by rw [hown], hn⟩⟩
          rw [hown] at hr ⊢; exact hr

end Reader
