import Model.Namespace
/-! Shared by the Proofs/Namespace* files. -/
deriving instance DecidableEq for Except
