import Proofs.BlsMinMax
import Model.Layout
import Mathlib.Tactic.IntervalCases
/-!
  Specification side of C02 (`specLens`) and the lemmas relating the layout model to it.
-/
open scoped Pointwise
namespace Layout
open Bls

/-- Induction over type trees. -/
theorem Ty.induct {P : Ty → Prop}
    (prim : ∀ n, P (.prim n)) (void : ∀ n, P (.void n))
    (farr : ∀ e cap, P e → P (.farr e cap)) (varr : ∀ e cap, P e → P (.varr e cap))
    (struct : ∀ fs, (∀ f ∈ fs, P f) → P (.struct fs)) (union : ∀ fs, (∀ f ∈ fs, P f) → P (.union fs))
    (delim : ∀ inner ext, P inner → P (.delim inner ext)) : ∀ t, P t := by
  intro t
  exact Ty.rec (motive_1 := P) (motive_2 := fun fs => ∀ f ∈ fs, P f)
    prim void (fun e cap ih => farr e cap ih) (fun e cap ih => varr e cap ih)
    (fun fs ih => struct fs ih) (fun fs ih => union fs ih) (fun i e ih => delim i e ih)
    (by intro f hf; cases hf)
    (fun f fs ihf ihfs => by
      intro x hx
      rcases List.mem_cons.mp hx with rfl | hx
      · exact ihf
      · exact ihfs x hx) t

theorem wfList_iff (fs : List Ty) : wfList fs = true ↔ ∀ f ∈ fs, f.wf = true := by
  induction fs with
  | nil => simp [wfList]
  | cons f fs ih => simp [wfList, ih]

theorem blsList_eq (fs : List Ty) : blsList fs = fs.map Ty.bls := by
  induction fs with
  | nil => simp [blsList]
  | cons f fs ih => simp [blsList, ih]

/-! ### Widths of the implicit prefix / tag -/

theorem bitLength_le_iff (n k : ℕ) : bitLength n ≤ k ↔ n < 2 ^ k := by
  unfold bitLength
  split
  · next h => subst h; simp
  · next h =>
    rw [Nat.succ_le_iff, Nat.log2_lt h]

theorem nextPow2Aux_ge (x f p : ℕ) (h : x ≤ p * 2 ^ f) : x ≤ nextPow2Aux x f p := by
  induction f generalizing p with
  | zero => simpa [nextPow2Aux] using h
  | succ f ih =>
    simp only [nextPow2Aux]
    split
    · assumption
    · apply ih
      calc x ≤ p * 2 ^ (f + 1) := h
        _ = 2 * p * 2 ^ f := by ring

theorem le_nextPow2 (x : ℕ) : x ≤ nextPow2 x := by
  unfold nextPow2
  apply nextPow2Aux_ge
  rw [Nat.one_mul]
  exact Nat.le_of_lt Nat.lt_two_pow_self

/-- The smallest of the standard widths 8/16/32/64 whose unsigned range holds `x` (`none`: does not fit 64 bits). -/
def smallestStd (x : ℕ) : Option ℕ :=
  if x < 2 ^ 8 then some 8 else if x < 2 ^ 16 then some 16 else if x < 2 ^ 32 then some 32
  else if x < 2 ^ 64 then some 64 else none

theorem nextPow2_table (b : ℕ) (h8 : 8 ≤ b) (h64 : b ≤ 64) :
    nextPow2 b = if b ≤ 8 then 8 else if b ≤ 16 then 16 else if b ≤ 32 then 32 else 64 := by
  interval_cases b <;> decide

theorem stdWidth_spec (n : ℕ) :
    (∀ w, smallestStd n = some w → stdWidth n = w) ∧ (smallestStd n = none → 64 < stdWidth n) := by
  unfold smallestStd stdWidth
  have hb := bitLength_le_iff n
  by_cases h8 : n < 2 ^ 8
  · have : bitLength n ≤ 8 := (hb 8).mpr h8
    simp only [h8, if_true]
    refine ⟨?_, by simp⟩
    intro w hw; cases hw
    rw [Nat.max_eq_left this]; decide
  by_cases h16 : n < 2 ^ 16
  · have h1 : bitLength n ≤ 16 := (hb 16).mpr h16
    have h2 : ¬ bitLength n ≤ 8 := fun h => h8 ((hb 8).mp h)
    simp only [h8, h16, if_true, if_false]
    refine ⟨?_, by simp⟩
    intro w hw; cases hw
    rw [Nat.max_eq_right (by omega), nextPow2_table _ (by omega) (by omega)]
    simp [h2, h1]
  by_cases h32 : n < 2 ^ 32
  · have h1 : bitLength n ≤ 32 := (hb 32).mpr h32
    have h2 : ¬ bitLength n ≤ 16 := fun h => h16 ((hb 16).mp h)
    simp only [h8, h16, h32, if_true, if_false]
    refine ⟨?_, by simp⟩
    intro w hw; cases hw
    rw [Nat.max_eq_right (by omega), nextPow2_table _ (by omega) (by omega)]
    have : ¬ bitLength n ≤ 8 := by omega
    simp [h2, h1, this]
  by_cases h64 : n < 2 ^ 64
  · have h1 : bitLength n ≤ 64 := (hb 64).mpr h64
    have h2 : ¬ bitLength n ≤ 32 := fun h => h32 ((hb 32).mp h)
    simp only [h8, h16, h32, h64, if_true, if_false]
    refine ⟨?_, by simp⟩
    intro w hw; cases hw
    rw [Nat.max_eq_right (by omega), nextPow2_table _ (by omega) (by omega)]
    have h3 : ¬ bitLength n ≤ 8 := by omega
    have h4 : ¬ bitLength n ≤ 16 := by omega
    simp [h2, h3, h4]
  · have h2 : ¬ bitLength n ≤ 64 := fun h => h64 ((hb 64).mp h)
    simp only [h8, h16, h32, h64, if_false]
    refine ⟨by simp, fun _ => ?_⟩
    have := le_nextPow2 (max 8 (bitLength n))
    have : bitLength n ≤ max 8 (bitLength n) := Nat.le_max_right _ _
    omega

theorem stdWidth_mem (n : ℕ) (h : stdWidth n ≤ 64) : stdWidth n ∈ [8, 16, 32, 64] := by
  obtain ⟨h1, h2⟩ := stdWidth_spec n
  cases hs : smallestStd n with
  | none => have := h2 hs; omega
  | some w =>
    rw [h1 w hs]
    unfold smallestStd at hs
    split at hs
    · cases hs; simp
    · split at hs
      · cases hs; simp
      · split at hs
        · cases hs; simp
        · split at hs
          · cases hs; simp
          · cases hs

/-! ### Alignment -/

theorem maxAlign_le (fs : List Ty) (h : ∀ f ∈ fs, f.align = 1 ∨ f.align = 8) : maxAlign fs ≤ 8 := by
  induction fs with
  | nil => simp [maxAlign]
  | cons f fs ih =>
    simp only [maxAlign]
    have := h f (by simp)
    have := ih fun x hx => h x (by simp [hx])
    omega

/-- Every alignment requirement is 1 (bit-level types and their arrays) or 8 (composites and their arrays). -/
theorem align_cases : ∀ t : Ty, t.align = 1 ∨ t.align = 8 := by
  intro t
  induction t using Ty.induct with
  | prim n => left; rfl
  | void n => left; rfl
  | farr e cap ih => simpa [Ty.align] using ih
  | varr e cap ih => simpa [Ty.align] using ih
  | struct fs ih => right; simp only [Ty.align]; have := maxAlign_le fs ih; omega
  | union fs ih => right; simp only [Ty.align]; have := maxAlign_le fs ih; omega
  | delim inner ext ih => simpa [Ty.align] using ih

theorem comp_align (fs : List Ty) : max 8 (maxAlign fs) = 8 := by
  have := maxAlign_le fs fun f _ => align_cases f
  omega

theorem composite_align (t : Ty) (h : t.wf = true) (hc : t.isComposite = true) : t.align = 8 := by
  cases t with
  | struct fs => simp [Ty.align, comp_align]
  | union fs => simp [Ty.align, comp_align]
  | delim inner ext =>
    simp only [Ty.wf, Bool.and_eq_true] at h
    obtain ⟨⟨⟨_, hk⟩, _⟩, _⟩ := h
    cases inner <;> simp_all [Ty.align, comp_align]
  | _ => simp [Ty.isComposite] at hc

end Layout
