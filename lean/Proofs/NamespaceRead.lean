import Proofs.NamespaceC09
/-! Lemmas about the recursive reader that are shared by C09 / C10 / C19: `Ty` equality is lawful, what a stand-alone
    type says about its definition, and how one `read` extends the book-keeping state (cache, visited). -/
namespace Ns

/-! ### `Ty.beq` is equality -/

mutual
theorem Ty.beq_eq : ∀ (a b : Ty), Ty.beq a b = true → a = b
  | .mk i1 n1, .mk i2 n2, h => by
    simp only [Ty.beq, Bool.and_eq_true, beq_iff_eq] at h
    rw [h.1, Ty.beqs_eq n1 n2 h.2]
theorem Ty.beqs_eq : ∀ (a b : List Ty), Ty.beqs a b = true → a = b
  | [], [], _ => rfl
  | a :: as, b :: bs, h => by
    simp only [Ty.beqs, Bool.and_eq_true] at h
    rw [Ty.beq_eq a b h.1, Ty.beqs_eq as bs h.2]
  | [], _ :: _, h => by simp [Ty.beqs] at h
  | _ :: _, [], h => by simp [Ty.beqs] at h
end

mutual
theorem Ty.beq_refl : ∀ (a : Ty), Ty.beq a a = true
  | .mk i n => by simp only [Ty.beq, Bool.and_eq_true, beq_self_eq_true, true_and]; exact Ty.beqs_refl n
theorem Ty.beqs_refl : ∀ (a : List Ty), Ty.beqs a a = true
  | [] => rfl
  | a :: as => by simp only [Ty.beqs, Bool.and_eq_true]; exact ⟨Ty.beq_refl a, Ty.beqs_refl as⟩
end

instance : LawfulBEq Ty where
  eq_of_beq {a b} h := Ty.beq_eq a b h
  rfl {a} := Ty.beq_refl a

instance : DecidableEq Ty := fun a b =>
  if h : Ty.beq a b = true then isTrue (Ty.beq_eq a b h)
  else isFalse (fun e => h (e ▸ Ty.beq_refl a))

/-! ### what a type says about the definition it was built from -/

theorem finalize_info {au : Bool} {d : Def} {req : SecInfo} {resp : Option SecInfo} {nested : List Ty} {t : Ty}
    (h : finalize au d req resp nested = .ok t) :
    t.info.name = d.name ∧ t.info.major = d.major ∧ t.info.minor = d.minor ∧ t.info.fpid = d.fpid ∧
      t.info.path = d.path ∧ t.info.root = d.root := by
  unfold finalize at h
  simp only at h
  repeat' split at h
  all_goals first
    | (injection h with h; subst h; exact ⟨rfl, rfl, rfl, rfl, rfl, rfl⟩)
    | (injection h)

theorem assemble_info {au : Bool} {d : Def} {sh1 : List (Option Nat)} {n1 : List Ty}
    {resp : Option (Mode × List (Option Nat) × List Ty)} {t : Ty} (h : assemble au d sh1 n1 resp = .ok t) :
    t.info.name = d.name ∧ t.info.major = d.major ∧ t.info.minor = d.minor ∧ t.info.fpid = d.fpid ∧
      t.info.path = d.path ∧ t.info.root = d.root := by
  cases resp with
  | none =>
    simp only [assemble] at h
    split at h
    · cases h
    · exact finalize_info h
  | some p =>
    obtain ⟨m2, sh2, n2⟩ := p
    simp only [assemble] at h
    split at h
    · exact finalize_info h
    · cases h
    · cases h

theorem Den.info {au : Bool} {Lb : List Def} {t : Ty} {d : Def} (h : Den au Lb t d) :
    t.info.name = d.name ∧ t.info.major = d.major ∧ t.info.minor = d.minor ∧ t.info.fpid = d.fpid ∧
      t.info.path = d.path ∧ t.info.root = d.root := by
  cases t with
  | mk info nested =>
    simp only [Den] at h
    obtain ⟨_, _, _, _, _, _, ha⟩ := h
    exact assemble_info ha

theorem Den.key {au : Bool} {Lb : List Def} {t : Ty} {d : Def} (h : Den au Lb t d) : t.key = d.key := by
  obtain ⟨h1, h2, h3, _⟩ := h.info
  simp [Ty.key, TyInfo.key, Def.key, h1, h2, h3]

theorem RefsTo.retgt {Lb : List Def} {d : Def} (b : Bool) : ∀ {stmts : List Stmt} {xs : List Def},
    RefsTo Lb d stmts xs → RefsTo Lb { d with tgt := b } stmts xs
  | [], _, h => h
  | .ref r :: rest, _, h => by
    simp only [RefsTo] at h ⊢
    obtain ⟨x, xs', e, hx, h'⟩ := h
    exact ⟨x, xs', e, hx, RefsTo.retgt b h'⟩
  | .prim _ :: rest, _, h => by simp only [RefsTo] at h ⊢; exact RefsTo.retgt b h
  | .print _ :: rest, _, h => by simp only [RefsTo] at h ⊢; exact RefsTo.retgt b h
  | .bad :: rest, _, h => by simp only [RefsTo] at h ⊢; exact RefsTo.retgt b h

theorem assemble_retgt (au : Bool) (d : Def) (b : Bool) (sh1 : List (Option Nat)) (n1 : List Ty)
    (resp : Option (Mode × List (Option Nat) × List Ty)) :
    assemble au { d with tgt := b } sh1 n1 resp = assemble au d sh1 n1 resp := by
  cases resp <;> rfl

/-- the flag that tells target objects from lookup objects plays no role in the type -/
theorem Den.retgt {au : Bool} {Lb : List Def} {t : Ty} {d : Def} (b : Bool) (h : Den au Lb t d) :
    Den au Lb t { d with tgt := b } := by
  cases t with
  | mk info nested =>
    simp only [Den] at h ⊢
    obtain ⟨hg, xs1, xs2, h1, h2, h3, h4⟩ := h
    refine ⟨hg, xs1, xs2, h1.retgt b, ?_, h3, ?_⟩
    · cases hr : d.text.resp with
      | none => simp only [hr] at h2 ⊢; exact h2
      | some rs => simp only [hr] at h2 ⊢; exact h2.retgt b
    · rw [assemble_retgt]; exact h4

/-! ### how one `read` extends the state -/

def okB {α : Type} : Except Err α → Bool
  | .ok _ => true
  | .error _ => false

/-- `Ext L st st' k`: `st'` is `st` after some reads against (sublists of) `L`: the cache and the list of visited
    definitions only grow, every newly visited definition is a member of `L`, every nested type of a newly cached type
    is itself cached for a visited definition, and - when `k`, i.e. the reads succeeded - every newly visited definition
    is cached. -/
def Ext (L : List Def) (st st' : St) (k : Bool) : Prop :=
  ∃ c v, st'.cache = c ++ st.cache ∧ st'.visited = st.visited ++ v ∧ (∀ x ∈ v, x ∈ L) ∧
    (∀ x t, (x, t) ∈ c → ∀ n ∈ t.nested, ∃ x' ∈ st'.visited, (x', n) ∈ st'.cache) ∧
    (k = true → ∀ x ∈ v, ∃ t, (x, t) ∈ st'.cache)

theorem Ext.refl (L : List Def) (st : St) (k : Bool) : Ext L st st k :=
  ⟨[], [], by simp, by simp, by simp, by simp, by simp⟩

theorem Ext.weaken {L : List Def} {a b : St} {k : Bool} (h : Ext L a b k) : Ext L a b false := by
  obtain ⟨c, v, h1, h2, h3, h4, _⟩ := h
  exact ⟨c, v, h1, h2, h3, h4, by simp⟩

theorem Ext.mono {L L' : List Def} {a b : St} {k : Bool} (hL : ∀ x ∈ L, x ∈ L') (h : Ext L a b k) : Ext L' a b k := by
  obtain ⟨c, v, h1, h2, h3, h4, h5⟩ := h
  exact ⟨c, v, h1, h2, fun x hx => hL x (h3 x hx), h4, h5⟩

theorem Ext.of_eq {L : List Def} {a a' b : St} {k : Bool} (hc : a.cache = a'.cache) (hv : a.visited = a'.visited)
    (h : Ext L a b k) : Ext L a' b k := by
  obtain ⟨c, v, h1, h2, h3, h4, h5⟩ := h
  exact ⟨c, v, by rw [← hc]; exact h1, by rw [← hv]; exact h2, h3, h4, h5⟩

theorem Ext.cache_sub {L : List Def} {a b : St} {k : Bool} (h : Ext L a b k) {p : Def × Ty} (hp : p ∈ a.cache) : p ∈ b.cache := by
  obtain ⟨c, v, h1, _⟩ := h
  rw [h1]; exact List.mem_append_right _ hp

theorem Ext.visited_sub {L : List Def} {a b : St} {k : Bool} (h : Ext L a b k) {x : Def} (hx : x ∈ a.visited) : x ∈ b.visited := by
  obtain ⟨c, v, _, h2, _⟩ := h
  rw [h2]; exact List.mem_append_left _ hx

theorem Ext.trans {L : List Def} {a b c : St} {k1 k2 : Bool} (h1 : Ext L a b k1) (h2 : Ext L b c k2) : Ext L a c (k1 && k2) := by
  have hcs := fun p (hp : p ∈ b.cache) => h2.cache_sub hp
  have hvs := fun x (hx : x ∈ b.visited) => h2.visited_sub hx
  obtain ⟨c1, v1, e1, f1, m1, g1, s1⟩ := h1
  obtain ⟨c2, v2, e2, f2, m2, g2, s2⟩ := h2
  refine ⟨c2 ++ c1, v1 ++ v2, by rw [e2, e1, List.append_assoc], by rw [f2, f1, List.append_assoc], ?_, ?_, ?_⟩
  · intro x hx
    rcases List.mem_append.mp hx with hx | hx
    · exact m1 x hx
    · exact m2 x hx
  · intro x t hxt n hn
    rcases List.mem_append.mp hxt with hxt | hxt
    · exact g2 x t hxt n hn
    · obtain ⟨x', hx', hc'⟩ := g1 x t hxt n hn
      exact ⟨x', hvs x' hx', hcs _ hc'⟩
  · intro hk x hx
    simp only [Bool.and_eq_true] at hk
    rcases List.mem_append.mp hx with hx | hx
    · obtain ⟨t, ht⟩ := s1 hk.1 x hx
      exact ⟨t, hcs _ ht⟩
    · exact s2 hk.2 x hx

/-- the step `visited := visited ++ [x]` followed by reads after which `x` is cached -/
theorem Ext.visit {L : List Def} {st st1 : St} {k : Bool} {x : Def} (hx : x ∈ L)
    (h : Ext L { st with visited := st.visited ++ [x] } st1 k) (hk : k = true → ∃ t, (x, t) ∈ st1.cache) : Ext L st st1 k := by
  obtain ⟨c, v, h1, h2, h3, h4, h5⟩ := h
  refine ⟨c, x :: v, h1, by rw [h2]; simp, ?_, h4, ?_⟩
  · intro y hy
    rcases List.mem_cons.mp hy with rfl | hy
    · exact hx
    · exact h3 y hy
  · intro hk' y hy
    rcases List.mem_cons.mp hy with rfl | hy
    · exact hk hk'
    · exact h5 hk' y hy

/-- the step `cache := (d, T) :: cache` -/
theorem Ext.cacheAdd {L : List Def} {st st' : St} {d : Def} {T : Ty} (h : Ext L st st' true)
    (hn : ∀ n ∈ T.nested, ∃ x' ∈ st'.visited, (x', n) ∈ st'.cache) :
    Ext L st { st' with cache := (d, T) :: st'.cache } true := by
  obtain ⟨c, v, h1, h2, h3, h4, h5⟩ := h
  refine ⟨(d, T) :: c, v, by simp [h1], h2, h3, ?_, ?_⟩
  · intro x t hxt n hn'
    rcases List.mem_cons.mp hxt with e | hxt
    · cases e
      obtain ⟨x', hx', hc'⟩ := hn n hn'
      exact ⟨x', hx', List.mem_cons_of_mem _ hc'⟩
    · obtain ⟨x', hx', hc'⟩ := h4 x t hxt n hn'
      exact ⟨x', hx', List.mem_cons_of_mem _ hc'⟩
  · intro hk x hx
    obtain ⟨t, ht⟩ := h5 hk x hx
    exact ⟨t, List.mem_cons_of_mem _ ht⟩

/-- what a reader of dependencies must satisfy -/
def RdSpec (L : List Def) (x : Def) (s : St) (out : Res Ty) : Prop :=
  Ext L s out.2 (okB out.1) ∧ ∀ t, out.1 = .ok t → (x, t) ∈ out.2.cache

/-- every collected nested type is cached for a visited definition -/
def NestedCached (ns : List Ty) (st : St) : Prop := ∀ n ∈ ns, ∃ x' ∈ st.visited, (x', n) ∈ st.cache

theorem NestedCached.ext {L : List Def} {ns : List Ty} {a b : St} {k : Bool} (h : NestedCached ns a) (he : Ext L a b k) :
    NestedCached ns b := by
  intro n hn
  obtain ⟨x', hx', hc'⟩ := h n hn
  exact ⟨x', he.visited_sub hx', he.cache_sub hc'⟩

theorem runStmts_ext {L : List Def} (d : Def) (rd : (x : Def) → x ∈ L → St → Res Ty)
    (hrd : ∀ x hx s, RdSpec L x s (rd x hx s)) :
    ∀ (stmts : List Stmt) (st : St),
      Ext L st (runStmts L d rd stmts st).2 (okB (runStmts L d rd stmts st).1) ∧
      ∀ sh ns, (runStmts L d rd stmts st).1 = .ok (sh, ns) → NestedCached ns (runStmts L d rd stmts st).2 := by
  intro stmts
  induction stmts with
  | nil =>
    intro st
    simp only [runStmts]
    exact ⟨Ext.refl _ _ _, fun sh ns h => by cases h; intro n hn; cases hn⟩
  | cons s rest ih =>
    intro st
    cases s with
    | prim b =>
      simp only [runStmts]
      have := ih st
      split
      · rename_i sh ns st' heq
        rw [heq] at this
        exact ⟨this.1, fun sh' ns' h => by cases h; exact this.2 sh ns rfl⟩
      · rename_i e st' heq
        rw [heq] at this
        exact ⟨this.1, fun _ _ h => by cases h⟩
    | print n =>
      simp only [runStmts]
      have := ih { st with prints := st.prints ++ [n] }
      exact ⟨this.1.of_eq rfl rfl, this.2⟩
    | bad =>
      simp only [runStmts]
      exact ⟨Ext.refl _ _ _, fun _ _ h => by cases h⟩
    | ref r =>
      simp only [runStmts]
      split
      · exact ⟨Ext.refl _ _ _, fun _ _ h => by cases h⟩
      · rename_i x hres
        have hsp := hrd x (resolve_mem hres) { st with visited := st.visited ++ [x] }
        split
        · rename_i e st1 heq
          rw [heq] at hsp
          exact ⟨Ext.visit (resolve_mem hres) hsp.1 (by simp [okB]), fun _ _ h => by cases h⟩
        · rename_i t st1 heq
          rw [heq] at hsp
          have hv : Ext L st st1 true := Ext.visit (resolve_mem hres) hsp.1 (fun _ => ⟨t, hsp.2 t rfl⟩)
          split
          · exact ⟨hv.weaken, fun _ _ h => by cases h⟩
          · have := ih st1
            split
            · rename_i sh ns st2 heq2
              rw [heq2] at this
              refine ⟨by simpa [okB] using hv.trans this.1, fun sh' ns' h => ?_⟩
              cases h
              intro n hn
              rcases List.mem_cons.mp hn with rfl | hn
              · have hx1 : x ∈ st1.visited := hsp.1.visited_sub (by simp)
                exact ⟨x, this.1.visited_sub hx1, this.1.cache_sub (hsp.2 _ rfl)⟩
              · exact this.2 sh ns rfl n hn
            · rename_i e st2 heq2
              rw [heq2] at this
              exact ⟨by simpa using hv.trans this.1, fun _ _ h => by cases h⟩

theorem readBody_ext (au : Bool) {L : List Def} (d : Def) (rd : (x : Def) → x ∈ L → St → Res Ty)
    (hrd : ∀ x hx s, RdSpec L x s (rd x hx s)) (st : St) :
    Ext L st (readBody au L d rd st).2 (okB (readBody au L d rd st).1) ∧
      ∀ t, (readBody au L d rd st).1 = .ok t → NestedCached t.nested (readBody au L d rd st).2 := by
  unfold readBody
  split
  · exact ⟨Ext.refl _ _ _, fun _ h => by cases h⟩
  · have h1 := runStmts_ext d rd hrd d.text.req.stmts st
    split
    · rename_i e st1 heq
      rw [heq] at h1
      exact ⟨h1.1, fun _ h => by cases h⟩
    · rename_i sh1 n1 st1 heq
      rw [heq] at h1
      have hn1 := h1.2 sh1 n1 rfl
      split
      · refine ⟨?_, fun t ht => ?_⟩
        · cases assemble au d sh1 n1 none
          · exact h1.1.weaken
          · exact h1.1
        · simp only at ht
          have hn := assemble_nested ht
          simp only [List.append_nil] at hn
          rw [hn]; exact hn1
      · rename_i rs hresp
        have h2 := runStmts_ext d rd hrd rs.stmts st1
        split
        · rename_i e st2 heq2
          rw [heq2] at h2
          exact ⟨by simpa [okB] using h1.1.trans h2.1, fun _ h => by cases h⟩
        · rename_i sh2 n2 st2 heq2
          rw [heq2] at h2
          have h12 : Ext L st st2 true := by simpa [okB] using h1.1.trans h2.1
          refine ⟨?_, fun t ht => ?_⟩
          · cases assemble au d sh1 n1 (some (rs.mode, sh2, n2))
            · exact h12.weaken
            · exact h12
          · simp only at ht
            have hn := assemble_nested ht
            simp only at hn
            rw [hn]
            intro n hn'
            rcases List.mem_append.mp hn' with hn' | hn'
            · exact (hn1.ext h2.1) n hn'
            · exact h2.2 sh2 n2 rfl n hn'

theorem dropKey_sub {L : List Def} {d x : Def} (h : x ∈ dropKey L d) : x ∈ L := (List.mem_filter.mp h).1

/-- One `read`: the state is extended as described by `Ext`; on success the result is in the cache. -/
theorem readObj_ext (au : Bool) (L : List Def) (d : Def) (st : St) : RdSpec L d st (readObj au L d st) := by
  induction L, d, st using readObj.induct au with
  | case1 L d st t ht =>
    rw [readObj]; simp only [ht]
    exact ⟨Ext.refl _ _ _, fun t' h => by cases h; exact lookup_mem ht⟩
  | case2 L d st hn t st' hb ih =>
    have hbody := readBody_ext au d (fun x hx s => readObj au (dropKey L d) x s) (fun x hx s => ih x hx s) st
    rw [readObj]; simp only [hn, hb]
    rw [hb] at hbody
    refine ⟨?_, fun t' h => by cases h; simp⟩
    exact Ext.cacheAdd (hbody.1.mono fun x hx => dropKey_sub hx) (hbody.2 t rfl)
  | case3 L d st hn e st' hb ih =>
    have hbody := readBody_ext au d (fun x hx s => readObj au (dropKey L d) x s) (fun x hx s => ih x hx s) st
    rw [readObj]; simp only [hn, hb]
    rw [hb] at hbody
    exact ⟨hbody.1.mono fun x hx => dropKey_sub hx, fun t' h => by cases h⟩

/-! ### everything a successful read visits is nested in its result -/

/-- `t` is one of `roots` or nested, at some depth, in one of them -/
inductive NestReach (roots : List Ty) : Ty → Prop where
  | root {y : Ty} : y ∈ roots → NestReach roots y
  | step {y n : Ty} : NestReach roots y → n ∈ y.nested → NestReach roots n

theorem NestReach.mono {r r' : List Ty} {t : Ty} (h : NestReach r t) (hs : ∀ y ∈ r, NestReach r' y) : NestReach r' t := by
  induction h with
  | root hy => exact hs _ hy
  | step _ hn ih => exact NestReach.step ih hn

theorem NestReach.of_nested {T t : Ty} {r : List Ty} (hT : NestReach r T) (h : NestReach T.nested t) : NestReach r t :=
  h.mono fun _ hy => NestReach.step hT hy

/-- on success every newly visited definition is cached with a type nested below the result -/
def ReachSpec (s : St) (out : Res Ty) : Prop :=
  ∀ T st', out = (.ok T, st') → ∀ y ∈ st'.visited, y ∈ s.visited ∨ ∃ t, (y, t) ∈ st'.cache ∧ NestReach T.nested t

theorem runStmts_reach {L : List Def} (d : Def) (rd : (x : Def) → x ∈ L → St → Res Ty)
    (hrd : ∀ x hx s, RdSpec L x s (rd x hx s)) (hrr : ∀ x hx s, ReachSpec s (rd x hx s)) :
    ∀ (stmts : List Stmt) (st : St) sh ns st', runStmts L d rd stmts st = (.ok (sh, ns), st') →
      ∀ y ∈ st'.visited, y ∈ st.visited ∨ ∃ t, (y, t) ∈ st'.cache ∧ NestReach ns t := by
  intro stmts
  induction stmts with
  | nil =>
    intro st sh ns st' h y hy
    simp only [runStmts] at h
    cases h
    exact Or.inl hy
  | cons s rest ih =>
    intro st sh ns st' h
    cases s with
    | prim b =>
      simp only [runStmts] at h
      split at h
      · rename_i sh0 ns0 st0 heq
        cases h
        exact ih st _ _ _ heq
      · cases h
    | print n =>
      simp only [runStmts] at h
      exact ih { st with prints := st.prints ++ [n] } sh ns st' h
    | bad => simp only [runStmts] at h; cases h
    | ref r =>
      simp only [runStmts] at h
      split at h
      · cases h
      · rename_i x hres
        have hsp := hrd x (resolve_mem hres) { st with visited := st.visited ++ [x] }
        have hrs := hrr x (resolve_mem hres) { st with visited := st.visited ++ [x] }
        split at h
        · cases h
        · rename_i t st1 heq
          rw [heq] at hsp
          split at h
          · cases h
          · have hex := runStmts_ext d rd hrd rest st1
            split at h
            · rename_i sh0 ns0 st2 heq2
              cases h
              rw [heq2] at hex
              have h2 := ih st1 _ _ _ heq2
              intro y hy
              rcases h2 y hy with h1 | ⟨t', hc', hr'⟩
              · rcases hrs t st1 heq y h1 with h0 | ⟨t', hc', hr'⟩
                · simp only [List.mem_append, List.mem_singleton] at h0
                  rcases h0 with h0 | rfl
                  · exact Or.inl h0
                  · exact Or.inr ⟨t, hex.1.cache_sub (hsp.2 t rfl), NestReach.root (by simp)⟩
                · exact Or.inr ⟨t', hex.1.cache_sub hc', NestReach.of_nested (NestReach.root (by simp)) hr'⟩
              · exact Or.inr ⟨t', hc', hr'.mono fun z hz => NestReach.root (List.mem_cons_of_mem _ hz)⟩
            · cases h

theorem readBody_reach (au : Bool) {L : List Def} (d : Def) (rd : (x : Def) → x ∈ L → St → Res Ty)
    (hrd : ∀ x hx s, RdSpec L x s (rd x hx s)) (hrr : ∀ x hx s, ReachSpec s (rd x hx s)) (st : St) :
    ReachSpec st (readBody au L d rd st) := by
  intro T st' hT
  unfold readBody at hT
  split at hT
  · cases hT
  · split at hT
    · cases hT
    · rename_i sh1 n1 st1 heq
      have h1 := runStmts_reach d rd hrd hrr d.text.req.stmts st _ _ _ heq
      split at hT
      · rename_i hresp
        injection hT with hT1 hT2
        subst hT2
        have hn := assemble_nested hT1
        simp only [List.append_nil] at hn
        rw [hn]; exact h1
      · rename_i rs hresp
        have hex := runStmts_ext d rd hrd rs.stmts st1
        split at hT
        · cases hT
        · rename_i sh2 n2 st2 heq2
          have h2 := runStmts_reach d rd hrd hrr rs.stmts st1 _ _ _ heq2
          rw [heq2] at hex
          injection hT with hT1 hT2
          subst hT2
          have hn := assemble_nested hT1
          simp only at hn
          rw [hn]
          intro y hy
          rcases h2 y hy with h0 | ⟨t', hc', hr'⟩
          · rcases h1 y h0 with h00 | ⟨t', hc', hr'⟩
            · exact Or.inl h00
            · exact Or.inr ⟨t', hex.1.cache_sub hc', hr'.mono fun z hz => NestReach.root (List.mem_append_left _ hz)⟩
          · exact Or.inr ⟨t', hc', hr'.mono fun z hz => NestReach.root (List.mem_append_right _ hz)⟩

theorem readObj_reach (au : Bool) (L : List Def) (d : Def) (st : St) : ReachSpec st (readObj au L d st) := by
  induction L, d, st using readObj.induct au with
  | case1 L d st t ht =>
    rw [readObj]; simp only [ht]
    intro T st' h y hy
    cases h
    exact Or.inl hy
  | case2 L d st hn t st' hb ih =>
    have hbody := readBody_reach au d (fun x hx s => readObj au (dropKey L d) x s)
      (fun x hx s => (readObj_ext au (dropKey L d) x s)) (fun x hx s => ih x hx s) st
    rw [readObj]; simp only [hn, hb]
    intro T st'' hT y hy
    cases hT
    rcases hbody t st' hb y hy with h0 | ⟨t', hc', hr'⟩
    · exact Or.inl h0
    · exact Or.inr ⟨t', List.mem_cons_of_mem _ hc', hr'⟩
  | case3 L d st hn e st' hb ih =>
    rw [readObj]; simp only [hn, hb]
    intro T st'' hT; cases hT

end Ns
