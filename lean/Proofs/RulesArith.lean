import Model.Rules
/-!
  Arithmetic kernels of the extent rule of C05, for all values: `padTo` is the least multiple not below its
  argument, `bitLength` is `int.bit_length()`, `pow2ceil8` is the least power of two that is ≥ 8 and ≥ its argument,
  and `pow2ceil8 (bitLength cap)` is the smallest of the standard widths 8/16/32/64 whose unsigned range holds `cap`.
-/
namespace Rules

/-! ### `padTo` -/

theorem padTo_dvd (a x : Nat) : a ∣ padTo a x := ⟨(x + a - 1) / a, Nat.mul_comm _ _⟩

theorem le_padTo (a x : Nat) (ha : 0 < a) : x ≤ padTo a x := by
  unfold padTo
  have h1 := Nat.div_add_mod (x + a - 1) a
  have h2 := Nat.mod_lt (x + a - 1) ha
  have h3 : a * ((x + a - 1) / a) = (x + a - 1) / a * a := Nat.mul_comm _ _
  omega

theorem padTo_lt (a x : Nat) (ha : 0 < a) : padTo a x < x + a := by
  unfold padTo
  have h1 := Nat.div_add_mod (x + a - 1) a
  have h3 : a * ((x + a - 1) / a) = (x + a - 1) / a * a := Nat.mul_comm _ _
  omega

theorem padTo_least (a x m : Nat) (ha : 0 < a) (hm : a ∣ m) (hx : x ≤ m) : padTo a x ≤ m := by
  obtain ⟨k, rfl⟩ := hm
  unfold padTo
  have hdiv : (x + a - 1) / a ≤ k := by
    rw [Nat.div_le_iff_le_mul_add_pred ha]
    have : a * k = k * a := Nat.mul_comm _ _
    omega
  calc (x + a - 1) / a * a ≤ k * a := Nat.mul_le_mul_right a hdiv
    _ = a * k := Nat.mul_comm _ _

/-- `padTo a x` is the least multiple of `a` that is not below `x` -/
theorem padTo_spec (a x : Nat) (ha : 0 < a) :
    a ∣ padTo a x ∧ x ≤ padTo a x ∧ padTo a x < x + a ∧ ∀ m, a ∣ m → x ≤ m → padTo a x ≤ m :=
  ⟨padTo_dvd a x, le_padTo a x ha, padTo_lt a x ha, fun m hm hx => padTo_least a x m ha hm hx⟩

/-- … and this determines it -/
theorem padTo_unique (a x y : Nat) (ha : 0 < a) (h1 : a ∣ y) (h2 : x ≤ y) (h3 : ∀ m, a ∣ m → x ≤ m → y ≤ m) :
    padTo a x = y :=
  Nat.le_antisymm (padTo_least a x y ha h1 h2) (h3 _ (padTo_dvd a x) (le_padTo a x ha))

theorem padTo_of_dvd (a x : Nat) (ha : 0 < a) (h : a ∣ x) : padTo a x = x :=
  padTo_unique a x x ha h (Nat.le_refl x) fun _ _ hm => hm

theorem padTo_one (x : Nat) : padTo 1 x = x := padTo_of_dvd 1 x (by omega) (Nat.one_dvd x)

theorem padTo_mono (a x y : Nat) (h : x ≤ y) : padTo a x ≤ padTo a y := by
  unfold padTo
  exact Nat.mul_le_mul_right a (Nat.div_le_div_right (by omega))

/-! ### `bitLength` -/

theorem bitLength_le_iff (n k : Nat) : bitLength n ≤ k ↔ n < 2 ^ k := by
  unfold bitLength
  split
  · next h => subst h; simp [Nat.two_pow_pos]
  · next h => rw [Nat.succ_le_iff, Nat.log2_lt h]

/-- `bitLength n` is the number of binary digits of `n` -/
theorem bitLength_spec (n : Nat) : n < 2 ^ bitLength n ∧ (n ≠ 0 → 2 ^ (bitLength n - 1) ≤ n) := by
  refine ⟨(bitLength_le_iff n _).mp (Nat.le_refl _), fun h => ?_⟩
  unfold bitLength
  rw [if_neg h, Nat.add_sub_cancel]
  exact Nat.log2_self_le h

/-- … and this determines it -/
theorem bitLength_unique (n k : Nat) (h1 : n < 2 ^ k) (h2 : n ≠ 0 → 2 ^ (k - 1) ≤ n) (h0 : n = 0 → k = 0) :
    bitLength n = k := by
  apply Nat.le_antisymm ((bitLength_le_iff n k).mpr h1)
  by_cases hn : n = 0
  · rw [h0 hn]; exact Nat.zero_le _
  · have hk : k ≠ 0 := by
      intro hk; subst hk; simp at h1; exact hn h1
    have h3 := h2 hn
    have h4 : n < 2 ^ bitLength n := (bitLength_spec n).1
    have h5 : 2 ^ (k - 1) < 2 ^ bitLength n := Nat.lt_of_le_of_lt h3 h4
    have := (Nat.pow_lt_pow_iff_right (a := 2) (by omega)).mp h5
    omega

/-! ### `pow2ceil8` -/

/-- for a width that fits 64 bits, `pow2ceil8 b` is the least power of two that is ≥ 8 and ≥ b -/
theorem pow2ceil8_spec (b : Nat) (hb : b ≤ 64) :
    (∃ k, pow2ceil8 b = 2 ^ k) ∧ 8 ≤ pow2ceil8 b ∧ b ≤ pow2ceil8 b ∧
    ∀ k, 8 ≤ 2 ^ k → b ≤ 2 ^ k → pow2ceil8 b ≤ 2 ^ k := by
  have hmono : ∀ k j : Nat, k ≤ j → 2 ^ k ≤ 2 ^ j := fun k j h => Nat.pow_le_pow_right (by omega) h
  have key : ∀ (k c : Nat), 2 ^ c < 2 ^ k → 2 ^ (c + 1) ≤ 2 ^ k := by
    intro k c h
    exact hmono _ _ ((Nat.pow_lt_pow_iff_right (a := 2) (by omega)).mp h)
  unfold pow2ceil8
  by_cases h8 : b ≤ 8
  · rw [if_pos h8]
    exact ⟨⟨3, rfl⟩, Nat.le_refl _, h8, fun k hk _ => hk⟩
  by_cases h16 : b ≤ 16
  · rw [if_neg h8, if_pos h16]
    refine ⟨⟨4, rfl⟩, by omega, h16, fun k _ hk => ?_⟩
    exact key k 3 (by omega)
  by_cases h32 : b ≤ 32
  · rw [if_neg h8, if_neg h16, if_pos h32]
    refine ⟨⟨5, rfl⟩, by omega, h32, fun k _ hk => ?_⟩
    exact key k 4 (by omega)
  · rw [if_neg h8, if_neg h16, if_neg h32, if_pos hb]
    refine ⟨⟨6, rfl⟩, by omega, hb, fun k _ hk => ?_⟩
    exact key k 5 (by omega)

/-- the width of an implicit length prefix / union tag: for a number that fits 64 bits, the smallest of the standard
    widths 8/16/32/64 whose unsigned range holds it -/
theorem pow2ceil8_bitLength_spec (cap : Nat) (h : cap < 2 ^ 64) :
    pow2ceil8 (bitLength cap) ∈ [8, 16, 32, 64] ∧ cap < 2 ^ pow2ceil8 (bitLength cap) ∧
    ∀ w ∈ [8, 16, 32, 64], cap < 2 ^ w → pow2ceil8 (bitLength cap) ≤ w := by
  have hb := bitLength_le_iff cap
  unfold pow2ceil8
  by_cases h8 : bitLength cap ≤ 8
  · rw [if_pos h8]
    refine ⟨by simp, (hb 8).mp h8, fun w hw _ => ?_⟩
    simp only [List.mem_cons, List.mem_nil_iff, or_false] at hw; omega
  by_cases h16 : bitLength cap ≤ 16
  · rw [if_neg h8, if_pos h16]
    refine ⟨by simp, (hb 16).mp h16, fun w hw hc => ?_⟩
    simp only [List.mem_cons, List.mem_nil_iff, or_false] at hw
    rcases hw with rfl | rfl | rfl | rfl
    · exact absurd ((hb 8).mpr hc) h8
    all_goals omega
  by_cases h32 : bitLength cap ≤ 32
  · rw [if_neg h8, if_neg h16, if_pos h32]
    refine ⟨by simp, (hb 32).mp h32, fun w hw hc => ?_⟩
    simp only [List.mem_cons, List.mem_nil_iff, or_false] at hw
    rcases hw with rfl | rfl | rfl | rfl
    · exact absurd ((hb 8).mpr hc) h8
    · exact absurd ((hb 16).mpr hc) h16
    all_goals omega
  · have h64 : bitLength cap ≤ 64 := (hb 64).mpr h
    rw [if_neg h8, if_neg h16, if_neg h32, if_pos h64]
    refine ⟨by simp, h, fun w hw hc => ?_⟩
    simp only [List.mem_cons, List.mem_nil_iff, or_false] at hw
    rcases hw with rfl | rfl | rfl | rfl
    · exact absurd ((hb 8).mpr hc) h8
    · exact absurd ((hb 16).mpr hc) h16
    · exact absurd ((hb 32).mpr hc) h32
    · omega

/-- a number that needs more than 64 bits gets a prefix / tag width above 64 (which no unsigned integer type has) -/
theorem pow2ceil8_bitLength_big (cap : Nat) (h : 2 ^ 64 ≤ cap) : pow2ceil8 (bitLength cap) = 128 := by
  have h64 : ¬ bitLength cap ≤ 64 := fun hh => absurd ((bitLength_le_iff cap 64).mp hh) (by omega)
  unfold pow2ceil8
  rw [if_neg (by omega), if_neg (by omega), if_neg (by omega), if_neg h64]

end Rules
