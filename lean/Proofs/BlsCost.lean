import Proofs.BlsMinMax
import Mathlib.Tactic.Linarith
/-! Enumeration cost of `modulo` is bounded by a function of the tree shape and the divisor only (C16). -/
open scoped Pointwise
namespace Bls

/-- bound for one repetition node at divisor `D`: at most `2D` tuple sizes, `D^(2D)` tuples each, `2D` items per tuple -/
def G (D : ℕ) : ℕ := 6 * D * D * D ^ (2 * D)

mutual
/-- An upper bound on `Op.cost` that never looks at a repetition count. -/
def Op.bound : Op → ℕ → ℕ
  | .leaf vs, _ => vs.length
  | .pad c a, d => c.bound (Nat.lcm a d) + Nat.lcm a d
  | .cat cs, d => bounds cs d + d ^ cs.length * cs.length
  | .rep c _, d => c.bound d + G d
  | .rrep c _, d => c.bound d + G d
  | .uni cs, d => bounds cs d + cs.length * d
def bounds : List Op → ℕ → ℕ
  | [], _ => 0
  | c :: cs, d => c.bound d + bounds cs d
end

theorem costs_eq (cs : List Op) (d : ℕ) : costs cs d = (cs.map fun c => c.cost d).sum := by
  induction cs with
  | nil => rfl
  | cons c cs ih => simp [costs, ih]

theorem bounds_eq (cs : List Op) (d : ℕ) : bounds cs d = (cs.map fun c => c.bound d).sum := by
  induction cs with
  | nil => rfl
  | cons c cs ih => simp [bounds, ih]

theorem sumLens_const (l : List (List ℕ)) (n : ℕ) (h : ∀ t ∈ l, t.length = n) : sumLens l = l.length * n := by
  induction l with
  | nil => simp [sumLens]
  | cons t l ih =>
    have := ih fun x hx => h x (by simp [hx])
    simp only [sumLens, List.map_cons, List.sum_cons, List.length_cons] at this ⊢
    rw [this, h t (by simp)]; ring

theorem sumLens_le (l : List (List ℕ)) (n : ℕ) (h : ∀ t ∈ l, t.length ≤ n) : sumLens l ≤ l.length * n := by
  induction l with
  | nil => simp [sumLens]
  | cons t l ih =>
    have := ih fun x hx => h x (by simp [hx])
    have ht := h t (by simp)
    simp only [sumLens, List.map_cons, List.sum_cons, List.length_cons] at this ⊢
    nlinarith

theorem cwr_length_le (s : List ℕ) (k : ℕ) : (cwr s k).length ≤ s.length ^ k := by
  induction s generalizing k with
  | nil => cases k <;> simp [cwr]
  | cons x xs ihx =>
    induction k with
    | zero => simp [cwr]
    | succ k ihk =>
      simp only [cwr, List.length_append, List.length_map, List.length_cons]
      have h1 := ihk
      have h2 := ihx (k + 1)
      simp only [List.length_cons] at h1
      calc (cwr (x :: xs) k).length + (cwr xs (k + 1)).length
          ≤ (xs.length + 1) ^ k + xs.length ^ (k + 1) := Nat.add_le_add h1 h2
        _ ≤ (xs.length + 1) ^ (k + 1) := by
            have : xs.length ^ (k + 1) ≤ (xs.length + 1) ^ k * xs.length := by
              rw [pow_succ]; exact Nat.mul_le_mul_right _ (Nat.pow_le_pow_left (by omega) k)
            rw [pow_succ (xs.length + 1)]
            nlinarith

theorem product_length (ls : List (List ℕ)) : (product ls).length = (ls.map List.length).prod := by
  induction ls with
  | nil => simp [product]
  | cons l ls ih =>
    simp only [product, List.length_flatMap, List.length_map, List.map_cons, List.prod_cons, ih]
    induction l with
    | nil => simp
    | cons a l ihl => simp [List.map_cons, List.sum_cons, ihl]; ring

theorem product_tuple_length (ls : List (List ℕ)) : ∀ t ∈ product ls, t.length = ls.length := by
  induction ls with
  | nil => simp [product]
  | cons l ls ih =>
    intro t ht
    obtain ⟨a, _, t', ht', rfl⟩ := (mem_product_cons l ls t).mp ht
    simp [ih t' ht']

theorem prod_le_pow (l : List ℕ) (d : ℕ) (h : ∀ x ∈ l, x ≤ d) : l.prod ≤ d ^ l.length := by
  induction l with
  | nil => simp
  | cons x l ih =>
    simp only [List.prod_cons, List.length_cons, pow_succ]
    have := ih fun y hy => h y (by simp [hy])
    have hx := h x (by simp)
    calc x * l.prod ≤ d * d ^ l.length := Nat.mul_le_mul hx this
      _ = d ^ l.length * d := Nat.mul_comm _ _

/-- A duplicate-free list of residues `< d` has at most `d` entries. -/
theorem length_le_of_nodup_lt (l : List ℕ) (d : ℕ) (hn : l.Nodup) (hlt : ∀ x ∈ l, x < d) : l.length ≤ d := by
  have h1 : l.toFinset ⊆ Finset.range d := by
    intro x hx; exact Finset.mem_range.mpr (hlt x (by simpa using hx))
  have h2 := Finset.card_le_card h1
  rw [List.toFinset_card_of_nodup hn, Finset.card_range] at h2
  exact h2

theorem modulo_length_le (o : Op) (h : o.wf = true) (d : ℕ) (hd : 0 < d) : (o.modulo d).length ≤ d :=
  length_le_of_nodup_lt _ _ (modulo_nodup o d) (modulo_castd o h d hd).2

theorem equivK_le (k d : ℕ) (hd : 0 < d) : equivK k d ≤ 2 * d := by
  unfold equivK
  have := Nat.mod_lt k hd
  omega

theorem pow_le_pow_of (r k D : ℕ) (hr : r ≤ D) (hk : k ≤ 2 * D) (hD : 0 < D) : r ^ k ≤ D ^ (2 * D) :=
  le_trans (Nat.pow_le_pow_left hr k) (Nat.pow_le_pow_right hD hk)

theorem rep_cost_le (s : List ℕ) (k D : ℕ) (hs : s.length ≤ D) (hk : k ≤ 2 * D) (hD : 0 < D) :
    sumLens (cwr s k) ≤ G D := by
  rw [sumLens_const _ k fun t ht => (cwr_sound s k t ht).1]
  have h1 := le_trans (cwr_length_le s k) (pow_le_pow_of _ _ D hs hk hD)
  unfold G
  calc (cwr s k).length * k ≤ D ^ (2 * D) * (2 * D) := Nat.mul_le_mul h1 hk
    _ ≤ D ^ (2 * D) * (6 * D * D) := Nat.mul_le_mul_left _ (by nlinarith)
    _ = 6 * D * D * D ^ (2 * D) := by ring

theorem sumLens_flatMap_range (f : ℕ → List (List ℕ)) (n B : ℕ) (h : ∀ j < n, sumLens (f j) ≤ B) :
    sumLens ((List.range n).flatMap f) ≤ n * B := by
  induction n with
  | zero => simp [sumLens]
  | succ n ih =>
    rw [List.range_succ, List.flatMap_append]
    have h1 := ih fun j hj => h j (by omega)
    have h2 := h n (by omega)
    simp only [sumLens, List.map_append, List.sum_append, List.flatMap_cons, List.flatMap_nil,
      List.append_nil] at h1 h2 ⊢
    nlinarith

theorem rrep_cost_le (s : List ℕ) (k D : ℕ) (hs : s.length ≤ D) (hk : k ≤ 2 * D) (hD : 0 < D) :
    sumLens ((List.range (k + 1)).flatMap fun j => cwr s j) ≤ G D := by
  have hB : ∀ j < k + 1, sumLens (cwr s j) ≤ D ^ (2 * D) * (2 * D) := by
    intro j hj
    rw [sumLens_const _ j fun t ht => (cwr_sound s j t ht).1]
    exact Nat.mul_le_mul (le_trans (cwr_length_le s j) (pow_le_pow_of _ _ D hs (by omega) hD)) (by omega)
  have := sumLens_flatMap_range (fun j => cwr s j) (k + 1) _ hB
  unfold G
  have hp := pow_pos hD (2 * D)
  have hk1 : k + 1 ≤ 2 * D + 1 := by omega
  calc sumLens ((List.range (k + 1)).flatMap fun j => cwr s j)
      ≤ (k + 1) * (D ^ (2 * D) * (2 * D)) := this
    _ ≤ (2 * D + 1) * (D ^ (2 * D) * (2 * D)) := Nat.mul_le_mul_right _ hk1
    _ = D ^ (2 * D) * ((2 * D + 1) * (2 * D)) := by ring
    _ ≤ D ^ (2 * D) * (6 * D * D) := Nat.mul_le_mul_left _ (by nlinarith)
    _ = 6 * D * D * D ^ (2 * D) := by ring

theorem sum_le_sum_map (cs : List Op) (f g : Op → ℕ) (h : ∀ c ∈ cs, f c ≤ g c) : (cs.map f).sum ≤ (cs.map g).sum := by
  induction cs with
  | nil => simp
  | cons c cs ih =>
    simp only [List.map_cons, List.sum_cons]
    exact Nat.add_le_add (h c (by simp)) (ih fun x hx => h x (by simp [hx]))

/-- The enumeration cost of `modulo d` never exceeds the k-blind bound. -/
theorem cost_le_bound : ∀ o : Op, o.wf = true → ∀ d, 0 < d → o.cost d ≤ o.bound d := by
  intro o
  induction o using Op.induct with
  | leaf vs => intro _ d _; simp [Op.cost, Op.bound]
  | pad c a ih =>
    intro h d hd
    simp only [Op.wf, Bool.and_eq_true, decide_eq_true_eq] at h
    have hl : 0 < Nat.lcm a d := Nat.lcm_pos (by omega) hd
    simp only [Op.cost, Op.bound]
    exact Nat.add_le_add (ih h.1 _ hl) (modulo_length_le c h.1 _ hl)
  | cat cs ih =>
    intro h d hd
    simp only [Op.wf, Bool.and_eq_true, wfs_iff] at h
    simp only [Op.cost, Op.bound, costs_eq, bounds_eq]
    refine Nat.add_le_add (sum_le_sum_map cs _ _ fun c hc => ih c hc (h.2 c hc) d hd) ?_
    rw [sumLens_const _ _ (product_tuple_length _), product_length, modulos_eq, List.length_map]
    refine Nat.mul_le_mul_right _ ?_
    have := prod_le_pow ((cs.map fun c => c.modulo d).map List.length) d (by
      intro x hx
      simp only [List.map_map, List.mem_map, Function.comp] at hx
      obtain ⟨c, hc, rfl⟩ := hx
      exact modulo_length_le c (h.2 c hc) d hd)
    simpa using this
  | rep c k ih =>
    intro h d hd
    simp only [Op.wf] at h
    simp only [Op.cost, Op.bound]
    exact Nat.add_le_add (ih h d hd) (rep_cost_le _ _ d (modulo_length_le c h d hd) (equivK_le k d hd) hd)
  | rrep c k ih =>
    intro h d hd
    simp only [Op.wf] at h
    simp only [Op.cost, Op.bound]
    exact Nat.add_le_add (ih h d hd) (rrep_cost_le _ _ d (modulo_length_le c h d hd) (equivK_le k d hd) hd)
  | uni cs ih =>
    intro h d hd
    simp only [Op.wf, Bool.and_eq_true, wfs_iff] at h
    simp only [Op.cost, Op.bound, costs_eq, bounds_eq]
    refine Nat.add_le_add (sum_le_sum_map cs _ _ fun c hc => ih c hc (h.2 c hc) d hd) ?_
    rw [modulos_eq]
    have := sumLens_le (cs.map fun c => c.modulo d) d (by
      intro t ht
      obtain ⟨c, hc, rfl⟩ := List.mem_map.mp ht
      exact modulo_length_le c (h.2 c hc) d hd)
    simpa using this

end Bls
