import Proofs.WireCtx
/-! Congruence: if a reader type `D'` reads everything a writer type `D` writes (mapping the value by `g`) and
    stops where `D`'s representation ends, then the same holds with `D`/`D'` nested at any position of any
    container. -/
namespace Wire

/-- `D'` reads `D` (both of composite alignment) -/
def Reads (D D' : Ty) (g : Val → Val) : Prop :=
  ∀ v, valid D v = true → Rt (dec D') (enc D v) (g v) 8

theorem decRep_rt_map {fd : R → Except Err (Val × R)} {fe : Val → Nat → List Bool} {h : Val → Val} {a : Nat} :
    ∀ (vs : List Val) (o : Nat) (junk : List Bool),
      (∀ v ∈ vs, Rt fd (fe v) (h v) a) → (∀ v ∈ vs, ∀ o, o % a = 0 → (fe v o).length % a = 0) → o % a = 0 →
      decRep fd vs.length ⟨o, encRep fe vs o ++ junk⟩ = .ok (vs.map h, ⟨o + (encRep fe vs o).length, junk⟩)
  | [], o, junk, _, _, _ => by simp [decRep, encRep]
  | v :: vs, o, junk, hrt, hlen, ho => by
      simp only [List.length_cons, decRep, encRep, List.append_assoc, bind_ok]
      have h1 := hrt v (by simp) o (encRep fe vs (o + (fe v o).length) ++ junk) ho
      have hl := hlen v (by simp) o ho
      have ho' : (o + (fe v o).length) % a = 0 := by simp [Nat.add_mod, ho, hl]
      have h2 := decRep_rt_map vs (o + (fe v o).length) junk (fun w hw => hrt w (by simp [hw]))
        (fun w hw => hlen w (by simp [hw])) ho'
      refine ⟨_, h1, _, h2, ?_⟩
      simp [Nat.add_assoc]
      rfl

theorem align_fill (C : Ctx) (X : Ty) (h : X.align = 8) : (C.fill X).align = 8 := by
  induction C with
  | hole => exact h
  | farr c cap ih => simpa [Ctx.fill, Ty.align] using ih
  | varr c cap ih => simpa [Ctx.fill, Ty.align] using ih
  | field pre c post m _ => simp [Ctx.fill, Ty.align]
  | variant pre c post m _ => simp [Ctx.fill, Ty.align]

theorem wfFields_mid (pre post : List Ty) (X : Ty) (h : wfFields (pre ++ X :: post) = true) :
    wfFields pre = true ∧ X.wf = true ∧ wfFields post = true := by
  rw [wfFields_append, Bool.and_eq_true] at h
  simp only [wfFields, Bool.and_eq_true] at h
  exact ⟨h.1, h.2.1.1, h.2.2⟩

theorem wf_fill (C : Ctx) (X : Ty) (h : (C.fill X).wf = true) : X.wf = true := by
  induction C with
  | hole => exact h
  | farr c cap ih =>
    simp only [Ctx.fill, Ty.wf, Bool.and_eq_true] at h; exact ih h.1.1.1
  | varr c cap ih =>
    simp only [Ctx.fill, Ty.wf, Bool.and_eq_true] at h; exact ih h.1.1.1
  | field pre c post m ih =>
    simp only [Ctx.fill, Ty.wf, Bool.and_eq_true] at h; exact ih (wfFields_mid _ _ _ h.1).2.1
  | variant pre c post m ih =>
    simp only [Ctx.fill, Ty.wf, Bool.and_eq_true] at h; exact ih (wfFields_mid _ _ _ h.1.1.1.1).2.1

theorem fill_not_utf8 (C : Ctx) (X : Ty) (h : X.align = 8) : (C.fill X).isUtf8 = false := by
  cases C <;> simp [Ctx.fill, Ty.isUtf8]
  cases X <;> simp_all [Ty.align]

theorem validFields_mid : ∀ (pre post : List Ty) (X : Ty) (vs : List Val),
    validFields (pre ++ X :: post) vs = true →
    ∃ vpre vx vpost, vs = vpre ++ vx :: vpost ∧ vpre.length = pre.length ∧ validFields pre vpre = true ∧
      valid X vx = true ∧ validFields post vpost = true
  | [], post, X, vs, h => by
      cases vs with
      | nil => simp [validFields] at h
      | cons v vs =>
        simp only [List.nil_append, validFields, Bool.and_eq_true] at h
        exact ⟨[], v, vs, rfl, rfl, by simp [validFields], h.1, h.2⟩
  | t :: pre, post, X, vs, h => by
      cases vs with
      | nil => simp [validFields] at h
      | cons v vs =>
        simp only [List.cons_append, validFields, Bool.and_eq_true] at h
        obtain ⟨vpre, vx, vpost, rfl, hl, h1, h2, h3⟩ := validFields_mid pre post X vs h.2
        exact ⟨v :: vpre, vx, vpost, rfl, by simp [hl], by simp [validFields, h.1, h1], h2, h3⟩

/-! variants -/

theorem decVariant_append_lt : ∀ (pre l : List Ty) (n : Nat) (r : R), n < pre.length →
    decVariant (pre ++ l) n r = decVariant pre n r
  | [], _, _, _, h => by simp at h
  | _ :: _, _, 0, _, _ => by simp [decVariant]
  | _ :: pre, l, n+1, r, h => by
      simp only [List.cons_append, decVariant]
      exact decVariant_append_lt pre l n r (by simpa using h)

theorem decVariant_append_ge : ∀ (pre l : List Ty) (n : Nat) (r : R), pre.length ≤ n →
    decVariant (pre ++ l) n r = decVariant l (n - pre.length) r
  | [], _, _, _, _ => by simp
  | _ :: _, _, 0, _, h => by simp at h
  | _ :: pre, l, n+1, r, h => by
      simp only [List.cons_append, decVariant, List.length_cons, Nat.add_sub_add_right]
      exact decVariant_append_ge pre l n r (by simpa using h)

theorem encVariant_append_lt : ∀ (pre l : List Ty) (n : Nat) (v : Val) (o : Nat), n < pre.length →
    encVariant (pre ++ l) n v o = encVariant pre n v o
  | [], _, _, _, _, h => by simp at h
  | _ :: _, _, 0, _, _, _ => by simp [encVariant]
  | _ :: pre, l, n+1, v, o, h => by
      simp only [List.cons_append, encVariant]
      exact encVariant_append_lt pre l n v o (by simpa using h)

theorem encVariant_append_ge : ∀ (pre l : List Ty) (n : Nat) (v : Val) (o : Nat), pre.length ≤ n →
    encVariant (pre ++ l) n v o = encVariant l (n - pre.length) v o
  | [], _, _, _, _, _ => by simp
  | _ :: _, _, 0, _, _, h => by simp at h
  | _ :: pre, l, n+1, v, o, h => by
      simp only [List.cons_append, encVariant, List.length_cons, Nat.add_sub_add_right]
      exact encVariant_append_ge pre l n v o (by simpa using h)

theorem validVariant_append_lt : ∀ (pre l : List Ty) (n : Nat) (v : Val), n < pre.length →
    validVariant (pre ++ l) n v = validVariant pre n v
  | [], _, _, _, h => by simp at h
  | _ :: _, _, 0, _, _ => by simp [validVariant]
  | _ :: pre, l, n+1, v, h => by
      simp only [List.cons_append, validVariant]
      exact validVariant_append_lt pre l n v (by simpa using h)

theorem validVariant_append_ge : ∀ (pre l : List Ty) (n : Nat) (v : Val), pre.length ≤ n →
    validVariant (pre ++ l) n v = validVariant l (n - pre.length) v
  | [], _, _, _, _ => by simp
  | _ :: _, _, 0, _, h => by simp at h
  | _ :: pre, l, n+1, v, h => by
      simp only [List.cons_append, validVariant, List.length_cons, Nat.add_sub_add_right]
      exact validVariant_append_ge pre l n v (by simpa using h)

/-! facts about the writer's sealed bodies, as used by `wrap_rt` -/

theorem struct_body_facts (fs : List Ty) (m : Mode) (vs : List Val)
    (hw : (Ty.struct fs m).wf = true) (hv : validFields fs vs = true) :
    (∀ o o', o % 8 = o' % 8 → padTail o (encFields fs vs o) = padTail o' (encFields fs vs o')) ∧
    (∀ o, o % 8 = 0 → (padTail o (encFields fs vs o)).length % 8 = 0) ∧
    (∀ x, m = .delimited x → (padTail 0 (encFields fs vs 0)).length / 8 < 2^32) := by
  simp only [Ty.wf, Bool.and_eq_true] at hw
  refine ⟨fun o o' h => by rw [encFields_congr fs vs o o' h, padTail_congr _ h], ?_, ?_⟩
  · intro o ho
    rw [padTail_length]
    have := padLen8_mod (o + (encFields fs vs o).length)
    omega
  · intro x hx
    subst hx
    have hl := enc_len (.struct fs .sealed) (.recd vs) 0 (by simp [Ty.wf, hw.1, modeOk]) (by simpa [valid] using hv)
      (by simp [Ty.align])
    simp only [enc, wrapDelim] at hl
    have hle := hasLen_le _ _ hl
    simp only [modeOk, Bool.and_eq_true, decide_eq_true_eq] at hw
    omega

theorem union_body_facts (fs : List Ty) (m : Mode) (tag : Nat) (w : Val)
    (hw : (Ty.union fs m).wf = true) (hv : validVariant fs tag w = true) :
    (∀ o o', o % 8 = o' % 8 →
      padTail o (natBits (tagBits fs.length) tag ++ encVariant fs tag w (o + tagBits fs.length))
        = padTail o' (natBits (tagBits fs.length) tag ++ encVariant fs tag w (o' + tagBits fs.length))) ∧
    (∀ o, o % 8 = 0 →
      (padTail o (natBits (tagBits fs.length) tag ++ encVariant fs tag w (o + tagBits fs.length))).length % 8 = 0) ∧
    (∀ x, m = .delimited x →
      (padTail 0 (natBits (tagBits fs.length) tag ++ encVariant fs tag w (0 + tagBits fs.length))).length / 8 < 2^32) := by
  simp only [Ty.wf, Bool.and_eq_true, decide_eq_true_eq] at hw
  have h8 := tagBits_mod8 fs.length
  refine ⟨fun o o' h => by
      rw [encVariant_congr fs tag w (o + tagBits fs.length) (o' + tagBits fs.length) (by omega), padTail_congr _ h],
    ?_, ?_⟩
  · intro o ho
    rw [padTail_length]
    have := padLen8_mod (o + (natBits (tagBits fs.length) tag ++ encVariant fs tag w (o + tagBits fs.length)).length)
    omega
  · intro x hx
    subst hx
    have hl := enc_len (.union fs .sealed) (.var tag w) 0
      (by simp [Ty.wf, hw.1.1.1.1, hw.1.1.1.2, hw.1.1.2, hw.1.2, modeOk]) (by simpa [valid] using hv)
      (by simp [Ty.align])
    simp only [enc, wrapDelim] at hl
    have hle := hasLen_le _ _ hl
    simp only [modeOk, Bool.and_eq_true, decide_eq_true_eq] at hw
    omega

/-- the hole field followed by the common tail -/
theorem decFields_cons_rt (X X' : Ty) (post : List Ty) (vx gx : Val) (vpost : List Val) (o : Nat) (junk : List Bool)
    (hal : X.align = 8) (hal' : X'.align = 8) (hrt : Rt (dec X') (enc X vx) gx 8)
    (hw3 : wfFields post = true) (hv3 : validFields post vpost = true) :
    decFields (X' :: post) ⟨o, encFields (X :: post) (vx :: vpost) o ++ junk⟩
      = .ok (gx :: vpost, ⟨o + (encFields (X :: post) (vx :: vpost) o).length, junk⟩) := by
  simp only [decFields, encFields, hal, hal', List.append_assoc, bind_ok]
  rw [alignTo_zeros]
  refine ⟨_, hrt (o + padLen o 8) _ (padLen_dvd o 8 (by omega)), _,
    decFields_rt post vpost (o + padLen o 8 + (enc X vx (o + padLen o 8)).length) junk hw3 hv3, ?_⟩
  simp only [List.length_append, zeros_length, Nat.add_assoc]
  rfl

/-- common head, hole field, common tail -/
theorem decFields_mid_rt (pre post : List Ty) (X X' : Ty) (vpre vpost : List Val) (vx gx : Val) (o : Nat)
    (junk : List Bool) (hl : vpre.length = pre.length)
    (hal : X.align = 8) (hal' : X'.align = 8) (hrt : Rt (dec X') (enc X vx) gx 8)
    (hw1 : wfFields pre = true) (hv1 : validFields pre vpre = true)
    (hw3 : wfFields post = true) (hv3 : validFields post vpost = true) :
    decFields (pre ++ X' :: post) ⟨o, encFields (pre ++ X :: post) (vpre ++ vx :: vpost) o ++ junk⟩
      = .ok (vpre ++ gx :: vpost, ⟨o + (encFields (pre ++ X :: post) (vpre ++ vx :: vpost) o).length, junk⟩) := by
  rw [decFields_append, encFields_append pre _ vpre _ o hl, List.append_assoc]
  simp only [bind_ok]
  refine ⟨_, decFields_rt pre vpre o _ hw1 hv1, _,
    decFields_cons_rt X X' post vx gx vpost _ junk hal hal' hrt hw3 hv3, ?_⟩
  simp only [List.length_append, Nat.add_assoc]
  rfl

/-- The congruence theorem. -/
theorem reads_fill (D D' : Ty) (g : Val → Val) (hD : D.align = 8) (hD' : D'.align = 8) (hR : Reads D D' g) :
    ∀ (C : Ctx), (C.fill D).wf = true → (C.fill D').wf = true → Reads (C.fill D) (C.fill D') (C.map g) := by
  intro C
  induction C with
  | hole => intro _ _; exact hR
  | farr c cap ih =>
    intro hw hw' v hv
    simp only [Ctx.fill, Ty.wf, Bool.and_eq_true] at hw hw'
    cases v with
    | arr vs =>
      simp only [Ctx.fill, valid, Bool.and_eq_true, beq_iff_eq, List.all_eq_true] at hv
      intro o junk ho
      simp only [Ctx.fill, Ctx.map, dec, enc, bind_ok]
      have hal := align_fill c D hD
      have := decRep_rt_map (fd := fun q => dec (c.fill D') q) (fe := fun v o => enc (c.fill D) v o)
        (h := c.map g) (a := 8) vs o junk
        (fun w hw'' => ih hw.1.1.1 hw'.1.1.1 w (hv.2 w hw''))
        (fun w hw'' o' ho' => by
          have := hasLen_mod (c.fill D) _ hw.1.1.1 (enc_len (c.fill D) w o' hw.1.1.1 (hv.2 w hw'') (by rw [hal]; exact ho'))
          rw [hal] at this; exact this) ho
      rw [hv.1] at this
      exact ⟨_, this, rfl⟩
    | _ => simp [Ctx.fill, valid] at hv
  | varr c cap ih =>
    intro hw hw' v hv
    simp only [Ctx.fill, Ty.wf, Bool.and_eq_true, decide_eq_true_eq] at hw hw'
    cases v with
    | arr vs =>
      simp only [Ctx.fill, valid, Bool.and_eq_true, decide_eq_true_eq, List.all_eq_true] at hv
      intro o junk ho
      simp only [Ctx.fill, Ctx.map, dec, enc, List.append_assoc]
      rw [read_append' o (lenBits cap) _ _ (natBits_length _ _)]
      have hlen : vs.length < 2^(lenBits cap) := Nat.lt_of_le_of_lt hv.1.1 (lt_pow_lenBits cap hw.1.2)
      simp only [bitsNat_natBits _ _ hlen]
      have hc : ¬ vs.length > cap := by omega
      simp only [hc, if_false, bind_ok]
      have h8 := lenBits_mod8 cap
      have hal := align_fill c D hD
      have := decRep_rt_map (fd := fun q => dec (c.fill D') q) (fe := fun v o => enc (c.fill D) v o)
        (h := c.map g) (a := 8) vs (o + lenBits cap) junk
        (fun w hw'' => ih hw.1.1.1 hw'.1.1.1 w (hv.1.2 w hw''))
        (fun w hw'' o' ho' => by
          have := hasLen_mod (c.fill D) _ hw.1.1.1 (enc_len (c.fill D) w o' hw.1.1.1 (hv.1.2 w hw'') (by rw [hal]; exact ho'))
          rw [hal] at this; exact this) (by omega)
      refine ⟨_, this, ?_⟩
      simp only [fill_not_utf8 c D' hD', Bool.false_and, Bool.false_eq_true, if_false, List.length_append,
        natBits_length, Nat.add_assoc]
      rfl
    | _ => simp [Ctx.fill, valid] at hv
  | field pre c post m ih =>
    intro hw hw' v hv
    cases v with
    | recd vs =>
      simp only [Ctx.fill, valid] at hv
      obtain ⟨vpre, vx, vpost, rfl, hl, hv1, hv2, hv3⟩ := validFields_mid pre post (c.fill D) vs hv
      have hwf := hw
      simp only [Ctx.fill, Ty.wf, Bool.and_eq_true] at hwf
      have hwf' := hw'
      simp only [Ctx.fill, Ty.wf, Bool.and_eq_true] at hwf'
      obtain ⟨hw1, hw2, hw3⟩ := wfFields_mid pre post (c.fill D) hwf.1
      obtain ⟨_, hw2', _⟩ := wfFields_mid pre post (c.fill D') hwf'.1
      have hal := align_fill c D hD
      have hal' := align_fill c D' hD'
      have hmap : Ctx.map g (.field pre c post m) (.recd (vpre ++ vx :: vpost))
          = .recd (vpre ++ c.map g vx :: vpost) := by
        simp only [Ctx.map, ← hl, List.take_left', List.drop_left']
      rw [hmap]
      -- the reader's body reads the writer's body
      have hbody : Rt (fun q => do
            let (ws, r') ← decFields (pre ++ c.fill D' :: post) q
            pure (Val.recd ws, r'.alignTo 8))
          (fun o => padTail o (encFields (pre ++ c.fill D :: post) (vpre ++ vx :: vpost) o))
          (.recd (vpre ++ c.map g vx :: vpost)) 8 := by
        intro o junk _
        simp only [padTail_append, bind_ok]
        refine ⟨_, decFields_mid_rt pre post (c.fill D) (c.fill D') vpre vpost vx (c.map g vx) o _ hl hal hal'
          (ih hw2 hw2' vx hv2) hw1 hv1 hw3 hv3, ?_⟩
        simp only [alignTo_zeros, padTail_length, Nat.add_assoc]
        rfl
      obtain ⟨hcongr, hmod, hfit⟩ := struct_body_facts (pre ++ c.fill D :: post) m (vpre ++ vx :: vpost) hw hv
      intro o junk ho
      have := wrap_rt m _ _ _ hbody hcongr hmod hfit o junk ho
      simpa only [Ctx.fill, dec, enc] using this
    | _ => simp [Ctx.fill, valid] at hv
  | variant pre c post m ih =>
    intro hw hw' v hv
    cases v with
    | var tag w =>
      simp only [Ctx.fill, valid] at hv
      have hwf := hw
      simp only [Ctx.fill, Ty.wf, Bool.and_eq_true, decide_eq_true_eq] at hwf
      have hwf' := hw'
      simp only [Ctx.fill, Ty.wf, Bool.and_eq_true, decide_eq_true_eq] at hwf'
      obtain ⟨hw1, hw2, hw3⟩ := wfFields_mid pre post (c.fill D) hwf.1.1.1.1
      obtain ⟨_, hw2', _⟩ := wfFields_mid pre post (c.fill D') hwf'.1.1.1.1
      have hlenEq : (pre ++ c.fill D' :: post).length = (pre ++ c.fill D :: post).length := by simp
      have h8 := tagBits_mod8 (pre ++ c.fill D :: post).length
      have htag : tag < 2^(tagBits (pre ++ c.fill D :: post).length) :=
        Nat.lt_of_lt_of_le (validVariant_lt _ tag w hv) (le_pow_tagBits _ hwf.1.2)
      -- the variant step
      have hvar : ∀ o junk, o % 8 = 0 →
          decVariant (pre ++ c.fill D' :: post) tag ⟨o, encVariant (pre ++ c.fill D :: post) tag w o ++ junk⟩
            = .ok (if tag = pre.length then c.map g w else w,
                   ⟨o + (encVariant (pre ++ c.fill D :: post) tag w o).length, junk⟩) := by
        intro o junk ho
        rcases Nat.lt_trichotomy tag pre.length with hlt | heq | hgt
        · rw [decVariant_append_lt _ _ _ _ hlt, encVariant_append_lt _ _ _ _ _ hlt]
          rw [validVariant_append_lt _ _ _ _ hlt] at hv
          rw [if_neg (by omega)]
          exact decVariant_rt pre tag w o junk hw1 hv ho
        · subst heq
          rw [decVariant_append_ge _ _ _ _ (Nat.le_refl _), encVariant_append_ge _ _ _ _ _ (Nat.le_refl _)]
          rw [validVariant_append_ge _ _ _ _ (Nat.le_refl _)] at hv
          simp only [Nat.sub_self, decVariant, encVariant, validVariant, if_true] at hv ⊢
          exact ih hw2 hw2' w hv o junk ho
        · obtain ⟨k, hk⟩ : ∃ k, tag - pre.length = k + 1 := ⟨tag - pre.length - 1, by omega⟩
          rw [decVariant_append_ge _ _ _ _ (by omega), encVariant_append_ge _ _ _ _ _ (by omega)]
          rw [validVariant_append_ge _ _ _ _ (by omega)] at hv
          simp only [hk, decVariant, encVariant, validVariant] at hv ⊢
          rw [if_neg (by omega)]
          exact decVariant_rt post k w o junk hw3 hv ho
      have hmap : Ctx.map g (.variant pre c post m) (.var tag w)
          = .var tag (if tag = pre.length then c.map g w else w) := by
        simp only [Ctx.map]; split <;> rfl
      rw [hmap]
      have hbody : Rt (fun q =>
            let (b, r1) := q.read (tagBits (pre ++ c.fill D' :: post).length)
            let tag' := bitsNat b
            do let (v', r') ← decVariant (pre ++ c.fill D' :: post) tag' r1
               pure (Val.var tag' v', r'.alignTo 8))
          (fun o => padTail o (natBits (tagBits (pre ++ c.fill D :: post).length) tag ++
            encVariant (pre ++ c.fill D :: post) tag w (o + tagBits (pre ++ c.fill D :: post).length)))
          (.var tag (if tag = pre.length then c.map g w else w)) 8 := by
        intro o junk ho
        simp only [hlenEq, padTail_append, List.append_assoc]
        generalize tagBits (pre ++ c.fill D :: post).length = tb at h8 htag ⊢
        rw [read_append' o tb _ _ (natBits_length _ _)]
        simp only [bitsNat_natBits _ _ htag, bind_ok]
        refine ⟨_, hvar (o + tb) _ (by omega), ?_⟩
        simp only [List.length_append, natBits_length]
        have e1 : o + tb + (encVariant (pre ++ c.fill D :: post) tag w (o + tb)).length
            = o + (tb + (encVariant (pre ++ c.fill D :: post) tag w (o + tb)).length) := by omega
        rw [e1, alignTo_zeros, padTail_length]
        simp only [List.length_append, natBits_length, Nat.add_assoc]
        rfl
      obtain ⟨hcongr, hmod, hfit⟩ := union_body_facts (pre ++ c.fill D :: post) m tag w hw hv
      intro o junk ho
      have := wrap_rt m _ _ _ hbody hcongr hmod hfit o junk ho
      simpa only [Ctx.fill, dec, enc] using this
    | _ => simp [Ctx.fill, valid] at hv

end Wire
