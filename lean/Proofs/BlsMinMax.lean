import Proofs.BlsModulo
/-! `Op.min` / `Op.max` are the least / greatest element of the denoted set; asserts never fire. -/
open scoped Pointwise
namespace Bls

theorem sumMin_eq (cs : List Op) : sumMin cs = (cs.map Op.min).sum := by
  induction cs with
  | nil => simp [sumMin]
  | cons c cs ih => simp [sumMin, ih]

theorem sumMax_eq (cs : List Op) : sumMax cs = (cs.map Op.max).sum := by
  induction cs with
  | nil => simp [sumMax]
  | cons c cs ih => simp [sumMax, ih]

theorem minMin_spec (cs : List Op) (h : cs ≠ []) :
    (∃ c ∈ cs, minMin cs = c.min) ∧ ∀ c ∈ cs, minMin cs ≤ c.min := by
  induction cs with
  | nil => exact absurd rfl h
  | cons c cs ih =>
    cases cs with
    | nil => simp [minMin]
    | cons c2 cs =>
      obtain ⟨⟨m, hm, hmeq⟩, hle⟩ := ih (by simp)
      simp only [minMin]
      refine ⟨?_, ?_⟩
      · rcases Nat.le_total c.min (minMin (c2 :: cs)) with hh | hh
        · exact ⟨c, by simp, Nat.min_eq_left hh⟩
        · exact ⟨m, by simp [hm], by rw [Nat.min_eq_right hh, hmeq]⟩
      · intro x hx
        rcases List.mem_cons.mp hx with rfl | hx
        · exact Nat.min_le_left _ _
        · exact le_trans (Nat.min_le_right _ _) (hle x hx)

theorem maxMax_spec (cs : List Op) (h : cs ≠ []) :
    (∃ c ∈ cs, maxMax cs = c.max) ∧ ∀ c ∈ cs, c.max ≤ maxMax cs := by
  induction cs with
  | nil => exact absurd rfl h
  | cons c cs ih =>
    cases cs with
    | nil => simp [maxMax]
    | cons c2 cs =>
      obtain ⟨⟨m, hm, hmeq⟩, hle⟩ := ih (by simp)
      simp only [maxMax] at hmeq hle ⊢
      refine ⟨?_, ?_⟩
      · rcases Nat.le_total (max c2.max (maxMax cs)) c.max with hh | hh
        · exact ⟨c, by simp, Nat.max_eq_left hh⟩
        · exact ⟨m, by simp only [List.mem_cons] at hm ⊢; tauto, by rw [Nat.max_eq_right hh, hmeq]⟩
      · intro x hx
        rcases List.mem_cons.mp hx with rfl | hx
        · exact Nat.le_max_left _ _
        · exact le_trans (hle x hx) (Nat.le_max_right _ _)

/-- element-wise bounds of a list sum of sets -/
theorem sum_mem_sum (cs : List Op) (f : Op → ℕ) (h : ∀ c ∈ cs, f c ∈ den c) : (cs.map f).sum ∈ (cs.map den).sum := by
  induction cs with
  | nil => simp
  | cons c cs ih =>
    simp only [List.map_cons, List.sum_cons]
    exact Finset.add_mem_add (h c (by simp)) (ih fun x hx => h x (by simp [hx]))

theorem sum_le_of_mem_sum (cs : List Op) (f : Op → ℕ) (h : ∀ c ∈ cs, ∀ x ∈ den c, f c ≤ x) :
    ∀ y ∈ (cs.map den).sum, (cs.map f).sum ≤ y := by
  induction cs with
  | nil => intro y hy; simp at hy ⊢
  | cons c cs ih =>
    intro y hy
    simp only [List.map_cons, List.sum_cons] at hy ⊢
    obtain ⟨a, ha, b, hb, rfl⟩ := Finset.mem_add.mp hy
    exact Nat.add_le_add (h c (by simp) a ha) (ih (fun x hx => h x (by simp [hx])) b hb)

theorem le_sum_of_mem_sum (cs : List Op) (f : Op → ℕ) (h : ∀ c ∈ cs, ∀ x ∈ den c, x ≤ f c) :
    ∀ y ∈ (cs.map den).sum, y ≤ (cs.map f).sum := by
  induction cs with
  | nil => intro y hy; simp at hy ⊢; omega
  | cons c cs ih =>
    intro y hy
    simp only [List.map_cons, List.sum_cons] at hy ⊢
    obtain ⟨a, ha, b, hb, rfl⟩ := Finset.mem_add.mp hy
    exact Nat.add_le_add (h c (by simp) a ha) (ih (fun x hx => h x (by simp [hx])) b hb)

theorem mul_mem_nsmul (S : Finset ℕ) (m k : ℕ) (hm : m ∈ S) : m * k ∈ k • S := by
  induction k with
  | zero => simp
  | succ k ih => rw [succ_nsmul, Nat.mul_succ]; exact Finset.add_mem_add ih hm

theorem mul_le_of_mem_nsmul (S : Finset ℕ) (m k : ℕ) (hm : ∀ x ∈ S, m ≤ x) : ∀ y ∈ k • S, m * k ≤ y := by
  induction k with
  | zero => intro y hy; simp
  | succ k ih =>
    intro y hy
    rw [succ_nsmul] at hy
    obtain ⟨a, ha, b, hb, rfl⟩ := Finset.mem_add.mp hy
    rw [Nat.mul_succ]; exact Nat.add_le_add (ih a ha) (hm b hb)

theorem le_mul_of_mem_nsmul (S : Finset ℕ) (m k : ℕ) (hm : ∀ x ∈ S, x ≤ m) : ∀ y ∈ k • S, y ≤ m * k := by
  induction k with
  | zero => intro y hy; simp at hy; omega
  | succ k ih =>
    intro y hy
    rw [succ_nsmul] at hy
    obtain ⟨a, ha, b, hb, rfl⟩ := Finset.mem_add.mp hy
    rw [Nat.mul_succ]; exact Nat.add_le_add (ih a ha) (hm b hb)

/-- `min` is the least element of the denoted set. -/
theorem min_exact : ∀ o : Op, o.wf = true → o.min ∈ den o ∧ ∀ x ∈ den o, o.min ≤ x := by
  intro o
  induction o using Op.induct with
  | leaf vs =>
    intro h
    simp only [Op.wf, Bool.not_eq_true', List.isEmpty_eq_false_iff] at h
    exact ⟨by simpa [den, Op.min] using minL_mem vs h, fun x hx => minL_le vs x (by simpa [den] using hx)⟩
  | pad c a ih =>
    intro h
    simp only [Op.wf, Bool.and_eq_true, decide_eq_true_eq] at h
    obtain ⟨h1, h2⟩ := ih h.1
    refine ⟨Finset.mem_image_of_mem _ h1, ?_⟩
    intro x hx
    obtain ⟨y, hy, rfl⟩ := Finset.mem_image.mp hx
    exact padTo_mono a _ _ (h2 y hy)
  | cat cs ih =>
    intro h
    simp only [Op.wf, Bool.and_eq_true, wfs_iff] at h
    simp only [Op.min, den, sumMin_eq, denSum_eq]
    exact ⟨sum_mem_sum cs _ fun c hc => (ih c hc (h.2 c hc)).1,
      sum_le_of_mem_sum cs _ fun c hc => (ih c hc (h.2 c hc)).2⟩
  | rep c k ih =>
    intro h
    simp only [Op.wf] at h
    obtain ⟨h1, h2⟩ := ih h
    exact ⟨mul_mem_nsmul _ _ _ h1, mul_le_of_mem_nsmul _ _ _ h2⟩
  | rrep c k ih =>
    intro h
    refine ⟨?_, fun x _ => Nat.zero_le x⟩
    simp only [Op.min, den, Finset.mem_biUnion, Finset.mem_range]
    exact ⟨0, by omega, by simp⟩
  | uni cs ih =>
    intro h
    simp only [Op.wf, Bool.and_eq_true, wfs_iff, Bool.not_eq_true', List.isEmpty_eq_false_iff] at h
    obtain ⟨⟨m, hm, hmeq⟩, hle⟩ := minMin_spec cs h.1
    simp only [Op.min, den]
    refine ⟨(mem_denUnion cs _).mpr ⟨m, hm, by rw [hmeq]; exact (ih m hm (h.2 m hm)).1⟩, ?_⟩
    intro x hx
    obtain ⟨c, hc, hxc⟩ := (mem_denUnion cs x).mp hx
    exact le_trans (hle c hc) ((ih c hc (h.2 c hc)).2 x hxc)

/-- `max` is the greatest element of the denoted set. -/
theorem max_exact : ∀ o : Op, o.wf = true → o.max ∈ den o ∧ ∀ x ∈ den o, x ≤ o.max := by
  intro o
  induction o using Op.induct with
  | leaf vs =>
    intro h
    simp only [Op.wf, Bool.not_eq_true', List.isEmpty_eq_false_iff] at h
    exact ⟨by simpa [den, Op.max] using maxL_mem vs h, fun x hx => le_maxL vs x (by simpa [den] using hx)⟩
  | pad c a ih =>
    intro h
    simp only [Op.wf, Bool.and_eq_true, decide_eq_true_eq] at h
    obtain ⟨h1, h2⟩ := ih h.1
    refine ⟨Finset.mem_image_of_mem _ h1, ?_⟩
    intro x hx
    obtain ⟨y, hy, rfl⟩ := Finset.mem_image.mp hx
    exact padTo_mono a _ _ (h2 y hy)
  | cat cs ih =>
    intro h
    simp only [Op.wf, Bool.and_eq_true, wfs_iff] at h
    simp only [Op.max, den, sumMax_eq, denSum_eq]
    exact ⟨sum_mem_sum cs _ fun c hc => (ih c hc (h.2 c hc)).1,
      le_sum_of_mem_sum cs _ fun c hc => (ih c hc (h.2 c hc)).2⟩
  | rep c k ih =>
    intro h
    simp only [Op.wf] at h
    obtain ⟨h1, h2⟩ := ih h
    exact ⟨mul_mem_nsmul _ _ _ h1, le_mul_of_mem_nsmul _ _ _ h2⟩
  | rrep c k ih =>
    intro h
    simp only [Op.wf] at h
    obtain ⟨h1, h2⟩ := ih h
    simp only [Op.max, den, Finset.mem_biUnion, Finset.mem_range]
    refine ⟨⟨k, by omega, mul_mem_nsmul _ _ _ h1⟩, ?_⟩
    rintro x ⟨j, hj, hx⟩
    exact le_trans (le_mul_of_mem_nsmul _ _ _ h2 x hx) (Nat.mul_le_mul_left _ (by omega))
  | uni cs ih =>
    intro h
    simp only [Op.wf, Bool.and_eq_true, wfs_iff, Bool.not_eq_true', List.isEmpty_eq_false_iff] at h
    obtain ⟨⟨m, hm, hmeq⟩, hle⟩ := maxMax_spec cs h.1
    simp only [Op.max, den]
    refine ⟨(mem_denUnion cs _).mpr ⟨m, hm, by rw [hmeq]; exact (ih m hm (h.2 m hm)).1⟩, ?_⟩
    intro x hx
    obtain ⟨c, hc, hxc⟩ := (mem_denUnion cs x).mp hx
    exact le_trans ((ih c hc (h.2 c hc)).2 x hxc) (hle c hc)

/-- None of the `assert`s on the way of `modulo d` can fire. -/
theorem asserts_never_fire : ∀ o : Op, o.wf = true → ∀ d : ℕ, 0 < d → o.assertsOk d = true := by
  intro o
  induction o using Op.induct with
  | leaf vs => intro _ _ _; rfl
  | pad c a ih =>
    intro h d hd
    simp only [Op.wf, Bool.and_eq_true, decide_eq_true_eq] at h
    have hl : 0 < Nat.lcm a d := Nat.lcm_pos (by omega) hd
    simp only [Op.assertsOk, Bool.and_eq_true, List.all_eq_true, decide_eq_true_eq]
    refine ⟨ih h.1 _ hl, ?_⟩
    intro x hx
    have hx' : x ∈ (den c).image (· % Nat.lcm a d) := by
      rw [← modulo_exact c h.1 _ hl]; simpa using hx
    obtain ⟨y, hy, rfl⟩ := Finset.mem_image.mp hx'
    refine ⟨?_, Nat.mod_lt _ hl⟩
    calc y % Nat.lcm a d ≤ y := Nat.mod_le _ _
      _ ≤ c.max := (max_exact c h.1).2 y hy
      _ ≤ padTo a c.max := le_padTo a _ h.2
  | cat cs ih =>
    intro h d hd
    simp only [Op.wf, Bool.and_eq_true, wfs_iff] at h
    simp only [Op.assertsOk, assertsOks_iff]
    exact fun c hc => ih c hc (h.2 c hc) d hd
  | rep c k ih =>
    intro h d hd
    simp only [Op.wf] at h
    simp only [Op.assertsOk, Bool.and_eq_true, beq_iff_eq]
    exact ⟨ih h d hd, (equivK_mod k d).symm⟩
  | rrep c k ih =>
    intro h d hd
    simp only [Op.wf] at h
    simp only [Op.assertsOk, Bool.and_eq_true, beq_iff_eq]
    exact ⟨ih h d hd, (equivK_mod k d).symm⟩
  | uni cs ih =>
    intro h d hd
    simp only [Op.wf, Bool.and_eq_true, wfs_iff] at h
    simp only [Op.assertsOk, assertsOks_iff]
    exact fun c hc => ih c hc (h.2 c hc) d hd

end Bls
