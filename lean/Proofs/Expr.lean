import Model.Expr
import Mathlib.Tactic.NormNum
import Mathlib.Tactic.Ring
import Mathlib.Tactic.Linarith
import Mathlib.Data.Rat.Defs
import Mathlib.Algebra.Order.Field.Rat
import Mathlib.Data.Rat.Floor
/-! Lemmas about the evaluator of constant expressions: exact arithmetic, the definedness table, sets. -/
set_option linter.unusedSimpArgs false
set_option linter.unusedTactic false
set_option linter.unreachableTactic false
set_option linter.unusedVariables false

namespace Ex

/-! ## Exact arithmetic -/

theorem isInt'_intCast (n : Int) : Rat.isInt' (n : Rat) = true := by simp [Rat.isInt']

theorem isInt'_iff' (q : Rat) : Rat.isInt' q = true ↔ ∃ z : Int, q = z := by
  simp only [Rat.isInt', beq_iff_eq]
  constructor
  · intro h; exact ⟨q.num, ((Rat.den_eq_one_iff q).mp h).symm⟩
  · rintro ⟨z, rfl⟩; simp

theorem scPow_int (a : Rat) (n : Int) (h : a ≠ 0 ∨ 0 ≤ n) : scPow a (n : Rat) = .ok (a ^ n) := by
  simp only [scPow, isInt'_intCast, ↓reduceIte, Rat.num_intCast, ratPowInt]
  by_cases hn : 0 ≤ n
  · obtain ⟨k, rfl⟩ := Int.eq_ofNat_of_zero_le hn
    simp
  · have ha : a ≠ 0 := by rcases h with h | h; exact h; exact absurd h hn
    simp only [hn, ↓reduceIte, ha]
    obtain ⟨k, rfl⟩ : ∃ k : Nat, n = -(k:Int) := ⟨(-n).toNat, by omega⟩
    simp

theorem scPow_zero_neg (n : Int) (h : n < 0) : scPow 0 (n : Rat) = .error (.invalid .divZero) := by
  simp only [scPow, isInt'_intCast, ↓reduceIte, Rat.num_intCast, ratPowInt]
  have : ¬ 0 ≤ n := by omega
  simp [this, inval]

/-- floored modulo: `a = k*b + r` with `r` between `0` and `b` (sign of the divisor) -/
theorem ratMod_spec (a b : Rat) :
    (∃ k : Int, a = k * b + ratMod a b) ∧ (0 < b → 0 ≤ ratMod a b ∧ ratMod a b < b) ∧ (b < 0 → b < ratMod a b ∧ ratMod a b ≤ 0) := by
  unfold ratMod
  refine ⟨⟨(a / b).floor, by ring⟩, ?_, ?_⟩
  · intro hpos
    have h1 : ((a / b).floor : Rat) ≤ a / b := Int.floor_le _
    have h2 : a / b < (a / b).floor + 1 := Int.lt_floor_add_one _
    rw [le_div_iff₀ hpos] at h1
    rw [div_lt_iff₀ hpos] at h2
    constructor <;> nlinarith
  · intro hneg
    have h1 : ((a / b).floor : Rat) ≤ a / b := Int.floor_le _
    have h2 : a / b < (a / b).floor + 1 := Int.lt_floor_add_one _
    rw [le_div_iff_of_neg hneg] at h1
    rw [div_lt_iff_of_neg hneg] at h2
    constructor <;> nlinarith

/-! ## The definedness table on primitives -/

/-- the exponent of a power is integral (the bound of the property) -/
def intExp (op : BinOp) (b : Scalar) : Prop := op = .pow → ∀ q, b = .rat q → Rat.isInt' q = true

/-- Appendix E of DESIGN.md on two primitives -/
def definedSc : BinOp → Scalar → Scalar → Prop
  | op, .rat a, .rat b =>
      match op with
      | .add | .sub | .mul | .eq | .ne | .le | .ge | .lt | .gt => True
      | .div | .mod => b ≠ 0
      | .pow => ¬ (a = 0 ∧ b < 0)
      | .bor | .bxor | .band => Rat.isInt' a = true ∧ Rat.isInt' b = true
      | .lor | .land => False
  | op, .bool _, .bool _ => op = .lor ∨ op = .land ∨ op = .eq ∨ op = .ne
  | op, .str _, .str _ => op = .add ∨ op = .eq ∨ op = .ne
  | _, _, _ => False

theorem ratPowInt_ok (a : Rat) (n : Int) : (∃ v, ratPowInt a n = .ok v) ↔ ¬ (a = 0 ∧ n < 0) := by
  unfold ratPowInt
  by_cases hn : 0 ≤ n
  · simp [hn]; try (intro _; omega)
  · by_cases ha : a = 0 <;> simp [hn, ha, inval] <;> omega

theorem ratPowInt_err (a : Rat) (n : Int) (e : Err) (h : ratPowInt a n = .error e) : e = .invalid .divZero := by
  unfold ratPowInt at h
  by_cases hn : 0 ≤ n
  · simp [hn] at h
  · by_cases ha : a = 0 <;> simp [hn, ha, inval] at h; exact h.symm

theorem num_neg_iff (b : Rat) : b.num < 0 ↔ b < 0 := Rat.num_neg

/-- On two primitives: a value is produced exactly for the combinations of the table, and every other combination
    is an `invalid`-class rejection (never a hazard), as long as exponents are integral. -/
theorem scBin_defined [StrNorm] (op : BinOp) (a b : Scalar) (hexp : intExp op b) :
    ((∃ v, scBin op a b = .ok v) ↔ definedSc op a b) ∧
    (∀ e, scBin op a b = .error e → ∃ k, e = .invalid k) := by
  cases a with
  | rat x =>
    cases b with
    | rat y =>
      cases op <;> simp only [scBin, definedSc, bitwise, inval, Except.ok.injEq, exists_eq', reduceCtorEq, exists_false,
        true_iff, iff_true, false_iff, not_false_eq_true, IsEmpty.forall_iff, implies_true, and_self, not_true_eq_false,
        forall_eq', Except.error.injEq, exists_eq, and_true, Bool.and_eq_true]
      case div =>
        by_cases h : y = 0 <;> simp [h]
      case mod =>
        by_cases h : y = 0 <;> simp [h]
      case pow =>
        have hi : Rat.isInt' y = true := hexp rfl y rfl
        simp only [scPow, hi, ↓reduceIte]
        constructor
        · rw [← num_neg_iff y, ← ratPowInt_ok x y.num]
          constructor
          · rintro ⟨v, hv⟩
            cases hr : ratPowInt x y.num with
            | error e => simp [hr, Except.map] at hv
            | ok r => exact ⟨r, rfl⟩
          · rintro ⟨r, hr⟩; exact ⟨.rat r, by simp [hr, Except.map]⟩
        · intro e he
          cases hr : ratPowInt x y.num with
          | error e' =>
            simp only [hr, Except.map, Except.error.injEq] at he
            subst he
            exact ⟨_, ratPowInt_err _ _ _ hr⟩
          | ok r => simp [hr, Except.map] at he
      all_goals first
        | (by_cases h1 : Rat.isInt' x = true <;> by_cases h2 : Rat.isInt' y = true <;> simp [h1, h2])
        | skip
    | bool y => cases op <;> simp [scBin, definedSc, inval]
    | str y => cases op <;> simp [scBin, definedSc, inval]
  | bool x =>
    cases b <;> cases op <;> simp [scBin, definedSc, inval]
  | str x =>
    cases b <;> cases op <;> simp [scBin, definedSc, inval]

/-! ## Sets -/

theorem mem_dedup (x : Scalar) (l : List Scalar) : x ∈ dedup l ↔ x ∈ l := by
  induction l with
  | nil => simp [dedup]
  | cons y ys ih =>
    simp only [dedup]
    split
    · rename_i h
      simp only [List.mem_cons, ih]
      constructor
      · intro hx; exact Or.inr hx
      · rintro (rfl | hx)
        · exact ih.mp h
        · exact hx
    · simp only [List.mem_cons, ih]

theorem nodup_dedup (l : List Scalar) : (dedup l).Nodup := by
  induction l with
  | nil => simp [dedup]
  | cons y ys ih =>
    simp only [dedup]
    split
    · exact ih
    · rename_i h; exact List.nodup_cons.mpr ⟨h, ih⟩

theorem dedup_eq_nil (l : List Scalar) : dedup l = [] ↔ l = [] := by
  constructor
  · intro h
    cases l with
    | nil => rfl
    | cons y ys =>
      have : y ∈ dedup (y :: ys) := (mem_dedup y _).mpr (by simp)
      rw [h] at this; simp at this
  · rintro rfl; rfl

theorem sameKinds_iff (l : List Scalar) : sameKinds l = true ↔ ∀ x ∈ l, ∀ y ∈ l, x.kind = y.kind := by
  cases l with
  | nil => simp [sameKinds]
  | cons a as =>
    simp only [sameKinds, List.all_eq_true, beq_iff_eq, List.mem_cons]
    constructor
    · intro h x hx y hy
      have hx' : x.kind = a.kind := by rcases hx with rfl | hx; rfl; exact h x hx
      have hy' : y.kind = a.kind := by rcases hy with rfl | hy; rfl; exact h y hy
      rw [hx', hy']
    · intro h y hy; exact h y (Or.inr hy) a (Or.inl rfl)

/-- invariant of set values: never empty, one element kind, no duplicates -/
def Val.wf : Val → Prop
  | .sc _ => True
  | .set es => es ≠ [] ∧ sameKinds es = true ∧ es.Nodup

theorem mkSetS_ok_iff (es : List Scalar) (v : Val) :
    mkSetS es = .ok v ↔ es ≠ [] ∧ sameKinds es = true ∧ v = .set (dedup es) := by
  unfold mkSetS
  cases es with
  | nil => simp [inval]
  | cons a as =>
    by_cases h : sameKinds (a :: as) = true <;> simp [h, inval, eq_comm]

theorem mkSetS_err (es : List Scalar) (e : Err) (h : mkSetS es = .error e) : ∃ k, e = .invalid k := by
  unfold mkSetS at h
  split at h
  · exact ⟨_, by simpa [inval] using h.symm⟩
  · split at h
    · simp at h
    · exact ⟨_, by simpa [inval] using h.symm⟩

theorem mkSetS_wf (es : List Scalar) (v : Val) (h : mkSetS es = .ok v) : v.wf := by
  obtain ⟨h1, h2, rfl⟩ := (mkSetS_ok_iff es v).mp h
  refine ⟨fun h => h1 ((dedup_eq_nil es).mp h), ?_, nodup_dedup es⟩
  rw [sameKinds_iff] at h2 ⊢
  intro x hx y hy
  exact h2 x ((mem_dedup x es).mp hx) y ((mem_dedup y es).mp hy)

theorem mapR_ok_iff {α β} (f : α → R β) (l : List α) (ys : List β) :
    mapR f l = .ok ys ↔ List.Forall₂ (fun x y => f x = .ok y) l ys := by
  induction l generalizing ys with
  | nil => cases ys <;> simp [mapR]
  | cons x xs ih =>
    simp only [mapR]
    cases hx : f x with
    | error e =>
      simp only [reduceCtorEq, false_iff]
      intro h; cases h with | cons h1 _ => simp [hx] at h1
    | ok y =>
      cases hr : mapR f xs with
      | error e =>
        simp only [reduceCtorEq, false_iff]
        intro h; cases h with
        | cons h1 h2 => rw [← ih] at h2; simp [hr] at h2
      | ok zs =>
        simp only [Except.ok.injEq]
        constructor
        · rintro rfl; exact List.Forall₂.cons hx ((ih zs).mp hr)
        · intro h; cases h with
          | cons h1 h2 =>
            rw [hx] at h1
            have := (ih _).mpr h2
            rw [hr] at this
            simp only [Except.ok.injEq] at h1 this
            rw [h1, this]

theorem mapR_err {α β} (f : α → R β) (l : List α) (e : Err) (h : mapR f l = .error e) : ∃ x ∈ l, f x = .error e := by
  induction l with
  | nil => simp [mapR] at h
  | cons x xs ih =>
    simp only [mapR] at h
    cases hx : f x with
    | error e' =>
      simp only [hx, Except.error.injEq] at h
      exact ⟨x, by simp, by rw [hx, h]⟩
    | ok y =>
      simp only [hx] at h
      cases hr : mapR f xs with
      | error e' =>
        simp only [hr, Except.error.injEq] at h
        obtain ⟨z, hz, hfz⟩ := ih (by rw [hr, h])
        exact ⟨z, by simp [hz], hfz⟩
      | ok zs => simp [hr] at h

theorem mapR_total {α β} (f : α → R β) (l : List α) (h : ∀ x ∈ l, ∃ y, f x = .ok y) : ∃ ys, mapR f l = .ok ys := by
  induction l with
  | nil => exact ⟨[], rfl⟩
  | cons x xs ih =>
    obtain ⟨y, hy⟩ := h x (by simp)
    obtain ⟨ys, hys⟩ := ih (fun z hz => h z (by simp [hz]))
    exact ⟨y :: ys, by simp [mapR, hy, hys]⟩

theorem forall₂_mem_right {α β} {P : α → β → Prop} {l : List α} {ys : List β} (h : List.Forall₂ P l ys) :
    ∀ y ∈ ys, ∃ x ∈ l, P x y := by
  induction h with
  | nil => simp
  | cons h1 _ ih =>
    intro y hy
    rcases List.mem_cons.mp hy with rfl | hy
    · exact ⟨_, by simp, h1⟩
    · obtain ⟨x, hx, hp⟩ := ih y hy; exact ⟨x, by simp [hx], hp⟩

theorem forall₂_mem_left {α β} {P : α → β → Prop} {l : List α} {ys : List β} (h : List.Forall₂ P l ys) :
    ∀ x ∈ l, ∃ y ∈ ys, P x y := by
  induction h with
  | nil => simp
  | cons h1 _ ih =>
    intro x hx
    rcases List.mem_cons.mp hx with rfl | hx
    · exact ⟨_, by simp, h1⟩
    · obtain ⟨y, hy, hp⟩ := ih x hx; exact ⟨y, by simp [hy], hp⟩

/-- the result of an arithmetic operator has the kind of its (equal-kinded) operands -/
theorem scBin_arith_kind [StrNorm] (op : BinOp) (x b y : Scalar) (ha : op.isArith = true) (h : scBin op x b = .ok y) :
    y.kind = x.kind ∧ y.kind = b.kind := by
  cases x <;> cases b <;> cases op <;> simp only [scBin, BinOp.isArith, inval, Except.map] at ha h <;>
    first
    | contradiction
    | (simp at h; subst h; simp [Scalar.kind])
    | (split at h <;> simp at h; subst h; simp [Scalar.kind])
    | (simp at ha)
    | (simp at h)

/-! ### Elements of sets are identified by their normal form -/

theorem normSc_kind [StrNorm] (s : Scalar) : (normSc s).kind = s.kind := by cases s <;> rfl

theorem sameKinds_map_normSc [StrNorm] (l : List Scalar) : sameKinds (l.map normSc) = sameKinds l := by
  rw [Bool.eq_iff_iff, sameKinds_iff, sameKinds_iff]
  simp only [List.mem_map, forall_exists_index, and_imp, forall_apply_eq_imp_iff₂, normSc_kind]

theorem scBinEl_ok [StrNorm] (op : BinOp) (x b y : Scalar) :
    scBinEl op x b = .ok y ↔ ∃ z, scBin op x b = .ok z ∧ y = normSc z := by
  unfold scBinEl
  cases h : scBin op x b with
  | error e => simp [Except.map]
  | ok z => simp [Except.map, eq_comm]

theorem scBinEl_err [StrNorm] (op : BinOp) (x b : Scalar) (e : Err) :
    scBinEl op x b = .error e ↔ scBin op x b = .error e := by
  unfold scBinEl
  cases h : scBin op x b with
  | error e' => simp [Except.map]
  | ok z => simp [Except.map]

/-- `scBin_defined` for the element of an element-wise result -/
theorem scBinEl_defined [StrNorm] (op : BinOp) (a b : Scalar) (hexp : intExp op b) :
    ((∃ v, scBinEl op a b = .ok v) ↔ definedSc op a b) ∧
    (∀ e, scBinEl op a b = .error e → ∃ k, e = .invalid k) := by
  have h := scBin_defined op a b hexp
  constructor
  · rw [← h.1]
    constructor
    · rintro ⟨v, hv⟩; obtain ⟨z, hz, _⟩ := (scBinEl_ok op a b v).mp hv; exact ⟨z, hz⟩
    · rintro ⟨z, hz⟩; exact ⟨normSc z, (scBinEl_ok op a b _).mpr ⟨z, hz, rfl⟩⟩
  · intro e he; exact h.2 e ((scBinEl_err op a b e).mp he)

theorem scBinEl_arith_kind [StrNorm] (op : BinOp) (x b y : Scalar) (ha : op.isArith = true) (h : scBinEl op x b = .ok y) :
    y.kind = x.kind ∧ y.kind = b.kind := by
  obtain ⟨z, hz, rfl⟩ := (scBinEl_ok op x b y).mp h
  rw [normSc_kind]
  exact scBin_arith_kind op x b z ha hz


/-- Appendix E of DESIGN.md on values -/
def defined : BinOp → Val → Val → Prop
  | op, .sc a, .sc b => definedSc op a b
  | op, .set as, .sc b => op.isArith = true ∧ ∀ x ∈ as, definedSc op x b
  | op, .sc a, .set bs => op.isArith = true ∧ ∀ x ∈ bs, definedSc op a x
  | op, .set as, .set bs =>
      setKind as = setKind bs ∧
      match op with
      | .eq | .ne | .le | .ge | .lt | .gt | .bor => True
      | .band => ∃ x, x ∈ as ∧ x ∈ bs
      | .bxor => ∃ x, (x ∈ as ∧ x ∉ bs) ∨ (x ∈ bs ∧ x ∉ as)
      | _ => False

/-- all exponents that occur are integral -/
def intExpV (op : BinOp) : Val → Prop
  | .sc b => intExp op b
  | .set bs => ∀ x ∈ bs, intExp op x

theorem setKind_eq_of_wf (as bs : List Scalar) (ha : (Val.set as).wf) (hb : (Val.set bs).wf) (h : setKind as = setKind bs) :
    ∀ x ∈ as ++ bs, ∀ y ∈ as ++ bs, x.kind = y.kind := by
  obtain ⟨hane, hak, _⟩ := ha
  obtain ⟨hbne, hbk, _⟩ := hb
  rw [sameKinds_iff] at hak hbk
  cases as with
  | nil => exact absurd rfl hane
  | cons a as' =>
    cases bs with
    | nil => exact absurd rfl hbne
    | cons b bs' =>
      simp only [setKind, List.head?_cons, Option.map_some, Option.some.injEq] at h
      intro x hx y hy
      have key : ∀ z ∈ (a :: as') ++ (b :: bs'), z.kind = a.kind := by
        intro z hz
        rcases List.mem_append.mp hz with hz | hz
        · exact hak z hz a (by simp)
        · rw [h]; exact hbk z hz b (by simp)
      rw [key x hx, key y hy]

theorem sameKinds_of_subset (l m : List Scalar) (hm : ∀ x ∈ m, ∀ y ∈ m, x.kind = y.kind) (h : ∀ x ∈ l, x ∈ m) :
    sameKinds l = true := by
  rw [sameKinds_iff]; intro x hx y hy; exact hm x (h x hx) y (h y hy)

theorem evalBin_set_sc [StrNorm] (op : BinOp) (as : List Scalar) (b : Scalar) (ha : (Val.set as).wf)
    (hexp : intExp op b) :
    ((∃ v, evalBin op (.set as) (.sc b) = .ok v) ↔ defined op (.set as) (.sc b)) ∧
    (∀ e, evalBin op (.set as) (.sc b) = .error e → ∃ k, e = .invalid k) := by
  obtain ⟨hane, hak, _⟩ := ha
  rw [sameKinds_iff] at hak
  simp only [evalBin, defined]
  by_cases harith : op.isArith = true
  swap
  · simp [harith, inval]
  simp only [harith, ↓reduceIte, true_and]
  constructor
  · constructor
    · rintro ⟨v, hv⟩ x hx
      cases hm : mapR (fun x => scBinEl op x b) as with
      | error e => simp [hm, Except.bind] at hv
      | ok ys =>
        obtain ⟨y, _, hy⟩ := forall₂_mem_left ((mapR_ok_iff _ _ _).mp hm) x hx
        exact ((scBinEl_defined op x b hexp).1).mp ⟨y, hy⟩
    · intro h
      obtain ⟨ys, hys⟩ := mapR_total (fun x => scBinEl op x b) as (fun x hx => ((scBinEl_defined op x b hexp).1).mpr (h x hx))
      have hf := (mapR_ok_iff _ _ _).mp hys
      have hne : ys ≠ [] := by
        intro h0; subst h0; cases hf; exact hane rfl
      have hk : sameKinds ys = true := by
        rw [sameKinds_iff]
        intro y1 hy1 y2 hy2
        obtain ⟨x1, _, h1⟩ := forall₂_mem_right hf y1 hy1
        obtain ⟨x2, _, h2⟩ := forall₂_mem_right hf y2 hy2
        rw [(scBinEl_arith_kind op x1 b y1 harith h1).2, (scBinEl_arith_kind op x2 b y2 harith h2).2]
      exact ⟨_, by simp only [hys, Except.bind]; exact (mkSetS_ok_iff ys _).mpr ⟨hne, hk, rfl⟩⟩
  · intro e he
    cases hm : mapR (fun x => scBinEl op x b) as with
    | error e' =>
      simp only [hm, Except.bind, Except.error.injEq] at he
      subst he
      obtain ⟨x, _, hx⟩ := mapR_err _ _ _ hm
      exact (scBinEl_defined op x b hexp).2 _ hx
    | ok ys =>
      simp only [hm, Except.bind] at he
      exact mkSetS_err _ _ he

theorem evalBin_sc_set [StrNorm] (op : BinOp) (a : Scalar) (bs : List Scalar) (hb : (Val.set bs).wf)
    (hexp : ∀ x ∈ bs, intExp op x) :
    ((∃ v, evalBin op (.sc a) (.set bs) = .ok v) ↔ defined op (.sc a) (.set bs)) ∧
    (∀ e, evalBin op (.sc a) (.set bs) = .error e → ∃ k, e = .invalid k) := by
  obtain ⟨hbne, hbk, _⟩ := hb
  rw [sameKinds_iff] at hbk
  simp only [evalBin, defined]
  by_cases harith : op.isArith = true
  swap
  · simp [harith, inval]
  simp only [harith, ↓reduceIte, true_and]
  constructor
  · constructor
    · rintro ⟨v, hv⟩ x hx
      cases hm : mapR (fun x => scBinEl op a x) bs with
      | error e => simp [hm, Except.bind] at hv
      | ok ys =>
        obtain ⟨y, _, hy⟩ := forall₂_mem_left ((mapR_ok_iff _ _ _).mp hm) x hx
        exact ((scBinEl_defined op a x (hexp x hx)).1).mp ⟨y, hy⟩
    · intro h
      obtain ⟨ys, hys⟩ := mapR_total (fun x => scBinEl op a x) bs
        (fun x hx => ((scBinEl_defined op a x (hexp x hx)).1).mpr (h x hx))
      have hf := (mapR_ok_iff _ _ _).mp hys
      have hne : ys ≠ [] := by
        intro h0; subst h0; cases hf; exact hbne rfl
      have hk : sameKinds ys = true := by
        rw [sameKinds_iff]
        intro y1 hy1 y2 hy2
        obtain ⟨x1, _, h1⟩ := forall₂_mem_right hf y1 hy1
        obtain ⟨x2, _, h2⟩ := forall₂_mem_right hf y2 hy2
        rw [(scBinEl_arith_kind op a x1 y1 harith h1).1, (scBinEl_arith_kind op a x2 y2 harith h2).1]
      exact ⟨_, by simp only [hys, Except.bind]; exact (mkSetS_ok_iff ys _).mpr ⟨hne, hk, rfl⟩⟩
  · intro e he
    cases hm : mapR (fun x => scBinEl op a x) bs with
    | error e' =>
      simp only [hm, Except.bind, Except.error.injEq] at he
      subst he
      obtain ⟨x, hx, hfx⟩ := mapR_err _ _ _ hm
      exact (scBinEl_defined op a x (hexp x hx)).2 _ hfx
    | ok ys =>
      simp only [hm, Except.bind] at he
      exact mkSetS_err _ _ he

theorem mkSetS_ok_of (es : List Scalar) (h1 : es ≠ []) (h2 : sameKinds es = true) : mkSetS es = .ok (.set (dedup es)) :=
  (mkSetS_ok_iff es _).mpr ⟨h1, h2, rfl⟩

theorem mkSetS_nil_err : mkSetS [] = .error (.invalid .emptySet) := by simp [mkSetS, inval]

theorem filter_ne_nil_iff (p : Scalar → Bool) (l : List Scalar) : l.filter p ≠ [] ↔ ∃ x, x ∈ l ∧ p x = true := by
  rw [Ne, List.filter_eq_nil_iff]
  push Not
  rfl

theorem evalBin_set_set [StrNorm] (op : BinOp) (as bs : List Scalar) (ha : (Val.set as).wf) (hb : (Val.set bs).wf) :
    ((∃ v, evalBin op (.set as) (.set bs) = .ok v) ↔ defined op (.set as) (.set bs)) ∧
    (∀ e, evalBin op (.set as) (.set bs) = .error e → ∃ k, e = .invalid k) := by
  have hane := ha.1
  by_cases hk : setKind as = setKind bs
  swap
  · have hk' : (setKind as != setKind bs) = true := by simpa using hk
    cases op <;> simp [evalBin, setSet, defined, hk, hk', inval]
  have hk' : (setKind as != setKind bs) = false := by simpa using hk
  have hall := setKind_eq_of_wf as bs ha hb hk
  cases op <;> simp only [evalBin, setSet, defined, hk, bne_self_eq_false, inval, Bool.false_eq_true, ↓reduceIte, true_and, Except.ok.injEq,
    exists_eq', reduceCtorEq, exists_false, iff_true, iff_false, not_false_eq_true, IsEmpty.forall_iff, implies_true, and_self,
    not_true_eq_false, Except.error.injEq, forall_eq', exists_eq, and_true]
  any_goals (first | exact ⟨_, rfl⟩ | skip)
  case bor =>
    have h1 : as ++ bs ≠ [] := by simp [hane]
    have h2 : sameKinds (as ++ bs) = true := (sameKinds_iff _).mpr hall
    rw [mkSetS_ok_of _ h1 h2]
    simp
  case band =>
    have h2 : sameKinds (as.filter (· ∈ bs)) = true :=
      sameKinds_of_subset _ (as ++ bs) hall (fun x hx => by simp [(List.mem_filter.mp hx).1])
    constructor
    · constructor
      · rintro ⟨v, hv⟩
        obtain ⟨hne, _, _⟩ := (mkSetS_ok_iff _ _).mp hv
        obtain ⟨x, hx, hp⟩ := (filter_ne_nil_iff _ _).mp hne
        exact ⟨x, hx, by simpa using hp⟩
      · rintro ⟨x, hx, hxb⟩
        exact ⟨_, mkSetS_ok_of _ ((filter_ne_nil_iff _ _).mpr ⟨x, hx, by simpa using hxb⟩) h2⟩
    · intro e he; exact mkSetS_err _ _ he
  case bxor =>
    have h2 : sameKinds (as.filter (· ∉ bs) ++ bs.filter (· ∉ as)) = true :=
      sameKinds_of_subset _ (as ++ bs) hall (fun x hx => by
        rcases List.mem_append.mp hx with hx | hx
        · simp [(List.mem_filter.mp hx).1]
        · simp [(List.mem_filter.mp hx).1])
    constructor
    · constructor
      · rintro ⟨v, hv⟩
        obtain ⟨hne, _, _⟩ := (mkSetS_ok_iff _ _).mp hv
        cases hl : as.filter (· ∉ bs) ++ bs.filter (· ∉ as) with
        | nil => exact absurd hl hne
        | cons x r =>
          have hx : x ∈ as.filter (· ∉ bs) ++ bs.filter (· ∉ as) := by rw [hl]; simp
          rcases List.mem_append.mp hx with hx | hx
          · have := List.mem_filter.mp hx
            exact ⟨x, Or.inl ⟨this.1, by simpa using this.2⟩⟩
          · have := List.mem_filter.mp hx
            exact ⟨x, Or.inr ⟨this.1, by simpa using this.2⟩⟩
      · rintro ⟨x, hx⟩
        refine ⟨_, mkSetS_ok_of _ ?_ h2⟩
        intro hnil
        have hx' : x ∈ as.filter (· ∉ bs) ++ bs.filter (· ∉ as) := by
          rcases hx with ⟨h1, h2⟩ | ⟨h1, h2⟩
          · exact List.mem_append.mpr (Or.inl (List.mem_filter.mpr ⟨h1, by simpa using h2⟩))
          · exact List.mem_append.mpr (Or.inr (List.mem_filter.mpr ⟨h1, by simpa using h2⟩))
        rw [hnil] at hx'; simp at hx'
    · intro e he; exact mkSetS_err _ _ he

/-- `C04.defined` in one statement -/
theorem evalBin_defined [StrNorm] (op : BinOp) (a b : Val) (ha : a.wf) (hb : b.wf) (hexp : intExpV op b) :
    ((∃ v, evalBin op a b = .ok v) ↔ defined op a b) ∧
    (∀ e, evalBin op a b = .error e → ∃ k, e = .invalid k) := by
  cases a with
  | sc x =>
    cases b with
    | sc y =>
      have := scBin_defined op x y hexp
      simp only [evalBin, defined]
      constructor
      · rw [← this.1]
        constructor
        · rintro ⟨v, hv⟩
          cases hs : scBin op x y with
          | error e => simp [hs, Except.map] at hv
          | ok r => exact ⟨r, rfl⟩
        · rintro ⟨r, hr⟩; exact ⟨.sc r, by simp [hr, Except.map]⟩
      · intro e he
        cases hs : scBin op x y with
        | error e' =>
          simp only [hs, Except.map, Except.error.injEq] at he
          subst he; exact this.2 _ hs
        | ok r => simp [hs, Except.map] at he
    | set bs => exact evalBin_sc_set op x bs hb hexp
  | set as =>
    cases b with
    | sc y => exact evalBin_set_sc op as y ha hexp
    | set bs => exact evalBin_set_set op as bs ha hb

/-- values produced by the binary operators satisfy the set invariant again -/
theorem evalBin_wf [StrNorm] (op : BinOp) (a b v : Val) (h : evalBin op a b = .ok v) : v.wf := by
  cases a with
  | sc x =>
    cases b with
    | sc y =>
      simp only [evalBin] at h
      cases hs : scBin op x y with
      | error e => simp [hs, Except.map] at h
      | ok r => simp only [hs, Except.map, Except.ok.injEq] at h; subst h; trivial
    | set bs =>
      simp only [evalBin] at h
      split at h
      · cases hm : mapR (fun x_1 => scBinEl op x x_1) bs with
        | error e => simp [hm, Except.bind] at h
        | ok ys => simp only [hm, Except.bind] at h; exact mkSetS_wf _ _ h
      · simp [inval] at h
  | set as =>
    cases b with
    | sc y =>
      simp only [evalBin] at h
      split at h
      · cases hm : mapR (fun x => scBinEl op x y) as with
        | error e => simp [hm, Except.bind] at h
        | ok ys => simp only [hm, Except.bind] at h; exact mkSetS_wf _ _ h
      · simp [inval] at h
    | set bs =>
      simp only [evalBin, setSet] at h
      cases op <;> simp only [inval] at h <;> (try (split at h)) <;>
        first
        | (simp at h; done)
        | (simp only [Except.ok.injEq] at h; subst h; trivial)
        | exact mkSetS_wf _ _ h

/-! ### Set algebra and element-wise application -/

theorem evalBin_union [StrNorm] (as bs : List Scalar) (r : List Scalar) (h : evalBin .bor (.set as) (.set bs) = .ok (.set r)) :
    ∀ x, x ∈ r ↔ x ∈ as ∨ x ∈ bs := by
  simp only [evalBin, setSet] at h
  split at h
  · simp [inval] at h
  · obtain ⟨_, _, hr⟩ := (mkSetS_ok_iff _ _).mp h
    simp only [Val.set.injEq] at hr; subst hr
    intro x; rw [mem_dedup]; simp

theorem evalBin_inter [StrNorm] (as bs : List Scalar) (r : List Scalar) (h : evalBin .band (.set as) (.set bs) = .ok (.set r)) :
    ∀ x, x ∈ r ↔ x ∈ as ∧ x ∈ bs := by
  simp only [evalBin, setSet] at h
  split at h
  · simp [inval] at h
  · obtain ⟨_, _, hr⟩ := (mkSetS_ok_iff _ _).mp h
    simp only [Val.set.injEq] at hr; subst hr
    intro x; rw [mem_dedup]; simp

theorem evalBin_symdiff [StrNorm] (as bs : List Scalar) (r : List Scalar) (h : evalBin .bxor (.set as) (.set bs) = .ok (.set r)) :
    ∀ x, x ∈ r ↔ (x ∈ as ∧ x ∉ bs) ∨ (x ∈ bs ∧ x ∉ as) := by
  simp only [evalBin, setSet] at h
  split at h
  · simp [inval] at h
  · obtain ⟨_, _, hr⟩ := (mkSetS_ok_iff _ _).mp h
    simp only [Val.set.injEq] at hr; subst hr
    intro x; rw [mem_dedup]; simp

theorem subsetL_iff (a b : List Scalar) : subsetL a b = true ↔ ∀ x ∈ a, x ∈ b := by
  simp [subsetL]

theorem setEq_iff (a b : List Scalar) : setEq a b = true ↔ ∀ x, x ∈ a ↔ x ∈ b := by
  simp only [setEq, Bool.and_eq_true, subsetL_iff]
  constructor
  · rintro ⟨h1, h2⟩ x; exact ⟨h1 x, h2 x⟩
  · intro h; exact ⟨fun x hx => (h x).mp hx, fun x hx => (h x).mpr hx⟩

theorem setEq_false_iff (a b : List Scalar) : setEq a b = false ↔ ¬ ∀ x, x ∈ a ↔ x ∈ b := by
  rw [← setEq_iff]; simp

theorem evalBin_set_cmp [StrNorm] (op : BinOp) (as bs : List Scalar) (r : Bool) (h : evalBin op (.set as) (.set bs) = .ok (.bool r)) :
    (op = .eq → (r = true ↔ ∀ x, x ∈ as ↔ x ∈ bs)) ∧
    (op = .ne → (r = true ↔ ¬ ∀ x, x ∈ as ↔ x ∈ bs)) ∧
    (op = .le → (r = true ↔ ∀ x ∈ as, x ∈ bs)) ∧
    (op = .ge → (r = true ↔ ∀ x ∈ bs, x ∈ as)) ∧
    (op = .lt → (r = true ↔ (∀ x ∈ as, x ∈ bs) ∧ ¬ ∀ x, x ∈ as ↔ x ∈ bs)) ∧
    (op = .gt → (r = true ↔ (∀ x ∈ bs, x ∈ as) ∧ ¬ ∀ x, x ∈ as ↔ x ∈ bs)) := by
  simp only [evalBin, setSet] at h
  refine ⟨?_, ?_, ?_, ?_, ?_, ?_⟩ <;> rintro rfl <;> simp only at h <;> split at h <;>
    simp only [inval, reduceCtorEq, Except.ok.injEq, Val.sc.injEq, Scalar.bool.injEq] at h <;> subst h <;>
    simp only [Bool.and_eq_true, Bool.not_eq_true', setEq_iff, setEq_false_iff, subsetL_iff]

/-- element-wise application, operand order preserved -/
theorem evalBin_elementwise_left [StrNorm] (op : BinOp) (as : List Scalar) (b : Scalar) (r : List Scalar)
    (h : evalBin op (.set as) (.sc b) = .ok (.set r)) :
    ∀ y, y ∈ r ↔ ∃ x ∈ as, scBinEl op x b = .ok y := by
  simp only [evalBin] at h
  split at h
  swap
  · simp [inval] at h
  cases hm : mapR (fun x => scBinEl op x b) as with
  | error e => simp [hm, Except.bind] at h
  | ok ys =>
    simp only [hm, Except.bind] at h
    obtain ⟨_, _, hr⟩ := (mkSetS_ok_iff _ _).mp h
    simp only [Val.set.injEq] at hr; subst hr
    have hf := (mapR_ok_iff _ _ _).mp hm
    intro y; rw [mem_dedup]
    constructor
    · intro hy; exact forall₂_mem_right hf y hy
    · rintro ⟨x, hx, hxy⟩
      obtain ⟨y', hy', hxy'⟩ := forall₂_mem_left hf x hx
      rw [hxy] at hxy'
      simp only [Except.ok.injEq] at hxy'; subst hxy'; exact hy'

theorem evalBin_elementwise_right [StrNorm] (op : BinOp) (a : Scalar) (bs : List Scalar) (r : List Scalar)
    (h : evalBin op (.sc a) (.set bs) = .ok (.set r)) :
    ∀ y, y ∈ r ↔ ∃ x ∈ bs, scBinEl op a x = .ok y := by
  simp only [evalBin] at h
  split at h
  swap
  · simp [inval] at h
  cases hm : mapR (fun x => scBinEl op a x) bs with
  | error e => simp [hm, Except.bind] at h
  | ok ys =>
    simp only [hm, Except.bind] at h
    obtain ⟨_, _, hr⟩ := (mkSetS_ok_iff _ _).mp h
    simp only [Val.set.injEq] at hr; subst hr
    have hf := (mapR_ok_iff _ _ _).mp hm
    intro y; rw [mem_dedup]
    constructor
    · intro hy; exact forall₂_mem_right hf y hy
    · rintro ⟨x, hx, hxy⟩
      obtain ⟨y', hy', hxy'⟩ := forall₂_mem_left hf x hx
      rw [hxy] at hxy'
      simp only [Except.ok.injEq] at hxy'; subst hxy'; exact hy'

/-! ### min / max / count -/

theorem reduceCmp_min [StrNorm] (a : Rat) (l : List Scalar) (hl : ∀ x ∈ l, ∃ q, x = .rat q) :
    ∃ m : Rat, reduceCmp false (.rat a) l = .ok (.rat m) ∧ (m = a ∨ .rat m ∈ l) ∧ m ≤ a ∧ ∀ q, Scalar.rat q ∈ l → m ≤ q := by
  induction l generalizing a with
  | nil => exact ⟨a, rfl, Or.inl rfl, le_refl _, by simp⟩
  | cons b rest ih =>
    obtain ⟨q, rfl⟩ := hl b (by simp)
    have hrest : ∀ x ∈ rest, ∃ q, x = .rat q := fun x hx => hl x (by simp [hx])
    simp only [reduceCmp, Bool.false_eq_true, ↓reduceIte, scBin]
    by_cases hlt : a < q
    · obtain ⟨m, hm, hmem, hma, hall⟩ := ih a hrest
      refine ⟨m, by simpa [hlt] using hm, ?_, hma, ?_⟩
      · rcases hmem with h | h
        · exact Or.inl h
        · exact Or.inr (by simp [h])
      · intro q' hq'
        rcases List.mem_cons.mp hq' with h | h
        · simp only [Scalar.rat.injEq] at h; subst h; linarith
        · exact hall q' h
    · obtain ⟨m, hm, hmem, hma, hall⟩ := ih q hrest
      have hqa : q ≤ a := not_lt.mp hlt
      refine ⟨m, by simpa [hlt] using hm, ?_, by linarith, ?_⟩
      · rcases hmem with h | h
        · exact Or.inr (by simp [h])
        · exact Or.inr (by simp [h])
      · intro q' hq'
        rcases List.mem_cons.mp hq' with h | h
        · simp only [Scalar.rat.injEq] at h; subst h; exact hma
        · exact hall q' h

theorem reduceCmp_max [StrNorm] (a : Rat) (l : List Scalar) (hl : ∀ x ∈ l, ∃ q, x = .rat q) :
    ∃ m : Rat, reduceCmp true (.rat a) l = .ok (.rat m) ∧ (m = a ∨ .rat m ∈ l) ∧ a ≤ m ∧ ∀ q, Scalar.rat q ∈ l → q ≤ m := by
  induction l generalizing a with
  | nil => exact ⟨a, rfl, Or.inl rfl, le_refl _, by simp⟩
  | cons b rest ih =>
    obtain ⟨q, rfl⟩ := hl b (by simp)
    have hrest : ∀ x ∈ rest, ∃ q, x = .rat q := fun x hx => hl x (by simp [hx])
    simp only [reduceCmp, ↓reduceIte, scBin]
    by_cases hlt : q < a
    · obtain ⟨m, hm, hmem, hma, hall⟩ := ih a hrest
      refine ⟨m, by simpa [hlt] using hm, ?_, hma, ?_⟩
      · rcases hmem with h | h
        · exact Or.inl h
        · exact Or.inr (by simp [h])
      · intro q' hq'
        rcases List.mem_cons.mp hq' with h | h
        · simp only [Scalar.rat.injEq] at h; subst h; linarith
        · exact hall q' h
    · obtain ⟨m, hm, hmem, hma, hall⟩ := ih q hrest
      have hqa : a ≤ q := not_lt.mp hlt
      refine ⟨m, by simpa [hlt] using hm, ?_, by linarith, ?_⟩
      · rcases hmem with h | h
        · exact Or.inr (by simp [h])
        · exact Or.inr (by simp [h])
      · intro q' hq'
        rcases List.mem_cons.mp hq' with h | h
        · simp only [Scalar.rat.injEq] at h; subst h; exact hma
        · exact hall q' h

end Ex
