import Proofs.WireRelaxed
/-! Relaxed mode is a conservative extension of strict mode: an input that `coerce` accepts as it stands
    (explicit form) is a fixed point of `normalize`, so `serialize … relaxed=true` returns the same bytes. -/
namespace Wire

mutual
/-- every dict that is read against a structure has pairwise distinct keys (as every Python dict has) -/
def DistinctKeys : Ty → Inp → Prop
  | .farr e _, x =>
      match x with
      | .list xs => ∀ y ∈ xs, DistinctKeys e y
      | _ => True
  | .varr e _, x =>
      match x with
      | .list xs => ∀ y ∈ xs, DistinctKeys e y
      | _ => True
  | .struct fs _, x =>
      match x with
      | .dict kvs => (kvs.map Prod.fst).Nodup ∧ ∀ kv ∈ kvs, DistinctKeysField fs kv.1 kv.2
      | _ => True
  | .union fs _, x =>
      match x with
      | .dict kvs => ∀ kv ∈ kvs, DistinctKeysField fs kv.1 kv.2
      | _ => True
  | _, _ => True
def DistinctKeysField : List Ty → Nat → Inp → Prop
  | [], _, _ => True
  | t :: _, 0, x => DistinctKeys t x
  | _ :: ts, k+1, x => DistinctKeysField ts k x
end

theorem mapKvs_fix {f : Nat → Inp → Except Err Inp} :
    ∀ (kvs : List (Nat × Inp)), (∀ kv ∈ kvs, f kv.1 kv.2 = .ok kv.2) → mapKvs f kvs = .ok kvs
  | [], _ => rfl
  | (k, x) :: rest, h => by
      simp only [mapKvs, bind_ok]
      exact ⟨x, h (k, x) (by simp), rest, mapKvs_fix rest (fun kv hkv => h kv (by simp [hkv])), rfl⟩

theorem mapInps_fix {f : Inp → Except Err Inp} :
    ∀ (xs : List Inp), (∀ x ∈ xs, f x = .ok x) → mapInps f xs = .ok xs
  | [], _ => rfl
  | x :: xs, h => by
      simp only [mapInps, bind_ok]
      exact ⟨x, h x (by simp), xs, mapInps_fix xs (fun x' hx' => h x' (by simp [hx'])), rfl⟩

theorem coerceList_mem {f : Inp → Except Err Val} :
    ∀ (xs : List Inp) (vs : List Val), coerceList f xs = .ok vs → ∀ x ∈ xs, ∃ v, f x = .ok v
  | [], _, _, x, hx => by cases hx
  | x0 :: xs, vs, h, x, hx => by
      simp only [coerceList, bind_ok] at h
      obtain ⟨v, hv, vs', hvs, _⟩ := h
      rcases List.mem_cons.mp hx with rfl | hx
      · exact ⟨v, hv⟩
      · exact coerceList_mem xs vs' hvs x hx

theorem lookupKey_of_mem : ∀ (kvs : List (Nat × Inp)) (kv : Nat × Inp), (kvs.map Prod.fst).Nodup → kv ∈ kvs →
    lookupKey kv.1 kvs = some kv.2
  | [], _, _, h => by cases h
  | (k', x') :: rest, kv, hnd, h => by
      simp only [List.map_cons, List.nodup_cons] at hnd
      simp only [lookupKey]
      rcases List.mem_cons.mp h with rfl | h
      · simp
      · have hne : kv.1 ≠ k' := by
          intro hc
          exact hnd.1 (hc ▸ List.mem_map_of_mem (f := Prod.fst) h)
        simp only [beq_iff_eq, hne, if_false]
        exact lookupKey_of_mem rest kv hnd.2 h

/-- a present non-padding field is coerced -/
theorem coerceFields_present : ∀ (ts : List Ty) (i : Nat) (kvs : List (Nat × Inp)) (vs : List Val),
    coerceFields ts i kvs = .ok vs → ∀ (j : Nat) (t : Ty) (x : Inp), ts[j]? = some t → t.isVoid = false →
      lookupKey (i + j) kvs = some x → ∃ v, coerce t x = .ok v
  | [], _, _, _, _, j, t, _, hj, _, _ => by simp at hj
  | t0 :: ts, i, kvs, vs, h, j, t, x, hj, hv, hk => by
      simp only [coerceFields, bind_ok] at h
      obtain ⟨v, hv0, vs', hvs, _⟩ := h
      cases j with
      | zero =>
        simp only [List.getElem?_cons_zero, Option.some.injEq] at hj
        subst hj
        simp only [Nat.add_zero] at hk
        simp only [hv, Bool.false_eq_true, if_false, hk] at hv0
        exact ⟨v, hv0⟩
      | succ j =>
        simp only [List.getElem?_cons_succ] at hj
        exact coerceFields_present ts (i+1) kvs vs' hvs j t x hj hv (by rw [← hk]; congr 1; omega)

theorem coerceVariant_present : ∀ (ts : List Ty) (k : Nat) (x : Inp) (v : Val), coerceVariant ts k x = .ok v →
    ∃ t, ts[k]? = some t ∧ coerce t x = .ok v
  | [], _, _, _, h => by simp [coerceVariant] at h
  | t :: _, 0, x, v, h => by simp only [coerceVariant] at h; exact ⟨t, by simp, h⟩
  | _ :: ts, k+1, x, v, h => by
      simp only [coerceVariant] at h
      simpa using coerceVariant_present ts k x v h

theorem mem_nonPad : ∀ (ts : List Ty) (i j : Nat), isField ts j = true → (i + j) ∈ nonPad ts i
  | [], _, j, h => by simp [isField] at h
  | t :: ts, i, 0, h => by
      simp only [isField, List.getElem?_cons_zero, Bool.not_eq_true'] at h
      simp [nonPad, h]
  | t :: ts, i, j+1, h => by
      have h' : isField ts j = true := by simpa [isField] using h
      have := mem_nonPad ts (i+1) j h'
      have e : i + 1 + j = i + (j + 1) := by omega
      rw [e] at this
      simp only [nonPad]
      split
      · exact this
      · exact List.mem_cons_of_mem _ this

theorem not_bareDict_of_fields (fs : List Ty) (kvs : List (Nat × Inp))
    (h : kvs.all (fun kv => isField fs kv.1) = true) : ¬ bareDict fs kvs := by
  rintro ⟨k, hk, hb⟩
  simp only [Bool.and_eq_true, Bool.not_eq_true', List.isEmpty_eq_false_iff] at hb
  cases kvs with
  | nil => exact hb.1 rfl
  | cons kv rest =>
    simp only [List.all_cons, Bool.and_eq_true] at h
    have := mem_nonPad fs 0 kv.1 h.1
    rw [hk, Nat.zero_add, List.mem_singleton] at this
    simp [hasKey, this] at hb

mutual
theorem normalize_strict : ∀ (t : Ty) (x : Inp) (v : Val), DistinctKeys t x → coerce t x = .ok v →
    normalize t x = .ok x
  | .bool, x, _, _, _ | .uint _ _, x, _, _, _ | .sint _ _, x, _, _, _ | .float _ _, x, _, _, _
  | .byte, x, _, _, _ | .utf8, x, _, _, _ | .void _, x, _, _, _ => by simp only [normalize]
  | .farr e cap, x, v, hd, h => by
      cases x with
      | list xs =>
        simp only [DistinctKeys] at hd
        simp only [coerce, bind_ok] at h
        obtain ⟨xs', hseq, h⟩ := h
        have hx : xs' = xs := by
          cases e <;> simp only [seqOf] at hseq <;> first | (cases hseq; rfl) | cases hseq
        subst hx
        split at h
        · cases h
        · simp only [bind_ok] at h
          obtain ⟨vs, hvs, _⟩ := h
          simp only [normalize, bind_ok]
          refine ⟨xs', mapInps_fix xs' (fun y hy => ?_), rfl⟩
          obtain ⟨w, hw⟩ := coerceList_mem xs' vs hvs y hy
          exact normalize_strict e y w (hd y hy) hw
      | _ => simp only [normalize]
  | .varr e cap, x, v, hd, h => by
      cases x with
      | list xs =>
        simp only [DistinctKeys] at hd
        simp only [coerce, bind_ok] at h
        obtain ⟨xs', hseq, h⟩ := h
        have hx : xs' = xs := by
          cases e <;> simp only [seqOf] at hseq <;> first | (cases hseq; rfl) | cases hseq
        subst hx
        split at h
        · cases h
        · simp only [bind_ok] at h
          obtain ⟨vs, hvs, _⟩ := h
          simp only [normalize, bind_ok]
          refine ⟨xs', mapInps_fix xs' (fun y hy => ?_), rfl⟩
          obtain ⟨w, hw⟩ := coerceList_mem xs' vs hvs y hy
          exact normalize_strict e y w (hd y hy) hw
      | _ => simp only [normalize]
  | .struct fs m, x, v, hd, h => by
      cases x with
      | dict kvs =>
        simp only [DistinctKeys] at hd
        simp only [coerce] at h
        split at h
        · rename_i hall
          simp only [bind_ok] at h
          obtain ⟨vs, hvs, _⟩ := h
          rw [norm_struct_dict fs m kvs (not_bareDict_of_fields fs kvs hall)]
          simp only [bind_ok]
          refine ⟨kvs, mapKvs_fix kvs (fun kv hkv => ?_), rfl⟩
          have hf : isField fs kv.1 = true := (List.all_eq_true.mp hall) kv hkv
          have hl := lookupKey_of_mem kvs kv hd.1 hkv
          refine normField_strict fs kv.1 kv.2 (hd.2 kv hkv) (fun t ht hv => ?_)
          exact coerceFields_present fs 0 kvs vs hvs kv.1 t kv.2 ht hv (by rw [Nat.zero_add]; exact hl)
        · cases h
      | _ => simp [coerce] at h
  | .union fs m, x, v, hd, h => by
      simp only [coerce] at h
      split at h
      · rename_i k y
        simp only [DistinctKeys] at hd
        split at h
        · rename_i hk
          simp only [bind_ok] at h
          obtain ⟨w, hw, _⟩ := h
          obtain ⟨t, ht, hc⟩ := coerceVariant_present fs k y w hw
          simp only [normalize, hk, if_true, bind_ok]
          refine ⟨y, normField_strict fs k y (hd (k, y) (by simp)) (fun t' ht' _ => ?_), rfl⟩
          rw [ht] at ht'
          cases ht'
          exact ⟨w, hc⟩
        · cases h
      · cases h
theorem normField_strict : ∀ (ts : List Ty) (k : Nat) (x : Inp), DistinctKeysField ts k x →
    (∀ t, ts[k]? = some t → t.isVoid = false → ∃ v, coerce t x = .ok v) → normField ts k x = .ok x
  | [], _, _, _, _ => by simp only [normField]
  | t :: ts, 0, x, hd, h => by
      simp only [DistinctKeysField] at hd
      simp only [normField]
      split
      · rfl
      · rename_i hv
        obtain ⟨v, hv'⟩ := h t (by simp) (by simpa using hv)
        exact normalize_strict t x v hd hv'
  | _ :: ts, k+1, x, hd, h => by
      simp only [DistinctKeysField] at hd
      simp only [normField]
      exact normField_strict ts k x hd (fun t ht hv => h t (by simpa using ht) hv)
end

end Wire
