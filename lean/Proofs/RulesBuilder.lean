import Model.Rules
/-! The builder automaton of `Model/Rules.lean` against the declarative reading "every statement is admissible given
    what precedes it" (C05: directive placement and non-duplication). -/
namespace Rules

def RStmt.isAttr : RStmt → Bool
  | .field .. | .padding .. | .const .. => true
  | _ => false

def RStmt.isMode : RStmt → Bool
  | .sealed | .extent _ => true
  | _ => false

def RStmt.isExtentStmt : RStmt → Bool
  | .extent _ => true
  | _ => false

def RStmt.toAttr : RStmt → Option RAttr
  | .field t n => some (.field t n)
  | .padding w => some (.padding w)
  | .const t n => some (.const t n)
  | _ => none

def RStmt.toMode : RStmt → Option RMode
  | .sealed => some .sealed
  | .extent e => some (.extent e)
  | _ => none

/-- the statements of the schema that is open after `pre` (everything behind the last `---`) -/
def lastSeg (pre : List RStmt) : List RStmt :=
  pre.foldl (fun acc st => if st = .marker then [] else acc ++ [st]) []

/-- the statements in front of the first `---` -/
def firstSeg (pre : List RStmt) : List RStmt := pre.takeWhile (· ≠ .marker)

/-- what a schema's statements say: attributes in order, `@union` present, the first mode directive -/
def segSummary (seg : List RStmt) : RSchema :=
  ⟨seg.filterMap RStmt.toAttr, seg.contains .union, seg.findSome? RStmt.toMode⟩

/-- what the statements say as a whole -/
def summ (pre : List RStmt) : BState :=
  ⟨if pre.contains .marker then [segSummary (firstSeg pre)] else [], segSummary (lastSeg pre), pre.contains .deprecated⟩

/-- Is statement `st` admissible behind the statements `pre`?
    * an attribute: its own constructor checks pass and no `@extent` precedes it in its schema;
    * `@union`: no `@union` and no attribute precedes it in its schema;
    * `@deprecated`: no `@deprecated`, no `---` and no attribute precedes it at all;
    * `@sealed` / `@extent`: no `@sealed` / `@extent` precedes it in its schema;
    * `---`: no `---` precedes it. -/
def admissible (pre : List RStmt) (st : RStmt) : Bool :=
  match st with
  | .field .. | .padding .. | .const .. => attrCtorOk st && !(lastSeg pre).any RStmt.isExtentStmt
  | .union => !(lastSeg pre).contains .union && !(lastSeg pre).any RStmt.isAttr
  | .deprecated => !pre.contains .deprecated && !pre.contains .marker && !pre.any RStmt.isAttr
  | .sealed | .extent _ => !(lastSeg pre).any RStmt.isMode
  | .marker => !pre.contains .marker

def Admissible : List RStmt → List RStmt → Prop
  | _, [] => True
  | pre, st :: rest => admissible pre st = true ∧ Admissible (pre ++ [st]) rest

theorem Admissible_iff (pre rest : List RStmt) :
    Admissible pre rest ↔ ∀ a st b, rest = a ++ st :: b → admissible (pre ++ a) st = true := by
  induction rest generalizing pre with
  | nil => simp [Admissible]
  | cons x rest ih =>
    simp only [Admissible, ih]
    constructor
    · rintro ⟨h1, h2⟩ a st b hab
      cases a with
      | nil => simp at hab; obtain ⟨rfl, rfl⟩ := hab; simpa using h1
      | cons y a =>
        simp at hab
        obtain ⟨rfl, rfl⟩ := hab
        have := h2 a st b rfl
        simpa using this
    · intro h
      refine ⟨by simpa using h [] x rest rfl, ?_⟩
      intro a st b hab
      have := h (x :: a) st b (by simp [hab])
      simpa using this

/-! snoc lemmas of the summaries -/

theorem lastSeg_snoc (pre : List RStmt) (st : RStmt) :
    lastSeg (pre ++ [st]) = if st = .marker then [] else lastSeg pre ++ [st] := by
  simp [lastSeg, List.foldl_append]

theorem firstSeg_snoc (pre : List RStmt) (st : RStmt) :
    firstSeg (pre ++ [st]) = if pre.contains .marker then firstSeg pre else if st = .marker then pre else pre ++ [st] := by
  induction pre with
  | nil => by_cases h : st = .marker <;> simp [firstSeg, List.takeWhile, h]
  | cons x pre ih =>
    by_cases hx : x = .marker
    · subst hx; simp [firstSeg, List.takeWhile]
    · have hx' : (RStmt.marker == x) = false := by
        simp; exact fun h => hx h.symm
      simp only [firstSeg] at ih ⊢
      simp only [List.cons_append, List.takeWhile, hx, ne_eq, not_false_eq_true, decide_true, List.contains_cons, hx', Bool.false_or]
      rw [ih]
      split
      · rfl
      · split <;> rfl

theorem foldl_lastSeg_no_marker (pre acc : List RStmt) (h : pre.contains .marker = false) :
    pre.foldl (fun acc st => if st = .marker then [] else acc ++ [st]) acc = acc ++ pre := by
  induction pre generalizing acc with
  | nil => simp
  | cons x pre ih =>
    simp at h
    have hx : ¬ x = .marker := fun e => h.1 e.symm
    simp only [List.foldl_cons, hx, if_false]
    rw [ih _ (by simpa using h.2)]
    simp

theorem not_marker_lastSeg_eq {pre : List RStmt} (h : pre.contains .marker = false) : lastSeg pre = pre := by
  simpa [lastSeg] using foldl_lastSeg_no_marker pre [] h

theorem not_marker_firstSeg_eq {pre : List RStmt} (h : pre.contains .marker = false) : firstSeg pre = pre := by
  induction pre with
  | nil => rfl
  | cons x pre ih =>
    simp at h
    have hx : ¬ x = .marker := fun e => h.1 e.symm
    simp only [firstSeg, List.takeWhile, ne_eq, hx, not_false_eq_true, decide_true]
    congr 1
    exact ih (by simpa using h.2)

/-! the automaton step against `admissible` -/

def ModeUnique (seg : List RStmt) : Prop := (seg.filter RStmt.isMode).length ≤ 1

theorem attrs_isEmpty (seg : List RStmt) : (seg.filterMap RStmt.toAttr).isEmpty = !seg.any RStmt.isAttr := by
  induction seg with
  | nil => rfl
  | cons x seg ih => cases x <;> simp_all [RStmt.toAttr, RStmt.isAttr, List.filterMap_cons]

theorem mode_isSome (seg : List RStmt) : (seg.findSome? RStmt.toMode).isSome = seg.any RStmt.isMode := by
  induction seg with
  | nil => rfl
  | cons x seg ih => cases x <;> simp_all [RStmt.toMode, RStmt.isMode, List.findSome?_cons]

theorem extent_is_mode (x : RStmt) (h : x.isExtentStmt = true) : x.isMode = true := by
  cases x <;> simp_all [RStmt.isExtentStmt, RStmt.isMode]

theorem no_mode_no_extent {seg : List RStmt} (h : seg.any RStmt.isMode = false) : seg.any RStmt.isExtentStmt = false := by
  cases hq : seg.any RStmt.isExtentStmt with
  | false => rfl
  | true =>
    rw [List.any_eq_true] at hq
    obtain ⟨x, hx, hx2⟩ := hq
    have : seg.any RStmt.isMode = true := List.any_eq_true.mpr ⟨x, hx, extent_is_mode x hx2⟩
    rw [this] at h; cases h

theorem filter_len_zero {seg : List RStmt} (h : (seg.filter RStmt.isMode).length = 0) : seg.any RStmt.isMode = false := by
  have h2 : seg.filter RStmt.isMode = [] := List.eq_nil_of_length_eq_zero h
  cases hq : seg.any RStmt.isMode with
  | false => rfl
  | true =>
    rw [List.any_eq_true] at hq
    obtain ⟨x, hx, hx2⟩ := hq
    have : x ∈ seg.filter RStmt.isMode := List.mem_filter.mpr ⟨hx, hx2⟩
    rw [h2] at this; cases this

theorem any_false_filter {seg : List RStmt} (h : seg.any RStmt.isMode = false) : seg.filter RStmt.isMode = [] := by
  rw [List.filter_eq_nil_iff]
  intro x hx hx2
  have : seg.any RStmt.isMode = true := List.any_eq_true.mpr ⟨x, hx, hx2⟩
  rw [this] at h; cases h

theorem isExtent_mode {seg : List RStmt} (h : ModeUnique seg) :
    isExtent (seg.findSome? RStmt.toMode) = seg.any RStmt.isExtentStmt := by
  induction seg with
  | nil => rfl
  | cons x seg ih =>
    unfold ModeUnique at h ih
    by_cases hx : x.isMode = true
    · have h0 : (seg.filter RStmt.isMode).length = 0 := by
        rw [List.filter_cons_of_pos hx] at h
        simp only [List.length_cons] at h
        omega
      have h1 := no_mode_no_extent (filter_len_zero h0)
      cases x <;> simp_all [RStmt.isMode, RStmt.toMode, List.findSome?_cons, isExtent, RStmt.isExtentStmt]
    · have h0 : (seg.filter RStmt.isMode).length ≤ 1 := by
        rw [List.filter_cons_of_neg hx] at h; exact h
      have := ih h0
      cases x <;> simp_all [RStmt.isMode, RStmt.toMode, List.findSome?_cons, RStmt.isExtentStmt]

theorem segSummary_snoc (seg : List RStmt) (st : RStmt) :
    segSummary (seg ++ [st]) =
      ⟨(segSummary seg).attrs ++ (match st.toAttr with | some a => [a] | none => []),
       (segSummary seg).union || st == .union,
       (segSummary seg).mode <|> st.toMode⟩ := by
  simp only [segSummary, List.filterMap_append, List.contains_append, List.findSome?_append]
  cases st <;> simp [RStmt.toAttr, RStmt.toMode, List.filterMap_cons]

theorem ModeUnique_snoc {pre : List RStmt} {st : RStmt} (h : ModeUnique (lastSeg pre)) (ha : admissible pre st = true) :
    ModeUnique (lastSeg (pre ++ [st])) := by
  rw [lastSeg_snoc]
  unfold ModeUnique at h ⊢
  by_cases hm : st = .marker
  · simp [hm]
  · simp only [hm, if_false, List.filter_append]
    by_cases hx : st.isMode = true
    · have hno : (lastSeg pre).any RStmt.isMode = false := by
        cases st <;> simp_all [admissible, RStmt.isMode]
      rw [any_false_filter hno, List.filter_cons_of_pos hx]
      simp
    · rw [List.filter_cons_of_neg hx]
      simpa using h

theorem summ_snoc_nm (pre : List RStmt) (st : RStmt) (hst : st ≠ .marker) :
    summ (pre ++ [st]) = ⟨(summ pre).done, segSummary (lastSeg pre ++ [st]), (summ pre).deprecated || decide (st = .deprecated)⟩ := by
  have e1 : (RStmt.marker == st) = false := by simp; exact fun h => hst h.symm
  simp only [summ, lastSeg_snoc, hst, if_false, List.contains_append, List.contains_cons, List.contains_nil, Bool.or_false, e1,
    firstSeg_snoc]
  congr 1
  · by_cases hc : RStmt.marker ∈ pre <;> simp [hc]
  · cases st <;> simp

theorem summ_snoc_marker (pre : List RStmt) (h : pre.contains .marker = false) :
    summ (pre ++ [.marker]) = ⟨[segSummary pre], RSchema.empty, (summ pre).deprecated⟩ := by
  simp only [summ, lastSeg_snoc, if_true, firstSeg_snoc, List.contains_append, h]
  simp [segSummary, RSchema.empty]

theorem summ_done_isEmpty (pre : List RStmt) : (summ pre).done.isEmpty = !pre.contains .marker := by
  simp only [summ]; split <;> simp_all

/-- one step of the builder on the summary of a prefix: an admissible statement -/
theorem bstep_adm (pre : List RStmt) (st : RStmt) (hm : ModeUnique (lastSeg pre)) (ha : admissible pre st = true) :
    bstep (summ pre) st = some (summ (pre ++ [st])) := by
  have hattrs : (summ pre).cur.attrs.isEmpty = !(lastSeg pre).any RStmt.isAttr := attrs_isEmpty _
  have hmode : (summ pre).cur.mode.isSome = (lastSeg pre).any RStmt.isMode := mode_isSome _
  have hext : isExtent (summ pre).cur.mode = (lastSeg pre).any RStmt.isExtentStmt := isExtent_mode hm
  have hunion : (summ pre).cur.union = (lastSeg pre).contains .union := rfl
  have hdep : (summ pre).deprecated = pre.contains .deprecated := rfl
  cases st with
  | field t n =>
    simp only [admissible, Bool.and_eq_true, Bool.not_eq_true'] at ha
    rw [summ_snoc_nm _ _ (by simp), segSummary_snoc]
    simp only [bstep, hext, ha.1, ha.2]
    simp [RStmt.toAttr, RStmt.toMode, summ]
  | padding w =>
    simp only [admissible, Bool.and_eq_true, Bool.not_eq_true'] at ha
    rw [summ_snoc_nm _ _ (by simp), segSummary_snoc]
    simp only [bstep, hext, ha.1, ha.2]
    simp [RStmt.toAttr, RStmt.toMode, summ]
  | const t n =>
    simp only [admissible, Bool.and_eq_true, Bool.not_eq_true'] at ha
    rw [summ_snoc_nm _ _ (by simp), segSummary_snoc]
    simp only [bstep, hext, ha.1, ha.2]
    simp [RStmt.toAttr, RStmt.toMode, summ]
  | union =>
    simp only [admissible, Bool.and_eq_true, Bool.not_eq_true'] at ha
    rw [summ_snoc_nm _ _ (by simp), segSummary_snoc]
    simp only [bstep, hunion, hattrs, ha.1, ha.2]
    simp [RStmt.toAttr, RStmt.toMode, summ]
  | deprecated =>
    simp only [admissible, Bool.and_eq_true, Bool.not_eq_true'] at ha
    obtain ⟨⟨h0, h1⟩, h2⟩ := ha
    have hl : lastSeg pre = pre := not_marker_lastSeg_eq h1
    rw [summ_snoc_nm _ _ (by simp), segSummary_snoc]
    simp only [bstep, hdep, summ_done_isEmpty, hattrs, hl, h0, h1, h2]
    have hne : (RStmt.deprecated == RStmt.union) = false := by decide
    simp [RStmt.toAttr, RStmt.toMode, summ, hl, hne]
  | «sealed» =>
    simp only [admissible, Bool.not_eq_true'] at ha
    have hnone : (summ pre).cur.mode = none := by
      cases hq : (summ pre).cur.mode with
      | none => rfl
      | some m => rw [hq] at hmode; simp [ha] at hmode
    rw [summ_snoc_nm _ _ (by simp), segSummary_snoc]
    simp only [bstep, hnone]
    have : (segSummary (lastSeg pre)).mode = none := hnone
    simp [RStmt.toAttr, RStmt.toMode, summ, this]
  | extent e =>
    simp only [admissible, Bool.not_eq_true'] at ha
    have hnone : (summ pre).cur.mode = none := by
      cases hq : (summ pre).cur.mode with
      | none => rfl
      | some m => rw [hq] at hmode; simp [ha] at hmode
    rw [summ_snoc_nm _ _ (by simp), segSummary_snoc]
    simp only [bstep, hnone]
    have : (segSummary (lastSeg pre)).mode = none := hnone
    simp [RStmt.toAttr, RStmt.toMode, summ, this]
  | marker =>
    simp only [admissible, Bool.not_eq_true'] at ha
    have hl : lastSeg pre = pre := not_marker_lastSeg_eq ha
    rw [summ_snoc_marker _ ha]
    simp only [bstep, summ_done_isEmpty, ha]
    have hnm : ¬ RStmt.marker ∈ pre := by simpa using ha
    simp [summ, hnm, hl]

/-- … and a statement that is not admissible -/
theorem bstep_not_adm (pre : List RStmt) (st : RStmt) (hm : ModeUnique (lastSeg pre)) (ha : admissible pre st = false) :
    bstep (summ pre) st = none := by
  have hattrs : (summ pre).cur.attrs.isEmpty = !(lastSeg pre).any RStmt.isAttr := attrs_isEmpty _
  have hmode : (summ pre).cur.mode.isSome = (lastSeg pre).any RStmt.isMode := mode_isSome _
  have hext : isExtent (summ pre).cur.mode = (lastSeg pre).any RStmt.isExtentStmt := isExtent_mode hm
  have hunion : (summ pre).cur.union = (lastSeg pre).contains .union := rfl
  have hdep : (summ pre).deprecated = pre.contains .deprecated := rfl
  cases st with
  | field t n =>
    simp only [admissible] at ha
    simp only [bstep, hext]
    cases h1 : attrCtorOk (.field t n) <;> cases h2 : (lastSeg pre).any RStmt.isExtentStmt <;> simp_all
  | padding w =>
    simp only [admissible] at ha
    simp only [bstep, hext]
    cases h1 : attrCtorOk (.padding w) <;> cases h2 : (lastSeg pre).any RStmt.isExtentStmt <;> simp_all
  | const t n =>
    simp only [admissible] at ha
    simp only [bstep, hext]
    cases h1 : attrCtorOk (.const t n) <;> cases h2 : (lastSeg pre).any RStmt.isExtentStmt <;> simp_all
  | union =>
    simp only [admissible] at ha
    simp only [bstep, hunion, hattrs]
    cases h1 : (lastSeg pre).contains .union <;> cases h2 : (lastSeg pre).any RStmt.isAttr <;> simp_all
  | deprecated =>
    simp only [admissible] at ha
    simp only [bstep, hdep, summ_done_isEmpty, hattrs]
    cases h0 : pre.contains .deprecated
    · cases h1 : pre.contains .marker
      · have hl : lastSeg pre = pre := not_marker_lastSeg_eq h1
        rw [hl]
        cases h2 : pre.any RStmt.isAttr <;> simp_all
      · simp
    · simp
  | «sealed» =>
    simp only [admissible] at ha
    simp only [bstep, hmode]
    cases h1 : (lastSeg pre).any RStmt.isMode <;> simp_all
  | extent e =>
    simp only [admissible] at ha
    simp only [bstep, hmode]
    cases h1 : (lastSeg pre).any RStmt.isMode <;> simp_all
  | marker =>
    simp only [admissible] at ha
    simp only [bstep, summ_done_isEmpty]
    cases h1 : pre.contains .marker <;> simp_all

/-- the builder accepts exactly the statement lists in which every statement is admissible behind its predecessors,
    and then its state is what the statements say -/
theorem brun_iff (rest : List RStmt) : ∀ (pre : List RStmt) (b : BState), ModeUnique (lastSeg pre) →
    (brun (summ pre) rest = some b ↔ Admissible pre rest ∧ b = summ (pre ++ rest)) := by
  induction rest with
  | nil => intro pre b _; simp [brun, Admissible, eq_comm]
  | cons st rest ih =>
    intro pre b hm
    simp only [brun, Admissible]
    cases ha : admissible pre st with
    | false => rw [bstep_not_adm pre st hm ha]; simp
    | true =>
      rw [bstep_adm pre st hm ha]
      simp only [true_and]
      rw [ih (pre ++ [st]) b (ModeUnique_snoc hm ha)]
      simp

theorem brun_init_iff (stmts : List RStmt) (b : BState) :
    brun BState.init stmts = some b ↔ Admissible [] stmts ∧ b = summ stmts := by
  have h : BState.init = summ [] := by simp [BState.init, summ, segSummary, lastSeg, RSchema.empty]
  rw [h]
  have := brun_iff stmts [] b (by simp [ModeUnique, lastSeg])
  simpa using this

end Rules
