import Proofs.BlsSpec
/-! `Op.modulo d` computes exactly the residues of the denoted set, for every tree and every divisor `d ≥ 1`,
    and none of the `assert`s of the Python code can fire. -/
open scoped Pointwise
namespace Bls

theorem castd_toFinset_cwrSumsMod (s : List ℕ) (k d : ℕ) :
    castd d (cwrSumsMod s k d).toFinset = k • castd d s.toFinset := by
  have : (cwrSumsMod s k d).toFinset = (k • s.toFinset).image (· % d) := by
    unfold cwrSumsMod
    rw [toFinset_dedup, ← toFinset_cwr_sums]
    ext x; simp
  rw [this, castd_image_mod, castd_nsmul]

theorem castd_toFinset_rangeCwrSumsMod (s : List ℕ) (K d : ℕ) :
    castd d (rangeCwrSumsMod s K d).toFinset = (Finset.range (K + 1)).biUnion fun j => j • castd d s.toFinset := by
  have : (rangeCwrSumsMod s K d).toFinset = ((Finset.range (K + 1)).biUnion fun j => j • s.toFinset).image (· % d) := by
    unfold rangeCwrSumsMod
    rw [toFinset_dedup, ← toFinset_rangeCwr]
    ext x; simp; grind
  rw [this, castd_image_mod, castd_biUnion]
  simp only [castd_nsmul]

theorem castd_sum (d : ℕ) (l : List (Finset ℕ)) : castd d l.sum = (l.map (castd d)).sum := by
  induction l with
  | nil => simp [castd]; rfl
  | cons s l ih => simp [castd_add, ih]

theorem lt_of_mem_cwrSumsMod (s : List ℕ) (k d : ℕ) (hd : 0 < d) : ∀ x ∈ cwrSumsMod s k d, x < d := by
  intro x hx
  simp only [cwrSumsMod, mem_dedup, List.mem_map] at hx
  obtain ⟨_, _, rfl⟩ := hx
  exact Nat.mod_lt _ hd

theorem lt_of_mem_rangeCwrSumsMod (s : List ℕ) (k d : ℕ) (hd : 0 < d) : ∀ x ∈ rangeCwrSumsMod s k d, x < d := by
  intro x hx
  simp only [rangeCwrSumsMod, mem_dedup, List.mem_flatMap, List.mem_map] at hx
  obtain ⟨_, _, _, _, rfl⟩ := hx
  exact Nat.mod_lt _ hd

/-- Core statement: the image in `ZMod d` of the computed residues is the image of the denoted set, and
    all computed residues are `< d`. -/
theorem modulo_castd : ∀ (o : Op), o.wf = true → ∀ d : ℕ, 0 < d →
    castd d (o.modulo d).toFinset = castd d (den o) ∧ ∀ x ∈ o.modulo d, x < d := by
  intro o
  induction o using Op.induct with
  | leaf vs =>
    intro _ d hd
    refine ⟨?_, ?_⟩
    · have : (Op.modulo (.leaf vs) d).toFinset = vs.toFinset.image (· % d) := by
        simp only [Op.modulo, toFinset_dedup]; ext x; simp
      rw [this, castd_image_mod, den]
    · intro x hx
      simp only [Op.modulo, mem_dedup, List.mem_map] at hx
      obtain ⟨_, _, rfl⟩ := hx
      exact Nat.mod_lt _ hd
  | pad c a ih =>
    intro h d hd
    simp only [Op.wf, Bool.and_eq_true, decide_eq_true_eq] at h
    obtain ⟨hc, ha⟩ := h
    have hl : 0 < Nat.lcm a d := Nat.lcm_pos (by omega) hd
    have : NeZero (Nat.lcm a d) := ⟨by omega⟩
    obtain ⟨ih1, ih2⟩ := ih hc (Nat.lcm a d) hl
    have hres : (c.modulo (Nat.lcm a d)).toFinset = (den c).image (· % Nat.lcm a d) :=
      eq_image_mod_of_castd_eq _ _ _ (by simpa using ih2) ih1
    refine ⟨?_, ?_⟩
    · have : (Op.modulo (.pad c a) d).toFinset = ((den c).image (padTo a)).image (· % d) := by
        simp only [Op.modulo, toFinset_dedup]
        ext x
        simp only [List.mem_toFinset, List.mem_map, Finset.mem_image]
        constructor
        · rintro ⟨y, hy, rfl⟩
          have hy' : y ∈ (den c).image (· % Nat.lcm a d) := by rw [← hres]; simpa using hy
          obtain ⟨z, hz, rfl⟩ := Finset.mem_image.mp hy'
          exact ⟨padTo a z, ⟨z, hz, rfl⟩, (padTo_mod_lcm a d z ha).symm⟩
        · rintro ⟨_, ⟨z, hz, rfl⟩, rfl⟩
          refine ⟨z % Nat.lcm a d, ?_, padTo_mod_lcm a d z ha⟩
          have : z % Nat.lcm a d ∈ (c.modulo (Nat.lcm a d)).toFinset := by
            rw [hres]; exact Finset.mem_image_of_mem _ hz
          simpa using this
      rw [this, castd_image_mod, den]
    · intro x hx
      simp only [Op.modulo, mem_dedup, List.mem_map] at hx
      obtain ⟨_, _, rfl⟩ := hx
      exact Nat.mod_lt _ hd
  | cat cs ih =>
    intro h d hd
    simp only [Op.wf, Bool.and_eq_true, wfs_iff] at h
    refine ⟨?_, ?_⟩
    · have : (Op.modulo (.cat cs) d).toFinset = (((modulos cs d).map List.toFinset).sum).image (· % d) := by
        simp only [Op.modulo, toFinset_dedup]
        rw [← toFinset_product_sums]
        ext x; simp
      rw [this, castd_image_mod, den, denSum_eq, castd_sum, castd_sum, modulos_eq]
      congr 1
      simp only [List.map_map]
      apply List.map_congr_left
      intro c hc
      exact (ih c hc (h.2 c hc) d hd).1
    · intro x hx
      simp only [Op.modulo, mem_dedup, List.mem_map] at hx
      obtain ⟨_, _, rfl⟩ := hx
      exact Nat.mod_lt _ hd
  | rep c k ih =>
    intro h d hd
    simp only [Op.wf] at h
    have : NeZero d := ⟨by omega⟩
    refine ⟨?_, lt_of_mem_cwrSumsMod _ _ _ hd⟩
    simp only [Op.modulo, den]
    rw [castd_toFinset_cwrSumsMod, (ih h d hd).1, castd_nsmul]
    exact nsmul_equivK _ (by simpa [castd] using den_nonempty c h) k
  | rrep c k ih =>
    intro h d hd
    simp only [Op.wf] at h
    have : NeZero d := ⟨by omega⟩
    refine ⟨?_, lt_of_mem_rangeCwrSumsMod _ _ _ hd⟩
    simp only [Op.modulo, den]
    rw [castd_toFinset_rangeCwrSumsMod, (ih h d hd).1, castd_biUnion]
    simp only [castd_nsmul]
    exact biUnion_equivK _ k
  | uni cs ih =>
    intro h d hd
    simp only [Op.wf, Bool.and_eq_true, wfs_iff] at h
    refine ⟨?_, ?_⟩
    · ext y
      simp only [Op.modulo, toFinset_dedup, castd, den, Finset.mem_image, List.mem_toFinset, List.mem_flatten,
        modulos_eq, List.mem_map, mem_denUnion]
      constructor
      · rintro ⟨x, ⟨l, ⟨c, hc, rfl⟩, hx⟩, rfl⟩
        have : ((x : ℕ) : ZMod d) ∈ castd d (c.modulo d).toFinset :=
          Finset.mem_image.mpr ⟨x, by simpa using hx, rfl⟩
        rw [(ih c hc (h.2 c hc) d hd).1] at this
        obtain ⟨z, hz, hzx⟩ := Finset.mem_image.mp this
        exact ⟨z, ⟨c, hc, hz⟩, hzx⟩
      · rintro ⟨z, ⟨c, hc, hz⟩, rfl⟩
        have : ((z : ℕ) : ZMod d) ∈ castd d (den c) := Finset.mem_image.mpr ⟨z, hz, rfl⟩
        rw [← (ih c hc (h.2 c hc) d hd).1] at this
        obtain ⟨x, hx, hxz⟩ := Finset.mem_image.mp this
        exact ⟨x, ⟨c.modulo d, ⟨c, hc, rfl⟩, by simpa using hx⟩, hxz⟩
    · intro x hx
      simp only [Op.modulo, mem_dedup, List.mem_flatten, modulos_eq, List.mem_map] at hx
      obtain ⟨l, ⟨c, hc, rfl⟩, hx⟩ := hx
      exact (ih c hc (h.2 c hc) d hd).2 x hx

/-- `modulo d` is exactly the set of residues of the denoted set. -/
theorem modulo_exact (o : Op) (h : o.wf = true) (d : ℕ) (hd : 0 < d) :
    (o.modulo d).toFinset = (den o).image (· % d) := by
  have : NeZero d := ⟨by omega⟩
  obtain ⟨h1, h2⟩ := modulo_castd o h d hd
  exact eq_image_mod_of_castd_eq d _ _ (by simpa using h2) h1

theorem modulo_nodup (o : Op) (d : ℕ) : (o.modulo d).Nodup := by
  cases o <;> simp only [Op.modulo, cwrSumsMod, rangeCwrSumsMod] <;> exact nodup_dedup _

end Bls
