import Proofs.WireBasic
/-! The length set of a type, defined independently of the codec by recursion over the type (the same
    operators as the Specification's bit length set: concatenation with padding, repetition, ranged
    repetition, union, and "any whole number of bytes up to the extent" behind a delimiter header), and its
    basic properties: every length is a multiple of the alignment and at most `maxLen`. -/
namespace Wire

/-- `L` is a sum of `n` lengths drawn from `p` -/
def RepLen (p : Nat → Prop) : Nat → Nat → Prop
  | 0, L => L = 0
  | n+1, L => ∃ a b, p a ∧ RepLen p n b ∧ L = a + b

mutual
/-- `HasLen t L` : `L` is a possible bit length of a serialized representation of `t` -/
def HasLen : Ty → Nat → Prop
  | .bool, L => L = 1
  | .uint n _, L => L = n
  | .sint n _, L => L = n
  | .float n _, L => L = n
  | .byte, L => L = 8
  | .utf8, L => L = 8
  | .void n, L => L = n
  | .farr e cap, L => RepLen (fun a => HasLen e a) cap L
  | .varr e cap, L => ∃ k L', k ≤ cap ∧ RepLen (fun a => HasLen e a) k L' ∧ L = lenBits cap + L'
  | .struct fs m, L =>
      match m with
      | .sealed => ∃ L', FieldsLen fs 0 L' ∧ L = L' + padLen L' 8
      | .delimited x => ∃ k, 8 * k ≤ x ∧ L = headerBits + 8 * k
  | .union fs m, L =>
      match m with
      | .sealed => ∃ L', VariantLen fs L' ∧ L = tagBits fs.length + L' + padLen (tagBits fs.length + L') 8
      | .delimited x => ∃ k, 8 * k ≤ x ∧ L = headerBits + 8 * k
/-- a structure body that starts (relative to the structure) at `acc` can end at `L` -/
def FieldsLen : List Ty → Nat → Nat → Prop
  | [], acc, L => L = acc
  | t :: ts, acc, L => ∃ a, HasLen t a ∧ FieldsLen ts (acc + padLen acc t.align + a) L
def VariantLen : List Ty → Nat → Prop
  | [], _ => False
  | t :: ts, L => HasLen t L ∨ VariantLen ts L
end

theorem RepLen.mod {p : Nat → Prop} {a : Nat} (hp : ∀ x, p x → x % a = 0) :
    ∀ n L, RepLen p n L → L % a = 0
  | 0, L, h => by simp [RepLen] at h; simp [h]
  | n+1, L, h => by
      obtain ⟨x, y, hx, hy, rfl⟩ := h
      have h1 := hp x hx
      have h2 := RepLen.mod hp n y hy
      simp [Nat.add_mod, h1, h2]

theorem RepLen.le {p : Nat → Prop} {m : Nat} (hp : ∀ x, p x → x ≤ m) :
    ∀ n L, RepLen p n L → L ≤ n * m
  | 0, L, h => by simp [RepLen] at h; simp [h]
  | n+1, L, h => by
      obtain ⟨x, y, hx, hy, rfl⟩ := h
      have := hp x hx
      have := RepLen.le hp n y hy
      rw [Nat.succ_mul]; omega

theorem padLen8_mod (x : Nat) : (x + padLen x 8) % 8 = 0 := padLen_dvd x 8 (by omega)

theorem padLen_le (off a : Nat) (h : 0 < a) : padLen off a ≤ a - 1 := by
  have := padLen_lt off a h; omega

mutual
theorem hasLen_mod : ∀ (t : Ty) (L : Nat), t.wf = true → HasLen t L → L % t.align = 0
  | .bool, L, _, _ | .uint _ _, L, _, _ | .sint _ _, L, _, _ | .float _ _, L, _, _
  | .byte, L, _, _ | .utf8, L, _, _ | .void _, L, _, _ => by simp [Ty.align, Nat.mod_one]
  | .farr e cap, L, hw, h => by
      simp only [Ty.wf, Bool.and_eq_true] at hw
      simp only [HasLen] at h
      simp only [Ty.align]
      exact RepLen.mod (fun x hx => hasLen_mod e x hw.1.1.1 hx) cap L h
  | .varr e cap, L, hw, h => by
      simp only [Ty.wf, Bool.and_eq_true] at hw
      simp only [HasLen] at h
      obtain ⟨k, L', _, hr, rfl⟩ := h
      simp only [Ty.align]
      have h1 := RepLen.mod (fun x hx => hasLen_mod e x hw.1.1.1 hx) k L' hr
      have h2 := lenBits_mod8 cap
      rcases align_cases e with ha | ha <;> rw [ha] at h1 ⊢ <;> omega
  | .struct fs m, L, _, h => by
      simp only [Ty.align]
      cases m with
      | sealed =>
        simp only [HasLen] at h
        obtain ⟨L', _, rfl⟩ := h
        exact padLen8_mod L'
      | delimited x =>
        simp only [HasLen] at h
        obtain ⟨k, _, rfl⟩ := h
        simp [headerBits, Nat.add_mod]
  | .union fs m, L, _, h => by
      simp only [Ty.align]
      cases m with
      | sealed =>
        simp only [HasLen] at h
        obtain ⟨L', _, rfl⟩ := h
        exact padLen8_mod _
      | delimited x =>
        simp only [HasLen] at h
        obtain ⟨k, _, rfl⟩ := h
        simp [headerBits, Nat.add_mod]
end

theorem roundUp_mono (x y a : Nat) (ha : a = 1 ∨ a = 8) (h : x ≤ y) :
    x + padLen x a ≤ y + padLen y a := by
  rcases ha with rfl | rfl <;> simp only [padLen] <;> omega

mutual
theorem hasLen_le : ∀ (t : Ty) (L : Nat), HasLen t L → L ≤ t.maxLen
  | .bool, L, h | .uint _ _, L, h | .sint _ _, L, h | .float _ _, L, h
  | .byte, L, h | .utf8, L, h | .void _, L, h => by simp only [HasLen] at h; simp [Ty.maxLen, h]
  | .farr e cap, L, h => by
      simp only [HasLen] at h
      simp only [Ty.maxLen]
      exact RepLen.le (fun x hx => hasLen_le e x hx) cap L h
  | .varr e cap, L, h => by
      simp only [HasLen] at h
      obtain ⟨k, L', hk, hr, rfl⟩ := h
      simp only [Ty.maxLen]
      have h1 := RepLen.le (fun x hx => hasLen_le e x hx) k L' hr
      have h2 : k * e.maxLen ≤ cap * e.maxLen := Nat.mul_le_mul_right _ hk
      omega
  | .struct fs m, L, h => by
      cases m with
      | sealed =>
        simp only [HasLen] at h
        obtain ⟨L', hf, rfl⟩ := h
        simp only [Ty.maxLen]
        exact roundUp_mono _ _ 8 (Or.inr rfl) (fieldsLen_le fs 0 0 L' (Nat.le_refl _) hf)
      | delimited x =>
        simp only [HasLen] at h
        obtain ⟨k, hk, rfl⟩ := h
        simp only [Ty.maxLen]; omega
  | .union fs m, L, h => by
      cases m with
      | sealed =>
        simp only [HasLen] at h
        obtain ⟨L', hf, rfl⟩ := h
        simp only [Ty.maxLen]
        have := variantLen_le fs L' hf
        exact roundUp_mono _ _ 8 (Or.inr rfl) (by omega)
      | delimited x =>
        simp only [HasLen] at h
        obtain ⟨k, hk, rfl⟩ := h
        simp only [Ty.maxLen]; omega
theorem fieldsLen_le : ∀ (ts : List Ty) (acc acc' L : Nat), acc ≤ acc' → FieldsLen ts acc L →
    L ≤ maxFields ts acc'
  | [], acc, acc', L, ha, h => by simp only [FieldsLen] at h; simp [maxFields, h, ha]
  | t :: ts, acc, acc', L, ha, h => by
      simp only [FieldsLen] at h
      obtain ⟨a, h1, h2⟩ := h
      simp only [maxFields]
      have := hasLen_le t a h1
      have := roundUp_mono acc acc' t.align (align_cases t) ha
      exact fieldsLen_le ts _ _ L (by omega) h2
theorem variantLen_le : ∀ (ts : List Ty) (L : Nat), VariantLen ts L → L ≤ maxVariants ts
  | [], L, h => by simp [VariantLen] at h
  | t :: ts, L, h => by
      simp only [VariantLen] at h
      simp only [maxVariants]
      rcases h with h | h
      · exact Nat.le_trans (hasLen_le t L h) (Nat.le_max_left _ _)
      · exact Nat.le_trans (variantLen_le ts L h) (Nat.le_max_right _ _)
end

end Wire
