import Proofs.Reader
import Proofs.ReaderLoc
import Proofs.ReaderCommit
import Proofs.ReaderPrintErr
/-! Why an own error carries line `n` (C17.line_cause): either the visit of the statement on line `n` raises it, or line
    `n` holds an attribute statement that was queued successfully and whose commit failed later.  The converse of
    `readText_commit_fault`. -/
namespace Reader

theorem commitAttr_err_reason {c k s a bad doc e w'} (h : commitAttr c k s a bad doc = .error (e, w')) :
    bad = true ∨ (a.core.kind ≠ .const ∧ s.cur.union = true) := by
  unfold commitAttr at h
  by_cases hb : bad = true
  · exact Or.inl hb
  · rw [if_neg hb] at h
    right
    cases hk : a.core.kind <;> simp only [hk] at h
    · by_cases hu : (s.cur.union && s.cur.offsetUsed) = true
      · simp only [Bool.and_eq_true] at hu; exact ⟨by simp, hu.1⟩
      · rw [if_neg hu] at h; cases h
    · by_cases hu : (s.cur.union && s.cur.offsetUsed) = true
      · simp only [Bool.and_eq_true] at hu; exact ⟨by simp, hu.1⟩
      · rw [if_neg hu] at h; cases h
    · cases h

/-- an error of `flush`: the queued attribute's constructor raises, or it is a field/padding of a union -/
theorem flush_err_reason {c k s e w'} (h : flush c k s = .error (e, w')) :
    ∃ a b, s.pending = some (a, b) ∧ (b = true ∨ (a.core.kind ≠ .const ∧ s.cur.union = true)) ∧ w' = s.w := by
  have hw := errw_flush e w' h
  unfold flush at h
  split at h
  · cases h
  · rw [map_err] at h
    unfold flushAttr at h
    cases hp : s.pending with
    | none => simp [hp] at h
    | some p =>
      obtain ⟨a, b⟩ := p
      simp only [hp] at h
      exact ⟨a, b, rfl, commitAttr_err_reason h, hw⟩

theorem markOffs_union (l : Line) (s : St) : (markOffs l s).cur.union = s.cur.union := by
  unfold markOffs; split <;> rfl

/-- whatever leaves the visit of a statement on line `k`: an own error with line `k`, the untouched error of a referenced
    definition, or the error of the first flush (before anything else of the statement has happened) -/
theorem visitStmt_err_cases {c k l st s e w'} (hi : s.pending.isSome → s.header = false)
    (h : visitStmt c k l st s = .error (e, w')) :
    e = ⟨c.self, some k⟩ ∨ DepErr c l e ∨ flush c k s = .error (e, w') ∨ flush c k (markOffs l s) = .error (e, w') := by
  unfold visitStmt at h
  rw [bind_err] at h
  rcases h with h | ⟨s3, h3, h⟩
  · unfold visitChildren at h
    split at h
    · left; exact own_raise e w' h
    · rw [bind_err] at h
      rcases h with h | ⟨s1, _, h⟩
      · split at h
        · right; right; left; exact h
        · cases h
      · rw [bind_err] at h
        rcases h with h | ⟨s2, _, h⟩
        · left; exact own_resolveRefs e w' h
        · rw [bind_err] at h
          rcases h with h | ⟨s3', _, h⟩
          · rcases readDeps_err l.deps (fun _ hx => hx) h with h | h
            · left; exact h
            · right; left; exact h
          · split at h
            · left; exact own_raise e w' h
            · cases h
  · unfold emitStmt at h
    rw [bind_err] at h
    rcases h with h | ⟨s4, _, h⟩
    · unfold visitChildren at h3
      split at h3
      · simp [raise] at h3
      · simp only [bind_ok] at h3
        obtain ⟨s1, hs1, s2, hs2, s3', hs3', h3⟩ := h3
        split at h3
        · simp [raise] at h3
        · cases h3
          have e2 := resolveRefs_ok hs2; subst e2
          by_cases hc : (st.hasIdent || !l.refs.isEmpty || !l.deps.isEmpty) = true
          · exfalso
            rw [if_pos hc] at hs1
            obtain ⟨w3, e3⟩ := readDeps_ok hs3'
            have hp1 := (flush_ok hs1 hi).1
            obtain ⟨hp, _⟩ := flush_err h
            rw [e3] at hp
            simp [markOffs_pending, hp1] at hp
          · rw [if_neg hc] at hs1
            cases hs1
            simp only [Bool.or_eq_true, Bool.not_eq_true', not_or, Bool.not_eq_true] at hc
            have hd' : l.deps = [] := by simpa using hc.2
            rw [hd'] at hs3'
            simp [readDeps] at hs3'
            subst hs3'
            right; right; right; exact h
    · split at h
      · left; exact own_raise e w' h
      · left
        cases st with
        | attr core => exact own_onAttr e w' h
        | directive name ev text => exact own_onDirective e w' h
        | marker => exact own_onMarker e w' h

/-! ### where the queued attribute comes from -/

/-- the queued attribute is the attribute of a line `l` of the visited part whose statement was visited successfully;
    only statement-less lines have been visited since -/
def Queued (c : Ctx) (w : W) (done : List Line) (s : St) : Prop :=
  ∀ a b, s.pending = some (a, b) →
    ∃ pre l gap core s0 s1, done = pre ++ l :: gap ∧ a.line = lineAfter 1 pre ∧ l.stmt = some (.attr core) ∧
      runLines c 1 (St.init w) pre = .ok s0 ∧ visitStmt c (lineAfter 1 pre) l (.attr core) s0 = .ok s1 ∧
      (∀ x ∈ gap, x.stmt = none) ∧ a.core = core ∧ b = (l.fault == some .commit) ∧
      s.cur.union = s1.cur.union ∧ s.w = s1.w

/-- why the own error of a read carries line `n`, and with which world it leaves -/
def LineCause (c : Ctx) (w : W) (ls : List Line) (n : Nat) (w' : W) : Prop :=
  ∃ pre l post s0, ls = pre ++ l :: post ∧ n = lineAfter 1 pre ∧ runLines c 1 (St.init w) pre = .ok s0 ∧
    ((∃ st, l.stmt = some st ∧ visitStmt c n l st s0 = .error (⟨c.self, some n⟩, w')) ∨
     (∃ core s1, l.stmt = some (.attr core) ∧ visitStmt c n l (.attr core) s0 = .ok s1 ∧ w' = s1.w ∧
        (l.fault = some .commit ∨ (core.kind ≠ .const ∧ s1.cur.union = true))))

theorem lineAfter_append_one (k : Nat) (ls : List Line) (l : Line) : lineAfter k (ls ++ [l]) = l.next (lineAfter k ls) := by
  simp [lineAfter, List.foldl_append]

theorem addLineComment_cur (l : Line) (s : St) : (addLineComment l s).cur = s.cur := by
  unfold addLineComment; cases l.comment <;> rfl

/-- a failed commit of the queued attribute, read against its origin -/
theorem Queued.cause {c w done s post a b w'} (hq : Queued c w done s) (hp : s.pending = some (a, b))
    (hr : b = true ∨ (a.core.kind ≠ .const ∧ s.cur.union = true)) (hw : w' = s.w) :
    LineCause c w (done ++ post) a.line w' := by
  obtain ⟨pre, l, gap, core, s0, s1, hd, hl, hs, hrun, hvis, _, hc, hb, hu, hww⟩ := hq a b hp
  refine ⟨pre, l, gap ++ post, s0, by rw [hd]; simp, hl, hrun, Or.inr ⟨core, s1, hs, by rw [hl]; exact hvis, by rw [hw, hww], ?_⟩⟩
  rcases hr with hr | ⟨hk, hun⟩
  · left
    rw [hr] at hb
    simpa using hb.symm
  · right
    exact ⟨by rw [← hc]; exact hk, by rw [← hu]; exact hun⟩

theorem Queued.linv {c w done s} (hrun : runLines c 1 (St.init w) done = .ok s) :
    LInv (fun n => False ∨ n ∈ culpritLineNos 1 done) s :=
  runLines_linv done _ 1 _ _ (by omega) (LInv_init w) hrun

theorem Queued.step {c w done s l s1} (hrun : runLines c 1 (St.init w) done = .ok s) (hq : Queued c w done s)
    (h : stepLine c (lineAfter 1 done) s l = .ok s1) : Queued c w (done ++ [l]) s1 := by
  intro a b hp
  have hk : 0 < lineAfter 1 done := lineAfter_pos done 1 (by omega)
  have hl := Queued.linv hrun
  rcases stepLine_pending hk hl h hp with ⟨⟨core, hs⟩, q⟩ | ⟨hs, q⟩
  · -- the attribute of this very line
    unfold stepLine at h
    rw [bind_ok] at h
    obtain ⟨s1', h1, h⟩ := h
    simp only [hs] at h1
    have hl1 := stepLine_mid_linv (l := l) hk hl (s1 := s1') (by simp only [hs]; exact h1)
    have hs1 : s1 = addLineComment l s1' := by
      split at h
      · have := (flush_last h hl1.1).2.1
        rw [this] at hp; cases hp
      · cases h; rfl
    obtain ⟨_, _, q3⟩ := visitStmt_attr_queued hl.1 h1
    rw [hs1, addLineComment_pending, q3] at hp
    simp at hp
    obtain ⟨ha, hb⟩ := hp
    refine ⟨done, l, [], core, s, s1', rfl, q, hs, hrun, h1, by simp, by rw [← ha], hb.symm, ?_, ?_⟩
    · rw [hs1, addLineComment_cur]
    · rw [hs1, addLineComment_w]
  · -- queued before; this line holds no statement
    obtain ⟨pre, l0, gap, core, s0, s1r, hd, hla, hs0, hrun0, hvis, hg, hc, hb, hu, hww⟩ := hq a b q
    unfold stepLine at h
    simp only [hs, bind, Except.bind] at h
    have hs1 : s1 = addLineComment l s := by
      split at h
      · have hi : (addLineComment l s).pending.isSome → (addLineComment l s).header = false := by
          have := hl.1
          unfold addLineComment; cases l.comment <;> exact this
        have := (flush_last h hi).2.1
        rw [this] at hp; cases hp
      · cases h; rfl
    refine ⟨pre, l0, gap ++ [l], core, s0, s1r, by rw [hd]; simp, hla, hs0, hrun0, hvis, ?_, hc, hb, ?_, ?_⟩
    · intro x hx
      rcases List.mem_append.mp hx with hx | hx
      · exact hg x hx
      · simp at hx; rw [hx]; exact hs
    · rw [hs1, addLineComment_cur]; exact hu
    · rw [hs1, addLineComment_w]; exact hww

theorem runLines_snoc {c w done s l s1} (hrun : runLines c 1 (St.init w) done = .ok s)
    (h : stepLine c (lineAfter 1 done) s l = .ok s1) : runLines c 1 (St.init w) (done ++ [l]) = .ok s1 := by
  rw [runLines_append, hrun]
  simp only [bind, Except.bind, runLines, h]

theorem Queued.run {c w} (ls : List Line) : ∀ done s s', runLines c 1 (St.init w) done = .ok s → Queued c w done s →
    runLines c (lineAfter 1 done) s ls = .ok s' → Queued c w (done ++ ls) s' := by
  induction ls with
  | nil => intro done s s' _ hq h; simp [runLines] at h; subst h; simpa using hq
  | cons l ls ih =>
    intro done s s' hrun hq h
    simp only [runLines, bind_ok] at h
    obtain ⟨s1, h1, h2⟩ := h
    have := ih (done ++ [l]) s1 s' (runLines_snoc hrun h1) (hq.step hrun h1) (by rw [lineAfter_append_one]; exact h2)
    simpa using this

theorem Queued.init (c : Ctx) (w : W) : Queued c w [] (St.init w) := by
  intro a b hp; simp [St.init] at hp

/-- the error of one line, read against the origin of the queued attribute -/
theorem stepLine_cause {c w done s l post e w'} (hrun : runLines c 1 (St.init w) done = .ok s) (hq : Queued c w done s)
    (h : stepLine c (lineAfter 1 done) s l = .error (e, w')) :
    DepErr c l e ∨ ∃ n, e = ⟨c.self, some n⟩ ∧ LineCause c w (done ++ l :: post) n w' := by
  have hk : 0 < lineAfter 1 done := lineAfter_pos done 1 (by omega)
  have hl := Queued.linv hrun
  -- a failed first flush of the statement, or of the line end, on a state that still holds what `s` held
  have key : ∀ t : St, t.pending = s.pending → t.cur.union = s.cur.union → t.w = s.w → t.header = s.header →
      t.lastAttrLine = s.lastAttrLine → flush c (lineAfter 1 done) t = .error (e, w') →
      ∃ n, e = ⟨c.self, some n⟩ ∧ LineCause c w (done ++ l :: post) n w' := by
    intro t tp tu tw th tl hf
    have hlt : LInv (fun n => False ∨ n ∈ culpritLineNos 1 done) t :=
      ⟨by rw [tp, th]; exact hl.1, by rw [tp, tl]; exact hl.2.1, by rw [tl]; exact hl.2.2⟩
    obtain ⟨a, b, hp, hr, hw⟩ := flush_err_reason hf
    obtain ⟨a', b', hp', he⟩ := flush_err_attr hlt hf
    rw [hp] at hp'; cases hp'
    rw [tp] at hp
    rw [tu] at hr
    rw [tw] at hw
    exact ⟨a.line, he, hq.cause hp hr hw⟩
  unfold stepLine at h
  rw [bind_err] at h
  rcases h with h | ⟨s1, h1, h⟩
  · cases hs : l.stmt with
    | none => simp [hs] at h
    | some st =>
      simp only [hs] at h
      rcases visitStmt_err_cases hl.1 h with he | hdep | hf | hf
      · right
        refine ⟨_, he, done, l, post, s, rfl, rfl, hrun, Or.inl ⟨st, hs, ?_⟩⟩
        rw [he] at h; exact h
      · left; exact hdep
      · right; exact key s rfl rfl rfl rfl rfl hf
      · right
        have m1 : (markOffs l s).header = s.header := by unfold markOffs; split <;> rfl
        exact key _ (markOffs_pending l s) (markOffs_union l s) (markOffs_w l s) m1 (markOffs_lastAttrLine l s) hf
  · right
    split at h
    · cases hs : l.stmt with
      | none =>
        simp [hs] at h1; subst h1
        have m1 : (addLineComment l s).header = s.header := by unfold addLineComment; cases l.comment <;> rfl
        have m2 : (addLineComment l s).lastAttrLine = s.lastAttrLine := by unfold addLineComment; cases l.comment <;> rfl
        exact key _ (addLineComment_pending l s) (by rw [addLineComment_cur]) (addLineComment_w l s) m1 m2 h
      | some st =>
        simp only [hs] at h1
        have hl1 := stepLine_mid_linv (l := l) hk hl (s1 := s1) (by simp only [hs]; exact h1)
        obtain ⟨a, b, hp, hr, hw⟩ := flush_err_reason h
        obtain ⟨a', b', hp', he⟩ := flush_err_attr hl1 h
        rw [hp] at hp'; cases hp'
        rw [addLineComment_pending] at hp
        rw [addLineComment_cur] at hr
        rw [addLineComment_w] at hw
        obtain ⟨⟨core, rfl⟩, q⟩ := visitStmt_pending hl.1 h1 hp
        obtain ⟨_, _, q3⟩ := visitStmt_attr_queued hl.1 h1
        rw [q3] at hp
        simp at hp
        obtain ⟨ha, hb⟩ := hp
        refine ⟨a.line, he, done, l, post, s, rfl, q, hrun, Or.inr ⟨core, s1, hs, by rw [q]; exact h1, hw, ?_⟩⟩
        rcases hr with hr | ⟨hkk, hun⟩
        · left; rw [hr] at hb; simpa using hb
        · right; exact ⟨by rw [← ha] at hkk; exact hkk, hun⟩
    · cases h

theorem runLines_cause {c w} (ls : List Line) : ∀ done s e w', runLines c 1 (St.init w) done = .ok s → Queued c w done s →
    runLines c (lineAfter 1 done) s ls = .error (e, w') →
    (∃ l ∈ ls, DepErr c l e) ∨ ∃ n, e = ⟨c.self, some n⟩ ∧ LineCause c w (done ++ ls) n w' := by
  induction ls with
  | nil => intro done s e w' _ _ h; simp [runLines] at h
  | cons l ls ih =>
    intro done s e w' hrun hq h
    simp only [runLines] at h
    rw [bind_err] at h
    rcases h with h | ⟨s1, h1, h⟩
    · rcases stepLine_cause (post := ls) hrun hq h with hd | hc
      · left; exact ⟨l, List.mem_cons_self .., hd⟩
      · right; exact hc
    · rcases ih (done ++ [l]) s1 e w' (runLines_snoc hrun h1) (hq.step hrun h1)
        (by rw [lineAfter_append_one]; exact h) with ⟨l', hm, hd⟩ | hc
      · left; exact ⟨l', List.mem_cons_of_mem _ hm, hd⟩
      · right; simpa using hc

/-- END TO END: a failed read of a text that matches the grammar reports the untouched error of a referenced definition,
    or the own path without a line (finalize), or the own path with a line `n` such that
      * the visit of the statement on line `n` (in the state the lines in front of it leave) raises exactly this error, or
      * line `n` holds an attribute statement that was queued successfully and whose commit failed: its constructor
        raises (`commit` fault), or it is a field/padding of a union. -/
theorem readText_line_cause {c ls w e w'} (hsyn : firstSyntaxError 1 ls = none) (h : readText c ls w = .error (e, w')) :
    (∃ l ∈ ls, DepErr c l e) ∨ e = ⟨c.self, none⟩ ∨ ∃ n, e = ⟨c.self, some n⟩ ∧ LineCause c w ls n w' := by
  unfold readText at h
  rw [hsyn] at h
  simp only at h
  rw [bind_err] at h
  rcases h with h | ⟨s, hs, h⟩
  · rcases runLines_cause ls [] _ e w' rfl (Queued.init c w) h with hd | hc
    · left; exact hd
    · right; right; simpa using hc
  · rw [bind_err] at h
    rcases h with h | ⟨s', hf, h⟩
    · right; right
      have hq : Queued c w ls s := by
        have := Queued.run (c := c) (w := w) ls [] _ s rfl (Queued.init c w) hs
        simpa using this
      have hl := Queued.linv hs
      obtain ⟨a, b, hp, hr, hw⟩ := flush_err_reason h
      obtain ⟨a', b', hp', he⟩ := flush_err_attr hl h
      rw [hp] at hp'; cases hp'
      have := hq.cause (post := []) hp hr hw
      exact ⟨a.line, he, by simpa using this⟩
    · right; left
      rw [map_err] at h
      simp only [finalize] at h
      split at h
      · simp [raise] at h; exact h.1.symm
      · cases h

end Reader
