import Proofs.NamespaceRead
import Proofs.NamespaceC10
import Proofs.NamespaceC11
/-! Lemmas for C10: the direct / transitive book-keeping of `_read_definitions` (`level0`, `level1`), under the
    hypothesis that (name, version) identifies a definition file (the excluded point is finding F9). -/
namespace Ns

/-- the lookup-list twin of a definition object -/
def untgt (d : Def) : Def := { d with tgt := false }

theorem untgt_key (d : Def) : (untgt d).key = d.key := rfl
theorem untgt_path (d : Def) : (untgt d).path = d.path := rfl

/-- the definition objects of one call: the lookup list and the targets -/
def Univ (L ts : List Def) (x : Def) : Prop := x ∈ L ∨ x ∈ ts

/-- the path determines (name, version) -/
structure HypP (L ts : List Def) : Prop where
  pathKey : ∀ x y, Univ L ts x → Univ L ts y → x.path = y.path → x.key = y.key

def KeyUniq (L ts : List Def) : Prop := ∀ x y, Univ L ts x → Univ L ts y → x.key = y.key → untgt x = untgt y

/-- ... and (name, version) identifies a definition (up to the target flag) -/
structure Hyp (L ts : List Def) : Prop extends HypP L ts where
  keyUniq : KeyUniq L ts

/-- a key occurs among the keys of a list of types -/
def KeyIn (l : List Ty) (k : Key) : Prop := ∃ ty ∈ l, ty.key = k

theorem KeyIn.mono {l l' : List Ty} {k : Key} (h : KeyIn l k) (hs : ∀ ty ∈ l, ty ∈ l' ∨ KeyIn l' ty.key) : KeyIn l' k := by
  obtain ⟨ty, hty, rfl⟩ := h
  rcases hs ty hty with h | h
  · exact ⟨ty, h, rfl⟩
  · exact h

theorem keyIn_iff {l : List Ty} {k : Key} : KeyIn l k ↔ k ∈ l.map Ty.key := by
  simp [KeyIn, List.mem_map]

/-! ### small facts about the list operations -/

theorem lookup_isSome_of_mem {α β : Type} [BEq α] [LawfulBEq α] {l : List (α × β)} {a : α} {b : β} (h : (a, b) ∈ l) :
    ∃ b', l.lookup a = some b' := by
  induction l with
  | nil => cases h
  | cons p r ih =>
    obtain ⟨a', b''⟩ := p
    simp only [List.lookup]
    split
    · exact ⟨_, rfl⟩
    · rename_i hne
      rcases List.mem_cons.mp h with e | h
      · cases e; simp at hne
      · exact ih h

theorem setDefault_cases {pool pool' : List (Path × Def)} {d d' : Def} (h : setDefault pool d = (d', pool')) :
    (pool.lookup d.path = some d' ∧ pool' = pool) ∨ (pool.lookup d.path = none ∧ d' = d ∧ pool' = (d.path, d) :: pool) := by
  unfold setDefault at h
  split at h
  · rename_i o ho; cases h; exact Or.inl ⟨ho, rfl⟩
  · rename_i ho; cases h; exact Or.inr ⟨ho, rfl, rfl⟩

theorem lookup_cons_path (p q : Path) (d : Def) (pool : List (Path × Def)) :
    List.lookup q ((p, d) :: pool) = if q = p then some d else pool.lookup q := by
  simp only [List.lookup]
  by_cases h : q = p
  · simp [h]
  · have : (q == p) = false := by simpa using h
    simp [this, h]

theorem addTy_of_not_mem {l : List Ty} {t : Ty} (h : t ∉ l) : addTy l t = l ++ [t] := by
  unfold addTy
  simp [h]

theorem mem_removeTy {l : List Ty} {t x : Ty} : x ∈ removeTy l t ↔ x ∈ l ∧ x ≠ t := by
  unfold removeTy
  simp [List.mem_filter]

theorem dedupKeys_key {l : List Def} {x : Def} (h : x ∈ l) : ∃ p ∈ dedupKeys l, p.key = x.key := by
  induction l with
  | nil => cases h
  | cons a r ih =>
    simp only [dedupKeys]
    rcases List.mem_cons.mp h with rfl | h
    · exact ⟨x, by simp, rfl⟩
    · obtain ⟨p, hp, hk⟩ := ih h
      by_cases e : p.key = a.key
      · exact ⟨a, by simp, by rw [← e, hk]⟩
      · exact ⟨p, by simp [List.mem_filter, hp, e], hk⟩

theorem mem_dedupKeys' {l : List Def} {x : Def} (h : x ∈ dedupKeys l) : x ∈ l := by
  induction l with
  | nil => simp [dedupKeys] at h
  | cons a r ih =>
    simp only [dedupKeys, List.mem_cons, List.mem_filter] at h
    rcases h with h | h
    · exact List.mem_cons.mpr (Or.inl h)
    · exact List.mem_cons_of_mem _ (ih h.1)

theorem mem_sortDefs' {l : List Def} {x : Def} : x ∈ sortDefs l ↔ x ∈ l := by
  unfold sortDefs; exact List.mem_mergeSort

theorem mem_sortTys {l : List Ty} {x : Ty} : x ∈ sortTys l ↔ x ∈ l := by
  unfold sortTys; exact List.mem_mergeSort

section Book
variable (au : Bool) (L ts : List Def)

/-- a type that is the stand-alone type of some definition object of the call -/
def Good (ty : Ty) : Prop := ∃ x, Univ L ts x ∧ Den au L ty x

variable {au L ts}

/-- under `Hyp` the types of one call are determined by their keys -/
theorem tyUniq (H : Hyp L ts) {t1 t2 : Ty} (h1 : Good au L ts t1) (h2 : Good au L ts t2) (hk : t1.key = t2.key) : t1 = t2 := by
  obtain ⟨x1, u1, d1⟩ := h1
  obtain ⟨x2, u2, d2⟩ := h2
  have hx : x1.key = x2.key := by rw [← d1.key, ← d2.key, hk]
  have := H.keyUniq x1 x2 u1 u2 hx
  have e1 : Den au L t1 (untgt x1) := d1.retgt false
  have e2 : Den au L t2 (untgt x2) := d2.retgt false
  rw [this] at e1
  exact Den.unique e1 e2

variable (au L ts)

def PoolOk (pool : List (Path × Def)) (cache : List (Def × Ty)) (tys : List Ty) : Prop :=
  ∀ p o, pool.lookup p = some o → o.path = p ∧ Univ L ts o ∧ (∃ t, (o, t) ∈ cache) ∧ KeyIn tys o.key

/-- what `level1` preserves -/
structure LInv (b : Book) : Prop where
  cache : CacheOk (DenR au L) b.st
  tys : ∀ ty ∈ b.direct ++ b.transitive, ∃ x, Univ L ts x ∧ (x, ty) ∈ b.st.cache
  pool : PoolOk L ts b.pool b.st.cache (b.direct ++ b.transitive)

variable {au L ts}

theorem LInv.good {b : Book} (h : LInv au L ts b) {ty : Ty} (hty : ty ∈ b.direct ++ b.transitive) : Good au L ts ty := by
  obtain ⟨x, hu, hc⟩ := h.tys ty hty
  exact ⟨x, hu, h.cache x ty hc⟩

theorem PoolOk.mono {pool : List (Path × Def)} {c c' : List (Def × Ty)} {tys tys' : List Ty} (h : PoolOk L ts pool c tys)
    (hc : ∀ p ∈ c, p ∈ c') (hk : ∀ k, KeyIn tys k → KeyIn tys' k) : PoolOk L ts pool c' tys' := by
  intro p o hl
  obtain ⟨h1, h2, ⟨t, h3⟩, h4⟩ := h p o hl
  exact ⟨h1, h2, ⟨t, hc _ h3⟩, hk _ h4⟩

theorem PoolOk.cons {pool : List (Path × Def)} {c : List (Def × Ty)} {tys : List Ty} (h : PoolOk L ts pool c tys) {d : Def}
    (hu : Univ L ts d) (hc : ∃ t, (d, t) ∈ c) (hk : KeyIn tys d.key) : PoolOk L ts ((d.path, d) :: pool) c tys := by
  intro p o hl
  rw [lookup_cons_path] at hl
  split at hl
  · rename_i e
    cases hl
    exact ⟨e.symm, hu, hc, hk⟩
  · exact h p o hl

/-- the pool step of both levels -/
theorem setDefault_spec (H : HypP L ts) {pool pool' : List (Path × Def)} {c : List (Def × Ty)} {tys : List Ty} {d d' : Def}
    (hp : PoolOk L ts pool c tys) (hu : Univ L ts d) (h : setDefault pool d = (d', pool')) :
    d'.key = d.key ∧ d'.path = d.path ∧ Univ L ts d' ∧ pool'.lookup d.path = some d' ∧
      (∀ q, (pool.lookup q).isSome → (pool'.lookup q).isSome) ∧
      (d' = d ∨ ((∃ t, (d', t) ∈ c) ∧ KeyIn tys d'.key)) ∧
      (∀ c' tys', (∀ p ∈ c, p ∈ c') → (∀ k, KeyIn tys k → KeyIn tys' k) → (∃ t, (d', t) ∈ c') → KeyIn tys' d'.key →
        PoolOk L ts pool' c' tys') := by
  rcases setDefault_cases h with ⟨hl, rfl⟩ | ⟨hl, rfl, rfl⟩
  · obtain ⟨h1, h2, h3, h4⟩ := hp _ _ hl
    refine ⟨H.pathKey _ _ h2 hu h1, h1, h2, hl, fun q hq => hq, Or.inr ⟨h3, h4⟩, ?_⟩
    intro c' tys' hc hk _ _
    exact hp.mono hc hk
  · refine ⟨rfl, rfl, hu, by rw [lookup_cons_path]; simp, ?_, Or.inl rfl, ?_⟩
    · intro q hq
      rw [lookup_cons_path]
      split
      · rfl
      · exact hq
    · intro c' tys' hc hk hcd hkd
      exact (hp.mono hc hk).cons hu hcd hkd

theorem lookup_ne_none_of_mem {c : List (Def × Ty)} {d : Def} (h : ∃ t, (d, t) ∈ c) : c.lookup d ≠ none := by
  obtain ⟨t, ht⟩ := h
  obtain ⟨t', ht'⟩ := lookup_isSome_of_mem ht
  rw [ht']; simp

theorem level1_spec (H : HypP L ts) (pend : List Def) (b : Book) (hinv : LInv au L ts b)
    (hp : ∀ p ∈ pend, p ∈ L ∧ ∃ t, (p, t) ∈ b.st.cache)
    (b' : Book) (s : St) (hrun : level1 au L pend b = (.ok b', s)) :
    LInv au L ts b' ∧ b'.st = b.st ∧ b'.direct = b.direct ∧ (∀ ty ∈ b.transitive, ty ∈ b'.transitive) ∧
      (∀ p ∈ pend, KeyIn (b'.direct ++ b'.transitive) p.key) ∧
      (∀ q, (b.pool.lookup q).isSome → (b'.pool.lookup q).isSome) ∧
      (∀ roots, KeyUniq L ts → (∀ p ∈ pend, ∀ t, (p, t) ∈ b.st.cache → NestReach roots t) →
        (∀ ty ∈ b.transitive, NestReach roots ty) → ∀ ty ∈ b'.transitive, NestReach roots ty) := by
  induction pend, b using level1.induct au L generalizing b' s with
  | case1 b =>
    rw [level1] at hrun
    cases hrun
    refine ⟨hinv, rfl, rfl, ?_, ?_, ?_, ?_⟩
    · exact fun _ h => h
    · intro p hp; cases hp
    · exact fun _ h => h
    · exact fun _ _ _ h => h
  | case2 p rest b p' pool hsd b1 t hl hc ih =>
    obtain ⟨hpL, hpc⟩ := hp p (by simp)
    obtain ⟨hk', hpath', hu', hlk', hmono', hcase', hpool'⟩ := setDefault_spec H hinv.pool (Or.inl hpL) hsd
    rw [level1] at hrun
    simp only [hsd] at hrun
    simp only [b1] at hl hc ih
    simp only [hl, hc, if_true] at hrun
    have hmem := lookup_mem hl
    have htk : t.key = p.key := by rw [(hinv.cache _ _ hmem).key, hk']
    have hin : KeyIn (b.direct ++ b.transitive) p.key := by
      refine ⟨t, ?_, htk⟩
      simp only [Bool.or_eq_true, List.contains_iff_mem] at hc
      exact List.mem_append.mpr hc
    have hinv1 : LInv au L ts { b with pool := pool } :=
      ⟨hinv.cache, hinv.tys, hpool' _ _ (fun _ h => h) (fun _ h => h) ⟨t, hmem⟩ (by rw [hk']; exact hin)⟩
    obtain ⟨r1, r2, r3, r4, r5, r6, r7⟩ := ih hinv1 (fun q hq => hp q (by simp [hq])) b' s hrun
    refine ⟨r1, r2, r3, r4, ?_, fun q hq => r6 q (hmono' q hq),
      fun roots hku hpr htr => r7 roots hku (fun q hq => hpr q (List.mem_cons_of_mem _ hq)) htr⟩
    intro q hq
    rcases List.mem_cons.mp hq with rfl | hq
    · obtain ⟨ty, hty, hkk⟩ := hin
      refine ⟨ty, ?_, hkk⟩
      rcases List.mem_append.mp hty with h | h
      · exact List.mem_append_left _ (by rw [r3]; exact h)
      · exact List.mem_append_right _ (r4 ty h)
    · exact r5 q hq
  | case3 p rest b p' pool hsd b1 t hl hc ih =>
    obtain ⟨hpL, hpc⟩ := hp p (by simp)
    obtain ⟨hk', hpath', hu', hlk', hmono', hcase', hpool'⟩ := setDefault_spec H hinv.pool (Or.inl hpL) hsd
    rw [level1] at hrun
    simp only [hsd] at hrun
    simp only [b1] at hl hc ih
    simp only [hl, hc] at hrun
    have hmem := lookup_mem hl
    have htk : t.key = p.key := by rw [(hinv.cache _ _ hmem).key, hk']
    have hnt : t ∉ b.transitive := by
      simp only [Bool.or_eq_true, List.contains_iff_mem, not_or] at hc
      exact hc.2
    have hadd : addTy b.transitive t = b.transitive ++ [t] := addTy_of_not_mem hnt
    have hinv1 : LInv au L ts { b with pool := pool, transitive := addTy b.transitive t } := by
      rw [hadd]
      refine ⟨hinv.cache, ?_, ?_⟩
      · intro ty hty
        simp only [← List.append_assoc, List.mem_append, List.mem_singleton] at hty
        rcases hty with hty | rfl
        · exact hinv.tys ty (List.mem_append.mpr hty)
        · exact ⟨p', hu', hmem⟩
      · apply hpool' _ _ (fun _ h => h)
        · intro k hk
          obtain ⟨ty, hty, e⟩ := hk
          exact ⟨ty, by simp only [← List.append_assoc]; exact List.mem_append_left _ hty, e⟩
        · exact ⟨t, hmem⟩
        · exact ⟨t, by simp, by rw [htk, hk']⟩
    obtain ⟨r1, r2, r3, r4, r5, r6, r7⟩ := ih hinv1 (fun q hq => hp q (by simp [hq])) b' s hrun
    refine ⟨r1, r2, r3, fun ty hty => r4 ty (by rw [hadd]; exact List.mem_append_left _ hty), ?_,
      fun q hq => r6 q (hmono' q hq), ?_⟩
    · intro q hq
      rcases List.mem_cons.mp hq with rfl | hq
      · exact ⟨t, List.mem_append_right _ (r4 t (by rw [hadd]; simp)), htk⟩
      · exact r5 q hq
    · intro roots hku hpr htr
      apply r7 roots hku (fun q hq => hpr q (List.mem_cons_of_mem _ hq))
      intro ty hty
      rw [hadd] at hty
      simp only [List.mem_append, List.mem_singleton] at hty
      rcases hty with hty | rfl
      · exact htr ty hty
      · rcases hcase' with e | ⟨_, hkin⟩
        · rw [e] at hmem
          exact hpr p (by simp) ty hmem
        · exfalso
          obtain ⟨z, hz, e⟩ := hkin
          have : z = ty := tyUniq (⟨H, hku⟩ : Hyp L ts) (hinv.good hz) ⟨p', hu', hinv.cache _ _ hmem⟩
            (by rw [e, (hinv.cache _ _ hmem).key])
          rw [this] at hz
          simp only [Bool.or_eq_true, List.contains_iff_mem, not_or] at hc
          rcases List.mem_append.mp hz with hz | hz
          · exact hc.1 hz
          · exact hc.2 hz
  | case4 p rest b p' pool hsd b1 hl e st1 hr =>
    rw [level1] at hrun
    simp only [hsd] at hrun
    simp only [b1] at hl hr
    simp only [hl, hr] at hrun
    cases hrun
  | case5 p rest b p' pool hsd b1 hl t st1 hr ih =>
    exfalso
    obtain ⟨hpL, hpc⟩ := hp p (by simp)
    obtain ⟨hk', hpath', hu', hlk', hmono', hcase', hpool'⟩ := setDefault_spec H hinv.pool (Or.inl hpL) hsd
    simp only [b1] at hl
    rcases hcase' with rfl | ⟨hc, _⟩
    · exact lookup_ne_none_of_mem hpc hl
    · exact lookup_ne_none_of_mem hc hl

end Book

section Book0
variable (au : Bool) (L ts : List Def)

/-- the invariant of the target loop `level0`; `done` = the targets processed so far -/
structure BInv (done : List Def) (b : Book) : Prop where
  linv : LInv au L ts b
  dkeys : b.direct.map Ty.key = done.map Def.key
  nest : ∀ x t, (x, t) ∈ b.st.cache → ∀ n ∈ t.nested, KeyIn (b.direct ++ b.transitive) n.key
  donep : ∀ t0 ∈ done, (b.pool.lookup t0.path).isSome
  dsub : ∀ t0 ∈ done, t0 ∈ ts

variable {au L ts}

/-- a target obtains its type `ty` (by a read or by promotion from `transitive`) -/
theorem step_add (H : HypP L ts) {done : List Def} {b : Book} (hinv : BInv au L ts done b) {t0 t : Def} {pool' : List (Path × Def)}
    (ht0 : t0 ∈ ts) (hnew : t0.key ∉ done.map Def.key) (hsd : setDefault b.pool t0 = (t, pool')) {st1 : St} {ty : Ty}
    (hmono : ∀ p ∈ b.st.cache, p ∈ st1.cache) (hcache : CacheOk (DenR au L) st1) (hmem : (t, ty) ∈ st1.cache) :
    ty ∉ b.direct ∧
    LInv au L ts { pool := pool', direct := b.direct ++ [ty], transitive := removeTy b.transitive ty, st := st1 } ∧
    (b.direct ++ [ty]).map Ty.key = (done ++ [t0]).map Def.key ∧
    (∀ k, KeyIn (b.direct ++ b.transitive) k → KeyIn ((b.direct ++ [ty]) ++ removeTy b.transitive ty) k) ∧
    (∀ t0' ∈ done ++ [t0], (pool'.lookup t0'.path).isSome) := by
  obtain ⟨hk', hpath', hu', hlk', hmono', hcase', hpool'⟩ := setDefault_spec H hinv.linv.pool (Or.inr ht0) hsd
  have hden : Den au L ty t := hcache _ _ hmem
  have htk : ty.key = t0.key := by rw [hden.key, hk']
  have hnd : ty ∉ b.direct := by
    intro h
    apply hnew
    rw [← hinv.dkeys, ← htk]
    exact List.mem_map.mpr ⟨ty, h, rfl⟩
  have hK : ∀ k, KeyIn (b.direct ++ b.transitive) k → KeyIn ((b.direct ++ [ty]) ++ removeTy b.transitive ty) k := by
    intro k hk
    obtain ⟨z, hz, e⟩ := hk
    rcases List.mem_append.mp hz with hz | hz
    · exact ⟨z, by simp [hz], e⟩
    · by_cases hzt : z = ty
      · exact ⟨z, by simp [hzt], e⟩
      · exact ⟨z, List.mem_append_right _ (mem_removeTy.mpr ⟨hz, hzt⟩), e⟩
  refine ⟨hnd, ⟨hcache, ?_, ?_⟩, ?_, hK, ?_⟩
  · intro z hz
    simp only [List.mem_append, List.mem_singleton] at hz
    rcases hz with (hz | rfl) | hz
    · obtain ⟨x, hx, hc⟩ := hinv.linv.tys z (List.mem_append_left _ hz)
      exact ⟨x, hx, hmono _ hc⟩
    · exact ⟨t, hu', hmem⟩
    · obtain ⟨x, hx, hc⟩ := hinv.linv.tys z (List.mem_append_right _ (mem_removeTy.mp hz).1)
      exact ⟨x, hx, hmono _ hc⟩
  · exact hpool' _ _ hmono hK ⟨ty, hmem⟩ ⟨ty, by simp, by rw [htk, hk']⟩
  · simp [hinv.dkeys, htk]
  · intro t0' h0
    rcases List.mem_append.mp h0 with h0 | h0
    · exact hmono' _ (hinv.donep t0' h0)
    · simp only [List.mem_singleton] at h0
      rw [h0, hlk']; rfl

theorem level0_spec (H : HypP L ts) (rest : List Def) (b : Book) (done : List Def) (hinv : BInv au L ts done b)
    (hsub : ∀ t ∈ rest, t ∈ ts) (hnd : ((done ++ rest).map Def.key).Nodup)
    (b' : Book) (s : St) (hrun : level0 au L rest b = (.ok b', s)) :
    BInv au L ts (done ++ rest) b' ∧
      (KeyUniq L ts → (∀ ty ∈ b.transitive, NestReach b.direct ty) → ∀ ty ∈ b'.transitive, NestReach b'.direct ty) := by
  induction rest, b using level0.induct au L generalizing done b' s with
  | case1 b =>
    rw [level0] at hrun; cases hrun; exact ⟨by simpa using hinv, fun _ h => h⟩
  | case2 p rest b p' pool hsd b1 skip bs hs ih =>
    have hnew : p.key ∉ done.map Def.key := by
      rw [List.map_append, List.map_cons] at hnd
      exact fun h => (List.nodup_append.mp hnd).2.2 _ h _ (by simp) rfl
    rw [level0] at hrun
    simp only [hsd] at hrun
    simp only [skip, b1] at hs
    simp only [hs] at hrun
    have hfin : done ++ p :: rest = (done ++ [p]) ++ rest := by simp
    rw [hfin] at hnd ⊢
    split at hs
    · rename_i ty hl
      have hmem := lookup_mem hl
      obtain ⟨hnd', hl2, hdk, hK, hdp⟩ := step_add H hinv (hsub p (by simp)) hnew hsd (fun _ h => h) hinv.linv.cache hmem
      split at hs
      · rename_i hc
        exact absurd (List.contains_iff_mem.mp hc) hnd'
      · split at hs
        · cases hs
          have hbs : BInv au L ts (done ++ [p])
              { pool := pool, direct := addTy b.direct ty, transitive := removeTy b.transitive ty, st := b.st } := by
            simp only [addTy_of_not_mem hnd']
            refine ⟨hl2, hdk, fun x t hxt n hn => hK _ (hinv.nest x t hxt n hn), hdp, ?_⟩
            intro t0 h0
            rcases List.mem_append.mp h0 with h0 | h0
            · exact hinv.dsub t0 h0
            · simp only [List.mem_singleton] at h0; rw [h0]; exact hsub p (by simp)
          obtain ⟨i1, i2⟩ := ih (done ++ [p]) hbs (fun q hq => hsub q (by simp [hq])) hnd b' s hrun
          refine ⟨i1, fun hku hR => i2 hku ?_⟩
          intro z hz
          simp only [addTy_of_not_mem hnd']
          exact (hR z (mem_removeTy.mp hz).1).mono fun y hy => NestReach.root (List.mem_append_left _ hy)
        · cases hs
    · cases hs
  | case3 p rest b p' pool hsd b1 skip hs e st1 hr =>
    rw [level0] at hrun
    simp only [hsd] at hrun
    simp only [skip, b1] at hs hr
    simp only [hs, hr] at hrun
    cases hrun
  | case4 p rest b p' pool hsd b1 skip hs t st1 hr b2 pending e st hl =>
    rw [level0] at hrun
    simp only [hsd] at hrun
    simp only [skip, b1] at hs hr
    simp only [pending, b2, b1] at hl
    simp only [hs, hr, hl] at hrun
    cases hrun
  | case5 p rest b p' pool hsd b1 skip hs t st1 hr b2 pending bs snd hl ih =>
    have hnew : p.key ∉ done.map Def.key := by
      rw [List.map_append, List.map_cons] at hnd
      exact fun h => (List.nodup_append.mp hnd).2.2 _ h _ (by simp) rfl
    rw [level0] at hrun
    simp only [hsd] at hrun
    simp only [skip, b1] at hs hr
    simp only [pending, b2, b1] at hl
    simp only [hs, hr, hl] at hrun
    have hfin : done ++ p :: rest = (done ++ [p]) ++ rest := by simp
    rw [hfin] at hnd ⊢
    have hden := readObj_den au L L p' { b.st with visited := [] } (KeySub.refl L) hinv.linv.cache
    have hext := readObj_ext au L p' { b.st with visited := [] }
    rw [hr] at hden hext
    obtain ⟨⟨c, v, hc1, hv1, hvL, hcn, hvc⟩, hres⟩ := hext
    simp only at hc1 hv1
    have hmem : (p', t) ∈ st1.cache := hres t rfl
    have hmono : ∀ q ∈ b.st.cache, q ∈ st1.cache := by
      intro q hq; rw [hc1]; exact List.mem_append_right _ hq
    obtain ⟨hnd', hl2, hdk, hK, hdp⟩ := step_add H hinv (hsub p (by simp)) hnew hsd hmono hden.1 hmem
    simp only [addTy_of_not_mem hnd'] at hl
    have hdsub : ∀ t0 ∈ done ++ [p], t0 ∈ ts := by
      intro t0 h0
      rcases List.mem_append.mp h0 with h0 | h0
      · exact hinv.dsub t0 h0
      · simp only [List.mem_singleton] at h0; rw [h0]; exact hsub p (by simp)
    have hvis : ∀ x ∈ st1.visited, x ∈ v := by
      intro x hx; rw [hv1] at hx; simpa using hx
    have hpend : ∀ q ∈ sortDefs (dedupKeys (st1.visited.filter fun x => (List.lookup x.path pool).isNone)),
        q ∈ L ∧ ∃ t', (q, t') ∈ st1.cache := by
      intro q hq
      have hq' := List.mem_filter.mp (mem_dedupKeys' (mem_sortDefs'.mp hq))
      have hqv := hvis q hq'.1
      exact ⟨hvL q hqv, hvc rfl q hqv⟩
    obtain ⟨r1, r2, r3, r4, r5, r6, r7⟩ := level1_spec H _ _ hl2 hpend bs snd hl
    simp only at r2 r3 r4 r6 r7
    have hK2 : ∀ k, KeyIn ((b.direct ++ [t]) ++ removeTy b.transitive t) k → KeyIn (bs.direct ++ bs.transitive) k := by
      intro k hk
      obtain ⟨z, hz, e⟩ := hk
      rcases List.mem_append.mp hz with hz | hz
      · exact ⟨z, List.mem_append_left _ (by rw [r3]; exact hz), e⟩
      · exact ⟨z, List.mem_append_right _ (r4 z hz), e⟩
    have hbs : BInv au L ts (done ++ [p]) bs := by
      refine ⟨r1, by rw [r3]; exact hdk, ?_, fun t0 h0 => r6 _ (hdp t0 h0), hdsub⟩
      intro x tx hxt n hn
      rw [r2] at hxt
      rw [hc1] at hxt
      rcases List.mem_append.mp hxt with hxt | hxt
      · obtain ⟨x', hx', hc'⟩ := hcn x tx hxt n hn
        have hkey : n.key = x'.key := (hden.1 _ _ hc').key
        rw [hkey]
        have hx'v := hvis x' hx'
        cases hlk : List.lookup x'.path pool with
        | some o =>
          obtain ⟨h1, h2, _, h4⟩ := hl2.pool _ _ hlk
          have : o.key = x'.key := H.pathKey o x' h2 (Or.inl (hvL x' hx'v)) h1
          rw [← this]
          exact hK2 _ h4
        | none =>
          have hf : x' ∈ st1.visited.filter fun x => (List.lookup x.path pool).isNone :=
            List.mem_filter.mpr ⟨hx', by rw [hlk]; rfl⟩
          obtain ⟨q, hq, e⟩ := dedupKeys_key hf
          rw [← e]
          exact r5 q (mem_sortDefs'.mpr hq)
      · exact hK2 _ (hK _ (hinv.nest x tx hxt n hn))
    obtain ⟨i1, i2⟩ := ih (done ++ [p]) hbs (fun q hq => hsub q (by simp [hq])) hnd b' s hrun
    refine ⟨i1, fun hku hR => i2 hku ?_⟩
    rw [r3]
    apply r7 _ hku
    · intro q hq tq hcq
      have hq' := List.mem_filter.mp (mem_dedupKeys' (mem_sortDefs'.mp hq))
      rcases readObj_reach au L p' { b.st with visited := [] } t st1 hr q hq'.1 with h0 | ⟨tq', hcq', hrq⟩
      · cases h0
      · have : tq = tq' := Den.unique (hden.1 _ _ hcq) (hden.1 _ _ hcq')
        rw [this]
        exact NestReach.of_nested (NestReach.root (by simp)) hrq
    · intro z hz
      exact (hR z (mem_removeTy.mp hz).1).mono fun y hy => NestReach.root (List.mem_append_left _ hy)

end Book0

/-! ### `_complete_read_function` -/

theorem keysDistinct_nodup : ∀ {l : List Def}, keysDistinct l = true → (l.map Def.key).Nodup
  | [], _ => List.nodup_nil
  | d :: r, h => by
    simp only [keysDistinct, Bool.and_eq_true, List.all_eq_true] at h
    rw [List.map_cons, List.nodup_cons]
    refine ⟨?_, keysDistinct_nodup h.2⟩
    intro hm
    obtain ⟨y, hy, e⟩ := List.mem_map.mp hm
    have := h.1 y hy
    simp [e] at this

/-- A successful `_complete_read_function`: its two result lists are the sorted `direct` / `transitive` sets of a
    book-keeping state that satisfies the loop invariant for all targets. -/
theorem completeRead_spec {au : Bool} {files : List FileEntry} {targets : List Def} {dirs : List Path} {L : List Def}
    (hL : collect false files dirs = .ok L) (H : HypP L targets) {d t : List Ty} {p : List Nat}
    (h : completeRead au files targets dirs = ⟨.ok (d, t), p⟩) :
    ∃ b, BInv au L targets targets b ∧ d = sortTys b.direct ∧ t = sortTys b.transitive ∧
      crossCheck (d.map Ty.info) ((t ++ d).map Ty.info) = .ok () ∧
      (KeyUniq L targets → ∀ ty ∈ b.transitive, NestReach b.direct ty) := by
  unfold completeRead at h
  rw [hL] at h
  simp only at h
  split at h
  · cases h
  · rename_i hk
    have hk' : keysDistinct targets = true := by simpa using hk
    split at h
    · cases h
    · rename_i b st hrun
      split at h
      · cases h
      · rename_i hcc
        cases h
        refine ⟨b, ?_, rfl, rfl, hcc, ?_⟩
        have h0 : BInv au L targets [] ({} : Book) := by
          refine ⟨⟨?_, ?_, ?_⟩, rfl, ?_, ?_, ?_⟩
          · intro x t hx; cases hx
          · intro ty hty; cases hty
          · intro p o hl; cases hl
          · intro x t hx; cases hx
          · intro t0 h0; cases h0
          · intro t0 h0; cases h0
        · simpa using (level0_spec H targets {} [] h0 (fun _ h => h) (by simpa using keysDistinct_nodup hk') b st hrun).1
        · intro hku
          have h0 : BInv au L targets [] ({} : Book) := by
            refine ⟨⟨?_, ?_, ?_⟩, rfl, ?_, ?_, ?_⟩
            · intro x t hx; cases hx
            · intro ty hty; cases hty
            · intro p o hl; cases hl
            · intro x t hx; cases hx
            · intro t0 h0; cases h0
            · intro t0 h0; cases h0
          exact (level0_spec H targets {} [] h0 (fun _ h => h) (by simpa using keysDistinct_nodup hk') b st hrun).2 hku
            (by intro ty hty; cases hty)

/-- two key-sorted lists of keys with the same elements are equal -/
theorem sorted_keys_eq {l1 l2 : List Key} (hp : l1.Perm l2) (h1 : l1.Pairwise (fun a b => keyLe a b = true))
    (h2 : l2.Pairwise (fun a b => keyLe a b = true)) : l1 = l2 :=
  List.Perm.eq_of_pairwise (le := fun a b : Key => keyLe a b = true) (fun a b _ _ hab hba => keyLe_antisymm a b hab hba) h1 h2 hp

/-- the minor-version check fails (with the library's bare `assert`) when two list positions hold the same (name, version) -/
theorem checkMinorVersions_distinct {ds : List TyInfo} (h : checkMinorVersions ds = .ok ()) : Spec.distinctKeys ds := by
  unfold checkMinorVersions at h
  rw [firstErr_ok_iff] at h
  intro i j a b hi hj hne hk
  simp only [TyInfo.key, Prod.mk.injEq] at hk
  have := h (minorPair a b) ((mem_minorList ds _).mpr ⟨i, j, a, b, hi, hj, hne, hk.1, hk.2.1, rfl⟩)
  unfold minorPair at this
  simp [hk.2.2] at this

section Results
variable {au : Bool} {files : List FileEntry} {targets : List Def} {dirs : List Path} {L : List Def}
  {d t : List Ty} {p : List Nat}

/-- one composite per target, carrying the target's (name, version), in sorted order -/
theorem completeRead_direct_keys (hL : collect false files dirs = .ok L) (H : HypP L targets)
    (h : completeRead au files targets dirs = ⟨.ok (d, t), p⟩) : d.map Ty.key = (sortDefs targets).map Def.key := by
  obtain ⟨b, hb, rfl, rfl, _, _⟩ := completeRead_spec hL H h
  apply sorted_keys_eq
  · have h1 := (sortTys_perm b.direct).map Ty.key
    have h2 := (sortDefs_perm targets).map Def.key
    rw [hb.dkeys] at h1
    exact h1.trans h2.symm
  · exact List.pairwise_map.mpr (sortTys_sorted _)
  · exact List.pairwise_map.mpr (sortDefs_sorted _)

/-- no two returned types have the same (name, version): in particular `direct` and `transitive` are disjoint by key
    (this is enforced by the final minor-version check, which ends in the library's bare `assert` otherwise) -/
theorem completeRead_distinct (hL : collect false files dirs = .ok L) (H : HypP L targets)
    (h : completeRead au files targets dirs = ⟨.ok (d, t), p⟩) : (t ++ d).Pairwise (fun a b => a.key ≠ b.key) := by
  obtain ⟨b, hb, hd, ht, hcc, _⟩ := completeRead_spec hL H h
  unfold crossCheck at hcc
  split at hcc
  · cases hcc
  · have hdk := checkMinorVersions_distinct hcc
    rw [List.pairwise_iff_getElem]
    intro i j hi hj hlt
    apply hdk i j (t ++ d)[i].info (t ++ d)[j].info
    · rw [List.getElem?_map, List.getElem?_eq_getElem hi]; rfl
    · rw [List.getElem?_map, List.getElem?_eq_getElem hj]; rfl
    · omega

theorem completeRead_disjoint (hL : collect false files dirs = .ok L) (H : HypP L targets)
    (h : completeRead au files targets dirs = ⟨.ok (d, t), p⟩) : ∀ x ∈ t, x.key ∉ d.map Ty.key := by
  have hp := List.pairwise_append.mp (completeRead_distinct hL H h)
  intro x hx hk
  obtain ⟨y, hy, e⟩ := List.mem_map.mp hk
  exact hp.2.2 x hx y hy e.symm

/-- `direct ∪ transitive` is closed under nesting -/
theorem completeRead_closed (hL : collect false files dirs = .ok L) (H : HypP L targets)
    (h : completeRead au files targets dirs = ⟨.ok (d, t), p⟩) :
    ∀ x ∈ d ++ t, ∀ n ∈ x.nested, ∃ y ∈ d ++ t, y.key = n.key := by
  obtain ⟨b, hb, rfl, rfl, _, _⟩ := completeRead_spec hL H h
  intro x hx n hn
  have hx' : x ∈ b.direct ++ b.transitive := by
    rcases List.mem_append.mp hx with hx | hx
    · exact List.mem_append_left _ (mem_sortTys.mp hx)
    · exact List.mem_append_right _ (mem_sortTys.mp hx)
  obtain ⟨x0, _, hc⟩ := hb.linv.tys x hx'
  obtain ⟨y, hy, e⟩ := hb.nest x0 x hc n hn
  refine ⟨y, ?_, e⟩
  rcases List.mem_append.mp hy with hy | hy
  · exact List.mem_append_left _ (mem_sortTys.mpr hy)
  · exact List.mem_append_right _ (mem_sortTys.mpr hy)

/-- every returned type is the stand-alone type of a definition object of the call -/
theorem completeRead_good (hL : collect false files dirs = .ok L) (H : HypP L targets)
    (h : completeRead au files targets dirs = ⟨.ok (d, t), p⟩) : ∀ x ∈ d ++ t, Good au L targets x := by
  obtain ⟨b, hb, rfl, rfl, _, _⟩ := completeRead_spec hL H h
  intro x hx
  apply hb.linv.good
  rcases List.mem_append.mp hx with hx | hx
  · exact List.mem_append_left _ (mem_sortTys.mp hx)
  · exact List.mem_append_right _ (mem_sortTys.mp hx)

/-- nothing else is returned: every transitive type is nested, at some depth, in a direct type -/
theorem completeRead_minimal (hL : collect false files dirs = .ok L) (H : Hyp L targets)
    (h : completeRead au files targets dirs = ⟨.ok (d, t), p⟩) : ∀ x ∈ t, NestReach d x := by
  obtain ⟨b, hb, rfl, rfl, _, hr⟩ := completeRead_spec hL H.toHypP h
  intro x hx
  exact (hr H.keyUniq x (mem_sortTys.mp hx)).mono fun y hy => NestReach.root (mem_sortTys.mpr hy)

end Results

/-! ### the cross-definition checks of a successful call -/

theorem completeRead_crossCheck {au : Bool} {files : List FileEntry} {targets : List Def} {dirs : List Path}
    {d t : List Ty} {p : List Nat} (h : completeRead au files targets dirs = ⟨.ok (d, t), p⟩) :
    crossCheck (d.map Ty.info) ((t ++ d).map Ty.info) = .ok () := by
  unfold completeRead at h
  split at h
  · cases h
  · split at h
    · cases h
    · split at h
      · cases h
      · simp only at h
        split at h
        · cases h
        · rename_i hcc
          cases h
          exact hcc

theorem readNamespace_crossCheck {files : List FileEntry} {root : Path} {lookups : List Path} {ac au : Bool}
    {d t : List Ty} {p : List Nat} (h : readNamespace files root lookups ac au = ⟨.ok (d, t), p⟩) :
    crossCheck (d.map Ty.info) ((t ++ d).map Ty.info) = .ok () := by
  unfold readNamespace at h
  simp only at h
  split at h
  · cases h
  · split at h
    · cases h
    · cases h; rfl
    · exact completeRead_crossCheck h

theorem readFiles_crossCheck {files targets : List FileEntry} {roots lookups : List Path} {au : Bool}
    {d t : List Ty} {p : List Nat} (h : readFiles files targets roots lookups au = ⟨.ok (d, t), p⟩) :
    crossCheck (d.map Ty.info) ((t ++ d).map Ty.info) = .ok () := by
  unfold readFiles at h
  split at h
  · cases h
  · cases h; rfl
  · simp only at h
    split at h
    · cases h
    · exact completeRead_crossCheck h

/-- a result that passed the checks has pairwise distinct (name, version) and satisfies the declarative rule -/
theorem crossCheck_ok_consistent {direct all : List TyInfo} (h : crossCheck direct all = .ok ()) :
    Spec.distinctKeys all ∧ Spec.consistent direct all := by
  have hd : Spec.distinctKeys all := by
    unfold crossCheck at h
    split at h
    · cases h
    · exact checkMinorVersions_distinct h
  refine ⟨hd, ?_⟩
  unfold crossCheck at h
  unfold Spec.consistent
  split at h
  · cases h
  · rename_i hp
    exact ⟨(checkPortIdCollisions_ok_iff direct).mp hp, (checkMinorVersions_ok_iff all hd).mp h⟩

/-! ### exactly the dependency closure; independence of the order of the targets -/

theorem Good.mono {au : Bool} {L ts ts' : List Def} {x : Ty} (h : Good au L ts x) (hs : ∀ y ∈ ts, y ∈ ts') : Good au L ts' x := by
  obtain ⟨y, hy, hd⟩ := h
  refine ⟨y, ?_, hd⟩
  rcases hy with hy | hy
  · exact Or.inl hy
  · exact Or.inr (hs y hy)


theorem RefsTo.mem {Lb : List Def} {d : Def} : ∀ {stmts : List Stmt} {xs : List Def}, RefsTo Lb d stmts xs → ∀ x ∈ xs, x ∈ Lb
  | [], _, h, x, hx => by simp only [RefsTo] at h; subst h; cases hx
  | .ref r :: rest, _, h, x, hx => by
    simp only [RefsTo] at h
    obtain ⟨y, xs', rfl, hy, h'⟩ := h
    rcases List.mem_cons.mp hx with rfl | hx
    · exact hy.1
    · exact RefsTo.mem h' x hx
  | .prim _ :: rest, _, h, x, hx => by simp only [RefsTo] at h; exact RefsTo.mem h x hx
  | .print _ :: rest, _, h, x, hx => by simp only [RefsTo] at h; exact RefsTo.mem h x hx
  | .bad :: rest, _, h, x, hx => by simp only [RefsTo] at h; exact RefsTo.mem h x hx

theorem DenList.mem {au : Bool} {Lb : List Def} : ∀ {l : List Ty} {xs : List Def}, DenList au Lb l xs →
    ∀ n ∈ l, ∃ x ∈ xs, Den au Lb n x
  | [], _, _, n, hn => by cases hn
  | t :: r, _, h, n, hn => by
    simp only [DenList] at h
    obtain ⟨x, xs', rfl, hx, h'⟩ := h
    rcases List.mem_cons.mp hn with rfl | hn
    · exact ⟨x, by simp, hx⟩
    · obtain ⟨y, hy, hd⟩ := DenList.mem h' n hn
      exact ⟨y, List.mem_cons_of_mem _ hy, hd⟩

/-- a nested type of a stand-alone type is the stand-alone type of a lookup definition -/
theorem Den.nested_good {au : Bool} {Lb : List Def} {t : Ty} {d : Def} (h : Den au Lb t d) :
    ∀ n ∈ t.nested, ∃ x ∈ Lb, Den au Lb n x := by
  cases t with
  | mk info nested =>
    simp only [Den] at h
    obtain ⟨_, xs1, xs2, h1, h2, hl, _⟩ := h
    intro n hn
    obtain ⟨x, hx, hd⟩ := hl.mem n hn
    refine ⟨x, ?_, hd⟩
    rcases List.mem_append.mp hx with hx | hx
    · exact h1.mem x hx
    · cases hr : d.text.resp with
      | none => simp only [hr] at h2; subst h2; cases hx
      | some rs => simp only [hr] at h2; exact h2.mem x hx

section Exact
variable {au : Bool} {files : List FileEntry} {targets : List Def} {dirs : List Path} {L : List Def}
  {d t : List Ty} {p : List Nat}

/-- `direct ∪ transitive` is exactly the set of types nested, at any depth, in a direct type -/
theorem completeRead_exact (hL : collect false files dirs = .ok L) (H : Hyp L targets)
    (h : completeRead au files targets dirs = ⟨.ok (d, t), p⟩) : ∀ x, x ∈ d ++ t ↔ NestReach d x := by
  intro x
  constructor
  · intro hx
    rcases List.mem_append.mp hx with hx | hx
    · exact NestReach.root hx
    · exact completeRead_minimal hL H h x hx
  · intro hx
    induction hx with
    | root hy => exact List.mem_append_left _ hy
    | @step y n _ hn ih =>
      obtain ⟨z, hz, e⟩ := completeRead_closed hL H.toHypP h y ih n hn
      obtain ⟨y0, _, hy0⟩ := completeRead_good hL H.toHypP h y ih
      obtain ⟨x0, hx0, hd0⟩ := hy0.nested_good n hn
      have : z = n := tyUniq H (completeRead_good hL H.toHypP h z hz) ⟨x0, Or.inl hx0, hd0⟩ e
      rw [← this]; exact hz

end Exact

/-- The result does not depend on the order in which the targets are processed: for two target lists that are
    permutations of each other, two successful runs return the same lists. -/
theorem completeRead_order {au : Bool} {files : List FileEntry} {ts1 ts2 : List Def} {dirs : List Path} {L : List Def}
    {d1 t1 d2 t2 : List Ty} {p1 p2 : List Nat} (hL : collect false files dirs = .ok L) (H : Hyp L (ts1 ++ ts2))
    (hp : ts1.Perm ts2) (h1 : completeRead au files ts1 dirs = ⟨.ok (d1, t1), p1⟩)
    (h2 : completeRead au files ts2 dirs = ⟨.ok (d2, t2), p2⟩) : d1 = d2 ∧ t1 = t2 := by
  have H1 : Hyp L ts1 :=
    { pathKey := fun x y hx hy => H.pathKey x y (hx.imp id (List.mem_append_left _)) (hy.imp id (List.mem_append_left _))
      keyUniq := fun x y hx hy => H.keyUniq x y (hx.imp id (List.mem_append_left _)) (hy.imp id (List.mem_append_left _)) }
  have H2 : Hyp L ts2 :=
    { pathKey := fun x y hx hy => H.pathKey x y (hx.imp id (List.mem_append_right _)) (hy.imp id (List.mem_append_right _))
      keyUniq := fun x y hx hy => H.keyUniq x y (hx.imp id (List.mem_append_right _)) (hy.imp id (List.mem_append_right _)) }
  have g1 : ∀ x ∈ d1 ++ t1, Good au L (ts1 ++ ts2) x := fun x hx =>
    Good.mono (completeRead_good hL H1.toHypP h1 x hx) fun _ h => List.mem_append_left _ h
  have g2 : ∀ x ∈ d2 ++ t2, Good au L (ts1 ++ ts2) x := fun x hx =>
    Good.mono (completeRead_good hL H2.toHypP h2 x hx) fun _ h => List.mem_append_right _ h
  have hk : d1.map Ty.key = d2.map Ty.key := by
    rw [completeRead_direct_keys hL H1.toHypP h1, completeRead_direct_keys hL H2.toHypP h2]
    exact sorted_keys_eq ((((sortDefs_perm ts1).trans hp).trans (sortDefs_perm ts2).symm).map Def.key)
      (List.pairwise_map.mpr (sortDefs_sorted _)) (List.pairwise_map.mpr (sortDefs_sorted _))
  have hd : d1 = d2 := by
    have hlen : d1.length = d2.length := by simpa using congrArg List.length hk
    apply List.ext_getElem hlen
    intro i hi1 hi2
    apply tyUniq H (g1 _ (List.mem_append_left _ (List.getElem_mem hi1))) (g2 _ (List.mem_append_left _ (List.getElem_mem hi2)))
    have := congrArg (fun l => l[i]?) hk
    simpa [List.getElem?_map, List.getElem?_eq_getElem hi1, List.getElem?_eq_getElem hi2] using this
  refine ⟨hd, ?_⟩
  subst hd
  have hmem : ∀ {ta tb : List Ty} {pa pb : List Nat} {tsa tsb : List Def}, Hyp L tsa → Hyp L tsb →
      completeRead au files tsa dirs = ⟨.ok (d1, ta), pa⟩ → completeRead au files tsb dirs = ⟨.ok (d1, tb), pb⟩ →
      ∀ x ∈ ta, x ∈ tb := by
    intro ta tb pa pb tsa tsb Ha Hb ha hb x hx
    have hr := completeRead_minimal hL Ha ha x hx
    have hin := (completeRead_exact hL Hb hb x).mpr hr
    rcases List.mem_append.mp hin with hin | hin
    · exact absurd (List.mem_map.mpr ⟨x, hin, rfl⟩) (completeRead_disjoint hL Ha.toHypP ha x hx)
    · exact hin
  have nd : ∀ {ta : List Ty} {pa : List Nat} {tsa : List Def}, HypP L tsa →
      completeRead au files tsa dirs = ⟨.ok (d1, ta), pa⟩ → ta.Nodup := by
    intro ta pa tsa Ha ha
    have := (List.pairwise_append.mp (completeRead_distinct hL Ha ha)).1
    exact this.imp (fun hne e => hne (by rw [e]))
  have hperm : t1.Perm t2 :=
    (List.perm_ext_iff_of_nodup (nd H1.toHypP h1) (nd H2.toHypP h2)).mpr
      fun x => ⟨hmem H1 H2 h1 h2 x, hmem H2 H1 h2 h1 x⟩
  obtain ⟨b1, _, _, ht1, _, _⟩ := completeRead_spec hL H1.toHypP h1
  obtain ⟨b2, _, _, ht2, _, _⟩ := completeRead_spec hL H2.toHypP h2
  apply List.Perm.eq_of_pairwise (le := fun a b : Ty => keyLe a.key b.key = true) _ _ _ hperm
  · intro a b ha hb hab hba
    exact tyUniq H (g1 a (List.mem_append_right _ ha)) (g2 b (List.mem_append_right _ hb)) (keyLe_antisymm _ _ hab hba)
  · rw [ht1]; exact sortTys_sorted _
  · rw [ht2]; exact sortTys_sorted _

/-! ### from the file system to `Hyp` -/

theorem mkDef_ok {tgt : Bool} {e : FileEntry} {x : Def} (h : mkDef tgt e = .ok x) :
    ∃ fn, parseFileName e.fname.toList = .ok fn ∧
      x = { tgt := tgt, path := e.dir ++ e.sub ++ [e.fname], root := e.dir,
            comps := (e.dir.getLast?.getD "") :: (e.sub ++ [String.ofList fn.short]),
            name := joinDots ((e.dir.getLast?.getD "") :: (e.sub ++ [String.ofList fn.short])),
            major := fn.major, minor := fn.minor, fpid := fn.pid, text := e.text } := by
  unfold mkDef at h
  simp only at h
  split at h
  · cases h
  · split at h
    · cases h
    · rename_i fn hfn
      split at h
      · cases h
      · cases h
        exact ⟨fn, hfn, rfl⟩

theorem mkDef_untgt {tgt : Bool} {e : FileEntry} {x : Def} (h : mkDef tgt e = .ok x) : mkDef false e = .ok (untgt x) := by
  obtain ⟨fn, hfn, rfl⟩ := mkDef_ok h
  unfold mkDef at h ⊢
  simp only at h ⊢
  split at h
  · cases h
  · rename_i h1
    simp only [h1]
    rw [hfn] at h ⊢
    simp only at h ⊢
    split at h
    · cases h
    · rename_i h2
      simp only [h2]
      rfl

theorem mkDef_path {tgt : Bool} {e : FileEntry} {x : Def} (h : mkDef tgt e = .ok x) :
    x.path = e.dir ++ e.sub ++ [e.fname] ∧ x.root = e.dir ∧ x.text = e.text := by
  obtain ⟨fn, _, rfl⟩ := mkDef_ok h
  exact ⟨rfl, rfl, rfl⟩

theorem mkDef_key_names {t1 t2 : Bool} {e1 e2 : FileEntry} {x y : Def} (h1 : mkDef t1 e1 = .ok x) (h2 : mkDef t2 e2 = .ok y)
    (hd : e1.dir = e2.dir) (hs : e1.sub = e2.sub) (hf : e1.fname = e2.fname) : x.key = y.key := by
  obtain ⟨fn1, hfn1, rfl⟩ := mkDef_ok h1
  obtain ⟨fn2, hfn2, rfl⟩ := mkDef_ok h2
  rw [hf, hfn2] at hfn1
  cases hfn1
  simp [Def.key, hd, hs]

theorem mapMDefs_mem {tgt : Bool} : ∀ {l : List FileEntry} {ds : List Def}, mapMDefs tgt l = .ok ds →
    ∀ x ∈ ds, ∃ e ∈ l, mkDef tgt e = .ok x
  | [], ds, h, x, hx => by simp [mapMDefs] at h; subst h; cases hx
  | e :: r, ds, h, x, hx => by
    rw [mapMDefs_cons] at h
    cases h0 : mkDef tgt e with
    | error y => simp [h0] at h
    | ok d =>
      cases h1 : mapMDefs tgt r with
      | error y => simp [h0, h1] at h
      | ok ds' =>
        simp only [h0, h1] at h
        cases h
        rcases List.mem_cons.mp hx with rfl | hx
        · exact ⟨e, by simp, h0⟩
        · obtain ⟨e', he', hm⟩ := mapMDefs_mem h1 x hx
          exact ⟨e', List.mem_cons_of_mem _ he', hm⟩

/-- every file of the list yields one of the definitions: none is missing -/
theorem mapMDefs_complete {tgt : Bool} : ∀ {l : List FileEntry} {ds : List Def}, mapMDefs tgt l = .ok ds →
    ∀ e ∈ l, ∃ x ∈ ds, mkDef tgt e = .ok x
  | [], ds, h, e, he => by cases he
  | e0 :: r, ds, h, e, he => by
    rw [mapMDefs_cons] at h
    cases h0 : mkDef tgt e0 with
    | error y => simp [h0] at h
    | ok d =>
      cases h1 : mapMDefs tgt r with
      | error y => simp [h0, h1] at h
      | ok ds' =>
        simp only [h0, h1] at h
        cases h
        rcases List.mem_cons.mp he with rfl | he
        · exact ⟨d, by simp, h0⟩
        · obtain ⟨x, hx, hm⟩ := mapMDefs_complete h1 e he
          exact ⟨x, List.mem_cons_of_mem _ hx, hm⟩

theorem collect_mem {tgt : Bool} {files : List FileEntry} {dirs : List Path} {ds : List Def} (h : collect tgt files dirs = .ok ds) :
    ∀ x ∈ ds, ∃ e ∈ files, e.dir ∈ dirs ∧ isDefinitionFile e.fname = true ∧ mkDef tgt e = .ok x := by
  unfold collect at h
  split at h
  · rename_i ds' hds
    cases h
    intro x hx
    obtain ⟨e, he, hm⟩ := mapMDefs_mem hds x (mem_sortDefs'.mp hx)
    obtain ⟨he1, he2⟩ := List.mem_filter.mp he
    simp only [Bool.and_eq_true, List.contains_iff_mem] at he2
    exact ⟨e, he1, he2.1, he2.2, hm⟩
  · cases h

/-- the definition comes from a file of the enumeration that lies under one of the directories -/
def FromFiles (files : List FileEntry) (dirs : List Path) (x : Def) : Prop :=
  ∃ e ∈ files, ∃ tgt, e.dir ∈ dirs ∧ mkDef tgt e = .ok x

theorem filterMap_pairwise_inj {α β : Type} {g : α → Option β} : ∀ {l : List α}, (l.filterMap g).Pairwise (· ≠ ·) →
    ∀ {a b : α} {k : β}, a ∈ l → b ∈ l → g a = some k → g b = some k → a = b
  | [], _, _, _, _, ha, _, _, _ => by cases ha
  | c :: r, hp, a, b, k, ha, hb, ga, gb => by
    have hr : (r.filterMap g).Pairwise (· ≠ ·) := by
      rw [List.filterMap_cons] at hp
      split at hp
      · exact hp
      · exact (List.pairwise_cons.mp hp).2
    have hc : ∀ x ∈ r, g c = some k → g x = some k → False := by
      intro x hx gc gx
      rw [List.filterMap_cons, gc] at hp
      exact (List.pairwise_cons.mp hp).1 k (List.mem_filterMap.mpr ⟨x, hx, gx⟩) rfl
    rcases List.mem_cons.mp ha with rfl | ha'
    · rcases List.mem_cons.mp hb with rfl | hb'
      · rfl
      · exact (hc b hb' ga gb).elim
    · rcases List.mem_cons.mp hb with rfl | hb'
      · exact (hc a ha' gb ga).elim
      · exact filterMap_pairwise_inj hr ha' hb' ga gb

theorem keyUniq_of_files {files : List FileEntry} {dirs : List Path} (hd : DistinctFileKeys files) {x y : Def}
    (hx : FromFiles files dirs x) (hy : FromFiles files dirs y) (hk : x.key = y.key) : untgt x = untgt y := by
  obtain ⟨e1, he1, t1, _, m1⟩ := hx
  obtain ⟨e2, he2, t2, _, m2⟩ := hy
  have u1 := mkDef_untgt m1
  have u2 := mkDef_untgt m2
  have : e1 = e2 := by
    apply filterMap_pairwise_inj hd he1 he2 (k := x.key)
    · simp only [u1]; rfl
    · simp only [u2]; rw [hk]; rfl
  subst this
  rw [u1] at u2
  exact Except.ok.inj u2

/-- the definition comes from a file that lies under one of the directories -/
def FromDirs (dirs : List Path) (x : Def) : Prop := ∃ e tgt, e.dir ∈ dirs ∧ mkDef tgt e = .ok x

theorem FromFiles.fromDirs {files : List FileEntry} {dirs : List Path} {x : Def} (h : FromFiles files dirs x) : FromDirs dirs x := by
  obtain ⟨e, _, tgt, hd, hm⟩ := h
  exact ⟨e, tgt, hd, hm⟩

theorem pathKey_of_dirs {dirs : List Path} {ac : Bool} (hc : dirsCheck dirs ac = .ok ()) {x y : Def}
    (hx : FromDirs dirs x) (hy : FromDirs dirs y) (hp : x.path = y.path) : x.key = y.key := by
  obtain ⟨e1, t1, hd1, m1⟩ := hx
  obtain ⟨e2, t2, hd2, m2⟩ := hy
  rw [(mkDef_path m1).1, (mkDef_path m2).1, List.append_assoc, List.append_assoc] at hp
  have hall := (dirsCheck_ok_iff dirs ac).mp hc
  have h12 := (dirPairBad_none_iff ac e1.dir e2.dir).mp (hall _ hd1 _ hd2)
  have h21 := (dirPairBad_none_iff ac e2.dir e1.dir).mp (hall _ hd2 _ hd1)
  have hdir : e1.dir = e2.dir := by
    have p1 : e1.dir <+: e1.dir ++ (e1.sub ++ [e1.fname]) := List.prefix_append _ _
    have p2 : e2.dir <+: e1.dir ++ (e1.sub ++ [e1.fname]) := by rw [hp]; exact List.prefix_append _ _
    rcases List.prefix_or_prefix_of_prefix p1 p2 with h | h
    · rcases h21 with e | ⟨hn, _⟩
      · exact e.symm
      · exact (hn h).elim
    · rcases h12 with e | ⟨hn, _⟩
      · exact e
      · exact (hn h).elim
  rw [hdir] at hp
  have hrest := List.append_cancel_left hp
  have hlen : e1.sub.length = e2.sub.length := by
    have := congrArg List.length hrest
    simp only [List.length_append, List.length_singleton] at this
    omega
  obtain ⟨hs, hf⟩ := List.append_inj hrest hlen
  exact mkDef_key_names m1 m2 hdir hs (by simpa using hf)

theorem hypP_of_dirs {dirs : List Path} {ac : Bool} {L ts : List Def}
    (hc : dirsCheck dirs ac = .ok ()) (hu : ∀ x, Univ L ts x → FromDirs dirs x) : HypP L ts :=
  ⟨fun x y hx hy hp => pathKey_of_dirs hc (hu x hx) (hu y hy) hp⟩

theorem hyp_of_files {files : List FileEntry} {dirs : List Path} {ac : Bool} {L ts : List Def} (hd : DistinctFileKeys files)
    (hc : dirsCheck dirs ac = .ok ()) (hu : ∀ x, Univ L ts x → FromFiles files dirs x) : Hyp L ts :=
  { toHypP := hypP_of_dirs hc (fun x hx => (hu x hx).fromDirs)
    keyUniq := fun x y hx hy hk => keyUniq_of_files hd (hu x hx) (hu y hy) hk }

theorem mem_dedupPaths {l : List Path} {p : Path} : p ∈ dedupPaths l ↔ p ∈ l := by
  induction l with
  | nil => simp [dedupPaths]
  | cons a r ih =>
    simp only [dedupPaths]
    split
    · rename_i hc
      have hc' : a ∈ r := List.contains_iff_mem.mp hc
      rw [ih, List.mem_cons]
      constructor
      · exact Or.inr
      · rintro (rfl | h)
        · exact hc'
        · exact h
    · rw [List.mem_cons, List.mem_cons, ih]

theorem fromFiles_of_collect {tgt : Bool} {files : List FileEntry} {dirs dirs' : List Path} {ds : List Def}
    (h : collect tgt files dirs = .ok ds) (hsub : ∀ p ∈ dirs, p ∈ dirs') : ∀ x ∈ ds, FromFiles files dirs' x := by
  intro x hx
  obtain ⟨e, he, hd, _, hm⟩ := collect_mem h x hx
  exact ⟨e, he, tgt, hsub _ hd, hm⟩

/-! ### the entry points -/

theorem collect_sorted {tgt : Bool} {files : List FileEntry} {dirs : List Path} {ds : List Def}
    (h : collect tgt files dirs = .ok ds) : SortedByKey Def.key ds := by
  unfold collect at h
  split at h
  · cases h; exact sortDefs_sorted _
  · cases h

theorem sortDefs_keys_of_sorted {ds : List Def} (h : SortedByKey Def.key ds) : (sortDefs ds).map Def.key = ds.map Def.key :=
  sorted_keys_eq ((sortDefs_perm ds).map Def.key) (List.pairwise_map.mpr (sortDefs_sorted ds)) (List.pairwise_map.mpr h)

theorem completeRead_ok_collect {au : Bool} {files : List FileEntry} {targets : List Def} {dirs : List Path}
    {r : List Ty × List Ty} {p : List Nat} (h : completeRead au files targets dirs = ⟨.ok r, p⟩) :
    ∃ L, collect false files dirs = .ok L := by
  unfold completeRead at h
  cases hL : collect false files dirs with
  | error e => rw [hL] at h; cases h
  | ok L => exact ⟨L, rfl⟩

/-- a successful `read_namespace` with a non-empty target list is a successful `_complete_read_function` whose definition
    objects all come from files under the (accepted) directories -/
theorem readNamespace_inv {files : List FileEntry} {root : Path} {lookups : List Path} {ac au : Bool} {d t : List Ty}
    {p : List Nat} {ts : List Def} (hts : collect true files [root] = .ok ts)
    (h : readNamespace files root lookups ac au = ⟨.ok (d, t), p⟩) :
    (ts = [] ∧ d = [] ∧ t = []) ∨
    ∃ L, collect false files (dedupPaths (lookups ++ [root])) = .ok L ∧
      completeRead au files ts (dedupPaths (lookups ++ [root])) = ⟨.ok (d, t), p⟩ ∧
      dirsCheck (dedupPaths (lookups ++ [root])) ac = .ok () ∧
      ∀ x, Univ L ts x → FromFiles files (dedupPaths (lookups ++ [root])) x := by
  unfold readNamespace at h
  simp only at h
  split at h
  · cases h
  · rename_i hc
    rw [hts] at h
    cases ts with
    | nil => simp only at h; cases h; exact Or.inl ⟨rfl, rfl, rfl⟩
    | cons a r =>
      simp only at h
      obtain ⟨L, hL⟩ := completeRead_ok_collect h
      have hu : ∀ x, Univ L (a :: r) x → FromFiles files (dedupPaths (lookups ++ [root])) x := by
        intro x hx
        rcases hx with hx | hx
        · exact fromFiles_of_collect hL (fun _ h => h) x hx
        · exact fromFiles_of_collect hts (fun q hq => by
            simp only [List.mem_singleton] at hq; rw [hq]; exact mem_dedupPaths.mpr (by simp)) x hx
      exact Or.inr ⟨L, hL, h, hc, hu⟩

theorem readNamespace_ok_collect {files : List FileEntry} {root : Path} {lookups : List Path} {ac au : Bool}
    {r : List Ty × List Ty} {p : List Nat} (h : readNamespace files root lookups ac au = ⟨.ok r, p⟩) :
    ∃ ts, collect true files [root] = .ok ts := by
  cases hts : collect true files [root] with
  | error x =>
    unfold readNamespace at h
    simp only at h
    split at h
    · cases h
    · rw [hts] at h; cases h
  | ok ts => exact ⟨ts, rfl⟩

/-- the same for `read_files`; the target files lie under the directories, and are files of the enumeration if `hsub` -/
theorem readFiles_inv {files targets : List FileEntry} {roots lookups : List Path} {au : Bool} {d t : List Ty}
    {p : List Nat} {ts : List Def} (hts : mapMDefs true targets = .ok ts)
    (h : readFiles files targets roots lookups au = ⟨.ok (d, t), p⟩) :
    (ts = [] ∧ d = [] ∧ t = []) ∨
    ∃ L, collect false files (dedupPaths (lookups ++ ts.map Def.root ++ roots)) = .ok L ∧
      completeRead au files (sortDefs ts) (dedupPaths (lookups ++ ts.map Def.root ++ roots)) = ⟨.ok (d, t), p⟩ ∧
      dirsCheck (dedupPaths (lookups ++ ts.map Def.root ++ roots)) true = .ok () ∧
      (∀ x, Univ L (sortDefs ts) x → FromDirs (dedupPaths (lookups ++ ts.map Def.root ++ roots)) x) ∧
      ((∀ e ∈ targets, e ∈ files) →
        ∀ x, Univ L (sortDefs ts) x → FromFiles files (dedupPaths (lookups ++ ts.map Def.root ++ roots)) x) := by
  unfold readFiles at h
  rw [hts] at h
  cases ts with
  | nil => simp only at h; cases h; exact Or.inl ⟨rfl, rfl, rfl⟩
  | cons a r =>
    simp only at h
    split at h
    · cases h
    · rename_i hc
      obtain ⟨L, hL⟩ := completeRead_ok_collect h
      have hroot : ∀ x ∈ sortDefs (a :: r), ∃ e ∈ targets, mkDef true e = .ok x ∧
          e.dir ∈ dedupPaths (lookups ++ (a :: r).map Def.root ++ roots) := by
        intro x hx
        have hx' := mem_sortDefs'.mp hx
        obtain ⟨e, he, hm⟩ := mapMDefs_mem hts x hx'
        refine ⟨e, he, hm, ?_⟩
        rw [← (mkDef_path hm).2.1]
        apply mem_dedupPaths.mpr
        simp only [List.mem_append, List.mem_map]
        exact Or.inl (Or.inr ⟨x, hx', rfl⟩)
      refine Or.inr ⟨L, hL, h, hc, ?_, ?_⟩
      · intro x hx
        rcases hx with hx | hx
        · exact (fromFiles_of_collect hL (fun _ h => h) x hx).fromDirs
        · obtain ⟨e, _, hm, hdir⟩ := hroot x hx
          exact ⟨e, true, hdir, hm⟩
      · intro hsub x hx
        rcases hx with hx | hx
        · exact fromFiles_of_collect hL (fun _ h => h) x hx
        · obtain ⟨e, he, hm, hdir⟩ := hroot x hx
          exact ⟨e, hsub e he, true, hdir, hm⟩

/-- a direct type carries the path, root directory and port-ID of its target file -/
theorem completeRead_direct_paths {au : Bool} {files : List FileEntry} {targets : List Def} {dirs : List Path} {L : List Def}
    {d t : List Ty} {p : List Nat} (hL : collect false files dirs = .ok L) (H : Hyp L targets)
    (h : completeRead au files targets dirs = ⟨.ok (d, t), p⟩) :
    ∀ ty ∈ d, ∃ t0 ∈ targets, ty.key = t0.key ∧ ty.info.path = t0.path ∧ ty.info.root = t0.root ∧ ty.info.fpid = t0.fpid ∧
      Den au L ty t0 := by
  intro ty hty
  have hk := completeRead_direct_keys hL H.toHypP h
  have : ty.key ∈ (sortDefs targets).map Def.key := by rw [← hk]; exact List.mem_map.mpr ⟨ty, hty, rfl⟩
  obtain ⟨t0, ht0, e0⟩ := List.mem_map.mp this
  have ht0' := mem_sortDefs'.mp ht0
  obtain ⟨x, hx, hden⟩ := completeRead_good hL H.toHypP h ty (List.mem_append_left _ hty)
  have hu := H.keyUniq x t0 hx (Or.inr ht0') (by rw [← hden.key, e0])
  have hd0 : Den au L ty t0 := by
    have h1 : Den au L ty (untgt x) := hden.retgt false
    rw [hu] at h1
    have h2 := h1.retgt t0.tgt
    exact h2
  obtain ⟨_, _, _, i4, i5, i6⟩ := hd0.info
  exact ⟨t0, ht0', e0.symm, i5, i6, i4, hd0⟩

theorem collect_congr_dirs (tgt : Bool) (files : List FileEntry) {dirs dirs' : List Path} (h : ∀ q, q ∈ dirs ↔ q ∈ dirs') :
    collect tgt files dirs = collect tgt files dirs' := by
  unfold collect
  have : (files.filter fun e => dirs.contains e.dir && isDefinitionFile e.fname) =
      files.filter fun e => dirs'.contains e.dir && isDefinitionFile e.fname := by
    apply List.filter_congr
    intro e _
    have : dirs.contains e.dir = dirs'.contains e.dir := by
      rw [Bool.eq_iff_iff, List.contains_iff_mem, List.contains_iff_mem]; exact h _
    rw [this]
  rw [this]

end Ns
