import Proofs.WireRev
/-! One-hole container contexts: the positions at which a delimited type can be nested
    (structure field, union variant, array element, and any nesting of those, sealed or delimited). -/
namespace Wire

inductive Ctx where
  | hole
  | farr (c : Ctx) (cap : Nat)
  | varr (c : Ctx) (cap : Nat)
  | field (pre : List Ty) (c : Ctx) (post : List Ty) (m : Mode)
  | variant (pre : List Ty) (c : Ctx) (post : List Ty) (m : Mode)

def Ctx.fill : Ctx → Ty → Ty
  | .hole, d => d
  | .farr c cap, d => .farr (c.fill d) cap
  | .varr c cap, d => .varr (c.fill d) cap
  | .field pre c post m, d => .struct (pre ++ c.fill d :: post) m
  | .variant pre c post m, d => .union (pre ++ c.fill d :: post) m

/-- apply `g` to the value(s) sitting at the hole (all elements, for arrays) -/
def Ctx.map (g : Val → Val) : Ctx → Val → Val
  | .hole, v => g v
  | .farr c _, .arr vs => .arr (vs.map (c.map g))
  | .varr c _, .arr vs => .arr (vs.map (c.map g))
  | .field pre c _ _, .recd vs =>
      .recd (vs.take pre.length ++
        (match vs.drop pre.length with
         | x :: rest => c.map g x :: rest
         | [] => []))
  | .variant pre c _ _, .var tag v => if tag = pre.length then .var tag (c.map g v) else .var tag v
  | _, v => v

/-- what a reader knowing `fs ++ gs` makes of a value written with `fs` -/
def appendDefaults (gs : List Ty) : Val → Val
  | .recd vs => .recd (vs ++ dfltFields gs)
  | v => v

/-- what a reader knowing `n` fields makes of a value written with more -/
def dropFields (n : Nat) : Val → Val
  | .recd vs => .recd (vs.take n)
  | v => v

end Wire
