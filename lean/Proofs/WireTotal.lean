import Proofs.WireBasic
/-! The only ways `dec` can fail: array length above capacity, union tag out of range, delimiter header larger
    than the remaining data, invalid UTF-8.  In `_serdes.py` these are ArrayLengthError, UnionTagError,
    DelimiterHeaderError (all SerDesError) and UnicodeDecodeError (a ValueError). -/
namespace Wire

def Err.isDecodeError : Err → Bool
  | .arrayLength | .unionTag | .delimiterHeader | .value => true
  | .unionField | .type => false

def ErrOk (f : R → Except Err (Val × R)) : Prop := ∀ r e, f r = .error e → e.isDecodeError = true

theorem decRep_err {f : R → Except Err (Val × R)} (hf : ErrOk f) :
    ∀ (n : Nat) (r : R) (e : Err), decRep f n r = .error e → e.isDecodeError = true
  | 0, r, e, h => by simp [decRep] at h
  | n+1, r, e, h => by
      simp only [decRep, bind_err] at h
      rcases h with h | ⟨⟨v, r1⟩, _, h⟩
      · exact hf _ _ h
      · rcases h with h | ⟨_, _, h⟩
        · exact decRep_err hf n _ _ h
        · cases h

theorem unwrapDelim_err {body : R → Except Err (Val × R)} (hb : ErrOk body) (m : Mode) :
    ErrOk (fun r => unwrapDelim m r body) := by
  intro r e h
  cases m with
  | sealed => exact hb r e h
  | delimited x =>
    simp only [unwrapDelim] at h
    split at h
    · cases h; rfl
    · simp only [bind_err] at h
      rcases h with h | ⟨_, _, h⟩
      · exact hb _ _ h
      · cases h

mutual
theorem dec_err : ∀ (t : Ty), ErrOk (dec t)
  | .bool => by intro r e h; simp [dec] at h
  | .uint _ _ => by intro r e h; simp [dec] at h
  | .sint _ _ => by intro r e h; simp [dec] at h
  | .float _ _ => by intro r e h; simp [dec] at h
  | .byte => by intro r e h; simp [dec] at h
  | .utf8 => by intro r e h; simp [dec] at h
  | .void _ => by intro r e h; simp [dec] at h
  | .farr el cap => by
      intro r e h
      simp only [dec, bind_err] at h
      rcases h with h | ⟨_, _, h⟩
      · exact decRep_err (dec_err el) _ _ _ h
      · cases h
  | .varr el cap => by
      intro r e h
      simp only [dec] at h
      split at h
      · cases h; rfl
      · simp only [bind_err] at h
        rcases h with h | ⟨_, _, h⟩
        · exact decRep_err (dec_err el) _ _ _ h
        · split at h
          · cases h; rfl
          · cases h
  | .struct fs m => by
      intro r e h
      simp only [dec] at h
      refine unwrapDelim_err ?_ m r e h
      intro r e h
      simp only [bind_err] at h
      rcases h with h | ⟨_, _, h⟩
      · exact decFields_err fs _ _ h
      · cases h
  | .union fs m => by
      intro r e h
      simp only [dec] at h
      refine unwrapDelim_err ?_ m r e h
      intro r e h
      simp only [bind_err] at h
      rcases h with h | ⟨_, _, h⟩
      · exact decVariant_err fs _ _ _ h
      · cases h
theorem decFields_err : ∀ (ts : List Ty) (r : R) (e : Err), decFields ts r = .error e → e.isDecodeError = true
  | [], r, e, h => by simp [decFields] at h
  | t :: ts, r, e, h => by
      simp only [decFields, bind_err] at h
      rcases h with h | ⟨⟨v, r1⟩, _, h⟩
      · exact dec_err t _ _ h
      · rcases h with h | ⟨_, _, h⟩
        · exact decFields_err ts _ _ h
        · cases h
theorem decVariant_err : ∀ (ts : List Ty) (n : Nat) (r : R) (e : Err), decVariant ts n r = .error e →
    e.isDecodeError = true
  | [], _, r, e, h => by simp only [decVariant] at h; cases h; rfl
  | t :: _, 0, r, e, h => by simp only [decVariant] at h; exact dec_err t _ _ h
  | _ :: ts, n+1, r, e, h => by simp only [decVariant] at h; exact decVariant_err ts n _ _ h
end

end Wire
