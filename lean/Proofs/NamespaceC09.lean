import Proofs.NamespaceBasic
/-! Lemmas for C09 / C19: reference resolution is exact; an induction principle for the recursive, caching reader. -/
namespace Ns

/-! ### `resolve` -/

theorem pick_ok {full : String} {F : List Def} {x : Def} (h : pick full F = .ok x) : F = [x] ∧ x.name = full := by
  match F, h with
  | [], h => simp [pick] at h
  | [y], h =>
    by_cases hn : (y.name != full) = true
    · simp [pick, hn] at h
    · simp only [pick, hn] at h
      have : y = x := by simpa using h
      subst this
      exact ⟨rfl, by simpa using hn⟩
  | y :: z :: _, h =>
    by_cases hn : (y.name != z.name) = true <;> simp [pick, hn] at h

theorem pick_error_class {full : String} {F : List Def} {e : Err} (h : pick full F = .error e) :
    e = .undefinedType ∨ e = .nameCollision ∨ e = .collision := by
  match F, h with
  | [], h => simp [pick] at h; simp [← h]
  | [y], h =>
    by_cases hn : (y.name != full) = true
    · simp [pick, hn] at h; simp [← h]
    · simp [pick, hn] at h
  | y :: z :: _, h =>
    by_cases hn : (y.name != z.name) = true <;> simp [pick, hn] at h <;> simp [← h]

theorem resolve_ok {L : List Def} {d : Def} {r : Ref} {x : Def} (h : resolve L d r = .ok x) :
    x ∈ L ∧ x.name = completeName d r.name ∧ x.major = r.major ∧ x.minor = r.minor ∧
      ∀ y ∈ L, refMatches (completeName d r.name) r.major r.minor y = true → y = x := by
  unfold resolve at h
  obtain ⟨hF, hn⟩ := pick_ok h
  have hx : x ∈ L.filter (refMatches (completeName d r.name) r.major r.minor) := by rw [hF]; simp
  have hm := (List.mem_filter.mp hx).2
  simp only [refMatches, Bool.and_eq_true, beq_iff_eq] at hm
  refine ⟨(List.mem_filter.mp hx).1, hn, hm.1.2, hm.2, ?_⟩
  intro y hy hmy
  have : y ∈ L.filter (refMatches (completeName d r.name) r.major r.minor) := List.mem_filter.mpr ⟨hy, hmy⟩
  rw [hF] at this
  simpa using this

/-! ### the reader: an induction principle

`R x t` is any relation between a definition and a type, `GoodL` any property of lookup lists that survives the removal
of a key.  If one step of `readBody` establishes `R` for its result, given a reader `rd` for the dependencies that
does, then so does `readObj` - for every lookup list, definition and cache whose entries satisfy `R`. -/

def CacheOk (R : Def → Ty → Prop) (st : St) : Prop := ∀ x t, (x, t) ∈ st.cache → R x t

def Spec1 (R : Def → Ty → Prop) (d : Def) (st : St) (out : Res Ty) : Prop :=
  CacheOk R st → CacheOk R out.2 ∧ ∀ t, out.1 = .ok t → R d t

theorem lookup_mem {α β : Type} [BEq α] [LawfulBEq α] {l : List (α × β)} {a : α} {b : β} (h : l.lookup a = some b) : (a, b) ∈ l := by
  induction l with
  | nil => simp [List.lookup] at h
  | cons p r ih =>
    obtain ⟨a', b'⟩ := p
    simp only [List.lookup] at h
    split at h
    · rename_i heq
      have : a = a' := by simpa using heq
      cases h; subst this; simp
    · exact List.mem_cons_of_mem _ (ih h)

theorem readObj_spec (au : Bool) (R : Def → Ty → Prop) (GoodL : List Def → Prop)
    (hdrop : ∀ L x, GoodL L → GoodL (dropKey L x))
    (hbody : ∀ (L : List Def) (d : Def) (rd : (x : Def) → x ∈ dropKey L d → St → Res Ty) (st : St), GoodL L →
      (∀ x hx s, Spec1 R x s (rd x hx s)) → Spec1 R d st (readBody au (dropKey L d) d rd st)) :
    ∀ (n : Nat) (L : List Def) (d : Def) (st : St), (dropKey L d).length = n → GoodL L → Spec1 R d st (readObj au L d st) := by
  intro n
  induction n using Nat.strongRecOn with
  | _ n ih =>
    intro L d st hn hL hc
    rw [readObj]
    split
    · rename_i t ht
      exact ⟨hc, fun t' h' => by cases h'; exact hc _ _ (lookup_mem ht)⟩
    · have hrd : ∀ x (hx : x ∈ dropKey L d) s, Spec1 R x s (readObj au (dropKey L d) x s) := by
        intro x hx s
        exact ih _ (by rw [← hn]; exact dropKey_length_lt hx) (dropKey L d) x s rfl (hdrop L d hL)
      have hb := hbody L d (fun x _ s => readObj au (dropKey L d) x s) st hL hrd hc
      split
      · rename_i t st' heq
        rw [heq] at hb
        refine ⟨?_, fun t' h' => by cases h'; exact hb.2 t rfl⟩
        intro x t' hm
        simp only [List.mem_cons] at hm
        rcases hm with hm | hm
        · cases hm; exact hb.2 t rfl
        · exact hb.1 x t' hm
      · rename_i e st' heq
        rw [heq] at hb
        exact ⟨hb.1, fun t' h' => by cases h'⟩

/-! ### the stand-alone type of a definition, declaratively -/

/-- `x` is the definition in the base lookup list `Lb` that the reference `r` of `d` names: full name equal to the
    completed reference, version exactly M.m, and every element of `Lb` with that (name, version) is `x` itself. -/
def ExactRef (Lb : List Def) (d : Def) (r : Ref) (x : Def) : Prop :=
  x ∈ Lb ∧ x.key = (completeName d r.name, r.major, r.minor) ∧ ∀ y ∈ Lb, y.key = x.key → y = x

theorem ExactRef.unique {Lb : List Def} {d : Def} {r : Ref} {x y : Def} (hx : ExactRef Lb d r x) (hy : ExactRef Lb d r y) : x = y :=
  (hy.2.2 x hx.1 (by rw [hx.2.1, hy.2.1]))

/-- the definitions the references of a statement list name, in order -/
def RefsTo (Lb : List Def) (d : Def) : List Stmt → List Def → Prop
  | [], xs => xs = []
  | .ref r :: rest, xs => ∃ x xs', xs = x :: xs' ∧ ExactRef Lb d r x ∧ RefsTo Lb d rest xs'
  | _ :: rest, xs => RefsTo Lb d rest xs

theorem RefsTo.unique {Lb : List Def} {d : Def} : ∀ {stmts : List Stmt} {xs ys : List Def},
    RefsTo Lb d stmts xs → RefsTo Lb d stmts ys → xs = ys
  | [], _, _, h1, h2 => by simp only [RefsTo] at h1 h2; rw [h1, h2]
  | .ref r :: rest, _, _, h1, h2 => by
    simp only [RefsTo] at h1 h2
    obtain ⟨x, xs', rfl, hx, h1'⟩ := h1
    obtain ⟨y, ys', rfl, hy, h2'⟩ := h2
    rw [hx.unique hy, RefsTo.unique h1' h2']
  | .prim _ :: rest, _, _, h1, h2 => by simp only [RefsTo] at h1 h2; exact RefsTo.unique h1 h2
  | .print _ :: rest, _, _, h1, h2 => by simp only [RefsTo] at h1 h2; exact RefsTo.unique h1 h2
  | .bad :: rest, _, _, h1, h2 => by simp only [RefsTo] at h1 h2; exact RefsTo.unique h1 h2

/-- the shape of the fields of a statement list -/
def shapeOf : List Stmt → List (Option Nat)
  | [] => []
  | .prim b :: rest => some b :: shapeOf rest
  | .ref _ :: rest => none :: shapeOf rest
  | _ :: rest => shapeOf rest

mutual
/-- `Den au Lb t d`: `t` is the type of `d` read on its own against the lookup list `Lb` - every reference names exactly
    one definition of `Lb` (`ExactRef`), the nested types are in turn the stand-alone types of those definitions. -/
def Den (au : Bool) (Lb : List Def) : Ty → Def → Prop
  | .mk info nested, d =>
    d.text.garbage = false ∧ ∃ xs1 xs2 : List Def, RefsTo Lb d d.text.req.stmts xs1 ∧
      (match d.text.resp with
        | none => xs2 = []
        | some rs => RefsTo Lb d rs.stmts xs2) ∧
      DenList au Lb nested (xs1 ++ xs2) ∧
      assemble au d (shapeOf d.text.req.stmts) (nested.take xs1.length)
        (d.text.resp.map fun rs => (rs.mode, shapeOf rs.stmts, nested.drop xs1.length)) = .ok (.mk info nested)
def DenList (au : Bool) (Lb : List Def) : List Ty → List Def → Prop
  | [], xs => xs = []
  | t :: ts, xs => ∃ x xs', xs = x :: xs' ∧ Den au Lb t x ∧ DenList au Lb ts xs'
end

mutual
theorem Den.unique {au : Bool} {Lb : List Def} : ∀ {t1 t2 : Ty} {d : Def}, Den au Lb t1 d → Den au Lb t2 d → t1 = t2
  | .mk i1 n1, .mk i2 n2, d, h1, h2 => by
    simp only [Den] at h1 h2
    obtain ⟨_, xs1, xs2, hr1, hr2, hl, ha⟩ := h1
    obtain ⟨_, ys1, ys2, hq1, hq2, hm, hb⟩ := h2
    have e1 : xs1 = ys1 := hr1.unique hq1
    subst e1
    have e2 : xs2 = ys2 := by
      cases hresp : d.text.resp with
      | none => simp only [hresp] at hr2 hq2; rw [hr2, hq2]
      | some rs => simp only [hresp] at hr2 hq2; exact hr2.unique hq2
    subst e2
    have en : n1 = n2 := DenList.unique hl hm
    subst en
    rw [ha] at hb
    exact (Except.ok.inj hb)
theorem DenList.unique {au : Bool} {Lb : List Def} : ∀ {l1 l2 : List Ty} {xs : List Def},
    DenList au Lb l1 xs → DenList au Lb l2 xs → l1 = l2
  | [], [], _, _, _ => rfl
  | [], _ :: _, _, h1, h2 => by
    simp only [DenList] at h1 h2
    obtain ⟨x, xs', rfl, _⟩ := h2
    cases h1
  | _ :: _, [], _, h1, h2 => by
    simp only [DenList] at h1 h2
    obtain ⟨x, xs', rfl, _⟩ := h1
    cases h2
  | t1 :: r1, t2 :: r2, _, h1, h2 => by
    simp only [DenList] at h1 h2
    obtain ⟨x, xs', rfl, hx, h1'⟩ := h1
    obtain ⟨y, ys', e, hy, h2'⟩ := h2
    cases e
    rw [Den.unique hx hy, DenList.unique h1' h2']
end

/-! ### soundness of the reader with respect to the stand-alone type -/

/-- `L` is the base list with all definitions of some keys removed (what `read` does along a reference chain) -/
def KeySub (Lb L : List Def) : Prop := ∃ ks : List (String × Nat × Nat), L = Lb.filter (fun y => !ks.contains y.key)

theorem KeySub.refl (Lb : List Def) : KeySub Lb Lb := ⟨[], by simp; exact (List.filter_eq_self.mpr (fun _ _ => rfl)).symm⟩

theorem KeySub.drop {Lb L : List Def} (x : Def) (h : KeySub Lb L) : KeySub Lb (dropKey L x) := by
  obtain ⟨ks, rfl⟩ := h
  refine ⟨x.key :: ks, ?_⟩
  unfold dropKey
  rw [List.filter_filter]
  congr 1
  funext y
  by_cases hy : y.key = x.key <;> simp [hy]

theorem resolve_exact {Lb L : List Def} {d : Def} {r : Ref} {x : Def} (hL : KeySub Lb L) (h : resolve L d r = .ok x) :
    ExactRef Lb d r x := by
  obtain ⟨hx, hn, hma, hmi, huniq⟩ := resolve_ok h
  obtain ⟨ks, rfl⟩ := hL
  have hx' := List.mem_filter.mp hx
  refine ⟨hx'.1, by simp [Def.key, hn, hma, hmi], ?_⟩
  intro y hy hk
  apply huniq y
  · apply List.mem_filter.mpr
    refine ⟨hy, ?_⟩
    rw [hk]; exact hx'.2
  · simp only [Def.key, Prod.mk.injEq] at hk
    simp [refMatches, hk.1, hn, hk.2.1, hma, hk.2.2, hmi]

theorem DenList.length {au : Bool} {Lb : List Def} : ∀ {l : List Ty} {xs : List Def}, DenList au Lb l xs → l.length = xs.length
  | [], _, h => by simp only [DenList] at h; subst h; rfl
  | _ :: r, _, h => by
    simp only [DenList] at h
    obtain ⟨x, xs', rfl, _, h'⟩ := h
    simp [DenList.length h']

theorem DenList.append {au : Bool} {Lb : List Def} : ∀ {l1 l2 : List Ty} {xs ys : List Def},
    DenList au Lb l1 xs → DenList au Lb l2 ys → DenList au Lb (l1 ++ l2) (xs ++ ys)
  | [], _, _, _, h1, h2 => by simp only [DenList] at h1; subst h1; simpa using h2
  | t :: r, _, _, _, h1, h2 => by
    simp only [DenList] at h1
    obtain ⟨x, xs', rfl, hx, h1'⟩ := h1
    simp only [List.cons_append, DenList]
    exact ⟨x, xs' ++ _, rfl, hx, DenList.append h1' h2⟩

abbrev DenR (au : Bool) (Lb : List Def) : Def → Ty → Prop := fun x t => Den au Lb t x

theorem runStmts_den (au : Bool) {Lb L : List Def} (d : Def) (rd : (x : Def) → x ∈ L → St → Res Ty) (hL : KeySub Lb L)
    (hrd : ∀ x hx s, Spec1 (DenR au Lb) x s (rd x hx s)) :
    ∀ (stmts : List Stmt) (st : St), CacheOk (DenR au Lb) st →
      CacheOk (DenR au Lb) (runStmts L d rd stmts st).2 ∧
      ∀ sh ns, (runStmts L d rd stmts st).1 = .ok (sh, ns) →
        sh = shapeOf stmts ∧ ∃ xs, RefsTo Lb d stmts xs ∧ DenList au Lb ns xs := by
  intro stmts
  induction stmts with
  | nil =>
    intro st hc
    simp only [runStmts]
    exact ⟨hc, fun sh ns h => by cases h; exact ⟨rfl, [], rfl, rfl⟩⟩
  | cons s rest ih =>
    intro st hc
    cases s with
    | prim b =>
      simp only [runStmts]
      have := ih st hc
      split
      · rename_i sh ns st' heq
        rw [heq] at this
        refine ⟨this.1, fun sh' ns' h => ?_⟩
        cases h
        obtain ⟨e, xs, hx, hd⟩ := this.2 sh ns rfl
        exact ⟨by simp [shapeOf, e], xs, hx, hd⟩
      · rename_i e st' heq
        rw [heq] at this
        exact ⟨this.1, fun _ _ h => by cases h⟩
    | print n =>
      simp only [runStmts]
      have := ih { st with prints := st.prints ++ [n] } hc
      refine ⟨this.1, fun sh ns h => ?_⟩
      obtain ⟨e, xs, hx, hd⟩ := this.2 sh ns h
      exact ⟨by simp [shapeOf, e], xs, hx, hd⟩
    | bad =>
      simp only [runStmts]
      exact ⟨hc, fun _ _ h => by cases h⟩
    | ref r =>
      simp only [runStmts]
      split
      · exact ⟨hc, fun _ _ h => by cases h⟩
      · rename_i x hres
        have hsp := hrd x (resolve_mem hres) { st with visited := st.visited ++ [x] } hc
        split
        · rename_i e st1 heq
          rw [heq] at hsp
          exact ⟨hsp.1, fun _ _ h => by cases h⟩
        · rename_i t st1 heq
          rw [heq] at hsp
          split
          · exact ⟨hsp.1, fun _ _ h => by cases h⟩
          · have := ih st1 hsp.1
            split
            · rename_i sh ns st2 heq2
              rw [heq2] at this
              refine ⟨this.1, fun sh' ns' h => ?_⟩
              cases h
              obtain ⟨e, xs, hx, hd⟩ := this.2 sh ns rfl
              refine ⟨by simp [shapeOf, e], x :: xs, ?_, ?_⟩
              · simp only [RefsTo]; exact ⟨x, xs, rfl, resolve_exact hL hres, hx⟩
              · simp only [DenList]; exact ⟨x, xs, rfl, hsp.2 t rfl, hd⟩
            · rename_i e st2 heq2
              rw [heq2] at this
              exact ⟨this.1, fun _ _ h => by cases h⟩

theorem finalize_nested {au : Bool} {d : Def} {req : SecInfo} {resp : Option SecInfo} {nested : List Ty} {t : Ty}
    (h : finalize au d req resp nested = .ok t) : t.nested = nested := by
  unfold finalize at h
  simp only at h
  repeat' split at h
  all_goals first
    | (injection h with h; subst h; rfl)
    | (injection h)

theorem assemble_nested {au : Bool} {d : Def} {sh1 : List (Option Nat)} {n1 : List Ty}
    {resp : Option (Mode × List (Option Nat) × List Ty)} {t : Ty} (h : assemble au d sh1 n1 resp = .ok t) :
    t.nested = n1 ++ (match resp with | none => [] | some (_, _, n2) => n2) := by
  cases resp with
  | none =>
    simp only [assemble] at h
    split at h
    · cases h
    · simp [finalize_nested h]
  | some p =>
    obtain ⟨m2, sh2, n2⟩ := p
    simp only [assemble] at h
    split at h
    · exact finalize_nested h
    · cases h
    · cases h

theorem readBody_den (au : Bool) {Lb L : List Def} (d : Def) (rd : (x : Def) → x ∈ L → St → Res Ty) (st : St)
    (hL : KeySub Lb L) (hrd : ∀ x hx s, Spec1 (DenR au Lb) x s (rd x hx s)) :
    Spec1 (DenR au Lb) d st (readBody au L d rd st) := by
  intro hc
  unfold readBody
  split
  · exact ⟨hc, fun _ h => by cases h⟩
  · rename_i hg
    have hg' : d.text.garbage = false := by simpa using hg
    have h1 := runStmts_den au d rd hL hrd d.text.req.stmts st hc
    split
    · rename_i e st1 heq
      rw [heq] at h1
      exact ⟨h1.1, fun _ h => by cases h⟩
    · rename_i sh1 n1 st1 heq
      rw [heq] at h1
      obtain ⟨e1, xs1, hr1, hd1⟩ := h1.2 sh1 n1 rfl
      have hlen1 := hd1.length
      split
      · rename_i hresp
        refine ⟨h1.1, fun t ht => ?_⟩
        simp only at ht
        have hn := assemble_nested ht
        simp only [List.append_nil] at hn
        cases t with
        | mk info nested =>
          simp only [Ty.nested] at hn
          subst hn
          simp only [DenR, Den]
          refine ⟨hg', xs1, [], hr1, by simp [hresp], by simpa using hd1, ?_⟩
          rw [hresp, ← hlen1, List.take_length, ← e1]
          exact ht
      · rename_i rs hresp
        have h2 := runStmts_den au d rd hL hrd rs.stmts st1 h1.1
        split
        · rename_i e st2 heq2
          rw [heq2] at h2
          exact ⟨h2.1, fun _ h => by cases h⟩
        · rename_i sh2 n2 st2 heq2
          rw [heq2] at h2
          obtain ⟨e2, xs2, hr2, hd2⟩ := h2.2 sh2 n2 rfl
          refine ⟨h2.1, fun t ht => ?_⟩
          simp only at ht
          have hn := assemble_nested ht
          cases t with
          | mk info nested =>
            simp only [Ty.nested] at hn
            subst hn
            simp only [DenR, Den]
            refine ⟨hg', xs1, xs2, hr1, by simp [hresp]; exact hr2, hd1.append hd2, ?_⟩
            rw [hresp, ← hlen1, List.take_left', List.drop_left', ← e1]
            · simp only [Option.map_some, ← e2]; exact ht
            · rfl
            · rfl

/-- Whatever the reader returns - through whichever referrer, lookup sublist or cache history - is the stand-alone type. -/
theorem readObj_den (au : Bool) (Lb L : List Def) (d : Def) (st : St) (hL : KeySub Lb L)
    (hc : CacheOk (DenR au Lb) st) :
    CacheOk (DenR au Lb) (readObj au L d st).2 ∧ ∀ t, (readObj au L d st).1 = .ok t → Den au Lb t d :=
  readObj_spec au (DenR au Lb) (KeySub Lb) (fun _ x h => h.drop x)
    (fun _ d rd st hL hrd => readBody_den au d rd st (hL.drop d) hrd) _ L d st rfl hL hc

end Ns
