import Proofs.RulesAccepted
/-!
  Further kernels of C05 for all values: the length of a full name, the declarative reading of "no service type as an
  attribute type", and monotonicity of the rule conjunction in the obvious directions (larger extent, deprecating the
  enclosing type, appending a field never shortens the longest representation).
-/
namespace Rules
open Spec

/-! ### full names -/

/-- the length of a full name: the components plus one separator between neighbours -/
theorem fullName_length (comps : List String) :
    (fullName comps).length = (comps.map String.length).sum + (comps.length - 1) := by
  unfold fullName
  induction comps with
  | nil => rfl
  | cons c rest ih =>
    cases rest with
    | nil => simp
    | cons d rest =>
      rw [String.intercalate_cons_cons, String.length_append, String.length_append, ih]
      have : ".".length = 1 := rfl
      simp only [List.map_cons, List.sum_cons, List.length_cons, this]
      omega

/-! ### no service type as an attribute type -/

/-- the scalar a type is made of -/
def Ty.elem : Ty → Scalar
  | .scalar s => s
  | .fixedArr e _ => e
  | .varArr e _ => e

/-- no attribute of any schema is of a service type, nor an array of one -/
def ServiceFree (b : BState) : Prop :=
  ∀ sc ∈ b.schemas, ∀ a ∈ sc.attrs, ∀ i, a.ty.elem = .comp i → i.service = false

theorem Ty.usesService_eq_false_iff (t : Ty) : t.usesService = false ↔ ∀ i, t.elem = .comp i → i.service = false := by
  cases t with
  | scalar s => cases s <;> simp [Ty.usesService, Scalar.isService, Ty.elem]
  | fixedArr e c => cases e <;> simp [Ty.usesService, Scalar.isService, Ty.elem]
  | varArr e c => cases e <;> simp [Ty.usesService, Scalar.isService, Ty.elem]

theorem usesService_eq_false_iff (b : BState) : usesService b = false ↔ ServiceFree b := by
  unfold usesService ServiceFree BState.schemas
  simp only [List.any_eq_false, Bool.not_eq_true, Ty.usesService_eq_false_iff]

/-! ### monotonicity -/

/-- a larger extent (still a whole number of bytes) keeps a schema valid -/
theorem Spec.SchemaValid.extent_mono {comps : List String} {dep : Bool} {sc : RSchema} {e e' : Int}
    (h : SchemaValid comps dep { sc with mode := some (.extent e) }) (hle : e ≤ e') (h8 : e' % 8 = 0) :
    SchemaValid comps dep { sc with mode := some (.extent e') } := by
  obtain ⟨h1, h2, h3, h4, h5⟩ := h
  refine ⟨h1, h2, h3, h4, Or.inr ⟨e', rfl, h8, ?_⟩⟩
  rcases h5 with h5 | ⟨e0, he0, _, hl⟩
  · cases h5
  · simp only [Option.some.injEq, RMode.extent.injEq] at he0
    subst he0
    exact Int.le_trans hl hle

/-- sealing is the strongest promise: a sealed schema stays valid with any byte-multiple extent that covers it -/
theorem Spec.SchemaValid.sealed_to_extent {comps : List String} {dep : Bool} {sc : RSchema} {e : Int}
    (h : SchemaValid comps dep { sc with mode := some .sealed }) (hle : (longest sc : Int) ≤ e) (h8 : e % 8 = 0) :
    SchemaValid comps dep { sc with mode := some (.extent e) } := by
  obtain ⟨h1, h2, h3, h4, _⟩ := h
  exact ⟨h1, h2, h3, h4, Or.inr ⟨e, rfl, h8, hle⟩⟩

theorem Spec.PlaceOk.deprecate {t : Ty} {u : Bool} (h : PlaceOk t u false) : PlaceOk t u true := by
  cases t with
  | scalar s => cases s <;> simp_all [PlaceOk]
  | fixedArr e c => cases e <;> simp_all [PlaceOk]
  | varArr e c => cases e <;> simp_all [PlaceOk]

/-- marking the enclosing type `@deprecated` keeps a schema valid -/
theorem Spec.SchemaValid.deprecate {comps : List String} {sc : RSchema} (h : SchemaValid comps false sc) :
    SchemaValid comps true sc :=
  ⟨h.typeName, h.uniqueNames, fun a ha => Spec.PlaceOk.deprecate (h.placement a ha), h.unionArity, h.mode⟩

theorem bitLength_mono {m n : Nat} (h : m ≤ n) : bitLength m ≤ bitLength n :=
  (bitLength_le_iff m _).mpr (Nat.lt_of_le_of_lt h (bitLength_spec n).1)

theorem pow2ceil8_mono {a b : Nat} (h : a ≤ b) : pow2ceil8 a ≤ pow2ceil8 b := by
  unfold pow2ceil8
  by_cases a8 : a ≤ 8 <;> by_cases a16 : a ≤ 16 <;> by_cases a32 : a ≤ 32 <;> by_cases a64 : a ≤ 64 <;>
    by_cases b8 : b ≤ 8 <;> by_cases b16 : b ≤ 16 <;> by_cases b32 : b ≤ 32 <;> by_cases b64 : b ≤ 64 <;>
    simp only [a8, a16, a32, a64, b8, b16, b32, b64, if_true, if_false] <;> omega

theorem foldl_max_le (l : List Nat) (x B : Nat) (hx : x ≤ B) (hl : ∀ y ∈ l, y ≤ B) : l.foldl Nat.max x ≤ B := by
  induction l generalizing x with
  | nil => exact hx
  | cons a l ih =>
    rw [List.foldl_cons]
    exact ih _ (Nat.max_le.mpr ⟨hx, hl a (by simp)⟩) fun y hy => hl y (by simp [hy])

theorem le_foldl_max' (l : List Nat) (x : Nat) : x ≤ l.foldl Nat.max x ∧ ∀ y ∈ l, y ≤ l.foldl Nat.max x := by
  induction l generalizing x with
  | nil => simp
  | cons a l ih =>
    rw [List.foldl_cons]
    obtain ⟨h1, h2⟩ := ih (Nat.max x a)
    refine ⟨Nat.le_trans (Nat.le_max_left _ _) h1, fun y hy => ?_⟩
    rcases List.mem_cons.mp hy with rfl | hy
    · exact Nat.le_trans (Nat.le_max_right _ _) h1
    · exact h2 y hy

theorem foldl_max_mono (l l' : List Nat) (x x' : Nat) (hx : x ≤ x') (hl : ∀ y ∈ l, y ∈ l') :
    l.foldl Nat.max x ≤ l'.foldl Nat.max x' :=
  foldl_max_le l x _ (Nat.le_trans hx (le_foldl_max' l' x').1) fun y hy => (le_foldl_max' l' x').2 y (hl y hy)

/-- appending a field never shortens the longest representation of a structure … -/
theorem structMax_append (fs : List Ty) (t : Ty) : structMax fs ≤ structMax (fs ++ [t]) := by
  unfold structMax
  rw [List.foldl_append]
  apply padTo_mono
  simp only [List.foldl_cons, List.foldl_nil]
  have ha : 0 < t.align := by rcases Ty.align_cases t with h | h <;> omega
  exact Nat.le_trans (le_padTo t.align _ ha) (Nat.le_add_right _ _)

/-- … nor of a union -/
theorem unionMax_append (fs : List Ty) (t : Ty) : unionMax fs ≤ unionMax (fs ++ [t]) := by
  unfold unionMax
  apply padTo_mono
  apply Nat.add_le_add
  · apply foldl_max_mono
    · exact pow2ceil8_mono (bitLength_mono (by simp))
    · intro y hy; simp only [List.map_append, List.mem_append]; exact Or.inl hy
  · apply foldl_max_mono _ _ _ _ (Nat.le_refl _)
    intro y hy; simp only [List.map_append, List.mem_append]; exact Or.inl hy

end Rules
