import Proofs.NamespaceC19
/-! Lemmas for C09: where an error of the recursive reader comes from - the definition being read or, at any depth, one
    of the definitions its references name; the fault is always local to one definition of the reference chain. -/
namespace Ns

/-- `y` is reached from `d` through a chain of exactly resolved references (`ExactRef`) written in parsing texts -/
inductive RefChain (Lb : List Def) (d : Def) : Def → Prop where
  | refl : RefChain Lb d d
  | step {x y : Def} {r : Ref} : RefChain Lb d x → x.text.garbage = false → r ∈ x.text.refs → ExactRef Lb x r y → RefChain Lb d y

theorem RefChain.head {Lb : List Def} {d x y : Def} {r : Ref} (hg : d.text.garbage = false) (hr : r ∈ d.text.refs)
    (he : ExactRef Lb d r x) (h : RefChain Lb x y) : RefChain Lb d y := by
  induction h with
  | refl => exact RefChain.step RefChain.refl hg hr he
  | step _ hg' hr' he' ih => exact RefChain.step ih hg' hr' he'

def hasBad (t : Text) : Prop := Stmt.bad ∈ t.req.stmts ∨ ∃ rs, t.resp = some rs ∧ Stmt.bad ∈ rs.stmts

/-- The error `e` is a fault of the definition `x` itself: its text does not parse, contains a statement that violates a
    local rule, one of its references does not resolve (missing, duplicated, case-only twin: `e` is the class `resolve`
    reports against the lookup list with some keys removed), one of its references names a service type, or the type
    assembled from its own fields violates a rule (serialization mode, extent, name, version, port-ID). -/
def LocalFault (au : Bool) (Lb : List Def) (x : Def) (e : Err) : Prop :=
  (x.text.garbage = true ∧ e = .localInvalid) ∨
  (x.text.garbage = false ∧
    ((hasBad x.text ∧ e = .localInvalid) ∨
     (∃ r ∈ x.text.refs, ∃ L, KeySub Lb L ∧ resolve L x r = .error e) ∨
     (∃ r ∈ x.text.refs, ∃ y, ExactRef Lb x r y ∧ e = .serviceField) ∨
     (∃ sh n resp, assemble au x sh n resp = .error e)))

/-- why a statement list fails -/
theorem runStmts_err {L : List Def} (d : Def) (rd : (x : Def) → x ∈ L → St → Res Ty) :
    ∀ (stmts : List Stmt) (st : St) (e : Err), (runStmts L d rd stmts st).1 = .error e →
      (∃ r ∈ refsOf stmts, ∃ x, ∃ (hx : resolve L d r = .ok x), ∃ s, (rd x (resolve_mem hx) s).1 = .error e) ∨
      (Stmt.bad ∈ stmts ∧ e = .localInvalid) ∨
      (∃ r ∈ refsOf stmts, resolve L d r = .error e) ∨
      (∃ r ∈ refsOf stmts, ∃ x, resolve L d r = .ok x ∧ e = .serviceField) := by
  intro stmts
  induction stmts with
  | nil => intro st e h; simp [runStmts] at h
  | cons s rest ih =>
    intro st e h
    have lift : ((∃ r ∈ refsOf rest, ∃ x, ∃ (hx : resolve L d r = .ok x), ∃ s, (rd x (resolve_mem hx) s).1 = .error e) ∨
        (Stmt.bad ∈ rest ∧ e = .localInvalid) ∨ (∃ r ∈ refsOf rest, resolve L d r = .error e) ∨
        (∃ r ∈ refsOf rest, ∃ x, resolve L d r = .ok x ∧ e = .serviceField)) →
        (∀ r, r ∈ refsOf rest → r ∈ refsOf (s :: rest)) →
        ((∃ r ∈ refsOf (s :: rest), ∃ x, ∃ (hx : resolve L d r = .ok x), ∃ s, (rd x (resolve_mem hx) s).1 = .error e) ∨
        (Stmt.bad ∈ s :: rest ∧ e = .localInvalid) ∨ (∃ r ∈ refsOf (s :: rest), resolve L d r = .error e) ∨
        (∃ r ∈ refsOf (s :: rest), ∃ x, resolve L d r = .ok x ∧ e = .serviceField)) := by
      intro h hsub
      rcases h with ⟨r, hr, x, hx, s', hs⟩ | ⟨hb, he⟩ | ⟨r, hr, h⟩ | ⟨r, hr, x, h⟩
      · exact Or.inl ⟨r, hsub r hr, x, hx, s', hs⟩
      · exact Or.inr (Or.inl ⟨List.mem_cons_of_mem _ hb, he⟩)
      · exact Or.inr (Or.inr (Or.inl ⟨r, hsub r hr, h⟩))
      · exact Or.inr (Or.inr (Or.inr ⟨r, hsub r hr, x, h⟩))
    cases s with
    | prim b =>
      simp only [runStmts] at h
      split at h
      · cases h
      · rename_i e' st' heq
        cases h
        exact lift (ih st e (by rw [heq])) (fun r hr => by simpa [refsOf] using hr)
    | print n =>
      simp only [runStmts] at h
      exact lift (ih _ e h) (fun r hr => by simpa [refsOf] using hr)
    | bad =>
      simp only [runStmts] at h
      cases h
      exact Or.inr (Or.inl ⟨by simp, rfl⟩)
    | ref r =>
      cases hres : resolve L d r with
      | error e' =>
        rw [runStmts_ref_err hres] at h
        cases h
        exact Or.inr (Or.inr (Or.inl ⟨r, by simp [refsOf], hres⟩))
      | ok x =>
        rw [runStmts_ref_ok hres] at h
        unfold afterRef at h
        split at h
        · rename_i e' st1 heq
          cases h
          exact Or.inl ⟨r, by simp [refsOf], x, hres, _, by rw [heq]⟩
        · rename_i t st1 heq
          split at h
          · cases h
            exact Or.inr (Or.inr (Or.inr ⟨r, by simp [refsOf], x, hres, rfl⟩))
          · split at h
            · cases h
            · rename_i e' st2 heq2
              cases h
              exact lift (ih st1 e (by rw [heq2])) (fun r' hr' => by simp [refsOf, hr'])

/-- what a reader of dependencies must satisfy: its errors originate in a definition of the reference chain -/
def ErrSpec (au : Bool) (Lb : List Def) (x : Def) (out : Res Ty) : Prop :=
  ∀ e, out.1 = .error e → ∃ y, RefChain Lb x y ∧ LocalFault au Lb y e

theorem readBody_err (au : Bool) {Lb L : List Def} (d : Def) (rd : (x : Def) → x ∈ L → St → Res Ty) (st : St)
    (hL : KeySub Lb L) (hrd : ∀ x hx s, ErrSpec au Lb x (rd x hx s)) : ErrSpec au Lb d (readBody au L d rd st) := by
  intro e h
  unfold readBody at h
  by_cases hg : d.text.garbage = true
  · simp only [hg, if_true] at h
    cases h
    exact ⟨d, RefChain.refl, Or.inl ⟨hg, rfl⟩⟩
  · have hg' : d.text.garbage = false := by simpa using hg
    simp only [hg', Bool.false_eq_true, if_false] at h
    have key : ∀ stmts st', (∀ r ∈ refsOf stmts, r ∈ d.text.refs) → (Stmt.bad ∈ stmts → hasBad d.text) →
        (runStmts L d rd stmts st').1 = .error e → ∃ y, RefChain Lb d y ∧ LocalFault au Lb y e := by
      intro stmts st' hsub hbad herr
      rcases runStmts_err d rd stmts st' e herr with ⟨r, hr, x, hx, s, hs⟩ | ⟨hb, he⟩ | ⟨r, hr, h⟩ | ⟨r, hr, x, hx, he⟩
      · obtain ⟨y, hy, hf⟩ := hrd x (resolve_mem hx) s e hs
        exact ⟨y, RefChain.head hg' (hsub r hr) (resolve_exact hL hx) hy, hf⟩
      · exact ⟨d, RefChain.refl, Or.inr ⟨hg', Or.inl ⟨hbad hb, he⟩⟩⟩
      · exact ⟨d, RefChain.refl, Or.inr ⟨hg', Or.inr (Or.inl ⟨r, hsub r hr, L, hL, h⟩)⟩⟩
      · exact ⟨d, RefChain.refl, Or.inr ⟨hg', Or.inr (Or.inr (Or.inl ⟨r, hsub r hr, x, resolve_exact hL hx, he⟩))⟩⟩
    split at h
    · rename_i e' st1 heq
      cases h
      exact key d.text.req.stmts st (fun r hr => by simp [Text.refs, hr]) (fun hb => Or.inl hb) (by rw [heq])
    · rename_i sh1 n1 st1 heq
      split at h
      · simp only at h
        exact ⟨d, RefChain.refl, Or.inr ⟨hg', Or.inr (Or.inr (Or.inr ⟨sh1, n1, none, h⟩))⟩⟩
      · rename_i rs hresp
        split at h
        · rename_i e' st2 heq2
          cases h
          exact key rs.stmts st1 (fun r hr => by simp [Text.refs, hresp, hr]) (fun hb => Or.inr ⟨rs, hresp, hb⟩) (by rw [heq2])
        · simp only at h
          exact ⟨d, RefChain.refl, Or.inr ⟨hg', Or.inr (Or.inr (Or.inr ⟨_, _, _, h⟩))⟩⟩

/-- An error of `read` - at whatever depth it is raised - is a local fault of one definition on the chain of resolved
    references that starts at the definition being read. -/
theorem readObj_err (au : Bool) (Lb L : List Def) (d : Def) (st : St) (hL : KeySub Lb L) :
    ErrSpec au Lb d (readObj au L d st) := by
  induction L, d, st using readObj.induct au with
  | case1 L d st t ht =>
    intro e h; rw [readObj] at h; simp only [ht] at h; cases h
  | case2 L d st hn t st' hb ih =>
    intro e h; rw [readObj] at h; simp only [hn, hb] at h; cases h
  | case3 L d st hn e' st' hb ih =>
    intro e h
    rw [readObj] at h
    simp only [hn, hb] at h
    cases h
    have := readBody_err au d (fun x hx s => readObj au (dropKey L d) x s) st (hL.drop d) (fun x hx s => ih x hx s (hL.drop d))
    exact this e' (by rw [hb])

end Ns
