import Model.WireIO
import Proofs.WireBasic
import Proofs.BitIOReader
/-!
  `WireIO.encW` / `WireIO.decR` (the codec as a driver of the byte-buffer `_BitWriter` / `_BitReader` with both of
  their code paths) compute exactly `Wire.enc` / `Wire.dec` (the codec over an abstract bit stream).
-/
namespace WireIO
open Wire (Ty Val Err Mode Cast)
open BitIO (W Rd)

/-! ## Bridging the two vocabularies -/

theorem zeros_eq (n : ℕ) : BitIO.zeros n = Wire.zeros n := rfl

theorem natBits_eq (n v : ℕ) : BitIO.natBits n v = Wire.natBits n v := by
  induction n generalizing v with
  | zero => simp [BitIO.natBits, Wire.natBits]
  | succ n ih =>
    have h : BitIO.natBits (n + 1) v = BitIO.natBits 1 v ++ BitIO.natBits n (v >>> 1) := by
      rw [Nat.add_comm, BitIO.natBits_add]
    rw [h, ih]
    simp only [Wire.natBits, BitIO.natBits, Nat.shiftRight_one, Nat.testBit_zero, List.range_one, List.map_cons,
      List.map_nil, List.cons_append, List.nil_append, List.cons.injEq, and_true]
    by_cases h2 : v % 2 = 1 <;> simp [h2]

theorem ofBits_eq (bs : List Bool) : BitIO.ofBits bs = Wire.bitsNat bs := by
  induction bs with
  | nil => rfl
  | cons b bs ih => simp [BitIO.ofBits, Wire.bitsNat, ih]

theorem takeZ_eq (n : ℕ) (s : List Bool) : BitIO.takeZ n s = Wire.takeZ n s := by
  induction n generalizing s with
  | zero => simp [BitIO.takeZ, Wire.takeZ, BitIO.zeros]
  | succ n ih =>
    cases s with
    | nil =>
      have := ih []
      simp only [BitIO.takeZ, List.take_nil, List.length_nil, Nat.sub_zero, List.nil_append] at this ⊢
      rw [Wire.takeZ, ← this, BitIO.zeros_succ]
    | cons b s =>
      have := ih s
      simp only [BitIO.takeZ, List.take_succ_cons, List.length_cons, Nat.add_sub_add_right,
        List.cons_append] at this ⊢
      rw [Wire.takeZ, ← this]

/-- the number of pad bits `_BitWriter.align_to` / `_BitReader.align_to` computes is `Wire.padLen` -/
theorem padLen_eq (off a : ℕ) (ha : 0 < a) :
    Wire.padLen off a = if off % a ≠ 0 then a - off % a else 0 := by
  have := Nat.mod_lt off ha
  unfold Wire.padLen
  split
  · exact Nat.mod_eq_of_lt (by omega)
  · next h => simp only [ne_eq, Decidable.not_not] at h; simp [h]

/-! ## Writer -/

/-- `w'` is `w` after appending `bits` (and the invariant holds again) -/
def WS (w w' : W) (bits : List Bool) : Prop := w'.ok = true ∧ w'.logical = w.logical ++ bits

theorem WS.off {w w' : W} {bits : List Bool} (hw : w.ok = true) (h : WS w w' bits) :
    w'.off = w.off + bits.length := by
  rw [← BitIO.logical_length w' h.1, h.2, List.length_append, BitIO.logical_length w hw]

theorem WS.refl {w : W} (hw : w.ok = true) : WS w w [] := ⟨hw, by simp⟩

theorem WS.trans {w w1 w2 : W} {b1 b2 : List Bool} (h1 : WS w w1 b1) (h2 : WS w1 w2 b2) :
    WS w w2 (b1 ++ b2) := ⟨h2.1, by rw [h2.2, h1.2, List.append_assoc]⟩

theorem ws_writeBits (w : W) (v n : ℕ) (hw : w.ok = true) :
    WS w (BitIO.writeBits w v n) (Wire.natBits n v) := by
  obtain ⟨h1, _, h3⟩ := BitIO.writeBits_spec w v n hw
  exact ⟨h1, by rw [h3, natBits_eq]⟩

theorem ws_alignTo (w : W) (a : ℕ) (ha : 0 < a) (hw : w.ok = true) :
    WS w (BitIO.alignTo w a) (Wire.zeros (Wire.padLen w.off a)) := by
  rw [padLen_eq _ _ ha]
  unfold BitIO.alignTo
  rw [if_neg (by omega)]
  split
  · have := ws_writeBits w 0 (a - w.off % a) hw
    rwa [Wire.natBits_zero] at this
  · simpa [Wire.zeros] using WS.refl hw

theorem ws_writeBytes (bs : List ℕ) (w : W) (hw : w.ok = true) :
    WS w (writeBytes w bs) (bs.flatMap (Wire.natBits 8)) := by
  induction bs generalizing w with
  | nil => simpa [writeBytes] using WS.refl hw
  | cons b bs ih =>
    have h1 := ws_writeBits w b 8 hw
    have h2 := ih (BitIO.writeBits w b 8) h1.1
    simpa [writeBytes] using h1.trans h2

theorem natBits_add (a b v : ℕ) :
    Wire.natBits (a + b) v = Wire.natBits a v ++ Wire.natBits b (v >>> a) := by
  rw [← natBits_eq, ← natBits_eq, ← natBits_eq, BitIO.natBits_add]

theorem natBits_mod (k v : ℕ) : Wire.natBits k (v % 2 ^ k) = Wire.natBits k v := by
  rw [← natBits_eq, ← natBits_eq, BitIO.natBits_mod]

/-- the bytes of a little-endian `k`-byte pattern, written one after another, are its `8k` bits -/
theorem floatBytes_bits (k b : ℕ) :
    ((List.range k).map fun i => (b >>> (8 * i)) % 256).flatMap (Wire.natBits 8) = Wire.natBits (8 * k) b := by
  induction k with
  | zero => simp [Wire.natBits]
  | succ k ih =>
    rw [List.range_succ, List.map_append, List.flatMap_append, ih, Nat.mul_succ, natBits_add]
    simp only [List.map_cons, List.map_nil, List.flatMap_cons, List.flatMap_nil, List.append_nil]
    rw [show (256 : ℕ) = 2 ^ 8 from rfl, natBits_mod]

theorem floatBytes_spec (n b : ℕ) (hn : n % 8 = 0) :
    (floatBytes n b).flatMap (Wire.natBits 8) = Wire.natBits n b := by
  unfold floatBytes
  rw [floatBytes_bits]
  congr 1; omega

theorem natBits_bitsNat (c : List Bool) : Wire.natBits c.length (Wire.bitsNat c) = c := by
  induction c with
  | nil => rfl
  | cons x c ih =>
    simp only [List.length_cons, Wire.natBits, Wire.bitsNat]
    have h1 : ((if x = true then 1 else 0) + 2 * Wire.bitsNat c) / 2 = Wire.bitsNat c := by
      split <;> omega
    have h2 : (((if x = true then 1 else 0) + 2 * Wire.bitsNat c) % 2 == 1) = x := by
      cases x <;> simp
    rw [h1, h2, ih]

theorem bytesOf_length (buf : List Bool) : (bytesOf buf).length = buf.length / 8 := by
  simp [bytesOf]

theorem bytesOf_bits_aux (buf : List Bool) (k : ℕ) (hk : 8 * k ≤ buf.length) :
    ((List.range k).map fun i => BitIO.ofBits ((buf.drop (8 * i)).take 8)).flatMap (Wire.natBits 8)
      = buf.take (8 * k) := by
  induction k with
  | zero => simp
  | succ k ih =>
    rw [List.range_succ, List.map_append, List.flatMap_append, ih (by omega)]
    simp only [List.map_cons, List.map_nil, List.flatMap_cons, List.flatMap_nil, List.append_nil]
    have hl : ((buf.drop (8 * k)).take 8).length = 8 := by simp; omega
    have hc := natBits_bitsNat ((buf.drop (8 * k)).take 8)
    rw [hl] at hc
    rw [ofBits_eq, hc, Nat.mul_succ, List.take_add]

/-- `finish()` and the byte-by-byte copy give back the buffer -/
theorem bytesOf_bits (buf : List Bool) (h : buf.length % 8 = 0) :
    (bytesOf buf).flatMap (Wire.natBits 8) = buf := by
  unfold bytesOf
  rw [bytesOf_bits_aux buf _ (by omega)]
  apply List.take_of_length_le; omega

theorem pad8_of_mod (l : List Bool) (h : l.length % 8 = 0) : BitIO.pad8 l = l := by
  simp [BitIO.pad8, h, BitIO.zeros]

theorem padTail_mod8 (o : ℕ) (b : List Bool) : (o + (Wire.padTail o b).length) % 8 = 0 := by
  simp only [Wire.padTail, List.length_append, Wire.zeros_length]
  have := Wire.padLen_dvd (o + b.length) 8 (by omega)
  omega

theorem empty_ok : (⟨[], 0⟩ : W).ok = true := by decide

/-- `_serialize_composite`, both branches, given the body -/
theorem ws_wrapDelim (m : Mode) (w : W) (bodyW : W → W) (body : ℕ → List Bool)
    (hbody : ∀ w : W, w.ok = true → WS w (bodyW w) (body w.off))
    (hlen : (body 0).length % 8 = 0) (hw : w.ok = true) :
    WS w (wrapDelimW m w bodyW) (Wire.wrapDelim m w.off body) := by
  cases m with
  | sealed => exact hbody w hw
  | delimited x =>
    simp only [wrapDelimW, Wire.wrapDelim]
    have hi := hbody ⟨[], 0⟩ empty_ok
    have hbuf : (bodyW ⟨[], 0⟩).buf = body 0 := by
      have := ((BitIO.ok_iff _).mp hi.1).1
      rw [this, hi.2]
      simp only [BitIO.W.logical, List.take_nil, List.nil_append]
      exact pad8_of_mod _ hlen
    rw [hbuf]
    have h1 := ws_writeBits w (bytesOf (body 0)).length Wire.headerBits hw
    have h2 := ws_writeBytes (bytesOf (body 0)) _ h1.1
    have h12 := h1.trans h2
    rw [bytesOf_bits _ hlen] at h12
    rw [bytesOf_length] at h12 ⊢
    exact h12

theorem ws_encRep (fW : Val → W → W) (f : Val → ℕ → List Bool) :
    ∀ (vs : List Val) (w : W), (∀ v ∈ vs, ∀ w : W, w.ok = true → WS w (fW v w) (f v w.off)) → w.ok = true →
      WS w (encRepW fW vs w) (Wire.encRep f vs w.off)
  | [], w, _, hw => by simpa [encRepW, Wire.encRep] using WS.refl hw
  | v :: vs, w, hf, hw => by
      simp only [encRepW, Wire.encRep]
      have h1 := hf v (by simp) w hw
      have h2 := ws_encRep fW f vs (fW v w) (fun u hu => hf u (by simp [hu])) h1.1
      rw [h1.off hw] at h2
      exact h1.trans h2

mutual
/-- **Writer refinement.**  Driving `_BitWriter` the way `_serialize_*` does appends exactly `Wire.enc`. -/
theorem encW_ws : ∀ (t : Ty) (v : Val) (w : W), t.wf = true → w.ok = true →
    WS w (encW t v w) (Wire.enc t v w.off)
  | .bool, v, w, _, hw => by
      cases v with
      | bool b =>
        simp only [encW, Wire.enc]
        have := ws_writeBits w (if b then 1 else 0) 1 hw
        cases b <;> simpa [Wire.natBits] using this
      | _ => simpa [encW, Wire.enc] using WS.refl hw
  | .uint n c, v, w, _, hw => by
      cases v with
      | int i => simp only [encW, Wire.enc]; exact ws_writeBits w _ n hw
      | _ => simpa [encW, Wire.enc] using WS.refl hw
  | .sint n c, v, w, _, hw => by
      cases v with
      | int i => simp only [encW, Wire.enc]; exact ws_writeBits w _ n hw
      | _ => simpa [encW, Wire.enc] using WS.refl hw
  | .float n c, v, w, ht, hw => by
      cases v with
      | flt b =>
        simp only [encW, Wire.enc]
        have hn : n % 8 = 0 := by
          simp only [Ty.wf, Bool.or_eq_true, beq_iff_eq] at ht
          omega
        rw [← floatBytes_spec n b hn]
        exact ws_writeBytes _ w hw
      | _ => simpa [encW, Wire.enc] using WS.refl hw
  | .byte, v, w, _, hw => by
      cases v with
      | int i => simp only [encW, Wire.enc]; exact ws_writeBits w _ 8 hw
      | _ => simpa [encW, Wire.enc] using WS.refl hw
  | .utf8, v, w, _, hw => by
      cases v with
      | int i => simp only [encW, Wire.enc]; exact ws_writeBits w _ 8 hw
      | _ => simpa [encW, Wire.enc] using WS.refl hw
  | .void n, v, w, _, hw => by
      have := ws_writeBits w 0 n hw
      rw [Wire.natBits_zero] at this
      cases v <;> simpa only [encW, Wire.enc] using this
  | .farr e cap, v, w, ht, hw => by
      cases v with
      | arr vs =>
        simp only [encW, Wire.enc]
        simp only [Ty.wf, Bool.and_eq_true] at ht
        exact ws_encRep _ _ vs w (fun u _ w' hw' => encW_ws e u w' ht.1.1.1 hw') hw
      | _ => simpa [encW, Wire.enc] using WS.refl hw
  | .varr e cap, v, w, ht, hw => by
      cases v with
      | arr vs =>
        simp only [encW, Wire.enc]
        simp only [Ty.wf, Bool.and_eq_true] at ht
        have h1 := ws_writeBits w vs.length (Wire.lenBits cap) hw
        have h2 := ws_encRep _ _ vs _ (fun u _ w' hw' => encW_ws e u w' ht.1.1.1 hw') h1.1
        rw [h1.off hw, Wire.natBits_length] at h2
        exact h1.trans h2
      | _ => simpa [encW, Wire.enc] using WS.refl hw
  | .struct fs m, v, w, ht, hw => by
      cases v with
      | recd vs =>
        simp only [encW, Wire.enc]
        simp only [Ty.wf, Bool.and_eq_true] at ht
        refine ws_wrapDelim m w _ _ (fun w' hw' => ?_) ?_ hw
        · have h1 := encFieldsW_ws fs vs w' ht.1 hw'
          have h2 := ws_alignTo _ 8 (by omega) h1.1
          rw [h1.off hw'] at h2
          exact h1.trans h2
        · simpa using padTail_mod8 0 _
      | _ => simpa [encW, Wire.enc] using WS.refl hw
  | .union fs m, v, w, ht, hw => by
      cases v with
      | var tag u =>
        simp only [encW, Wire.enc]
        simp only [Ty.wf, Bool.and_eq_true] at ht
        refine ws_wrapDelim m w _ _ (fun w' hw' => ?_) ?_ hw
        · have h1 := ws_writeBits w' tag (Wire.tagBits fs.length) hw'
          have h2 := encVariantW_ws fs tag u _ ht.1.1.1.1 h1.1
          rw [h1.off hw', Wire.natBits_length] at h2
          have h12 := h1.trans h2
          have h3 := ws_alignTo _ 8 (by omega) h12.1
          rw [h12.off hw'] at h3
          exact h12.trans h3
        · simpa using padTail_mod8 0 _
      | _ => simpa [encW, Wire.enc] using WS.refl hw
theorem encFieldsW_ws : ∀ (ts : List Ty) (vs : List Val) (w : W), Wire.wfFields ts = true → w.ok = true →
    WS w (encFieldsW ts vs w) (Wire.encFields ts vs w.off)
  | [], vs, w, _, hw => by simpa [encFieldsW, Wire.encFields] using WS.refl hw
  | _ :: _, [], w, _, hw => by simpa [encFieldsW, Wire.encFields] using WS.refl hw
  | t :: ts, v :: vs, w, ht, hw => by
      simp only [encFieldsW, Wire.encFields]
      simp only [Wire.wfFields, Bool.and_eq_true] at ht
      have h1 := ws_alignTo w t.align (Wire.align_pos t) hw
      have h2 := encW_ws t v _ ht.1.1 h1.1
      rw [h1.off hw, Wire.zeros_length] at h2
      have h12 := h1.trans h2
      have h3 := encFieldsW_ws ts vs _ ht.2 h12.1
      rw [h12.off hw, List.length_append, Wire.zeros_length, ← Nat.add_assoc] at h3
      exact h12.trans h3
theorem encVariantW_ws : ∀ (ts : List Ty) (n : ℕ) (v : Val) (w : W), Wire.wfFields ts = true → w.ok = true →
    WS w (encVariantW ts n v w) (Wire.encVariant ts n v w.off)
  | [], _, _, w, _, hw => by simpa [encVariantW, Wire.encVariant] using WS.refl hw
  | t :: _, 0, v, w, ht, hw => by
      simp only [encVariantW, Wire.encVariant]
      simp only [Wire.wfFields, Bool.and_eq_true] at ht
      exact encW_ws t v w ht.1.1 hw
  | _ :: ts, n+1, v, w, ht, hw => by
      simp only [encVariantW, Wire.encVariant]
      simp only [Wire.wfFields, Bool.and_eq_true] at ht
      exact encVariantW_ws ts n v w ht.2 hw
end

/-! ## Reader -/

/-- the stream view of a `_BitReader`: absolute offset and window -/
def toR (r : Rd) : Wire.R := ⟨r.off, r.window⟩

/-- reader invariant: the position is not before the start, and a bounded reader's limit lies within the data
    (`bounded_subreader` is only called after the `remaining_bits` check).  This is what makes
    `remaining_bits` the length of the window. -/
def RInv (r : Rd) : Prop := r.start ≤ r.off ∧ ∀ lim, r.limit = some lim → lim ≤ r.data.length - r.start

/-- `r'` is `r` moved forward -/
def Follows (r r' : Rd) : Prop := r'.data = r.data ∧ r'.start = r.start ∧ r'.limit = r.limit ∧ r.off ≤ r'.off

theorem Follows.refl (r : Rd) : Follows r r := ⟨rfl, rfl, rfl, Nat.le_refl _⟩

theorem Follows.trans {r r1 r2 : Rd} (h1 : Follows r r1) (h2 : Follows r1 r2) : Follows r r2 := by
  obtain ⟨a1, b1, c1, d1⟩ := h1
  obtain ⟨a2, b2, c2, d2⟩ := h2
  exact ⟨a2.trans a1, b2.trans b1, c2.trans c1, Nat.le_trans d1 d2⟩

theorem RInv.follows {r r' : Rd} (h : RInv r) (hf : Follows r r') : RInv r' := by
  obtain ⟨a, b, c, d⟩ := hf
  refine ⟨by rw [b]; exact Nat.le_trans h.1 d, fun lim hl => ?_⟩
  rw [a, b]; exact h.2 lim (by rw [← c]; exact hl)

theorem follows_adv (r : Rd) (k : ℕ) : Follows r { r with off := r.off + k } :=
  ⟨rfl, rfl, rfl, Nat.le_add_right _ _⟩

/-- moving forward by `k` drops `k` bits of the window -/
theorem window_adv (r : Rd) (k : ℕ) (h : r.start ≤ r.off) :
    ({ r with off := r.off + k } : Rd).window = r.window.drop k := by
  unfold Rd.window
  cases hl : r.limit with
  | none => simp [List.drop_drop]
  | some lim =>
    simp only [List.drop_take, List.drop_drop]
    congr 1; omega

theorem toR_adv (r : Rd) (k : ℕ) (h : r.start ≤ r.off) :
    toR { r with off := r.off + k } = ⟨r.off + k, r.window.drop k⟩ := by
  simp only [toR, window_adv r k h]

/-- `read_bits` as a pair, in the vocabulary of `Wire` -/
theorem readBits_pair (r : Rd) (n : ℕ) (h : r.start ≤ r.off) :
    BitIO.readBits r n = (Wire.bitsNat (Wire.takeZ n r.window), { r with off := r.off + n }) := by
  obtain ⟨h1, h2, _⟩ := BitIO.readBits_spec r n h
  rw [ofBits_eq, takeZ_eq] at h1
  exact Prod.ext h1 h2

/-- `R.read` on the stream view -/
theorem read_toR (r : Rd) (n : ℕ) (h : r.start ≤ r.off) :
    (toR r).read n = (Wire.takeZ n r.window, toR { r with off := r.off + n }) := by
  rw [toR_adv r n h]; rfl

/-- `_BitReader.align_to` is `R.alignTo` -/
theorem toR_alignTo (r : Rd) (a : ℕ) (ha : 0 < a) (h : r.start ≤ r.off) :
    toR (r.alignTo a) = (toR r).alignTo a ∧ Follows r (r.alignTo a) := by
  unfold Rd.alignTo Wire.R.alignTo
  rw [if_neg (by omega)]
  simp only [toR, padLen_eq _ _ ha]
  split
  · exact ⟨by rw [window_adv r _ h], follows_adv r _⟩
  · exact ⟨by simp, Follows.refl r⟩

/-- `remaining_bits` is the length of the window -/
theorem remaining_eq (r : Rd) (h : RInv r) : r.remaining = r.window.length := by
  obtain ⟨h1, h2⟩ := h
  unfold Rd.remaining Rd.window
  cases hl : r.limit with
  | none => simp
  | some lim =>
    have := h2 lim hl
    simp only [List.length_take, List.length_drop]
    omega

/-- a bounded sub-reader of at most `remaining_bits` bits sees the first `k` bits of the window -/
theorem toR_sub (r : Rd) (k : ℕ) (h : RInv r) (hk : k ≤ r.remaining) :
    toR (r.sub k).1 = ⟨r.off, r.window.take k⟩ ∧ RInv (r.sub k).1 := by
  have hrem := remaining_eq r h
  obtain ⟨h1, h2⟩ := h
  simp only [Rd.sub, toR, Rd.window, Nat.sub_self, Nat.sub_zero, RInv, Nat.le_refl, true_and,
    Option.some.injEq, forall_eq']
  unfold Rd.remaining at hk
  unfold Rd.remaining Rd.window at hrem
  cases hl : r.limit with
  | none =>
    simp only [hl] at hk
    exact ⟨rfl, hk⟩
  | some lim =>
    simp only [hl] at hk hrem
    have := h2 lim hl
    refine ⟨?_, by omega⟩
    rw [List.take_take, Nat.min_eq_left hk]

/-- Simulation: the outcome of the `_BitReader` computation `x` started at `r` determines the outcome of the stream
    computation `y`: same error, or same value and the resulting reader is `r` moved forward with the resulting
    stream as its view. -/
def Sim {α : Type} (r : Rd) (x : Except Err (α × Rd)) (y : Except Err (α × Wire.R)) : Prop :=
  match x with
  | .ok (a, r') => y = .ok (a, toR r') ∧ Follows r r'
  | .error e => y = .error e

theorem Sim.mono {α : Type} {r r' : Rd} {x : Except Err (α × Rd)} {y : Except Err (α × Wire.R)}
    (hf : Follows r r') (h : Sim r' x y) : Sim r x y := by
  cases x with
  | error e => exact h
  | ok p => exact ⟨h.1, hf.trans h.2⟩

theorem Sim.ok {α : Type} (r : Rd) (a : α) : Sim r (.ok (a, r)) (.ok (a, toR r)) := ⟨rfl, Follows.refl r⟩

theorem sim_error {α : Type} (r : Rd) (e : Err) :
    Sim (α := α) r (.error e) (.error e) := rfl

theorem Sim.bind {α β : Type} {r : Rd} {x : Except Err (α × Rd)} {y : Except Err (α × Wire.R)}
    {f : α × Rd → Except Err (β × Rd)} {g : α × Wire.R → Except Err (β × Wire.R)}
    (h : Sim r x y) (hf : ∀ a r', Follows r r' → Sim r' (f (a, r')) (g (a, toR r'))) :
    Sim r (x >>= f) (y >>= g) := by
  cases x with
  | error e =>
    have : y = .error e := h
    subst this
    exact (rfl : (Except.error e : Except Err (β × Wire.R)) = .error e)
  | ok p =>
    obtain ⟨a, r'⟩ := p
    obtain ⟨hy, hfo⟩ := h
    subst hy
    exact (hf a r' hfo).mono hfo

theorem sim_decRep (fR : Rd → Except Err (Val × Rd)) (f : Wire.R → Except Err (Val × Wire.R))
    (hf : ∀ q, RInv q → Sim q (fR q) (f (toR q))) :
    ∀ (n : ℕ) (r : Rd), RInv r → Sim r (decRepR fR n r) (Wire.decRep f n (toR r))
  | 0, r, _ => Sim.ok r []
  | n+1, r, hr => by
      simp only [decRepR, Wire.decRep]
      refine Sim.bind (hf r hr) fun v r1 h1 => ?_
      refine Sim.bind (sim_decRep fR f hf n r1 (hr.follows h1)) fun vs r2 h2 => ?_
      exact Sim.ok r2 (v :: vs)

/-- `_deserialize_composite`, both branches, given the body -/
theorem sim_unwrapDelim (m : Mode) (r : Rd) (bodyR : Rd → Except Err (Val × Rd))
    (body : Wire.R → Except Err (Val × Wire.R)) (hr : RInv r)
    (hbody : ∀ q, RInv q → Sim q (bodyR q) (body (toR q))) :
    Sim r (unwrapDelimR m r bodyR) (Wire.unwrapDelim m (toR r) body) := by
  cases m with
  | sealed => exact hbody r hr
  | delimited x =>
    simp only [unwrapDelimR, Wire.unwrapDelim, readBits_pair r _ hr.1, read_toR r _ hr.1]
    have hf1 := follows_adv r Wire.headerBits
    have hr1 := hr.follows hf1
    generalize ({ r with off := r.off + Wire.headerBits } : Rd) = r1 at hf1 hr1
    generalize Wire.bitsNat (Wire.takeZ Wire.headerBits r.window) = bytes
    have hrem := remaining_eq r1 hr1
    have hs : (toR r1).s = r1.window := rfl
    have ho : (toR r1).off = r1.off := rfl
    simp only [hs, ho, Wire.shorter_iff, ← hrem]
    by_cases hc : bytes * 8 > r1.remaining
    · simp only [hc, if_true, decide_true]
      exact sim_error r _
    · simp only [hc, if_false, decide_false, Bool.false_eq_true]
      obtain ⟨hsub, hsinv⟩ := toR_sub r1 (bytes * 8) hr1 (by omega)
      have hb := hbody _ hsinv
      rw [hsub] at hb
      have hpar : (r1.sub (bytes * 8)).2 = { r1 with off := r1.off + bytes * 8 } := rfl
      cases hx : bodyR (r1.sub (bytes * 8)).1 with
      | error e =>
        rw [hx] at hb
        have hb' : body ⟨r1.off, r1.window.take (bytes * 8)⟩ = .error e := hb
        rw [hb']
        exact sim_error r _
      | ok p =>
        obtain ⟨v, s'⟩ := p
        rw [hx] at hb
        have hb' : body ⟨r1.off, r1.window.take (bytes * 8)⟩ = .ok (v, toR s') := hb.1
        rw [hb']
        refine ⟨?_, hf1.trans (follows_adv r1 _)⟩
        rw [hpar, toR_adv r1 _ hr1.1]
        rfl

theorem readBytes_spec : ∀ (k : ℕ) (r : Rd), r.start ≤ r.off →
    (readBytes k r).2 = { r with off := r.off + 8 * k } ∧
      leNat (readBytes k r).1 = Wire.bitsNat (Wire.takeZ (8 * k) r.window)
  | 0, r, _ => by simp [readBytes, leNat, Wire.takeZ, Wire.bitsNat]
  | k+1, r, h => by
      simp only [readBytes, readBits_pair r 8 h]
      obtain ⟨h1, h2⟩ := readBytes_spec k { r with off := r.off + 8 } (by simp only; omega)
      rw [window_adv r 8 h] at h2
      rcases hrb : readBytes k { r with off := r.off + 8 } with ⟨xs, r2⟩
      rw [hrb] at h1 h2
      simp only at h1 h2 ⊢
      refine ⟨by rw [h1]; simp only [Rd.mk.injEq, true_and, and_true]; omega, ?_⟩
      rw [leNat, h2]
      simp only [← ofBits_eq, ← takeZ_eq]
      rw [Nat.mul_succ, Nat.add_comm (8 * k) 8, BitIO.takeZ_add, BitIO.ofBits_append, BitIO.takeZ_length]
      norm_num

theorem decVariant_oob : ∀ (ts : List Ty) (n : ℕ) (q : Wire.R), ts.length ≤ n →
    Wire.decVariant ts n q = .error .unionTag
  | [], _, _, _ => by simp [Wire.decVariant]
  | _ :: _, 0, _, h => by simp at h
  | _ :: ts, n+1, q, h => by
      simp only [Wire.decVariant]
      exact decVariant_oob ts n q (by simpa using h)

mutual
/-- **Reader refinement.**  Driving `_BitReader` the way `_deserialize_*` does computes exactly `Wire.dec` on the
    stream view of the reader. -/
theorem decR_sim : ∀ (t : Ty) (r : Rd), t.wf = true → RInv r → Sim r (decR t r) (Wire.dec t (toR r))
  | .bool, r, _, hr => by
      simp only [decR, Wire.dec, readBits_pair r _ hr.1, read_toR r _ hr.1]
      exact ⟨rfl, follows_adv r _⟩
  | .uint n c, r, _, hr => by
      simp only [decR, Wire.dec, readBits_pair r _ hr.1, read_toR r _ hr.1]
      exact ⟨rfl, follows_adv r _⟩
  | .sint n c, r, _, hr => by
      simp only [decR, Wire.dec, readBits_pair r _ hr.1, read_toR r _ hr.1]
      exact ⟨rfl, follows_adv r _⟩
  | .float n c, r, ht, hr => by
      have hn : 8 * (n / 8) = n := by
        simp only [Ty.wf, Bool.or_eq_true, beq_iff_eq] at ht
        omega
      obtain ⟨h1, h2⟩ := readBytes_spec (n / 8) r hr.1
      rw [hn] at h1 h2
      simp only [decR, Wire.dec, read_toR r _ hr.1]
      rcases hrb : readBytes (n / 8) r with ⟨bs, r'⟩
      rw [hrb] at h1 h2
      simp only at h1 h2 ⊢
      rw [h1, h2]
      exact ⟨rfl, follows_adv r _⟩
  | .byte, r, _, hr => by
      simp only [decR, Wire.dec, readBits_pair r _ hr.1, read_toR r _ hr.1]
      exact ⟨rfl, follows_adv r _⟩
  | .utf8, r, _, hr => by
      simp only [decR, Wire.dec, readBits_pair r _ hr.1, read_toR r _ hr.1]
      exact ⟨rfl, follows_adv r _⟩
  | .void n, r, _, hr => by
      simp only [decR, Wire.dec, readBits_pair r _ hr.1, read_toR r _ hr.1]
      exact ⟨rfl, follows_adv r _⟩
  | .farr e cap, r, ht, hr => by
      simp only [Ty.wf, Bool.and_eq_true] at ht
      simp only [decR, Wire.dec]
      refine Sim.bind (sim_decRep _ _ (fun q hq => decR_sim e q ht.1.1.1 hq) cap r hr) fun vs r' _ => ?_
      exact Sim.ok r' (Val.arr vs)
  | .varr e cap, r, ht, hr => by
      simp only [Ty.wf, Bool.and_eq_true] at ht
      simp only [decR, Wire.dec, readBits_pair r _ hr.1, read_toR r _ hr.1]
      have hf1 := follows_adv r (Wire.lenBits cap)
      split
      · exact sim_error r _
      · refine Sim.mono hf1 ?_
        refine Sim.bind (sim_decRep _ _ (fun q hq => decR_sim e q ht.1.1.1 hq) _ _ (hr.follows hf1))
          fun vs r' _ => ?_
        dsimp only
        split
        · exact sim_error r' _
        · exact Sim.ok r' (Val.arr vs)
  | .struct fs m, r, ht, hr => by
      simp only [Ty.wf, Bool.and_eq_true] at ht
      simp only [decR, Wire.dec]
      refine sim_unwrapDelim m r _ _ hr fun q hq => ?_
      refine Sim.bind (decFieldsR_sim fs q ht.1 hq) fun vs r' h' => ?_
      have ha := toR_alignTo r' 8 (by omega) (hq.follows h').1
      exact ⟨by rw [ha.1]; rfl, ha.2⟩
  | .union fs m, r, ht, hr => by
      simp only [Ty.wf, Bool.and_eq_true] at ht
      simp only [decR, Wire.dec]
      refine sim_unwrapDelim m r _ _ hr fun q hq => ?_
      simp only [readBits_pair q _ hq.1, read_toR q _ hq.1]
      have hf1 := follows_adv q (Wire.tagBits fs.length)
      split
      · next hge =>
        rw [decVariant_oob fs _ _ hge]
        exact sim_error q _
      · refine Sim.mono hf1 ?_
        refine Sim.bind (decVariantR_sim fs _ _ ht.1.1.1.1 (hq.follows hf1)) fun v r' h' => ?_
        have ha := toR_alignTo r' 8 (by omega) ((hq.follows hf1).follows h').1
        exact ⟨by rw [ha.1]; rfl, ha.2⟩
theorem decFieldsR_sim : ∀ (ts : List Ty) (r : Rd), Wire.wfFields ts = true → RInv r →
    Sim r (decFieldsR ts r) (Wire.decFields ts (toR r))
  | [], r, _, _ => Sim.ok r []
  | t :: ts, r, ht, hr => by
      simp only [Wire.wfFields, Bool.and_eq_true] at ht
      simp only [decFieldsR, Wire.decFields]
      have ha := toR_alignTo r t.align (Wire.align_pos t) hr.1
      rw [← ha.1]
      refine Sim.mono ha.2 ?_
      refine Sim.bind (decR_sim t _ ht.1.1 (hr.follows ha.2)) fun v r1 h1 => ?_
      refine Sim.bind (decFieldsR_sim ts r1 ht.2 ((hr.follows ha.2).follows h1)) fun vs r2 _ => ?_
      exact Sim.ok r2 (v :: vs)
theorem decVariantR_sim : ∀ (ts : List Ty) (n : ℕ) (r : Rd), Wire.wfFields ts = true → RInv r →
    Sim r (decVariantR ts n r) (Wire.decVariant ts n (toR r))
  | [], _, r, _, _ => sim_error r _
  | t :: _, 0, r, ht, hr => by
      simp only [Wire.wfFields, Bool.and_eq_true] at ht
      simp only [decVariantR, Wire.decVariant]
      exact decR_sim t r ht.1.1 hr
  | _ :: ts, n+1, r, ht, hr => by
      simp only [Wire.wfFields, Bool.and_eq_true] at ht
      simp only [decVariantR, Wire.decVariant]
      exact decVariantR_sim ts n r ht.2 hr
end

/-! ## Entry points -/

/-- the encoding of a composite from offset 0 is a whole number of bytes -/
theorem enc_composite_mod8 (t : Ty) (v : Val) (hc : t.isComposite = true) : (Wire.enc t v 0).length % 8 = 0 := by
  cases t with
  | struct fs m =>
    cases v with
    | recd vs =>
      simp only [Wire.enc]
      have := padTail_mod8 0 (Wire.encFields fs vs 0)
      cases m with
      | sealed => simpa [Wire.wrapDelim] using this
      | delimited x =>
        simp only [Wire.wrapDelim, List.length_append, Wire.natBits_length, Wire.headerBits]
        omega
    | _ => simp [Wire.enc]
  | union fs m =>
    cases v with
    | var tag u =>
      simp only [Wire.enc]
      have := padTail_mod8 0 (Wire.natBits (Wire.tagBits fs.length) tag ++
        Wire.encVariant fs tag u (0 + Wire.tagBits fs.length))
      cases m with
      | sealed => simpa [Wire.wrapDelim] using this
      | delimited x =>
        simp only [Wire.wrapDelim, List.length_append, Wire.natBits_length, Wire.headerBits] at this ⊢
        omega
    | _ => simp [Wire.enc]
  | _ => simp [Ty.isComposite] at hc

theorem isComposite_inner (t : Ty) : t.inner.isComposite = t.isComposite := by
  cases t <;> rfl

/-- from the empty writer the buffer (`finish()`) is the encoding zero-padded to a byte -/
theorem encW_buf (t : Ty) (v : Val) (ht : t.wf = true) :
    (encW t v ⟨[], 0⟩).buf = BitIO.pad8 (Wire.enc t v 0) := by
  have h := encW_ws t v ⟨[], 0⟩ ht empty_ok
  rw [((BitIO.ok_iff _).mp h.1).1, h.2]
  simp [BitIO.W.logical]

theorem toR_initial (bits : List Bool) : toR ⟨bits, 0, 0, none⟩ = ⟨0, bits⟩ := rfl

theorem rinv_initial (bits : List Bool) : RInv ⟨bits, 0, 0, none⟩ :=
  ⟨Nat.le_refl _, fun _ h => by cases h⟩

end WireIO
