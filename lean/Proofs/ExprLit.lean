import Model.Expr
import Mathlib.Tactic.IntervalCases
import Mathlib.Tactic.NormNum
/-! Integer literals as written (any base, digit separators, either letter case) denote the intended number. -/
set_option linter.unusedSimpArgs false
set_option linter.unusedVariables false
namespace Ex

/-- one digit as written: its value, whether an underscore precedes it, and the letter case of a hex digit -/
structure DigitW where
  d : Nat
  us : Bool
  upper : Bool

def digitChar (d : Nat) (upper : Bool) : Char :=
  if d < 10 then Char.ofNat (48 + d) else if upper then Char.ofNat (55 + d) else Char.ofNat (87 + d)

/-- the characters of a digit string `(_?digit)+` -/
def writeDigits : List DigitW → List Char
  | [] => []
  | w :: ws => (if w.us then ['_'] else []) ++ [digitChar w.d w.upper] ++ writeDigits ws

/-- the number a digit sequence denotes in a positional system -/
def numeral (radix : Nat) (ds : List Nat) : Nat := ds.foldl (fun acc d => acc * radix + d) 0

theorem digitVal_digitChar (d : Nat) (u : Bool) (h : d < 16) : digitVal (digitChar d u) = some d := by
  interval_cases d <;> cases u <;> decide

theorem digitChar_ne_us (d : Nat) (u : Bool) (h : d < 16) : (digitChar d u != '_') = true := by
  interval_cases d <;> cases u <;> decide

theorem strip_writeDigits (ws : List DigitW) (h : ∀ w ∈ ws, w.d < 16) :
    stripUnderscores (writeDigits ws) = ws.map (fun w => digitChar w.d w.upper) := by
  induction ws with
  | nil => rfl
  | cons w ws ih =>
    have hw := digitChar_ne_us w.d w.upper (h w (by simp))
    have ih' := ih (fun x hx => h x (by simp [hx]))
    simp only [stripUnderscores] at ih' ⊢
    cases hus : w.us <;> simp [writeDigits, hus, List.filter_cons, hw, ih']

theorem foldl_digits (radix : Nat) (ws : List DigitW) (acc : Nat) (h : ∀ w ∈ ws, w.d < radix) (hr : radix ≤ 16) :
    (ws.map (fun w => digitChar w.d w.upper)).foldl (fun acc c => match acc, digitVal c with
      | some a, some d => if d < radix then some (a * radix + d) else none
      | _, _ => none) (some acc) = some ((ws.map (·.d)).foldl (fun acc d => acc * radix + d) acc) := by
  induction ws generalizing acc with
  | nil => rfl
  | cons w ws ih =>
    have hw : w.d < radix := h w (by simp)
    simp only [List.map_cons, List.foldl_cons, digitVal_digitChar w.d w.upper (by omega), hw, ↓reduceIte]
    exact ih _ (fun x hx => h x (by simp [hx]))

theorem digitsVal_written (radix : Nat) (ws : List DigitW) (hne : ws ≠ []) (h : ∀ w ∈ ws, w.d < radix) (hr : radix ≤ 16) :
    digitsVal radix (ws.map (fun w => digitChar w.d w.upper)) = some (numeral radix (ws.map (·.d))) := by
  unfold digitsVal numeral
  have : (ws.map (fun w => digitChar w.d w.upper)).isEmpty = false := by
    cases ws <;> simp_all
  simp only [this, Bool.false_eq_true, ↓reduceIte]
  exact foldl_digits radix ws 0 h hr

/-- `0b…`, `0o…`, `0x…` (either case of the prefix letter): the digits in base 2 / 8 / 16 -/
theorem decodeInt_prefixed (radix : Nat) (p : Char) (ws : List DigitW) (hne : ws ≠ [])
    (hp : (radix = 2 ∧ (p = 'b' ∨ p = 'B')) ∨ (radix = 8 ∧ (p = 'o' ∨ p = 'O')) ∨ (radix = 16 ∧ (p = 'x' ∨ p = 'X')))
    (h : ∀ w ∈ ws, w.d < radix) :
    decodeInt ('0' :: p :: writeDigits ws) = .ok (numeral radix (ws.map (·.d))) := by
  have h16 : ∀ w ∈ ws, w.d < 16 := fun w hw => by
    have := h w hw
    rcases hp with ⟨rfl, _⟩ | ⟨rfl, _⟩ | ⟨rfl, _⟩ <;> omega
  have hs := strip_writeDigits ws h16
  simp only [stripUnderscores] at hs
  rcases hp with ⟨rfl, rfl | rfl⟩ | ⟨rfl, rfl | rfl⟩ | ⟨rfl, rfl | rfl⟩ <;>
    simp [decodeInt, stripUnderscores, List.filter_cons, hs, digitsVal_written _ ws hne h (by norm_num), optSyntax]

theorem digitChar_dec (d : Nat) (u : Bool) (h : d < 10) :
    digitChar d u ≠ 'b' ∧ digitChar d u ≠ 'B' ∧ digitChar d u ≠ 'o' ∧ digitChar d u ≠ 'O' ∧ digitChar d u ≠ 'x' ∧ digitChar d u ≠ 'X' := by
  interval_cases d <;> cases u <;> decide

/-- a decimal literal within CPython's conversion limit: the digits in base 10 -/
theorem decodeInt_decimal (ws : List DigitW) (hne : ws ≠ []) (h : ∀ w ∈ ws, w.d < 10) (hlen : ws.length ≤ pyIntMaxDigits) :
    decodeInt (writeDigits ws) = .ok (numeral 10 (ws.map (·.d))) := by
  have h16 : ∀ w ∈ ws, w.d < 16 := fun w hw => by have := h w hw; omega
  have hs := strip_writeDigits ws h16
  have hv := digitsVal_written 10 ws hne h (by norm_num)
  have hl : ¬ ((ws.map (fun w => digitChar w.d w.upper)).length > pyIntMaxDigits) := by simp; omega
  unfold decodeInt
  rw [hs]
  cases ws with
  | nil => exact absurd rfl hne
  | cons w0 tl =>
    cases tl with
    | nil =>
      simp only [List.map_cons, List.map_nil] at hv ⊢
      simp [hv, optSyntax, pyIntMaxDigits]
    | cons w1 rest =>
      obtain ⟨h1, h2, h3, h4, h5, h6⟩ := digitChar_dec w1.d w1.upper (h w1 (by simp))
      have hl' : ¬ (pyIntMaxDigits < rest.length + 1 + 1) := by simp at hlen; omega
      simp only [List.map_cons] at hv ⊢
      split <;> simp_all [optSyntax]

end Ex
