import Proofs.LayoutSpec
/-! `specLens`: the Specification's set of serialized lengths of a type, and `den (T.bls) = specLens T`. -/
open scoped Pointwise
namespace Layout
open Bls

/-- Standard width that holds `x` (0 when none does; excluded by `Ty.wf`). -/
def stdOf (x : ℕ) : ℕ := (smallestStd x).getD 0

mutual
/-- The set of bit lengths of the serialized representations of a type, per the Specification:
    * a primitive / void of width `n` has the single length `n`;
    * a fixed array is `cap` elements back to back; a variable array is the implicit length prefix (smallest
      standard width holding the capacity, not below the element alignment) followed by `0..cap` elements;
    * a structure is its fields in order, each preceded by padding to its alignment, the whole padded to a byte;
    * a union is the tag (smallest standard width holding the largest variant index) followed by one variant,
      padded to a byte;
    * a delimited composite is the 32-bit header followed by any whole number of bytes up to its extent. -/
def specLens : Ty → Finset ℕ
  | .prim n => {n}
  | .void n => {n}
  | .farr e cap => cap • specLens e
  | .varr e cap => {max (stdOf cap) e.align} + (Finset.range (cap + 1)).biUnion fun j => j • specLens e
  | .struct fs => (specSeq {0} fs).image (padTo 8)
  | .union fs => (({max (stdOf (fs.length - 1)) 8} : Finset ℕ) + specUnion fs).image (padTo 8)
  | .delim _ ext => (Finset.range (ext / 8 + 1)).image fun i => 32 + 8 * i
def specSeq (acc : Finset ℕ) : List Ty → Finset ℕ
  | [] => acc
  | f :: fs => specSeq (acc.image (padTo f.align) + specLens f) fs
def specUnion : List Ty → Finset ℕ
  | [] => ∅
  | f :: fs => specLens f ∪ specUnion fs
end

theorem padTo_zero (a : ℕ) (ha : 1 ≤ a) : padTo a 0 = 0 := by
  unfold padTo
  rw [Nat.zero_add, Nat.div_eq_of_lt (by omega)]
  simp

theorem one_le_align (t : Ty) : 1 ≤ t.align := by
  rcases align_cases t with h | h <;> omega

theorem den_aggStructFrom (fs : List Ty) (ih : ∀ f ∈ fs, den f.bls = specLens f) (acc : Op) :
    den (aggStructFrom acc fs) = specSeq (den acc) fs := by
  induction fs generalizing acc with
  | nil => simp [aggStructFrom, specSeq]
  | cons f fs ihfs =>
    simp only [aggStructFrom, specSeq]
    rw [ihfs (fun x hx => ih x (by simp [hx]))]
    congr 1
    simp only [den, denSum, ih f (by simp)]
    rw [Finset.singleton_zero, add_zero]

theorem den_aggStruct (fs : List Ty) (ih : ∀ f ∈ fs, den f.bls = specLens f) :
    den (aggStruct fs) = specSeq {0} fs := by
  cases fs with
  | nil => simp [aggStruct, specSeq, den]
  | cons f fs =>
    simp only [aggStruct, specSeq]
    rw [den_aggStructFrom fs (fun x hx => ih x (by simp [hx]))]
    congr 1
    rw [Finset.image_singleton, padTo_zero _ (one_le_align f), ih f (by simp), Finset.singleton_zero, zero_add]

theorem denUnion_blsList (fs : List Ty) (ih : ∀ f ∈ fs, den f.bls = specLens f) :
    denUnion (blsList fs) = specUnion fs := by
  induction fs with
  | nil => simp [blsList, denUnion, specUnion]
  | cons f fs ihfs =>
    simp only [blsList, denUnion, specUnion]
    rw [ih f (by simp), ihfs fun x hx => ih x (by simp [hx])]

theorem lenBits_eq (e : Ty) (cap : ℕ) (h : lenBits e cap ≤ 64) : lenBits e cap = max (stdOf cap) e.align := by
  unfold lenBits stdOf at *
  obtain ⟨h1, h2⟩ := stdWidth_spec cap
  cases hs : smallestStd cap with
  | none =>
    have := h2 hs
    have : stdWidth cap ≤ max (stdWidth cap) e.align := Nat.le_max_left _ _
    omega
  | some w => rw [h1 w hs]; rfl

theorem tagBits_eq (fs : List Ty) (h : tagBits fs ≤ 64) : tagBits fs = max (stdOf (fs.length - 1)) 8 := by
  unfold tagBits stdOf at *
  obtain ⟨h1, h2⟩ := stdWidth_spec (fs.length - 1)
  have hm := maxAlign_le fs fun f _ => align_cases f
  cases hs : smallestStd (fs.length - 1) with
  | none =>
    have := h2 hs
    have : stdWidth (fs.length - 1) ≤ max (stdWidth (fs.length - 1)) (maxAlign fs) := Nat.le_max_left _ _
    omega
  | some w =>
    have hw : w ∈ [8, 16, 32, 64] := by
      have := stdWidth_mem (fs.length - 1) (le_trans (Nat.le_max_left _ _) h)
      rwa [h1 w hs] at this
    rw [h1 w hs]
    simp only [Option.getD_some]
    simp only [List.mem_cons, List.mem_nil_iff, or_false] at hw
    omega

theorem nsmul_singleton_nat (j a : ℕ) : j • ({a} : Finset ℕ) = {a * j} := by
  rw [Finset.nsmul_singleton]; simp [Nat.mul_comm]

/-- The bit length set expression the library builds for a type denotes the Specification's length set. -/
theorem den_bls : ∀ t : Ty, t.wf = true → den t.bls = specLens t := by
  intro t
  induction t using Ty.induct with
  | prim n => intro _; simp [Ty.bls, den, specLens]
  | void n => intro _; simp [Ty.bls, den, specLens]
  | farr e cap ih =>
    intro h
    simp only [Ty.wf, Bool.and_eq_true] at h
    simp only [Ty.bls, den, specLens, ih h.1]
  | varr e cap ih =>
    intro h
    simp only [Ty.wf, Bool.and_eq_true, decide_eq_true_eq] at h
    simp only [Ty.bls, den, denSum, specLens, ih h.1.1, List.toFinset_cons, List.toFinset_nil,
      insert_empty_eq, lenBits_eq e cap h.2]
    rw [Finset.singleton_zero, add_zero]
  | struct fs ih =>
    intro h
    simp only [Ty.wf, wfList_iff] at h
    simp only [Ty.bls, den, specLens, comp_align]
    rw [den_aggStruct fs fun f hf => ih f hf (h f hf)]
  | union fs ih =>
    intro h
    simp only [Ty.wf, Bool.and_eq_true, decide_eq_true_eq, wfList_iff] at h
    obtain ⟨⟨hw, hl⟩, ht⟩ := h
    match fs, hl with
    | f :: g :: fs, _ =>
      simp only [Ty.bls, den, denSum, aggUnion, specLens, comp_align, List.toFinset_cons, List.toFinset_nil,
        insert_empty_eq]
      rw [denUnion_blsList _ fun x hx => ih x hx (hw x hx), tagBits_eq _ ht, Finset.singleton_zero, add_zero]
  | delim inner ext ih =>
    intro h
    have ha : inner.align = 8 := by
      have := composite_align (.delim inner ext) h rfl
      simpa [Ty.align] using this
    simp only [Ty.bls, den, denSum, specLens, hdrBits, ha, List.toFinset_cons, List.toFinset_nil, insert_empty_eq]
    rw [Finset.singleton_zero, add_zero]
    ext y
    simp only [Finset.mem_add, Finset.mem_singleton, Finset.mem_biUnion, Finset.mem_range, Finset.mem_image,
      nsmul_singleton_nat]
    constructor
    · rintro ⟨a, rfl, b, ⟨j, hj, hb⟩, rfl⟩
      exact ⟨j, hj, by omega⟩
    · rintro ⟨i, hi, rfl⟩
      exact ⟨max 32 8, rfl, 8 * i, ⟨i, hi, rfl⟩, by simp⟩

end Layout
