import Proofs.WireValid
/-! The input half of serialization: cast modes, defaults, and the fact that whatever `coerce` accepts becomes
    a valid canonical value (so the round trip theorem applies to everything `serialize` produces). -/
namespace Wire

/-! ### cast modes -/

theorem pow_pos_int (n : Nat) : (0:Int) < (2:Int)^n := Int.pow_pos (by decide)

theorem castU_sat (n : Nat) (i : Int) :
    castU n .sat i = if i < 0 then 0 else if (2:Int)^n ≤ i then (2:Int)^n - 1 else i := by
  have := pow_pos_int n
  simp only [castU, clamp]
  split <;> (try split) <;> omega

theorem castU_trunc_range (n : Nat) (i : Int) : 0 ≤ castU n .trunc i ∧ castU n .trunc i < (2:Int)^n := by
  have hp := pow_pos_int n
  exact ⟨Int.emod_nonneg i (Int.ne_of_gt hp), Int.emod_lt_of_pos i hp⟩

theorem castU_trunc_congr (n : Nat) (i : Int) : (castU n .trunc i - i) % (2:Int)^n = 0 := by
  simp only [castU]
  rw [Int.sub_emod, Int.emod_emod, Int.sub_self, Int.zero_emod]

theorem castU_range (n : Nat) (c : Cast) (i : Int) : 0 ≤ castU n c i ∧ castU n c i < (2:Int)^n := by
  cases c with
  | trunc => exact castU_trunc_range n i
  | sat =>
    have := pow_pos_int n
    rw [castU_sat]; split <;> (try split) <;> omega

theorem castS_sat (n : Nat) (i : Int) :
    castS n .sat i = if i < -((2:Int)^(n-1)) then -((2:Int)^(n-1))
                     else if (2:Int)^(n-1) ≤ i then (2:Int)^(n-1) - 1 else i := by
  have := pow_pos_int (n-1)
  simp only [castS, clamp]
  split <;> (try split) <;> omega

theorem castS_range (n : Nat) (c : Cast) (i : Int) (hn : 1 ≤ n) :
    -((2:Int)^(n-1)) ≤ castS n c i ∧ castS n c i < (2:Int)^(n-1) := by
  cases c with
  | trunc => exact ofTwos_range n _ hn (toTwos_lt n i)
  | sat =>
    have := pow_pos_int (n-1)
    rw [castS_sat]; split <;> (try split) <;> omega

theorem toTwos_cast (n : Nat) (i : Int) : ((toTwos n i : Nat) : Int) = i % (2:Int)^n :=
  Int.toNat_of_nonneg (Int.emod_nonneg i (Int.ne_of_gt (pow_pos_int n)))

/-- truncated signed cast: the result is congruent to the input modulo `2^n` -/
theorem castS_trunc_congr (n : Nat) (i : Int) : (castS n .trunc i - i) % (2:Int)^n = 0 := by
  have hto := toTwos_cast n i
  simp only [castS, ofTwos]
  split
  · rw [hto]
    have : i % (2:Int)^n - (2:Int)^n - i = (i % (2:Int)^n - i) - (2:Int)^n := by omega
    rw [this, Int.sub_emod, Int.emod_self, Int.sub_zero, Int.emod_emod]
    rw [Int.sub_emod, Int.emod_emod, Int.sub_self, Int.zero_emod]
  · rw [hto, Int.sub_emod, Int.emod_emod, Int.sub_self, Int.zero_emod]

/-! ### defaults -/

theorem all_replicate {α} (p : α → Bool) (n : Nat) (a : α) (h : p a = true) : (List.replicate n a).all p = true := by
  induction n with
  | zero => simp
  | succ n ih => simp [List.replicate_succ, h]

mutual
theorem dflt_valid : ∀ (t : Ty), t.wf = true → valid t (dflt t) = true
  | .bool, _ => by simp [dflt, valid]
  | .uint n _, _ => by
      have := pow_pos_int n
      simp only [dflt, valid, Bool.and_eq_true]; exact ⟨decide_eq_true (by omega), decide_eq_true this⟩
  | .sint n _, _ => by
      have := pow_pos_int (n-1)
      simp only [dflt, valid, Bool.and_eq_true]; exact ⟨decide_eq_true (by omega), decide_eq_true this⟩
  | .float n _, _ => by
      have := Nat.two_pow_pos n
      simp only [dflt, valid]; exact decide_eq_true this
  | .byte, _ => by simp [dflt, valid]
  | .utf8, _ => by simp [dflt, valid]
  | .void _, _ => by simp [dflt, valid]
  | .farr e cap, hw => by
      simp only [Ty.wf, Bool.and_eq_true] at hw
      simp only [dflt, valid, List.length_replicate, beq_self_eq_true, Bool.true_and]
      exact all_replicate _ _ _ (dflt_valid e hw.1.1.1)
  | .varr e cap, _ => by simp [dflt, valid, validUtf8]
  | .struct fs m, hw => by
      simp only [Ty.wf, Bool.and_eq_true] at hw
      simp only [dflt, valid]
      exact dfltFields_valid fs hw.1
  | .union fs m, hw => by
      simp only [Ty.wf, Bool.and_eq_true, decide_eq_true_eq] at hw
      simp only [dflt, valid]
      match fs, hw with
      | [], hw => simp at hw
      | t :: ts, hw =>
        simp only [wfFields, Bool.and_eq_true] at hw
        simp only [validVariant, dfltFirst]
        exact dflt_valid t hw.1.1.1.1.1.1
theorem dfltFields_valid : ∀ (ts : List Ty), wfFields ts = true → validFields ts (dfltFields ts) = true
  | [], _ => by simp [dfltFields, validFields]
  | t :: ts, hw => by
      simp only [wfFields, Bool.and_eq_true] at hw
      simp only [dfltFields, validFields, Bool.and_eq_true]
      exact ⟨dflt_valid t hw.1.1, dfltFields_valid ts hw.2⟩
end

/-- a field whose key is missing from the dict is encoded as its default -/
theorem coerceFields_omitted : ∀ (ts : List Ty) (i : Nat) (kvs : List (Nat × Inp)) (vs : List Val),
    coerceFields ts i kvs = .ok vs → ∀ (j : Nat) (t : Ty), ts[j]? = some t → lookupKey (i + j) kvs = none →
      vs[j]? = some (dflt t)
  | [], _, _, _, _, j, t, hj, _ => by simp at hj
  | t0 :: ts, i, kvs, vs, h, j, t, hj, hk => by
      simp only [coerceFields, bind_ok] at h
      obtain ⟨v, hv, vs', hvs, hd⟩ := h
      cases hd
      cases j with
      | zero =>
        simp only [List.getElem?_cons_zero, Option.some.injEq] at hj
        subst hj
        simp only [Nat.add_zero] at hk
        simp only [hk] at hv
        split at hv
        · rename_i hvoid
          cases hv
          cases t0 <;> simp [Ty.isVoid] at hvoid
          simp [dflt]
        · cases hv; simp
      | succ j =>
        simp only [List.getElem?_cons_succ] at hj ⊢
        exact coerceFields_omitted ts (i+1) kvs vs' hvs j t hj (by rw [← hk]; congr 1; omega)

/-! ### everything `coerce` accepts is valid -/

theorem coerceList_valid {f : Inp → Except Err Val} {P : Val → Prop} :
    ∀ (xs : List Inp) (vs : List Val), (∀ x ∈ xs, ∀ v, f x = .ok v → P v) → coerceList f xs = .ok vs →
      vs.length = xs.length ∧ ∀ v ∈ vs, P v
  | [], vs, _, h => by simp only [coerceList] at h; cases h; simp
  | x :: xs, vs, hf, h => by
      simp only [coerceList, bind_ok] at h
      obtain ⟨v, hv, vs', hvs, hd⟩ := h
      cases hd
      have := coerceList_valid xs vs' (fun y hy => hf y (by simp [hy])) hvs
      have := hf x (by simp) v hv
      simp_all

theorem coerceList_map {f : Inp → Except Err Val} :
    ∀ (xs : List Inp) (vs : List Val) (g : Inp → Val), (∀ x ∈ xs, f x = .ok (g x)) → coerceList f xs = .ok vs →
      vs = xs.map g
  | [], vs, g, _, h => by simp only [coerceList] at h; cases h; simp
  | x :: xs, vs, g, hf, h => by
      simp only [coerceList, bind_ok] at h
      obtain ⟨v, hv, vs', hvs, hd⟩ := h
      cases hd
      have h1 := hf x (by simp)
      rw [h1] at hv; cases hv
      rw [coerceList_map xs vs' g (fun y hy => hf y (by simp [hy])) hvs]
      simp

theorem castU8_small (b : Nat) (h : b < 256) : castU 8 .trunc (b : Int) = b := by
  simp only [castU]
  exact Int.emod_eq_of_lt (by omega) (by have : (2:Int)^8 = 256 := by decide
                                         omega)

mutual
theorem coerce_valid : ∀ (t : Ty) (x : Inp) (v : Val), t.wf = true → coerce t x = .ok v → valid t v = true
  | .bool, x, v, _, h => by
      simp only [coerce] at h
      split at h <;> cases h <;> simp [valid]
  | .uint n c, x, v, _, h => by
      simp only [coerce] at h
      split at h
      · cases h
        have := castU_range n c ‹Int›
        simp only [valid, Bool.and_eq_true]; exact ⟨decide_eq_true this.1, decide_eq_true this.2⟩
      · cases h
  | .sint n c, x, v, hw, h => by
      simp only [Ty.wf, Bool.and_eq_true, decide_eq_true_eq] at hw
      simp only [coerce] at h
      split at h
      · cases h
        have := castS_range n c ‹Int› (by omega)
        simp only [valid, Bool.and_eq_true]; exact ⟨decide_eq_true this.1, decide_eq_true this.2⟩
      · cases h
  | .float n c, x, v, _, h => by
      simp only [coerce] at h
      split at h
      · split at h
        · cases h; rename_i hb; simp only [valid]; exact decide_eq_true hb
        · cases h
      · cases h
  | .byte, x, v, _, h => by
      simp only [coerce] at h
      split at h
      · cases h
        have := castU_range 8 .trunc ‹Int›
        have e : (2:Int)^8 = 256 := by decide
        simp only [valid, Bool.and_eq_true]; exact ⟨decide_eq_true this.1, decide_eq_true (by omega)⟩
      · cases h
  | .utf8, x, v, _, h => by
      simp only [coerce] at h
      split at h
      · cases h
        have := castU_range 8 .trunc ‹Int›
        have e : (2:Int)^8 = 256 := by decide
        simp only [valid, Bool.and_eq_true]; exact ⟨decide_eq_true this.1, decide_eq_true (by omega)⟩
      · cases h
  | .void _, x, v, _, h => by simp only [coerce] at h; cases h; simp [valid]
  | .farr e cap, x, v, hw, h => by
      simp only [Ty.wf, Bool.and_eq_true] at hw
      simp only [coerce, bind_ok] at h
      obtain ⟨xs, _, h⟩ := h
      split at h
      · cases h
      · rename_i hlen
        simp only [bind_ok] at h
        obtain ⟨vs, hvs, hd⟩ := h
        cases hd
        have := coerceList_valid (P := fun v => valid e v = true) xs vs
          (fun y _ w hw' => coerce_valid e y w hw.1.1.1 hw') hvs
        simp only [valid, Bool.and_eq_true, beq_iff_eq, List.all_eq_true]
        simp only [bne_iff_ne, ne_eq, Decidable.not_not] at hlen
        exact ⟨by omega, this.2⟩
  | .varr e cap, x, v, hw, h => by
      simp only [Ty.wf, Bool.and_eq_true] at hw
      simp only [coerce, bind_ok] at h
      obtain ⟨xs, hxs, h⟩ := h
      split at h
      · cases h
      · rename_i hlen
        simp only [bind_ok] at h
        obtain ⟨vs, hvs, hd⟩ := h
        cases hd
        have := coerceList_valid (P := fun v => valid e v = true) xs vs
          (fun y _ w hw' => coerce_valid e y w hw.1.1.1 hw') hvs
        simp only [valid, Bool.and_eq_true, decide_eq_true_eq, List.all_eq_true, Bool.or_eq_true,
          Bool.not_eq_true']
        refine ⟨⟨by omega, this.2⟩, ?_⟩
        -- UTF-8: the only accepted input is a valid byte string, which is mapped to itself
        cases e with
        | utf8 =>
          right
          cases x with
          | bytes bs =>
            simp only [seqOf] at hxs
            split at hxs
            · rename_i hok
              cases hxs
              simp only [Bool.and_eq_true, List.all_eq_true, decide_eq_true_eq] at hok
              have hmap := coerceList_map (f := fun y => coerce .utf8 y) _ vs (fun y => Val.int (castU 8 .trunc (y.num?.getD 0)))
                (by
                  intro y hy
                  simp only [List.mem_map] at hy
                  obtain ⟨b, _, rfl⟩ := hy
                  simp [coerce, Inp.num?]) hvs
              rw [hmap]
              simp only [List.map_map]
              have : (List.map (Val.byteOf ∘ (fun y => Val.int (castU 8 .trunc (y.num?.getD 0))) ∘ fun (b : Nat) => Inp.int (b : Int)) bs) = bs := by
                conv => rhs; rw [← List.map_id bs]
                apply List.map_congr_left
                intro b hb
                simp [Val.byteOf, Inp.num?, castU8_small b (hok.1 b hb)]
              rw [this]; exact hok.2
            · cases hxs
          | list _ => simp [seqOf] at hxs
          | _ => simp [seqOf] at hxs
        | _ => left; simp [Ty.isUtf8]
  | .struct fs m, x, v, hw, h => by
      simp only [Ty.wf, Bool.and_eq_true] at hw
      simp only [coerce] at h
      split at h
      · split at h
        · simp only [bind_ok] at h
          obtain ⟨vs, hvs, hd⟩ := h
          cases hd
          simp only [valid]
          exact coerceFields_valid fs _ _ vs hw.1 hvs
        · cases h
      · cases h
  | .union fs m, x, v, hw, h => by
      simp only [Ty.wf, Bool.and_eq_true] at hw
      simp only [coerce] at h
      split at h
      · split at h
        · simp only [bind_ok] at h
          obtain ⟨w, hw', hd⟩ := h
          cases hd
          simp only [valid]
          exact coerceVariant_valid fs _ _ w hw.1.1.1.1 hw'
        · cases h
      · cases h
theorem coerceFields_valid : ∀ (ts : List Ty) (i : Nat) (kvs : List (Nat × Inp)) (vs : List Val),
    wfFields ts = true → coerceFields ts i kvs = .ok vs → validFields ts vs = true
  | [], _, _, vs, _, h => by simp only [coerceFields] at h; cases h; simp [validFields]
  | t :: ts, i, kvs, vs, hw, h => by
      simp only [wfFields, Bool.and_eq_true] at hw
      simp only [coerceFields, bind_ok] at h
      obtain ⟨v, hv, vs', hvs, hd⟩ := h
      cases hd
      simp only [validFields, Bool.and_eq_true]
      refine ⟨?_, coerceFields_valid ts (i+1) kvs vs' hw.2 hvs⟩
      split at hv
      · rename_i hvoid
        cases hv
        cases t <;> simp [Ty.isVoid] at hvoid
        simp [valid]
      · split at hv
        · exact coerce_valid t _ v hw.1.1 hv
        · cases hv; exact dflt_valid t hw.1.1
theorem coerceVariant_valid : ∀ (ts : List Ty) (n : Nat) (x : Inp) (v : Val), wfFields ts = true →
    coerceVariant ts n x = .ok v → validVariant ts n v = true
  | [], _, _, _, _, h => by simp [coerceVariant] at h
  | t :: _, 0, x, v, hw, h => by
      simp only [wfFields, Bool.and_eq_true] at hw
      simp only [coerceVariant] at h
      simp only [validVariant]
      exact coerce_valid t x v hw.1.1 h
  | _ :: ts, n+1, x, v, hw, h => by
      simp only [wfFields, Bool.and_eq_true] at hw
      simp only [coerceVariant] at h
      simp only [validVariant]
      exact coerceVariant_valid ts n x v hw.2 h
end

theorem valid_inner (t : Ty) (v : Val) : valid t.inner v = valid t v := by
  cases t <;> cases v <;> simp [Ty.inner, valid]

theorem wf_inner (t : Ty) (h : t.wf = true) : t.inner.wf = true := by
  cases t <;> simp_all [Ty.inner, Ty.wf, modeOk]

end Wire
