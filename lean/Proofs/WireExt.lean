import Proofs.WireBasic
/-! Zero extension: appending zero bits to the readable window never changes a successful decoding
    (`_BitReader` reads zeros past the end anyway); the only way the two can differ is a delimiter header
    that does not fit into the shorter window. -/
namespace Wire

/-- extension relation: same offset, window extended by some zeros -/
def Ext (r r' : R) : Prop := r'.off = r.off ∧ ∃ k, r'.s = r.s ++ zeros k

theorem Ext.refl (r : R) : Ext r r := ⟨rfl, 0, by simp [zeros]⟩

theorem zeros_drop (k n : Nat) : (zeros k).drop n = zeros (k - n) := by simp [zeros]

theorem Ext.read {r r' : R} (h : Ext r r') (n : Nat) :
    (r'.read n).1 = (r.read n).1 ∧ Ext (r.read n).2 (r'.read n).2 := by
  obtain ⟨ho, k, hs⟩ := h
  refine ⟨by simp [R.read, hs, takeZ_ext], by simp [R.read, ho], ?_⟩
  simp only [R.read, hs, List.drop_append]
  exact ⟨k - (n - r.s.length), by simp [zeros]⟩

theorem Ext.alignTo {r r' : R} (h : Ext r r') (a : Nat) : Ext (r.alignTo a) (r'.alignTo a) := by
  obtain ⟨ho, k, hs⟩ := h
  refine ⟨by simp [R.alignTo, ho], ?_⟩
  simp only [R.alignTo, hs, ho, List.drop_append]
  exact ⟨k - (padLen r.off a - r.s.length), by simp [zeros]⟩

/-- a decoder step that is stable under zero extension -/
def ExtStable (f : R → Except Err (Val × R)) : Prop :=
  ∀ (r r' : R) (v : Val) (q : R), Ext r r' → f r = .ok (v, q) → ∃ q', f r' = .ok (v, q') ∧ Ext q q'

theorem decRep_ext {f : R → Except Err (Val × R)} (hf : ExtStable f) :
    ∀ (n : Nat) (r r' : R) (vs : List Val) (q : R), Ext r r' → decRep f n r = .ok (vs, q) →
      ∃ q', decRep f n r' = .ok (vs, q') ∧ Ext q q'
  | 0, r, r', vs, q, h, hd => by
      simp only [decRep] at hd ⊢; cases hd; exact ⟨r', rfl, h⟩
  | n+1, r, r', vs, q, h, hd => by
      simp only [decRep, bind_ok] at hd ⊢
      obtain ⟨⟨v1, r1⟩, hx, ⟨vs2, r2⟩, hy, hd⟩ := hd
      obtain ⟨q1, h1, h2⟩ := hf _ _ v1 r1 h hx
      obtain ⟨q2, h3, h4⟩ := decRep_ext hf n _ _ vs2 r2 h2 hy
      cases hd
      exact ⟨q2, ⟨(v1, q1), h1, (vs2, q2), h3, rfl⟩, h4⟩

theorem unwrapDelim_ext {body : R → Except Err (Val × R)} (hb : ExtStable body) (m : Mode) :
    ExtStable (fun r => unwrapDelim m r body) := by
  intro r r' v q h hd
  cases m with
  | sealed => exact hb r r' v q h hd
  | delimited x =>
    simp only [unwrapDelim] at hd ⊢
    have hr := h.read headerBits
    rw [hr.1]
    obtain ⟨ho, k, hs⟩ := hr.2
    split at hd
    · cases hd
    · rename_i hc
      have hc' : ¬ shorter (r'.read headerBits).2.s (bitsNat (r.read headerBits).1 * 8) = true := by
        rw [hs]; simp [shorter_iff] at hc ⊢; omega
      simp only [hc', Bool.false_eq_true, if_false, bind_ok] at hd ⊢
      simp only [shorter_iff, decide_eq_true_eq, Nat.not_lt] at hc
      have htake : (r'.read headerBits).2.s.take (bitsNat (r.read headerBits).1 * 8)
          = (r.read headerBits).2.s.take (bitsNat (r.read headerBits).1 * 8) := by
        rw [hs, List.take_append_of_le_length hc]
      rw [htake, ho]
      obtain ⟨⟨v1, r1⟩, hx, hd⟩ := hd
      cases hd
      refine ⟨_, ⟨(v1, r1), hx, rfl⟩, by simp, ?_⟩
      exact ⟨k - (bitsNat (r.read headerBits).1 * 8 - (r.read headerBits).2.s.length),
        by simp [hs, List.drop_append, zeros]⟩

mutual
theorem dec_ext : ∀ (t : Ty), ExtStable (dec t)
  | .bool => by
      intro r r' v q h hd
      simp only [dec] at hd ⊢
      have := h.read 1
      cases hd
      exact ⟨_, by simp [this.1], this.2⟩
  | .uint n _ => by
      intro r r' v q h hd
      simp only [dec] at hd ⊢
      have := h.read n
      cases hd
      exact ⟨_, by simp [this.1], this.2⟩
  | .sint n _ => by
      intro r r' v q h hd
      simp only [dec] at hd ⊢
      have := h.read n
      cases hd
      exact ⟨_, by simp [this.1], this.2⟩
  | .float n _ => by
      intro r r' v q h hd
      simp only [dec] at hd ⊢
      have := h.read n
      cases hd
      exact ⟨_, by simp [this.1], this.2⟩
  | .byte => by
      intro r r' v q h hd
      simp only [dec] at hd ⊢
      have := h.read 8
      cases hd
      exact ⟨_, by simp [this.1], this.2⟩
  | .utf8 => by
      intro r r' v q h hd
      simp only [dec] at hd ⊢
      have := h.read 8
      cases hd
      exact ⟨_, by simp [this.1], this.2⟩
  | .void n => by
      intro r r' v q h hd
      simp only [dec] at hd ⊢
      have := h.read n
      cases hd
      exact ⟨_, rfl, this.2⟩
  | .farr e cap => by
      intro r r' v q h hd
      simp only [dec, bind_ok] at hd ⊢
      obtain ⟨⟨vs, r1⟩, hx, hd⟩ := hd
      obtain ⟨q', h1, h2⟩ := decRep_ext (dec_ext e) cap r r' vs r1 h hx
      cases hd
      exact ⟨q', ⟨(vs, q'), h1, rfl⟩, h2⟩
  | .varr e cap => by
      intro r r' v q h hd
      simp only [dec] at hd ⊢
      have hr := h.read (lenBits cap)
      rw [hr.1]
      split at hd
      · cases hd
      · rename_i hc
        simp only [hc, if_false, bind_ok] at hd ⊢
        obtain ⟨⟨vs, r1⟩, hx, hd⟩ := hd
        obtain ⟨q', h1, h2⟩ := decRep_ext (dec_ext e) _ _ _ vs r1 hr.2 hx
        split at hd
        · cases hd
        · rename_i hu
          cases hd
          refine ⟨q', ⟨(vs, q'), h1, ?_⟩, h2⟩
          simp only [hu]
          rfl
  | .struct fs m => by
      intro r r' v q h hd
      simp only [dec] at hd ⊢
      refine unwrapDelim_ext ?_ m r r' v q h hd
      intro r r' v q h hd
      simp only [bind_ok] at hd ⊢
      obtain ⟨⟨vs, r1⟩, hx, hd⟩ := hd
      obtain ⟨q', h1, h2⟩ := decFields_ext fs r r' vs r1 h hx
      cases hd
      exact ⟨_, ⟨(vs, q'), h1, rfl⟩, h2.alignTo 8⟩
  | .union fs m => by
      intro r r' v q h hd
      simp only [dec] at hd ⊢
      refine unwrapDelim_ext ?_ m r r' v q h hd
      intro r r' v q h hd
      simp only [bind_ok] at hd ⊢
      have hr := h.read (tagBits fs.length)
      rw [hr.1]
      obtain ⟨⟨v1, r1⟩, hx, hd⟩ := hd
      obtain ⟨q', h1, h2⟩ := decVariant_ext fs _ _ _ v1 r1 hr.2 hx
      cases hd
      exact ⟨_, ⟨(v1, q'), h1, rfl⟩, h2.alignTo 8⟩
theorem decFields_ext : ∀ (ts : List Ty) (r r' : R) (vs : List Val) (q : R), Ext r r' →
    decFields ts r = .ok (vs, q) → ∃ q', decFields ts r' = .ok (vs, q') ∧ Ext q q'
  | [], r, r', vs, q, h, hd => by
      simp only [decFields] at hd ⊢; cases hd; exact ⟨r', rfl, h⟩
  | t :: ts, r, r', vs, q, h, hd => by
      simp only [decFields, bind_ok] at hd ⊢
      obtain ⟨⟨v1, r1⟩, hx, ⟨vs2, r2⟩, hy, hd⟩ := hd
      obtain ⟨q1, h1, h2⟩ := dec_ext t _ _ v1 r1 (h.alignTo t.align) hx
      obtain ⟨q2, h3, h4⟩ := decFields_ext ts _ _ vs2 r2 h2 hy
      cases hd
      exact ⟨q2, ⟨(v1, q1), h1, (vs2, q2), h3, rfl⟩, h4⟩
theorem decVariant_ext : ∀ (ts : List Ty) (n : Nat) (r r' : R) (v : Val) (q : R), Ext r r' →
    decVariant ts n r = .ok (v, q) → ∃ q', decVariant ts n r' = .ok (v, q') ∧ Ext q q'
  | [], _, r, r', v, q, h, hd => by simp [decVariant] at hd
  | t :: _, 0, r, r', v, q, h, hd => by
      simp only [decVariant] at hd ⊢; exact dec_ext t r r' v q h hd
  | _ :: ts, n+1, r, r', v, q, h, hd => by
      simp only [decVariant] at hd ⊢; exact decVariant_ext ts n r r' v q h hd
end

end Wire
