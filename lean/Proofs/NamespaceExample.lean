import Proofs.NamespaceBook
import Proofs.NamespaceC19
/-! A worked instance of the namespace model, evaluated step by step (the recursive reader and `List.mergeSort` are
    well-founded recursions, `decide` cannot unfold them): `ns/A.1.0` has a field of type `ns.B.1.0`, `other/C.1.0` is
    unrelated.  Used by the non-vacuity examples of Props/C09, C10, C19. -/
namespace Ns.Example

def S : Text := ⟨false, ⟨[.prim 8], .sealed⟩, none⟩
def G : Text := ⟨true, ⟨[], .none⟩, none⟩
def eA : FileEntry := ⟨["w", "ns"], [], "A.1.0.dsdl", ⟨false, ⟨[.ref ⟨"ns.B", 1, 0⟩], .sealed⟩, none⟩⟩
def eB : FileEntry := ⟨["w", "ns"], [], "B.1.0.dsdl", S⟩
def eC : FileEntry := ⟨["w", "other"], [], "C.1.0.dsdl", S⟩
def fs : List FileEntry := [eA, eB, eC]
def dA (t : Bool) : Def := ⟨t, ["w", "ns", "A.1.0.dsdl"], ["w", "ns"], ["ns", "A"], "ns.A", 1, 0, none, eA.text⟩
def dB (t : Bool) : Def := ⟨t, ["w", "ns", "B.1.0.dsdl"], ["w", "ns"], ["ns", "B"], "ns.B", 1, 0, none, S⟩
def dC (t : Bool) : Def := ⟨t, ["w", "other", "C.1.0.dsdl"], ["w", "other"], ["other", "C"], "other.C", 1, 0, none, S⟩
def L3 : List Def := [dA false, dB false, dC false]
def dirs : List Path := [["w", "other"], ["w", "ns"]]

def TB : Ty := .mk ⟨"ns.B", 1, 0, none, false, ⟨true, 8, [some 8]⟩, ⟨true, 8, [some 8]⟩, ["w", "ns", "B.1.0.dsdl"], ["w", "ns"]⟩ []
def TA : Ty := .mk ⟨"ns.A", 1, 0, none, false, ⟨true, 8, [none]⟩, ⟨true, 8, [none]⟩, ["w", "ns", "A.1.0.dsdl"], ["w", "ns"]⟩ [TB]

theorem mkA (t : Bool) : mkDef t eA = .ok (dA t) := by cases t <;> decide +kernel
theorem mkB (t : Bool) : mkDef t eB = .ok (dB t) := by cases t <;> decide +kernel
theorem mkC (t : Bool) : mkDef t eC = .ok (dC t) := by cases t <;> decide +kernel

theorem distinct : DistinctFileKeys fs := by unfold DistinctFileKeys; decide +kernel

theorem collectL : collect false fs dirs = .ok L3 := by
  unfold collect
  have : (fs.filter fun e => dirs.contains e.dir && isDefinitionFile e.fname) = [eA, eB, eC] := by decide +kernel
  rw [this]
  simp only [mapMDefs, mkA, mkB, mkC]
  have : sortDefs [dA false, dB false, dC false] = [dA false, dB false, dC false] := by
    unfold sortDefs
    exact List.mergeSort_of_pairwise (by decide +kernel)
  rw [this]; rfl

theorem collectT : collect true fs [["w", "ns"]] = .ok [dA true, dB true] := by
  unfold collect
  have : (fs.filter fun e => [["w", "ns"]].contains e.dir && isDefinitionFile e.fname) = [eA, eB] := by decide +kernel
  rw [this]
  simp only [mapMDefs, mkA, mkB]
  have : sortDefs [dA true, dB true] = [dA true, dB true] := by
    unfold sortDefs
    exact List.mergeSort_of_pairwise (by decide +kernel)
  rw [this]

/-- reading the leaf `B` -/
theorem evalB' (f : Bool) (L : List Def) (st : St) (h : st.cache.lookup (dB f) = none) :
    readObj false L (dB f) st = (.ok TB, { st with cache := (dB f, TB) :: st.cache }) := by
  rw [readObj]
  simp only [h]
  have hb : ∀ M rd, readBody false M (dB f) rd st = (.ok TB, st) := by
    intro M rd
    unfold readBody
    have hg : (dB f).text.garbage = false := rfl
    have hs : (dB f).text.req.stmts = [.prim 8] := rfl
    have hr : (dB f).text.resp = none := rfl
    simp only [hg, hs, hr, runStmts]
    have : assemble false (dB f) [some 8] [] none = .ok TB := by cases f <;> decide +kernel
    simp [this]
  rw [hb]

theorem evalB (L : List Def) (st : St) (h : st.cache.lookup (dB false) = none) :
    readObj false L (dB false) st = (.ok TB, { st with cache := (dB false, TB) :: st.cache }) := evalB' false L st h

/-- reading `A` reads `B` through the reference, caches both and records the visit -/
theorem evalA (st : St) (h : st.cache.lookup (dA true) = none) (hB : st.cache.lookup (dB false) = none) :
    readObj false L3 (dA true) st =
      (.ok TA, { st with cache := (dA true, TA) :: (dB false, TB) :: st.cache, visited := st.visited ++ [dB false] }) := by
  rw [readObj]
  simp only [h]
  have hdk : dropKey L3 (dA true) = [dB false, dC false] := by decide +kernel
  rw [hdk]
  unfold readBody
  have hg : (dA true).text.garbage = false := rfl
  have hs : (dA true).text.req.stmts = [.ref ⟨"ns.B", 1, 0⟩] := rfl
  have hr : (dA true).text.resp = none := rfl
  simp only [hg, hs, hr]
  have hres : resolve [dB false, dC false] (dA true) ⟨"ns.B", 1, 0⟩ = .ok (dB false) := by decide +kernel
  rw [runStmts_ref_ok hres]
  rw [evalB _ { st with visited := st.visited ++ [dB false] } hB]
  unfold afterRef
  have hsv : TB.info.isService = false := rfl
  simp only [hsv, runStmts]
  have : assemble false (dA true) [none] [TB] none = .ok TA := by decide +kernel
  simp [this]

/-- the book-keeping after the target `A` -/
def bookA : Book :=
  { pool := [((dB false).path, dB false), ((dA true).path, dA true)], direct := [TA], transitive := [TB],
    st := { cache := [(dA true, TA), (dB false, TB)], prints := [], visited := [dB false] } }

theorem level0_A (rest : List Def) : level0 false L3 (dA true :: rest) {} = level0 false L3 rest bookA := by
  rw [level0]
  have hsd : setDefault ({} : Book).pool (dA true) = (dA true, [((dA true).path, dA true)]) := by decide +kernel
  simp only [hsd]
  have hl : List.lookup (dA true) ({} : Book).st.cache = none := rfl
  simp only [hl]
  rw [evalA _ rfl rfl]
  simp only
  have hp : sortDefs (dedupKeys (List.filter (fun x => (List.lookup x.path [((dA true).path, dA true)]).isNone)
      (({} : St).visited ++ [dB false]))) = [dB false] := by
    have : dedupKeys (List.filter (fun x => (List.lookup x.path [((dA true).path, dA true)]).isNone)
      (({} : St).visited ++ [dB false])) = [dB false] := by decide +kernel
    rw [this]; simp [sortDefs]
  rw [hp]
  simp only [level1]
  have hsd2 : setDefault [((dA true).path, dA true)] (dB false) =
      (dB false, [((dB false).path, dB false), ((dA true).path, dA true)]) := by decide +kernel
  simp only [hsd2]
  have hl2 : List.lookup (dB false) ((dA true, TA) :: (dB false, TB) :: ({} : St).cache) = some TB := by decide +kernel
  simp only [hl2]
  have ha : addTy [] TA = [TA] := by decide +kernel
  have hr : removeTy [] TA = [] := rfl
  simp only [ha, hr]
  have hc1 : ([TA].contains TB || ([] : List Ty).contains TB) = false := by decide +kernel
  simp only [hc1]
  have ha2 : addTy [] TB = [TB] := by decide +kernel
  simp only [ha2]
  rfl

/-- `read_files` of `A` with the lookup directory `other`: `direct = [A]`, `transitive = [B]` -/
theorem evalFiles : readFiles fs [eA] [] [["w", "other"]] false = ⟨.ok ([TA], [TB]), []⟩ := by
  unfold readFiles
  simp only [mapMDefs, mkA]
  have hd : dedupPaths ([["w", "other"]] ++ List.map Def.root [dA true] ++ []) = dirs := by decide +kernel
  rw [hd]
  have hc : dirsCheck dirs true = .ok () := by decide +kernel
  simp only [hc]
  unfold completeRead
  simp only [collectL]
  have hk : keysDistinct (sortDefs [dA true]) = true := by simp [sortDefs]; decide +kernel
  simp only [hk]
  simp only [sortDefs, List.mergeSort_singleton]
  rw [level0_A]
  simp only [level0, bookA, sortTys, List.mergeSort_singleton]
  have hcc : crossCheck [TA.info] [TB.info, TA.info] = .ok () := by decide +kernel
  simp [hcc]

/-- `read_namespace` of `ns` with the lookup directory `other`: both files, `B` promoted from transitive to direct -/
theorem evalNs : readNamespace fs ["w", "ns"] [["w", "other"]] true false = ⟨.ok ([TA, TB], []), []⟩ := by
  unfold readNamespace
  have hd : dedupPaths ([["w", "other"]] ++ [["w", "ns"]]) = dirs := by decide +kernel
  simp only [hd]
  have hc : dirsCheck dirs true = .ok () := by decide +kernel
  simp only [hc, collectT]
  unfold completeRead
  simp only [collectL]
  have hk : keysDistinct [dA true, dB true] = true := by decide +kernel
  simp only [hk]
  rw [level0_A]
  rw [level0]
  have hsd : setDefault bookA.pool (dB true) = (dB false, bookA.pool) := by decide +kernel
  simp only [hsd]
  have hl : List.lookup (dB false) bookA.st.cache = some TB := by decide +kernel
  simp only [hl]
  have h1 : bookA.direct.contains TB = false := by decide +kernel
  have h2 : bookA.transitive.contains TB = true := by decide +kernel
  simp only [h1, h2, Bool.false_eq_true, if_false, if_true]
  simp only [level0]
  have h3 : addTy bookA.direct TB = [TA, TB] := by decide +kernel
  have h4 : removeTy bookA.transitive TB = [] := by decide +kernel
  simp only [h3, h4]
  have h5 : sortTys [TA, TB] = [TA, TB] := by
    unfold sortTys
    exact List.mergeSort_of_pairwise (by decide +kernel)
  have h6 : sortTys [] = [] := by simp [sortTys]
  simp only [h5, h6]
  have hcc : crossCheck [TA.info, TB.info] [TA.info, TB.info] = .ok () := by decide +kernel
  simp [hcc, bookA]

theorem sortTys_swap (a b : Ty) (h1 : keyLe a.key b.key = false) : sortTys [a, b] = [b, a] := by
  unfold sortTys
  rw [List.mergeSort]
  simp [List.MergeSort.Internal.splitInTwo, h1]

/-- the targets in the other order, `B` first: `B` is read as a target, then once more as the lookup object that `A`'s
    reference resolves to (a distinct object, as in the library); the result is the same -/
theorem evalRev : completeRead false fs [dB true, dA true] dirs = ⟨.ok ([TA, TB], []), []⟩ := by
  unfold completeRead
  simp only [collectL]
  have hk : keysDistinct [dB true, dA true] = true := by decide +kernel
  simp only [hk]
  rw [level0]
  have hsd : setDefault ({} : Book).pool (dB true) = (dB true, [((dB true).path, dB true)]) := by decide +kernel
  simp only [hsd]
  have hl : List.lookup (dB true) ({} : Book).st.cache = none := rfl
  simp only [hl]
  rw [evalB' true _ _ rfl]
  simp only
  have hp : sortDefs (dedupKeys (List.filter (fun x => (List.lookup x.path [((dB true).path, dB true)]).isNone)
      ({} : St).visited)) = [] := by
    have : dedupKeys (List.filter (fun x => (List.lookup x.path [((dB true).path, dB true)]).isNone)
      ({} : St).visited) = [] := by decide +kernel
    rw [this]; simp [sortDefs]
  rw [hp]
  simp only [level1]
  rw [level0]
  have hsd2 : setDefault [((dB true).path, dB true)] (dA true) =
      (dA true, [((dA true).path, dA true), ((dB true).path, dB true)]) := by decide +kernel
  simp only [hsd2]
  have hl2 : List.lookup (dA true) ((dB true, TB) :: ({} : St).cache) = none := by decide +kernel
  simp only [hl2]
  rw [evalA _ (by decide +kernel) (by decide +kernel)]
  simp only
  have ha : addTy [] TB = [TB] := by decide +kernel
  have hr : removeTy [] TB = [] := rfl
  simp only [ha, hr]
  have ha2 : addTy [TB] TA = [TB, TA] := by decide +kernel
  have hr2 : removeTy [] TA = [] := rfl
  simp only [ha2, hr2]
  have hp2 : sortDefs (dedupKeys (List.filter
      (fun x => (List.lookup x.path [((dA true).path, dA true), ((dB true).path, dB true)]).isNone)
      ([] ++ [dB false]))) = [] := by
    have : dedupKeys (List.filter
      (fun x => (List.lookup x.path [((dA true).path, dA true), ((dB true).path, dB true)]).isNone)
      ([] ++ [dB false])) = [] := by decide +kernel
    rw [this]; simp [sortDefs]
  rw [hp2]
  simp only [level1, level0]
  have h5 : sortTys [TB, TA] = [TA, TB] := sortTys_swap TB TA (by decide +kernel)
  have h6 : sortTys [] = [] := by simp [sortTys]
  simp only [h5, h6]
  have hcc : crossCheck [TA.info, TB.info] [TA.info, TB.info] = .ok () := by decide +kernel
  simp [hcc]

theorem evalFwd : completeRead false fs [dA true, dB true] dirs = ⟨.ok ([TA, TB], []), []⟩ := by
  have := evalNs
  unfold readNamespace at this
  have hd : dedupPaths ([["w", "other"]] ++ [["w", "ns"]]) = dirs := by decide +kernel
  have hc : dirsCheck dirs true = .ok () := by decide +kernel
  simp only [hd, hc, collectT] at this
  exact this

theorem hypAB : Hyp L3 ([dA true, dB true] ++ [dB true, dA true]) := by
  apply hyp_of_files (files := fs) (dirs := dirs) (ac := true) distinct (by decide +kernel)
  intro x hx
  have : x = dA false ∨ x = dB false ∨ x = dC false ∨ x = dA true ∨ x = dB true := by
    rcases hx with hx | hx
    · simp only [L3, List.mem_cons, List.not_mem_nil, or_false] at hx
      rcases hx with h | h | h <;> simp [h]
    · simp only [List.cons_append, List.nil_append, List.mem_cons, List.not_mem_nil, or_false] at hx
      rcases hx with h | h | h | h <;> simp [h]
  rcases this with rfl | rfl | rfl | rfl | rfl
  · exact ⟨eA, by decide +kernel, false, by decide +kernel, mkA false⟩
  · exact ⟨eB, by decide +kernel, false, by decide +kernel, mkB false⟩
  · exact ⟨eC, by decide +kernel, false, by decide +kernel, mkC false⟩
  · exact ⟨eA, by decide +kernel, true, by decide +kernel, mkA true⟩
  · exact ⟨eB, by decide +kernel, true, by decide +kernel, mkB true⟩

/-- the dependency closure of targets among `A`, `B` stays within `{A, B}` -/
theorem closureAB {ts : List Def} (hts : ∀ t ∈ ts, t = dA true ∨ t = dB true) {d : Def} (h : DepClosure L3 ts d) :
    d = dA true ∨ d = dB true ∨ d = dB false := by
  induction h with
  | target h => rcases hts _ h with e | e
                · exact Or.inl e
                · exact Or.inr (Or.inl e)
  | @dep d x r _ hg hr hx hk ih =>
    rcases ih with rfl | rfl | rfl
    · have hr' : r = ⟨"ns.B", 1, 0⟩ := by
        have : (dA true).text.refs = [⟨"ns.B", 1, 0⟩] := by decide +kernel
        rw [this] at hr; simpa using hr
      subst hr'
      have hck : (completeName (dA true) "ns.B", 1, 0) = (("ns.B", 1, 0) : Key) := by decide +kernel
      rw [show (Ref.mk "ns.B" 1 0).name = "ns.B" from rfl, show (Ref.mk "ns.B" 1 0).major = 1 from rfl,
        show (Ref.mk "ns.B" 1 0).minor = 0 from rfl, hck] at hk
      simp only [L3, List.mem_cons, List.not_mem_nil, or_false] at hx
      rcases hx with rfl | rfl | rfl
      · exact absurd hk (by decide +kernel)
      · exact Or.inr (Or.inr rfl)
      · exact absurd hk (by decide +kernel)
    · have : (dB true).text.refs = [] := by decide +kernel
      rw [this] at hr; cases hr
    · have : (dB false).text.refs = [] := by decide +kernel
      rw [this] at hr; cases hr

/-- replace the text of `other/C.1.0` by garbage -/
def garbleC (p : Path) (t : Text) : Text := if p = ["w", "other", "C.1.0.dsdl"] then G else t

theorem garbleC_changes : fs.map (retextE garbleC) ≠ fs := by decide +kernel

theorem garbleC_outside {ts : List Def} (hts : ∀ t ∈ ts, t = dA true ∨ t = dB true) {d : Def} (h : DepClosure L3 ts d) :
    garbleC d.path d.text = d.text := by
  rcases closureAB hts h with rfl | rfl | rfl <;> decide +kernel

/-- `B` replaced by garbage: reading `A` fails in the dependency -/
def dBg : Def := { dB false with text := G }

theorem evalErr : (readObj false [dBg] (dA true) {}).1 = .error .localInvalid := by
  rw [readObj]
  have hl : List.lookup (dA true) ({} : St).cache = none := rfl
  simp only [hl]
  have hdk : dropKey [dBg] (dA true) = [dBg] := by decide +kernel
  rw [hdk]
  unfold readBody
  have hg : (dA true).text.garbage = false := rfl
  have hs : (dA true).text.req.stmts = [.ref ⟨"ns.B", 1, 0⟩] := rfl
  simp only [hg, hs]
  have hres : resolve [dBg] (dA true) ⟨"ns.B", 1, 0⟩ = .ok dBg := by decide +kernel
  rw [runStmts_ref_ok hres]
  have hin : ∀ st : St, st.cache = [] → readObj false [dBg] dBg st = (.error .localInvalid, st) := by
    intro st hc
    rw [readObj]
    have : List.lookup dBg st.cache = none := by rw [hc]; rfl
    simp only [this]
    unfold readBody
    have hg' : dBg.text.garbage = true := rfl
    simp [hg']
  rw [hin _ rfl]
  simp [afterRef]

end Ns.Example
