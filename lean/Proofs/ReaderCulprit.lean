import Proofs.ReaderFormatNs
import Proofs.ReaderCommit
import Proofs.ReaderPrintErr
/-! The reported line against the declarative reading (C17 with the statement machine of C03): the read fails at the first
    statement that the declarative reading `aRead` of the statement sequence rejects, and reports that statement's line
    (or the untouched error of one of its referenced definitions) — whether the statement is rejected while it is
    visited or, for a lazily committed attribute, lines later. -/
set_option linter.unusedSimpArgs false
namespace Reader

theorem handler_last {c k l st s3 s4} (h : handler c k l st s3 = .ok s4) (hp : s3.pending = none) :
    s4.pending.isSome → s4.lastAttrLine = k := by
  cases st with
  | attr core =>
    simp only [handler, onAttr] at h
    split at h
    · simp [raise] at h
    · rw [map_ok] at h
      obtain ⟨s5, h5, h6⟩ := h
      simp [flushAttr, hp] at h5
      subst h5; subst h6
      intro _; rfl
  | directive name e text =>
    simp only [handler] at h
    obtain ⟨_, b, _⟩ := onDirective_last h
    intro hs; rw [b, hp] at hs; cases hs
  | marker =>
    simp only [handler] at h
    have := onMarker_ok h
    subst this
    intro hs; simp [hp] at hs

theorem own_handler {c k l st s} : Own c k (handler c k l st s) := by
  cases st with
  | attr core => exact own_onAttr
  | directive name e text => exact own_onDirective
  | marker => exact own_onMarker

/-- the flushed state through the body of a statement: an own error with this line, or the untouched error of a referenced
    definition; on success the handler's result -/
theorem body_err {c k l st sf e w'} (h : body c k l st sf = .error (e, w')) :
    e = ⟨c.self, some k⟩ ∨ DepErr c l e := by
  unfold body at h
  rw [bind_err] at h
  rcases h with h | ⟨s2, _, h⟩
  · left; exact own_resolveRefs e w' h
  · rw [bind_err] at h
    rcases h with h | ⟨s3, _, h⟩
    · exact readDeps_err l.deps (fun _ hx => hx) h
    · split at h
      · left; exact own_raise e w' h
      · split at h
        · left; exact own_raise e w' h
        · left; exact own_handler e w' h

theorem body_last {c k l st sf s4} (h : body c k l st sf = .ok s4) (hp : sf.pending = none) :
    s4.pending.isSome → s4.lastAttrLine = k := by
  unfold body at h
  simp only [bind_ok] at h
  obtain ⟨s2, h2, s3, h3, h⟩ := h
  have e2 := resolveRefs_ok h2; subst e2
  obtain ⟨w3, e3⟩ := readDeps_ok h3
  have hp3 : s3.pending = none := by rw [e3]; simp [markOffs_pending, hp]
  split at h
  · simp [raise] at h
  · split at h
    · simp [raise] at h
    · exact handler_last h hp3

/-- a line read in a state whose queued attribute (if any) will be accepted: whatever is raised is an own error with the
    number of THIS line, or the untouched error of a referenced definition of this line -/
theorem stepLine_err_commitOk {c k l s e w'} (hwf : l.offsWf) (hi : s.pending.isSome → s.header = false) (hc : CommitOk s)
    (h : stepLine c k s l = .error (e, w')) : e = ⟨c.self, some k⟩ ∨ DepErr c l e := by
  rw [stepLine_eq] at h
  obtain ⟨sf, hsf⟩ := flush_of_commitOk c k hc
  obtain ⟨pf, qf, _⟩ := flush_ok hsf hi
  cases hl : l.stmt with
  | none =>
    simp only [hl, bind, Except.bind] at h
    unfold tail at h
    split at h
    · exfalso
      have hc' : CommitOk (addLineComment l s) := by
        obtain ⟨a1, _, a3, _⟩ := addLineComment_facts l s
        intro a bad hp; rw [a1] at hp; rw [a3]; exact hc a bad hp
      obtain ⟨s', hs'⟩ := flush_of_commitOk c k hc'
      rw [hs'] at h; cases h
    · cases h
  | some st =>
    simp only [hl] at h
    rw [visitStmt_nf hwf hl hsf hi] at h
    rw [bind_err] at h
    rcases h with h | ⟨s4, h4, h⟩
    · split at h
      · left; exact own_raise e w' h
      · exact body_err h
    · split at h4
      · simp [raise] at h4
      · have hlast := body_last h4 pf
        unfold tail at h
        split at h
        · obtain ⟨hp, he⟩ := flush_err h
          obtain ⟨a1, _, _, _⟩ := addLineComment_facts l s4
          rw [a1] at hp
          have h5 : (addLineComment l s4).lastAttrLine = k := by
            have : (addLineComment l s4).lastAttrLine = s4.lastAttrLine := by
              unfold addLineComment; cases l.comment <;> rfl
            rw [this]; exact hlast hp
          left
          rw [he, h5]
          by_cases hk : k = 0 <;> simp [hk]
        · cases h

/-- **The culprit is the first statement the declarative reading rejects.**  The text is `pre ++ l :: gap ++ rest`: the
    declarative reading accepts the statement sequence of `pre` and rejects the statement of `l` (for whatever reason: a
    fault of its own, an unresolved reference, a referenced definition that cannot be read, a misplaced or repeated
    directive, an attribute behind `@extent`, a constructor that raises, a field behind `_offset_` in a union);
    statement-less lines `gap` follow, then the end of the text or a statement that does not fail before its first flush.
    Then the read fails and reports the own path with the number of `l`'s line — also when `l` is an attribute that was
    queued and is rejected only lines later, wherever the commit happens — or the untouched error of a definition that
    `l` refers to. -/
theorem readText_first_rejected {c : Ctx} (hc : c.lineBlind) {w : W} {pre gap rest : List Line} {l : Line} {t : ASt}
    (hwf : ∀ x ∈ pre ++ l :: (gap ++ rest), x.offsWf) (hsyn : ∀ x ∈ pre ++ l :: (gap ++ rest), x.fault ≠ some .syn)
    (hpre : aRun c ⟨Spec.init, false, w⟩ (items pre) = some t) (hbad : aStepO c t l.item = none)
    (hgap : ∀ x ∈ gap, x.stmt = none) (hrest : RestOk rest) :
    ∃ e w', readText c (pre ++ l :: (gap ++ rest)) w = .error (e, w') ∧
      (e = ⟨c.self, some (lineAfter 1 pre)⟩ ∨ DepErr c l e) := by
  have hmem_pre : ∀ x ∈ pre, x ∈ pre ++ l :: (gap ++ rest) := fun x hx => List.mem_append.mpr (Or.inl hx)
  have hmem_l : l ∈ pre ++ l :: (gap ++ rest) := List.mem_append.mpr (Or.inr (List.mem_cons_self ..))
  obtain ⟨r1, r2⟩ := runLines_sim (c := c) (c' := c) W.sim_print hc pre 1 (St.init w) ⟨Spec.init, false, w⟩
    (fun x hx => ⟨hwf x (hmem_pre x hx), hsyn x (hmem_pre x hx)⟩) (Abs_init (W.sim_refl w))
  cases hr : runLines c 1 (St.init w) pre with
  | error e => rw [r2 e hr] at hpre; cases hpre
  | ok s0 =>
    rcases r1 s0 hr with ⟨t', ht', ha⟩ | ⟨hn, _⟩
    · rw [hpre] at ht'; cases ht'
      have hn : 0 < lineAfter 1 pre := lineAfter_pos pre 1 (by omega)
      obtain ⟨p1, p2⟩ := stepLine_sim (c := c) (c' := c) (k := lineAfter 1 pre) W.sim_print hc (hwf l hmem_l) (hsyn l hmem_l) ha
      have hread : readText c (pre ++ l :: (gap ++ rest)) w =
          ((stepLine c (lineAfter 1 pre) s0 l >>= fun s' => runLines c (l.next (lineAfter 1 pre)) s' (gap ++ rest)) >>= fun s =>
            flush c (lastLine 1 (pre ++ l :: (gap ++ rest))) s >>= fun s' => (finalize c s').map fun comp => (comp, s'.w)) := by
        unfold readText
        rw [firstSyntaxError_none hsyn]
        simp only
        rw [runLines_append, hr]
        simp only [bind, Except.bind, runLines]
      cases hs : stepLine c (lineAfter 1 pre) s0 l with
      | error ew =>
        obtain ⟨e, w'⟩ := ew
        refine ⟨e, w', ?_, stepLine_err_commitOk (hwf l hmem_l) ha.1.1 ha.2.2.2 hs⟩
        rw [hread, hs]; rfl
      | ok s1 =>
        rcases p1 s1 hs with ⟨t', ht', _⟩ | ⟨_, hd⟩
        · rw [hbad] at ht'; cases ht'
        · -- the attribute of `l` was queued and will be rejected
          rw [stepLine_eq, bind_ok] at hs
          obtain ⟨s1', hv, htl⟩ := hs
          obtain ⟨hh, a, bad, hp, hb⟩ := hd
          have hs1 : s1 = addLineComment l s1' := by
            unfold tail at htl
            split at htl
            · exfalso
              have hr1 : RInv s1' (t.spec.step l) := by
                cases hl : l.stmt with
                | none => simp only [hl] at hv; cases hv; simpa [Spec.step, hl] using ha.1
                | some st =>
                  simp only [hl, visitStmt, bind_ok] at hv
                  obtain ⟨s3, h3, h4⟩ := hv
                  exact emitStmt_rinv hl h4 (visitChildren_rinv h3 ha.1)
              have hi1 := (addLineComment_rinv (l := l) hr1).1
              have := (flush_ok htl hi1).1
              rw [this] at hp; cases hp
            · cases htl; rfl
          obtain ⟨b1, b2, b3, b4⟩ := addLineComment_facts l s1'
          rw [hs1, b1] at hp
          rw [hs1, b3] at hb
          cases hl : l.stmt with
          | none => simp only [hl] at hv; cases hv; exact absurd (ha.2.2.2 a bad hp) (by
              rintro ⟨q1, q2⟩
              rcases hb with hb | ⟨hk, hu⟩
              · rw [q1] at hb; cases hb
              · rcases q2 with q2 | q2
                · exact hk q2
                · rw [q2] at hu; cases hu)
          | some st =>
            simp only [hl] at hv
            obtain ⟨⟨core, rfl⟩, _⟩ := visitStmt_pending ha.1.1 hv hp
            obtain ⟨_, _, q3⟩ := visitStmt_attr_queued ha.1.1 hv
            rw [q3] at hp
            simp only [Option.some.injEq, Prod.mk.injEq] at hp
            obtain ⟨rfl, rfl⟩ := hp
            have hbad' : l.fault = some .commit ∨ (core.kind ≠ .const ∧ (s1'.cur.union && s1'.cur.offsetUsed) = true) := by
              rcases hb with hb | hb
              · left; simpa using hb
              · right; exact hb
            exact ⟨_, _, readText_commit_fault hsyn hr hv hl hbad' hgap hrest, Or.inl rfl⟩
    · rw [hn] at hpre; cases hpre

end Reader
