import Proofs.RulesKernel
/-!
  Letter case in `check_name` (C05), for all characters and all names: `lowerChar` is ASCII lower-casing
  (`+ 32` on `A..Z`, identity elsewhere), lowering is idempotent, and `checkName` / `NameOk` / `Reserved ∘ lower`
  do not change when any subset of the letters of a name is written in the other case.
-/
namespace Rules

/-! ### `lowerChar` -/

theorem isUpper_iff (c : Char) : isUpper c = true ↔ 65 ≤ c.toNat ∧ c.toNat ≤ 90 := by
  unfold isUpper
  rw [Bool.and_eq_true, decide_eq_true_eq, decide_eq_true_eq, Char.le_def, Char.le_def]
  simp only [UInt32.le_iff_toNat_le]
  exact Iff.rfl

theorem isLower_iff (c : Char) : isLower c = true ↔ 97 ≤ c.toNat ∧ c.toNat ≤ 122 := by
  unfold isLower
  rw [Bool.and_eq_true, decide_eq_true_eq, decide_eq_true_eq, Char.le_def, Char.le_def]
  simp only [UInt32.le_iff_toNat_le]
  exact Iff.rfl

def upperLetters : List Char := "ABCDEFGHIJKLMNOPQRSTUVWXYZ".toList
def lowerLetters : List Char := "abcdefghijklmnopqrstuvwxyz".toList

/-- the upper-case characters are exactly the 26 letters `A..Z` -/
theorem isUpper_iff_mem (c : Char) : isUpper c = true ↔ c ∈ upperLetters := by
  constructor
  · intro h
    rw [isUpper_iff] at h
    have hc : ∀ n, c.toNat = n → c = Char.ofNat n := fun n hn => by rw [← hn, Char.ofNat_toNat]
    have : c.toNat = 65 ∨ c.toNat = 66 ∨ c.toNat = 67 ∨ c.toNat = 68 ∨ c.toNat = 69 ∨ c.toNat = 70 ∨ c.toNat = 71 ∨
        c.toNat = 72 ∨ c.toNat = 73 ∨ c.toNat = 74 ∨ c.toNat = 75 ∨ c.toNat = 76 ∨ c.toNat = 77 ∨ c.toNat = 78 ∨
        c.toNat = 79 ∨ c.toNat = 80 ∨ c.toNat = 81 ∨ c.toNat = 82 ∨ c.toNat = 83 ∨ c.toNat = 84 ∨ c.toNat = 85 ∨
        c.toNat = 86 ∨ c.toNat = 87 ∨ c.toNat = 88 ∨ c.toNat = 89 ∨ c.toNat = 90 := by omega
    rcases this with h | h | h | h | h | h | h | h | h | h | h | h | h | h | h | h | h | h | h | h | h | h | h | h | h | h <;>
      (rw [hc _ h]; decide)
  · intro h
    have : ∀ x ∈ upperLetters, isUpper x = true := by decide
    exact this c h

/-- the lower-case characters are exactly the 26 letters `a..z` -/
theorem isLower_iff_mem (c : Char) : isLower c = true ↔ c ∈ lowerLetters := by
  constructor
  · intro h
    rw [isLower_iff] at h
    have hc : ∀ n, c.toNat = n → c = Char.ofNat n := fun n hn => by rw [← hn, Char.ofNat_toNat]
    have : c.toNat = 97 ∨ c.toNat = 98 ∨ c.toNat = 99 ∨ c.toNat = 100 ∨ c.toNat = 101 ∨ c.toNat = 102 ∨ c.toNat = 103 ∨
        c.toNat = 104 ∨ c.toNat = 105 ∨ c.toNat = 106 ∨ c.toNat = 107 ∨ c.toNat = 108 ∨ c.toNat = 109 ∨ c.toNat = 110 ∨
        c.toNat = 111 ∨ c.toNat = 112 ∨ c.toNat = 113 ∨ c.toNat = 114 ∨ c.toNat = 115 ∨ c.toNat = 116 ∨ c.toNat = 117 ∨
        c.toNat = 118 ∨ c.toNat = 119 ∨ c.toNat = 120 ∨ c.toNat = 121 ∨ c.toNat = 122 := by omega
    rcases this with h | h | h | h | h | h | h | h | h | h | h | h | h | h | h | h | h | h | h | h | h | h | h | h | h | h <;>
      (rw [hc _ h]; decide)
  · intro h
    have : ∀ x ∈ lowerLetters, isLower x = true := by decide
    exact this c h

theorem lowerChar_of_not_upper (c : Char) (h : isUpper c = false) : lowerChar c = c := by
  unfold lowerChar
  split <;> first | rfl | (exact absurd h (by decide))

theorem lowerChar_of_upper (c : Char) (h : isUpper c = true) : lowerChar c = Char.ofNat (c.toNat + 32) := by
  have : ∀ x ∈ upperLetters, lowerChar x = Char.ofNat (x.toNat + 32) := by decide
  exact this c ((isUpper_iff_mem c).mp h)

/-- `lowerChar` is ASCII lower-casing: `A..Z` are moved by 32 code points, every other character is unchanged -/
theorem lowerChar_spec (c : Char) :
    (isUpper c = true → lowerChar c = Char.ofNat (c.toNat + 32)) ∧ (isUpper c = false → lowerChar c = c) :=
  ⟨lowerChar_of_upper c, lowerChar_of_not_upper c⟩

/-- the image of an upper-case letter is the lower-case letter with code point `+ 32` -/
theorem lowerChar_toNat (c : Char) (h : isUpper c = true) : (lowerChar c).toNat = c.toNat + 32 ∧ isLower (lowerChar c) = true := by
  have : ∀ x ∈ upperLetters, (lowerChar x).toNat = x.toNat + 32 ∧ isLower (lowerChar x) = true := by decide
  exact this c ((isUpper_iff_mem c).mp h)

theorem isUpper_lowerChar (c : Char) : isUpper (lowerChar c) = false := by
  cases h : isUpper c
  · rw [lowerChar_of_not_upper c h]; exact h
  · have : ∀ x ∈ upperLetters, isUpper (lowerChar x) = false := by decide
    exact this c ((isUpper_iff_mem c).mp h)

theorem lowerChar_idem (c : Char) : lowerChar (lowerChar c) = lowerChar c :=
  lowerChar_of_not_upper _ (isUpper_lowerChar c)

theorem lower_idem (n : List Char) : lower (lower n) = lower n := by
  unfold lower
  rw [List.map_map]
  exact List.map_congr_left fun c _ => lowerChar_idem c

theorem lower_length (n : List Char) : (lower n).length = n.length := List.length_map ..

/-- two characters have the same lower-case image iff they are equal or the same letter in the two cases -/
theorem lowerChar_eq_iff (a b : Char) :
    lowerChar a = lowerChar b ↔ a = b ∨ (isUpper a = true ∧ b = lowerChar a) ∨ (isUpper b = true ∧ a = lowerChar b) := by
  constructor
  · intro h
    cases ha : isUpper a <;> cases hb : isUpper b
    · left; rw [lowerChar_of_not_upper a ha, lowerChar_of_not_upper b hb] at h; exact h
    · right; right; rw [lowerChar_of_not_upper a ha] at h; exact ⟨rfl, h⟩
    · right; left; rw [lowerChar_of_not_upper b hb] at h; exact ⟨rfl, h.symm⟩
    · left
      have h1 := (lowerChar_toNat a ha).1
      have h2 := (lowerChar_toNat b hb).1
      rw [h] at h1
      exact Char.toNat_inj.mp (by omega)
  · rintro (rfl | ⟨_, rfl⟩ | ⟨_, rfl⟩)
    · rfl
    · exact (lowerChar_idem a).symm
    · exact lowerChar_idem b

/-! ### names that differ only in letter case -/

/-- same length and, position by position, the same character up to ASCII letter case -/
def sameUpToCase (a b : List Char) : Prop :=
  a.length = b.length ∧ ∀ (i : Nat) (h1 : i < a.length) (h2 : i < b.length), lowerChar a[i] = lowerChar b[i]

theorem sameUpToCase_iff (a b : List Char) : sameUpToCase a b ↔ lower a = lower b := by
  unfold sameUpToCase lower
  constructor
  · rintro ⟨hl, h⟩
    apply List.ext_getElem (by simpa using hl)
    intro i h1 h2
    simp only [List.getElem_map]
    exact h i (by simpa using h1) (by simpa using h2)
  · intro h
    have hl : a.length = b.length := by simpa using congrArg List.length h
    refine ⟨hl, fun i h1 h2 => ?_⟩
    have : (a.map lowerChar)[i]'(by simpa using h1) = (b.map lowerChar)[i]'(by simpa using h2) := by
      simp only [h]
    simpa only [List.getElem_map] using this

theorem sameUpToCase_refl (a : List Char) : sameUpToCase a a := (sameUpToCase_iff a a).mpr rfl
theorem sameUpToCase_symm {a b : List Char} (h : sameUpToCase a b) : sameUpToCase b a :=
  (sameUpToCase_iff b a).mpr ((sameUpToCase_iff a b).mp h).symm
theorem sameUpToCase_trans {a b c : List Char} (h1 : sameUpToCase a b) (h2 : sameUpToCase b c) : sameUpToCase a c :=
  (sameUpToCase_iff a c).mpr (((sameUpToCase_iff a b).mp h1).trans ((sameUpToCase_iff b c).mp h2))

/-- a name and its lowered form differ only in letter case -/
theorem sameUpToCase_lower (a : List Char) : sameUpToCase a (lower a) :=
  (sameUpToCase_iff a _).mpr (lower_idem a).symm

/-- the character-set checks do not look at the letter case -/
theorem validFirst_congr {a b : Char} (h : lowerChar a = lowerChar b) : validFirst a = validFirst b := by
  rw [← validFirst_lower a, ← validFirst_lower b, h]

theorem validCont_congr {a b : Char} (h : lowerChar a = lowerChar b) : validCont a = validCont b := by
  rw [← validCont_lower a, ← validCont_lower b, h]

theorem all_validCont_lower (l : List Char) : (lower l).all validCont = l.all validCont := by
  unfold lower
  rw [List.all_map]
  exact congrArg (fun f => l.all f) (funext fun c => validCont_lower c)

/-- `checkName` factors through the lowered name: the character-set check of the lowered name plus the reserved
    words / patterns of the lowered name -/
theorem checkName_eq_lower (s : String) : checkName s = checkName (String.ofList (lower s.toList)) := by
  unfold checkName
  rw [String.toList_ofList]
  cases hs : s.toList with
  | nil => rfl
  | cons c rest =>
    have hl : lower (c :: rest) = lowerChar c :: lower rest := rfl
    simp only [hl]
    rw [← hl, lower_idem, all_validCont_lower, validFirst_lower]

/-- **letter case does not matter**: two names that differ only in the case of some of their ASCII letters get the
    same verdict of `check_name` -/
theorem checkName_sameUpToCase (a b : String) (h : sameUpToCase a.toList b.toList) : checkName a = checkName b := by
  rw [checkName_eq_lower a, checkName_eq_lower b, (sameUpToCase_iff _ _).mp h]

theorem Reserved_sameUpToCase (a b : List Char) (h : sameUpToCase a b) : Reserved (lower a) ↔ Reserved (lower b) := by
  rw [(sameUpToCase_iff a b).mp h]

theorem NameOk_sameUpToCase (a b : String) (h : sameUpToCase a.toList b.toList) : NameOk a ↔ NameOk b := by
  rw [← checkName_iff, ← checkName_iff, checkName_sameUpToCase a b h]

/-! ### writing an arbitrary subset of the letters in the other case -/

/-- the other case of an ASCII letter; every other character unchanged -/
def swapCase (c : Char) : Char :=
  if isUpper c then lowerChar c else if isLower c then Char.ofNat (c.toNat - 32) else c

theorem lowerChar_swapCase (c : Char) : lowerChar (swapCase c) = lowerChar c := by
  unfold swapCase
  cases hu : isUpper c
  · cases hl : isLower c
    · simp
    · have : ∀ x ∈ lowerLetters, lowerChar (Char.ofNat (x.toNat - 32)) = lowerChar x := by decide
      simpa using this c ((isLower_iff_mem c).mp hl)
  · simpa using lowerChar_idem c

/-- a letter really changes -/
theorem swapCase_ne (c : Char) (h : isUpper c = true ∨ isLower c = true) : swapCase c ≠ c := by
  rcases h with h | h
  · have : ∀ x ∈ upperLetters, swapCase x ≠ x := by decide
    exact this c ((isUpper_iff_mem c).mp h)
  · have : ∀ x ∈ lowerLetters, swapCase x ≠ x := by decide
    exact this c ((isLower_iff_mem c).mp h)

/-- write the characters at the positions selected by `p` in the other case -/
def recase (p : Nat → Bool) (s : List Char) : List Char := s.mapIdx fun i c => if p i then swapCase c else c

theorem sameUpToCase_recase (p : Nat → Bool) (s : List Char) : sameUpToCase s (recase p s) := by
  refine ⟨by simp [recase], fun i h1 h2 => ?_⟩
  simp only [recase, List.getElem_mapIdx]
  split
  · exact (lowerChar_swapCase _).symm
  · rfl

/-- `check_name` gives the same verdict on a name and on the name with any subset of its letters in the other case -/
theorem checkName_recase (p : Nat → Bool) (s : String) : checkName (String.ofList (recase p s.toList)) = checkName s :=
  (checkName_sameUpToCase _ _ (by rw [String.toList_ofList]; exact sameUpToCase_recase p _)).symm

end Rules
