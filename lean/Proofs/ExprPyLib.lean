import PyLib.Expr
import Proofs.Expr
import Mathlib.Data.Rat.Lemmas
import Mathlib.Data.Int.Bitwise
import Mathlib.Tactic.FieldSimp
import Mathlib.Tactic.Positivity
/-!
  Facts about `PyLib/Expr.lean` (the meaning of the dynamically typed Python fragment) that do not depend on generated code:
  `fractions.Fraction` arithmetic on numerator / denominator pairs against Lean's `Rat`, Python's integer bit operators, and
  the frozenset primitives against duplicate-free lists.
-/
set_option linter.unusedSimpArgs false
set_option linter.unusedVariables false
namespace PyEx
open Py Ex

/-- a rational as a `fractions.Fraction` -/
def ofRat (q : Rat) : Obj := .frac q.num q.den

theorem mkFrac_eq (n : Int) (d : Nat) (hd : d ≠ 0) : mkFrac n d = ofRat (mkRat n d) := by
  simp [mkFrac, ofRat, Rat.mkRat_def, hd, Rat.num_normalize, Rat.den_normalize]

theorem den_mul_ne (a b : Rat) : a.den * b.den ≠ 0 := Nat.mul_ne_zero a.den_nz b.den_nz

theorem frac_add (a b : Rat) : mkFrac (a.num * b.den + b.num * a.den) (a.den * b.den) = ofRat (a + b) := by
  rw [mkFrac_eq _ _ (den_mul_ne a b), Rat.add_def']

theorem frac_sub (a b : Rat) : mkFrac (a.num * b.den - b.num * a.den) (a.den * b.den) = ofRat (a - b) := by
  rw [mkFrac_eq _ _ (den_mul_ne a b), Rat.sub_def']

theorem frac_mul (a b : Rat) : mkFrac (a.num * b.num) (a.den * b.den) = ofRat (a * b) := by
  rw [mkFrac_eq _ _ (den_mul_ne a b), Rat.mul_def']

theorem mkFracI_eq (n d : Int) (hd : d ≠ 0) : mkFracI n d = .ok (ofRat (Rat.divInt n d)) := by
  unfold mkFracI
  rw [if_neg hd]
  by_cases h : d < 0
  · rw [if_pos h]
    have h1 : (-d).toNat ≠ 0 := by omega
    have h2 : ((-d).toNat : Int) = -d := by omega
    rw [mkFrac_eq _ _ h1, ← Rat.divInt_ofNat, h2, Rat.neg_divInt_neg]; rfl
  · rw [if_neg h]
    have h1 : d.toNat ≠ 0 := by omega
    have h2 : (d.toNat : Int) = d := by omega
    rw [mkFrac_eq _ _ h1, ← Rat.divInt_ofNat, h2]; rfl

theorem div_eq_divInt (a b : Rat) : a / b = Rat.divInt (a.num * b.den) (a.den * b.num) := by
  rw [Rat.div_def, Rat.inv_def]
  conv_lhs => rw [← Rat.num_divInt_den a]
  rw [Rat.divInt_mul_divInt]

theorem frac_div (a b : Rat) (hb : b ≠ 0) : mkFracI (a.num * b.den) (a.den * b.num) = .ok (ofRat (a / b)) := by
  have hn : b.num ≠ 0 := fun h => hb (Rat.num_eq_zero.mp h)
  have hd : (a.den : Int) * b.num ≠ 0 := Int.mul_ne_zero (by exact_mod_cast a.den_nz) hn
  rw [mkFracI_eq _ _ hd, div_eq_divInt]

theorem frac_div_zero (a : Rat) (n : Int) : mkFracI n ((a.den : Int) * (0 : Rat).num) = .error .ZeroDivisionError := by
  simp [mkFracI]; rfl

/-! ### `%`: CPython's `Fraction._mod` is the floored modulo of the model -/

theorem fmod_bounds (n d : Int) :
    (0 < d → 0 ≤ n.fmod d ∧ n.fmod d < d) ∧ (d < 0 → d < n.fmod d ∧ n.fmod d ≤ 0) := by
  constructor
  · intro h; exact ⟨Int.fmod_nonneg_of_pos n h, Int.fmod_lt_of_pos n h⟩
  · intro h
    rw [Int.fmod_eq_emod]
    have h0 : 0 ≤ n % d := Int.emod_nonneg n (by omega)
    have h1 : n % d < -d := by have := Int.emod_lt_of_neg n h; omega
    by_cases hdvd : d ∣ n
    · have : n % d = 0 := Int.emod_eq_zero_of_dvd hdvd
      simp [hdvd]; omega
    · have hne : n % d ≠ 0 := fun h => hdvd (Int.dvd_of_emod_eq_zero h)
      have : ¬ (0 ≤ d ∨ d ∣ n) := by rintro (h' | h') <;> [omega; exact hdvd h']
      rw [if_neg this]; omega

theorem floor_div_int (n d : Int) (hd : d ≠ 0) : ((n : ℚ) / d).floor = n.fdiv d := by
  show ⌊(n : ℚ) / d⌋ = n.fdiv d
  rw [Int.floor_eq_iff]
  have hdq : (d : ℚ) ≠ 0 := by exact_mod_cast hd
  have hN : (n : ℚ) = d * (n.fdiv d : ℤ) + (n.fmod d : ℤ) := by exact_mod_cast (Int.mul_fdiv_add_fmod n d).symm
  have hb := fmod_bounds n d
  rcases lt_or_gt_of_ne hd with hneg | hpos
  · have ⟨h1, h2⟩ := hb.2 hneg
    have hd' : (d : ℚ) < 0 := by exact_mod_cast hneg
    have h1' : (d : ℚ) < (n.fmod d : ℤ) := by exact_mod_cast h1
    have h2' : ((n.fmod d : ℤ) : ℚ) ≤ 0 := by exact_mod_cast h2
    constructor
    · rw [le_div_iff_of_neg hd']; nlinarith
    · rw [div_lt_iff_of_neg hd']; nlinarith
  · have ⟨h1, h2⟩ := hb.1 hpos
    have hd' : (0 : ℚ) < d := by exact_mod_cast hpos
    have h1' : (0 : ℚ) ≤ (n.fmod d : ℤ) := by exact_mod_cast h1
    have h2' : ((n.fmod d : ℤ) : ℚ) < d := by exact_mod_cast h2
    constructor
    · rw [le_div_iff₀ hd']; nlinarith
    · rw [div_lt_iff₀ hd']; nlinarith

theorem rat_eq_num_div_den (a : Rat) : a = (a.num : ℚ) / (a.den : ℚ) := (Rat.num_div_den a).symm

theorem frac_mod (a b : Rat) (hb : b ≠ 0) :
    mkFrac (Int.fmod (a.num * b.den) (b.num * a.den)) (a.den * b.den) = ofRat (ratMod a b) := by
  rw [mkFrac_eq _ _ (den_mul_ne a b)]
  congr 1
  have hn : b.num ≠ 0 := fun h => hb (Rat.num_eq_zero.mp h)
  have hD : b.num * (a.den : Int) ≠ 0 := Int.mul_ne_zero hn (by exact_mod_cast a.den_nz)
  have had : (a.den : ℚ) ≠ 0 := by exact_mod_cast a.den_nz
  have hbd : (b.den : ℚ) ≠ 0 := by exact_mod_cast b.den_nz
  have hbn : (b.num : ℚ) ≠ 0 := by exact_mod_cast hn
  have hdiv : a / b = ((a.num * b.den : ℤ) : ℚ) / ((b.num * a.den : ℤ) : ℚ) := by
    conv_lhs => rw [rat_eq_num_div_den a, rat_eq_num_div_den b]
    push_cast; field_simp
  unfold ratMod
  rw [hdiv, floor_div_int _ _ hD, Rat.mkRat_eq_div, Int.fmod_def]
  generalize (a.num * ↑b.den).fdiv (b.num * ↑a.den) = q
  have ha := rat_eq_num_div_den a
  have hb' := rat_eq_num_div_den b
  generalize a.num = an at *
  generalize a.den = ad at *
  generalize b.num = bn at *
  generalize b.den = bd at *
  subst ha hb'
  push_cast; field_simp

/-! ### `**` -/

/-- what `Fraction.__pow__` does where the model says … -/
def powRes : R Rat → E Obj
  | .ok v => .ok (ofRat v)
  | .error (.invalid .divZero) => .error .ZeroDivisionError
  | .error (.hazard .powComplex) => .ok .complex
  | .error (.hazard .powFloatOverflow) => .error .OverflowError
  | .error .inexact => .error (.unmodelled "float")
  | .error _ => .error (.unmodelled "?")

theorem ofRat_div_coprime (q : Rat) (N D : Int) (hD : 0 < D) (hcop : Nat.Coprime N.natAbs D.natAbs) (heq : q = (N : ℚ) / D) :
    ofRat q = .frac N D.toNat := by
  unfold ofRat
  have h2 := Rat.den_div_eq_of_coprime hD hcop
  rw [heq, Rat.num_div_eq_of_coprime hD hcop]
  congr 1
  omega

theorem coprime_pow_natAbs (a : Rat) (k : Nat) (s t : Int) (hs : s.natAbs = 1) (ht : t.natAbs = 1) :
    Nat.Coprime ((s * (a.den : Int)) ^ k).natAbs ((t * a.num) ^ k).natAbs := by
  rw [Int.natAbs_pow, Int.natAbs_pow, Int.natAbs_mul, Int.natAbs_mul, hs, ht, Nat.one_mul, Nat.one_mul, Int.natAbs_natCast]
  exact (a.reduced.symm).pow k k

theorem frac_pow_neg (a : Rat) (k : Nat) :
    (0 < a.num → ofRat ((a ^ k)⁻¹) = .frac ((a.den : Int) ^ k) (a.num.toNat ^ k)) ∧
    (a.num < 0 → ofRat ((a ^ k)⁻¹) = .frac ((-(a.den : Int)) ^ k) ((-a.num).toNat ^ k)) := by
  have had : (a.den : ℚ) ≠ 0 := by exact_mod_cast a.den_nz
  constructor
  · intro h
    have hD : (0 : Int) < a.num ^ k := Int.pow_pos h
    have hcop := coprime_pow_natAbs a k 1 1 rfl rfl
    simp only [Int.one_mul] at hcop
    have hq : (a ^ k)⁻¹ = (((a.den : Int) ^ k : ℤ) : ℚ) / ((a.num ^ k : ℤ) : ℚ) := by
      conv_lhs => rw [rat_eq_num_div_den a]
      push_cast; rw [div_pow, inv_div]
    rw [ofRat_div_coprime _ _ _ hD hcop hq]
    congr 1
    have : (a.num.toNat : Int) = a.num := by omega
    apply Int.ofNat.inj
    show ((a.num ^ k).toNat : Int) = ((a.num.toNat ^ k : Nat) : Int)
    rw [Int.toNat_of_nonneg (le_of_lt hD)]; push_cast; rw [this]
  · intro h
    have hpos : (0 : Int) < -a.num := by omega
    have hD : (0 : Int) < (-a.num) ^ k := Int.pow_pos hpos
    have hcop := coprime_pow_natAbs a k (-1) (-1) rfl rfl
    simp only [Int.neg_mul, Int.one_mul] at hcop
    have hq : (a ^ k)⁻¹ = (((-(a.den : Int)) ^ k : ℤ) : ℚ) / (((-a.num) ^ k : ℤ) : ℚ) := by
      conv_lhs => rw [rat_eq_num_div_den a]
      push_cast; rw [div_pow, inv_div, ← div_pow, ← div_pow, neg_div_neg_eq]
    rw [ofRat_div_coprime _ _ _ hD hcop hq]
    congr 1
    have : ((-a.num).toNat : Int) = -a.num := by omega
    apply Int.ofNat.inj
    show (((-a.num) ^ k).toNat : Int) = (((-a.num).toNat ^ k : Nat) : Int)
    rw [Int.toNat_of_nonneg (le_of_lt hD)]; push_cast; rw [this]

theorem pow2_num : (Ex.pow2_1024).num = Py.pow2_1024 ∧ (Ex.pow2_1024).den = 1 := by
  unfold Ex.pow2_1024 Py.pow2_1024
  constructor
  · rw [Rat.num_pow]; rfl
  · rw [Rat.den_pow]; simp

theorem fracHuge_iff (x : Rat) : fracHuge (x.num, x.den) = true ↔ (Ex.pow2_1024 ≤ x ∨ x ≤ -Ex.pow2_1024) := by
  unfold fracHuge
  simp only [Bool.or_eq_true, decide_eq_true_eq]
  rw [Rat.le_iff, Rat.le_iff, Rat.neg_num, Rat.neg_den, pow2_num.1, pow2_num.2]
  simp only [Nat.cast_one, Int.mul_one]
  constructor <;> (rintro (h | h) <;> [left; right] <;> linarith)

theorem fracPow_eq (a b : Rat) : fracPow (a.num, a.den) (b.num, b.den) = powRes (scPow a b) := by
  unfold fracPow scPow
  by_cases hb : b.den = 1
  · simp only [hb, ↓reduceIte, Rat.isInt', beq_self_eq_true]
    unfold ratPowInt
    by_cases hn : 0 ≤ b.num
    · simp only [hn, ↓reduceIte, powRes, ofRat, Rat.num_pow, Rat.den_pow]; rfl
    · simp only [hn, ↓reduceIte]
      rcases lt_trichotomy a.num 0 with h | h | h
      · have ha : a ≠ 0 := fun h0 => by rw [h0] at h; exact absurd h (by decide)
        have h' : ¬ 0 < a.num := by omega
        have h'' : a.num ≠ 0 := by omega
        simp only [h', h'', ha, ↓reduceIte, powRes, (frac_pow_neg a _).2 h]; rfl
      · have ha : a = 0 := Rat.num_eq_zero.mp h
        simp only [h, ha, Int.lt_irrefl, ↓reduceIte, inval, powRes]; rfl
      · have ha : a ≠ 0 := fun h0 => by rw [h0] at h; exact absurd h (by decide)
        simp only [h, ha, ↓reduceIte, powRes, (frac_pow_neg a _).1 h]; rfl
  · have hb' : Rat.isInt' b = false := by simp [Rat.isInt', hb]
    simp only [hb, hb', ↓reduceIte, Bool.false_eq_true]
    by_cases ha : a < 0
    · have : a.num < 0 := Rat.num_neg.mpr ha
      simp only [this, ha, ↓reduceIte, powRes]; rfl
    · have h1 : ¬ a.num < 0 := fun h => ha (Rat.num_neg.mp h)
      simp only [h1, ha, ↓reduceIte]
      have hP : (0:ℚ) < Ex.pow2_1024 := pow_pos (by norm_num) 1024
      have e1 := fracHuge_iff a
      have e2 := fracHuge_iff b
      generalize Ex.pow2_1024 = P at *
      have hnn : ¬ a ≤ -P := fun h => ha (by linarith)
      by_cases hh : P ≤ a ∨ P ≤ b ∨ b ≤ -P
      · have : (fracHuge (a.num, a.den) || fracHuge (b.num, b.den)) = true := by
          rw [Bool.or_eq_true, e1, e2]
          rcases hh with h | h | h
          · exact Or.inl (Or.inl h)
          · exact Or.inr (Or.inl h)
          · exact Or.inr (Or.inr h)
        simp only [this, hh, ↓reduceIte, powRes]; rfl
      · have : (fracHuge (a.num, a.den) || fracHuge (b.num, b.den)) = false := by
          rw [Bool.eq_false_iff]; intro h
          rw [Bool.or_eq_true, e1, e2] at h
          rcases h with (h | h) | (h | h)
          · exact hh (Or.inl h)
          · exact hnn h
          · exact hh (Or.inr (Or.inl h))
          · exact hh (Or.inr (Or.inr h))
        simp only [this, hh, ↓reduceIte, powRes, Bool.false_eq_true]; rfl

/-! ### comparisons -/

theorem cmp_lt (a b : Rat) : decide (a.num * b.den < b.num * a.den) = decide (a < b) := by
  rw [decide_eq_decide]; exact (Rat.lt_iff a b).symm

theorem cmp_le (a b : Rat) : decide (a.num * b.den ≤ b.num * a.den) = decide (a ≤ b) := by
  rw [decide_eq_decide]; exact (Rat.le_iff a b).symm

theorem cmp_eq (a b : Rat) : (a.num == b.num && a.den == b.den) = (a == b) := by
  rw [Bool.eq_iff_iff]
  simp only [Bool.and_eq_true, beq_iff_eq]
  exact ⟨fun h => Rat.ext h.1 h.2, fun h => by subst h; exact ⟨rfl, rfl⟩⟩

/-! ### `|`, `^`, `&` -/

theorem intOr_eq (a b : Int) : Py.intOr a b = Ex.ior a b := by cases a <;> cases b <;> rfl
theorem intXor_eq (a b : Int) : Py.intXor a b = Ex.ixor a b := by cases a <;> cases b <;> rfl
theorem intAnd_eq (a b : Int) : Py.intAnd a b = Ex.iand a b := by cases a <;> cases b <;> rfl

theorem natAndNot_eq_ldiff (a b : Nat) : Py.natAndNot a b = Nat.ldiff a b := by
  apply Nat.eq_of_testBit_eq
  intro i
  rw [Nat.testBit_ldiff]
  unfold Py.natAndNot
  rw [Nat.testBit_xor, Nat.testBit_and]
  cases a.testBit i <;> cases b.testBit i <;> rfl

theorem intAnd_eq_land (a b : Int) : Py.intAnd a b = Int.land a b := by
  cases a <;> cases b <;> simp [Py.intAnd, Int.land, natAndNot_eq_ldiff]

theorem intOr_eq_lor (a b : Int) : Py.intOr a b = Int.lor a b := by
  cases a <;> cases b <;> simp [Py.intOr, Int.lor, natAndNot_eq_ldiff]

theorem intXor_eq_xor (a b : Int) : Py.intXor a b = Int.xor a b := by
  cases a <;> cases b <;> simp [Py.intXor, Int.xor]

/-- Python's `&`, `|`, `^` on integers act bit by bit on the two's complement representation with an infinite sign
    extension (`Int.testBit`) -/
theorem testBit_int_ops (a b : Int) (k : Nat) :
    (Py.intAnd a b).testBit k = (a.testBit k && b.testBit k) ∧
    (Py.intOr a b).testBit k = (a.testBit k || b.testBit k) ∧
    (Py.intXor a b).testBit k = xor (a.testBit k) (b.testBit k) := by
  rw [intAnd_eq_land, intOr_eq_lor, intXor_eq_xor]
  exact ⟨Int.testBit_land a b k, Int.testBit_lor a b k, Int.testBit_lxor a b k⟩

/-! ### frozensets against duplicate-free lists

  `g` embeds some type of element descriptions into `Obj`, `k` is the key under which two elements are one
  (`SameSpec`: that is what `__hash__` / `__eq__` of the embedded objects decide). -/

theorem ok_bind' {ε α β : Type} (a : α) (f : α → Except ε β) : (Except.ok a >>= f) = f a := rfl
theorem pure_ok' {ε α : Type} (a : α) : (pure a : Except ε α) = Except.ok a := rfl

section containers
variable {α β : Type} [DecidableEq β]

/-- `frozenset(l)` on descriptions: of several elements with one key the last stays, in its place -/
def dedupK (k : α → β) : List α → List α
  | [] => []
  | x :: xs => if k x ∈ (dedupK k xs).map k then dedupK k xs else x :: dedupK k xs

def SameSpec (env : Py.Env) (g : α → Obj) (k : α → β) : Prop :=
  ∀ x y, sameElem env (g x) (g y) = .ok (decide (k x = k y))

variable {env : Py.Env} {g : α → Obj} {k : α → β}

theorem fsContains_ok (h : SameSpec env g k) (l : List α) (x : α) :
    fsContains env (l.map g) (g x) = .ok (decide (k x ∈ l.map k)) := by
  induction l with
  | nil => rfl
  | cons y ys ih =>
    simp only [List.map_cons, fsContains, h y x, ok_bind', ih, List.mem_cons]
    by_cases e : k y = k x
    · simp [e, pure_ok']
    · have e' : ¬ k x = k y := fun h => e h.symm
      simp [e, e']

theorem fsSubset_ok (h : SameSpec env g k) (a b : List α) :
    fsSubset env (a.map g) (b.map g) = .ok (a.all fun x => decide (k x ∈ b.map k)) := by
  induction a with
  | nil => rfl
  | cons x xs ih =>
    simp only [List.map_cons, fsSubset, fsContains_ok h, ok_bind', ih, List.all_cons]
    by_cases e : k x ∈ b.map k <;> simp [e, pure_ok']

theorem mem_dedupK (k : α → β) (l : List α) : ∀ b : β, b ∈ (dedupK k l).map k ↔ b ∈ l.map k := by
  induction l with
  | nil => simp [dedupK]
  | cons x xs ih =>
    intro b
    simp only [dedupK]
    split
    · rename_i hm
      rw [ih] at hm
      rw [ih]
      simp only [List.map_cons, List.mem_cons]
      constructor
      · exact Or.inr
      · rintro (rfl | h) <;> assumption
    · simp only [List.map_cons, List.mem_cons, ih]

theorem nodup_dedupK (k : α → β) (l : List α) : ((dedupK k l).map k).Nodup := by
  induction l with
  | nil => simp [dedupK]
  | cons x xs ih =>
    simp only [dedupK]
    split
    · exact ih
    · rename_i hm
      simp only [List.map_cons, List.nodup_cons]
      exact ⟨hm, ih⟩

theorem dedupK_ne_nil (k : α → β) (l : List α) (h : l ≠ []) : dedupK k l ≠ [] := by
  obtain ⟨x, hx⟩ := List.exists_mem_of_ne_nil l h
  have : k x ∈ (dedupK k l).map k := (mem_dedupK k l (k x)).mpr (List.mem_map_of_mem hx)
  intro h0; rw [h0] at this; simp at this

theorem mem_of_mem_dedupK (k : α → β) (l : List α) : ∀ x, x ∈ dedupK k l → x ∈ l := by
  induction l with
  | nil => simp [dedupK]
  | cons y ys ih =>
    intro x hx
    simp only [dedupK] at hx
    split at hx
    · exact List.mem_cons_of_mem _ (ih x hx)
    · rcases List.mem_cons.mp hx with rfl | h
      · exact List.mem_cons_self
      · exact List.mem_cons_of_mem _ (ih x h)

/-- all keys equal: the duplicate-free list has exactly one element -/
theorem dedupK_const (k : α → β) (l : List α) (h : l ≠ []) (c : β) (hc : ∀ x ∈ l, k x = c) :
    ∃ x, dedupK k l = [x] ∧ x ∈ l := by
  have hn := nodup_dedupK k l
  have hne := dedupK_ne_nil k l h
  match hd : dedupK k l with
  | [] => exact absurd hd hne
  | [x] => exact ⟨x, rfl, mem_of_mem_dedupK k l x (by rw [hd]; simp)⟩
  | x :: y :: r =>
    rw [hd] at hn
    have hx : k x = c := hc x (mem_of_mem_dedupK k l x (by rw [hd]; simp))
    have hy : k y = c := hc y (mem_of_mem_dedupK k l y (by rw [hd]; simp))
    simp [hx, hy] at hn

theorem dedupK_length_one (k : α → β) (l : List α) (h : (dedupK k l).length = 1) : ∀ x ∈ l, ∀ y ∈ l, k x = k y := by
  match hd : dedupK k l with
  | [] => rw [hd] at h; simp at h
  | [z] =>
    intro x hx y hy
    have hx' := (mem_dedupK k l (k x)).mpr (List.mem_map_of_mem hx)
    have hy' := (mem_dedupK k l (k y)).mpr (List.mem_map_of_mem hy)
    rw [hd] at hx' hy'
    simp at hx' hy'
    rw [hx', hy']
  | _ :: _ :: _ => rw [hd] at h; simp at h

theorem fsOfList_ok (h : SameSpec env g k) (l : List α) :
    fsOfList env (l.map g) = .ok ((dedupK k l).map g) := by
  induction l with
  | nil => rfl
  | cons x xs ih =>
    simp only [List.map_cons, fsOfList, ih, ok_bind', fsContains_ok h, dedupK]
    by_cases e : k x ∈ (dedupK k xs).map k <;> simp [e, pure_ok']

theorem filterE_map_ok (p : Obj → E Bool) (q : α → Bool) (a : List α) (h : ∀ x ∈ a, p (g x) = .ok (q x)) :
    filterE p (a.map g) = .ok ((a.filter q).map g) := by
  induction a with
  | nil => rfl
  | cons x xs ih =>
    simp only [List.map_cons, filterE, h x (by simp), ok_bind', ih fun y hy => h y (by simp [hy]), pure_ok', List.filter_cons]
    cases q x <;> rfl

theorem filterE_contains_ok (h : SameSpec env g k) (a b : List α) :
    filterE (fun e => fsContains env (b.map g) e) (a.map g) = .ok ((a.filter fun x => decide (k x ∈ b.map k)).map g) :=
  filterE_map_ok _ _ a fun x _ => fsContains_ok h b x

theorem filterE_not_contains_ok (h : SameSpec env g k) (a b : List α) :
    filterE (fun e => do pure (!(← fsContains env (b.map g) e))) (a.map g) =
      .ok ((a.filter fun x => !decide (k x ∈ b.map k)).map g) :=
  filterE_map_ok _ _ a fun x _ => by simp only [fsContains_ok h b x, ok_bind', pure_ok']

/-- class objects are native values: one element exactly when they are the same class -/
theorem sameElem_cls (env : Py.Env) (a b : Cls) : sameElem env (.cls a) (.cls b) = .ok (decide (a = b)) := by
  by_cases h : a = b
  · subst h
    simp [sameElem, Py.hash, eqElem, isInst, eqNative, num?, truthy, ok_bind', pure_ok', BEq.beq, Obj.beq]
  · simp [sameElem, Py.hash, ok_bind', pure_ok', BEq.beq, Obj.beq, h]

end containers

end PyEx
