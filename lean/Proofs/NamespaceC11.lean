import Proofs.NamespaceBasic
/-! Lemmas for C11: the cross-definition checks of `_namespace.py` decide exactly the declarative rule. -/
namespace Ns

theorem firstErr_ok_iff (l : List (Except Err Unit)) : firstErr l = .ok () ↔ ∀ x ∈ l, x = .ok () := by
  induction l with
  | nil => simp [firstErr]
  | cons x xs ih =>
    cases x with
    | error e => simp [firstErr]
    | ok u => cases u; simp [firstErr, ih]

theorem firstErr_error_mem {l : List (Except Err Unit)} {e : Err} (h : firstErr l = .error e) : .error e ∈ l := by
  induction l with
  | nil => simp [firstErr] at h
  | cons x xs ih =>
    cases x with
    | error e' => simp [firstErr] at h; simp [h]
    | ok u => cases u; simp [firstErr] at h; simp [ih h]

namespace Spec

/-- Two definitions of the same kind never share a fixed port-ID unless they have the same full name and either the
    same major version or a major version of 0 on at least one side. -/
def portIdsConsistent (ds : List TyInfo) : Prop :=
  ∀ a ∈ ds, ∀ b ∈ ds, a.isService = b.isService → ∀ p, a.fpid = some p → b.fpid = some p →
    a.name = b.name ∧ (a.major = b.major ∨ a.major = 0 ∨ b.major = 0)

def secsAgree (a b : SecInfo) : Prop := a.extent = b.extent ∧ a.sealed = b.sealed

/-- The rule for two different definitions `a`, `b` with the same name and the same major version. -/
def minorPairOk (a b : TyInfo) : Prop :=
  a.isService = b.isService ∧
  (a.minor < b.minor → ∀ p, a.fpid = some p → b.fpid = some p) ∧
  (b.minor < a.minor → ∀ p, b.fpid = some p → a.fpid = some p) ∧
  (1 ≤ a.major → secsAgree a.req b.req ∧ (a.isService = true → secsAgree a.resp b.resp))

/-- Under one major version all minor versions are of the same kind, use the same port-ID (it may be added in a newer
    minor but never changed or removed) and - for major >= 1 - have equal extent and equal sealing, separately for the
    request and the response of services.  Quantified over all pairs of distinct list positions. -/
def minorConsistent (ds : List TyInfo) : Prop :=
  ∀ (i j : Nat) (a b : TyInfo), ds[i]? = some a → ds[j]? = some b → i ≠ j → a.name = b.name → a.major = b.major → minorPairOk a b

def consistent (direct all : List TyInfo) : Prop := portIdsConsistent direct ∧ minorConsistent all

/-- no two list positions hold the same (name, version) -/
def distinctKeys (ds : List TyInfo) : Prop :=
  ∀ (i j : Nat) (a b : TyInfo), ds[i]? = some a → ds[j]? = some b → i ≠ j → a.key ≠ b.key

end Spec

theorem portPairBad_false_iff (a b : TyInfo) :
    portPairBad a b = false ↔
      (a.isService = b.isService → ∀ p, a.fpid = some p → b.fpid = some p →
        a.name = b.name ∧ (a.major = b.major ∨ a.major = 0 ∨ b.major = 0)) := by
  unfold portPairBad
  cases ha : a.fpid <;> cases hb : b.fpid <;> simp
  rename_i p q
  by_cases hk : a.isService = b.isService <;> by_cases hn : a.name = b.name <;> by_cases hm : a.major = b.major <;>
    by_cases hpq : p = q <;> simp [hk, hn, hm, hpq] <;> omega

theorem checkPortIdCollisions_ok_iff (ds : List TyInfo) :
    checkPortIdCollisions ds = .ok () ↔ Spec.portIdsConsistent ds := by
  unfold checkPortIdCollisions Spec.portIdsConsistent
  constructor
  · intro h a ha b hb
    split at h
    · cases h
    · rename_i hany
      have : portPairBad a b = false := by
        cases hbad : portPairBad a b
        · rfl
        · exfalso; apply hany
          simp only [List.any_eq_true]
          exact ⟨a, ha, b, hb, hbad⟩
      exact (portPairBad_false_iff a b).mp this
  · intro h
    split
    · rename_i hany
      simp only [List.any_eq_true] at hany
      obtain ⟨a, ha, b, hb, hbad⟩ := hany
      have := (portPairBad_false_iff a b).mpr (h a ha b hb)
      rw [this] at hbad; cases hbad
    · rfl

theorem secPair_ok_iff (m : Nat) (a b : SecInfo) :
    secPair m a b = .ok () ↔ (1 ≤ m → Spec.secsAgree a b) := by
  unfold secPair Spec.secsAgree
  by_cases hm : m > 0 <;> by_cases he : a.extent = b.extent <;> by_cases hs : a.sealed = b.sealed <;>
    simp [hm, he, hs] <;> omega

theorem minorPidBad_false_iff (a b : TyInfo) (hmin : a.minor ≠ b.minor) :
    minorPidBad a b = false ↔
      ((a.minor < b.minor → ∀ p, a.fpid = some p → b.fpid = some p) ∧
       (b.minor < a.minor → ∀ p, b.fpid = some p → a.fpid = some p)) := by
  unfold minorPidBad
  cases ha : a.fpid <;> cases hb : b.fpid
  · simp
  · by_cases h : a.minor > b.minor <;> simp [h, ha, hb] <;> omega
  · by_cases h : a.minor > b.minor <;> simp [h, ha, hb] <;> omega
  · rename_i p q
    by_cases hpq : p = q
    · simp [hpq]
    · simp [hpq]
      intro h1
      rcases Nat.lt_or_gt_of_ne hmin with h | h
      · exact absurd (h1 h).symm hpq
      · exact h

theorem minorSecs_ok_iff (a b : TyInfo) (hk : a.isService = b.isService) :
    minorSecs a b = .ok () ↔
      (1 ≤ a.major → Spec.secsAgree a.req b.req ∧ (a.isService = true → Spec.secsAgree a.resp b.resp)) := by
  unfold minorSecs
  cases hs : a.isService
  · simp [← hk, hs, secPair_ok_iff]
  · simp only [← hk, hs, Bool.and_self, if_true]
    cases h1 : secPair a.major a.req b.req with
    | error e =>
      have : ¬ (secPair a.major a.req b.req = .ok ()) := by rw [h1]; simp
      rw [secPair_ok_iff] at this
      simp only [reduceCtorEq, false_iff]
      intro h; apply this; intro hm; exact (h hm).1
    | ok u =>
      cases u
      have := (secPair_ok_iff _ _ _).mp h1
      simp only [secPair_ok_iff]
      constructor
      · intro h hm; exact ⟨this hm, fun _ => h hm⟩
      · intro h hm; exact (h hm).2 trivial

theorem minorPair_ok_iff (a b : TyInfo) (hmin : a.minor ≠ b.minor) :
    minorPair a b = .ok () ↔ Spec.minorPairOk a b := by
  unfold minorPair Spec.minorPairOk
  have h1 : (a.minor == b.minor) = false := by simpa using hmin
  simp only [h1]
  by_cases hk : a.isService = b.isService
  · have hk' : (a.isService != b.isService) = false := by simp [hk]
    simp only [hk']
    cases hp : minorPidBad a b
    · have := (minorPidBad_false_iff a b hmin).mp hp
      simp only [Bool.false_eq_true, if_false, minorSecs_ok_iff a b hk]
      constructor
      · intro h; exact ⟨hk, this.1, this.2, h⟩
      · intro h; exact h.2.2.2
    · have : ¬ (minorPidBad a b = false) := by simp [hp]
      rw [minorPidBad_false_iff a b hmin] at this
      simp only [Bool.false_eq_true, if_false, if_true, reduceCtorEq, false_iff]
      intro h; exact this ⟨h.2.1, h.2.2.1⟩
  · have hk' : (a.isService != b.isService) = true := by simp [hk]
    simp [hk', hk]

theorem secPair_error_invalid {m : Nat} {a b : SecInfo} {e : Err} (h : secPair m a b = .error e) : e.isInvalid = true := by
  unfold secPair at h
  repeat' split at h
  all_goals first | (cases h; rfl) | (cases h)

theorem minorPair_error_invalid {a b : TyInfo} {e : Err} (hmin : a.minor ≠ b.minor) (h : minorPair a b = .error e) :
    e.isInvalid = true := by
  unfold minorPair at h
  have h1 : (a.minor == b.minor) = false := by simpa using hmin
  simp only [h1, Bool.false_eq_true, if_false] at h
  split at h
  · cases h; rfl
  · split at h
    · cases h; rfl
    · unfold minorSecs at h
      split at h
      · split at h
        · rename_i e' he; cases h; exact secPair_error_invalid he
        · exact secPair_error_invalid h
      · exact secPair_error_invalid h

theorem mem_minorList (ds : List TyInfo) (x : Except Err Unit) :
    x ∈ (ds.zipIdx.flatMap fun (a, i) => ds.zipIdx.filterMap fun (b, j) =>
          if i != j && a.name == b.name && a.major == b.major then some (minorPair a b) else none) ↔
      ∃ (i j : Nat) (a b : TyInfo), ds[i]? = some a ∧ ds[j]? = some b ∧ i ≠ j ∧ a.name = b.name ∧ a.major = b.major ∧
        x = minorPair a b := by
  simp only [List.mem_flatMap, List.mem_filterMap, Prod.exists, List.mem_zipIdx_iff_getElem?]
  constructor
  · rintro ⟨a, i, hi, b, j, hj, hx⟩
    split at hx
    · rename_i hc
      simp only [Bool.and_eq_true, bne_iff_ne, ne_eq, beq_iff_eq] at hc
      cases hx
      exact ⟨i, j, a, b, hi, hj, hc.1.1, hc.1.2, hc.2, rfl⟩
    · cases hx
  · rintro ⟨i, j, a, b, hi, hj, hne, hn, hm, rfl⟩
    refine ⟨a, i, hi, b, j, hj, ?_⟩
    have : (i != j && a.name == b.name && a.major == b.major) = true := by
      simp [hne, hn, hm]
    simp [this]

theorem checkMinorVersions_ok_iff (ds : List TyInfo) (hd : Spec.distinctKeys ds) :
    checkMinorVersions ds = .ok () ↔ Spec.minorConsistent ds := by
  unfold checkMinorVersions Spec.minorConsistent
  simp only [firstErr_ok_iff, mem_minorList]
  constructor
  · intro h i j a b hi hj hne hn hm
    have hmin : a.minor ≠ b.minor := by
      intro hmm
      apply hd i j a b hi hj hne
      simp [TyInfo.key, hn, hm, hmm]
    exact (minorPair_ok_iff a b hmin).mp (h _ ⟨i, j, a, b, hi, hj, hne, hn, hm, rfl⟩)
  · rintro h x ⟨i, j, a, b, hi, hj, hne, hn, hm, rfl⟩
    have hmin : a.minor ≠ b.minor := by
      intro hmm
      apply hd i j a b hi hj hne
      simp [TyInfo.key, hn, hm, hmm]
    exact (minorPair_ok_iff a b hmin).mpr (h i j a b hi hj hne hn hm)

theorem checkMinorVersions_error_invalid {ds : List TyInfo} {e : Err} (hd : Spec.distinctKeys ds)
    (h : checkMinorVersions ds = .error e) : e.isInvalid = true := by
  unfold checkMinorVersions at h
  have hm := firstErr_error_mem h
  rw [mem_minorList] at hm
  obtain ⟨i, j, a, b, hi, hj, hne, hn, hmj, hx⟩ := hm
  have hmin : a.minor ≠ b.minor := by
    intro hmm
    apply hd i j a b hi hj hne
    simp [TyInfo.key, hn, hmj, hmm]
  exact minorPair_error_invalid hmin hx.symm

theorem checkPortIdCollisions_error_invalid {ds : List TyInfo} {e : Err} (h : checkPortIdCollisions ds = .error e) :
    e.isInvalid = true := by
  unfold checkPortIdCollisions at h
  split at h
  · cases h; rfl
  · cases h

theorem Spec.distinctKeys_of_pairwise {ds : List TyInfo} (h : ds.Pairwise (fun a b => a.key ≠ b.key)) :
    Spec.distinctKeys ds := by
  intro i j a b hi hj hne
  rw [List.pairwise_iff_getElem] at h
  obtain ⟨hi', rfl⟩ := List.getElem?_eq_some_iff.mp hi
  obtain ⟨hj', rfl⟩ := List.getElem?_eq_some_iff.mp hj
  rcases Nat.lt_or_gt_of_ne hne with hlt | hlt
  · exact h i j hi' hj' hlt
  · exact fun e => h j i hj' hi' hlt e.symm

end Ns
