import Proofs.WireLen
/-! The encoder depends on the offset only modulo 8, and the length of every encoding of a valid value is an
    element of the length set of its type. -/
namespace Wire

theorem mod_align_of_mod8 (t : Ty) {o o' : Nat} (h : o % 8 = o' % 8) : o % t.align = o' % t.align := by
  rcases align_cases t with ha | ha <;> rw [ha]
  · simp [Nat.mod_one]
  · exact h

theorem mod_align_zero (t : Ty) {o : Nat} (h : o % 8 = 0) : o % t.align = 0 := by
  rcases align_cases t with ha | ha <;> rw [ha]
  · simp [Nat.mod_one]
  · exact h

theorem encRep_congr {f : Val → Nat → List Bool} (hf : ∀ v o o', o % 8 = o' % 8 → f v o = f v o') :
    ∀ (vs : List Val) (o o' : Nat), o % 8 = o' % 8 → encRep f vs o = encRep f vs o'
  | [], _, _, _ => rfl
  | v :: vs, o, o', h => by
      simp only [encRep]
      rw [hf v o o' h]
      rw [encRep_congr hf vs (o + (f v o').length) (o' + (f v o').length) (by omega)]

theorem padTail_congr (b : List Bool) {o o' : Nat} (h : o % 8 = o' % 8) : padTail o b = padTail o' b := by
  unfold padTail
  rw [padLen_congr (o + b.length) (o' + b.length) 8 (by omega)]

mutual
theorem enc_congr : ∀ (t : Ty) (v : Val) (o o' : Nat), o % 8 = o' % 8 → enc t v o = enc t v o'
  | .bool, v, o, o', _ => by cases v <;> simp [enc]
  | .uint _ _, v, o, o', _ => by cases v <;> simp [enc]
  | .sint _ _, v, o, o', _ => by cases v <;> simp [enc]
  | .float _ _, v, o, o', _ => by cases v <;> simp [enc]
  | .byte, v, o, o', _ => by cases v <;> simp [enc]
  | .utf8, v, o, o', _ => by cases v <;> simp [enc]
  | .void _, v, o, o', _ => by cases v <;> simp [enc]
  | .farr e cap, v, o, o', h => by
      cases v with
      | arr vs =>
        simp only [enc]
        exact encRep_congr (fun v o o' h => enc_congr e v o o' h) vs o o' h
      | _ => simp [enc]
  | .varr e cap, v, o, o', h => by
      cases v with
      | arr vs =>
        simp only [enc]
        have h8 := lenBits_mod8 cap
        rw [encRep_congr (fun v o o' h => enc_congr e v o o' h) vs (o + lenBits cap) (o' + lenBits cap) (by omega)]
      | _ => simp [enc]
  | .struct fs m, v, o, o', h => by
      cases v with
      | recd vs =>
        simp only [enc]
        cases m with
        | sealed =>
          simp only [wrapDelim]
          rw [encFields_congr fs vs o o' h, padTail_congr _ h]
        | delimited x => simp only [wrapDelim]
      | _ => simp [enc]
  | .union fs m, v, o, o', h => by
      cases v with
      | var tag w =>
        simp only [enc]
        cases m with
        | sealed =>
          simp only [wrapDelim]
          have h8 := tagBits_mod8 fs.length
          rw [encVariant_congr fs tag w (o + tagBits fs.length) (o' + tagBits fs.length) (by omega),
            padTail_congr _ h]
        | delimited x => simp only [wrapDelim]
      | _ => simp [enc]
theorem encFields_congr : ∀ (ts : List Ty) (vs : List Val) (o o' : Nat), o % 8 = o' % 8 →
    encFields ts vs o = encFields ts vs o'
  | [], vs, o, o', _ => by simp [encFields]
  | _ :: _, [], o, o', _ => by simp [encFields]
  | t :: ts, v :: vs, o, o', h => by
      simp only [encFields]
      have hp : padLen o t.align = padLen o' t.align := padLen_congr _ _ _ (mod_align_of_mod8 t h)
      rw [hp]
      rw [enc_congr t v (o + padLen o' t.align) (o' + padLen o' t.align) (by omega)]
      rw [encFields_congr ts vs _ (o' + padLen o' t.align + (enc t v (o' + padLen o' t.align)).length) (by omega)]
theorem encVariant_congr : ∀ (ts : List Ty) (n : Nat) (v : Val) (o o' : Nat), o % 8 = o' % 8 →
    encVariant ts n v o = encVariant ts n v o'
  | [], _, _, _, _, _ => by simp [encVariant]
  | t :: _, 0, v, o, o', h => by simp only [encVariant]; exact enc_congr t v o o' h
  | _ :: ts, n+1, v, o, o', h => by simp only [encVariant]; exact encVariant_congr ts n v o o' h
end

/-! ### lengths -/

theorem encRep_len {f : Val → Nat → List Bool} {p : Nat → Prop} {a : Nat}
    (hp : ∀ x, p x → x % a = 0) :
    ∀ (vs : List Val) (o : Nat), (∀ v ∈ vs, ∀ o, o % a = 0 → p (f v o).length) → o % a = 0 →
      RepLen p vs.length (encRep f vs o).length
  | [], _, _, _ => by simp [encRep, RepLen]
  | v :: vs, o, hf, ho => by
      simp only [encRep, List.length_cons, List.length_append, RepLen]
      have h1 := hf v (by simp) o ho
      have h2 := hp _ h1
      refine ⟨_, _, h1, encRep_len hp vs (o + (f v o).length) (fun w hw => hf w (by simp [hw])) ?_, rfl⟩
      simp [Nat.add_mod, ho, h2]

theorem padTail_length (o : Nat) (b : List Bool) : (padTail o b).length = b.length + padLen (o + b.length) 8 := by
  simp [padTail]

theorem padLen_add_of_mod8 {o : Nat} (x a : Nat) (ha : a = 1 ∨ a = 8) (h : o % 8 = 0) :
    padLen (o + x) a = padLen x a := by
  apply padLen_congr
  rcases ha with rfl | rfl
  · simp [Nat.mod_one]
  · omega

mutual
theorem enc_len : ∀ (t : Ty) (v : Val) (o : Nat), t.wf = true → valid t v = true → o % t.align = 0 →
    HasLen t (enc t v o).length
  | .bool, v, o, _, hv, _ => by
      cases v with
      | bool b => simp [enc, HasLen]
      | _ => simp [valid] at hv
  | .uint n c, v, o, _, hv, _ => by
      cases v with
      | int i => simp [enc, HasLen]
      | _ => simp [valid] at hv
  | .sint n c, v, o, _, hv, _ => by
      cases v with
      | int i => simp [enc, HasLen]
      | _ => simp [valid] at hv
  | .float n c, v, o, _, hv, _ => by
      cases v with
      | flt b => simp [enc, HasLen]
      | _ => simp [valid] at hv
  | .byte, v, o, _, hv, _ => by
      cases v with
      | int i => simp [enc, HasLen]
      | _ => simp [valid] at hv
  | .utf8, v, o, _, hv, _ => by
      cases v with
      | int i => simp [enc, HasLen]
      | _ => simp [valid] at hv
  | .void n, v, o, _, hv, _ => by
      cases v with
      | unit => simp [enc, HasLen]
      | _ => simp [valid] at hv
  | .farr e cap, v, o, hw, hv, ho => by
      cases v with
      | arr vs =>
        simp only [Ty.wf, Bool.and_eq_true] at hw
        simp only [valid, Bool.and_eq_true, beq_iff_eq, List.all_eq_true] at hv
        simp only [enc, HasLen]
        simp only [Ty.align] at ho
        rw [← hv.1]
        exact encRep_len (fun x hx => hasLen_mod e x hw.1.1.1 hx) vs o
          (fun w hw' o' ho' => enc_len e w o' hw.1.1.1 (hv.2 w hw') ho') ho
      | _ => simp [valid] at hv
  | .varr e cap, v, o, hw, hv, ho => by
      cases v with
      | arr vs =>
        simp only [Ty.wf, Bool.and_eq_true] at hw
        simp only [valid, Bool.and_eq_true, decide_eq_true_eq, List.all_eq_true] at hv
        simp only [enc, HasLen, List.length_append, natBits_length]
        simp only [Ty.align] at ho
        refine ⟨vs.length, _, hv.1.1, ?_, rfl⟩
        have h8 := lenBits_mod8 cap
        have ho' : (o + lenBits cap) % e.align = 0 := by
          rcases align_cases e with ha | ha <;> rw [ha] at ho ⊢ <;> omega
        exact encRep_len (fun x hx => hasLen_mod e x hw.1.1.1 hx) vs _
          (fun w hw' o' ho' => enc_len e w o' hw.1.1.1 (hv.1.2 w hw') ho') ho'
      | _ => simp [valid] at hv
  | .struct fs m, v, o, hw, hv, ho => by
      cases v with
      | recd vs =>
        simp only [Ty.wf, Bool.and_eq_true] at hw
        simp only [valid] at hv
        simp only [Ty.align] at ho
        have body : ∀ o', o' % 8 = 0 →
            HasLen (.struct fs .sealed) (padTail o' (encFields fs vs o')).length := by
          intro o' ho'
          simp only [HasLen, padTail_length]
          have := encFields_len fs vs o' 0 hw.1 hv ho'
          simp only [Nat.add_zero, Nat.zero_add] at this
          exact ⟨_, this, by rw [padLen_add_of_mod8 _ 8 (Or.inr rfl) ho']⟩
        cases m with
        | sealed => simpa only [enc, wrapDelim] using body o ho
        | delimited x =>
          simp only [enc, wrapDelim, HasLen, List.length_append, natBits_length]
          have hb := body 0 (by simp)
          have hle := hasLen_le _ _ hb
          have hmod := hasLen_mod (.struct fs .sealed) _ (by simp [Ty.wf, hw.1, modeOk]) hb
          simp only [Ty.align] at hmod
          simp only [modeOk, Bool.and_eq_true, decide_eq_true_eq] at hw
          exact ⟨(padTail 0 (encFields fs vs 0)).length / 8, by omega, by omega⟩
      | _ => simp [valid] at hv
  | .union fs m, v, o, hw, hv, ho => by
      cases v with
      | var tag w =>
        simp only [Ty.wf, Bool.and_eq_true] at hw
        simp only [valid] at hv
        simp only [Ty.align] at ho
        have body : ∀ o', o' % 8 = 0 →
            HasLen (.union fs .sealed)
              (padTail o' (natBits (tagBits fs.length) tag ++ encVariant fs tag w (o' + tagBits fs.length))).length := by
          intro o' ho'
          simp only [HasLen, padTail_length, List.length_append, natBits_length]
          have h8 := tagBits_mod8 fs.length
          have := encVariant_len fs tag w (o' + tagBits fs.length) hw.1.1.1.1 hv (by omega)
          exact ⟨_, this, by rw [padLen_add_of_mod8 _ 8 (Or.inr rfl) ho']⟩
        cases m with
        | sealed => simpa only [enc, wrapDelim] using body o ho
        | delimited x =>
          simp only [enc, wrapDelim, HasLen, List.length_append, natBits_length]
          have hb := body 0 (by simp)
          have hle := hasLen_le _ _ hb
          have hmod := hasLen_mod (.union fs .sealed) _ (by simp [Ty.wf, hw.1.1.1.1, hw.1.1.1.2, hw.1.1.2, hw.1.2, modeOk]) hb
          simp only [Ty.align] at hmod
          simp only [modeOk, Bool.and_eq_true, decide_eq_true_eq] at hw
          generalize (padTail 0 (natBits (tagBits fs.length) tag ++ encVariant fs tag w (0 + tagBits fs.length))).length = B at *
          exact ⟨B / 8, by omega, by omega⟩
      | _ => simp [valid] at hv
theorem encFields_len : ∀ (ts : List Ty) (vs : List Val) (o acc : Nat), wfFields ts = true →
    validFields ts vs = true → o % 8 = 0 →
    FieldsLen ts acc (acc + (encFields ts vs (o + acc)).length)
  | [], vs, o, acc, _, hv, _ => by
      cases vs with
      | nil => simp [encFields, FieldsLen]
      | cons _ _ => simp [validFields] at hv
  | t :: ts, [], o, acc, _, hv, _ => by simp [validFields] at hv
  | t :: ts, v :: vs, o, acc, hw, hv, ho => by
      simp only [wfFields, Bool.and_eq_true] at hw
      simp only [validFields, Bool.and_eq_true] at hv
      simp only [encFields, FieldsLen, List.length_append, zeros_length]
      have hp : padLen (o + acc) t.align = padLen acc t.align := padLen_add_of_mod8 _ _ (align_cases t) ho
      rw [hp]
      have hal : (o + acc + padLen acc t.align) % t.align = 0 := by
        have := padLen_dvd (o + acc) t.align (align_pos t)
        rw [hp] at this; exact this
      have h1 := enc_len t v (o + acc + padLen acc t.align) hw.1.1 hv.1 hal
      refine ⟨_, h1, ?_⟩
      have h2 := encFields_len ts vs o (acc + padLen acc t.align + (enc t v (o + acc + padLen acc t.align)).length)
        hw.2 hv.2 ho
      have e1 : o + (acc + padLen acc t.align + (enc t v (o + acc + padLen acc t.align)).length)
          = o + acc + padLen acc t.align + (enc t v (o + acc + padLen acc t.align)).length := by omega
      rw [e1] at h2
      have e2 : acc + (padLen acc t.align + (enc t v (o + acc + padLen acc t.align)).length +
            (encFields ts vs (o + acc + padLen acc t.align + (enc t v (o + acc + padLen acc t.align)).length)).length)
          = acc + padLen acc t.align + (enc t v (o + acc + padLen acc t.align)).length +
            (encFields ts vs (o + acc + padLen acc t.align + (enc t v (o + acc + padLen acc t.align)).length)).length := by
        omega
      rw [e2]; exact h2
theorem encVariant_len : ∀ (ts : List Ty) (n : Nat) (v : Val) (o : Nat), wfFields ts = true →
    validVariant ts n v = true → o % 8 = 0 → VariantLen ts (encVariant ts n v o).length
  | [], _, _, _, _, hv, _ => by simp [validVariant] at hv
  | t :: _, 0, v, o, hw, hv, ho => by
      simp only [wfFields, Bool.and_eq_true] at hw
      simp only [validVariant] at hv
      simp only [encVariant, VariantLen]
      exact Or.inl (enc_len t v o hw.1.1 hv (mod_align_zero t ho))
  | _ :: ts, n+1, v, o, hw, hv, ho => by
      simp only [wfFields, Bool.and_eq_true] at hw
      simp only [validVariant] at hv
      simp only [encVariant, VariantLen]
      exact Or.inr (encVariant_len ts n v o hw.2 hv ho)
end

end Wire
