import Proofs.WireLen
import Proofs.LayoutDen
/-!
  Bridge between the wire model and the layout model: the wire model's length predicate `Wire.HasLen` (which
  `C06.length` proves to contain the bit length of every encoding) coincides with the Specification's length set
  `Layout.specLens` of the corresponding layout type — the set that `C02.bls_is_spec` proves to be denoted by the
  library's bit length set expression.
-/
open scoped Pointwise
namespace WireLayout
open Bls

mutual
/-- the layout-relevant structure of a wire type -/
def toLayout : Wire.Ty → Layout.Ty
  | .bool => .prim 1
  | .uint n _ => .prim n
  | .sint n _ => .prim n
  | .float n _ => .prim n
  | .byte => .prim 8
  | .utf8 => .prim 8
  | .void n => .void n
  | .farr e cap => .farr (toLayout e) cap
  | .varr e cap => .varr (toLayout e) cap
  | .struct fs m =>
      match m with
      | .sealed => .struct (toLayouts fs)
      | .delimited x => .delim (.struct (toLayouts fs)) x
  | .union fs m =>
      match m with
      | .sealed => .union (toLayouts fs)
      | .delimited x => .delim (.union (toLayouts fs)) x
def toLayouts : List Wire.Ty → List Layout.Ty
  | [] => []
  | t :: ts => toLayout t :: toLayouts ts
end

theorem toLayouts_length (fs : List Wire.Ty) : (toLayouts fs).length = fs.length := by
  induction fs with
  | nil => rfl
  | cons t ts ih => simp [toLayouts, ih]

theorem padTo_eq (a acc : ℕ) (ha : 0 < a) : padTo a acc = acc + Wire.padLen acc a := by
  have h1 : a ∣ acc + Wire.padLen acc a := Nat.dvd_of_mod_eq_zero (Wire.padLen_dvd acc a ha)
  have h2 := Wire.padLen_lt acc a ha
  apply le_antisymm
  · exact padTo_least a acc _ ha h1 (by omega)
  · obtain ⟨q, hq⟩ := padTo_dvd a acc
    obtain ⟨r, hr⟩ := h1
    have hle := le_padTo a acc ha
    -- both are multiples of `a` in `[acc, acc + a)`: equal
    by_contra hlt
    push Not at hlt
    have : a * q < a * r := by rw [← hq, ← hr]; exact hlt
    have hqr : q < r := Nat.lt_of_mul_lt_mul_left this
    have : a * (q + 1) ≤ a * r := Nat.mul_le_mul_left a hqr
    rw [Nat.mul_add, Nat.mul_one, ← hq, ← hr] at this
    omega

theorem align_eq : ∀ t : Wire.Ty, (toLayout t).align = t.align
  | .bool | .uint _ _ | .sint _ _ | .float _ _ | .byte | .utf8 | .void _ => by simp [toLayout, Layout.Ty.align, Wire.Ty.align]
  | .farr e _ => by simp [toLayout, Layout.Ty.align, Wire.Ty.align, align_eq e]
  | .varr e _ => by simp [toLayout, Layout.Ty.align, Wire.Ty.align, align_eq e]
  | .struct fs m => by cases m <;> simp [toLayout, Layout.Ty.align, Wire.Ty.align, Layout.comp_align]
  | .union fs m => by cases m <;> simp [toLayout, Layout.Ty.align, Wire.Ty.align, Layout.comp_align]

theorem repLen_iff (p : ℕ → Prop) (S : Finset ℕ) (hp : ∀ a, p a ↔ a ∈ S) :
    ∀ n L, Wire.RepLen p n L ↔ L ∈ n • S := by
  intro n
  induction n with
  | zero => intro L; simp [Wire.RepLen]
  | succ n ih =>
    intro L
    simp only [Wire.RepLen]
    rw [succ_nsmul', Finset.mem_add]
    constructor
    · rintro ⟨a, b, ha, hb, rfl⟩
      exact ⟨a, (hp a).mp ha, b, (ih b).mp hb, rfl⟩
    · rintro ⟨a, ha, b, hb, rfl⟩
      exact ⟨a, b, (hp a).mpr ha, (ih b).mpr hb, rfl⟩

theorem stdOf_eq_lenBits (cap : ℕ) (h : cap < 2 ^ 64) : Layout.stdOf cap = Wire.lenBits cap := by
  unfold Layout.stdOf Layout.smallestStd Wire.lenBits
  split_ifs <;> simp_all

theorem tag_eq (n : ℕ) (h2 : 2 ≤ n) (h : n ≤ 2 ^ 64) : max (Layout.stdOf (n - 1)) 8 = Wire.tagBits n := by
  unfold Layout.stdOf Layout.smallestStd Wire.tagBits
  have e8 : n - 1 < 2 ^ 8 ↔ n ≤ 2 ^ 8 := by omega
  have e16 : n - 1 < 2 ^ 16 ↔ n ≤ 2 ^ 16 := by omega
  have e32 : n - 1 < 2 ^ 32 ↔ n ≤ 2 ^ 32 := by omega
  have e64 : n - 1 < 2 ^ 64 := by omega
  simp only [e8, e16, e32]
  split_ifs <;> simp_all

theorem mem_specSeq_singleton (fs : List Layout.Ty) (S : Finset ℕ) (L : ℕ) :
    L ∈ Layout.specSeq S fs ↔ ∃ acc ∈ S, L ∈ Layout.specSeq {acc} fs := by
  induction fs generalizing S with
  | nil => simp [Layout.specSeq]
  | cons f fs ih =>
    simp only [Layout.specSeq]
    rw [ih]
    constructor
    · rintro ⟨x, hx, hL⟩
      obtain ⟨u, hu, v, hv, rfl⟩ := Finset.mem_add.mp hx
      obtain ⟨acc, hacc, rfl⟩ := Finset.mem_image.mp hu
      refine ⟨acc, hacc, ?_⟩
      rw [ih]
      exact ⟨_, Finset.add_mem_add (Finset.mem_image_of_mem _ (Finset.mem_singleton_self acc)) hv, hL⟩
    · rintro ⟨acc, hacc, hL⟩
      rw [ih] at hL
      obtain ⟨x, hx, hL⟩ := hL
      obtain ⟨u, hu, v, hv, rfl⟩ := Finset.mem_add.mp hx
      obtain ⟨a0, ha0, rfl⟩ := Finset.mem_image.mp hu
      rw [Finset.mem_singleton] at ha0; subst ha0
      exact ⟨_, Finset.add_mem_add (Finset.mem_image_of_mem _ hacc) hv, hL⟩

theorem wfFields_iff (fs : List Wire.Ty) : Wire.wfFields fs = true → ∀ t ∈ fs, t.wf = true := by
  induction fs with
  | nil => intro _ t ht; cases ht
  | cons f fs ih =>
    intro h t ht
    simp only [Wire.wfFields, Bool.and_eq_true] at h
    rcases List.mem_cons.mp ht with rfl | ht
    · exact h.1.1
    · exact ih h.2 t ht

mutual
/-- The wire model's length predicate is membership in the Specification's length set of the layout type. -/
theorem hasLen_iff : ∀ (t : Wire.Ty), t.wf = true → ∀ L, Wire.HasLen t L ↔ L ∈ Layout.specLens (toLayout t)
  | .bool, _, L => by simp [Wire.HasLen, toLayout, Layout.specLens]
  | .uint n _, _, L => by simp [Wire.HasLen, toLayout, Layout.specLens]
  | .sint n _, _, L => by simp [Wire.HasLen, toLayout, Layout.specLens]
  | .float n _, _, L => by simp [Wire.HasLen, toLayout, Layout.specLens]
  | .byte, _, L => by simp [Wire.HasLen, toLayout, Layout.specLens]
  | .utf8, _, L => by simp [Wire.HasLen, toLayout, Layout.specLens]
  | .void n, _, L => by simp [Wire.HasLen, toLayout, Layout.specLens]
  | .farr e cap, h, L => by
      simp only [Wire.Ty.wf, Bool.and_eq_true] at h
      simp only [Wire.HasLen, toLayout, Layout.specLens]
      exact repLen_iff _ _ (hasLen_iff e h.1.1.1) cap L
  | .varr e cap, h, L => by
      simp only [Wire.Ty.wf, Bool.and_eq_true, decide_eq_true_eq] at h
      have hcap : cap < 2 ^ 64 := h.1.2
      have hstd : max (Layout.stdOf cap) (toLayout e).align = Wire.lenBits cap := by
        rw [stdOf_eq_lenBits cap hcap, align_eq]
        have : 8 ≤ Wire.lenBits cap := by unfold Wire.lenBits; split_ifs <;> omega
        rcases Wire.align_cases e with ha | ha <;> omega
      simp only [Wire.HasLen, toLayout, Layout.specLens, hstd, Finset.mem_add, Finset.mem_singleton,
        Finset.mem_biUnion, Finset.mem_range]
      constructor
      · rintro ⟨k, L', hk, hr, rfl⟩
        exact ⟨_, rfl, L', ⟨k, by omega, (repLen_iff _ _ (hasLen_iff e h.1.1.1) k L').mp hr⟩, rfl⟩
      · rintro ⟨_, rfl, L', ⟨k, hk, hr⟩, rfl⟩
        exact ⟨k, L', by omega, (repLen_iff _ _ (hasLen_iff e h.1.1.1) k L').mpr hr, rfl⟩
  | .struct fs m, h, L => by
      simp only [Wire.Ty.wf, Bool.and_eq_true] at h
      cases m with
      | sealed =>
        simp only [Wire.HasLen, toLayout, Layout.specLens, Finset.mem_image]
        constructor
        · rintro ⟨L', hf, rfl⟩
          exact ⟨L', (fieldsLen_iff fs h.1 0 L').mp hf, padTo_eq 8 L' (by omega)⟩
        · rintro ⟨L', hf, rfl⟩
          exact ⟨L', (fieldsLen_iff fs h.1 0 L').mpr hf, padTo_eq 8 L' (by omega)⟩
      | delimited x =>
        simp only [Wire.HasLen, toLayout, Layout.specLens, Finset.mem_image, Finset.mem_range, Wire.headerBits]
        constructor
        · rintro ⟨k, hk, rfl⟩
          exact ⟨k, by have := (Nat.le_div_iff_mul_le (by omega : 0 < 8)).mpr (by omega : k * 8 ≤ x); omega, rfl⟩
        · rintro ⟨k, hk, rfl⟩
          exact ⟨k, by have := (Nat.le_div_iff_mul_le (by omega : 0 < 8)).mp (by omega : k ≤ x / 8); omega, rfl⟩
  | .union fs m, h, L => by
      simp only [Wire.Ty.wf, Bool.and_eq_true, decide_eq_true_eq] at h
      cases m with
      | sealed =>
        obtain ⟨⟨⟨⟨hf, _⟩, h2⟩, hn⟩, _⟩ := h
        simp only [Wire.HasLen, toLayout, Layout.specLens, Finset.mem_image, Finset.mem_add, Finset.mem_singleton,
          toLayouts_length, tag_eq fs.length h2 hn]
        constructor
        · rintro ⟨L', hv, rfl⟩
          exact ⟨_, ⟨_, rfl, L', (variantLen_iff fs hf L').mp hv, rfl⟩, padTo_eq 8 _ (by omega)⟩
        · rintro ⟨_, ⟨_, rfl, L', hv, rfl⟩, rfl⟩
          exact ⟨L', (variantLen_iff fs hf L').mpr hv, padTo_eq 8 _ (by omega)⟩
      | delimited x =>
        simp only [Wire.HasLen, toLayout, Layout.specLens, Finset.mem_image, Finset.mem_range, Wire.headerBits]
        constructor
        · rintro ⟨k, hk, rfl⟩
          exact ⟨k, by have := (Nat.le_div_iff_mul_le (by omega : 0 < 8)).mpr (by omega : k * 8 ≤ x); omega, rfl⟩
        · rintro ⟨k, hk, rfl⟩
          exact ⟨k, by have := (Nat.le_div_iff_mul_le (by omega : 0 < 8)).mp (by omega : k ≤ x / 8); omega, rfl⟩
theorem fieldsLen_iff : ∀ (fs : List Wire.Ty), Wire.wfFields fs = true → ∀ acc L,
    Wire.FieldsLen fs acc L ↔ L ∈ Layout.specSeq {acc} (toLayouts fs)
  | [], _, acc, L => by simp [Wire.FieldsLen, toLayouts, Layout.specSeq]
  | t :: ts, h, acc, L => by
      simp only [Wire.wfFields, Bool.and_eq_true] at h
      simp only [Wire.FieldsLen, toLayouts, Layout.specSeq, Finset.image_singleton]
      rw [mem_specSeq_singleton]
      have hal : 0 < t.align := by rcases Wire.align_cases t with ha | ha <;> omega
      constructor
      · rintro ⟨a, ha, hf⟩
        refine ⟨acc + Wire.padLen acc t.align + a, ?_, (fieldsLen_iff ts h.2 _ L).mp hf⟩
        rw [align_eq, padTo_eq _ _ hal]
        exact Finset.add_mem_add (Finset.mem_singleton_self _) ((hasLen_iff t h.1.1 a).mp ha)
      · rintro ⟨x, hx, hf⟩
        obtain ⟨u, hu, a, ha, rfl⟩ := Finset.mem_add.mp hx
        rw [Finset.mem_singleton] at hu; subst hu
        rw [align_eq, padTo_eq _ _ hal] at hf
        exact ⟨a, (hasLen_iff t h.1.1 a).mpr ha, (fieldsLen_iff ts h.2 _ L).mpr hf⟩
theorem variantLen_iff : ∀ (fs : List Wire.Ty), Wire.wfFields fs = true → ∀ L,
    Wire.VariantLen fs L ↔ L ∈ Layout.specUnion (toLayouts fs)
  | [], _, L => by simp [Wire.VariantLen, toLayouts, Layout.specUnion]
  | t :: ts, h, L => by
      simp only [Wire.wfFields, Bool.and_eq_true] at h
      simp only [Wire.VariantLen, toLayouts, Layout.specUnion, Finset.mem_union]
      rw [hasLen_iff t h.1.1 L, variantLen_iff ts h.2 L]
end

end WireLayout
