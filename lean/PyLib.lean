import Model.Bls
/-!
  PyLib: the Lean meaning of the Python fragment that `tools/py2lean.py` translates (the tie of the generated
  modules `Gen/*.lean` to the source in /repo).  Import-free apart from `Model.Bls` (whose list primitives
  `dedup`, `cwr`, `product` are exactly `set(...)`, `itertools.combinations_with_replacement` and
  `itertools.product` of CPython on duplicate-free lists).

  * `int` of the translated kernels is `Nat`: every kernel that is translated works on bit lengths, counts and
    alignments, which the constructors of the public classes reject when negative.  The one operation that could
    leave the naturals, subtraction, is `Py.sub` and *fails* (`Err.negative`) instead of truncating, so a generated
    function that returns `.ok v` computed `v` without ever leaving the naturals.
  * Exceptions are explicit: `M = Except Err`.  `%` and `//` by zero, `min()`/`max()` of an empty iterable, a failed
    `assert`, are outcomes, never Lean's totalised defaults.
  * A Python `set` is a duplicate-free list; all set operations keep that invariant, and every statement about
    a generated function is about the list *as a finite set* (`List.toFinset`), never about its order.
-/
namespace Py

inductive Err where
  | assertion | zeroDivision | valueError | negative | typeError | keyError | other (tag : String)
  deriving Repr, DecidableEq, Inhabited

abbrev M := Except Err

/-- `a % b` on non-negative ints -/
def mod (a b : Nat) : M Nat := if b = 0 then throw .zeroDivision else pure (a % b)
/-- `a // b` on non-negative ints -/
def floordiv (a b : Nat) : M Nat := if b = 0 then throw .zeroDivision else pure (a / b)
/-- `a - b`; leaving the naturals is an error of the translation, not a value -/
def sub (a b : Nat) : M Nat := if b ≤ a then pure (a - b) else throw .negative
/-- `assert b` -/
def assert (b : Bool) : M Unit := if b then pure () else throw .assertion

/-- `set(l)` -/
def set (l : List Nat) : List Nat := Bls.dedup l
/-- `s.add(x)` -/
def setAdd (s : List Nat) (x : Nat) : List Nat := if x ∈ s then s else x :: s
/-- `s | t` -/
def setUnion (s t : List Nat) : List Nat := t.foldl setAdd s
/-- `sum(l)` -/
def sum (l : List Nat) : Nat := l.sum
/-- `min(l)` of an iterable (ValueError when empty) -/
def minOf : List Nat → M Nat
  | [] => throw .valueError
  | x :: xs => pure (Bls.minL (x :: xs))
/-- `max(l)` of an iterable (ValueError when empty) -/
def maxOf : List Nat → M Nat
  | [] => throw .valueError
  | x :: xs => pure (Bls.maxL (x :: xs))
/-- `range(n)` -/
def range (n : Nat) : List Nat := List.range n
/-- `math.lcm(a, b)` -/
def lcm (a b : Nat) : Nat := Nat.lcm a b
/-- `itertools.combinations_with_replacement(l, k)` -/
def cwr (l : List Nat) (k : Nat) : List (List Nat) := Bls.cwr l k
/-- `itertools.product(*ls)` -/
def product (ls : List (List Nat)) : List (List Nat) := Bls.product ls
/-- `x.bit_length()` -/
def bitLength (x : Nat) : Nat := if x = 0 then 0 else Nat.log2 x + 1

def ceilLog2Aux (x : Nat) : Nat → Nat → Nat → Nat
  | 0, e, _ => e
  | f + 1, e, p => if x ≤ p then e else ceilLog2Aux x f (e + 1) (2 * p)
/-- `math.ceil(math.log2(x))` for `x ≥ 1` (a `ValueError` for 0): the least `e` with `x ≤ 2 ^ e`.  CPython computes it in
    floating point; `math.log2` is exact on powers of two and correctly rounded elsewhere, so the two agree for all
    `x < 2 ^ 48` (the callers pass `max(8, n.bit_length())`, a number below 2 ^ 7 for every `n` that fits in memory). -/
def ceilLog2 (x : Nat) : M Nat :=
  if x = 0 then throw .valueError else pure (ceilLog2Aux x x 0 1)
/-- `l[i]` (IndexError when out of range) -/
def index {α : Type} (l : List α) (i : Nat) : M α :=
  match l[i]? with
  | some x => pure x
  | none => throw (.other "IndexError")

/-! The composition API of `BitLengthSet` as seen from the layout code: every method wraps its operands into the operator of
    `_symbolic.py` it names (`_bit_length_set.py`: `pad_to_alignment` → `PaddingOperator`, `repeat` → `RepetitionOperator`,
    `repeat_range` → `RangeRepetitionOperator`, `concatenate` / `+` → `ConcatenationOperator`, `unite` / `|` → `UnionOperator`,
    `BitLengthSet(n)` → `NullaryOperator([n])`); memoisation wrappers are transparent (`C01.memo_transparent`). -/
def blsOfInt (n : Nat) : Bls.Op := .leaf [n]
def blsAdd (a b : Bls.Op) : Bls.Op := .cat [a, b]
def blsPad (a : Bls.Op) (n : Nat) : M Bls.Op := if n < 1 then throw .valueError else pure (.pad a n)
def blsRepeat (a : Bls.Op) (k : Nat) : Bls.Op := .rep a k
def blsRepeatRange (a : Bls.Op) (k : Nat) : Bls.Op := .rrep a k
def blsUnite (l : List Bls.Op) : M Bls.Op := if l.isEmpty then throw .valueError else pure (.uni l)
/-- `len(bls)`: numerical expansion -/
def blsLen (a : Bls.Op) : Nat := (Bls.Op.expand a).length
/-- `bls.is_aligned_at(d)`, i.e. `set(bls % d) == {0}` -/
def blsIsAlignedAt (a : Bls.Op) (d : Nat) : M Bool := if d = 0 then throw .zeroDivision else pure (Bls.isAlignedAt a d)

/-! The byte-buffer fragment used by `_BitWriter` / `_BitReader` of `_serdes.py` (`Gen/Serdes.lean`).  `bytes` / `bytearray` are lists of
    naturals; that every element is below 256 is an invariant the bridge proves (`setByte` / `appendByte` raise what `bytearray` raises
    when it would be violated), not a property of the type. -/
/-- `divmod(a, b)` on non-negative ints -/
def divmod (a b : Nat) : M (Nat × Nat) := if b = 0 then throw .zeroDivision else pure (a / b, a % b)
/-- `max(0, a - b)`: the one place where a difference may be negative without being an error -/
def max0Sub (a b : Nat) : Nat := a - b
/-- `x & ~m` on non-negative ints: the bits of `x` that are not bits of `m` (no negative intermediate value) -/
def andNot (x m : Nat) : Nat := Nat.bitwise (fun a b => a && !b) x m
def toBytesLittleAux : Nat → Nat → List Nat
  | 0, _ => []
  | n + 1, x => x % 256 :: toBytesLittleAux n (x / 256)
/-- `x.to_bytes(n, "little")` (OverflowError when `x` needs more than `n` bytes) -/
def toBytesLittle (x n : Nat) : M (List Nat) :=
  if x < 256 ^ n then pure (toBytesLittleAux n x) else throw (.other "OverflowError")
/-- `int.from_bytes(b, "little")` -/
def fromBytesLittle : List Nat → Nat
  | [] => 0
  | b :: bs => b + 256 * fromBytesLittle bs
/-- `b * n` on bytes -/
def bytesRepeat (l : List Nat) (n : Nat) : List Nat := (List.replicate n l).flatten
/-- `b[lo:hi]` for non-negative indices (out-of-range indices are clipped, `hi < lo` gives the empty slice) -/
def slice {α : Type} (l : List α) (lo hi : Nat) : List α := (l.take hi).drop lo
/-- `b[lo:hi] = d` on a bytearray for non-negative indices: indices are clipped to the length, `hi < lo` inserts at `lo` -/
def setSlice (l : List Nat) (lo hi : Nat) (d : List Nat) : List Nat :=
  let lo' := min lo l.length
  let hi' := max lo' (min hi l.length)
  l.take lo' ++ d ++ l.drop hi'
/-- `b[i] = v` on a bytearray (IndexError when out of range, ValueError when `v` is not in `range(256)`) -/
def setByte (l : List Nat) (i v : Nat) : M (List Nat) :=
  if i < l.length then (if v < 256 then pure (l.set i v) else throw .valueError) else throw (.other "IndexError")
/-- `b.append(v)` on a bytearray (ValueError when `v` is not in `range(256)`) -/
def appendByte (l : List Nat) (v : Nat) : M (List Nat) := if v < 256 then pure (l ++ [v]) else throw .valueError
/-- CPython's default recursion limit: the fuel of a method that calls itself (`RecursionError` when it runs out) -/
def recursionLimit : Nat := 1000

theorem testBit_andNot (x m i : Nat) : (andNot x m).testBit i = (x.testBit i && !m.testBit i) := by
  unfold andNot; rw [Nat.testBit_bitwise (by rfl)]
theorem toBytesLittleAux_length (n x : Nat) : (toBytesLittleAux n x).length = n := by
  induction n generalizing x with
  | zero => rfl
  | succ n ih => simp [toBytesLittleAux, ih]
theorem toBytesLittleAux_lt (n x : Nat) : ∀ b ∈ toBytesLittleAux n x, b < 256 := by
  induction n generalizing x with
  | zero => intro b hb; cases hb
  | succ n ih =>
    intro b hb
    simp only [toBytesLittleAux, List.mem_cons] at hb
    rcases hb with rfl | hb
    · exact Nat.mod_lt _ (by decide)
    · exact ih _ b hb
theorem fromBytesLittle_toBytesLittleAux (n x : Nat) : fromBytesLittle (toBytesLittleAux n x) = x % 256 ^ n := by
  induction n generalizing x with
  | zero => simp [toBytesLittleAux, fromBytesLittle, Nat.mod_one]
  | succ n ih =>
    simp only [toBytesLittleAux, fromBytesLittle, ih]
    rw [Nat.pow_succ, Nat.mul_comm (256 ^ n) 256, Nat.mod_mul]
theorem bytesRepeat_zero_byte (n : Nat) : bytesRepeat [0] n = List.replicate n 0 := by
  induction n with
  | zero => rfl
  | succ n ih => simp [bytesRepeat, List.replicate_succ] at ih ⊢

/-- A `for` loop whose body updates the loop-carried state `σ`. -/
def forEach {α σ : Type} (l : List α) (init : σ) (body : σ → α → M σ) : M σ := l.foldlM body init

/-! ### Strings: the file-name rules of `_dsdl_definition.py` and the name-shape guards of `CompositeType.__init__`

  A Python `str` is a Lean `String` (a sequence of Unicode scalar values; lone surrogates, which a `str` can hold, are outside).
  Operations whose CPython meaning depends on the Unicode character database are given their meaning on ASCII text only and
  *fail* with `Err.other "unicode: …"` elsewhere (never a guess): `str.isdigit()` and `int(str)`.  The translated code guards
  both with `str.isascii()`, so its bridge theorems hold for every string.
-/

def isAsciiChar (c : Char) : Bool := decide (c.val < 128)
/-- `s.isascii()` (true for the empty string) -/
def strIsascii (s : String) : Bool := s.toList.all isAsciiChar
/-- `s.isdigit()`: on ASCII text, non-empty and every character in `0`..`9`.  (Beyond ASCII CPython consults the Unicode
    properties Numeric_Type=Digit/Decimal: outside the fragment.) -/
def strIsdigit (s : String) : M Bool :=
  if strIsascii s then pure (!s.toList.isEmpty && s.toList.all Char.isDigit) else throw (.other "unicode: str.isdigit")
/-- `not s` / `bool(s)` of a string -/
def strIsEmpty (s : String) : Bool := s.toList.isEmpty
/-- `len(s)`: number of code points -/
def strLen (s : String) : Nat := s.length
/-- `c in s` for a one-character string `c` -/
def strContainsChar (s : String) (c : Char) : Bool := s.toList.contains c

def splitChars (sep : Char) : List Char → List (List Char)
  | [] => [[]]
  | c :: cs =>
    if c = sep then [] :: splitChars sep cs
    else match splitChars sep cs with
      | p :: ps => (c :: p) :: ps
      | [] => [[c]]
/-- `s.split(c)` for a one-character separator `c`: cuts at every occurrence, keeps empty pieces, `"".split(c) == [""]` -/
def strSplitChar (s : String) (sep : Char) : List String := (splitChars sep s.toList).map String.ofList
/-- `sep.join(l)` -/
def strJoin (sep : String) (l : List String) : String := sep.intercalate l

/-- `a, b = l` (ValueError unless `len(l) == 2`) -/
def unpack2 {α : Type} : List α → M (α × α)
  | [a, b] => pure (a, b)
  | _ => throw .valueError
/-- `a, b, c = l` -/
def unpack3 {α : Type} : List α → M (α × α × α)
  | [a, b, c] => pure (a, b, c)
  | _ => throw .valueError
/-- `a, b, c, d = l` -/
def unpack4 {α : Type} : List α → M (α × α × α × α)
  | [a, b, c, d] => pure (a, b, c, d)
  | _ => throw .valueError

/-- `isinstance(e, ValueError)`.  `Err.other tag` carries the name of a class of the translated package; the translator emits
    it only after checking that the class does not derive from `ValueError`. -/
def Err.isValueError : Err → Bool
  | .valueError => true
  | _ => false
/-- `try: body  except <caught>: handler` -/
def tryExcept {α : Type} (body : M α) (caught : Err → Bool) (handler : M α) : M α :=
  match body with
  | .ok a => .ok a
  | .error e => if caught e then handler else .error e

/-- C `isspace` in the "C" locale: what `int()` skips around an ASCII numeral -/
def isSpaceAscii (c : Char) : Bool := c = ' ' || c = '\t' || c = '\n' || c = '\x0b' || c = '\x0c' || c = '\r'
def stripAscii (l : List Char) : List Char := ((l.dropWhile isSpaceAscii).reverse.dropWhile isSpaceAscii).reverse
/-- optional sign: (negative?, rest) -/
def intSign : List Char → Bool × List Char
  | [] => (false, [])
  | c :: r => if c = '-' then (true, r) else if c = '+' then (false, r) else (false, c :: r)
/-- digits with single underscores between them: value and number of digits (`prev`: the previous character was a digit) -/
def intDigits : List Char → Bool → Nat → Nat → Option (Nat × Nat)
  | [], prev, acc, k => if prev then some (acc, k) else none
  | c :: r, prev, acc, k =>
    if c.isDigit then intDigits r true (10 * acc + (c.toNat - '0'.toNat)) (k + 1)
    else if c = '_' && prev then intDigits r false acc k
    else none
/-- `sys.get_int_max_str_digits()`: CPython (3.11+) refuses to convert longer decimal numerals (default setting) -/
def intMaxStrDigits : Nat := 4300
/-- `int(s)` for a `str` argument, base 10, CPython's rule on ASCII text: blanks (C `isspace`) around, an optional sign, then
    decimal digits with single underscores between digits; leading zeros are fine; at most 4300 digits; `ValueError` otherwise.
    On non-ASCII text CPython first maps Unicode blanks and decimal digits of other scripts to ASCII: outside the fragment. -/
def intOfStr (s : String) : M Int :=
  if !strIsascii s then throw (.other "unicode: int(str)")
  else
    let t := intSign (stripAscii s.toList)
    match intDigits t.2 false 0 0 with
    | none => throw .valueError
    | some (n, k) => if k > intMaxStrDigits then throw .valueError else pure (if t.1 then -(n : Int) else (n : Int))

end Py

/-! ### Integer arithmetic below a unary minus (appended for the `_symbolic.py` tie)

  An `int` of the translated kernels is a `Nat`; an expression that contains a unary minus (`(-x) % r`, `-(-x // r)`) is computed in
  `Int` with Python's floor semantics, and goes back to `Nat` through `Py.toNat` at the place where the value is stored, returned or
  passed on.  A negative value there *fails* (`Err.negative`, as `Py.sub` does): a generated function that returns `.ok v` computed `v`
  exactly as Python does. -/
namespace Py
/-- `a % b` on ints: floor modulo (the result has the sign of the divisor) -/
def imod (a b : Int) : M Int := if b = 0 then throw .zeroDivision else pure (Int.fmod a b)
/-- `a // b` on ints: floor division -/
def ifloordiv (a b : Int) : M Int := if b = 0 then throw .zeroDivision else pure (Int.fdiv a b)
/-- an `Int`-valued intermediate result used as a natural from here on; a negative one is outside the fragment -/
def toNat (a : Int) : M Nat := if 0 ≤ a then pure a.toNat else throw .negative
end Py
