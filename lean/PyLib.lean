import Model.Bls
/-!
  PyLib: the Lean meaning of the Python fragment that `tools/py2lean.py` translates (the tie of the generated
  modules `Gen/*.lean` to the source in /repo).  Import-free apart from `Model.Bls` (whose list primitives
  `dedup`, `cwr`, `product` are exactly `set(...)`, `itertools.combinations_with_replacement` and
  `itertools.product` of CPython on duplicate-free lists).

  * `int` of the translated kernels is `Nat`: every kernel that is translated works on bit lengths, counts and
    alignments, which the constructors of the public classes reject when negative.  The one operation that could
    leave the naturals, subtraction, is `Py.sub` and *fails* (`Err.negative`) instead of truncating, so a generated
    function that returns `.ok v` computed `v` without ever leaving the naturals.
  * Exceptions are explicit: `M = Except Err`.  `%` and `//` by zero, `min()`/`max()` of an empty iterable, a failed
    `assert`, are outcomes, never Lean's totalised defaults.
  * A Python `set` is a duplicate-free list; all set operations keep that invariant, and every statement about
    a generated function is about the list *as a finite set* (`List.toFinset`), never about its order.
-/
namespace Py

inductive Err where
  | assertion | zeroDivision | valueError | negative | typeError | keyError | other (tag : String)
  deriving Repr, DecidableEq, Inhabited

abbrev M := Except Err

/-- `a % b` on non-negative ints -/
def mod (a b : Nat) : M Nat := if b = 0 then throw .zeroDivision else pure (a % b)
/-- `a // b` on non-negative ints -/
def floordiv (a b : Nat) : M Nat := if b = 0 then throw .zeroDivision else pure (a / b)
/-- `a - b`; leaving the naturals is an error of the translation, not a value -/
def sub (a b : Nat) : M Nat := if b ≤ a then pure (a - b) else throw .negative
/-- `assert b` -/
def assert (b : Bool) : M Unit := if b then pure () else throw .assertion

/-- `set(l)` -/
def set (l : List Nat) : List Nat := Bls.dedup l
/-- `s.add(x)` -/
def setAdd (s : List Nat) (x : Nat) : List Nat := if x ∈ s then s else x :: s
/-- `s | t` -/
def setUnion (s t : List Nat) : List Nat := t.foldl setAdd s
/-- `sum(l)` -/
def sum (l : List Nat) : Nat := l.sum
/-- `min(l)` of an iterable (ValueError when empty) -/
def minOf : List Nat → M Nat
  | [] => throw .valueError
  | x :: xs => pure (Bls.minL (x :: xs))
/-- `max(l)` of an iterable (ValueError when empty) -/
def maxOf : List Nat → M Nat
  | [] => throw .valueError
  | x :: xs => pure (Bls.maxL (x :: xs))
/-- `range(n)` -/
def range (n : Nat) : List Nat := List.range n
/-- `math.lcm(a, b)` -/
def lcm (a b : Nat) : Nat := Nat.lcm a b
/-- `itertools.combinations_with_replacement(l, k)` -/
def cwr (l : List Nat) (k : Nat) : List (List Nat) := Bls.cwr l k
/-- `itertools.product(*ls)` -/
def product (ls : List (List Nat)) : List (List Nat) := Bls.product ls
/-- `x.bit_length()` -/
def bitLength (x : Nat) : Nat := if x = 0 then 0 else Nat.log2 x + 1

def ceilLog2Aux (x : Nat) : Nat → Nat → Nat → Nat
  | 0, e, _ => e
  | f + 1, e, p => if x ≤ p then e else ceilLog2Aux x f (e + 1) (2 * p)
/-- `math.ceil(math.log2(x))` for `x ≥ 1` (a `ValueError` for 0): the least `e` with `x ≤ 2 ^ e`.  CPython computes it in
    floating point; `math.log2` is exact on powers of two and correctly rounded elsewhere, so the two agree for all
    `x < 2 ^ 48` (the callers pass `max(8, n.bit_length())`, a number below 2 ^ 7 for every `n` that fits in memory). -/
def ceilLog2 (x : Nat) : M Nat :=
  if x = 0 then throw .valueError else pure (ceilLog2Aux x x 0 1)
/-- `l[i]` (IndexError when out of range) -/
def index {α : Type} (l : List α) (i : Nat) : M α :=
  match l[i]? with
  | some x => pure x
  | none => throw (.other "IndexError")

/-! The composition API of `BitLengthSet` as seen from the layout code: every method wraps its operands into the operator of
    `_symbolic.py` it names (`_bit_length_set.py`: `pad_to_alignment` → `PaddingOperator`, `repeat` → `RepetitionOperator`,
    `repeat_range` → `RangeRepetitionOperator`, `concatenate` / `+` → `ConcatenationOperator`, `unite` / `|` → `UnionOperator`,
    `BitLengthSet(n)` → `NullaryOperator([n])`); memoisation wrappers are transparent (`C01.memo_transparent`). -/
def blsOfInt (n : Nat) : Bls.Op := .leaf [n]
def blsAdd (a b : Bls.Op) : Bls.Op := .cat [a, b]
def blsPad (a : Bls.Op) (n : Nat) : M Bls.Op := if n < 1 then throw .valueError else pure (.pad a n)
def blsRepeat (a : Bls.Op) (k : Nat) : Bls.Op := .rep a k
def blsRepeatRange (a : Bls.Op) (k : Nat) : Bls.Op := .rrep a k
def blsUnite (l : List Bls.Op) : M Bls.Op := if l.isEmpty then throw .valueError else pure (.uni l)
/-- `len(bls)`: numerical expansion -/
def blsLen (a : Bls.Op) : Nat := (Bls.Op.expand a).length
/-- `bls.is_aligned_at(d)`, i.e. `set(bls % d) == {0}` -/
def blsIsAlignedAt (a : Bls.Op) (d : Nat) : M Bool := if d = 0 then throw .zeroDivision else pure (Bls.isAlignedAt a d)

/-- A `for` loop whose body updates the loop-carried state `σ`. -/
def forEach {α σ : Type} (l : List α) (init : σ) (body : σ → α → M σ) : M σ := l.foldlM body init

end Py
