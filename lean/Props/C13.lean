import Proofs.Funnel
/-!
# C13 — bad input yields InvalidDefinitionError with a path, never a crash / InternalError

What is a theorem here: the exception funnel as a decision function (`Ex.parseFunnel`, `Ex.readFunnel`, mirroring
`_parser.parse`, `DSDLDefinition.read`, `_read_definitions`) and the *hazard model* of expression evaluation: every
Python operation on the evaluation path that can raise something that is not a pydsdl `Error` is an explicit outcome
(`Ex.Hazard`) of `Ex.eval` / `Ex.constCheck` / `Ex.observePrint`.  The completeness of the hazard list, the
parsimonious engine and CPython's limits are validated by the differential suite `garbage` only.
-/
open Ex
set_option linter.unusedSimpArgs false

/-- An inner `invalid` outcome (any `InvalidDefinitionError` raised while visiting or building, or a grammar-level
    `ParseError`) surfaces as `invalid` carrying the path of the file. -/
theorem C13.funnel {α} (r : Ex.R α) (k : InvKind) (h : r = .error (.invalid k)) :
    surface (innerOf r) = .invalid true ∧ surface .parseError = .invalid true ∧
    ∀ p, surface (.invalidDef p) = .invalid true := by
  subst h; exact ⟨rfl, rfl, fun _ => rfl⟩

example : surface (innerOf (@eval StrNorm.plain [] (.bin .div (.lit (.int "1")) (.lit (.int "0"))))) = .invalid true := by decide +kernel

/-- The funnel lets nothing but the deliberately passed `MemoryError`/`SystemError` reach the caller as a foreign
    exception, and whatever it reports carries the path; a foreign exception inside a visitor or the builder becomes
    `InternalError` (which is what the property forbids: see `C13.no_foreign`). -/
theorem C13.funnel_total (i : Inner) :
    (∃ c, i = .fatal c ∧ surface i = .foreign c) ∨ surface i = .ok ∨ surface i = .invalid true ∨ surface i = .internal true := by
  cases i <;> simp [surface, parseFunnel, readFunnel]

/-- `InternalError` surfaces exactly for a foreign exception raised inside a visitor / the builder or a deliberate
    internal error. -/
theorem C13.funnel_internal (i : Inner) :
    surface i = .internal true ↔ (i = .internalDef ∨ (∃ c, i = .visitorRaised c) ∨ ∃ c, i = .builderRaised c) := by
  cases i <;> simp [surface, parseFunnel, readFunnel]

/-- On the hazard model: an expression inside the bounds of the property (literals within CPython's conversion limit,
    escapes within Unicode, exponents integral by syntax) evaluates to a value or is rejected — no hazardous Python
    operation is reached, so the surfaced outcome is `ok` or `invalid` with the path, for every environment. -/
theorem C13.no_foreign [StrNorm] (env : Env) (e : Expr) (hb : e.bounded = true) :
    ((∃ v, eval env e = .ok v) ∨ (∃ k, eval env e = .error (.invalid k)) ∨ eval env e = .error .unsupported) ∧
    (surface (innerOf (eval env e)) = .ok ∨ surface (innerOf (eval env e)) = .invalid true) := by
  cases h : eval env e with
  | ok v => exact ⟨Or.inl ⟨v, rfl⟩, Or.inl rfl⟩
  | error x =>
    have := eval_bounded env e hb x h
    cases x with
    | invalid k => exact ⟨Or.inr (Or.inl ⟨k, rfl⟩), Or.inr rfl⟩
    | unsupported => exact ⟨Or.inr (Or.inr rfl), Or.inl rfl⟩
    | hazard hz => exact absurd this (by simp [Err.benign])
    | inexact => exact absurd this (by simp [Err.benign])

example : (Expr.bin .pow (.un .neg (.lit (.int "2"))) (.un .neg (.lit (.int "3")))).bounded = true := by decide
example : (Expr.bin .pow (.lit (.int "2")) (.lit (.real "0.5"))).bounded = false := by decide

/-- Conversely every hazard of the model is one of the listed operations: evaluating a binary operator on values
    reaches a hazard only through a power with a non-integral exponent. -/
theorem C13.hazard_sources [StrNorm] (op : BinOp) (a b : Val) (h : Hazard) (hh : evalBin op a b = .error (.hazard h)) :
    ¬ intExpV op b := by
  intro hexp
  obtain ⟨k, hk⟩ := evalBin_err_invalid op a b hexp _ hh
  cases hk

example : @evalBin StrNorm.plain .pow (.rat (-1)) (.rat (1/2)) = .error (.hazard .powComplex) := by decide +kernel

/-- `Constant.__init__` reaches no hazardous operation: a string initializer is encoded with `errors="surrogatepass"`, so a
    lone surrogate is three bytes - not one ASCII character - and the constant is rejected as an invalid definition. -/
theorem C13.const_hazard (ty : CTy) (v : Val) (h : Hazard) : constCheck ty v ≠ .error (.hazard h) := by
  intro hh
  cases v with
  | set es =>
    simp only [constCheck] at hh
    split at hh <;> simp [inval] at hh
  | sc s =>
    by_cases hw : ty.wf = true
    swap
    · simp [constCheck, hw, inval] at hh
    cases s with
    | rat q =>
      cases ty <;> simp only [constCheck, hw, Bool.not_true, Bool.false_eq_true, ↓reduceIte, inval] at hh <;>
        first | (simp at hh; done) | (split at hh <;> simp at hh)
    | bool b =>
      cases ty <;> simp [constCheck, hw, inval] at hh
    | str cs =>
      cases ty with
      | bool => simp [constCheck, hw, inval] at hh
      | other => simp [constCheck, hw, inval] at hh
      | float n m => simp [constCheck, hw, inval] at hh
      | int n m => simp [constCheck, hw, inval] at hh
      | uint n m =>
        simp only [constCheck, hw, Bool.not_true, Bool.false_eq_true, ↓reduceIte, inval] at hh
        split at hh
        · simp at hh
        · split at hh
          · simp at hh
          · split at hh <;> simp at hh

example : constCheck (.uint 8 .saturated) (.str [0xD800]) = .error (.invalid .constant) := by decide +kernel

/-- Every file name under a namespace directory either has the shape `[port.]name.major.minor.ext` with integer
    fields, or is a `FileNameFormatError` (an `InvalidDefinitionError` carrying the path). -/
theorem C13.filename (n : String) :
    fileNameOutcome n = .formatError ∨ ∃ p, fileNameOutcome n = .parsed p := by
  cases h : fileNameOutcome n with
  | formatError => exact Or.inl rfl
  | parsed p => exact Or.inr ⟨p, rfl⟩

example : fileNameOutcome "7000.A.1.0.dsdl" = .parsed true := by decide +kernel
example : fileNameOutcome "A.x.0.dsdl" = .formatError := by decide +kernel
