import Bridge.Codec
import Props.C06WireIO
import Props.C14Wire
/-!
# C14 (wire half) over the DESERIALIZER generated from `_serdes.py`

`Props/C14Wire.lean` proves on the model that data written with one revision of a delimited structure is read with another one
(fields appended / removed) such that common fields keep their values, fields unknown to the writer read as defaults, fields unknown
to the reader are skipped.  `Bridge/Codec.lean` proves that the `deserialize` generated from the working tree of /repo on every run
(`Gen/Codec.lean`) is the model's `deserialize` on every well-formed schema object.  Here the two are composed: the READER is the
generated code, applied to two schema objects that differ in trailing fields; the writer is the model's encoder `Wire.enc`
(the generated serializer is tied to it in `Props/C06Gen.lean`).
-/
open Py Bridge BitIO
open Wire (Ty Val)

theorem C14.tysOf_append (fs gs : List Obj) : tysOf (fs ++ gs) = tysOf fs ++ tysOf gs := by
  induction fs with
  | nil => simp only [tysOf, List.nil_append]
  | cons f fs ih => simp only [List.cons_append, tysOf, ih]

/-- the dict of the extended structure is the dict of the common fields extended by the entries of the added fields -/
theorem C14.structDict_append (fs gs : List Obj) (vs ws : List Val) (h : vs.length = fs.length) (acc : List (String × Value)) :
    structDict (fs ++ gs) (vs ++ ws) acc = structDict gs ws (structDict fs vs acc) := by
  induction fs generalizing vs acc with
  | nil =>
    cases vs with
    | nil => simp only [List.nil_append, structDict]
    | cons v vs => simp at h
  | cons f fs ih =>
    cases vs with
    | nil => simp at h
    | cons v vs =>
      have h' : vs.length = fs.length := by simpa using h
      cases f <;> simp only [List.cons_append, structDict, ih vs h']

/-- **Fields appended, old writer, new (generated) reader.**  `sOld` / `sNew` are two delimited structures (any extents, any
    names) whose field lists are `fs` and `fs ++ gs`.  For every value `vs` valid for the old type, every byte string that
    starts with the old type's representation of `vs` (delimiter header included) and continues with anything is decoded by the
    generated `deserialize` of the NEW type to the dict of the common fields -- the dict the old reader returns -- extended by
    the added fields with their default values. -/
theorem C14.gen_reads_appended (fs gs : List Obj) (a a' x x' : ℕ) (n n' : String) (h h' : Obj) (vs : List Val)
    (data junk : List ℕ)
    (hok : okT (.delimited (.structure (fs ++ gs) a' n') h' x' 8) = true)
    (hw : (Ty.struct (tysOf fs) (.delimited x)).wf = true)
    (hw' : (Ty.struct (tysOf (fs ++ gs)) (.delimited x')).wf = true)
    (hd : depth (.delimited (.structure (fs ++ gs) a' n') h' x' 8) ≤ Py.recursionLimit)
    (hv : Wire.valid (.struct (tysOf fs) (.delimited x)) (.recd vs) = true)
    (hb : IsBytes data) (hj : IsBytes junk)
    (henc : bytesToBits data = Wire.enc (.struct (tysOf fs) (.delimited x)) (.recd vs) 0) :
    Gen.Codec.deserialize (.delimited (.structure (fs ++ gs) a' n') h' x' 8) (data ++ junk) true =
      .ok (.dict (structDict gs (Wire.dfltFields (tysOf gs)) (structDict fs vs []))) := by
  have hty : tyOf (.delimited (.structure (fs ++ gs) a' n') h' x' 8) = .struct (tysOf (fs ++ gs)) (.delimited x') := by
    simp only [tyOf]
  rw [gen_deserialize _ hok rfl (by rw [hty]; exact hw') hd _ (isBytes_append hb hj) true,
    C07.deserialize_bytes _ _ _ (by rw [hty]; exact hw'), hty, bytesToBits_append, henc]
  have hlen : vs.length = fs.length := by
    have := Wire.validFields_length (tysOf fs) vs (by simpa [Wire.valid] using hv)
    rw [this, tysOf_length]
  have := C14.wire_appended (tysOf fs) (tysOf gs) x x' vs 0 (bytesToBits junk) hw (by rw [← C14.tysOf_append]; exact hw') hv
    (Nat.zero_mod _)
  simp only [Wire.deserialize, Wire.Ty.isDelimited, Bool.not_true, Bool.and_false, Bool.false_eq_true, if_false, if_true,
    C14.tysOf_append, this, bind, Except.bind, pure, Except.pure, liftTop, valueOf]
  rw [C14.structDict_append fs gs vs _ hlen]

/-- **Fields removed, new writer, old (generated) reader**: the old reader returns the dict of the fields it knows and skips
    the rest. -/
theorem C14.gen_reads_removed (fs gs : List Obj) (a x x' : ℕ) (n : String) (h : Obj) (vs ws : List Val) (data junk : List ℕ)
    (hok : okT (.delimited (.structure fs a n) h x' 8) = true)
    (hw : (Ty.struct (tysOf (fs ++ gs)) (.delimited x)).wf = true)
    (hw' : (Ty.struct (tysOf fs) (.delimited x')).wf = true)
    (hd : depth (.delimited (.structure fs a n) h x' 8) ≤ Py.recursionLimit)
    (hlen : vs.length = fs.length)
    (hv : Wire.valid (.struct (tysOf (fs ++ gs)) (.delimited x)) (.recd (vs ++ ws)) = true)
    (hb : IsBytes data) (hj : IsBytes junk)
    (henc : bytesToBits data = Wire.enc (.struct (tysOf (fs ++ gs)) (.delimited x)) (.recd (vs ++ ws)) 0) :
    Gen.Codec.deserialize (.delimited (.structure fs a n) h x' 8) (data ++ junk) true = .ok (.dict (structDict fs vs [])) := by
  have hty : tyOf (.delimited (.structure fs a n) h x' 8) = .struct (tysOf fs) (.delimited x') := by
    simp only [tyOf]
  rw [gen_deserialize _ hok rfl (by rw [hty]; exact hw') hd _ (isBytes_append hb hj) true,
    C07.deserialize_bytes _ _ _ (by rw [hty]; exact hw'), hty, bytesToBits_append, henc]
  rw [C14.tysOf_append] at hw hv ⊢
  have := C14.wire_removed (tysOf fs) (tysOf gs) x x' vs ws 0 (bytesToBits junk) hw (by rw [hlen, tysOf_length]) hv
    (Nat.zero_mod _)
  simp only [Wire.deserialize, Wire.Ty.isDelimited, Bool.not_true, Bool.and_false, Bool.false_eq_true, if_false, if_true,
    this, bind, Except.bind, pure, Except.pure, liftTop, valueOf]

/-- a structure that gains two fields -/
def C14.exOld : List Obj := [.field (.unsigned 3 .saturated) "a"]
def C14.exAdded : List Obj := [.field (.signed 16 .saturated) "b", .field (.varArray .utf8 3 (.unsigned 8 .truncated)) "c"]

example : okT (.delimited (.structure (C14.exOld ++ C14.exAdded) 8 "ns.D") (.unsigned 32 .truncated) 64 8) = true ∧
    (Ty.struct (tysOf C14.exOld) (.delimited 64)).wf = true ∧
    (Ty.struct (tysOf (C14.exOld ++ C14.exAdded)) (.delimited 64)).wf = true ∧
    Wire.valid (.struct (tysOf C14.exOld) (.delimited 64)) (.recd [.int 5]) = true ∧
    bytesToBits [1, 0, 0, 0, 5] = Wire.enc (.struct (tysOf C14.exOld) (.delimited 64)) (.recd [.int 5]) 0 := by decide
/-- evaluated: the old representation (header 1, one byte) followed by junk, read by the new type -/
example : Gen.Codec.deserialize (.delimited (.structure (C14.exOld ++ C14.exAdded) 8 "ns.D") (.unsigned 32 .truncated) 64 8)
    ([1, 0, 0, 0, 5] ++ [0xFF, 0xFF]) true = .ok (.dict [("a", .int 5), ("b", .int 0), ("c", .str [])]) :=
  sameOutcome_sound (by decide +kernel)
