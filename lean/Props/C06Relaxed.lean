import Proofs.WireRelaxedFix
/-! C06 — relaxed input (`serialize(..., relaxed=True)`, `_normalize_relaxed_value`, model `Wire.normalize`).

Relaxed forms covered (these are all the forms `_normalize_relaxed_value` rewrites; everything else passes through):
  * structure given as a list / tuple of positional values for its non-padding fields (`C06.relaxed_positional`;
    for structures whose number of non-padding fields is not 1),
  * structure with exactly one non-padding field given as the bare value of that field — any non-dict value, or a
    non-empty dict that lacks the field's key (`C06.relaxed_bare`),
  * both forms nested to any depth inside dict values, union values and list elements (normalisation is entrywise /
    elementwise by definition; `C06.relaxed_explicit`, `C06.relaxed_idempotent` hold for whole values).
Not covered because it is outside the model: `str`/`bytes` leaves are not touched by normalisation. -/
open Wire

/-- Normalisation is idempotent: its output is an explicit form (a fixed point). -/
theorem C06.relaxed_idempotent (t : Ty) (x y : Inp) (h : normalize t x = .ok y) : normalize t y = .ok y :=
  normalize_idem t x y h

/-- Serialising a relaxed value is serialising its explicit form: if `y` is the normal form of `x`, then `x` in relaxed
    mode, `y` in strict mode and `y` in relaxed mode all give the same result (value and bits, or the same error). -/
theorem C06.relaxed_explicit (t : Ty) (x y : Inp) (hdr : Bool) (h : normalize t x = .ok y) :
    serialize t x hdr true = serialize t y hdr false ∧ serialize t y hdr true = serialize t y hdr false := by
  have h2 := normalize_idem t x y h
  unfold serialize
  constructor <;> split <;> simp [h, h2, bind, Except.bind, pure, Except.pure]

/-- Relaxed mode is a conservative extension of strict mode: whatever strict mode accepts, relaxed mode accepts with
    the same result (dict keys distinct, as in every Python dict). -/
theorem C06.relaxed_conservative (t : Ty) (x : Inp) (hdr : Bool) (r : Val × List Bool)
    (hd : DistinctKeys t x) (h : serialize t x hdr false = .ok r) : serialize t x hdr true = .ok r := by
  unfold serialize at h ⊢
  split at h
  · cases h
  · rename_i hc
    simp only [hc, if_false]
    simp only [Bool.false_eq_true, if_false, bind_ok] at h
    obtain ⟨x', hx', v, hv, hr⟩ := h
    cases hx'
    have := normalize_strict t x v hd hv
    simp only [if_true, this, hv, bind, Except.bind]
    exact hr

/-- Positional form: a list of values for a structure is the dict that pairs them, in order, with the indices of
    the non-padding fields (`fields_except_padding`); longer lists are rejected. -/
theorem C06.relaxed_positional (fs : List Ty) (m : Mode) (xs : List Inp) (hdr : Bool)
    (hk : (nonPad fs 0).length ≠ 1) (hlen : xs.length ≤ (nonPad fs 0).length) :
    serialize (.struct fs m) (.list xs) hdr true
      = serialize (.struct fs m) (.dict (List.zip (nonPad fs 0) xs)) hdr true := by
  have hk' : ∀ k, nonPad fs 0 ≠ [k] := by
    intro k hc; rw [hc] at hk; exact hk rfl
  unfold serialize
  simp only [if_true, norm_positional fs m xs hk' hlen]

theorem C06.relaxed_positional_too_long (fs : List Ty) (m : Mode) (xs : List Inp)
    (hk : (nonPad fs 0).length ≠ 1) (hlen : (nonPad fs 0).length < xs.length) :
    normalize (.struct fs m) (.list xs) = .error .value := by
  have hk' : ∀ k, nonPad fs 0 ≠ [k] := by
    intro k hc; rw [hc] at hk; exact hk rfl
  rw [norm_struct_list fs m xs hk', if_pos hlen]

/-- Bare form: a structure with exactly one non-padding field `k` given as a value that is not a dict, or as a
    non-empty dict without the key `k`, is the dict `{k: value}`. -/
theorem C06.relaxed_bare (fs : List Ty) (m : Mode) (x : Inp) (k : Nat) (hdr : Bool) (hk : nonPad fs 0 = [k])
    (hx : (∀ kvs, x ≠ .dict kvs) ∨ ∃ kvs, x = .dict kvs ∧ (!kvs.isEmpty && !hasKey k kvs) = true) :
    serialize (.struct fs m) x hdr true = serialize (.struct fs m) (.dict [(k, x)]) hdr true := by
  unfold serialize
  simp only [if_true, norm_bare fs m x k hk hx]

/-! ### Non-vacuity: nested relaxed forms (positional inside bare inside a list) -/

def C06.rlxT : Ty :=
  .struct [.void 3, .varr (.struct [.uint 8 .sat, .void 4, .union [.bool, .struct [.sint 8 .sat] .sealed] .sealed] .sealed) 4] .sealed

-- one non-padding field (index 1) given bare as a list of positional structures; the union value holds a bare struct
def C06.rlxX : Inp := .list [.list [.int 7, .dict [(1, .int (-3))]], .list [.int 300]]
def C06.rlxY : Inp :=
  .dict [(1, .list [.dict [(0, .int 7), (2, .dict [(1, .dict [(0, .int (-3))])])], .dict [(0, .int 300)]])]

example : normalize C06.rlxT C06.rlxX = .ok C06.rlxY := rfl
example : ∃ r, serialize C06.rlxT C06.rlxX false true = .ok r ∧ serialize C06.rlxT C06.rlxY false false = .ok r :=
  ⟨_, rfl, rfl⟩
example : DistinctKeys C06.rlxT C06.rlxY := by
  simp only [C06.rlxT, C06.rlxY, DistinctKeys, DistinctKeysField, List.map_cons, List.map_nil, List.mem_cons,
    List.not_mem_nil, or_false, forall_eq_or_imp, forall_eq]
  simp
example : (nonPad [Ty.uint 8 .sat, .void 4, .bool] 0).length ≠ 1 ∧ nonPad [Ty.void 3, .bool] 0 = [1] := by decide
