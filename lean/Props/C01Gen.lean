import Bridge.Symbolic
/-!
# C01 over the code generated from `_symbolic.py`

`Gen/Symbolic.lean` is rewritten from `/repo/pydsdl/_bit_length_set/_symbolic.py` by `tools/py2lean.py` on every
run of the check; `Bridge.iface o` is the object graph that the Python constructors build for the operator tree
`o`, seen through the generated methods.  The theorems below are therefore statements about what the Python
source says *now*: for every well-formed tree (no bound on nesting, repetition counts, values) and every divisor
`d ≥ 1`, every generated method terminates without raising — no `assert` fires, nothing is divided by zero, no
`min()`/`max()` of an empty set, the naturals are never left — and returns exactly the answer of the
mathematically defined set `Bls.den o`.
-/
open scoped Pointwise
open Bls Bridge

/-- The generated methods refine the hand-written model (sets compared as finite sets). -/
theorem C01.gen_refines_model (o : Op) (h : o.wf = true) : Refines (iface o) o := refines o h

/-- `modulo(d)` of the generated code: returns normally, with exactly the residues of the defined set. -/
theorem C01.gen_modulo_exact (o : Op) (h : o.wf = true) (d : ℕ) (hd : 1 ≤ d) :
    ∃ s, (iface o).modulo d = .ok s ∧ s.toFinset = (den o).image (· % d) := by
  obtain ⟨s, hs, hset⟩ := (refines o h).modulo d hd
  exact ⟨s, hs, by rw [hset, Bls.modulo_exact o h d hd]⟩

/-- `min` / `max` of the generated code are the least / greatest element of the defined set. -/
theorem C01.gen_min_max_exact (o : Op) (h : o.wf = true) :
    (iface o).min = .ok ((den o).min' (den_nonempty o h)) ∧ (iface o).max = .ok ((den o).max' (den_nonempty o h)) := by
  obtain ⟨h1, h2⟩ := min_exact o h
  obtain ⟨h3, h4⟩ := max_exact o h
  have e1 : o.min = (den o).min' (den_nonempty o h) :=
    le_antisymm ((Finset.le_min'_iff _ _).mpr fun y hy => h2 y hy) (Finset.min'_le _ _ h1)
  have e2 : o.max = (den o).max' (den_nonempty o h) :=
    le_antisymm (Finset.le_max' _ _ h3) ((Finset.max'_le_iff _ _).mpr fun y hy => h4 y hy)
  exact ⟨by rw [(refines o h).min, e1], by rw [(refines o h).max, e2]⟩

/-- `expand()` of the generated code returns exactly the defined set. -/
theorem C01.gen_expand_exact (o : Op) (h : o.wf = true) :
    ∃ s, (iface o).expand () = .ok s ∧ s.toFinset = den o := by
  obtain ⟨s, hs, hset⟩ := (refines o h).expand
  exact ⟨s, hs, by rw [hset, Bls.expand_exact o]⟩

/-- No method of the generated code can raise on a well-formed tree: in particular neither the `equivalent_k`
    congruence asserts nor `assert x <= mx and x < lcm` can fire, for any divisor `d ≥ 1`. -/
theorem C01.gen_never_raises (o : Op) (h : o.wf = true) (d : ℕ) (hd : 1 ≤ d) :
    (∃ m, (iface o).min = .ok m) ∧ (∃ m, (iface o).max = .ok m) ∧
    (∃ s, (iface o).modulo d = .ok s) ∧ (∃ s, (iface o).expand () = .ok s) := by
  obtain ⟨s, hs, _⟩ := (refines o h).modulo d hd
  obtain ⟨e, he, _⟩ := (refines o h).expand
  exact ⟨⟨_, (refines o h).min⟩, ⟨_, (refines o h).max⟩, ⟨s, hs⟩, ⟨e, he⟩⟩

/-! ### Non-vacuity and a sanity run of the generated code itself -/

example : (Op.pad (.rep (.uni [.leaf [1, 3], .leaf [7]]) (2 ^ 63)) 8).wf = true ∧ (1 : ℕ) ≤ 12 := by decide
example : (iface (Op.pad (.rrep (.leaf [1, 3]) 2) 4)).min = .ok 0 ∧
    (iface (Op.pad (.rrep (.leaf [1, 3]) 2) 4)).max = .ok 8 := by decide
