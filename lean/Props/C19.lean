import Proofs.NamespaceC09
/-! C19 - definitions outside the dependency closure cannot influence the result (model level).
    Proved: everything that is inspected when a directory is listed (`mkDef`: name, version, port-ID, file-name errors),
    the ordering and reference resolution are blind to definition texts; the type of a definition is a function of the
    texts of the definitions its references name, recursively (`C19.type_depends_on_closure`).
    Kept as a statement, validated by the correspondence only: equality of error class and `@print` output of two whole
    runs (`C19.noninterference_statement`). -/
open Ns

def retext (f : Def → Text) (d : Def) : Def := { d with text := f d }

/-- listing a directory looks at paths only: same definitions, same errors, whatever the texts are -/
theorem C19.listing_text_blind (tgt : Bool) (e : FileEntry) (t' : Text) :
    mkDef tgt { e with text := t' } = (mkDef tgt e).map fun d => { d with text := t' } := by
  unfold mkDef
  simp only
  split
  · rfl
  · split
    · rfl
    · split <;> rfl

/-- a malformed file name is reported whatever the texts are (the only thing a lookup directory may contribute) -/
theorem C19.file_name_error_text_blind (tgt : Bool) (e : FileEntry) (t' : Text) (x : Err)
    (h : mkDef tgt e = .error x) : mkDef tgt { e with text := t' } = .error x := by
  rw [C19.listing_text_blind, h]; rfl

/-- resolution filters the lookup list by name and version only -/
theorem C19.resolve_text_blind (f : Def → Text) (L : List Def) (d : Def) (r : Ref) :
    resolve (L.map (retext f)) (retext f d) r = (resolve L d r).map (retext f) := by
  unfold resolve
  have hc : completeName (retext f d) r.name = completeName d r.name := rfl
  rw [hc, List.filter_map]
  have : (refMatches (completeName d r.name) r.major r.minor ∘ retext f) = refMatches (completeName d r.name) r.major r.minor := by
    funext y; rfl
  rw [this]
  generalize L.filter (refMatches (completeName d r.name) r.major r.minor) = F
  match F with
  | [] => rfl
  | [x] =>
    simp only [List.map, pick]
    have : (retext f x).name = x.name := rfl
    rw [this]
    split <;> rfl
  | x :: y :: _ =>
    simp only [List.map, pick]
    have h1 : (retext f x).name = x.name := rfl
    have h2 : (retext f y).name = y.name := rfl
    rw [h1, h2]
    split <;> rfl

/-- The type of a definition is determined by its own text and the types of the definitions its references name
    (recursively: `Den` only ever looks at `d.text` of definitions reached through `ExactRef`): two namespaces in which
    a definition has the same stand-alone type tree give the same type, whatever else they contain - in particular
    every successful read of it, in any context, returns that type. -/
theorem C19.type_depends_on_closure (au : Bool) (Lb L : List Def) (d : Def) (st : St) (t t' : Ty) (hL : KeySub Lb L)
    (hc : CacheOk (DenR au Lb) st) (h : (readObj au L d st).1 = .ok t) (hd : Den au Lb t' d) : t = t' :=
  Den.unique ((readObj_den au Lb L d st hL hc).2 t h) hd

/-- Full non-interference statement (types or error class, and prints, of a whole `read_namespace`): two enumerations
    with the same file names whose texts agree on every definition that is read (targets and visited dependencies of the
    first run) give the same outcome. -/
def C19.noninterference_statement : Prop :=
  ∀ (files files' : List FileEntry) (root : Path) (lookups : List Path) (ac au : Bool),
    files.map (fun e => (e.dir, e.sub, e.fname)) = files'.map (fun e => (e.dir, e.sub, e.fname)) →
    (∀ e e', (e, e') ∈ files.zip files' → e.text ≠ e'.text →
      e.dir ≠ root ∧ ∀ L d st, ∀ x ∈ (readObj au L d st).2.visited, x.path ≠ e.dir ++ e.sub ++ [e.fname]) →
    (readNamespace files' root lookups ac au).res = (readNamespace files root lookups ac au).res ∧
    (readNamespace files' root lookups ac au).prints = (readNamespace files root lookups ac au).prints

section NonVacuity
private def S : Text := ⟨false, ⟨[.prim 8], .sealed⟩, none⟩
private def G : Text := ⟨true, ⟨[], .none⟩, none⟩
example : mkDef false ⟨["w", "ns"], ["x"], "7000.A.1.0.dsdl", G⟩ = (mkDef false ⟨["w", "ns"], ["x"], "7000.A.1.0.dsdl", S⟩).map fun d => { d with text := G } :=
  C19.listing_text_blind false ⟨["w", "ns"], ["x"], "7000.A.1.0.dsdl", S⟩ G
example : (mkDef false ⟨["w", "ns"], ["x"], "7000.A.1.0.dsdl", S⟩).toOption.map Def.key = some ("ns.x.A", 1, 0) := by decide +kernel
end NonVacuity
