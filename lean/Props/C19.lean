import Proofs.NamespaceC19
import Proofs.NamespaceBook
import Proofs.NamespaceExample
/-! C19 - definitions outside the dependency closure cannot influence the result (model level).
    Proved: everything that is inspected when a directory is listed (`mkDef`: name, version, port-ID, file-name errors),
    the ordering and reference resolution are blind to definition texts; the type of a definition is a function of the
    texts of the definitions its references name, recursively (`C19.type_depends_on_closure`); one `read` of a member of a
    dependency-closed set is blind to every text outside the set and visits only members of it
    (`C19.read_blind_outside_closure`, `C19.visits_only_closure`); and the whole outcome of `read_namespace` / `read_files`
    (types or error class, `@print` output - through the cache, the file pool and the direct / transitive book-keeping) is
    the same for two file systems that have the same file names and agree on the text of every definition in the
    dependency closure of the targets (`C19.noninterference`, `C19.noninterference_files`,
    `C19.noninterference_two_filesystems`, `C19.noninterference_two_filesystems_files`).
    The dependency closure is `Ns.DepClosure` (Proofs/NamespaceC19.lean): the targets and, recursively, every lookup
    definition whose (name, version) a reference of a parsing member names. -/
open Ns

/-- listing a directory looks at paths only: same definitions, same errors, whatever the texts are -/
theorem C19.listing_text_blind (tgt : Bool) (e : FileEntry) (t' : Text) :
    mkDef tgt { e with text := t' } = (mkDef tgt e).map fun d => { d with text := t' } := by
  unfold mkDef
  simp only
  split
  · rfl
  · split
    · rfl
    · split <;> rfl

/-- a malformed file name is reported whatever the texts are (the only thing a lookup directory may contribute) -/
theorem C19.file_name_error_text_blind (tgt : Bool) (e : FileEntry) (t' : Text) (x : Err)
    (h : mkDef tgt e = .error x) : mkDef tgt { e with text := t' } = .error x := by
  rw [C19.listing_text_blind, h]; rfl

/-- resolution filters the lookup list by name and version only -/
theorem C19.resolve_text_blind (f : Def → Text) (L : List Def) (d : Def) (r : Ref) :
    resolve (L.map (retext f)) (retext f d) r = (resolve L d r).map (retext f) := resolve_retext f L d r

/-- The type of a definition is determined by its own text and the types of the definitions its references name
    (recursively: `Den` only ever looks at `d.text` of definitions reached through `ExactRef`): two namespaces in which
    a definition has the same stand-alone type tree give the same type, whatever else they contain - in particular
    every successful read of it, in any context, returns that type. -/
theorem C19.type_depends_on_closure (au : Bool) (Lb L : List Def) (d : Def) (st : St) (t t' : Ty) (hL : KeySub Lb L)
    (hc : CacheOk (DenR au Lb) st) (h : (readObj au L d st).1 = .ok t) (hd : Den au Lb t' d) : t = t' :=
  Den.unique ((readObj_den au Lb L d st hL hc).2 t h) hd

/-- One `read` of a definition never looks at a text outside the dependency closure: for every set `C` of definitions
    that is closed under "a reference of a member names it" (`DepClosed`), every replacement `f` of texts that leaves the
    members of `C` alone, every lookup list, cache and book-keeping state, reading a member of `C` against the re-texted
    lookup list gives the same type or error, the same cache, the same `@print` output and the same visited list. -/
theorem C19.read_blind_outside_closure (au : Bool) (f : Def → Text) (C : Def → Prop) (hC : ∀ x, C x → retext f x = x)
    (L : List Def) (d : Def) (st : St) (hcl : DepClosed L C) (hd : C d) :
    readObj au (L.map (retext f)) d st = readObj au L d st := readObj_sim f C hC au L d st hcl hd

/-- ... and everything it visits lies in the closure -/
theorem C19.visits_only_closure (au : Bool) (C : Def → Prop) (L : List Def) (d : Def) (st : St) (hcl : DepClosed L C) (hd : C d)
    (hv : ∀ y ∈ st.visited, C y) : ∀ y ∈ (readObj au L d st).2.visited, C y := readObj_visC C au L d st hcl hd hv

/-- Non-interference for `read_namespace`, whole outcome (types or error class, and `@print` output, through the cache and
    the direct / transitive book-keeping): let the second file system be the first one with the text of the file at path
    `p` replaced by `f p text`, for an arbitrary `f` that does not change the text of any definition in the dependency
    closure (`DepClosure`: the targets, and recursively every lookup definition that a reference of a parsing member
    names) - then the two calls have the same outcome.  File names are untouched, so a malformed file name in a lookup
    directory is reported by both. -/
theorem C19.noninterference (files : List FileEntry) (f : Path → Text → Text) (root : Path) (lookups : List Path) (ac au : Bool)
    (h : ∀ L ts, collect false files (dedupPaths (lookups ++ [root])) = .ok L → collect true files [root] = .ok ts →
      ∀ d, DepClosure L ts d → f d.path d.text = d.text) :
    readNamespace (files.map (retextE f)) root lookups ac au = readNamespace files root lookups ac au := by
  unfold readNamespace
  simp only
  cases dirsCheck (dedupPaths (lookups ++ [root])) ac with
  | error e => rfl
  | ok u =>
    simp only
    rw [collect_retextE f true]
    cases hT : collect true files [root] with
    | error e => rfl
    | ok ts =>
      simp only [Except.map]
      cases hL : collect false files (dedupPaths (lookups ++ [root])) with
      | error e =>
        have e1 : ∀ tg, completeRead au (files.map (retextE f)) tg (dedupPaths (lookups ++ [root])) = ⟨.error e, []⟩ := by
          intro tg; unfold completeRead; rw [collect_retextE, hL]; rfl
        have e2 : ∀ tg, completeRead au files tg (dedupPaths (lookups ++ [root])) = ⟨.error e, []⟩ := by
          intro tg; unfold completeRead; rw [hL]
        cases ts with
        | nil => rfl
        | cons a r => simp only [List.map_cons, e1, e2]
      | ok L =>
        have hts : ts.map (retextD f) = ts := by
          conv => rhs; rw [← List.map_id ts]
          apply List.map_congr_left
          intro t ht
          have := h L ts hL hT t (DepClosure.target ht)
          cases t
          simp only [retext, id] at this ⊢
          rw [this]
        rw [hts]
        cases ts with
        | nil => rfl
        | cons a r =>
          simp only
          exact completeRead_retextE f au files (a :: r) _ (fun L' hL' d hd => h L' (a :: r) hL' hT d hd)

/-- Non-interference for `read_files`: the targets are given by name, every other definition - in the lookup directories
    and in the targets' own root namespaces - may be replaced outside the dependency closure of the targets. -/
theorem C19.noninterference_files (files targets : List FileEntry) (f : Path → Text → Text) (roots lookups : List Path) (au : Bool)
    (h : ∀ ts L, mapMDefs true targets = .ok ts →
      collect false files (dedupPaths (lookups ++ ts.map Def.root ++ roots)) = .ok L →
      ∀ d, DepClosure L ts d → f d.path d.text = d.text) :
    readFiles (files.map (retextE f)) targets roots lookups au = readFiles files targets roots lookups au := by
  unfold readFiles
  cases hT : mapMDefs true targets with
  | error e => rfl
  | ok ts =>
    cases ts with
    | nil => rfl
    | cons a r =>
      simp only
      cases dirsCheck (dedupPaths (lookups ++ List.map Def.root (a :: r) ++ roots)) true with
      | error e => rfl
      | ok u =>
        simp only
        apply completeRead_retextE
        intro L hL d hd
        apply h (a :: r) L hT hL d
        exact DepClosure.least (fun t ht => DepClosure.target (mem_sortDefs.mp ht)) (DepClosure.closed L (a :: r)) hd

/-- The same for two file systems given as such: two enumerations with the same file names (pairwise distinct paths) whose
    texts agree on every definition in the dependency closure of the targets - every pair of entries with different
    texts is a file outside the closure computed in the first file system - give the same outcome of `read_namespace`
    (types or error class, `@print` output). -/
theorem C19.noninterference_two_filesystems (files files' : List FileEntry) (root : Path) (lookups : List Path) (ac au : Bool)
    (hn : files.map (fun e => (e.dir, e.sub, e.fname)) = files'.map (fun e => (e.dir, e.sub, e.fname)))
    (hnd : (files.map FileEntry.path).Nodup)
    (h : ∀ e e', (e, e') ∈ files.zip files' → e.text ≠ e'.text →
      ∀ L ts, collect false files (dedupPaths (lookups ++ [root])) = .ok L → collect true files [root] = .ok ts →
        ∀ d, DepClosure L ts d → d.path ≠ e.path) :
    readNamespace files' root lookups ac au = readNamespace files root lookups ac au := by
  have hf := same_names_retextE files files' [] hn hnd (by intro q hq; cases hq)
  simp only [List.nil_append] at hf
  rw [hf]
  apply C19.noninterference
  intro L ts hL hts d hd
  have hlen : files.length = files'.length := by simpa using congrArg List.length hn
  have hfrom : ∃ e ∈ files, ∃ tg, mkDef tg e = .ok d := by
    rcases hd.mem with hm | hm
    · obtain ⟨e, he, _, _, hm⟩ := collect_mem hL d hm
      exact ⟨e, he, false, hm⟩
    · obtain ⟨e, he, _, _, hm⟩ := collect_mem hts d hm
      exact ⟨e, he, true, hm⟩
  obtain ⟨e, he, tg, hm⟩ := hfrom
  obtain ⟨hp, _, ht⟩ := mkDef_path hm
  obtain ⟨e', hz, hta⟩ := textAt_zip_of_mem hlen hnd he d.text
  have hpe : d.path = e.path := hp
  rw [hpe, hta]
  by_cases hne : e.text = e'.text
  · rw [← hne, ht]
  · exact absurd hpe (h e e' hz hne L ts hL hts d hd)

/-- ... and of `read_files` -/
theorem C19.noninterference_two_filesystems_files (files files' targets : List FileEntry) (roots lookups : List Path) (au : Bool)
    (hn : files.map (fun e => (e.dir, e.sub, e.fname)) = files'.map (fun e => (e.dir, e.sub, e.fname)))
    (hnd : (files.map FileEntry.path).Nodup)
    (h : ∀ e e', (e, e') ∈ files.zip files' → e.text ≠ e'.text →
      ∀ ts L, mapMDefs true targets = .ok ts →
        collect false files (dedupPaths (lookups ++ ts.map Def.root ++ roots)) = .ok L →
        ∀ d, DepClosure L ts d → d.path ≠ e.path)
    (hsub : ∀ e ∈ targets, e ∈ files) :
    readFiles files' targets roots lookups au = readFiles files targets roots lookups au := by
  have hf := same_names_retextE files files' [] hn hnd (by intro q hq; cases hq)
  simp only [List.nil_append] at hf
  rw [hf]
  apply C19.noninterference_files
  intro ts L hts hL d hd
  have hlen : files.length = files'.length := by simpa using congrArg List.length hn
  have hfrom : ∃ e ∈ files, ∃ tg, mkDef tg e = .ok d := by
    rcases hd.mem with hm | hm
    · obtain ⟨e, he, _, _, hm⟩ := collect_mem hL d hm
      exact ⟨e, he, false, hm⟩
    · obtain ⟨e, he, hm⟩ := mapMDefs_mem hts d hm
      exact ⟨e, hsub e he, true, hm⟩
  obtain ⟨e, he, tg, hm⟩ := hfrom
  obtain ⟨hp, _, ht⟩ := mkDef_path hm
  obtain ⟨e', hz, hta⟩ := textAt_zip_of_mem hlen hnd he d.text
  have hpe : d.path = e.path := hp
  rw [hpe, hta]
  by_cases hne : e.text = e'.text
  · rw [← hne, ht]
  · exact absurd hpe (h e e' hz hne ts L hts hL d hd)

section NonVacuity
private def S : Text := ⟨false, ⟨[.prim 8], .sealed⟩, none⟩
private def G : Text := ⟨true, ⟨[], .none⟩, none⟩
example : mkDef false ⟨["w", "ns"], ["x"], "7000.A.1.0.dsdl", G⟩ = (mkDef false ⟨["w", "ns"], ["x"], "7000.A.1.0.dsdl", S⟩).map fun d => { d with text := G } :=
  C19.listing_text_blind false ⟨["w", "ns"], ["x"], "7000.A.1.0.dsdl", S⟩ G
example : (mkDef false ⟨["w", "ns"], ["x"], "7000.A.1.0.dsdl", S⟩).toOption.map Def.key = some ("ns.x.A", 1, 0) := by decide +kernel

/- a worked instance (Proofs/NamespaceExample.lean): `ns/A.1.0` has a field of type `ns.B.1.0`; `other/C.1.0` is outside the
   dependency closure of `A` and is replaced by garbage: same outcome -/
open Ns.Example in
example : Example.fs.map (retextE garbleC) ≠ Example.fs ∧
    readFiles (Example.fs.map (retextE garbleC)) [eA] [] [["w", "other"]] false = ⟨.ok ([TA], [TB]), []⟩ := by
  refine ⟨garbleC_changes, ?_⟩
  rw [C19.noninterference_files Example.fs [eA] garbleC [] [["w", "other"]] false, evalFiles]
  intro ts L hts hL d hd
  have e1 : ts = [dA true] := by simp [mapMDefs, mkA] at hts; exact hts.symm
  subst e1
  have h2 : dedupPaths ([["w", "other"]] ++ List.map Def.root [dA true] ++ []) = Example.dirs := by decide +kernel
  rw [h2, collectL] at hL
  cases hL
  exact garbleC_outside (fun t ht => Or.inl (by simpa using ht)) hd
open Ns.Example in
example : readNamespace (Example.fs.map (retextE garbleC)) ["w", "ns"] [["w", "other"]] true false = ⟨.ok ([TA, TB], []), []⟩ := by
  rw [C19.noninterference Example.fs garbleC, evalNs]
  intro L ts hL hts d hd
  have h1 : dedupPaths ([["w", "other"]] ++ [["w", "ns"]]) = Example.dirs := by decide +kernel
  rw [h1, collectL] at hL
  rw [collectT] at hts
  cases hL; cases hts
  exact garbleC_outside (fun t ht => by simpa using ht) hd
open Ns.Example in
example : readNamespace [eA, eB, { eC with text := Example.G }] ["w", "ns"] [["w", "other"]] true false = ⟨.ok ([TA, TB], []), []⟩ := by
  rw [C19.noninterference_two_filesystems Example.fs [eA, eB, { eC with text := Example.G }] _ _ _ _ (by decide +kernel) (by decide +kernel),
    evalNs]
  intro e e' hz hne L ts hL hts d hd
  have h1 : dedupPaths ([["w", "other"]] ++ [["w", "ns"]]) = Example.dirs := by decide +kernel
  rw [h1, collectL] at hL
  rw [collectT] at hts
  cases hL; cases hts
  simp only [Example.fs, List.zip_cons_cons, List.zip_nil_right, List.mem_cons, Prod.mk.injEq, List.not_mem_nil, or_false] at hz
  rcases hz with ⟨rfl, rfl⟩ | ⟨rfl, rfl⟩ | ⟨rfl, rfl⟩
  · exact absurd rfl hne
  · exact absurd rfl hne
  · rcases closureAB (fun t ht => by simpa using ht) hd with rfl | rfl | rfl <;> decide +kernel
end NonVacuity
