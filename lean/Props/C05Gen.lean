import Bridge.Rules
import Props.C05
/-!
# C05 over the constructor guards generated from `_serializable`

The width, capacity, arity, version and port-ID guards are translated from the constructors of the working tree of /repo on
every run; the generated code accepts exactly the parameter values that the static rules of the model accept (about which
`C05.iff` is proved).
-/
open Rules Bridge

/-- primitive widths: 1..64 for unsigned integers and voids; signed integers additionally need ≥ 2 bits and the saturated mode -/
theorem C05.gen_width_rules (w : Nat) (c : Cast) :
    ((Scalar.uint w c).ctorOk = true ↔ Gen.PrimitiveType.check w = .ok ()) ∧
    ((Scalar.void w).ctorOk = true ↔ Gen.VoidType.check w = .ok ()) ∧
    ((Scalar.int w c).ctorOk = true ↔
      (Gen.PrimitiveType.check w = .ok () ∧ Gen.SignedIntegerType.check w (c == .saturated) = .ok ())) :=
  ⟨uint_ctor w c, void_ctor w, int_ctor w c⟩

/-- array capacity ≥ 1, union arity ≥ 2 -/
theorem C05.gen_capacity_arity (n : Nat) :
    (Gen.ArrayType.check n = .ok () ↔ 1 ≤ n) ∧ (Gen.UnionType.check n = .ok () ↔ 2 ≤ n) :=
  ⟨array_check_iff n, union_check_iff n⟩

/-- the implicit length field of a variable-length array, `UnsignedIntegerType(2 ** ceil(log2(max(8, capacity.bit_length()))))`,
    passes the generated width guard of `PrimitiveType` exactly when the capacity is below 2^64 - the bound of `Ty.ctorOk` -/
theorem C05.gen_varArr_prefix (cap : Nat) :
    Gen.PrimitiveType.check (pow2ceil8 (bitLength cap)) = .ok () ↔ cap < 2 ^ 64 := by
  rw [primitive_check_iff]
  constructor
  · intro h
    exact (C05.varArr_capacity_prefix cap).mp h.2
  · intro h
    have h1 := (pow2ceil8_bitLength_spec cap h).1
    simp only [List.mem_cons, List.mem_nil_iff, or_false] at h1
    omega

example : Gen.PrimitiveType.check (pow2ceil8 (bitLength (2 ^ 64 - 1))) = .ok () ∧
    Gen.PrimitiveType.check (pow2ceil8 (bitLength (2 ^ 64))) ≠ .ok () :=
  ⟨(C05.gen_varArr_prefix _).mpr (by decide), fun h => absurd ((C05.gen_varArr_prefix _).mp h) (by decide)⟩

/-- version 0..255 each and not 0.0; subject-IDs up to 8191, service-IDs up to 511 -/
theorem C05.gen_version_port (major minor : Nat) (srv : Bool) (pid : Option Nat) :
    Gen.CompositeType.check_version_and_port major minor srv pid = .ok () ↔
      (versionOk major minor = true ∧ ∀ p, pid = some p → (if srv then p ≤ 511 else p ≤ 8191)) :=
  version_port_iff major minor srv pid

example : Gen.CompositeType.check_version_and_port 1 0 false (some 8191) = .ok () ∧
    Gen.CompositeType.check_version_and_port 0 0 false none = .error (.other "InvalidVersionError") := by decide
