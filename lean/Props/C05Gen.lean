import Bridge.Rules
import Bridge.Names
import Props.C05
/-!
# C05 over the constructor guards generated from `_serializable`

The width, capacity, arity, version and port-ID guards are translated from the constructors of the working tree of /repo on
every run; the generated code accepts exactly the parameter values that the static rules of the model accept (about which
`C05.iff` is proved).

The name rules (`_name.py`) are translated too: the character-set constants, the table of disallowed words and patterns - every
`re.compile` pattern parsed from its source text into the regex AST of `PyRegex.lean`, whose matcher is proved to decide the
language of the expression (`Py.Rx.fullmatch_iff`) - and `check_name` itself, statement by statement.
-/
open Rules Bridge

/-- primitive widths: 1..64 for unsigned integers and voids; signed integers additionally need ≥ 2 bits and the saturated mode -/
theorem C05.gen_width_rules (w : Nat) (c : Cast) :
    ((Scalar.uint w c).ctorOk = true ↔ Gen.PrimitiveType.check w = .ok ()) ∧
    ((Scalar.void w).ctorOk = true ↔ Gen.VoidType.check w = .ok ()) ∧
    ((Scalar.int w c).ctorOk = true ↔
      (Gen.PrimitiveType.check w = .ok () ∧ Gen.SignedIntegerType.check w (c == .saturated) = .ok ())) :=
  ⟨uint_ctor w c, void_ctor w, int_ctor w c⟩

/-- array capacity ≥ 1, union arity ≥ 2 -/
theorem C05.gen_capacity_arity (n : Nat) :
    (Gen.ArrayType.check n = .ok () ↔ 1 ≤ n) ∧ (Gen.UnionType.check n = .ok () ↔ 2 ≤ n) :=
  ⟨array_check_iff n, union_check_iff n⟩

/-- the implicit length field of a variable-length array, `UnsignedIntegerType(2 ** ceil(log2(max(8, capacity.bit_length()))))`,
    passes the generated width guard of `PrimitiveType` exactly when the capacity is below 2^64 - the bound of `Ty.ctorOk` -/
theorem C05.gen_varArr_prefix (cap : Nat) :
    Gen.PrimitiveType.check (pow2ceil8 (bitLength cap)) = .ok () ↔ cap < 2 ^ 64 := by
  rw [primitive_check_iff]
  constructor
  · intro h
    exact (C05.varArr_capacity_prefix cap).mp h.2
  · intro h
    have h1 := (pow2ceil8_bitLength_spec cap h).1
    simp only [List.mem_cons, List.mem_nil_iff, or_false] at h1
    omega

example : Gen.PrimitiveType.check (pow2ceil8 (bitLength (2 ^ 64 - 1))) = .ok () ∧
    Gen.PrimitiveType.check (pow2ceil8 (bitLength (2 ^ 64))) ≠ .ok () :=
  ⟨(C05.gen_varArr_prefix _).mpr (by decide), fun h => absurd ((C05.gen_varArr_prefix _).mp h) (by decide)⟩

/-- version 0..255 each and not 0.0; subject-IDs up to 8191, service-IDs up to 511 -/
theorem C05.gen_version_port (major minor : Nat) (srv : Bool) (pid : Option Nat) :
    Gen.CompositeType.check_version_and_port major minor srv pid = .ok () ↔
      (versionOk major minor = true ∧ ∀ p, pid = some p → (if srv then p ≤ 511 else p ≤ 8191)) :=
  version_port_iff major minor srv pid

example : Gen.CompositeType.check_version_and_port 1 0 false (some 8191) = .ok () ∧
    Gen.CompositeType.check_version_and_port 0 0 false none = .error (.other "InvalidVersionError") := by decide

/-! ### names -/

/-- For EVERY string the `check_name` generated from the working tree returns normally exactly when the model's `checkName`
    accepts the name - i.e. exactly when the declarative name rule `NameOk` holds (non-empty, `[A-Za-z_][A-Za-z0-9_]*`, not a
    reserved word or pattern in any letter case) - and raises `InvalidNameError`, nothing else, otherwise.  In particular the
    translation's own failure modes (`IndexError`, `AttributeError`, a non-ASCII subject of `lower()` / `match`) never occur. -/
theorem C05.gen_name_rule (name : String) :
    Gen.Names.check_name name.toList = (if checkName name then .ok () else .error (.other "InvalidNameError")) ∧
    (Gen.Names.check_name name.toList = .ok () ↔ NameOk name) ∧
    (Gen.Names.check_name name.toList ≠ .ok () ↔ Gen.Names.check_name name.toList = .error (.other "InvalidNameError")) := by
  have h := Bridge.Names.check_name_eq name
  refine ⟨h, ?_, ?_⟩
  · rw [h, ← checkName_iff]
    cases checkName name <;> simp
  · rw [h]
    cases checkName name <;> simp [Bridge.Names.E]

example : Gen.Names.check_name "uInt7".toList = .error (.other "InvalidNameError") ∧
    Gen.Names.check_name "COM1".toList = .error (.other "InvalidNameError") ∧
    Gen.Names.check_name "Q1_2".toList = .error (.other "InvalidNameError") ∧
    Gen.Names.check_name "_a_".toList = .error (.other "InvalidNameError") ∧
    Gen.Names.check_name "Aux".toList = .error (.other "InvalidNameError") ∧
    Gen.Names.check_name "a-b".toList = .error (.other "InvalidNameError") ∧
    Gen.Names.check_name "".toList = .error (.other "InvalidNameError") ∧
    Gen.Names.check_name "com10".toList = .ok () ∧ Gen.Names.check_name "q1_".toList = .ok () ∧
    Gen.Names.check_name "Bool1".toList = .ok () ∧ Gen.Names.check_name "_a".toList = .ok () := by
  simp only [(C05.gen_name_rule _).1]
  decide

/-- The generated table of disallowed names (`Gen.Names.reserved`: every entry of the module-level tables `check_name` consults
    through `in`, a loop or a comprehension, in the order of first use) - plain words and the regular expressions parsed from the source, matched with the
    semantics of `Pattern.match` (`Py.Rx.pyMatch`, final `$` included) - hits a name of valid characters exactly when the name is
    `Reserved`: one of the words, or in the language of one of `void\d*`, `u?int\d*`, `float\d*`, `u?q\d+_\d+`, `com\d`, `lpt\d`,
    `_.*_` (spelled out as concatenations in `Rules.Reserved`). -/
theorem C05.gen_reserved_table (n : List Char) (h : ∀ c ∈ n, validCont c = true) :
    Gen.Names.reserved.any (Bridge.Names.hits n) = true ↔ Reserved n := by
  rw [Bridge.Names.table_any n h]; exact reserved_iff n

example : Reserved "uq16_8".toList ∧ (∀ c ∈ "uq16_8".toList, validCont c = true) ∧
    Gen.Names.reserved.any (Bridge.Names.hits "uq16_8".toList) = true :=
  have h : ∀ c ∈ "uq16_8".toList, validCont c = true := by decide
  have r : Reserved "uq16_8".toList := (reserved_iff _).mp (by decide)
  ⟨r, h, (C05.gen_reserved_table _ h).mpr r⟩

/-- Each generated pattern, as a language: the executable matcher applied to the parsed pattern accepts exactly the strings the
    corresponding hand-written matcher of the model accepts, for every subject (`_.*_`: every subject without a line feed, which
    `.` does not match). -/
theorem C05.gen_patterns (s : List Char) :
    (Py.Rx.Matches (.seq (.chr 'v') (.seq (.chr 'o') (.seq (.chr 'i') (.seq (.chr 'd') (.star .digit))))) s ↔
      matchPrefixDigits "void".toList s = true) ∧
    (Py.Rx.Matches (.seq (.opt (.chr 'u')) (.seq (.chr 'i') (.seq (.chr 'n') (.seq (.chr 't') (.star .digit))))) s ↔
      (matchPrefixDigits "uint".toList s || matchPrefixDigits "int".toList s) = true) ∧
    (Py.Rx.Matches (.seq (.opt (.chr 'u')) (.seq (.chr 'q') (.seq (.plus .digit) (.seq (.chr '_') (.plus .digit))))) s ↔
      matchQ s = true) ∧
    (Py.Rx.Matches (.seq (.chr 'f') (.seq (.chr 'l') (.seq (.chr 'o') (.seq (.chr 'a') (.seq (.chr 't') (.star .digit)))))) s ↔
      matchPrefixDigits "float".toList s = true) ∧
    (Py.Rx.Matches (.seq (.chr 'c') (.seq (.chr 'o') (.seq (.chr 'm') .digit))) s ↔ matchPrefixDigit "com".toList s = true) ∧
    (Py.Rx.Matches (.seq (.chr 'l') (.seq (.chr 'p') (.seq (.chr 't') .digit))) s ↔ matchPrefixDigit "lpt".toList s = true) ∧
    ((∀ c ∈ s, c ≠ '\n') →
      (Py.Rx.Matches (.seq (.chr '_') (.seq (.star .any) (.chr '_'))) s ↔ matchUnderscores s = true)) := by
  simp only [← Py.Rx.fullmatch_iff]
  exact ⟨by rw [Bridge.Names.pat_void], by rw [Bridge.Names.pat_int], by rw [Bridge.Names.pat_q], by rw [Bridge.Names.pat_float],
    by rw [Bridge.Names.pat_com], by rw [Bridge.Names.pat_lpt], fun h => by rw [Bridge.Names.pat_underscores s h]⟩

example : Py.Rx.Matches (.seq (.chr 'c') (.seq (.chr 'o') (.seq (.chr 'm') .digit))) "com7".toList ∧
    ¬ Py.Rx.Matches (.seq (.chr 'c') (.seq (.chr 'o') (.seq (.chr 'm') .digit))) "com10".toList := by decide
