import Proofs.WireLayout
import Proofs.WireEncLen
import Proofs.LayoutAlign
import Proofs.WireCompleteDec
/-!
# C06 ∩ C02 — the bit length of every encoding is an element of the type's bit length set

Joins the wire model and the layout model: for every type accepted by both models' well-formedness predicates,
the length of the encoding of every valid value (C06, `Wire.enc`) is an element of the set denoted by the bit
length set expression the library builds for that type (C02, `Layout.Ty.bls`), and the wire model's own length
predicate *is* the Specification's length set of C02.
-/
open scoped Pointwise
open Bls WireLayout

/-- `Wire.HasLen` (lengths of encodings, C06) and `Layout.specLens` (the Specification's set, C02) coincide. -/
theorem C06.length_set_is_layout_spec (t : Wire.Ty) (hw : t.wf = true) (L : ℕ) :
    Wire.HasLen t L ↔ L ∈ Layout.specLens (toLayout t) :=
  hasLen_iff t hw L

/-- The bit length of the encoding of any valid value, at any aligned offset, is an element of the set denoted by
    the type's `bit_length_set` expression. -/
theorem C06.length_in_bit_length_set (t : Wire.Ty) (v : Wire.Val) (o : ℕ)
    (hw : t.wf = true) (hl : (toLayout t).wf = true) (hv : Wire.valid t v = true) (ho : o % t.align = 0) :
    (Wire.enc t v o).length ∈ den (toLayout t).bls := by
  rw [Layout.den_bls _ hl, ← hasLen_iff t hw]
  exact Wire.enc_len t v o hw hv ho

/-- No spurious element: for a type without delimited members the set denoted by its `bit_length_set` expression is
    EXACTLY the set of bit lengths of the encodings of its valid values (at any aligned offset). -/
theorem C06.bit_length_set_exact (t : Wire.Ty) (L o : ℕ)
    (hw : t.wf = true) (hl : (toLayout t).wf = true) (hs : t.noDelim = true) (ho : o % t.align = 0) :
    L ∈ den (toLayout t).bls ↔ ∃ v, Wire.valid t v = true ∧ (Wire.enc t v o).length = L := by
  rw [Layout.den_bls _ hl, ← hasLen_iff t hw]
  exact ⟨fun h => Wire.enc_complete t L o hw hs h ho, fun ⟨v, hv, hlen⟩ => hlen ▸ Wire.enc_len t v o hw hv ho⟩

/-- With delimited members (any depth): every element of the set denoted by `bit_length_set` is the exact number of
    bits the type's decoder consumes on some accepted representation, and every encoding length is an element. -/
theorem C06.bit_length_set_reader_exact (t : Wire.Ty) (L o : ℕ)
    (hw : t.wf = true) (hl : (toLayout t).wf = true) (ho : o % t.align = 0) (h : L ∈ den (toLayout t).bls) :
    ∃ (b : List Bool) (v : Wire.Val), b.length = L ∧ Wire.valid t v = true ∧
      ∀ junk, Wire.dec t ⟨o, b ++ junk⟩ = .ok (v, ⟨o + L, junk⟩) := by
  rw [Layout.den_bls _ hl, ← hasLen_iff t hw] at h
  obtain ⟨b, v, hlen, hd⟩ := Wire.dec_consumes t L hw h o ho
  exact ⟨b, v, hlen, Wire.dec_valid t _ v _ hw (hd []), hd⟩

/-! ### Non-vacuity -/
example : (Wire.Ty.struct [.uint 3 .sat, .varr (.struct [.uint 8 .sat] .sealed) 300, .void 5] .sealed).wf = true ∧
    (toLayout (Wire.Ty.struct [.uint 3 .sat, .varr (.struct [.uint 8 .sat] .sealed) 300, .void 5] .sealed)).wf = true := by
  constructor <;> decide +kernel

example : (Wire.Ty.struct [.uint 3 .sat, .varr (.struct [.uint 8 .sat] .sealed) 300, .void 5] .sealed).noDelim = true := by
  decide
