import Proofs.WireCompleteDec
/-! C06 — the length set has no spurious element: every `L` with `HasLen T L` (= `L ∈ Layout.specLens T`, see
    `C06.length_set_is_layout_spec`; = the set denoted by the library's `bit_length_set`, see `C02`) is the bit
    length of a serialized representation.  Together with `C06.length` this makes the length set EXACTLY the set
    of lengths of the encodings of valid values. -/
open Wire

/-- Types without delimited members (at any depth; sealed composites, arrays, primitives): every element of the
    length set is the length of the encoding of some VALID value, at every aligned offset. -/
theorem C06.length_complete (t : Ty) (L o : Nat)
    (hw : t.wf = true) (hs : t.noDelim = true) (h : HasLen t L) (ho : o % t.align = 0) :
    ∃ v, valid t v = true ∧ (enc t v o).length = L :=
  enc_complete t L o hw hs h ho

/-- … hence, for such types, the length set is exactly the set of encoding lengths of valid values. -/
theorem C06.length_set_exact (t : Ty) (L o : Nat)
    (hw : t.wf = true) (hs : t.noDelim = true) (ho : o % t.align = 0) :
    HasLen t L ↔ ∃ v, valid t v = true ∧ (enc t v o).length = L :=
  ⟨fun h => enc_complete t L o hw hs h ho, fun ⟨v, hv, hl⟩ => hl ▸ enc_len t v o hw hv ho⟩

example : (Ty.struct [.uint 3 .trunc, .varr (.sint 5 .sat) 5, .void 2,
      .union [.bool, .float 16 .sat, .varr .utf8 4] .sealed, .farr (.struct [.bool] .sealed) 2] .sealed).wf = true ∧
    (Ty.struct [.uint 3 .trunc, .varr (.sint 5 .sat) 5, .void 2,
      .union [.bool, .float 16 .sat, .varr .utf8 4] .sealed, .farr (.struct [.bool] .sealed) 2] .sealed).noDelim = true := by
  decide

/-- A delimited type (structure or union) with extent `x`: every element `32 + 8k` of its length set is the length
    of the representation of a valid value of some conforming revision — a well-formed delimited structure with the
    same extent (no field for `k = 0`, else one array of `k` bytes).  The length set of a delimited type is by
    design the set of lengths of ALL its revisions, not of one of them. -/
theorem C06.length_complete_delimited (t : Ty) (L o : Nat)
    (hw : t.wf = true) (hd : t.isDelimited = true) (h : HasLen t L) :
    ∃ (x : Nat) (fs' : List Ty) (v : Val), t.maxLen = headerBits + x ∧
      (Ty.struct fs' (.delimited x)).wf = true ∧ valid (.struct fs' (.delimited x)) v = true ∧
      (enc (.struct fs' (.delimited x)) v o).length = L := by
  cases t with
  | struct fs m =>
    cases m with
    | sealed => simp [Ty.isDelimited] at hd
    | delimited x =>
      simp only [Ty.wf, modeOk, Bool.and_eq_true, decide_eq_true_eq] at hw
      simp only [HasLen] at h
      obtain ⟨k, hk, rfl⟩ := h
      exact ⟨x, bytesRev k, bytesRevVal k, by simp [Ty.maxLen], bytesRev_wf x k hw.2.1.1 hk hw.2.2,
        bytesRev_valid x k, bytesRev_len x k o⟩
  | union fs m =>
    cases m with
    | sealed => simp [Ty.isDelimited] at hd
    | delimited x =>
      simp only [Ty.wf, modeOk, Bool.and_eq_true, decide_eq_true_eq] at hw
      simp only [HasLen] at h
      obtain ⟨k, hk, rfl⟩ := h
      exact ⟨x, bytesRev k, bytesRevVal k, by simp [Ty.maxLen], bytesRev_wf x k hw.2.1.1 hk hw.2.2,
        bytesRev_valid x k, bytesRev_len x k o⟩
  | _ => simp [Ty.isDelimited] at hd

example : (Ty.union [.uint 8 .sat, .varr .byte 5] (.delimited 64)).wf = true ∧
    HasLen (Ty.union [.uint 8 .sat, .varr .byte 5] (.delimited 64)) (32 + 8 * 3) := by
  refine ⟨by decide, ?_⟩
  simp only [HasLen]
  exact ⟨3, by decide, rfl⟩

/-- All well-formed types, delimited members at any depth included: every element `L` of the length set is the
    exact number of bits the type's own decoder consumes on some representation it accepts — there is an `L`-bit
    string `b` such that, whatever follows it, decoding succeeds with a valid value and stops right behind `b`
    (behind a delimiter header the witness is the representation a shorter / longer revision would have written). -/
theorem C06.length_complete_reader (t : Ty) (L o : Nat)
    (hw : t.wf = true) (h : HasLen t L) (ho : o % t.align = 0) :
    ∃ (b : List Bool) (v : Val), b.length = L ∧ valid t v = true ∧
      ∀ junk, dec t ⟨o, b ++ junk⟩ = .ok (v, ⟨o + L, junk⟩) := by
  obtain ⟨b, v, hl, hd⟩ := dec_consumes t L hw h o ho
  exact ⟨b, v, hl, dec_valid t _ v _ hw (hd []), hd⟩

example : (Ty.struct [.uint 3 .sat, .farr (.struct [.varr .utf8 9] (.delimited 128)) 2] .sealed).wf = true ∧
    HasLen (Ty.struct [.uint 3 .sat, .farr (.struct [.varr .utf8 9] (.delimited 128)) 2] .sealed) (8 + (32 + 0) + (32 + 8)) := by
  refine ⟨by decide, ?_⟩
  simp only [HasLen, FieldsLen, RepLen]
  exact ⟨80, ⟨3, rfl, 72, ⟨32, 32 + 8, ⟨0, by decide, rfl⟩, ⟨32 + 8, 0, ⟨1, by decide, rfl⟩, rfl, rfl⟩, rfl⟩, by decide⟩,
    by decide⟩

/-- The encoding is a prefix-free code on valid values (unique decodability): two representations of valid values
    of one type, each followed by anything, coincide as bit strings only if the values and the continuations coincide. -/
theorem C06.prefix_free (t : Ty) (v v' : Val) (o : Nat) (junk junk' : List Bool)
    (hw : t.wf = true) (hv : valid t v = true) (hv' : valid t v' = true) (ho : o % t.align = 0)
    (h : enc t v o ++ junk = enc t v' o ++ junk') : v = v' ∧ junk = junk' := by
  have h1 := dec_enc t v hw hv o junk ho
  have h2 := dec_enc t v' hw hv' o junk' ho
  rw [h, h2] at h1
  injection h1 with h1
  have := Prod.mk.inj h1
  exact ⟨this.1.symm, (R.mk.inj this.2).2.symm⟩

example : valid (Ty.varr (.uint 3 .sat) 4) (.arr [.int 1, .int 2]) = true ∧
    valid (Ty.varr (.uint 3 .sat) 4) (.arr [.int 1]) = true := by decide
