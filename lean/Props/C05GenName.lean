import Bridge.CompositeName
import Bridge.Rules
import Props.C05
/-!
# C05 over the name-shape guards and the version / port-ID guards generated from `CompositeType.__init__`

The identity that `DSDLDefinition.__init__` reads from a file path (`Props/C15Gen.lean`) is handed to `CompositeType.__init__`,
whose guards - translated from the working tree of /repo on every run - reject what the file-name layer lets through:
an empty name, a name without root namespace, a name longer than 255 characters (`Gen/CompositeName.lean`), version 0.0,
version numbers above 255, port-IDs above 8191 / 511 (`Gen/Rules.lean`).  `check_name` on each component (regular
expressions) is tied elsewhere.
-/
open Rules Bridge Bridge.CompositeName

/-- the name rule of the model = the generated shape guards accept the joined name, and `check_name` every component -/
theorem C05.gen_composite_name (comps : List String) :
    compositeNameOk comps = true ↔
      (Gen.CompositeType.check_name_shape (fullName comps) = .ok () ∧ comps.all checkName = true) :=
  compositeNameOk_iff comps

example : compositeNameOk ["ns", "node", "Heartbeat"] = true ∧
    Gen.CompositeType.check_name_shape (fullName ["ns", "node", "Heartbeat"]) = .ok () := by decide +kernel

/-- the shape guards alone: non-empty, a separator (= a root namespace is specified), at most 255 characters;
    every rejection is an `InvalidNameError` -/
theorem C05.gen_name_shape (name : String) :
    Gen.CompositeType.check_name_shape name =
      if name.toList ≠ [] ∧ '.' ∈ name.toList ∧ name.length ≤ 255 then .ok () else .error (.other "InvalidNameError") :=
  check_name_shape_eq name

example : Gen.CompositeType.check_name_shape "Heartbeat" = .error (.other "InvalidNameError") ∧
    Gen.CompositeType.check_name_shape "" = .error (.other "InvalidNameError") ∧
    Gen.CompositeType.check_name_shape "a.B" = .ok () := by decide +kernel

/-- on names joined from components without separator (what `DSDLDefinition.__init__` produces): at least two components
    and at most 255 characters in total -/
theorem C05.gen_name_shape_joined (comps : List String) (h : ∀ c ∈ comps, '.' ∉ c.toList) :
    Gen.CompositeType.check_name_shape (fullName comps) = .ok () ↔ (2 ≤ comps.length ∧ (fullName comps).length ≤ 255) :=
  check_name_shape_fullName h

example : ¬ Gen.CompositeType.check_name_shape (fullName ["Heartbeat"]) = .ok () := by
  rw [C05.gen_name_shape_joined _ (by decide)]
  decide

/-- `self._name_components`: splitting the joined name gives the components back (on which `check_name` then runs) -/
theorem C05.gen_name_components (comps : List String) (hne : comps ≠ []) (h : ∀ c ∈ comps, '.' ∉ c.toList) :
    Gen.CompositeType.name_components (fullName comps) = .ok comps := by
  rw [name_components_eq, toList_fullName, splitChars_intercalate (by simpa using hne) (by simpa using h)]
  simp [List.map_map, Function.comp_def, String.ofList_toList]

example : Gen.CompositeType.name_components "ns.node.Heartbeat" = .ok ["ns", "node", "Heartbeat"] := by decide +kernel

/-- The version / port-ID guards with their exception classes: version 0.0 and version numbers above 255 are an
    `InvalidVersionError`; then a subject-ID above 8191 / service-ID above 511 an `InvalidFixedPortIDError`. -/
theorem C05.gen_version_port_classes (major minor : Nat) (srv : Bool) (pid : Option Nat) :
    Gen.CompositeType.check_version_and_port major minor srv pid =
      if versionOk major minor = true then
        (if ∀ p, pid = some p → (if srv then p ≤ 511 else p ≤ 8191) then .ok () else .error (.other "InvalidFixedPortIDError"))
      else .error (.other "InvalidVersionError") :=
  version_port_classes major minor srv pid

example : Gen.CompositeType.check_version_and_port 0 0 false none = .error (.other "InvalidVersionError") ∧
    Gen.CompositeType.check_version_and_port 256 0 false none = .error (.other "InvalidVersionError") ∧
    Gen.CompositeType.check_version_and_port 1 0 false (some 8192) = .error (.other "InvalidFixedPortIDError") ∧
    Gen.CompositeType.check_version_and_port 1 0 true (some 511) = .ok () := by decide
