import Bridge.Serdes
import Bridge.Codec
import Props.C06BitIO
import Props.C06WireIO
import Props.C07
/-!
# C07 over the bit-level reader generated from `_serdes.py`

`Gen/Serdes.lean` is translated from `_BitReader` of the working tree of /repo on every run.  `Bridge/Serdes.lean` proves that
the generated methods never raise and compute what `Model/BitIO.lean` computes (bit-wise loop, byte-aligned branch with zero
padding of a short slice, limit logic of bounded sub-readers incl. the calls of `read_bits` by itself); the theorems here restate
the reader theorems of `Props/C06BitIO.lean` over the generated code: `read_bits(n)` returns the next `n` bits of the window -- the
data from the current position up to the limit -- extended with zeros, for every offset, width and limit.
-/
open BitIO Bridge

/-- **The generated `read_bits` returns the `n` bits of the zero-extended, limit-truncated window.**  For every reader
    state whose data are bytes and whose position is not before its start -- any offset, any limit, any width, whichever
    path is taken, whether or not the limit is crossed -- the generated method returns normally; the value is the number whose
    bits are the next `n` bits of the window padded with zeros, the reader is the same reader `n` bits further, and its window is
    the rest of the old one. -/
theorem C07.gen_read_bits_window (g : Gen.ReaderS) (n : ℕ) (hd : IsBytes g.data) (hs : g.start_offset ≤ g.bit_offset) :
    Gen.BitReader.read_bits g n = .ok (ofBits (takeZ n (toRd g).window), { g with bit_offset := g.bit_offset + n }) ∧
      (toRd { g with bit_offset := g.bit_offset + n }).window = (toRd g).window.drop n := by
  obtain ⟨e1, e2⟩ := gen_read_bits g n ⟨hd, hs⟩
  obtain ⟨s1, _, s3⟩ := C07.read_bits_window (toRd g) n hs
  refine ⟨by rw [e1, s1]; rfl, ?_⟩
  have : toRd { g with bit_offset := g.bit_offset + n } = (readBits (toRd g) n).2 := e2
  rw [this]; exact s3

/-- a bounded sub-reader in the middle of a byte whose limit is crossed by an aligned-width request -/
example : IsBytes [0xEF, 0xCD, 0xAB, 0x12] ∧ (3 : ℕ) ≤ 3 := ⟨fun b hb => by simp at hb; omega, Nat.le_refl _⟩
example : Gen.BitReader.read_bits ⟨[0xEF, 0xCD, 0xAB, 0x12], 3, 3, some 20⟩ 27
    = .ok (358845, ⟨[0xEF, 0xCD, 0xAB, 0x12], 3, 30, some 20⟩) := by decide +kernel
/-- byte-aligned path with 3 remaining bits, read by the method calling itself -/
example : Gen.BitReader.read_bits ⟨[0xEF, 0xCD, 0xAB, 0x12], 8, 8, none⟩ 19
    = .ok (175053, ⟨[0xEF, 0xCD, 0xAB, 0x12], 8, 27, none⟩) := by decide +kernel

/-- **The generated code equals the model**, value and state. -/
theorem C07.gen_read_bits_is_model (g : Gen.ReaderS) (n : ℕ) (hd : IsBytes g.data) (hs : g.start_offset ≤ g.bit_offset) :
    ∃ g', Gen.BitReader.read_bits g n = .ok ((readBits (toRd g) n).1, g') ∧ toRd g' = (readBits (toRd g) n).2 ∧
      IsBytes g'.data ∧ g'.start_offset ≤ g'.bit_offset :=
  ⟨_, (gen_read_bits g n ⟨hd, hs⟩).1, (gen_read_bits g n ⟨hd, hs⟩).2, (rdOk_advance ⟨hd, hs⟩ n).1, (rdOk_advance ⟨hd, hs⟩ n).2⟩

/-- one `read_bits` call of a history: collect the value, continue with the new state -/
def C07.readStep (acc : List ℕ × Gen.ReaderS) (n : ℕ) : Py.M (List ℕ × Gen.ReaderS) := do
  let (x, r) ← Gen.BitReader.read_bits acc.2 n
  pure (acc.1 ++ [x], r)

/-- **Every history of `read_bits` calls**: no call raises and the values are the consecutive zero-extended segments of the
    initial window. -/
theorem C07.gen_reader_history (ns : List ℕ) (g : Gen.ReaderS) (hd : IsBytes g.data) (hs : g.start_offset ≤ g.bit_offset) :
    ∃ g', ns.foldlM C07.readStep ([], g)
        = .ok ((ns.foldl (fun (acc : List ℕ × List Bool) n => (acc.1 ++ [ofBits (takeZ n acc.2)], acc.2.drop n))
                ([], (toRd g).window)).1, g') := by
  have key : ∀ (ns : List ℕ) (g : Gen.ReaderS) (out : List ℕ), RdOk g →
      ∃ g', ns.foldlM C07.readStep (out, g)
          = .ok ((ns.foldl (fun (acc : List ℕ × List Bool) n => (acc.1 ++ [ofBits (takeZ n acc.2)], acc.2.drop n))
                  (out, (toRd g).window)).1, g') := by
    intro ns
    induction ns with
    | nil => intro g out _; exact ⟨g, rfl⟩
    | cons n ns ih =>
      intro g out hg
      obtain ⟨e1, e2⟩ := C07.gen_read_bits_window g n hg.1 hg.2
      obtain ⟨g', h⟩ := ih { g with bit_offset := g.bit_offset + n } (out ++ [ofBits (takeZ n (toRd g).window)]) (rdOk_advance hg n)
      refine ⟨g', ?_⟩
      have step : C07.readStep (out, g) n
          = .ok (out ++ [ofBits (takeZ n (toRd g).window)], { g with bit_offset := g.bit_offset + n }) := by
        simp only [C07.readStep, e1, ok_bind, pure_eq_ok]
      rw [List.foldlM_cons, step, ok_bind, List.foldl_cons, ← e2]
      exact h
  exact key ns g [] ⟨hd, hs⟩

example : [3, 16, 8].foldlM C07.readStep ([], ⟨[0x6D, 0x5E, 0x05], 0, 0, none⟩)
    = .ok ([5, 0xABCD, 0], ⟨[0x6D, 0x5E, 0x05], 0, 27, none⟩) := by decide +kernel

/-- **`bounded_subreader(k)`** of the generated reader: never raises; the sub-reader sees exactly the next `k` bits of the
    data, the parent continues behind them, and the sub-reader again satisfies the hypotheses of the theorems above. -/
theorem C07.gen_sub_reader_window (g : Gen.ReaderS) (k : ℕ) (hd : IsBytes g.data) :
    ∃ sub g', Gen.BitReader.bounded_subreader g k = .ok (sub, g') ∧
      (toRd sub).window = ((bytesToBits g.data).drop g.bit_offset).take k ∧
      g' = { g with bit_offset := g.bit_offset + k } ∧ IsBytes sub.data ∧ sub.start_offset ≤ sub.bit_offset := by
  obtain ⟨e1, e2, _⟩ := gen_bounded_subreader g k
  obtain ⟨s1, _, _⟩ := C07.sub_reader_window (toRd g) k
  exact ⟨_, _, e1, by rw [e2]; exact s1, rfl, hd, Nat.le_refl _⟩

/-- **`remaining_bits`** of the generated reader is the length of the window (for a reader positioned inside its data). -/
theorem C07.gen_remaining_bits (g : Gen.ReaderS) (hs : g.start_offset ≤ g.bit_offset)
    (h : g.bit_limit = none ∨ ∃ lim, g.bit_limit = some lim ∧
      g.bit_offset + (lim - (g.bit_offset - g.start_offset)) ≤ 8 * g.data.length) :
    Gen.BitReader.remaining_bits g = .ok (toRd g).window.length := by
  rw [Bridge.gen_remaining_bits g hs, remaining_spec (toRd g)]
  rcases h with h | ⟨lim, h1, h2⟩
  · exact Or.inl h
  · exact Or.inr ⟨lim, h1, by simpa [toRd] using h2⟩

example : Gen.BitReader.remaining_bits ⟨[1, 2, 3, 4], 5, 9, some 12⟩ = .ok 8 := by decide +kernel

/-- **`align_to`** of the generated reader, for every state: never raises, moves the position to the next multiple of the
    alignment (stays for alignment 0), changes nothing else. -/
theorem C07.gen_reader_align_to (g : Gen.ReaderS) (a : ℕ) :
    ∃ k, Gen.BitReader.align_to g a = .ok { g with bit_offset := g.bit_offset + k } ∧
      toRd { g with bit_offset := g.bit_offset + k } = (toRd g).alignTo a ∧ (a > 0 → (g.bit_offset + k) % a = 0 ∧ k < a) := by
  obtain ⟨k, e1, e2⟩ := Bridge.gen_reader_align_to g a
  refine ⟨k, e1, e2, fun ha => ?_⟩
  have h : (toRd (advance g k)).off = ((toRd g).alignTo a).off := by rw [e2]
  simp only [toRd, advance, Rd.alignTo] at h
  have ha0 : ¬ a = 0 := by omega
  simp only [ha0, if_false] at h
  have hm := Nat.mod_lt g.bit_offset ha
  have hdm := Nat.div_add_mod g.bit_offset a
  by_cases hr : g.bit_offset % a = 0
  · simp only [hr, ne_eq, not_true_eq_false, if_false] at h
    have hk : k = 0 := by omega
    subst hk; exact ⟨by simpa using hr, ha⟩
  · simp only [hr, ne_eq, not_false_eq_true, if_true] at h
    have hk : k = a - g.bit_offset % a := by omega
    refine ⟨?_, by omega⟩
    have : g.bit_offset + k = a * (g.bit_offset / a + 1) := by rw [Nat.mul_add, Nat.mul_one]; omega
    rw [this, Nat.mul_mod_right]

example : Gen.BitReader.align_to ⟨[1, 2, 3, 4], 0, 9, none⟩ 8 = .ok ⟨[1, 2, 3, 4], 0, 16, none⟩ := by decide +kernel

/-!
# C07 over the DESERIALIZER generated from `_serdes.py`

`Gen/Codec.lean` is translated on every run from the functions `deserialize`, `_deserialize_primitive`, `_deserialize_array`,
`_deserialize_element`, `_deserialize_composite`, `_deserialize_field_value` of the working tree of /repo (schema objects with dynamic
attribute access and `isinstance` dispatch, Python values, explicit reader state, one unit of fuel per Python frame).
`Bridge/Codec.lean` proves that on every well-formed schema object the generated code returns exactly what the hand-written
`WireIO.decR` / `deserializeR` return; `Props/C06WireIO.lean` proves those equal to `Wire.dec` / `Wire.deserialize`.  The theorems
below restate the C07 theorems over the generated `deserialize`.

Hypotheses on the schema object `s`: `okT s` (the object graph is one that pydsdl's constructors build), `isCompObj s` (a structure,
union or delimited type: what `deserialize` accepts besides services), `(tyOf s).wf` (the descriptor is well-formed), and
`depth s ≤ Py.recursionLimit` (the nesting depth fits into CPython's recursion limit; deeper types raise RecursionError in Python, too).
-/
open Py in
/-- **The generated `deserialize` is the model's `deserialize`**: for every byte string and both values of
    `with_delimiter_header` it returns the Python value of the model's value, or raises the exception of the model's error
    class (`errOf`: ArrayLengthError / UnionTagError / DelimiterHeaderError / ValueError). -/
theorem C07.gen_deserialize_is_model (s : Obj) (hs : okT s = true) (hc : isCompObj s = true) (hw : (tyOf s).wf = true)
    (hd : depth s ≤ Py.recursionLimit) (data : List ℕ) (hb : IsBytes data) (hdr : Bool) :
    Gen.Codec.deserialize s data hdr = liftTop s (Wire.deserialize (tyOf s) (bytesToBits data) hdr) := by
  rw [gen_deserialize s hs hc hw hd data hb hdr, C07.deserialize_bytes _ _ _ hw]

/-- a schema object with every kind of member: primitive fields of odd widths, padding, a variable-length array of signed
    integers, a float, a fixed array of a nested union, a delimited union with a UTF-8 string variant -/
def C07.exObj : Py.Obj :=
  .structure
    [.field (.unsigned 8 .saturated) "a", .paddingField (.void 3),
     .field (.varArray (.signed 3 .saturated) 5 (.unsigned 8 .truncated)) "b",
     .field (.float 16 .saturated) "f",
     .field (.fixedArray (.union [.field .boolean "p", .field (.unsigned 5 .truncated) "q"] (.unsigned 8 .truncated) 8 "ns.V") 2) "w",
     .field (.delimited (.union [.field .boolean "x", .field (.varArray .utf8 4 (.unsigned 8 .truncated)) "s",
        .field (.varArray .byte 2 (.unsigned 8 .truncated)) "y"] (.unsigned 8 .truncated) 8 "ns.U")
        (.unsigned 32 .truncated) 64 8) "u"] 8 "ns.S"

example : okT C07.exObj = true ∧ isCompObj C07.exObj = true ∧ (tyOf C07.exObj).wf = true ∧
    depth C07.exObj ≤ Py.recursionLimit := by decide

/-- evaluated (the same bytes give the same dict in CPython): -/
example : Gen.Codec.deserialize C07.exObj [7, 24, 184, 6, 192, 3, 1, 9, 0, 0, 5, 0, 0, 0, 1, 3, 65, 195, 169] false
    = .ok (.dict [("a", .int 7), ("b", .list [.int (-1), .int 2, .int 3]), ("f", .float 0x3C00),
        ("w", .list [.dict [("q", .int 9)], .dict [("p", .bool false)]]), ("u", .dict [("s", .str [65, 195, 169])])]) :=
  sameOutcome_sound (by decide +kernel)
/-- invalid UTF-8 inside the delimited union; an over-long array; a tag that names no variant; a header beyond the data -/
example : Gen.Codec.deserialize C07.exObj [7, 24, 184, 6, 192, 3, 1, 9, 0, 0, 5, 0, 0, 0, 1, 3, 65, 195, 40] false
    = .error .valueError := sameOutcome_sound (by decide +kernel)
example : Gen.Codec.deserialize C07.exObj [7, 0x30] false = .error (.other "ArrayLengthError") :=
  sameOutcome_sound (by decide +kernel)
example : Gen.Codec.deserialize C07.exObj [7, 0, 0, 0, 0, 2] false = .error (.other "UnionTagError") :=
  sameOutcome_sound (by decide +kernel)
example : Gen.Codec.deserialize C07.exObj [7, 0, 0, 0, 0, 0, 0, 0, 0, 0, 9, 0, 0, 0, 1] false
    = .error (.other "DelimiterHeaderError") := sameOutcome_sound (by decide +kernel)

/-- the exception classes `deserialize` may raise -/
def C07.DecodeError (e : Py.Err) : Prop :=
  e = .other "ArrayLengthError" ∨ e = .other "UnionTagError" ∨ e = .other "DelimiterHeaderError" ∨ e = .valueError

theorem C07.errOf_decodeError (e : Wire.Err) (h : e.isDecodeError = true) : C07.DecodeError (errOf e) := by
  cases e <;> simp [Wire.Err.isDecodeError] at h <;> simp [C07.DecodeError, errOf]

open Py in
/-- **Totality of the generated `deserialize`**: every byte string yields a value or one of the four documented exception
    classes -- never IndexError, KeyError, TypeError, AttributeError, AssertionError, struct.error, OverflowError, RecursionError,
    which the generated code could express (`Py.Err`) and PyLib / PyLib.Codec raise where CPython does. -/
theorem C07.gen_deserialize_total (s : Obj) (hs : okT s = true) (hc : isCompObj s = true) (hw : (tyOf s).wf = true)
    (hd : depth s ≤ Py.recursionLimit) (data : List ℕ) (hb : IsBytes data) (hdr : Bool) :
    (∃ v, Gen.Codec.deserialize s data hdr = .ok v) ∨
      (∃ e, Gen.Codec.deserialize s data hdr = .error e ∧ C07.DecodeError e) := by
  rw [C07.gen_deserialize_is_model s hs hc hw hd data hb hdr]
  rcases C07.total (tyOf s) (bytesToBits data) hdr with ⟨v, h⟩ | ⟨e, h, he⟩
  · exact Or.inl ⟨_, by rw [h]; rfl⟩
  · exact Or.inr ⟨_, by rw [h]; rfl, C07.errOf_decodeError e he⟩

theorem C07.liftTop_ok {s : Py.Obj} {y : Except Wire.Err Wire.Val} {pv : Py.Value} (h : liftTop s y = .ok pv) :
    ∃ v, y = .ok v ∧ pv = valueOf s v := by
  cases y with
  | error e => cases h
  | ok v => exact ⟨v, rfl, by cases h; rfl⟩

theorem C07.bytesToBits_zeros (data : List ℕ) (k : ℕ) :
    bytesToBits (data ++ List.replicate k 0) = bytesToBits data ++ Wire.zeros (8 * k) := by
  rw [bytesToBits_append, bytesToBits_replicate_zero]; rfl

open Py in
/-- **Implicit zero extension, generated code**: if a byte string decodes, the same bytes followed by any number of zero bytes
    decode to the same Python object. -/
theorem C07.gen_zero_ext (s : Obj) (hs : okT s = true) (hc : isCompObj s = true) (hw : (tyOf s).wf = true)
    (hd : depth s ≤ Py.recursionLimit) (data : List ℕ) (hb : IsBytes data) (hdr : Bool) (k : ℕ) (pv : Value)
    (h : Gen.Codec.deserialize s data hdr = .ok pv) :
    Gen.Codec.deserialize s (data ++ List.replicate k 0) hdr = .ok pv := by
  rw [C07.gen_deserialize_is_model s hs hc hw hd data hb hdr] at h
  obtain ⟨v, hv, rfl⟩ := C07.liftTop_ok h
  rw [C07.gen_deserialize_is_model s hs hc hw hd _ (isBytes_append hb (isBytes_replicate_zero k)) hdr, C07.bytesToBits_zeros,
    C07.zero_ext _ _ _ _ _ hv]
  rfl

open Py in
/-- **… and its converse**: if the zero-extended byte string decodes, the original one decodes to the same object -- unless it
    raises DelimiterHeaderError (a delimiter header that exceeds the data actually present; the exception the property names). -/
theorem C07.gen_zero_ext_conv (s : Obj) (hs : okT s = true) (hc : isCompObj s = true) (hw : (tyOf s).wf = true)
    (hd : depth s ≤ Py.recursionLimit) (data : List ℕ) (hb : IsBytes data) (hdr : Bool) (k : ℕ) (pv : Value)
    (h : Gen.Codec.deserialize s (data ++ List.replicate k 0) hdr = .ok pv) :
    Gen.Codec.deserialize s data hdr = .ok pv ∨ Gen.Codec.deserialize s data hdr = .error (.other "DelimiterHeaderError") := by
  rw [C07.gen_deserialize_is_model s hs hc hw hd _ (isBytes_append hb (isBytes_replicate_zero k)) hdr, C07.bytesToBits_zeros] at h
  obtain ⟨v, hv, rfl⟩ := C07.liftTop_ok h
  rw [C07.gen_deserialize_is_model s hs hc hw hd data hb hdr]
  rcases C07.zero_ext_conv _ _ _ _ _ hv with h1 | h1
  · left; rw [h1]; rfl
  · right; rw [h1]; rfl

/-- the header of the delimited member announces 4 bytes, 3 are there: DelimiterHeaderError; with one zero byte appended: decoded -/
example : Gen.Codec.deserialize C07.exObj [7, 0, 0, 0, 0, 0, 0, 0, 0, 4, 0, 0, 0, 1, 2, 65] false
      = .error (.other "DelimiterHeaderError") ∧
    Gen.Codec.deserialize C07.exObj ([7, 0, 0, 0, 0, 0, 0, 0, 0, 4, 0, 0, 0, 1, 2, 65] ++ List.replicate 1 0) false
      = .ok (.dict [("a", .int 7), ("b", .list []), ("f", .float 0),
          ("w", .list [.dict [("p", .bool false)], .dict [("p", .bool false)]]), ("u", .dict [("s", .str [65, 0])])]) :=
  ⟨sameOutcome_sound (by decide +kernel), sameOutcome_sound (by decide +kernel)⟩

open Py in
/-- **Implicit truncation, generated code**: a byte string that starts with a complete representation of a valid value (as the
    model's encoder lays it out; no delimiter header at the top) decodes to that value whatever follows. -/
theorem C07.gen_truncation (s : Obj) (hs : okT s = true) (hc : isCompObj s = true) (hw : (tyOf s).wf = true)
    (hd : depth s ≤ Py.recursionLimit) (v : Wire.Val) (hv : Wire.valid (tyOf s) v = true)
    (data junk : List ℕ) (hb : IsBytes data) (hj : IsBytes junk) (henc : bytesToBits data = Wire.enc (tyOf s).inner v 0) :
    Gen.Codec.deserialize s (data ++ junk) false = .ok (valueOf s v) := by
  rw [C07.gen_deserialize_is_model s hs hc hw hd _ (isBytes_append hb hj) false, bytesToBits_append, henc,
    C07.truncation _ _ _ hw hv]
  rfl

open Py in
/-- **Fixed point, generated code**: whatever the generated `deserialize` returns is the Python value of a canonical value that
    is valid for the type, and every byte string that starts with the encoding of that value decodes to the same object again. -/
theorem C07.gen_fixed_point (s : Obj) (hs : okT s = true) (hc : isCompObj s = true) (hw : (tyOf s).wf = true)
    (hd : depth s ≤ Py.recursionLimit) (data : List ℕ) (hb : IsBytes data) (hdr : Bool) (pv : Value)
    (h : Gen.Codec.deserialize s data hdr = .ok pv) :
    ∃ v, pv = valueOf s v ∧ Wire.valid (tyOf s) v = true ∧
      ∀ data' junk, IsBytes data' → IsBytes junk →
        bytesToBits data' = Wire.enc (if hdr = true then tyOf s else (tyOf s).inner) v 0 →
        Gen.Codec.deserialize s (data' ++ junk) hdr = .ok pv := by
  rw [C07.gen_deserialize_is_model s hs hc hw hd data hb hdr] at h
  obtain ⟨v, hv, rfl⟩ := C07.liftTop_ok h
  obtain ⟨h1, h2⟩ := C07.fixed_point _ _ _ _ hw hv
  refine ⟨v, rfl, h1, fun data' junk hb' hj henc => ?_⟩
  rw [C07.gen_deserialize_is_model s hs hc hw hd _ (isBytes_append hb' hj) hdr, bytesToBits_append, henc, h2]
  rfl
