import Bridge.Serdes
import Props.C06BitIO
/-!
# C07 over the bit-level reader generated from `_serdes.py`

`Gen/Serdes.lean` is translated from `_BitReader` of the working tree of /repo on every run.  `Bridge/Serdes.lean` proves that
the generated methods never raise and compute what `Model/BitIO.lean` computes (bit-wise loop, byte-aligned branch with zero
padding of a short slice, limit logic of bounded sub-readers incl. the calls of `read_bits` by itself); the theorems here restate
the reader theorems of `Props/C06BitIO.lean` over the generated code: `read_bits(n)` returns the next `n` bits of the window -- the
data from the current position up to the limit -- extended with zeros, for every offset, width and limit.
-/
open BitIO Bridge

/-- **The generated `read_bits` returns the `n` bits of the zero-extended, limit-truncated window.**  For every reader
    state whose data are bytes and whose position is not before its start -- any offset, any limit, any width, whichever
    path is taken, whether or not the limit is crossed -- the generated method returns normally; the value is the number whose
    bits are the next `n` bits of the window padded with zeros, the reader is the same reader `n` bits further, and its window is
    the rest of the old one. -/
theorem C07.gen_read_bits_window (g : Gen.ReaderS) (n : ℕ) (hd : IsBytes g.data) (hs : g.start_offset ≤ g.bit_offset) :
    Gen.BitReader.read_bits g n = .ok (ofBits (takeZ n (toRd g).window), { g with bit_offset := g.bit_offset + n }) ∧
      (toRd { g with bit_offset := g.bit_offset + n }).window = (toRd g).window.drop n := by
  obtain ⟨e1, e2⟩ := gen_read_bits g n ⟨hd, hs⟩
  obtain ⟨s1, _, s3⟩ := C07.read_bits_window (toRd g) n hs
  refine ⟨by rw [e1, s1]; rfl, ?_⟩
  have : toRd { g with bit_offset := g.bit_offset + n } = (readBits (toRd g) n).2 := e2
  rw [this]; exact s3

/-- a bounded sub-reader in the middle of a byte whose limit is crossed by an aligned-width request -/
example : IsBytes [0xEF, 0xCD, 0xAB, 0x12] ∧ (3 : ℕ) ≤ 3 := ⟨fun b hb => by simp at hb; omega, Nat.le_refl _⟩
example : Gen.BitReader.read_bits ⟨[0xEF, 0xCD, 0xAB, 0x12], 3, 3, some 20⟩ 27
    = .ok (358845, ⟨[0xEF, 0xCD, 0xAB, 0x12], 3, 30, some 20⟩) := by decide +kernel
/-- byte-aligned path with 3 remaining bits, read by the method calling itself -/
example : Gen.BitReader.read_bits ⟨[0xEF, 0xCD, 0xAB, 0x12], 8, 8, none⟩ 19
    = .ok (175053, ⟨[0xEF, 0xCD, 0xAB, 0x12], 8, 27, none⟩) := by decide +kernel

/-- **The generated code equals the model**, value and state. -/
theorem C07.gen_read_bits_is_model (g : Gen.ReaderS) (n : ℕ) (hd : IsBytes g.data) (hs : g.start_offset ≤ g.bit_offset) :
    ∃ g', Gen.BitReader.read_bits g n = .ok ((readBits (toRd g) n).1, g') ∧ toRd g' = (readBits (toRd g) n).2 ∧
      IsBytes g'.data ∧ g'.start_offset ≤ g'.bit_offset :=
  ⟨_, (gen_read_bits g n ⟨hd, hs⟩).1, (gen_read_bits g n ⟨hd, hs⟩).2, (rdOk_advance ⟨hd, hs⟩ n).1, (rdOk_advance ⟨hd, hs⟩ n).2⟩

/-- one `read_bits` call of a history: collect the value, continue with the new state -/
def C07.readStep (acc : List ℕ × Gen.ReaderS) (n : ℕ) : Py.M (List ℕ × Gen.ReaderS) := do
  let (x, r) ← Gen.BitReader.read_bits acc.2 n
  pure (acc.1 ++ [x], r)

/-- **Every history of `read_bits` calls**: no call raises and the values are the consecutive zero-extended segments of the
    initial window. -/
theorem C07.gen_reader_history (ns : List ℕ) (g : Gen.ReaderS) (hd : IsBytes g.data) (hs : g.start_offset ≤ g.bit_offset) :
    ∃ g', ns.foldlM C07.readStep ([], g)
        = .ok ((ns.foldl (fun (acc : List ℕ × List Bool) n => (acc.1 ++ [ofBits (takeZ n acc.2)], acc.2.drop n))
                ([], (toRd g).window)).1, g') := by
  have key : ∀ (ns : List ℕ) (g : Gen.ReaderS) (out : List ℕ), RdOk g →
      ∃ g', ns.foldlM C07.readStep (out, g)
          = .ok ((ns.foldl (fun (acc : List ℕ × List Bool) n => (acc.1 ++ [ofBits (takeZ n acc.2)], acc.2.drop n))
                  (out, (toRd g).window)).1, g') := by
    intro ns
    induction ns with
    | nil => intro g out _; exact ⟨g, rfl⟩
    | cons n ns ih =>
      intro g out hg
      obtain ⟨e1, e2⟩ := C07.gen_read_bits_window g n hg.1 hg.2
      obtain ⟨g', h⟩ := ih { g with bit_offset := g.bit_offset + n } (out ++ [ofBits (takeZ n (toRd g).window)]) (rdOk_advance hg n)
      refine ⟨g', ?_⟩
      have step : C07.readStep (out, g) n
          = .ok (out ++ [ofBits (takeZ n (toRd g).window)], { g with bit_offset := g.bit_offset + n }) := by
        simp only [C07.readStep, e1, ok_bind, pure_eq_ok]
      rw [List.foldlM_cons, step, ok_bind, List.foldl_cons, ← e2]
      exact h
  exact key ns g [] ⟨hd, hs⟩

example : [3, 16, 8].foldlM C07.readStep ([], ⟨[0x6D, 0x5E, 0x05], 0, 0, none⟩)
    = .ok ([5, 0xABCD, 0], ⟨[0x6D, 0x5E, 0x05], 0, 27, none⟩) := by decide +kernel

/-- **`bounded_subreader(k)`** of the generated reader: never raises; the sub-reader sees exactly the next `k` bits of the
    data, the parent continues behind them, and the sub-reader again satisfies the hypotheses of the theorems above. -/
theorem C07.gen_sub_reader_window (g : Gen.ReaderS) (k : ℕ) (hd : IsBytes g.data) :
    ∃ sub g', Gen.BitReader.bounded_subreader g k = .ok (sub, g') ∧
      (toRd sub).window = ((bytesToBits g.data).drop g.bit_offset).take k ∧
      g' = { g with bit_offset := g.bit_offset + k } ∧ IsBytes sub.data ∧ sub.start_offset ≤ sub.bit_offset := by
  obtain ⟨e1, e2, _⟩ := gen_bounded_subreader g k
  obtain ⟨s1, _, _⟩ := C07.sub_reader_window (toRd g) k
  exact ⟨_, _, e1, by rw [e2]; exact s1, rfl, hd, Nat.le_refl _⟩

/-- **`remaining_bits`** of the generated reader is the length of the window (for a reader positioned inside its data). -/
theorem C07.gen_remaining_bits (g : Gen.ReaderS) (hs : g.start_offset ≤ g.bit_offset)
    (h : g.bit_limit = none ∨ ∃ lim, g.bit_limit = some lim ∧
      g.bit_offset + (lim - (g.bit_offset - g.start_offset)) ≤ 8 * g.data.length) :
    Gen.BitReader.remaining_bits g = .ok (toRd g).window.length := by
  rw [Bridge.gen_remaining_bits g hs, remaining_spec (toRd g)]
  rcases h with h | ⟨lim, h1, h2⟩
  · exact Or.inl h
  · exact Or.inr ⟨lim, h1, by simpa [toRd] using h2⟩

example : Gen.BitReader.remaining_bits ⟨[1, 2, 3, 4], 5, 9, some 12⟩ = .ok 8 := by decide +kernel

/-- **`align_to`** of the generated reader, for every state: never raises, moves the position to the next multiple of the
    alignment (stays for alignment 0), changes nothing else. -/
theorem C07.gen_reader_align_to (g : Gen.ReaderS) (a : ℕ) :
    ∃ k, Gen.BitReader.align_to g a = .ok { g with bit_offset := g.bit_offset + k } ∧
      toRd { g with bit_offset := g.bit_offset + k } = (toRd g).alignTo a ∧ (a > 0 → (g.bit_offset + k) % a = 0 ∧ k < a) := by
  obtain ⟨k, e1, e2⟩ := Bridge.gen_reader_align_to g a
  refine ⟨k, e1, e2, fun ha => ?_⟩
  have h : (toRd (advance g k)).off = ((toRd g).alignTo a).off := by rw [e2]
  simp only [toRd, advance, Rd.alignTo] at h
  have ha0 : ¬ a = 0 := by omega
  simp only [ha0, if_false] at h
  have hm := Nat.mod_lt g.bit_offset ha
  have hdm := Nat.div_add_mod g.bit_offset a
  by_cases hr : g.bit_offset % a = 0
  · simp only [hr, ne_eq, not_true_eq_false, if_false] at h
    have hk : k = 0 := by omega
    subst hk; exact ⟨by simpa using hr, ha⟩
  · simp only [hr, ne_eq, not_false_eq_true, if_true] at h
    have hk : k = a - g.bit_offset % a := by omega
    refine ⟨?_, by omega⟩
    have : g.bit_offset + k = a * (g.bit_offset / a + 1) := by rw [Nat.mul_add, Nat.mul_one]; omega
    rw [this, Nat.mul_mod_right]

example : Gen.BitReader.align_to ⟨[1, 2, 3, 4], 0, 9, none⟩ 8 = .ok ⟨[1, 2, 3, 4], 0, 16, none⟩ := by decide +kernel
