import Bridge.Serdes
import Props.C06BitIO
/-!
# C06 over the bit-level writer generated from `_serdes.py`

`Gen/Serdes.lean` is translated from `_BitWriter` of the working tree of /repo on every run (byte buffer as `List Nat`, the object
state passed explicitly, `write_bits`' call of itself bounded by CPython's recursion limit).  `Bridge/Serdes.lean` proves that the
generated methods never raise and compute what `Model/BitIO.lean` computes, path by path; the theorems here restate the
writer theorems of `Props/C06BitIO.lean` over the generated code: whatever path `write_bits` takes, from every state whose
buffer is the written bits zero-padded to a whole byte it appends exactly the `n` low bits of the value.
-/
open BitIO Bridge

/-- **The generated `write_bits` appends the `n` low bits.**  From every writer state whose buffer consists of bytes and is
    exactly the bits written so far, zero-padded to a byte (`W.ok` of its bit view), the generated method returns normally; the
    new buffer again consists of bytes and satisfies the invariant, the position advances by `n`, and the bits written are the old
    ones followed by the `n` low bits of `v`, least significant first. -/
theorem C06.gen_write_bits_appends (g : Gen.WriterS) (v n : ℕ) (hb : IsBytes g.buffer) (hok : (toW g).ok = true) :
    ∃ g', Gen.BitWriter.write_bits g v n = .ok g' ∧ IsBytes g'.buffer ∧ (toW g').ok = true ∧
      g'.bit_offset = g.bit_offset + n ∧ (toW g').logical = (toW g).logical ++ natBits n v := by
  obtain ⟨g', e1, e2, e3⟩ := gen_write_bits g v n (winv_of_ok g hb hok)
  obtain ⟨s1, s2, s3⟩ := C06.write_bits_appends (toW g) v n hok
  refine ⟨g', e1, e3.1, by rw [e2]; exact s1, ?_, by rw [e2]; exact s3⟩
  have : (toW g').off = (toW g).off + n := by rw [e2]; exact s2
  exact this

example : IsBytes [5] ∧ (toW ⟨[5], 3⟩).ok = true :=
  ⟨fun b hb => by simp at hb; omega, by decide⟩
/-- evaluated: 16 bits at bit 3 (bit-wise path), then 19 bits at a byte boundary (aligned path + 3 bits bit-wise) -/
example : (do let w ← Gen.BitWriter.write_bits ⟨[5], 3⟩ 0xABCD 16
              let w ← Gen.BitWriter.align_to w 8
              Gen.BitWriter.write_bits w 0x54321 19) = .ok ⟨[0x6D, 0x5E, 0x05, 0x21, 0x43, 0x05], 43⟩ := by
  decide +kernel

/-- **The generated code equals the model path by path**, from every state whose position is not behind the end of its
    buffer (`WInv`, weaker than the invariant; it covers the overwrite branches of the byte-aligned path, which the
    invariant makes unreachable): same bit-level buffer, same position, and `WInv` again. -/
theorem C06.gen_write_bits_is_model (g : Gen.WriterS) (v n : ℕ) (hg : WInv g) :
    ∃ g', Gen.BitWriter.write_bits g v n = .ok g' ∧ toW g' = writeBits (toW g) v n ∧ WInv g' :=
  gen_write_bits g v n hg

/-- a state that violates the invariant (two stale bytes behind the position) but satisfies `WInv`: the aligned path
    overwrites one byte and keeps the other -/
example : WInv ⟨[1, 2, 3], 8⟩ ∧ (toW ⟨[1, 2, 3], 8⟩).ok = false :=
  ⟨⟨fun b hb => by simp at hb; omega, by decide⟩, by decide⟩

/-- **`align_to`** of the generated writer pads with zero bits up to the alignment. -/
theorem C06.gen_align_to_pads (g : Gen.WriterS) (a : ℕ) (hb : IsBytes g.buffer) (hok : (toW g).ok = true) :
    ∃ g', Gen.BitWriter.align_to g a = .ok g' ∧ IsBytes g'.buffer ∧ (toW g').ok = true ∧
      (a > 0 → g'.bit_offset % a = 0) ∧ ∃ k, (toW g').logical = (toW g).logical ++ zeros k ∧ (a > 0 → k < a) := by
  obtain ⟨g', e1, e2, e3⟩ := gen_writer_align_to g a (winv_of_ok g hb hok)
  obtain ⟨s1, s2, s3⟩ := C06.align_to_pads (toW g) a hok
  refine ⟨g', e1, e3.1, by rw [e2]; exact s1, ?_, by rw [e2]; exact s3⟩
  intro ha
  have : (toW g').off % a = 0 := by rw [e2]; exact s2 ha
  exact this

/-- **Every history of `write_bits` calls on a fresh `_BitWriter()`**: no call raises, and what `finish()` returns is, as
    bits, the concatenation of the written fields zero-padded to a whole byte; the position is the total width. -/
theorem C06.gen_writer_history (ops : List (ℕ × ℕ)) :
    ∃ g bytes, (do let w ← Gen.BitWriter.init
                   ops.foldlM (fun w (op : ℕ × ℕ) => Gen.BitWriter.write_bits w op.1 op.2) w) = .ok g ∧
      Gen.BitWriter.finish g = .ok bytes ∧ IsBytes bytes ∧
      bytesToBits bytes = pad8 (ops.flatMap fun op => natBits op.2 op.1) ∧
      g.bit_offset = (ops.map Prod.snd).sum := by
  have key : ∀ (ops : List (ℕ × ℕ)) (g0 : Gen.WriterS), WInv g0 →
      ∃ g, ops.foldlM (fun w op => Gen.BitWriter.write_bits w op.1 op.2) g0 = .ok g ∧
        toW g = ops.foldl (fun w op => writeBits w op.1 op.2) (toW g0) ∧ WInv g := by
    intro ops
    induction ops with
    | nil => intro g0 h; exact ⟨g0, rfl, rfl, h⟩
    | cons op ops ih =>
      intro g0 h
      obtain ⟨g1, e1, e2, e3⟩ := gen_write_bits g0 op.1 op.2 h
      obtain ⟨g, f1, f2, f3⟩ := ih g1 e3
      refine ⟨g, ?_, ?_, f3⟩
      · rw [List.foldlM_cons, e1]; exact f1
      · rw [f2, e2]; rfl
  obtain ⟨i1, i2, i3, _⟩ := gen_writer_init
  obtain ⟨g, e1, e2, e3⟩ := key ops ⟨[], 0⟩ i2
  obtain ⟨_, h2, h3⟩ := C06.writer_history ops
  rw [i3] at e2
  refine ⟨g, g.buffer, by rw [i1]; exact e1, rfl, e3.1, ?_, ?_⟩
  · have : (toW g).buf = pad8 (ops.flatMap fun op => natBits op.2 op.1) := by rw [e2]; exact h2
    exact this
  · have : (toW g).off = (ops.map Prod.snd).sum := by rw [e2]; exact h3
    exact this

example : (do let w ← Gen.BitWriter.init
              [(5, 3), (0xABCD, 16)].foldlM (fun w (op : ℕ × ℕ) => Gen.BitWriter.write_bits w op.1 op.2) w)
    = .ok ⟨[0x6D, 0x5E, 0x05], 19⟩ := by decide +kernel
